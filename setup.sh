#!/bin/bash
# Build the framework from files on disk only (offline): harness crates against /repo, the Lean model,
# every property's theorem module, the table checks and the compiled model driver.
set -e
cd "$(dirname "$0")"
export CARGO_NET_OFFLINE=true CARGO_TARGET_DIR=/verif/build/target
mkdir -p build evidence
(cd harness/fast && cargo build --offline -q)
(cd harness/nofast && cargo build --offline -q)
(cd harness/o0 && cargo build --offline -q)
./build/target/debug/harness tables > lean/LexprModel/Generated/Tables.lean.new
if ! cmp -s lean/LexprModel/Generated/Tables.lean.new lean/LexprModel/Generated/Tables.lean; then
  mv lean/LexprModel/Generated/Tables.lean.new lean/LexprModel/Generated/Tables.lean
else
  rm lean/LexprModel/Generated/Tables.lean.new
fi
cd lean
mods=$(ls LexprModel/Props/*.lean | sed 's#/#.#g; s#\.lean$##')
lake build $mods LexprModel.Proofs.ConsOpsAll LexprModel.Proofs.DatumDepth LexprModel.TablesCheck driver
echo "setup ok"
