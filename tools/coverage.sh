#!/bin/bash
# How much of /repo does the correspondence actually execute?  Builds the harness with source-based coverage
# (nightly toolchain: llvm-profdata / llvm-cov are only shipped there), runs every operation family of every
# property once (quick counts) with the `exec` side only — the side that calls the real code — and reports, per
# source file of the three crates, the regions / lines never executed.  A line the harness never reaches is a
# line whose behaviour no correspondence run constrains: the list is what tells me where a generator is missing.
#   usage: tools/coverage.sh            -> build/coverage/{summary.txt,uncovered.txt}
# Not part of any check (it needs the nightly toolchain and takes a few minutes); its result is recorded in
# DESIGN.md section 14.
set -e
cd /verif
TOOLS=$(dirname $(rustc +nightly --print target-libdir))/bin
OUT=/verif/build/coverage; rm -rf $OUT; mkdir -p $OUT/prof
export CARGO_NET_OFFLINE=true CARGO_TARGET_DIR=/verif/build/cov-target
export RUSTFLAGS="-C instrument-coverage"
(cd harness/fast && LLVM_PROFILE_FILE=$OUT/prof/build-%p.profraw cargo +nightly build --offline -q)
H=$CARGO_TARGET_DIR/debug/harness
unset RUSTFLAGS
python3 - "$H" "$OUT" <<'PY'
import sys, os, subprocess
sys.path.insert(0, "/verif/tools")
import vlib
H, OUT = sys.argv[1], sys.argv[2]
fams = {}
for prop, cfg in vlib.PROPS.items():
    for fam, count, build in cfg["fams"]:
        fams[fam] = max(fams.get(fam, 0), min(count, 1500))
i = 0
for fam, count in sorted(fams.items()):
    ops = os.path.join(OUT, fam + ".ops")
    env = dict(os.environ, LLVM_PROFILE_FILE=os.path.join(OUT, "prof", "gen-%s.profraw" % fam))
    with open(ops, "wb") as f:
        subprocess.run([H, "gen", fam, "1000", str(count)], stdout=f, env=env, check=True)
    env = dict(os.environ, LLVM_PROFILE_FILE=os.path.join(OUT, "prof", "exec-%s.profraw" % fam))
    with open(ops, "rb") as fi:
        subprocess.run([H, "exec", os.path.join(OUT, fam + ".oracle")], stdin=fi, stdout=subprocess.DEVNULL, env=env)
    print("ran", fam, count, flush=True)
env = dict(os.environ, LLVM_PROFILE_FILE=os.path.join(OUT, "prof", "tables.profraw"))
subprocess.run([H, "tables"], stdout=subprocess.DEVNULL, env=env)
for op, shape in [("parse", "proper"), ("print", "proper"), ("clone", "proper"), ("eq", "dotted"), ("datum_clone", "proper"), ("datum_drop", "proper"), ("from_value", "proper"), ("to_value", "proper"), ("alist", "proper")]:
    env = dict(os.environ, LLVM_PROFILE_FILE=os.path.join(OUT, "prof", "depth-%s.profraw" % op))
    subprocess.run([H, "depth", op, shape, "2000"], stdout=subprocess.DEVNULL, env=env)
PY
$TOOLS/llvm-profdata merge -sparse $OUT/prof/*.profraw -o $OUT/all.profdata
SRC=$(ls /repo/lexpr/src/*.rs /repo/lexpr/src/*/*.rs /repo/serde-lexpr/src/*.rs /repo/serde-lexpr/src/*/*.rs | grep -v tests.rs)
$TOOLS/llvm-cov report $H -instr-profile=$OUT/all.profdata $SRC > $OUT/summary.txt 2>/dev/null
$TOOLS/llvm-cov show $H -instr-profile=$OUT/all.profdata $SRC -show-line-counts-or-regions 2>/dev/null > $OUT/show.txt
# lines with an execution count of 0 (code lines only)
awk '/^\/repo\//{file=$0} /^ *[0-9]+\| *0\|/{print file " " $0}' $OUT/show.txt > $OUT/uncovered.txt
cat $OUT/summary.txt
echo "uncovered lines: $(wc -l < $OUT/uncovered.txt)  (build/coverage/uncovered.txt)"
