#!/bin/bash
# scratch helper: run families through harness + driver and report disagreements
H=/verif/build/target/debug/harness; D=/verif/lean/.lake/build/bin/driver; W=/verif/build/work; mkdir -p $W
seed=${SEED:-7}; n=${N:-300}
for f in "$@"; do $H gen $f $seed $n > $W/$f.ops; $H exec $W/$f.oracle < $W/$f.ops > $W/$f.real; $D < $W/$f.ops > $W/$f.model; c=$(wc -l < $W/$f.ops); dis=$(paste -d'\n' $W/$f.real $W/$f.model | awk 'NR%2==1{a=$0} NR%2==0{if(a!=$0)c++} END{print c+0}'); echo "$f ops=$c disagree=$dis oracle=$(wc -l < $W/$f.oracle)"; done
