"""Orchestration shared by every check (see /verif/check and DESIGN.md sections 2, 4, 5)."""
import sys, os, json, time, subprocess, re, fcntl, shutil, hashlib
from concurrent.futures import ThreadPoolExecutor

VERIF = os.path.dirname(os.path.dirname(os.path.abspath(__file__)))
REPO = "/repo"
BUILD = os.path.join(VERIF, "build")
TARGET = os.path.join(BUILD, "target")
LEAN = os.path.join(VERIF, "lean")
HARNESS = os.path.join(TARGET, "debug", "harness")
HARNESS_NOFAST = os.path.join(TARGET, "debug", "harness-nofast")
# the same harness compiled without optimisation: stack use is observed on the build that uses most (a tail
# call that an optimiser turns into a loop is still one frame per element in a debug build)
HARNESS_O0 = os.path.join(TARGET, "debug", "harness-o0")
DRIVER = os.path.join(LEAN, ".lake", "build", "bin", "driver")
ENV = dict(os.environ, CARGO_NET_OFFLINE="true", CARGO_TARGET_DIR=TARGET)
ALLOWED_AXIOMS = {"propext", "Classical.choice", "Quot.sound"}

TRUSTED_BASE = [
    "Lean 4.33 kernel (lake build); axioms limited to propext, Classical.choice, Quot.sound, audited per theorem with #print axioms; no sorry/admit/native_decide/bv_decide/own axioms",
    "the statement of each theorem in lean/LexprModel/Props/ is the right formalisation of the property",
    "the hand-written model corresponds to /repo only as far as the correspondence run has exercised it, plus the exhaustively regenerated tables (Generated/Tables.lean, TablesCheck.lean)",
    "harness (Rust), driver glue (Driver.lean), canonical encoders on both sides, this script",
    "external behaviour assumed: itoa, ryu (RyuSpec), std float parsing (correct rounding), io::Bytes, Write::write_all, char::from_u32, str::from_utf8, serde and serde_derive visitors, rustc tokenisation of sexp! input",
]

# per property: (family, quick count, build) ; thorough multiplies the count
PROPS = {
    "C01": dict(fams=[("rt01", 3000, "fast"), ("print", 600, "fast"), ("chars", 1, "fast"), ("rtwide", 1, "fast"), ("rt01", 800, "nofast"), ("specrd", 2500, "fast")], mult=20),
    "C02": dict(fams=[("rt02", 3000, "fast"), ("rtall", 1, "fast"), ("chars", 1, "fast"), ("rtwide", 1, "fast"), ("opts", 1, "fast"), ("specrd", 2500, "fast")], mult=10),
    "C03": dict(fams=[("short", 1, "fast"), ("deep", 1, "fast"), ("malformed", 2500, "fast"), ("text", 400, "fast"), ("escapes", 1, "fast"), ("numshort", 1, "fast"), ("num", 3000, "fast"), ("num", 1000, "nofast"), ("faults", 60, "fast")], mult=10, special="abort"),
    "C04": dict(fams=[("serde", 1500, "fast")], mult=20),
    "C05": dict(fams=[("num", 6000, "fast"), ("numshort", 1, "fast"), ("num", 3000, "nofast"), ("numshort", 1, "nofast")], mult=20),
    "C06": dict(fams=[("text", 1200, "fast"), ("faults", 150, "fast"), ("malformed", 1200, "fast"), ("escapes", 1, "fast"), ("num", 1500, "fast"), ("serde", 200, "fast")], mult=10),
    "C07": dict(fams=[("print", 1500, "fast"), ("sink", 3000, "fast"), ("printall", 1, "fast"), ("serde", 200, "fast")], mult=10),
    "C08": dict(fams=[("tok", 1, "fast"), ("numshort", 1, "fast"), ("opts", 1, "fast"), ("sens", 1500, "fast")], mult=2),
    "C09": dict(fams=[], mult=10, special="macro"),
    "C10": dict(fams=[("text", 1500, "fast"), ("malformed", 1500, "fast"), ("deep", 1, "fast"), ("tok", 1, "fast"), ("consops", 600, "fast")], mult=10),
    "C11": dict(fams=[("text", 2000, "fast"), ("malformed", 500, "fast"), ("faults", 100, "fast")], mult=10),
    "C12": dict(fams=[("trivia", 2000, "fast"), ("text", 1500, "fast"), ("malformed", 2000, "fast"), ("deep", 1, "fast")], mult=10),
    "C13": dict(fams=[("pp", 4000, "fast"), ("ppfix", 1, "fast"), ("pp", 1000, "nofast")], mult=10),
    "C14": dict(fams=[("serde", 1500, "fast"), ("deser", 1500, "fast")], mult=20),
    "C15": dict(fams=[("values", 1500, "fast"), ("alist", 1500, "fast"), ("consops", 2000, "fast"), ("consops", 500, "nofast")], mult=20),
    "C16": dict(fams=[("consops", 1200, "fast")], mult=1, special="depth"),
    "C17": dict(fams=[("malformed", 3000, "fast"), ("text", 600, "fast"), ("print", 800, "fast"), ("printall", 1, "fast"), ("escapes", 1, "fast"), ("chars", 1, "fast")], mult=10),
    "C18": dict(fams=[("deser", 3000, "fast"), ("serde", 600, "fast")], mult=20),   # serde: the self-consistency clause re-serializes
   
    "C19": dict(fams=[("prefix", 250, "fast"), ("malformed", 2000, "fast"), ("escapes", 1, "fast"), ("prefix", 80, "nofast"), ("serde", 200, "fast"), ("faults", 60, "fast")], mult=10),
    "C20": dict(fams=[("prims", 2500, "fast"), ("values", 800, "fast"), ("num", 800, "fast")], mult=20),
}

EXTRA_MODULES = {
    "C15": ["LexprModel.Proofs.ConsOpsAll"],
    "C16": ["LexprModel.Proofs.ConsOpsAll", "LexprModel.Proofs.DatumDepth"],
}

def log(msg):
    print(msg, flush=True)

class Lock:
    def __init__(self, name):
        os.makedirs(BUILD, exist_ok=True)
        self.path = os.path.join(BUILD, name)
    def __enter__(self):
        self.f = open(self.path, "w")
        fcntl.flock(self.f, fcntl.LOCK_EX)
    def __exit__(self, *a):
        fcntl.flock(self.f, fcntl.LOCK_UN)
        self.f.close()

def sh(cmd, cwd=None, env=None, timeout=None, stdin=None):
    p = subprocess.run(cmd, cwd=cwd, env=env or ENV, stdout=subprocess.PIPE, stderr=subprocess.STDOUT,
                       timeout=timeout, stdin=stdin)
    return p.returncode, p.stdout.decode("utf-8", "replace")

# ---------------------------------------------------------------------------------------------
# builds

def cargo_build(crate):
    """Build one harness crate.  A build that fails for a reason other than the sources (an interrupted earlier
    build can leave the incremental cache in a state the linker rejects) is retried once from a clean cache."""
    rc, out = sh(["cargo", "build", "--offline", "-q"], cwd=os.path.join(VERIF, "harness", crate))
    if rc != 0 and ("linking with" in out or "incremental" in out or "undefined hidden symbol" in out or "failed to open" in out):
        shutil.rmtree(os.path.join(TARGET, "debug", "incremental"), ignore_errors=True)
        rc, out = sh(["cargo", "build", "--offline", "-q"], cwd=os.path.join(VERIF, "harness", crate), env=dict(ENV, CARGO_INCREMENTAL="0"))
    return rc, out

def build_harness(need_nofast, need_o0=False):
    with Lock("cargo.lock"):
        t = time.time()
        if need_o0:
            rc, out = cargo_build("o0")
            if rc != 0:
                return False, "harness (unoptimised build) does not build against /repo:\n" + out[-3000:]
        rc, out = cargo_build("fast")
        if rc != 0:
            return False, "harness (default features) does not build against /repo:\n" + out[-3000:]
        if need_nofast:
            rc, out = cargo_build("nofast")
            if rc != 0:
                return False, "harness (no default features) does not build against /repo:\n" + out[-3000:]
        return True, "%.1fs" % (time.time() - t)

def regen_tables():
    """Rewrite Generated/Tables.lean from the real code; only touch the file when it changed."""
    rc, out = sh([HARNESS, "tables"])
    path = os.path.join(LEAN, "LexprModel", "Generated", "Tables.lean")
    if rc != 0:
        return False, "table probe failed:\n" + out[-2000:], False
    old = open(path).read() if os.path.exists(path) else ""
    changed = old != out
    if changed:
        with open(path, "w") as f:
            f.write(out)
    return True, out, changed

def lake_build(targets):
    with Lock("lake.lock"):
        t = time.time()
        rc, out = sh(["lake", "build"] + targets, cwd=LEAN, env=dict(os.environ))
        return rc == 0, out, time.time() - t

FORBIDDEN = re.compile(r"\b(sorry|admit|native_decide|bv_decide|implemented_by)\b|^axiom\s|unsafe\s|maxHeartbeats\s+0", re.M)

def strip_comments(src):
    src = re.sub(r"/-.*?-/", "", src, flags=re.S)
    src = re.sub(r"--.*", "", src)
    return src

def theorem_names(module):
    path = os.path.join(LEAN, module.replace(".", "/") + ".lean")
    if not os.path.exists(path):
        return []
    src = strip_comments(open(path).read())
    stack, names = [], []
    for line in src.splitlines():
        m = re.match(r"^namespace\s+(\S+)", line)
        if m:
            stack.append(m.group(1)); continue
        m = re.match(r"^end\s+(\S+)", line)
        if m and stack and stack[-1] == m.group(1):
            stack.pop(); continue
        m = re.match(r"^\s*(?:@\[[^\]]*\]\s*)?(?:private\s+|protected\s+)?theorem\s+([A-Za-z0-9_'.]+)", line)
        if m and "private" not in line.split("theorem")[0]:
            n = m.group(1)
            # `theorem _root_.A.b` declares A.b whatever namespace is open
            names.append(n[len("_root_."):] if n.startswith("_root_.") else ".".join(stack + [n]))
    return names

def audit(prop, modules, workdir):
    """#print axioms for every theorem of the modules; forbidden-token grep over the model."""
    problems = []
    for root, _, files in os.walk(os.path.join(LEAN, "LexprModel")):
        for fn in files:
            if fn.endswith(".lean"):
                src = strip_comments(open(os.path.join(root, fn)).read())
                m = FORBIDDEN.search(src)
                if m:
                    problems.append("forbidden token %r in %s" % (m.group(0), fn))
    # theorem modules imported by the property file (LexprModel.Proofs.*) are audited too
    todo, seen = list(modules), set(modules)
    while todo:
        m = todo.pop()
        path = os.path.join(LEAN, m.replace(".", "/") + ".lean")
        if os.path.exists(path):
            for e in re.findall(r"^import\s+(LexprModel\.(?:Proofs|Props)\.\S+)", open(path).read(), re.M):
                if e not in seen:
                    seen.add(e); todo.append(e)
    modules = modules + sorted(e for e in seen if e not in modules)
    names = []
    for m in modules:
        names += theorem_names(m)
    audit_file = os.path.join(workdir, "Audit_%s.lean" % prop)
    with open(audit_file, "w") as f:
        for m in modules:
            f.write("import %s\n" % m)
        for n in names:
            f.write("#print axioms %s\n" % n)
    rc, out = sh(["lake", "env", "lean", audit_file], cwd=LEAN, env=dict(os.environ))
    axioms = {}
    flat = re.sub(r"\n\s+", " ", out)       # long axiom lists are wrapped over several lines
    for m in re.finditer(r"^'(.+?)' depends on axioms: \[([^\]]*)\]", flat, re.M):
        axioms[m.group(1)] = [a.strip() for a in m.group(2).split(",") if a.strip()]
    for m in re.finditer(r"^'(.+?)' does not depend on any axioms", flat, re.M):
        axioms[m.group(1)] = []
    for n in names:
        if n not in axioms:
            problems.append("no axiom report for theorem %s" % n)
        else:
            bad = [a for a in axioms[n] if a not in ALLOWED_AXIOMS]
            if bad:
                problems.append("theorem %s depends on %s" % (n, bad))
    if rc != 0 and not problems:
        problems.append("audit file failed to elaborate: " + out[-1500:])
    return names, axioms, problems

# ---------------------------------------------------------------------------------------------
# correspondence

POS_PROPS = {"C19"}
SPAN_PROPS = {"C11"}

def project(prop, res):
    """Keep only the observables this property's theorems speak about (DESIGN.md 4.2)."""
    if prop not in POS_PROPS and prop not in SPAN_PROPS:
        res = re.sub(r"\berr (\w+) \d+ \d+", r"err \1", res)
    if prop not in SPAN_PROPS:
        res = re.sub(r"\bdat (.*?) @ [^|;]*", lambda m: "dat " + m.group(1).rstrip() + " ", res)
    if prop == "C03":
        def cls(item):
            item = item.strip()
            if item.startswith("val") or item.startswith("dat"):
                return "ok"
            if "recursionLimitExceeded" in item:
                return "err-recursion"
            if item.startswith("err"):
                return "err"
            return item
        if " | " in res or res.startswith(("val", "dat", "err", "none", "io", "panic")):
            res = " | ".join(cls(i) for i in res.split(" | "))
    return res.rstrip()

def nontrivial(op, res):
    t = op.split(" ", 1)[0]
    if t == "parse":
        f = op.split()
        n = len(f[5]) // 2 if len(f) > 5 else 0
        return n >= 3 and not re.match(r"^err \w+ 1 [01]$", res)
    if t in ("rt", "pp", "prefix"):
        return len(op) > 40
    if t == "print":
        return len(res) > 20
    if t == "sink":
        return "k1000" not in op or ",f" in op or ",z" in op
    if t == "list":
        return " c " in op
    if t in ("ser", "de"):
        return len(op.split()) > 3
    return True

def run_family(prop, fam, count, build, seed, workdir, shard):
    h = HARNESS if build == "fast" else HARNESS_NOFAST
    tag = "%s-%s-%d" % (fam, build, shard)
    ops = os.path.join(workdir, tag + ".ops")
    real = os.path.join(workdir, tag + ".real")
    model = os.path.join(workdir, tag + ".model")
    orac = os.path.join(workdir, tag + ".oracle")
    with open(ops, "wb") as f:
        rc = subprocess.run([h, "gen", fam, str(seed * 1000 + shard), str(count)], stdout=f, stderr=subprocess.PIPE)
    if rc.returncode != 0:
        return dict(tag=tag, error="generator failed: " + rc.stderr.decode()[-500:])
    with open(ops, "rb") as fi, open(real, "wb") as fo:
        rc = subprocess.run([h, "exec", orac], stdin=fi, stdout=fo, stderr=subprocess.PIPE)
    if rc.returncode != 0:
        # which operation killed the process?  Run again with a progress file, then that operation alone.
        killer = None
        try:
            prog = os.path.join(workdir, tag + ".progress")
            with open(ops, "rb") as fi:
                subprocess.run([h, "exec", orac + ".again"], stdin=fi, stdout=subprocess.DEVNULL, stderr=subprocess.DEVNULL,
                               env=dict(os.environ, VERIF_PROGRESS=prog))
            idx = int(open(prog).read().strip() or "0")
            with open(ops, "rb") as fi:
                lines = fi.read().split(b"\n")
            op = lines[idx]
            alone = subprocess.run([h, "exec", orac + ".alone"], input=op + b"\n", stdout=subprocess.DEVNULL, stderr=subprocess.DEVNULL)
            if alone.returncode != 0:
                killer = op.decode(errors="replace")
        except Exception:
            killer = None
        return dict(tag=tag, error="harness exec died (signal/abort %s): %s" % (rc.returncode, rc.stderr.decode()[-500:]), ops=ops,
                    killer=killer, code=rc.returncode)
    with open(ops, "rb") as fi, open(model, "wb") as fo:
        rc = subprocess.run([DRIVER], stdin=fi, stdout=fo, stderr=subprocess.PIPE)
    if rc.returncode != 0:
        return dict(tag=tag, error="model driver died: " + rc.stderr.decode()[-500:], ops=ops)
    return dict(tag=tag, ops=ops, real=real, model=model, oracle=orac)

def collect(prop, runs):
    """Diff real vs model under the property's projection; gather oracle failures."""
    stats = dict(evaluations=0, distinct=set(), disagreements=[], oracle=[], other_oracle={}, families={},
                 samples=[], errcodes={}, optypes={})
    for r in runs:
        if "error" in r:
            stats["disagreements"].append(dict(op="<family %s>" % r["tag"], real=r["error"], model="", family=r["tag"]))
            # the real-code side died part-way (an abort kills the process): what the oracle had written until then
            # still names failing inputs
            if r.get("killer"):
                stats["oracle"].append("FAIL %s the real code kills the process (exit %s) on this operation, alone\t%s" % (prop, r.get("code"), r["killer"]))
            orac = os.path.join(os.path.dirname(r.get("ops", "")), r["tag"] + ".oracle") if r.get("ops") else None
            if orac and os.path.exists(orac):
                for line in open(orac, errors="replace"):
                    mm = re.match(r"FAIL (C\d+) ", line)
                    if mm and mm.group(1) == prop:
                        stats["oracle"].append(line.rstrip("\n"))
            continue
        with open(r["ops"], errors="replace") as fo, open(r["real"], errors="replace") as fr, open(r["model"], errors="replace") as fm:
            n = 0
            for op, a, b in zip(fo, fr, fm):
                op = op.rstrip("\n"); a = a.rstrip("\n"); b = b.rstrip("\n")
                n += 1
                k = op.split(" ", 1)[0]
                stats["optypes"][k] = stats["optypes"].get(k, 0) + 1
                for code in re.findall(r"\berr (\w+)", a):
                    stats["errcodes"][code] = stats["errcodes"].get(code, 0) + 1
                if nontrivial(op, a):
                    stats["distinct"].add(hashlib.md5(op.encode()).digest()[:8])
                if len(stats["samples"]) < 4 and n % 97 == 1:
                    stats["samples"].append(dict(op=op[:300], real=a[:300], model=b[:300]))
                if project(prop, a) != project(prop, b):
                    if len(stats["disagreements"]) < 50:
                        stats["disagreements"].append(dict(op=op, real=a, model=b, family=r["tag"]))
                    else:
                        stats["disagreements"].append(None)
            stats["evaluations"] += n
            stats["families"][r["tag"]] = n
        if os.path.exists(r["oracle"]):
            for line in open(r["oracle"], errors="replace"):
                line = line.rstrip("\n")
                m = re.match(r"FAIL (C\d+) ", line)
                if not m:
                    continue
                if m.group(1) == prop:
                    stats["oracle"].append(line)
                else:
                    stats["other_oracle"][m.group(1)] = stats["other_oracle"].get(m.group(1), 0) + 1
    return stats

# ---------------------------------------------------------------------------------------------
# known findings

def load_findings(prop):
    out = []
    path = os.path.join(VERIF, "known_findings.txt")
    if not os.path.exists(path):
        return out
    for line in open(path):
        line = line.strip()
        m = re.match(r"finding:\s+property=(C\d+)\s+match=(.*?)\s+::\s+(.*)$", line)
        if m and m.group(1) == prop:
            out.append(dict(match=m.group(2), what=m.group(3), hits=0))
    return out

def split_known(findings, lines):
    fresh = []
    for l in lines:
        hit = False
        for f in findings:
            if f["match"] in l:
                f["hits"] += 1
                hit = True
                break
        if not hit:
            fresh.append(l)
    return fresh

# ---------------------------------------------------------------------------------------------
# special runs

def run_depth(prop, tier, workdir):
    """C16 / C03 runtime remainder: operations on long lists in a child process with a 2 MiB stack.
    Returns (lines of 'FAIL ...' results, counters)."""
    sizes = [1000, 100000, 1000000] if tier == "quick" else [1000, 10000, 100000, 1000000, 3000000]
    ops = ["build", "drop", "parse", "parse_datum", "print", "display", "to_vec", "into_vec", "iter", "into_iter",
           "index", "is_list", "clone", "eq", "datum_clone", "datum_eq", "datum_drop", "datum_iter", "to_value", "from_value",
           "datum_fail", "datum_fail_bracket", "datum_fail_token", "value_fail", "datum_iter_fail", "datum_cdr_owned", "alist", "drop_unwinding", "clone_from"]
    if prop == "C03":
        ops = []
    jobs = []
    if prop == "C16":
        for op in ("from_value_skipped", "from_value_ignored", "from_value_untagged"):
            for n in ([1000, 300000] if tier == "quick" else [1000, 100000, 1000000]):
                jobs.append((op, "proper", n))
    for op in ops:
        for shape in ("proper", "dotted"):
            if op in ("from_value", "to_value") and shape == "dotted":
                continue
            for n in sizes:
                jobs.append((op, shape, n))
    # element kinds that an implementation might special-case, and nesting written as dotted pairs
    big = sizes[-1] if tier == "thorough" else 300000
    for op in ("drop", "parse_drop", "into_iter_drop", "print", "index"):
        for shape in ("nils", "nulls", "strings"):
            jobs.append((op, shape, big))
    for op in ("parse", "parse_str", "parse_datum"):
        jobs.append((op, "dotchain", 200000))
    def one(job):
        op, shape, n = job
        try:
            p = subprocess.run([HARNESS_O0, "depth", op, shape, str(n)], stdout=subprocess.PIPE, stderr=subprocess.PIPE, timeout=900)
            return job, p.returncode
        except subprocess.TimeoutExpired:
            return job, "timeout"
    fails, results = [], []
    with ThreadPoolExecutor(max_workers=12) as ex:
        for job, rc in ex.map(one, jobs):
            results.append((job, rc))
            if rc != 0:
                fails.append("FAIL C16 operation %s on a %s list of %d elements does not complete on a 2 MiB stack (exit %s)\tdepth %s %s %d" % (job[0], job[1], job[2], rc, job[0], job[1], job[2]))
    return fails, results

def run_abort_probes(workdir):
    """C03: pathological inputs parsed in a child process (an abort kills only the child)."""
    fails, n = [], 0
    openers = ["(", "[", "#(", "'", "`", ",", ",@", "(a . ", "#u8(", "\"\\", "#\\", "(a ", "#;", "#|", "'("]
    import binascii
    jobs = []
    for o in openers:
        for ro in ("0011100000", "1000111101"):
            for api in ("v1", "d1", "r:v:3000"):
                text = (o * (1000000 // max(1, len(o)))).encode()
                jobs.append((o, ro, api, text))
    # long FLAT lists that end in an error: what was built so far is dropped inside the failing call
    for body, tail in (("1 ", ""), ("1 ", "MISMATCH"), ("() ", "#z)"), ("\"s\" ", ". 1 2)")):
        for opener in ("(", "#(", "[", "'("):
            for api in ("v1", "d1", "r:d:3"):
                tl = ("]" if opener != "[" else ")") if tail == "MISMATCH" else tail
                jobs.append(("flat " + opener + body + "..." + tl, "0011100000", api, (opener + body * 400000 + tl).encode()))
    mix = ("('`,[#(" * 150000).encode()
    jobs.append(("mix", "0011100000", "v1", mix))
    jobs.append(("mix", "1000111101", "d1", mix))
    def one(job):
        o, ro, api, text = job
        line = "parse 1 i0 %s %s %s\n" % (ro, api, binascii.hexlify(text).decode())
        try:
            p = subprocess.run([HARNESS_O0, "exec"], input=line.encode(), stdout=subprocess.PIPE, stderr=subprocess.PIPE, timeout=1200)
            out = p.stdout.decode("utf-8", "replace")
            return job, p.returncode, out
        except subprocess.TimeoutExpired:
            return job, "timeout", ""
    with ThreadPoolExecutor(max_workers=8) as ex:
        for job, rc, out in ex.map(one, jobs):
            n += 1
            if rc != 0 or "panic" in out.lower():
                fails.append("FAIL C03 10^6 x %r (options %s, api %s): child exit %s, output %s\tabort-probe %r %s %s" % (job[0], job[1], job[2], rc, out[:80], job[0], job[1], job[2]))
    return fails, n

# ---------------------------------------------------------------------------------------------

def write_evidence(prop, ev):
    os.makedirs(os.path.join(VERIF, "evidence"), exist_ok=True)
    with open(os.path.join(VERIF, "evidence", prop + ".json"), "w") as f:
        json.dump(ev, f, indent=1, sort_keys=True)

def write_replay(workdir, prop, idx, payload):
    path = os.path.join(workdir, "replay-%d.json" % idx)
    payload["replay_cmd"] = "./check %s --replay %s" % (prop, path)
    with open(path, "w") as f:
        json.dump(payload, f, indent=1)
    return path

def do_replay(prop, path):
    rp = json.load(open(path))
    ok, msg = build_harness(False)
    if not ok:
        print(msg); return 1
    op = rp.get("op")
    if not op:
        print("replay file names no operation line: %s" % json.dumps(rp)[:500]); return 1
    h = HARNESS_NOFAST if op.startswith(("parse 0", "rt ")) and " 0 " in op[:40] and os.path.exists(HARNESS_NOFAST) and rp.get("build") == "nofast" else HARNESS
    orac = path + ".oracle"
    real = subprocess.run([h, "exec", orac], input=(op + "\n").encode(), stdout=subprocess.PIPE).stdout.decode().strip()
    model = subprocess.run([DRIVER], input=(op + "\n").encode(), stdout=subprocess.PIPE).stdout.decode().strip()
    print("op:    " + op[:1000])
    print("real:  " + real[:1000])
    print("model: " + model[:1000])
    fails = [l.strip() for l in open(orac)] if os.path.exists(orac) else []
    for l in fails:
        print("oracle: " + l[:600])
    bad = project(prop, real) != project(prop, model) or any(l.startswith("FAIL " + prop) for l in fails)
    if bad:
        print("VIOLATION property=%s replay=%s" % (prop, path))
        return 1
    print("replay: no disagreement and no oracle failure on the current tree")
    return 0

def run_check(prop, tier, seed, replay):
    if prop not in PROPS:
        print("unknown property " + prop); return 2
    if replay:
        return do_replay(prop, replay)
    t0 = time.time()
    cfg = PROPS[prop]
    workdir = os.path.join(BUILD, "work", prop)
    shutil.rmtree(workdir, ignore_errors=True)
    os.makedirs(workdir, exist_ok=True)
    violations = []      # (message, replay payload)
    notes = []
    need_nofast = any(b == "nofast" for _, _, b in cfg["fams"])

    # 1. harness from the working tree
    ok, msg = build_harness(need_nofast, cfg.get("special") in ("depth", "abort"))
    if not ok:
        violations.append(("the harness no longer builds against /repo", dict(kind="build", detail=msg)))
        return finish(prop, tier, seed, t0, workdir, violations, None, [], {}, [], notes, [], "")
    # 2. tables
    ok, tables, changed = regen_tables()
    if not ok:
        violations.append(("table probing failed", dict(kind="tables", detail=tables)))
    if changed:
        notes.append("Generated/Tables.lean changed with respect to the previous run")
    # 3. proofs
    prop_module = "LexprModel.Props." + prop
    # proof modules that build ON TOP of the property file (they import it) and belong to the property
    extra = [m for m in EXTRA_MODULES.get(prop, []) if os.path.exists(os.path.join(LEAN, m.replace(".", "/") + ".lean"))]
    modules = [prop_module] + extra + ["LexprModel.TablesCheck"]
    have_props = os.path.exists(os.path.join(LEAN, "LexprModel", "Props", prop + ".lean"))
    targets = (["LexprModel.Props." + prop] if have_props else []) + extra + ["LexprModel.TablesCheck", "driver"]
    checker_cmd = "cd /verif/lean && lake build " + " ".join(targets)
    okb, out, dt = lake_build(targets)
    names, axioms, problems = [], {}, []
    if not okb:
        errs = re.findall(r"error: ([^\n]*\n(?:(?!error:|✖|✔).*\n){0,8})", out)
        failing = re.findall(r"✖ \[\d+/\d+\] Building (\S+)", out)
        detail = "lake build failed in %s\n%s" % (failing, "\n".join(e[:600] for e in errs[:5]))
        violations.append(("a proof obligation no longer checks (%s)" % ", ".join(failing), dict(kind="proof", theorem_modules=failing, detail=detail, checker_cmd=checker_cmd)))
        # a broken table lemma still leaves the old driver usable for the search, if it exists
        if not os.path.exists(DRIVER):
            return finish(prop, tier, seed, t0, workdir, violations, None, names, axioms, problems, notes, [], checker_cmd)
    else:
        names, axioms, problems = audit(prop, [m for m in modules if m != prop_module or have_props], workdir)
        for p in problems:
            violations.append(("audit: " + p, dict(kind="audit", detail=p)))
    if tier == "thorough" and okb and have_props:
        rc, o2 = sh(["lake", "env", "leanchecker", prop_module], cwd=LEAN, env=dict(os.environ))
        if rc != 0:
            violations.append(("leanchecker rejects " + prop_module, dict(kind="proof", detail=o2[-1500:])))
        checker_cmd += " && lake env leanchecker " + prop_module
    # 4/5. correspondence + oracle
    mult = cfg["mult"] if tier == "thorough" else 1
    jobs = []
    for fam, count, build in cfg["fams"]:
        total = count * mult if count > 1 else (count if tier == "quick" else max(count, 2))
        shards = 1 if total <= 400 or count == 1 else min(8, max(1, total // 400))
        for s in range(shards):
            jobs.append((fam, max(1, total // shards), build, s))
    runs = []
    with ThreadPoolExecutor(max_workers=12) as ex:
        futs = [ex.submit(run_family, prop, fam, cnt, build, seed, workdir, s) for fam, cnt, build, s in jobs]
        runs = [f.result() for f in futs]
    stats = collect(prop, runs)
    findings = load_findings(prop)
    oracle_fresh = split_known(findings, stats["oracle"])
    special_info = {}
    if cfg.get("special") == "depth":
        fails, results = run_depth(prop, tier, workdir)
        special_info["depth_runs"] = len(results)
        special_info["depth_samples"] = ["%s/%s/%d -> %s" % (j[0], j[1], j[2], rc) for j, rc in results[:6]]
        stats["evaluations"] += len(results)
        for j, rc in results:
            stats["distinct"].add(("depth",) + j)
        oracle_fresh += split_known(findings, fails)
    if cfg.get("special") == "abort":
        fails, n = run_abort_probes(workdir)
        special_info["abort_probes"] = n
        stats["evaluations"] += n
        oracle_fresh += split_known(findings, fails)
    if cfg.get("special") == "macro":
        import vmacro
        fails, n, samples = vmacro.run(prop, tier, seed, workdir, HARNESS, DRIVER)
        special_info["macro_invocations"] = n
        stats["evaluations"] += n
        for k in range(n):
            stats["distinct"].add(("macro", k))
        stats["samples"] += samples[:3]
        oracle_fresh += split_known(findings, fails)
    for f in findings:
        if f["hits"]:
            log("KNOWN-FINDING: property=%s %s (%d occurrences in this run)" % (prop, f["what"], f["hits"]))
    real_dis = [d for d in stats["disagreements"] if d]
    n_dis = len(stats["disagreements"])
    # verdict
    idx = 0
    if oracle_fresh:
        for l in oracle_fresh[:3]:
            msg, _, op = l.partition("\t")
            violations.append((msg, dict(kind="oracle", op=op, message=msg)))
    if n_dis:
        for d in real_dis[:3]:
            # does the property itself fail on the real code for this op?
            hit = [l for l in oracle_fresh if l.endswith("\t" + d["op"])]
            violations.append(("model and implementation disagree on %s" % d["op"][:160],
                               dict(kind="correspondence", op=d["op"], real=d["real"], model=d["model"], family=d["family"],
                                    oracle=hit[:3])))
    return finish(prop, tier, seed, t0, workdir, violations, stats, names, axioms, problems, notes, findings, checker_cmd, special_info, oracle_fresh, n_dis)

def finish(prop, tier, seed, t0, workdir, violations, stats, names, axioms, problems, notes, findings, checker_cmd, special_info=None, oracle_fresh=None, n_dis=0):
    special_info = special_info or {}
    oracle_fresh = oracle_fresh or []
    have_input = bool(oracle_fresh)
    ev = dict(property_id=prop, tier=tier, seed=seed, level="proof", wall_s=round(time.time() - t0, 1),
              violations=len(violations),
              assumptions=TRUSTED_BASE[4:] + ["model-to-code tie is differential (generated operations), not a translation"],
              coverage=dict(
                  obligations=max(1, len(names)), discharged=len([n for n in names if n in axioms]) if not any(v[1].get("kind") == "proof" for v in violations) else 0,
                  checker_cmd=checker_cmd or "lake build", trusted_base=TRUSTED_BASE,
                  theorems=[dict(name=n, axioms=axioms.get(n)) for n in names],
                  audit_problems=problems,
                  evaluations=stats["evaluations"] if stats else 0,
                  distinct_nontrivial=len(stats["distinct"]) if stats else 0,
                  rule="operation lines from the harness generators (one PRNG, seed above); distinct = distinct op lines; non-trivial per op kind: parse: >= 3 input bytes and not an immediate first-byte error; rt/pp/prefix: compound or long text; sink: short or failing schedule; list: a pair; see DESIGN.md Appendix A",
                  samples=(stats["samples"] if stats else []) + [dict(theorem=n, axioms=axioms.get(n)) for n in names[:3]],
                  families=stats["families"] if stats else {}, op_kinds=stats["optypes"] if stats else {},
                  error_codes_seen=stats["errcodes"] if stats else {},
                  disagreements=n_dis, oracle_failures=len(oracle_fresh),
                  oracle_failures_other_properties=stats["other_oracle"] if stats else {},
                  known_findings_reproduced={f["what"]: f["hits"] for f in findings if f["hits"]},
                  notes=notes, exhaustive=False, **special_info))
    write_evidence(prop, ev)
    if not violations:
        log("OK property=%s tier=%s theorems=%d evaluations=%d distinct_nontrivial=%d wall=%.1fs" % (
            prop, tier, len(names), ev["coverage"]["evaluations"], ev["coverage"]["distinct_nontrivial"], ev["wall_s"]))
        return 0
    # one replay file per reported violation; the first line is the verdict
    first = True
    for i, (msg, payload) in enumerate(violations[:6]):
        payload = dict(payload, property=prop, message=msg, seed=seed, tier=tier)
        path = write_replay(workdir, prop, i, payload)
        concrete = payload.get("kind") == "oracle" or (payload.get("kind") == "correspondence" and payload.get("oracle"))
        suffix = "" if (concrete or (have_input and payload.get("kind") in ("proof", "correspondence", "audit"))) else " no-failing-input-found"
        if have_input and payload.get("kind") in ("proof", "audit") :
            # point the broken proof at the concrete failing input found by the search
            payload["failing_input"] = oracle_fresh[0]
            json.dump(payload, open(path, "w"), indent=1)
        log("# " + msg[:400])
        log("VIOLATION property=%s replay=%s%s" % (prop, path, suffix))
    return 1
