#!/bin/bash
# Confirm each sub-agent mutation in ONE scratch worktree of /repo at the current HEAD:
#   with the patch: the whole suite passes and the demo fails; without it: the demo passes.
# Confirmed ones are copied to /verif/seeded/<id>/ with meta.json.
set -u
WT=/tmp/wt/confirm
export CARGO_NET_OFFLINE=true
export CARGO_TARGET_DIR=/tmp/wt/confirm-target
git -C /repo worktree remove --force $WT 2>/dev/null
git -C /repo worktree add -q --detach $WT HEAD || exit 1
HEADC=$(git -C /repo rev-parse --short HEAD)
LOG=/tmp/wt/confirm.log; : >> $LOG
# round 3: SRC_GLOB='/tmp/mut3/C*/OUT/MUT*' OFFSET=auto
# SRC_GLOB selects the sub-agent directories (round 2: /tmp/wt/R2C*/MUT*), OFFSET renumbers (round 2: 2)
for d in ${SRC_GLOB:-/tmp/wt/C*/MUT*}; do
  prop=$(basename $(dirname $d)); [ "$prop" = OUT ] && prop=$(basename $(dirname $(dirname $d))); prop=${prop#R2}; k=$(basename $d); n=${k#MUT}
  if [ "${OFFSET:-0}" = auto ]; then
    # next free number for this property (round 3 onwards)
    last=$(ls /verif/seeded 2>/dev/null | grep "^${prop}_MUT" | sed "s/^${prop}_MUT//" | sort -n | tail -1); last=${last:-0}
    [ "$n" = 1 ] && eval "base_$prop=$last"; eval "b=\${base_$prop:-$last}"; id="${prop}_MUT$((b+n))"
  else id="${prop}_MUT$((n+${OFFSET:-0}))"; fi
  [ -n "${ONLY:-}" ] && [[ ! " $ONLY " =~ " $prop " ]] && continue
  demo_path=$(grep -ohE "(lexpr|serde-lexpr)/tests/[A-Za-z0-9_]+\.rs" $d/README.md | head -1)
  [ -z "$demo_path" ] && demo_path="lexpr/tests/demo_$(echo $id | tr 'A-Z' 'a-z').rs"
  crate=$(dirname $(dirname $demo_path)); tname=$(basename $demo_path .rs)
  cd $WT && git checkout -q -- . && git clean -fdq
  if ! git apply --check $d/patch.diff 2>/dev/null; then echo "$id patch-does-not-apply" >> $LOG; continue; fi
  cp $d/demo.rs $WT/$demo_path
  # without the patch: demo passes
  cargo test --offline -q -p $crate --test $tname -- --include-ignored > /tmp/wt/out.$id.clean 2>&1; clean=$?
  git apply $d/patch.diff
  cargo test --offline -q -p $crate --test $tname -- --include-ignored > /tmp/wt/out.$id.mut 2>&1; mut=$?
  rm -f $WT/$demo_path
  cargo test --workspace --offline -q > /tmp/wt/out.$id.suite 2>&1; suite=$?
  echo "$id clean=$clean mutated=$mut suite=$suite" >> $LOG
  if [ $clean -eq 0 ] && [ $mut -ne 0 ] && [ $suite -eq 0 ]; then
    mkdir -p /verif/seeded/$id
    cp $d/patch.diff /verif/seeded/$id/patch.diff; cp $d/demo.rs /verif/seeded/$id/demo.rs; cp $d/README.md /verif/seeded/$id/README.md
    python3 - "$id" "$prop" "$demo_path" "$crate" "$tname" "$HEADC" <<'PY'
import json,sys,re
id,prop,demo_path,crate,tname,head=sys.argv[1:]
readme=open('/verif/seeded/%s/README.md'%id).read()
json.dump(dict(id=id, breaks_property=prop, repo_commit=head,
  needs_to_manifest="see README.md (written by the sub-agent that produced the change)",
  demo=dict(file="demo.rs", install_as=demo_path, run="CARGO_NET_OFFLINE=true cargo test --offline -p %s --test %s"%(crate,tname)),
  confirmed=dict(how="tools/confirm_mutations.sh in a scratch worktree of /repo at %s"%head,
     demo_on_unchanged_tree="passes", demo_with_patch="fails", existing_suite_with_patch="passes (cargo test --workspace --offline)")),
  open('/verif/seeded/%s/meta.json'%id,'w'), indent=1)
PY
  fi
done
cd / && git -C /repo worktree remove --force $WT; rm -rf /tmp/wt/confirm-target
echo DONE >> $LOG
