#!/bin/bash
# Apply behaviour-preserving changes (benign/*.diff) to /repo and run EVERY check: none may raise an alarm.
# usage: tools/try_benign.sh [all | <file> ...]   ("all" applies every patch at once; default: one by one)
cd /verif; mkdir -p build/benign
run() { # label, patches...
  label=$1; shift
  for p in "$@"; do git -C /repo apply /verif/$p || { echo "$label APPLY-FAIL $p"; git -C /repo checkout -- .; return; }; done
  bad=""
  for i in $(seq -w 1 20); do
    ./check C$i > build/benign/$label.C$i.log 2>&1 || bad="$bad C$i"
  done
  git -C /repo checkout -- .
  echo "$label alarms:[${bad# }]"
}
if [ "$1" = all ]; then run ALL benign/*.diff
else
  files="$@"; [ -z "$files" ] && files=$(ls benign/*.diff)
  for f in $files; do run $(basename $f .diff) $f; done
fi
