#!/bin/bash
# Apply each seeded mutation to /repo, run the check of the property it breaks, undo it.
# usage: tools/try_seeded.sh [id ...]   (default: all of /verif/seeded)
cd /verif
ids="$@"; [ -z "$ids" ] && ids=$(ls seeded)
mkdir -p build/seeded
for id in $ids; do
  prop=${id%%_*}
  if ! git -C /repo apply --check /verif/seeded/$id/patch.diff 2>/dev/null; then echo "$id APPLY-FAIL"; continue; fi
  git -C /repo apply /verif/seeded/$id/patch.diff
  t0=$(date +%s)
  ./check $prop > build/seeded/$id.log 2>&1; rc=$?
  t1=$(date +%s)
  git -C /repo checkout -- . 2>/dev/null || git -C /repo reset -q --hard HEAD
  v=$(grep -m1 '^VIOLATION' build/seeded/$id.log)
  why=$(grep -m1 '^# ' build/seeded/$id.log | cut -c1-150)
  echo "$id rc=$rc $((t1-t0))s $v :: $why"
done
