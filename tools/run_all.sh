#!/bin/bash
# Run every registered check (quick tier by default) and summarise. usage: tools/run_all.sh [--tier thorough]
cd /verif; mkdir -p build/logs
for i in $(seq -w 1 20); do
  id=C$i
  t0=$(date +%s)
  ./check $id "$@" > build/logs/all_$id.log 2>&1; rc=$?
  t1=$(date +%s)
  echo "$id rc=$rc $((t1-t0))s $(grep -c '^KNOWN-FINDING' build/logs/all_$id.log) known :: $(grep -m1 '^VIOLATION\|^OK' build/logs/all_$id.log)"
done
