"""C09: generate sexp! invocations from random trees of the documented macro syntax, compile them
once against /repo, run, and compare each value with lexpr::from_str of the equivalent text
(direct oracle) and with the Lean model of the macro's token parser (correspondence)."""
import os, subprocess, random, binascii, shutil

BUILD = "/verif/build/macro"

IDENTS = ["a", "foo", "x1", "list", "fn", "let", "struct", "foo_bar", "_x", "lambda", "define", "if", "match", "b", "quux", "t", "nil", "f"]
KEBAB = ["kebab-symbol", "foo-bar", "a-b-c", "set!", "list->vector", "x y", "λ"]
PUNCT = ["+", "-", "*", "/", "<", ">", "<=", ">=", "=", "==", "...", "->", "=>", "!", "?", "&", "%", "$", "^", "~", "@", "::",
         "**", "<<", ">>", "<=>", "--", "++", "+-", "..", "!=", "&&", "->>", "<-", "-<", "=~", "$%&", "!$%&*+-./:<=>?@^~", "*.", "+.+", "-.-"]
STRINGS = ["", "a", "hello world", "three", "λx", "a(b)c", "semi;colon", "#hash", "tab\tx"]
CHARS = ["a", "Z", "0", "(", ")", ";", "λ", "#", "x", "."]
ENV_TEXT = {"u0": "42", "u1": "\"str\"", "u2": "1.5", "u3": "s", "u4": "#t", "u5": "#\\c", "u6": "(1 2)", "u7": "()"}
FLOATS = [("1.5", 15, -1), ("0.25", 25, -2), ("2e3", 2, 3), ("12.5e-1", 125, -2), ("100.0", 1000, -1), ("3.0", 30, -1), ("6.02e23", 602, 21), ("1e-7", 1, -7)]
# Float literals OUTSIDE the window in which the default build reads a decimal exactly (digits fit 2^53 and
# |exponent| <= 22): rustc rounds the macro's literal correctly, the crate's fast path may be one ulp off.
# Each runs as a stand-alone invocation at the end of every batch so that the failure names exactly this input
# (known_findings.txt lists them; Lean: C09_float_window_needed).
# ... and one with 20 significant digits (2^64 + 2049, just above the midpoint of two doubles): the crate's
# scanner drops the twentieth digit in BOTH builds (Lean: C09_float_digits_needed).
FIXED_OUTSIDE_WINDOW = [("1e-23", 1, -23), ("8.5e-30", 85, -31), ("18446744073709553665.0", 184467440737095536650, -1)]

def rand_float(r):
    """a decimal float literal inside the exactness window: at most 15 significant digits and the power of
    ten applied to the integer significand within [-22, 22]"""
    if r.random() < 0.4:
        return r.choice(FLOATS)
    ip = str(r.randrange(0, 10 ** r.choice([1, 1, 2, 3, 6, 9])))
    fr = "".join(r.choice("0123456789") for _ in range(r.choice([0, 1, 1, 2, 3, 6])))
    if len(ip) + len(fr) > 15:
        fr = fr[:15 - len(ip)]
    lo, hi = -22 + len(fr), 22 + len(fr)
    e = r.choice([None, None, r.randrange(lo, hi + 1), r.randrange(-5, 6)])
    if e is not None and not (lo <= e <= hi):
        e = None
    if not fr and e is None:
        fr = "0"
    s = ip + ("." + fr if fr else "") + ("e%d" % e if e is not None else "")
    # the scanner does not take trailing zeros of the fraction into the significand: 224.520e25 is 22452 x 10^23
    eff = fr.rstrip("0")
    sig = int(ip + eff)
    ex = (e or 0) - len(eff)
    if not (-22 <= ex <= 22):
        return r.choice(FLOATS)
    return (s, sig, ex)

# Unquote cases outside the model's token language (oracle only): expressions that mention caller variables
# whose names a macro implementation might use itself, and expressions whose value depends on the order of
# evaluation — "an unquoted Rust expression contributes exactly Value::from(expr) at its position".
EXTRA = [
    # the same call site evaluated more than once: every evaluation builds its value from the current expressions
    ('{ fn point(x: i32, y: i32) -> lexpr::Value { sexp!(#(point ,x ,y)) } let _first = point(1, 2); point(3, 4) }', '#(point 3 4)'),
    ('{ fn pair(x: i32) -> lexpr::Value { sexp!((k #(v ,x) . ,x)) } let _first = pair(1); pair(7) }', '(k #(v 7) . 7)'),
    ('{ let mut out = Vec::new(); for i in 0..3 { out.push(sexp!(#(,i (a ,i)))); } out.pop().unwrap() }', '#(2 (a 2))'),
    ('{ let tail = String::from("x"); let rest = 5; sexp!((,(tail.clone()) . ,rest)) }', '("x" . 5)'),
    ('{ let tail = String::from("x"); let list = "l"; sexp!((,(tail.clone()) ,list . 7)) }', '("x" "l" . 7)'),
    ('{ let elements = 7u8; let value = \'v\'; let head = true; let vec = "v"; sexp!(#(,elements ,value ,head ,vec)) }', '#(7 #\\v #t "v")'),
    ('{ let rest = 1; let tail = 2; let last = 3; let v = 4; let e = 5; sexp!((,rest (,tail . ,last) #(,v) . ,e)) }', '(1 (2 . 3) #(4) . 5)'),
    ('{ let mut c = 0; let mut next = || { c += 1; c }; sexp!((,(next()) ,(next()) . ,(next()))) }', '(1 2 . 3)'),
    ('{ let mut c = 0; let mut next = || { c += 1; c }; sexp!((,(next()) (,(next()) . ,(next())) #(,(next())) ,(next()))) }', '(1 (2 . 3) #(4) 5)'),
    ('{ let mut c = 0; let mut next = || { c += 1; c }; sexp!(#(,(next()) (a . ,(next())) ,(next()))) }', '#(1 (a . 2) 3)'),
    ('{ let x = lexpr::Value::list(vec![1, 2]); let tail = 9; sexp!((,tail . ,x)) }', '(9 1 2)'),
]

def hx(s):
    return binascii.hexlify(s.encode("utf-8")).decode()

class Node:
    def __init__(self, src, text, toks):
        self.src, self.text, self.toks = src, text, toks   # toks: list of token encodings (strings)

def punct_toks(p):
    out = []
    for i, c in enumerate(p):
        out.append("p%d%s" % (ord(c), "j" if i + 1 < len(p) else "a"))
    return out

def atom(r, prev_minus_ok=True):
    k = r.randrange(14)
    if k == 0:
        n = r.choice([0, 1, 7, 42, 1000, 2147483647, r.randrange(100000)])
        return Node(str(n), str(n), ["li%d" % n])
    if k == 1:
        n = r.choice([1, 5, 42, 2147483647, r.randrange(1, 100000)])
        return Node("-%d" % n, "-%d" % n, ["p45a", "li%d" % n])
    if k == 2:
        s, sig, e = rand_float(r)
        return Node(s, s, ["lf%de%d" % (sig, e)])
    if k == 3:
        s, sig, e = rand_float(r)
        return Node("-" + s, "-" + s, ["p45a", "lf%de%d" % (sig, e)])
    if k == 4:
        s = r.choice(STRINGS)
        return Node('"%s"' % s, '"%s"' % s, ["ls%s/%s" % (hx(s), hx(s))])
    if k == 5:
        c = r.choice(CHARS)
        return Node("'%s'" % c, "#\\%s" % c, ["lc%x" % ord(c)])
    if k == 6:
        t = r.choice(["t", "f", "nil"])
        return Node("#" + t, "#" + t, ["p35a", "i" + hx(t)])
    if k in (7, 8):
        s = r.choice(IDENTS)
        return Node(s, s, ["i" + hx(s)])
    if k == 9:
        s = r.choice(KEBAB)
        return Node('#"%s"' % s, s if " " not in s else None, ["p35a", "ls%s/%s" % (hx(s), hx(s))])
    if k in (10, 11):
        p = r.choice(PUNCT)
        return Node(p, p, punct_toks(p))
    if k == 12:
        s = r.choice(IDENTS)
        form = r.randrange(3)
        if form == 0:
            return Node("#:" + s, "#:" + s, ["p35j", "p58a", "i" + hx(s)])
        if form == 1:
            return Node(":" + s, "#:" + s, ["p58a", "i" + hx(s)])
        kb = r.choice(KEBAB[:5])
        return Node('#:"%s"' % kb, "#:" + kb, ["p35j", "p58a", "ls%s/%s" % (hx(kb), hx(kb))])
    u = r.choice(list(ENV_TEXT))
    if u in ("u3", "u6", "u7"):
        # a Value is moved by Value::from, so interpolate a clone through the parenthesised form
        return Node(",(%s.clone())" % u, ENV_TEXT[u], ["p44a", "g4", "i" + hx(u), "p46a", "i" + hx("clone"), "g0"])
    return Node("," + u, ENV_TEXT[u], ["p44a", "i" + hx(u)])

def bad_follow(prev, nxt):
    # a free-standing '-' directly before a numeric literal is the negative literal; a free-standing
    # ':' directly before an identifier or string is a keyword: such adjacent pairs are not distinct trees
    if prev.src in ("-",) and nxt.toks and nxt.toks[0].startswith(("li", "lf")):
        return True
    if prev.src == ":" and nxt.toks and nxt.toks[0].startswith(("i", "ls")):
        return True
    return False

def adjacency_cases():
    """every punctuation symbol directly after every kind of name or literal, and directly before one: the token
    parser must not glue a free-standing symbol to its neighbour"""
    prevs = [("foo", "foo", ["i" + hx("foo")]), ("#:key", "#:key", ["p35j", "p58a", "i" + hx("key")]), (":k", "#:k", ["p58a", "i" + hx("k")]),
             ("\"s\"", "\"s\"", ["ls%s/%s" % (hx("s"), hx("s"))]), ("7", "7", ["li7"]), ("#t", "#t", ["p35a", "i" + hx("t")])]
    out = []
    # a quoted one-character name is a symbol whatever follows it (`#"-" 5` is the symbol - and the number 5)
    for q in ["-", ":", "+", "."]:
        for (nsrc, ntext, ntoks) in [("5", "5", ["li5"]), ("1.5", "1.5", ["lf15e-1"]), ("foo", "foo", ["i" + hx("foo")]), ("\"s\"", "\"s\"", ["ls%s/%s" % (hx("s"), hx("s"))])]:
            if q == ".":
                continue
            a = Node('#"%s"' % q, q, ["p35a", "ls%s/%s" % (hx(q), hx(q))])
            b = Node(nsrc, ntext, ntoks)
            inner = a.toks + b.toks
            out.append(Node("(" + a.src + " " + b.src + ")", "(" + a.text + " " + b.text + ")", ["g%d" % len(inner)] + inner))
            out.append(Node("#(" + a.src + " " + b.src + ")", "#(" + a.text + " " + b.text + ")", ["p35a", "g%d" % len(inner)] + inner))
    for p in PUNCT:
        for (psrc, ptext, ptoks) in prevs:
            a = Node(psrc, ptext, ptoks)
            b = Node(p, p, punct_toks(p))
            c = Node("y", "y", ["i" + hx("y")])
            for elems in ([a, b, c], [b, a], [a, b]):
                if any(bad_follow(elems[i], elems[i + 1]) for i in range(len(elems) - 1)):
                    continue
                src = "(" + " ".join(e.src for e in elems) + ")"
                text = "(" + " ".join(e.text for e in elems) + ")"
                inner = [t for e in elems for t in e.toks]
                out.append(Node(src, text, ["g%d" % len(inner)] + inner))
    return out

def tree(r, depth):
    if depth == 0 or r.random() < 0.35:
        return atom(r)
    k = r.randrange(5)
    n = r.choice([0, 1, 1, 2, 2, 3, 4])
    elems = []
    for _ in range(n):
        e = tree(r, depth - 1)
        while e.text is None or (elems and bad_follow(elems[-1], e)):
            e = tree(r, depth - 1)
        elems.append(e)
    if k == 0:  # vector
        src = "#(" + " ".join(e.src for e in elems) + ")"
        text = "#(" + " ".join(e.text for e in elems) + ")"
        inner = [t for e in elems for t in e.toks]
        return Node(src, text, ["p35a", "g%d" % len(inner)] + inner)
    if k in (1, 2) and n >= 1:  # dotted list, the tail possibly itself a list / dotted list / unquote
        tail = tree(r, depth - 1)
        while tail.text is None:
            tail = tree(r, depth - 1)
        src = "(" + " ".join(e.src for e in elems) + " . " + tail.src + ")"
        text = "(" + " ".join(e.text for e in elems) + " . " + tail.text + ")"
        inner = [t for e in elems for t in e.toks] + ["p46a"] + tail.toks
        return Node(src, text, ["g%d" % len(inner)] + inner)
    src = "(" + " ".join(e.src for e in elems) + ")"
    text = "(" + " ".join(e.text for e in elems) + ")"
    inner = [t for e in elems for t in e.toks]
    return Node(src, text, ["g%d" % len(inner)] + inner)

def count_top(toks):
    # number of top-level token trees in an encoding list
    i, n = 0, 0
    def skip(i):
        t = toks[i]
        if t.startswith("g"):
            k = int(t[1:]); i += 1
            for _ in range(k):
                i = skip(i)
            return i
        return i + 1
    while i < len(toks):
        i = skip(i); n += 1
    return n

def flat_count(toks):
    return toks

def group_counts(node_toks):
    """g<n> must count top-level trees of the group, not flat tokens: rewrite."""
    out = []
    i = 0
    def conv(i):
        t = node_toks[i]
        if t.startswith("g"):
            flat = int(t[1:]); j = i + 1; end = j + flat
            inner = []
            while j < end:
                sub, j = conv(j)
                inner.append(sub)
            return ["g%d" % len(inner)] + [x for s in inner for x in s], end
        return [t], i + 1
    while i < len(node_toks):
        sub, i = conv(i)
        out += sub
    return out

RUST_HEAD = '''#[path = "/verif/harness/src/codec.rs"]
#[allow(dead_code)]
mod codec;
use lexpr::sexp;
fn show(i: usize, v: lexpr::Value, text: &str) {
    let t = match lexpr::from_str(text) { Ok(t) => codec::enc_value(&t), Err(e) => format!("ERR {}", e) };
    println!("{}\\t{}\\t{}", i, codec::enc_value(&v), t);
}
#[allow(unused_variables)]
fn main() {
    let u0 = 42i32; let u1 = "str"; let u2 = 1.5f64; let u3 = lexpr::Value::symbol("s"); let u4 = true; let u5 = 'c';
    let u6 = lexpr::Value::list(vec![1, 2]); let u7 = lexpr::Value::Null;
'''

def rust_str(s):
    return '"' + s.replace("\\", "\\\\").replace('"', '\\"') + '"'

def run(prop, tier, seed, workdir, harness, driver):
    r = random.Random(seed)
    batches = 1 if tier == "quick" else 10
    per = 400
    fails, total, samples = [], 0, []
    for b in range(batches):
        cases = []
        while len(cases) < per:
            t = tree(r, r.choice([1, 2, 3, 4, 5]))
            if t.text is None:
                continue
            cases.append(t)
        if b == 0:
            cases = cases + adjacency_cases()      # in addition to the random trees, never instead of them
        for fs, sig, e in FIXED_OUTSIDE_WINDOW:
            cases.append(Node(fs, fs, ["lf%de%d" % (sig, e)]))
        os.makedirs(os.path.join(BUILD, "src"), exist_ok=True)
        shutil.copy("/repo/Cargo.lock", os.path.join(BUILD, "Cargo.lock"))
        with open(os.path.join(BUILD, "Cargo.toml"), "w") as f:
            f.write('[package]\nname = "macro-batch"\nversion = "0.1.0"\nedition = "2021"\n[workspace]\n[dependencies]\nlexpr = { path = "/repo/lexpr", features = ["sexp-macro"] }\nryu = "1"\n[profile.dev]\nopt-level = 0\ndebug = false\n')
        with open(os.path.join(BUILD, "src", "main.rs"), "w") as f:
            f.write(RUST_HEAD)
            for i, c in enumerate(cases):
                f.write("    show(%d, sexp!(%s), %s);\n" % (i, c.src, rust_str(c.text)))
            for j, (src, text) in enumerate(EXTRA):
                f.write("    show(%d, %s, %s);\n" % (len(cases) + j, src, rust_str(text)))
            f.write("}\n")
        env = dict(os.environ, CARGO_NET_OFFLINE="true", CARGO_TARGET_DIR="/verif/build/target")
        p = subprocess.run(["cargo", "run", "--offline", "-q"], cwd=BUILD, env=env, stdout=subprocess.PIPE, stderr=subprocess.PIPE)
        if p.returncode != 0:
            fails.append("FAIL C09 generated sexp! batch does not compile or run: %s\tmacro-batch %d" % (p.stderr.decode()[-600:].replace("\n", " | "), b))
            continue
        lines = p.stdout.decode().splitlines()
        ops = []
        for c in cases:
            toks = group_counts(c.toks)
            ops.append("macro %d %s" % (count_top(toks), " ".join(toks)))
        with open(os.path.join(workdir, "macro-%d.ops" % b), "w") as f:
            f.write("\n".join(ops) + "\n")
        m = subprocess.run([driver], input=("\n".join(ops) + "\n").encode(), stdout=subprocess.PIPE).stdout.decode().splitlines()
        for i, c in enumerate(cases):
            total += 1
            parts = lines[i].split("\t") if i < len(lines) else ["?", "missing", "missing"]
            mac, txt = parts[1], parts[2]
            if len(samples) < 3:
                samples.append(dict(src="sexp!(%s)" % c.src, text=c.text, value=mac))
            if mac != txt:
                fails.append("FAIL C09 sexp!(%s) = %s but from_str(%r) = %s\t%s" % (c.src, mac, c.text, txt, ops[i]))
            if i < len(m) and m[i] != mac:
                fails.append("FAIL C09 model-disagreement: sexp!(%s) real %s model %s\t%s" % (c.src, mac, m[i], ops[i]))
        for j, (src, text) in enumerate(EXTRA):
            total += 1
            k = len(cases) + j
            parts = lines[k].split("\t") if k < len(lines) else ["?", "missing", "missing"]
            if parts[1] != parts[2]:
                fails.append("FAIL C09 %s = %s but from_str(%r) = %s\tmacro-extra %d" % (src, parts[1], text, parts[2], j))
    return fails, total, samples
