/-
  Input sources (parse/read.rs, parse/iter.rs) and the parser monad.

  One reader state serves the three sources.  `rest` is the input not yet consumed; for the
  stream source `peeked` records that the first byte of `rest` has already been pulled from the
  underlying iterator into the one-byte lookahead slot, and `faulty` says that the end of `rest`
  is a failing `read` rather than end of input (the harness' reader keeps failing once it has
  failed).  `line`/`col` count the bytes consumed so far, which is what `SliceRead` recomputes
  from its index and what `IoRead` reports for the position before a peeked byte.
-/
import LexprModel.Value
import LexprModel.Options
namespace Lexpr
namespace Parse

inductive Mode where | str | slice | io
  deriving DecidableEq, Repr, Inhabited

structure Pos where
  line : Nat
  col : Nat
  deriving DecidableEq, Repr, Inhabited

structure Rd where
  mode : Mode
  rest : List UInt8
  line : Nat := 1
  col : Nat := 0
  peeked : Bool := false
  faulty : Bool := false
  deriving Repr, Inhabited

/-- The 18 syntax error codes of `ErrorCode` (the 19th, `Io`, is `Err.io`). -/
inductive Code where
  | eofList | eofVector | eofString | eofValue | eofChar
  | expectedSomeIdent | mismatchedParenthesis | expectedSomeValue | expectedVector
  | expectedOctet | invalidEscape | invalidNumber | invalidSymbol | numberOutOfRange
  | invalidUnicodeCodePoint | invalidCharacterConstant | trailingCharacters
  | recursionLimitExceeded
  deriving DecidableEq, Repr, Inhabited

inductive Err where
  | syntax (code : Code) (line col : Nat)
  | io
  deriving DecidableEq, Repr, Inhabited

inductive Category where | io | syntax | eof
  deriving DecidableEq, Repr, Inhabited

/-- `Error::classify`. -/
def Code.category : Code → Category
  | .eofList | .eofString | .eofVector | .eofValue | .eofChar => .eof
  | _ => .syntax

def Err.category : Err → Category
  | .io => .io
  | .syntax c _ _ => c.category

/-- Parser state: the reader and `remaining_depth`. -/
structure St where
  rd : Rd
  depth : Nat := 128
  deriving Repr, Inhabited

/-- Places where the real code can panic. -/
inductive Site where
  | depthUnderflow      -- `remaining_depth -= 1` at 0
  | discardAtEof        -- `discard()` without a byte to discard
  | exponentOverflow    -- `exponent += 1` past i32::MAX
  | unreachable         -- an `unreachable!()` arm or `unwrap()` on None
  deriving DecidableEq, Repr, Inhabited

inductive Res (α : Type) where
  | ok (a : α) (s : St)
  | err (e : Err) (s : St)
  | panic (site : Site)
  | fuel
  deriving Repr, Inhabited

def P (α : Type) := St → Res α

@[inline] def P.pure (a : α) : P α := fun s => .ok a s
@[inline] def P.bind (m : P α) (f : α → P β) : P β := fun s =>
  match m s with
  | .ok a s' => f a s'
  | .err e s' => .err e s'
  | .panic p => .panic p
  | .fuel => .fuel

instance : Monad P where
  pure := P.pure
  bind := P.bind

def advance (line col : Nat) (b : UInt8) : Nat × Nat :=
  if b == 10 then (line + 1, 0) else (line, col + 1)

/-- Consume the first `n` bytes of the input. -/
def Rd.consume (rd : Rd) : Nat → Rd
  | 0 => { rd with peeked := false }
  | n + 1 =>
    match rd.rest with
    | [] => { rd with peeked := false }
    | b :: bs =>
      let (l, c) := advance rd.line rd.col b
      Rd.consume { rd with rest := bs, line := l, col := c, peeked := false } n

/-- `Read::position`. -/
def Rd.position (rd : Rd) : Pos := ⟨rd.line, rd.col⟩

/-- `Read::peek_position`: slice/str look one byte ahead if there is one; the stream source
    reports its counter, which includes a peeked byte. -/
def Rd.peekPosition (rd : Rd) : Pos :=
  match rd.rest with
  | [] => ⟨rd.line, rd.col⟩
  | b :: _ =>
    if rd.mode == .io && !rd.peeked then ⟨rd.line, rd.col⟩
    else let (l, c) := advance rd.line rd.col b; ⟨l, c⟩

def peek : P (Option UInt8) := fun s =>
  match s.rd.rest with
  | b :: _ => .ok (some b) { s with rd := { s.rd with peeked := s.rd.peeked || s.rd.mode == .io } }
  | [] => if s.rd.faulty then .err .io s else .ok none s

def next : P (Option UInt8) := fun s =>
  match s.rd.rest with
  | b :: _ => .ok (some b) { s with rd := s.rd.consume 1 }
  | [] => if s.rd.faulty then .err .io s else .ok none s

/-- `Read::discard`, only valid after a successful `peek`. -/
def discard : P Unit := fun s =>
  match s.rd.rest with
  | _ :: _ => .ok () { s with rd := s.rd.consume 1 }
  | [] => .panic .discardAtEof

def consumeN (n : Nat) : P Unit := fun s => .ok () { s with rd := s.rd.consume n }

def getRest : P (List UInt8) := fun s => .ok s.rd.rest s
def getMode : P Mode := fun s => .ok s.rd.mode s
def getPos : P Pos := fun s => .ok s.rd.position s

/-- `Parser::error` / `read::error`: an error at `position()`. -/
def errAt (c : Code) : P α := fun s => .err (.syntax c s.rd.position.line s.rd.position.col) s

/-- `Parser::peek_error`: an error at `peek_position()`. -/
def peekErr (c : Code) : P α := fun s =>
  .err (.syntax c s.rd.peekPosition.line s.rd.peekPosition.col) s

def panicAt (p : Site) : P α := fun _ => .panic p
def outOfFuel : P α := fun _ => .fuel

/-- Run `m` and capture an error as a value (the state keeps what `m` did). -/
def attempt (m : P α) : P (Except Err α) := fun s =>
  match m s with
  | .ok a s' => .ok (.ok a) s'
  | .err e s' => .ok (.error e) s'
  | .panic p => .panic p
  | .fuel => .fuel

def peekOrNull : P UInt8 := do
  let b ← peek
  pure (b.getD 0)

def nextOrNull : P UInt8 := do
  let b ← next
  pure (b.getD 0)

end Parse
end Lexpr
