/- Driver glue for the `ser` / `de` operations: decoding of Ty and Data terms, canonical
   ordering of sets and maps (BTreeSet / BTreeMap iteration order). -/
import LexprModel.Serde
open Lexpr Lexpr.Serde

namespace SerdeDrv

instance : Inhabited Ty := ⟨.unit⟩
instance : Inhabited TyList := ⟨.nil⟩
instance : Inhabited FieldList := ⟨.nil⟩
instance : Inhabited VariantList := ⟨.nil⟩
instance : Inhabited Variant := ⟨.unit⟩

def c0 (s : String) : Char := s.toList.headD ' '
def sdrop (s : String) (n : Nat) : String := String.ofList (s.toList.drop n)
def hexNibble (c : Char) : Nat :=
  if '0' ≤ c ∧ c ≤ '9' then c.toNat - 48 else if 'a' ≤ c ∧ c ≤ 'f' then c.toNat - 87 else 0
def unhexL : List Char → List UInt8
  | a :: b :: rest => UInt8.ofNat (hexNibble a * 16 + hexNibble b) :: unhexL rest
  | _ => []
def unhex (s : String) : List UInt8 := unhexL s.toList
def hexNat (s : String) : Nat := s.toList.foldl (fun n c => n * 16 + hexNibble c) 0

mutual
partial def decTy (t : List String) : Ty × List String :=
  match t with
  | [] => (.unit, [])
  | k :: r =>
    match k with
    | "i8" => (.int .i8, r) | "i16" => (.int .i16, r) | "i32" => (.int .i32, r) | "i64" => (.int .i64, r)
    | "u8" => (.int .u8, r) | "u16" => (.int .u16, r) | "u32" => (.int .u32, r) | "u64" => (.int .u64, r)
    | "f32" => (.f32, r) | "f64" => (.f64, r) | "bool" => (.bool, r) | "char" => (.char, r)
    | "str" => (.str, r) | "bytes" => (.bytes, r) | "unit" => (.unit, r) | "ustruct" => (.unitStruct, r)
    | "opt" => let (a, r) := decTy r; (.option a, r)
    | "seq" => let (a, r) := decTy r; (.seq a, r)
    | "set" => let (a, r) := decTy r; (.set a, r)
    | "nstruct" => let (a, r) := decTy r; (.newtypeStruct a, r)
    | "map" => let (a, r) := decTy r; let (b, r) := decTy r; (.map a b, r)
    | "tup" => let (ts, r) := decTys (r.headD "0").toNat! (r.drop 1); (.tuple ts, r)
    | "tstruct" => let (ts, r) := decTys (r.headD "0").toNat! (r.drop 1); (.tupleStruct ts, r)
    | "struct" => let (fs, r) := decFields (r.headD "0").toNat! (r.drop 1); (.struct fs, r)
    | "enum" => let (vs, r) := decVariants (r.headD "0").toNat! (r.drop 1); (.enum vs, r)
    | _ => (.unit, r)
partial def decTys (n : Nat) (t : List String) : TyList × List String :=
  match n with
  | 0 => (.nil, t)
  | n + 1 => let (a, r) := decTy t; let (ts, r) := decTys n r; (.cons a ts, r)
partial def decFields (n : Nat) (t : List String) : FieldList × List String :=
  match n with
  | 0 => (.nil, t)
  | n + 1 =>
    let name := unhex (t.headD "")
    let (a, r) := decTy (t.drop 1)
    let (fs, r) := decFields n r
    (.cons name a fs, r)
partial def decVariants (n : Nat) (t : List String) : VariantList × List String :=
  match n with
  | 0 => (.nil, t)
  | n + 1 =>
    let name := unhex (t.headD "")
    let kind := (t.drop 1).headD ""
    let r := t.drop 2
    let (v, r) : Variant × List String :=
      if kind == "vu" then (.unit, r)
      else if kind == "vn" then let (a, r) := decTy r; (.newtype a, r)
      else if kind == "vt" then let (ts, r) := decTys (r.headD "0").toNat! (r.drop 1); (.tuple ts, r)
      else let (fs, r) := decFields (r.headD "0").toNat! (r.drop 1); (.struct fs, r)
    let (vs, r) := decVariants n r
    (.cons name v vs, r)
end

/-- Data is decoded under the guidance of the type (maps vs sequences, variants). -/
partial def decData (ty : Ty) (t : List String) : Data × List String :=
  match t with
  | [] => (.unit, [])
  | k :: r =>
    let body := sdrop k 1
    match c0 k with
    | 'I' => (.int body.toInt!, r)
    | 'D' => (.float (hexNat body), r)
    | 'T' => (.bool true, r)
    | 'F' => (.bool false, r)
    | 'C' => (.char (hexNat body), r)
    | 'S' => (.str (unhex body), r)
    | 'B' => (.bytes (unhex body), r)
    | 'U' => (.unit, r)
    | 'N' => (.none, r)
    | 'J' =>
      let inner := match ty with | .option a => a | .newtypeStruct (.option a) => a | _ => .unit
      let (d, r) := decData inner r; (.some d, r)
    | 'L' =>
      let n := body.toNat!
      let elemTys : List Ty := match ty with
        | .seq a | .set a => List.replicate n a
        | .tuple ts | .tupleStruct ts => tyListToList ts
        | .struct fs => fieldTys fs
        | .newtypeStruct (.seq a) => List.replicate n a
        | _ => List.replicate n .unit
      let rec go (tys : List Ty) (k : Nat) (r : List String) (acc : List Data) : List Data × List String :=
        match k with
        | 0 => (acc.reverse, r)
        | k + 1 => let (d, r) := decData (tys.headD .unit) r; go (tys.drop 1) k r (d :: acc)
      let (ds, r) := go elemTys n r []
      (.seq ds, r)
    | 'M' =>
      let n := body.toNat!
      let (kt, vt) := match ty with | .map a b => (a, b) | _ => (.unit, .unit)
      let rec goM (k : Nat) (r : List String) (acc : List (Data × Data)) : List (Data × Data) × List String :=
        match k with
        | 0 => (acc.reverse, r)
        | k + 1 => let (a, r) := decData kt r; let (b, r) := decData vt r; goM k r ((a, b) :: acc)
      let (kvs, r) := goM n r []
      (.map kvs, r)
    | 'E' =>
      let i := body.toNat!
      let pty : Ty := match ty with
        | .enum vs => (match vs.get i with
          | some (_, .newtype a) => a
          | some (_, .tuple ts) => .tuple ts
          | some (_, .struct fs) => .struct fs
          | _ => .unit)
        | _ => .unit
      let (p, r) := decData pty r
      (.variant i p, r)
    | _ => (.unit, r)
where
  tyListToList : TyList → List Ty
    | .nil => []
    | .cons a ts => a :: tyListToList ts
  fieldTys : FieldList → List Ty
    | .nil => []
    | .cons _ a fs => a :: fieldTys fs

def natHex (n : Nat) : String := String.ofList (Nat.toDigits 16 n)
def pad16 (s : String) : String := String.ofList (List.replicate (16 - s.length) '0') ++ s
def hexChar (n : Nat) : Char := if n < 10 then Char.ofNat (48 + n) else Char.ofNat (87 + n)
def hex (bs : List UInt8) : String :=
  String.ofList (bs.flatMap fun b => [hexChar (b.toNat / 16), hexChar (b.toNat % 16)])

/-- order of BTreeSet / BTreeMap keys for the key types in the registry -/
def dataLt : Data → Data → Bool
  | .int a, .int b => a < b
  | .char a, .char b => a < b
  | .str a, .str b => a < b
  | _, _ => false
def dataEq : Data → Data → Bool
  | .int a, .int b => a == b
  | .char a, .char b => a == b
  | .str a, .str b => a == b
  | _, _ => false

def insertSet (x : Data) : List Data → List Data
  | [] => [x]
  | y :: ys => if dataEq x y then y :: ys else if dataLt x y then x :: y :: ys else y :: insertSet x ys
def insertMap (k v : Data) : List (Data × Data) → List (Data × Data)
  | [] => [(k, v)]
  | (a, b) :: r => if dataEq k a then (a, v) :: r else if dataLt k a then (k, v) :: (a, b) :: r else (a, b) :: insertMap k v r

partial def canon (ty : Ty) (d : Data) : Data :=
  match ty, d with
  | .set a, .seq ds => .seq ((ds.map (canon a)).foldl (fun acc x => insertSet x acc) [])
  | .seq a, .seq ds => .seq (ds.map (canon a))
  | .map a b, .map kvs => .map (kvs.foldl (fun acc (k, v) => insertMap (canon a k) (canon b v) acc) [])
  | .option a, .some x => .some (canon a x)
  | .newtypeStruct a, x => canon a x
  | .tuple ts, .seq ds => .seq (zipCanon (decData.tyListToList ts) ds)
  | .tupleStruct ts, .seq ds => .seq (zipCanon (decData.tyListToList ts) ds)
  | .struct fs, .seq ds => .seq (zipCanon (decData.fieldTys fs) ds)
  | .enum vs, .variant i p =>
    (match vs.get i with
     | some (_, .newtype a) => .variant i (canon a p)
     | some (_, .tuple ts) => .variant i (canon (.tuple ts) p)
     | some (_, .struct fs) => .variant i (canon (.struct fs) p)
     | _ => .variant i p)
  | _, x => x
where
  zipCanon : List Ty → List Data → List Data
    | t :: ts, d :: ds => canon t d :: zipCanon ts ds
    | _, ds => ds

partial def encData : Data → List String
  | .int n => [s!"I{n}"]
  | .float b => [if F64.isNaN b then "Dnan" else "D" ++ pad16 (natHex b)]
  | .bool true => ["T"]
  | .bool false => ["F"]
  | .char c => ["C" ++ natHex c]
  | .str s => ["S" ++ hex s]
  | .bytes b => ["B" ++ hex b]
  | .unit => ["U"]
  | .none => ["N"]
  | .some d => "J" :: encData d
  | .seq ds => s!"L{ds.length}" :: ds.flatMap encData
  | .map kvs => s!"M{kvs.length}" :: kvs.flatMap fun (k, v) => encData k ++ encData v
  | .variant i p => s!"E{i}" :: encData p

end SerdeDrv
