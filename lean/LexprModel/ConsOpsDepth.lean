/-
  The loops of LexprModel/ConsOps.lean instrumented with the call depth (C16).

  Unit: one *level* = one call of a value-level operation together with the calls it makes without
  descending into another value (`Value::clone` + `Cons::clone`; `Value::eq` + `Cons::eq`; the drop
  glue of a `Value` + `Cons::drop` + the glue of its box; dropping a local `Cons` is a level of its own).
  Iterations of a loop stay on the level of the function that contains the loop; a call on a car
  (`cell.car().clone()`, `a.car() != b.car()`, dropping a car) and the call on the final `rest` go one
  level down.  `cloneVI` / `eqVI` return the result of the un-instrumented function together with the
  depth reached (erasure: `cloneVI_fst`, `eqVI_fst` in Proofs/ConsOpsDepth.lean).
-/
import LexprModel.ConsOps
namespace Lexpr
namespace ConsOps
open Value

/-! ### Clone -/

mutual
/-- `cloneV` with the depth reached. -/
def cloneVI : Value → Out Value × Nat
  | .cons a d =>
    match cloneVI a with
    | (.panic s, k) => (.panic s, k + 1)
    | (.ok c, k) =>
      match cloneWhileI (.cons c .null) 0 d k with
      | (r, k') => (r, k' + 1)
  | .vector xs =>
    match cloneListI xs with
    | (r, k) => (r.map .vector, k + 1)
  | v => (.ok v, 1)
/-- `cloneWhile`; `k` is the deepest level reached below the frame of `Cons::clone` so far. -/
def cloneWhileI (head : Value) (last : Nat) : Value → Nat → Out Value × Nat
  | .cons a d, k =>
    match cloneVI a with
    | (.panic s, k1) => (.panic s, max k k1)
    | (.ok c, k1) =>
      match setCdrAt head last (.cons c .null) with
      | none => (.panic .dangling, max k k1)
      | some head' =>
        match cellAt head' last with
        | some (_, .cons _ _) => cloneWhileI head' (last + 1) d (max k k1)
        | some _ => (.panic .cloneUnreachable, max k k1)
        | none => (.panic .dangling, max k k1)
  | .vector xs, k =>
    match cloneListI xs with
    | (r, k1) => (finish head last (r.map .vector), max k (k1 + 1))
  | t, k => (finish head last (.ok t), max k 1)
def cloneListI : List Value → Out (List Value) × Nat
  | [] => (.ok [], 0)
  | x :: xs =>
    match cloneVI x with
    | (.panic s, k) => (.panic s, k)
    | (.ok y, k) =>
      match cloneListI xs with
      | (r, k') => (r.map (y :: ·), max k k')
end

/-! ### PartialEq -/

mutual
/-- `eqV` with the depth reached. -/
def eqVI : Value → Value → Bool × Nat
  | .cons a d, .cons a' d' =>
    match eqVI a a' with
    | (false, k) => (false, k + 1)
    | (true, k) =>
      match eqTailI d d' with
      | (r, k') => (r, max k k' + 1)
  | .vector xs, .vector ys =>
    match eqListI xs ys with
    | (r, k) => (r, k + 1)
  | a, b => (eqAtom a b, 1)
/-- `eqTail`: the depth reached below the frame of `Cons::eq`. -/
def eqTailI : Value → Value → Bool × Nat
  | .cons x dx, .cons y dy =>
    match eqVI x y with
    | (false, k) => (false, k)
    | (true, k) =>
      match eqTailI dx dy with
      | (r, k') => (r, max k k')
  | .vector xs, .vector ys =>
    match eqListI xs ys with
    | (r, k) => (r, k + 1)
  | x, y => (eqAtom x y, 1)
def eqListI : List Value → List Value → Bool × Nat
  | [], [] => (true, 0)
  | x :: xs, y :: ys =>
    match eqVI x y with
    | (false, k) => (false, k)
    | (true, k) =>
      match eqListI xs ys with
      | (r, k') => (r, max k k')
  | _, _ => (false, 0)
end

/-! ### Drop -/

mutual
/-- Depth of dropping a `Value` (drop glue, `Cons::drop`, glue of the box). -/
def dropD : Value → Nat
  | .cons a (.cons a2 (.cons a3 d3)) =>
    -- `Cons::drop` runs its loop: it drops the cells `(a . ((Nil . Nil)))`, `(a2 . ((Nil . Nil)))` and
    -- the chain from `(a3 . d3)`; afterwards the glue drops what is left of `self`: `(Nil . Nil)`
    1 + max (max (1 + max (dropD a) 2) (1 + max (dropD a2) 2)) (max (chainD (dropD a3) d3) 1)
  | .cons a d =>
    -- `Cons::drop` returns at once; the glue drops both fields
    1 + max (dropD a) (dropD d)
  | .vector xs => 1 + dropListD xs
  | _ => 1
/-- Depth of the cells dropped by the `while` loop from the cell `(car . cdr)` on, where `kcar` is the
    depth of dropping `car`: a cell that is followed by another is dropped holding `((Nil . Nil))` in
    its cdr (depth 2), the last one holding the tail. -/
def chainD (kcar : Nat) : Value → Nat
  | .cons a d => max (1 + max kcar 2) (chainD (dropD a) d)
  | .vector xs => 1 + max kcar (1 + dropListD xs)
  | _ => 1 + max kcar 1
def dropListD : List Value → Nat
  | [] => 0
  | x :: xs => max (dropD x) (dropListD xs)
end

/-- Depth of dropping a local `Cons` `(car . cdr)` (its `Cons::drop` is assumed to return at once). -/
def cellD (c : Value × Value) : Nat := 1 + max (dropD c.1) (dropD c.2)

def maxOf : List Nat → Nat
  | [] => 0
  | x :: xs => max x (maxOf xs)

end ConsOps
end Lexpr
