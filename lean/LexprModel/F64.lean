/-
  IEEE-754 binary64 arithmetic as far as the code uses it, defined over `Nat`.
  A double is its 64 bits (`UInt64`).  `rn n d` rounds the positive rational n/d to the nearest
  double (ties to even, gradual underflow, overflow to +infinity) and returns the bits of the
  magnitude.  Rust's `u64 as f64`, `f64 * f64`, `f64 / f64` on non-negative finite operands
  and a correctly rounded decimal parser are then one `rn` each.
-/
import LexprModel.Basic
namespace Lexpr
namespace F64

def infBits : Nat := 0x7FF0000000000000
def signBit : Nat := 0x8000000000000000
def two52 : Nat := 4503599627370496

/-- round-half-even of n/d, d > 0 -/
def rne (n d : Nat) : Nat :=
  let q := n / d
  let r := n % d
  if 2 * r > d then q + 1
  else if 2 * r = d then (if q % 2 = 1 then q + 1 else q)
  else q

/-- floor(log2 (n/d)) for n, d > 0, as an integer. -/
def ilog2 (n d : Nat) : Int :=
  let e0 : Int := (Nat.log2 n : Int) - (Nat.log2 d : Int)
  -- n/d < 2^e0 ?
  let lt : Bool :=
    if e0 ≥ 0 then n < d * 2 ^ e0.toNat else n * 2 ^ (-e0).toNat < d
  if lt then e0 - 1 else e0

/-- Bits of the double nearest to n/d (n ≥ 0, d > 0); `infBits` on overflow. -/
def rn (n d : Nat) : Nat :=
  if n = 0 ∨ d = 0 then 0
  else
    let e := ilog2 n d
    let ee : Int := if e < -1022 then -1022 else e
    let p : Int := ee - 52                       -- exponent of the last place
    let m : Nat := if p ≥ 0 then rne n (d * 2 ^ p.toNat) else rne (n * 2 ^ (-p).toNat) d
    let bits := (ee + 1022).toNat * two52 + m
    if bits ≥ infBits then infBits else bits

/-- Decode the magnitude bits of a finite double into (m, p) with value m * 2^p. -/
def decode (bits : Nat) : Nat × Int :=
  let b := bits % signBit
  let biased := b / two52
  let frac := b % two52
  if biased = 0 then (frac, -1074) else (frac + two52, (biased : Int) - 1075)

def isInf (bits : Nat) : Bool := bits % signBit == infBits
def isNaN (bits : Nat) : Bool := bits % signBit > infBits
def isFinite (bits : Nat) : Bool := bits % signBit < infBits
def isNeg (bits : Nat) : Bool := bits ≥ signBit
def isZero (bits : Nat) : Bool := bits % signBit == 0

/-- `n as f64` for an unsigned integer. -/
def ofNat (n : Nat) : Nat := rn n 1

/-- `i as f64` for a signed integer. -/
def ofInt (i : Int) : Nat := if i < 0 then signBit + rn i.natAbs 1 else rn i.toNat 1

/-- Round m * 2^p (p an integer) to a double. -/
def rnScaled (m : Nat) (p : Int) : Nat :=
  if p ≥ 0 then rn (m * 2 ^ p.toNat) 1 else rn m (2 ^ (-p).toNat)

/-- Product of two non-negative finite doubles. -/
def mulPos (a b : Nat) : Nat :=
  let (ma, pa) := decode a
  let (mb, pb) := decode b
  rnScaled (ma * mb) (pa + pb)

/-- Quotient of two non-negative finite doubles, divisor non-zero. -/
def divPos (a b : Nat) : Nat :=
  let (ma, pa) := decode a
  let (mb, pb) := decode b
  let p := pa - pb
  if p ≥ 0 then rn (ma * 2 ^ p.toNat) mb else rn ma (mb * 2 ^ (-p).toNat)

def neg (bits : Nat) : Nat := if bits ≥ signBit then bits - signBit else bits + signBit

/-- Correctly rounded s * 10^e (what a correct decimal parser returns for "<s>e<e>"). -/
def rnDec (s : Nat) (e : Int) : Nat :=
  if s = 0 then 0
  else if e > 400 then infBits
  else if e < -420 then 0            -- s < 2^64 < 10^20, so s*10^e < 10^-400: rounds to zero
  else if e ≥ 0 then rn (s * 10 ^ e.toNat) 1 else rn s (10 ^ (-e).toNat)

/-- IEEE `==` on doubles given as bits. -/
def feq (a b : Nat) : Bool :=
  if isNaN a || isNaN b then false
  else if isZero a && isZero b then true
  else a == b

/-- Widening of an IEEE binary32 (given as 32 bits) to binary64 bits; exact. NaN maps to a NaN. -/
def ofF32Bits (b : Nat) : Nat :=
  let sign := if b ≥ 2147483648 then signBit else 0
  let mag := b % 2147483648
  let biased := mag / 8388608
  let frac := mag % 8388608
  if biased = 255 then
    (if frac = 0 then sign + infBits else sign + infBits + frac * 536870912)
  else if biased = 0 then sign + rnScaled frac (-149)
  else sign + rnScaled (frac + 8388608) ((biased : Int) - 150)

end F64
end Lexpr
