/-
  Bytes, UTF-8 and small helpers shared by every layer of the model.
  Core Lean only (no Mathlib, no Std): the driver links this file.
-/
namespace Lexpr

/-- ASCII code of a character literal, as a byte. -/
@[inline] def ch (c : Char) : UInt8 := UInt8.ofNat c.toNat

/-- The bytes of an ASCII string literal. -/
def asc (s : String) : List UInt8 := s.toList.map ch

/-- Decimal digits of a natural number (what `itoa` prints for an unsigned integer). -/
def natDigits (n : Nat) : List UInt8 := (Nat.toDigits 10 n).map ch

/-- What `itoa` prints for a signed integer. -/
def intDigits (i : Int) : List UInt8 :=
  if i < 0 then ch '-' :: natDigits i.natAbs else natDigits i.toNat

def hexDigitLower (n : Nat) : UInt8 :=
  if n < 10 then UInt8.ofNat (48 + n) else UInt8.ofNat (87 + n)

def hexDigitUpper (n : Nat) : UInt8 :=
  if n < 10 then UInt8.ofNat (48 + n) else UInt8.ofNat (55 + n)

/-- `format!("{:x}", n)`: lower-case hexadecimal without leading zeros. -/
def natHexLower (n : Nat) : List UInt8 := (Nat.toDigits 16 n).map ch

namespace Utf8

def isCont (b : UInt8) : Bool := 0x80 ≤ b && b < 0xC0

def isSurrogate (c : Nat) : Bool := 0xD800 ≤ c && c < 0xE000

/-- UTF-8 encoding of a scalar value given as a number (`char::encode_utf8`). -/
def encode (c : Nat) : List UInt8 :=
  if c < 0x80 then [UInt8.ofNat c]
  else if c < 0x800 then [UInt8.ofNat (0xC0 + c / 64), UInt8.ofNat (0x80 + c % 64)]
  else if c < 0x10000 then
    [UInt8.ofNat (0xE0 + c / 4096), UInt8.ofNat (0x80 + (c / 64) % 64), UInt8.ofNat (0x80 + c % 64)]
  else
    [UInt8.ofNat (0xF0 + c / 262144), UInt8.ofNat (0x80 + (c / 4096) % 64),
     UInt8.ofNat (0x80 + (c / 64) % 64), UInt8.ofNat (0x80 + c % 64)]

/-- State of the validity automaton (the table of the Unicode standard, which is also what
    `core::str::from_utf8` implements): `idle`, or inside a sequence with `need` more bytes
    outstanding, the next of which must lie in `[lo, hi]`. -/
inductive St where
  | idle
  | mid (need : Nat) (lo hi : UInt8)
  deriving DecidableEq, Repr

/-- One step of the UTF-8 validity automaton (`none` = ill-formed). -/
def step (s : St) (b : UInt8) : Option St :=
  match s with
  | .idle =>
    if b < 0x80 then some .idle
    else if 0xC2 ≤ b && b ≤ 0xDF then some (.mid 1 0x80 0xBF)
    else if b == 0xE0 then some (.mid 2 0xA0 0xBF)
    else if b == 0xED then some (.mid 2 0x80 0x9F)
    else if 0xE1 ≤ b && b ≤ 0xEF then some (.mid 2 0x80 0xBF)
    else if b == 0xF0 then some (.mid 3 0x90 0xBF)
    else if 0xF1 ≤ b && b ≤ 0xF3 then some (.mid 3 0x80 0xBF)
    else if b == 0xF4 then some (.mid 3 0x80 0x8F)
    else none
  | .mid need lo hi =>
    if lo ≤ b && b ≤ hi then
      if need ≤ 1 then some .idle else some (.mid (need - 1) 0x80 0xBF)
    else none

/-- Run the automaton over a byte list. -/
def run : St → List UInt8 → Option St
  | s, [] => some s
  | s, b :: bs => match step s b with
    | none => none
    | some s' => run s' bs

/-- `std::str::from_utf8(bs).is_ok()`. -/
def valid (bs : List UInt8) : Bool := run .idle bs == some .idle

/-- `from_utf8(bs)` fails with `error_len() == None`: the bytes are well-formed as far as they
    go but end inside a sequence. -/
def incomplete (bs : List UInt8) : Bool :=
  match run .idle bs with
  | some (.mid _ _ _) => true
  | _ => false

/-- Decode the first scalar value of a byte list (strict: no overlong forms, no surrogates,
    nothing above U+10FFFF). Returns the scalar and the remaining bytes. -/
def decodeFirst : List UInt8 → Option (Nat × List UInt8)
  | [] => none
  | b0 :: rest =>
    if b0 < 0x80 then some (b0.toNat, rest)
    else if 0xC2 ≤ b0 && b0 < 0xE0 then
      match rest with
      | b1 :: r => if isCont b1 then some ((b0.toNat - 0xC0) * 64 + (b1.toNat - 0x80), r) else none
      | _ => none
    else if 0xE0 ≤ b0 && b0 < 0xF0 then
      match rest with
      | b1 :: b2 :: r =>
        if isCont b1 && isCont b2 then
          let c := ((b0.toNat - 0xE0) * 64 + (b1.toNat - 0x80)) * 64 + (b2.toNat - 0x80)
          if 0x800 ≤ c && !isSurrogate c then some (c, r) else none
        else none
      | _ => none
    else if 0xF0 ≤ b0 && b0 < 0xF5 then
      match rest with
      | b1 :: b2 :: b3 :: r =>
        if isCont b1 && isCont b2 && isCont b3 then
          let c := (((b0.toNat - 0xF0) * 64 + (b1.toNat - 0x80)) * 64 + (b2.toNat - 0x80)) * 64
                    + (b3.toNat - 0x80)
          if 0x10000 ≤ c && c < 0x110000 then some (c, r) else none
        else none
      | _ => none
    else none

end Utf8

/-- `char::from_u32`. -/
def isScalar (n : Nat) : Bool := n < 0x110000 && !Utf8.isSurrogate n

end Lexpr
