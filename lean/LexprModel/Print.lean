/-
  The printer (print.rs): `Printer::print` with `DefaultFormatter` and `CustomizedFormatter`,
  as functions producing the list of emissions, and the semantics of `Write::write` /
  `Write::write_all` against a sink that may accept few bytes, be interrupted or fail.

  `ryu : Nat → List UInt8` is the text `ryu::Buffer::format` returns for a double given by its
  bits; it is a parameter (assumed behaviour, see DESIGN.md 3.3).
-/
import LexprModel.Value
import LexprModel.Options
namespace Lexpr
namespace Print

/-- One call on the sink: `write_all(buf)` or a bare `write(buf)` whose result is dropped. -/
inductive Emit where
  | all (bs : List UInt8)
  | one (bs : List UInt8)
  deriving Repr, DecidableEq, Inhabited

def Emit.bytes : Emit → List UInt8 | .all b => b | .one b => b
def Emit.isAll : Emit → Bool | .all _ => true | .one _ => false

/-- Concatenation of everything offered to the sink. -/
def flatten (es : List Emit) : List UInt8 := es.flatMap Emit.bytes

/-- The `ESCAPE` table folded with `CharEscape::from_escape_table`: the class of a byte. -/
inductive EscClass where
  | none | alert | backspace | tab | lineFeed | carriageReturn | quote | reverseSolidus | control
  deriving DecidableEq, Repr

def escClass (b : UInt8) : EscClass :=
  if b == 0x07 then .alert
  else if b == 0x08 then .backspace
  else if b == 0x09 then .tab
  else if b == 0x0A then .lineFeed
  else if b == 0x0D then .carriageReturn
  else if b == 0x22 then .quote
  else if b == 0x5C then .reverseSolidus
  else if b < 0x20 || b == 0x7F then .control
  else .none

/-- `write_r6rs_char_escape` / `write_elisp_char_escape`. -/
def escapeText (syn : StringSyntax) (b : UInt8) : EscClass → List UInt8
  | .none => [b]
  | .quote => asc "\\\""
  | .reverseSolidus => asc "\\\\"
  | .alert => asc "\\a"
  | .backspace => asc "\\b"
  | .lineFeed => asc "\\n"
  | .carriageReturn => asc "\\r"
  | .tab => asc "\\t"
  | .control =>
    match syn with
    | .r6rs => [ch '\\', ch 'x', hexDigitUpper (b.toNat / 16), hexDigitUpper (b.toNat % 16), ch ';']
    | .elisp => [ch '\\', ch 'u', ch '0', ch '0', hexDigitUpper (b.toNat / 16),
                 hexDigitUpper (b.toNat % 16)]

/-- `format_escaped_str_contents`: the text written for the bytes of a string. -/
def escapeStr (syn : StringSyntax) (s : List UInt8) : List UInt8 :=
  s.flatMap (fun b => escapeText syn b (escClass b))

def elispEscapeChars : List UInt8 := asc "()[]\\;|'`#.,"

/-- `write_scheme_char`. -/
def schemeChar (c : Nat) : List UInt8 :=
  if 32 ≤ c ∧ c < 127 then [ch '#', ch '\\', UInt8.ofNat c]
  else asc "#\\x" ++ natHexLower c

/-- `write_elisp_char`. -/
def elispChar (c : Nat) : List UInt8 :=
  if 32 ≤ c ∧ c < 127 then
    if elispEscapeChars.contains (UInt8.ofNat c) then [ch '?', ch '\\', UInt8.ofNat c]
    else [ch '?', UInt8.ofNat c]
  else asc "?\\x" ++ natHexLower c

def numberText (ryu : Nat → List UInt8) : Number → List UInt8
  | .pos n => natDigits n
  | .neg i => intDigits i
  | .flt b => ryu b

/-- Elements of a byte vector separated by single spaces. -/
def octetsText : List UInt8 → List UInt8
  | [] => []
  | [b] => natDigits b.toNat
  | b :: bs => natDigits b.toNat ++ ch ' ' :: octetsText bs

def octalDigit (n : Nat) : UInt8 := UInt8.ofNat (48 + n)

/-- `\ooo` for every byte, the Emacs unibyte string notation. -/
def elispBytesText (bs : List UInt8) : List UInt8 :=
  bs.flatMap (fun b => [ch '\\', octalDigit (b.toNat / 64 % 8), octalDigit (b.toNat / 8 % 8),
                        octalDigit (b.toNat % 8)])

/-! ### CustomizedFormatter -/

def boolText (o : Options) (b : Bool) : List UInt8 :=
  match o.bool with
  | .symbol => if b then asc "t" else asc "nil"
  | .token => if b then asc "#t" else asc "#f"

def nilText (o : Options) : List UInt8 :=
  match o.nil with
  | .emptyList => asc "()"
  | .symbol => asc "nil"
  | .token => asc "#nil"
  | .false_ => boolText o false

def keywordEmits (o : Options) (name : List UInt8) : List Emit :=
  match o.keyword with
  | .colonPostfix => [.all name, .all (asc ":")]
  | .colonPrefix => [.all (asc ":"), .all name]
  | .octothorpe => [.all (asc "#:"), .all name]

def vecOpen (o : Options) : List UInt8 :=
  match o.vector with | .brackets => asc "[" | .octothorpe => asc "#("
def vecClose (o : Options) : List UInt8 :=
  match o.vector with | .brackets => asc "]" | .octothorpe => asc ")"

def bytesEmits (o : Options) (bs : List UInt8) : List Emit :=
  match o.bytes with
  | .r6rs => [.all (asc "#vu8("), .all (octetsText bs), .all (asc ")")]
  | .r7rs => [.all (asc "#u8("), .all (octetsText bs), .all (asc ")")]
  | .elisp => [.all (asc "\""), .all (elispBytesText bs), .all (asc "\"")]

def charText (o : Options) (c : Nat) : List UInt8 :=
  match o.char with | .r6rs => schemeChar c | .elisp => elispChar c

/-- Everything `Printer::print` emits for a value that is neither a pair nor a vector. -/
def atomEmits (o : Options) (ryu : Nat → List UInt8) : Value → List Emit
  | .nil => [.all (nilText o)]
  | .null => [.all (asc "()")]
  | .bool b => [.all (boolText o b)]
  | .number n => [.all (numberText ryu n)]
  | .char c => [.all (charText o c)]
  | .symbol s => [.all s]
  | .keyword s => keywordEmits o s
  | .string s => [.all (asc "\""), .all (escapeStr o.string s), .all (asc "\"")]
  | .bytes b => bytesEmits o b
  | .cons _ _ => []
  | .vector _ => []

mutual
/-- `Printer::print` with the customised formatter. -/
def emits (o : Options) (ryu : Nat → List UInt8) : Value → List Emit
  | .cons a d => .all (asc "(") :: (emits o ryu a ++ emitsTail o ryu d ++ [.all (asc ")")])
  | .vector xs => .all (vecOpen o) :: (emitsSeq o ryu true xs ++ [.all (vecClose o)])
  | .nil => atomEmits o ryu .nil
  | .null => atomEmits o ryu .null
  | .bool b => atomEmits o ryu (.bool b)
  | .number n => atomEmits o ryu (.number n)
  | .char c => atomEmits o ryu (.char c)
  | .string s => atomEmits o ryu (.string s)
  | .symbol s => atomEmits o ryu (.symbol s)
  | .keyword s => atomEmits o ryu (.keyword s)
  | .bytes b => atomEmits o ryu (.bytes b)
/-- What follows an element of a list: the rest of the cdr chain. -/
def emitsTail (o : Options) (ryu : Nat → List UInt8) : Value → List Emit
  | .null => []
  | .cons a d => .all (asc " ") :: (emits o ryu a ++ emitsTail o ryu d)
  | .vector xs =>
    [.all (asc " "), .all (asc "."), .all (asc " ")] ++
      (.all (vecOpen o) :: (emitsSeq o ryu true xs ++ [.all (vecClose o)]))
  | .nil => [.all (asc " "), .all (asc "."), .all (asc " ")] ++ atomEmits o ryu .nil
  | .bool b => [.all (asc " "), .all (asc "."), .all (asc " ")] ++ atomEmits o ryu (.bool b)
  | .number n => [.all (asc " "), .all (asc "."), .all (asc " ")] ++ atomEmits o ryu (.number n)
  | .char c => [.all (asc " "), .all (asc "."), .all (asc " ")] ++ atomEmits o ryu (.char c)
  | .string s => [.all (asc " "), .all (asc "."), .all (asc " ")] ++ atomEmits o ryu (.string s)
  | .symbol s => [.all (asc " "), .all (asc "."), .all (asc " ")] ++ atomEmits o ryu (.symbol s)
  | .keyword s => [.all (asc " "), .all (asc "."), .all (asc " ")] ++ atomEmits o ryu (.keyword s)
  | .bytes b => [.all (asc " "), .all (asc "."), .all (asc " ")] ++ atomEmits o ryu (.bytes b)
/-- Vector elements with `begin_seq_element(first)`. -/
def emitsSeq (o : Options) (ryu : Nat → List UInt8) : Bool → List Value → List Emit
  | _, [] => []
  | true, x :: xs => emits o ryu x ++ emitsSeq o ryu false xs
  | false, x :: xs => .all (asc " ") :: (emits o ryu x ++ emitsSeq o ryu false xs)
end

/-- The printed text. -/
def text (o : Options) (ryu : Nat → List UInt8) (v : Value) : List UInt8 := flatten (emits o ryu v)

/-! ### DefaultFormatter (the trait's provided methods) -/

def atomEmitsDefault (ryu : Nat → List UInt8) : Value → List Emit
  | .nil => [.all (asc "#nil")]
  | .null => [.all (asc "()")]
  | .bool b => [.all (if b then asc "#t" else asc "#f")]
  | .number n => [.all (numberText ryu n)]
  | .char c => [.all (schemeChar c)]
  | .symbol s => [.all s]
  | .keyword s => [.all (asc "#:"), .all s]
  | .string s => [.all (asc "\""), .all (escapeStr .r6rs s), .all (asc "\"")]
  | .bytes b => [.all (asc "#u8("), .all (octetsText b), .all (asc ")")]
  | .cons _ _ => []
  | .vector _ => []

mutual
def emitsDefault (ryu : Nat → List UInt8) : Value → List Emit
  | .cons a d => .all (asc "(") :: (emitsDefault ryu a ++ emitsTailDefault ryu d ++ [.all (asc ")")])
  | .vector xs => .all (asc "#(") :: (emitsSeqDefault ryu true xs ++ [.all (asc ")")])
  | .nil => atomEmitsDefault ryu .nil
  | .null => atomEmitsDefault ryu .null
  | .bool b => atomEmitsDefault ryu (.bool b)
  | .number n => atomEmitsDefault ryu (.number n)
  | .char c => atomEmitsDefault ryu (.char c)
  | .string s => atomEmitsDefault ryu (.string s)
  | .symbol s => atomEmitsDefault ryu (.symbol s)
  | .keyword s => atomEmitsDefault ryu (.keyword s)
  | .bytes b => atomEmitsDefault ryu (.bytes b)
def emitsTailDefault (ryu : Nat → List UInt8) : Value → List Emit
  | .null => []
  | .cons a d => .all (asc " ") :: (emitsDefault ryu a ++ emitsTailDefault ryu d)
  | .vector xs =>
    [.all (asc " "), .all (asc "."), .all (asc " ")] ++
      (.all (asc "#(") :: (emitsSeqDefault ryu true xs ++ [.all (asc ")")]))
  | .nil => [.all (asc " "), .all (asc "."), .all (asc " ")] ++ atomEmitsDefault ryu .nil
  | .bool b => [.all (asc " "), .all (asc "."), .all (asc " ")] ++ atomEmitsDefault ryu (.bool b)
  | .number n => [.all (asc " "), .all (asc "."), .all (asc " ")] ++ atomEmitsDefault ryu (.number n)
  | .char c => [.all (asc " "), .all (asc "."), .all (asc " ")] ++ atomEmitsDefault ryu (.char c)
  | .string s => [.all (asc " "), .all (asc "."), .all (asc " ")] ++ atomEmitsDefault ryu (.string s)
  | .symbol s => [.all (asc " "), .all (asc "."), .all (asc " ")] ++ atomEmitsDefault ryu (.symbol s)
  | .keyword s => [.all (asc " "), .all (asc "."), .all (asc " ")] ++ atomEmitsDefault ryu (.keyword s)
  | .bytes b => [.all (asc " "), .all (asc "."), .all (asc " ")] ++ atomEmitsDefault ryu (.bytes b)
def emitsSeqDefault (ryu : Nat → List UInt8) : Bool → List Value → List Emit
  | _, [] => []
  | true, x :: xs => emitsDefault ryu x ++ emitsSeqDefault ryu false xs
  | false, x :: xs => .all (asc " ") :: (emitsDefault ryu x ++ emitsSeqDefault ryu false xs)
end

def textDefault (ryu : Nat → List UInt8) (v : Value) : List UInt8 := flatten (emitsDefault ryu v)

/-! ### Sinks -/

/-- Answer of the sink to one `write(buf)` call. -/
inductive Resp where
  | accept (k : Nat)      -- accepts min k |buf| bytes (0 = accepts nothing)
  | interrupted           -- Err(Interrupted)
  | fail                  -- any other error
  deriving Repr, DecidableEq, Inhabited

inductive IoRes where | ok | err
  deriving Repr, DecidableEq, Inhabited

/-- `Write::write_all(buf)` against a schedule of answers; an exhausted schedule accepts
    everything.  Returns the result, the bytes delivered and the unused schedule.
    (std: loops while the buffer is non-empty, retries `Interrupted`, `Ok(0)` is `WriteZero`.) -/
def writeAll : List Resp → List UInt8 → IoRes × List UInt8 × List Resp
  | sched, [] => (.ok, [], sched)
  | [], buf => (.ok, buf, [])
  | .accept k :: s, b :: bs =>
    if k = 0 then (.err, [], s)
    else
      let n := min k (bs.length + 1)
      let (r, out, s') := writeAll s ((b :: bs).drop n)
      (r, (b :: bs).take n ++ out, s')
  | .interrupted :: s, buf => writeAll s buf
  | .fail :: s, _ => (.err, [], s)

/-- A bare `write(buf)` whose result is discarded with `.map(drop)`: errors other than the
    count are propagated, a short count is lost. -/
def writeOnce : List Resp → List UInt8 → IoRes × List UInt8 × List Resp
  | [], buf => (.ok, buf, [])
  | .accept k :: s, buf => (.ok, buf.take k, s)
  | .interrupted :: s, _ => (.err, [], s)
  | .fail :: s, _ => (.err, [], s)

/-- Run an emission list against a sink; stops at the first error like `?`. -/
def runEmits : List Emit → List Resp → IoRes × List UInt8
  | [], _ => (.ok, [])
  | .all bs :: es, sched =>
    match writeAll sched bs with
    | (.ok, out, s') => let (r, out') := runEmits es s'; (r, out ++ out')
    | (.err, out, _) => (.err, out)
  | .one bs :: es, sched =>
    match writeOnce sched bs with
    | (.ok, out, s') => let (r, out') := runEmits es s'; (r, out ++ out')
    | (.err, out, _) => (.err, out)

end Print
end Lexpr
