/-
  The parser proper (parse/mod.rs): `next_value`, `next_datum`, the list / vector / byte-list
  readers in their value and datum variants, `end_seq`, `expect_*`, `from_trait`, the iterators,
  and the datum accessors of datum.rs.
-/
import LexprModel.Lex
import LexprModel.ListOps
namespace Lexpr
namespace Parse

/-! ### spans and datums (datum.rs) -/

structure Span where
  start : Pos
  stop : Pos
  deriving DecidableEq, Repr, Inhabited

def Span.empty : Span := ⟨⟨0, 0⟩, ⟨0, 0⟩⟩

inductive SpanInfo where
  | prim (sp : Span)
  | cons (sp : Span) (car cdr : SpanInfo)
  | vec (sp : Span) (xs : List SpanInfo)
  deriving Repr, Inhabited

def SpanInfo.span : SpanInfo → Span
  | .prim s => s
  | .cons s _ _ => s
  | .vec s _ => s

structure Datum where
  value : Value
  info : SpanInfo
  deriving Repr, Inhabited

/-- `Datum::quotation`. -/
def Datum.quotation (q : Quote) (quoted : Datum) (quoteSpan : Span) : Datum :=
  let qend := quoted.info.span.stop
  { value := Value.list [.symbol q.name, quoted.value],
    info := .cons ⟨quoteSpan.start, qend⟩ (.prim quoteSpan)
              (.cons quoted.info.span quoted.info (.prim ⟨qend, qend⟩)) }

/-- The `[SpanInfo; 2]` of the first cell of a list whose element infos are `ms` (non-empty)
    and whose final cdr has info `t`; inner cells carry `Span::empty()`. -/
def buildMeta : List SpanInfo → SpanInfo → SpanInfo × SpanInfo
  | [], t => (.prim Span.empty, t)
  | [m], t => (m, t)
  | m :: ms, t => let (c, d) := buildMeta ms t; (m, .cons Span.empty c d)

/-! ### depth accounting -/

/-- `remaining_depth -= 1; if == 0 { += 1; return Err(RecursionLimitExceeded) }`. -/
def enter : P Unit := fun s =>
  if s.depth == 0 then .panic .depthUnderflow
  else if s.depth - 1 == 0 then
    .err (.syntax .recursionLimitExceeded s.rd.peekPosition.line s.rd.peekPosition.col) s
  else .ok () { s with depth := s.depth - 1 }

/-- `remaining_depth += 1`. -/
def leave : P Unit := fun s => .ok () { s with depth := s.depth + 1 }

def liftExcept : Except Err α → P α
  | .ok a => pure a
  | .error e => fun s => .err e s

/-- `end_seq`. -/
def endSeq (close : UInt8) : P Unit := do
  match (← parseWhitespace) with
  | some b => if b == close then discard else peekErr .trailingCharacters
  | none => peekErr .eofList

/-- the element loop of `parse_byte_list` -/
def byteListLoop (cfg : Cfg) (close : UInt8) : Nat → List UInt8 → P (List UInt8)
  | 0, _ => outOfFuel
  | f + 1, acc => do
    match (← parseWhitespace) with
    | none => peekErr .eofList
    | some c =>
      if c == close then do discard; pure acc
      else do
        let n ← parseNumber cfg (f + 1)
        let n ← expectNumberEnd n
        match n.asU64 with
        | none => peekErr .expectedOctet
        | some v => if v > 255 then peekErr .expectedOctet
                    else byteListLoop cfg close f (acc ++ [UInt8.ofNat v])

/-- `parse_byte_list`. -/
def parseByteList (cfg : Cfg) (fuel : Nat) (close : UInt8) : P (List UInt8) := do
  match (← parseWhitespace) with
  | none => peekErr .eofList
  | some c =>
    if c == 40 then do discard; byteListLoop cfg close fuel []
    else peekErr .expectedVector

/-- `symbol_value`. -/
def symbolValue (o : Options) (name : List UInt8) : Value :=
  match symbolToken o name with
  | .keyword k => .keyword k
  | .symbol s => .symbol s
  | _ => .nil

def tokenFuel : P Nat := fun s => .ok (s.rd.rest.length + 1) s

/-- Value of a token that is complete in itself. -/
def Token.atom : Token → Option Value
  | .nil => some .nil
  | .null => some .null
  | .char c => some (.char c)
  | .bool b => some (.bool b)
  | .number n => some (.number n)
  | .symbol s => some (.symbol s)
  | .keyword s => some (.keyword s)
  | .string s => some (.string s)
  | .bytes b => some (.bytes b)
  | _ => none

mutual
/-- `next_value`. -/
def nextValue (cfg : Cfg) : Nat → P (Option Value)
  | 0 => outOfFuel
  | f + 1 => do
    match (← parseWhitespace) with
    | none => pure none
    | some pk =>
      let tf ← tokenFuel
      let tok ← parseToken cfg tf pk
      match tok with
      | .byteVecOpen close => do
        let bs ← parseByteList cfg tf close
        pure (some (.bytes bs))
      | .vecOpen close => do
        enter
        let ret ← attempt (parseVector cfg f close [])
        leave
        let es ← attempt (endSeq close)
        match ret, es with
        | .ok xs, .ok () => pure (some (.vector xs))
        | .error e, _ => liftExcept (.error e)
        | _, .error e => liftExcept (.error e)
      | .listOpen close => do
        enter
        let ret ← attempt (parseList cfg f close [])
        leave
        let es ← attempt (endSeq close)
        match ret, es with
        | .ok v, .ok () => pure (some v)
        | .error e, _ => liftExcept (.error e)
        | _, .error e => liftExcept (.error e)
      | .quotation q => do
        enter
        let ret ← attempt (nextValue cfg f)
        leave
        match ret with
        | .error e => liftExcept (.error e)
        | .ok none => peekErr .eofList
        | .ok (some d) => pure (some (Value.list [.symbol q.name, d]))
      | t => match t.atom with
        | some v => pure (some v)
        | none => panicAt .unreachable
/-- `parse_list`: `acc` holds the elements read so far. -/
def parseList (cfg : Cfg) : Nat → UInt8 → List Value → P Value
  | 0, _, _ => outOfFuel
  | f + 1, term, acc => do
    match (← parseWhitespace) with
    | none => peekErr .eofList
    | some c =>
      if c == 41 || c == 93 then
        if c != term then peekErr .mismatchedParenthesis
        else pure (Value.list acc)
      else if c == 46 then do
        discard
        let nxt ← peekOrNull
        if nxt == 0 || isDelimiter nxt then
          if acc.isEmpty then
            match (← peek) with
            | some _ => peekErr .expectedSomeValue
            | none => peekErr .eofList
          else do
            let tail ← (do
              match (← nextValue cfg f) with
              | some v => pure v
              | none => peekErr .eofValue : P Value)
            match (← parseWhitespace) with
            | some c' => if c' == term then pure (Value.append acc tail)
                         else peekErr .trailingCharacters
            | none => peekErr .eofList
        else do
          let name ← parseSymbolBytes [46]
          parseList cfg f term (acc ++ [symbolValue cfg.opts name])
      else do
        match (← nextValue cfg f) with
        | some v => parseList cfg f term (acc ++ [v])
        | none => peekErr .eofValue
/-- `parse_vector`. -/
def parseVector (cfg : Cfg) : Nat → UInt8 → List Value → P (List Value)
  | 0, _, _ => outOfFuel
  | f + 1, term, acc => do
    match (← parseWhitespace) with
    | none => peekErr .eofVector
    | some c =>
      if c == 41 || c == 93 then
        if c != term then peekErr .mismatchedParenthesis else pure acc
      else do
        match (← nextValue cfg f) with
        | some v => parseVector cfg f term (acc ++ [v])
        | none => peekErr .eofValue
end

mutual
/-- `next_datum`. -/
def nextDatum (cfg : Cfg) : Nat → P (Option Datum)
  | 0 => outOfFuel
  | f + 1 => do
    match (← parseWhitespace) with
    | none => pure none
    | some pk =>
      let start ← getPos
      let tf ← tokenFuel
      let tok ← parseToken cfg tf pk
      match tok with
      | .byteVecOpen close => do
        let bs ← parseByteList cfg tf close
        let stop ← getPos
        pure (some ⟨.bytes bs, .prim ⟨start, stop⟩⟩)
      | .vecOpen close => do
        enter
        let ret ← attempt (parseVectorMeta cfg f close [] [])
        leave
        let es ← attempt (endSeq close)
        match ret, es with
        | .ok (xs, ms), .ok () => do
          let stop ← getPos
          pure (some ⟨.vector xs, .vec ⟨start, stop⟩ ms⟩)
        | .error e, _ => liftExcept (.error e)
        | _, .error e => liftExcept (.error e)
      | .listOpen close => do
        enter
        let ret ← attempt (parseListMeta cfg f close [] [])
        leave
        let es ← attempt (endSeq close)
        match ret, es with
        | .ok (some (v, c, d)), .ok () => do
          let stop ← getPos
          pure (some ⟨v, .cons ⟨start, stop⟩ c d⟩)
        | .ok none, .ok () => do
          let stop ← getPos
          pure (some ⟨.null, .prim ⟨start, stop⟩⟩)
        | .error e, _ => liftExcept (.error e)
        | _, .error e => liftExcept (.error e)
      | .quotation q => do
        let tokenEnd ← getPos
        enter
        let ret ← attempt (nextDatum cfg f)
        leave
        match ret with
        | .error e => liftExcept (.error e)
        | .ok none => peekErr .eofList
        | .ok (some d) => pure (some (Datum.quotation q d ⟨start, tokenEnd⟩))
      | t => match t.atom with
        | some v => do
          let stop ← getPos
          pure (some ⟨v, .prim ⟨start, stop⟩⟩)
        | none => panicAt .unreachable
/-- `parse_list_meta`: `None` for `()`, else the list, and the two infos of its first cell. -/
def parseListMeta (cfg : Cfg) :
    Nat → UInt8 → List Value → List SpanInfo → P (Option (Value × SpanInfo × SpanInfo))
  | 0, _, _, _ => outOfFuel
  | f + 1, term, acc, ms => do
    match (← parseWhitespace) with
    | none => peekErr .eofList
    | some c =>
      if c == 41 || c == 93 then
        if c != term then peekErr .mismatchedParenthesis
        else if acc.isEmpty then pure none
        else
          let (cm, dm) := buildMeta ms (.prim Span.empty)
          pure (some (Value.list acc, cm, dm))
      else if c == 46 then do
        let start ← getPos
        discard
        let nxt ← peekOrNull
        if nxt == 0 || isDelimiter nxt then
          if acc.isEmpty then
            match (← peek) with
            | some _ => peekErr .expectedSomeValue
            | none => peekErr .eofList
          else do
            let tail ← (do
              match (← nextDatum cfg f) with
              | some d => pure d
              | none => peekErr .eofValue : P Datum)
            match (← parseWhitespace) with
            | some c' =>
              if c' == term then
                let (cm, dm) := buildMeta ms tail.info
                pure (some (Value.append acc tail.value, cm, dm))
              else peekErr .trailingCharacters
            | none => peekErr .eofList
        else do
          let name ← parseSymbolBytes [46]
          let stop ← getPos
          parseListMeta cfg f term (acc ++ [symbolValue cfg.opts name])
            (ms ++ [.prim ⟨start, stop⟩])
      else do
        match (← nextDatum cfg f) with
        | some d => parseListMeta cfg f term (acc ++ [d.value]) (ms ++ [d.info])
        | none => peekErr .eofValue
/-- `parse_vector_meta`. -/
def parseVectorMeta (cfg : Cfg) :
    Nat → UInt8 → List Value → List SpanInfo → P (List Value × List SpanInfo)
  | 0, _, _, _ => outOfFuel
  | f + 1, term, acc, ms => do
    match (← parseWhitespace) with
    | none => peekErr .eofVector
    | some c =>
      if c == 41 || c == 93 then
        if c != term then peekErr .mismatchedParenthesis else pure (acc, ms)
      else do
        match (← nextDatum cfg f) with
        | some d => parseVectorMeta cfg f term (acc ++ [d.value]) (ms ++ [d.info])
        | none => peekErr .eofValue
end

/-! ### public entry points -/

/-- Fuel that suffices for any input of this length (each loop round and each nested call
    consumes at least one byte). -/
def apiFuel : P Nat := fun s => .ok (2 * s.rd.rest.length + 4) s

def nextValueTop (cfg : Cfg) : P (Option Value) := do
  let f ← apiFuel
  nextValue cfg f

def nextDatumTop (cfg : Cfg) : P (Option Datum) := do
  let f ← apiFuel
  nextDatum cfg f

/-- `expect_value`. -/
def expectValue (cfg : Cfg) : P Value := do
  match (← nextValueTop cfg) with
  | some v => pure v
  | none => peekErr .eofValue

/-- `expect_datum`. -/
def expectDatum (cfg : Cfg) : P Datum := do
  match (← nextDatumTop cfg) with
  | some v => pure v
  | none => peekErr .eofValue

/-- `expect_end`. -/
def expectEnd : P Unit := do
  match (← parseWhitespace) with
  | some _ => peekErr .trailingCharacters
  | none => pure ()

/-- `from_trait` (value). -/
def fromTrait (cfg : Cfg) : P Value := do
  let v ← expectValue cfg
  expectEnd
  pure v

/-- `datum::from_trait`. -/
def fromTraitDatum (cfg : Cfg) : P Datum := do
  let d ← expectDatum cfg
  expectEnd
  pure d

def initSt (mode : Mode) (bytes : List UInt8) (faulty : Bool := false) : St :=
  { rd := { mode := mode, rest := bytes, faulty := faulty } }

/-! ### call histories on one parser -/

inductive Op where
  | nextValue | nextDatum | expectValue | expectDatum | expectEnd
  | valueIterNext | datumIterNext | parserNext
  deriving DecidableEq, Repr, Inhabited

/-- What one call returned. -/
inductive Item where
  | value (v : Value)
  | datum (d : Datum)
  | none_            -- Ok(None) / iterator exhausted
  | unit             -- Ok(())
  | err (e : Err)
  | panic (p : Site)
  | fuel
  deriving Repr, Inhabited

def stepOp (cfg : Cfg) (op : Op) (s : St) : Item × Option St :=
  let optV (r : Res (Option Value)) : Item × Option St :=
    match r with
    | .ok (some v) s' => (.value v, some s')
    | .ok none s' => (.none_, some s')
    | .err e s' => (.err e, some s')
    | .panic p => (.panic p, none)
    | .fuel => (.fuel, none)
  let optD (r : Res (Option Datum)) : Item × Option St :=
    match r with
    | .ok (some v) s' => (.datum v, some s')
    | .ok none s' => (.none_, some s')
    | .err e s' => (.err e, some s')
    | .panic p => (.panic p, none)
    | .fuel => (.fuel, none)
  match op with
  | .nextValue | .valueIterNext | .parserNext => optV (nextValueTop cfg s)
  | .nextDatum | .datumIterNext => optD (nextDatumTop cfg s)
  | .expectValue =>
    match expectValue cfg s with
    | .ok v s' => (.value v, some s')
    | .err e s' => (.err e, some s')
    | .panic p => (.panic p, none)
    | .fuel => (.fuel, none)
  | .expectDatum =>
    match expectDatum cfg s with
    | .ok v s' => (.datum v, some s')
    | .err e s' => (.err e, some s')
    | .panic p => (.panic p, none)
    | .fuel => (.fuel, none)
  | .expectEnd =>
    match expectEnd s with
    | .ok () s' => (.unit, some s')
    | .err e s' => (.err e, some s')
    | .panic p => (.panic p, none)
    | .fuel => (.fuel, none)

/-- Results of a sequence of calls on one parser; stops after a panic. -/
def runHistory (cfg : Cfg) : List Op → St → List Item
  | [], _ => []
  | op :: ops, s =>
    match stepOp cfg op s with
    | (it, some s') => it :: runHistory cfg ops s'
    | (it, none) => [it]

/-- Iterate one kind of call until it reports end of input, at most `cap` items. -/
def iterate (cfg : Cfg) (op : Op) : Nat → St → List Item
  | 0, _ => []
  | cap + 1, s =>
    match stepOp cfg op s with
    | (.none_, _) => [.none_]
    | (it, some s') => it :: iterate cfg op cap s'
    | (it, none) => [it]

/-! ### datum accessors (datum.rs `Ref`) -/

/-- State of `datum::ListIter`. -/
inductive DCursor where
  | cons (car cdr : Value) (carM cdrM : SpanInfo)
  | dot (v : Value) (m : SpanInfo)
  | rest (v : Value) (m : SpanInfo)
  | exhausted
  deriving Repr, Inhabited

/-- `Ref::list_iter`. -/
def Datum.listIter (d : Datum) : Option DCursor :=
  match d.value, d.info with
  | .cons a b, .cons _ cm dm => some (.cons a b cm dm)
  | .null, _ => some .exhausted
  | _, _ => none

/-- `ListIter::next` for datums: item, next state; `none` if the `expect` fires. -/
def DCursor.next : DCursor → Option (Option Datum × DCursor)
  | .cons car cdr cm dm =>
    match dm with
    | .cons _ c d =>
      match cdr with
      | .cons a b => some (some ⟨car, cm⟩, .cons a b c d)
      | _ => none      -- "badly shaped list span information"
    | .prim _ =>
      if cdr.isNull then some (some ⟨car, cm⟩, .exhausted)
      else some (some ⟨car, cm⟩, .dot cdr dm)
    | _ => some (some ⟨car, cm⟩, .dot cdr dm)
  | .dot v m => some (none, .rest v m)
  | .rest v m => some (some ⟨v, m⟩, .exhausted)
  | .exhausted => some (none, .exhausted)

/-- `Ref::vector_iter`. -/
def Datum.vectorIter (d : Datum) : Option (List Datum) :=
  match d.value, d.info with
  | .vector xs, .vec _ ms => some ((xs.zip ms).map fun (v, m) => ⟨v, m⟩)
  | _, _ => none

/-- `Ref::as_pair`: outer `none` = not a pair; inner `none` = the `unreachable!` fires. -/
def Datum.asPair (d : Datum) : Option (Option (Datum × Datum)) :=
  match d.value with
  | .cons a b =>
    match d.info with
    | .cons _ cm dm => some (some (⟨a, cm⟩, ⟨b, dm⟩))
    | _ => some none
  | _ => none

end Parse
end Lexpr
