/-
  The tables regenerated from /repo on every run (Generated/Tables.lean, exhaustive behavioural
  probes) agree with the tables the model uses.  Every statement ranges over the whole table and
  is checked by the kernel (`decide +kernel`); a table entry changed in the code makes exactly
  one of these theorems fail, and names the table.
-/
import LexprModel.Parse
import LexprModel.Print
import LexprModel.Generated.Tables
namespace Lexpr
namespace TablesCheck
open Parse

def maskAgrees (mask : Nat) (f : UInt8 → Bool) (lo hi : Nat) : Bool :=
  (List.range (hi - lo)).all fun i => mask.testBit (lo + i) == f (UInt8.ofNat (lo + i))

theorem trivia_table : maskAgrees Gen.triviaMask isTrivia 0 256 = true := by decide +kernel
theorem comment_table : maskAgrees Gen.commentStartMask (fun b => b == 59) 0 256 = true := by
  decide +kernel
theorem symTermSlice_table : maskAgrees Gen.symTermSliceMask symTermSlice 0 256 = true := by
  decide +kernel
theorem symTermIo_table : maskAgrees Gen.symTermIoMask symTermIo 0 256 = true := by decide +kernel
theorem delimiter_table : maskAgrees Gen.delimiterMask isDelimiter 1 128 = true := by decide +kernel
/-- bytes after which a leading sign starts a symbol that runs on through the byte: the
    sign-subsequent set, the look-ahead delimiters that do not end a symbol, and the dot -/
theorem signSubsequent_table :
    maskAgrees Gen.signSubsequentMask
      (fun b => (isSignSubsequent b || isDelimiter b || b == 46) && !symTermSlice b) 1 128 = true := by
  decide +kernel
theorem charDelimiter_table : maskAgrees Gen.charDelimiterMask isCharDelimiter 0 256 = true := by
  decide +kernel
/-- bytes that start a symbol when no keyword syntax is enabled -/
theorem symbolInitial_table :
    maskAgrees Gen.symbolInitialMask
      (fun b => isAsciiAlpha b || isSymbolExtended b || b == 43 || b == 45) 1 128 = true := by
  decide +kernel

theorem hex_table :
    (List.range 256).all (fun i => Gen.hexVals.getD i 0 == (hexVal (UInt8.ofNat i)).getD 255) = true := by
  decide +kernel
theorem oct_table :
    (List.range 256).all (fun i => Gen.octVals.getD i 0 == (octVal (UInt8.ofNat i)).getD 255) = true := by
  decide +kernel

/-! printer tables -/

def bytesOfNats (l : List Nat) : List UInt8 := l.map UInt8.ofNat

theorem print_r6rs_str_table :
    (List.range 128).all (fun i =>
      bytesOfNats (Gen.printR6rsStr.getD i []) ==
        asc "\"" ++ Print.escapeStr .r6rs [UInt8.ofNat i] ++ asc "\"") = true := by decide +kernel
theorem print_elisp_str_table :
    (List.range 128).all (fun i =>
      bytesOfNats (Gen.printElispStr.getD i []) ==
        asc "\"" ++ Print.escapeStr .elisp [UInt8.ofNat i] ++ asc "\"") = true := by decide +kernel
theorem print_default_str_table :
    (List.range 128).all (fun i =>
      bytesOfNats (Gen.printDefaultStr.getD i []) ==
        asc "\"" ++ Print.escapeStr .r6rs [UInt8.ofNat i] ++ asc "\"") = true := by decide +kernel
theorem print_r6rs_char_table :
    (List.range 129).all (fun i => bytesOfNats (Gen.printR6rsChar.getD i []) == Print.schemeChar i)
      = true := by decide +kernel
theorem print_elisp_char_table :
    (List.range 129).all (fun i => bytesOfNats (Gen.printElispChar.getD i []) == Print.elispChar i)
      = true := by decide +kernel

/-! error classification (C19) -/

def codeOfNat : Nat → Option Code
  | 0 => some .eofList | 1 => some .eofVector | 2 => some .eofString | 3 => some .eofValue
  | 4 => some .eofChar | 5 => some .expectedSomeIdent | 6 => some .mismatchedParenthesis
  | 7 => some .expectedSomeValue | 8 => some .expectedVector | 9 => some .expectedOctet
  | 10 => some .invalidEscape | 11 => some .invalidNumber | 12 => some .invalidSymbol
  | 13 => some .numberOutOfRange | 14 => some .invalidUnicodeCodePoint
  | 15 => some .invalidCharacterConstant | 16 => some .trailingCharacters
  | 17 => some .recursionLimitExceeded | _ => none

def catNo : Category → Nat | .io => 0 | .syntax => 1 | .eof => 2

/-- the documented io::ErrorKind: InvalidData (0) for syntax, UnexpectedEof (1) for EOF -/
def documentedKind : Category → Nat | .syntax => 0 | .eof => 1 | .io => 2

/-- Every one of the 18 syntax codes was triggered, classified as the model classifies it, and
    converted to the documented `io::ErrorKind`; the injected read error kept its category,
    kind and payload. -/
theorem error_table :
    Gen.errorTable.length = 19 ∧
    (Gen.errorTable.all fun (c, got, cat, kind) =>
      got == c &&
      (match codeOfNat c with
       | some code => cat == catNo code.category && kind == documentedKind code.category
       | none => c == 18 && cat == 0 && kind == 2)) = true := by decide +kernel

/-- the deepest accepted nesting is the same for every nesting construct, equals the model's
    limit (128 - 1) and is at least 100 -/
theorem depth_table : Gen.depthLimits.all (fun n => n == 127) = true := by decide +kernel

/-! POW10: every entry is the correctly rounded power of ten, and the first 23 are exact -/

theorem pow10_rounded :
    Gen.pow10Bits.length = 309 ∧
    (List.range 309).all (fun k => Gen.pow10Bits.getD k 0 == F64.rn (10 ^ k) 1) = true := by
  decide +kernel

theorem pow10_exact :
    (List.range 23).all (fun k =>
      let (m, p) := F64.decode (Gen.pow10Bits.getD k 0)
      p ≤ 0 && m == 10 ^ k * 2 ^ (-p).toNat || (p > 0 && m * 2 ^ p.toNat == 10 ^ k)) = true := by
  decide +kernel

end TablesCheck
end Lexpr
