/-
  The `sexp!` macro: its token-level parser (lexpr-macros/src/parser.rs) and the value the
  generated code evaluates to (generator.rs + Value::list / append / from).
  Input is the Rust token stream rustc hands to the macro; that tokenisation is assumed
  (DESIGN.md 3.3) and tied by compiling generated invocations.
-/
import LexprModel.Value
import LexprModel.ListOps
namespace Lexpr
namespace Macro

inductive Spacing where | joint | alone
  deriving DecidableEq, Repr, Inhabited

/-- Rust literals as far as the documented macro syntax uses them. `str` carries the source text
    between the quotes (`lit.to_string()` without the quotes) and the string it denotes. -/
inductive Lit where
  | int (n : Nat)               -- unsuffixed integer literal: i32
  | float (sig : Nat) (exp : Int)   -- decimal float literal sig * 10^exp: f64
  | str (src : List UInt8) (val : List UInt8)
  | char (c : Nat)
  deriving Repr, Inhabited

/-- an integer or float literal (the literals a minus sign can belong to) -/
def Lit.isNumeric : Lit → Bool
  | .int _ => true
  | .float _ _ => true
  | _ => false

inductive Tok where
  | punct (c : UInt8) (sp : Spacing)
  | ident (s : List UInt8)
  | lit (l : Lit)
  | group (paren : Bool) (ts : List Tok)
  deriving Repr, Inhabited

/-- lexpr-macros `Value` -/
inductive MV where
  | nil
  | literal (l : Lit)
  | negated (l : Lit)
  | bool (b : Bool)
  | symbol (s : List UInt8)
  | keyword (s : List UInt8)
  | unquoted (t : Tok)
  | list (xs : List MV)
  | improper (xs : List MV) (rest : MV)
  | vector (xs : List MV)
  deriving Repr, Inhabited

/-- punctuation that may start a symbol in `Parser::parse` -/
def isSymPunct (c : UInt8) : Bool :=
  c == 33 || c == 36 || c == 37 || c == 38 || c == 42 || c == 43 || c == 45 || c == 46 || c == 47 ||
  c == 58 || c == 60 || c == 61 || c == 62 || c == 63 || c == 64 || c == 94 || c == 95 || c == 126

/-- punctuation that continues a symbol in `parse_identifier` (no `_`) -/
def isIdPunct (c : UInt8) : Bool := isSymPunct c && c != 95

/-- `parse_identifier`: returns the identifier and the remaining tokens -/
def parseIdentifier : List UInt8 → List Tok → List UInt8 × List Tok
  | acc, .punct c sp :: rest =>
    if isIdPunct c then
      match sp with
      | .joint => parseIdentifier (acc ++ [c]) rest
      | .alone => (acc ++ [c], rest)
    else (acc, .punct c sp :: rest)
  | acc, .ident s :: rest => (acc ++ s, rest)
  | acc, ts => (acc, ts)

/-- `string_literal` -/
def stringLiteral : Lit → Option (List UInt8)
  | .str src _ => some src
  | _ => none

mutual
/-- `Parser::parse`: one value from the token list; `none` = a `ParseError`. -/
def parse : Nat → List Tok → Option (MV × List Tok)
  | 0, _ => none
  | _, [] => none
  | f + 1, tok :: rest =>
    match tok with
    | .punct c sp =>
      if c == 35 then parseOctothorpe f rest
      else if c == 44 then
        match rest with
        | t :: rest' => some (.unquoted t, rest')
        | [] => none
      else if isSymPunct c then
        match sp with
        | .joint => let (name, rest') := parseIdentifier [c] rest; some (.symbol name, rest')
        | .alone =>
          if c == 45 then
            match rest with
            | .lit l :: rest' => if l.isNumeric then some (.negated l, rest') else some (.symbol [c], rest)
            | _ => some (.symbol [c], rest)
          else if c == 58 then
            match rest with
            | .lit l :: rest' => (stringLiteral l).map fun n => (.keyword n, rest')
            | .ident s :: rest' => some (.keyword s, rest')
            | _ => some (.symbol [c], rest)
          else some (.symbol [c], rest)
      else none
    | .lit l => some (.literal l, rest)
    | .ident s => some (.symbol s, rest)
    | .group true ts => (parseList f ts [] none).map fun v => (v, rest)
    | .group false _ => none
/-- `parse_octothorpe` -/
def parseOctothorpe : Nat → List Tok → Option (MV × List Tok)
  | _, [] => none
  | f, tok :: rest =>
    match tok with
    | .punct c _ =>
      if c == 58 then
        match rest with
        | .lit l :: rest' => (stringLiteral l).map fun n => (.keyword n, rest')
        | _ :: _ => let (name, rest') := parseIdentifier [] rest; some (.keyword name, rest')
        | [] => none
      else none
    | .lit l => (stringLiteral l).map fun n => (.symbol n, rest)
    | .ident s =>
      if s == asc "t" then some (.bool true, rest)
      else if s == asc "f" then some (.bool false, rest)
      else if s == asc "nil" then some (.nil, rest)
      else none
    | .group true ts => (parseVector f ts []).map fun v => (v, rest)
    | .group false _ => none
/-- `parse_list`: a free-standing dot introduces the tail -/
def parseList : Nat → List Tok → List MV → Option MV → Option MV
  | _, [], elements, tail =>
    match tail with
    | some (.list rl) => some (.list (elements ++ rl))
    | some (.improper rl r) => some (.improper (elements ++ rl) r)
    | some rest => some (.improper elements rest)
    | none => some (.list elements)
  | 0, _ :: _, _, _ => none
  | f + 1, tok :: rest, elements, tail =>
    match tok with
    | .punct 46 .alone =>
      if tail.isSome then none
      else
        match parse f rest with
        | some (t, rest') => parseList f rest' elements (some t)
        | none => none
    | _ =>
      match parse f (tok :: rest) with
      | some (v, rest') => parseList f rest' (elements ++ [v]) tail
      | none => none
/-- `parse_vector` -/
def parseVector : Nat → List Tok → List MV → Option MV
  | _, [], elements => some (.vector elements)
  | 0, _ :: _, _ => none
  | f + 1, ts, elements =>
    match parse f ts with
    | some (v, rest') => parseVector f rest' (elements ++ [v])
    | none => none
end

/-- `-lit` / `lit` through `Value::from` -/
def litValue (neg : Bool) : Lit → Value
  | .int n => .number (Number.ofSigned (if neg then -(n : Int) else n))
  | .float s e => .number (.flt (if neg then F64.neg (F64.rnDec s e) else F64.rnDec s e))
  | .str _ v => .string v
  | .char c => .char c

mutual
/-- the value the generated code evaluates to; `env` gives `Value::from(expr)` for an unquoted
    token tree -/
def eval (env : Tok → Value) : MV → Value
  | .nil => .nil
  | .literal l => litValue false l
  | .negated l => litValue true l
  | .bool b => .bool b
  | .symbol s => .symbol s
  | .keyword s => .keyword s
  | .unquoted t => env t
  | .list xs => Value.list (evalAll env xs)
  | .improper xs rest => Value.append (evalAll env xs) (eval env rest)
  | .vector xs => .vector (evalAll env xs)
def evalAll (env : Tok → Value) : List MV → List Value
  | [] => []
  | x :: xs => eval env x :: evalAll env xs
end

/-- `sexp!(tokens)`: the whole macro; the input must be exactly one value. -/
def expand (env : Tok → Value) (ts : List Tok) : Option Value :=
  match parse (2 * ts.length + 1000) ts with
  | some (v, _) => some (eval env v)
  | none => none

end Macro
end Lexpr
