/-
  List construction, traversal, conversion and indexing (value/mod.rs, cons.rs, value/index.rs).
  Every Rust loop over a cons chain is a structural recursion on the `cdr` here; the functions
  keep the shape of the Rust iterators (state machines return the next state explicitly).
-/
import LexprModel.Value
namespace Lexpr
namespace Value

/-- `Value::append(elements, tail)`. -/
def append : List Value → Value → Value
  | [], t => t
  | x :: xs, t => cons x (append xs t)

/-- `Value::list(elements)`. -/
def list (xs : List Value) : Value := append xs null

/-- `Value::is_list`. -/
def isList : Value → Bool
  | null => true
  | cons _ d => isListTail d
  | _ => false
where
  /-- `pair.iter().all(|p| matches!(p.cdr(), Null | Cons))` continued at a cdr -/
  isListTail : Value → Bool
    | null => true
    | cons _ d => isListTail d
    | _ => false

/-- `Value::is_dotted_list`. -/
def isDottedList : Value → Bool
  | null => false
  | cons _ d => isDottedTail d
  | _ => true
where
  /-- `pair.iter().all(|p| !matches!(p.cdr(), Null))`: the iterator stops at the first
      non-cons cdr, every visited cdr must not be `Null`. -/
  isDottedTail : Value → Bool
    | null => false
    | cons _ d => isDottedTail d
    | _ => true

/-- `Cons::to_vec` / `to_ref_vec` / `into_vec` on the cell `(car . cdr)`: elements and the
    first non-cons cdr. -/
def consToVec (car cdr : Value) : List Value × Value :=
  match cdr with
  | cons a d => let (xs, t) := consToVec a d; (car :: xs, t)
  | t => ([car], t)

/-- `Cons::iter()`: the cells visited, given as (car, cdr) pairs. -/
def consIter (car cdr : Value) : List (Value × Value) :=
  match cdr with
  | cons a d => (car, cdr) :: consIter a d
  | _ => [(car, cdr)]

/-- `Cons::into_iter()`: each element once, the tail attached to the last. -/
def consIntoIter (car cdr : Value) : List (Value × Option Value) :=
  match cdr with
  | cons a d => (car, none) :: consIntoIter a d
  | t => [(car, some t)]

/-- `Value::to_vec` / `Value::to_ref_vec`. -/
def toVec : Value → Option (List Value)
  | null => some []
  | cons a d => let (xs, t) := consToVec a d; if t.isNull then some xs else none
  | _ => none

/-- State of `cons::ListIter`. -/
inductive ListCursor where
  | cons (car cdr : Value)
  | dot (v : Value)
  | rest (v : Value)
  | exhausted
  deriving Inhabited

/-- `ListIter::next`: the item (if any) and the next state. -/
def ListCursor.next : ListCursor → Option Value × ListCursor
  | .cons car cdr =>
    match cdr with
    | Value.cons a d => (some car, .cons a d)
    | Value.null => (some car, .exhausted)
    | t => (some car, .dot t)
  | .dot v => (none, .rest v)
  | .rest v => (some v, .exhausted)
  | .exhausted => (none, .exhausted)

/-- `Value::list_iter()`: the initial cursor, `none` for non-lists. -/
def listIter : Value → Option ListCursor
  | cons a d => some (.cons a d)
  | null => some .exhausted
  | _ => none

/-- The first `n` results of calling `next` repeatedly. -/
def ListCursor.take : Nat → ListCursor → List (Option Value)
  | 0, _ => []
  | n + 1, c => let (x, c') := c.next; x :: ListCursor.take n c'

/-- `Index for usize`: `index_into`. -/
def getIdx (v : Value) (i : Nat) : Option Value :=
  match v with
  | vector xs => xs[i]?
  | cons a d => nth a d i
  | _ => none
where
  nth (car cdr : Value) : Nat → Option Value
    | 0 => some car
    | n + 1 => match cdr with
      | cons a d => nth a d n
      | _ => none

/-- `match_pair_name` / `match_pair_key` lifted over `pair.iter().find_map`. -/
def assocFind (p : Value → Bool) (car cdr : Value) : Option Value :=
  let here : Option Value := match car with
    | cons k v => if p k then some v else none
    | _ => none
  match here with
  | some v => some v
  | none => match cdr with
    | cons a d => assocFind p a d
    | _ => none

/-- `Index for str` (also `String`, `&T`). -/
def getName (v : Value) (name : List UInt8) : Option Value :=
  match v with
  | cons a d => assocFind (fun k => k.asName == some name) a d
  | _ => none

/-- `Index for Value`. -/
def getKey (v : Value) (key : Value) : Option Value :=
  match v with
  | cons a d => assocFind (fun k => Value.beq k key) a d
  | _ => none

/-- `ops::Index`: a static `Nil` for a miss. -/
def indexOr (r : Option Value) : Value := match r with | some v => v | none => nil

end Value
end Lexpr
