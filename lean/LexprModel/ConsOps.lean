/-
  The rest of lexpr/src/cons.rs and the hand-written `Clone` / `PartialEq` / `Drop` of `Cons`
  (cons.rs, since /repo commit 54f14f8), the mutators and small accessors of `Cons` and of its three
  iterator types, `Value::{cons, as_cons_mut, as_slice_mut, append}` (value/mod.rs).

  Conventions (DESIGN.md 3.1):
  * a `&mut Cons` that points into a list under construction / mutation (`last` in `Clone`, `pair` in
    `Value::append`, the cell reached by `i` steps `cdr_mut().as_cons_mut()`) is a *path*: the number
    of cdr steps from the owner.  Reading or writing through a path that does not lead to a cell is the
    outcome `panic .dangling` — the borrow checker excludes it in Rust, here it is a theorem
    (`clone_no_panic`, `appendLoop_eq`);
  * every loop along the cdr chain is a structural recursion on the remaining chain (`rest`); the first
    iteration is the body of the enclosing function, exactly as in the Rust text (`head` is built before
    the `while`);
  * where the Rust code calls `clone` / `==` / drop on a car the model recurses (that is nesting, not
    length); where it calls them on the final non-pair `rest` the arms of the derived implementation
    for a non-pair are written out (`finish`, `eqAtom`);
  * `unreachable!()` / `unwrap()` are explicit `panic` outcomes;
  * the `...I` functions are the same loops instrumented with the call depth (frames of
    `Value::clone`/`Cons::clone`, `Value::eq`/`Cons::eq`, drop glue), see Proofs/ConsOpsDepth.lean.
-/
import LexprModel.ListOps
namespace Lexpr

namespace Value
/-! ### the accessors of `cons::ListIter` that ListOps.lean does not have -/

/-- `ListIter::is_empty`. -/
def ListCursor.isEmpty : ListCursor → Bool
  | .exhausted => true
  | _ => false

/-- `ListIter::peek`. -/
def ListCursor.peek : ListCursor → Option Value
  | .cons car _ => some car
  | .dot _ => none
  | .rest v => some v
  | .exhausted => none

/-- The cursor after `n` calls of `next`. -/
def ListCursor.after : Nat → ListCursor → ListCursor
  | 0, c => c
  | n + 1, c => ListCursor.after n c.next.2

end Value

namespace ConsOps
open Value

/-- Where the modelled code can panic. -/
inductive Site where
  /-- `impl Clone for Cons`: `_ => unreachable!()` after `last.cdr_mut()` -/
  | cloneUnreachable
  /-- `impl Clone for SpanInfo`: `_ => unreachable!()` in the `match last` -/
  | spanCloneUnreachable
  /-- `Value::append`: `pair.cdr_mut().as_cons_mut().unwrap()` -/
  | appendUnwrap
  /-- `Cons::to_vec` / `to_ref_vec` / `into_vec`: `unreachable!()` after the `for` loop -/
  | toVecUnreachable
  /-- a path that does not lead to a cell (cannot be written in Rust; model artefact) -/
  | dangling
  deriving DecidableEq, Repr, Inhabited

inductive Out (α : Type) where
  | ok (a : α)
  | panic (s : Site)
  deriving Repr, Inhabited

def Out.map {α β : Type} (f : α → β) : Out α → Out β
  | .ok a => .ok (f a)
  | .panic s => .panic s

def Out.isOk {α : Type} : Out α → Bool
  | .ok _ => true
  | .panic _ => false

/-! ### cells, accessors and mutators (`Cons::{new, car, cdr, car_mut, cdr_mut, set_car, set_cdr,
    as_pair, into_pair, take}`, `Value::{cons, as_cons_mut, as_slice_mut}`) -/

/-- `Cons::new(car, cdr)` / `Value::cons(car, cdr)` / `From<(T, U)>` / `From<Cons>`. -/
def new (car cdr : Value) : Value := .cons car cdr

/-- The cell reached from `v` by `as_cons_mut()` (or `as_cons()`) followed by `i` times
    `cdr_mut().as_cons_mut()` (`cdr().as_cons()`): its `car` and `cdr` (`Cons::as_pair`). -/
def cellAt : Value → Nat → Option (Value × Value)
  | .cons a d, 0 => some (a, d)
  | .cons _ d, i + 1 => cellAt d i
  | _, _ => none

/-- `Cons::car` of the `i`-th cell. -/
def carAt (v : Value) (i : Nat) : Option Value := (cellAt v i).map (·.1)
/-- `Cons::cdr` of the `i`-th cell. -/
def cdrAt (v : Value) (i : Nat) : Option Value := (cellAt v i).map (·.2)

/-- `Cons::set_car(x)` on the `i`-th cell (also `*cell.car_mut() = x`); `none`: no such cell. -/
def setCarAt : Value → Nat → Value → Option Value
  | .cons _ d, 0, x => some (.cons x d)
  | .cons a d, i + 1, x =>
    match setCarAt d i x with
    | some d' => some (.cons a d')
    | none => none
  | _, _, _ => none

/-- `Cons::set_cdr(x)` on the `i`-th cell (also `*cell.cdr_mut() = x`); `none`: no such cell. -/
def setCdrAt : Value → Nat → Value → Option Value
  | .cons a _, 0, x => some (.cons a x)
  | .cons a d, i + 1, x =>
    match setCdrAt d i x with
    | some d' => some (.cons a d')
    | none => none
  | _, _, _ => none

/-- `*cell.car_mut() = x`: the same store as `set_car`. -/
def carMutAssign (v : Value) (i : Nat) (x : Value) : Option Value := setCarAt v i x
/-- `*cell.cdr_mut() = x`: the same store as `set_cdr`. -/
def cdrMutAssign (v : Value) (i : Nat) (x : Value) : Option Value := setCdrAt v i x

/-- `v.as_slice_mut().map(|s| s[i] = x)`: outer `none` = not a vector, inner `none` = index out of
    bounds (the Rust indexing would panic; the script interpreter checks the length first). -/
def sliceSet : Value → Nat → Value → Option (Option Value)
  | .vector xs, i, x => some (if i < xs.length then some (.vector (xs.set i x)) else none)
  | _, _, _ => none

/-- `Cons::into_pair(self)`: the two fields are moved out with `mem::replace(_, Nil)`; the second
    component is what is left in `self` when it is dropped. -/
def intoPair (car cdr : Value) : (Value × Value) × (Value × Value) := ((car, cdr), (.nil, .nil))

/-- `Cons::take(&mut self)`: a new cell with the content, `(Nil . Nil)` stays behind. -/
def take (car cdr : Value) : (Value × Value) × (Value × Value) := ((car, cdr), (.nil, .nil))

/-! ### `impl Clone for Cons` (and the derived `Clone` of `Value` around it) -/

/-- `last.set_cdr(rest.clone()); head` — the end of `Cons::clone`, given the outcome of `rest.clone()`. -/
def finish (head : Value) (last : Nat) : Out Value → Out Value
  | .panic s => .panic s
  | .ok c =>
    match setCdrAt head last c with
    | some h => .ok h
    | none => .panic .dangling

mutual
/-- `<Value as Clone>::clone` (derived): every variant clones its payload; `Cons` through the
    hand-written loop. -/
def cloneV : Value → Out Value
  | .cons a d =>
    -- Cons::clone:  let mut head = Cons::new(self.car().clone(), Value::Null);
    --               let mut last = &mut head;  let mut rest = self.cdr();
    match cloneV a with
    | .panic s => .panic s
    | .ok c => cloneWhile (.cons c .null) 0 d
  | .vector xs => (cloneList xs).map .vector
  | v => .ok v
/-- `while let Value::Cons(cell) = rest { … }  last.set_cdr(rest.clone());  head` with the loop
    state `head`, `last` (a path into `head`), `rest`. -/
def cloneWhile (head : Value) (last : Nat) : Value → Out Value
  | .cons a d =>
    match cloneV a with
    | .panic s => .panic s
    | .ok c =>
      -- last.set_cdr(Cons::new(cell.car().clone(), Value::Null));
      match setCdrAt head last (.cons c .null) with
      | none => .panic .dangling
      | some head' =>
        -- last = match last.cdr_mut() { Value::Cons(next) => next, _ => unreachable!() };
        match cellAt head' last with
        | some (_, .cons _ _) => cloneWhile head' (last + 1) d    -- rest = cell.cdr()
        | some _ => .panic .cloneUnreachable
        | none => .panic .dangling
  -- loop exit: `rest` is not a pair; `rest.clone()` is the derived clone of a non-pair
  | .vector xs => finish head last ((cloneList xs).map .vector)
  | t => finish head last (.ok t)
/-- `<Box<[Value]> as Clone>::clone`: element by element. -/
def cloneList : List Value → Out (List Value)
  | [] => .ok []
  | x :: xs =>
    match cloneV x with
    | .panic s => .panic s
    | .ok y => (cloneList xs).map (y :: ·)
end

/-- `<Cons as Clone>::clone` on the cell `(car . cdr)`. -/
def Cons.cloneLoop (car cdr : Value) : Out Value := cloneV (.cons car cdr)

/-! ### `impl PartialEq for Cons` (and the derived `PartialEq` of `Value` around it) -/

/-- The derived `Value == Value` on two values that are not both pairs and not both vectors:
    same variant and equal payload. -/
def eqAtom : Value → Value → Bool
  | .nil, .nil => true
  | .null, .null => true
  | .bool a, .bool b => a == b
  | .number a, .number b => Number.beq a b
  | .char a, .char b => a == b
  | .string a, .string b => a == b
  | .symbol a, .symbol b => a == b
  | .keyword a, .keyword b => a == b
  | .bytes a, .bytes b => a == b
  | _, _ => false

mutual
/-- `<Value as PartialEq>::eq` (derived); two pairs are compared by the hand-written loop
    `Cons::eq`, whose first iteration is written out here. -/
def eqV : Value → Value → Bool
  | .cons a d, .cons a' d' =>
    -- loop { if a.car() != b.car() { return false; }  match (a.cdr(), b.cdr()) { … } }
    if !(eqV a a') then false else eqTail d d'
  | .vector xs, .vector ys => eqList xs ys
  | a, b => eqAtom a b
/-- `match (a.cdr(), b.cdr())` and the following iterations of the loop in `Cons::eq`. -/
def eqTail : Value → Value → Bool
  | .cons x dx, .cons y dy =>
    -- (Value::Cons(x), Value::Cons(y)) => { a = x; b = y; }  and the next iteration
    if !(eqV x y) then false else eqTail dx dy
  -- (x, y) => return x == y   on values that are not both pairs
  | .vector xs, .vector ys => eqList xs ys
  | x, y => eqAtom x y
/-- `<[Value] as PartialEq>::eq`: equal length and equal elements. -/
def eqList : List Value → List Value → Bool
  | [], [] => true
  | x :: xs, y :: ys => eqV x y && eqList xs ys
  | _, _ => false
end

/-- `<Cons as PartialEq>::eq` on the cells `(a . d)` and `(a' . d')`. -/
def Cons.eqLoop (a d a' d' : Value) : Bool := eqV (.cons a d) (.cons a' d')

/-- `Value != Value` (the default `ne`). -/
def neV (a b : Value) : Bool := !(eqV a b)

/-! ### `impl Drop for Cons` -/

/-- The `while let Some(cdr) = cell.cdr_mut().as_cons_mut() { cell = cdr.take(); }` loop of
    `Cons::drop`, started with the local `cell = (car . cdr)`: the cells that are dropped, in order.
    The assignment `cell = cdr.take()` drops the old `cell`, whose cdr still holds the emptied next
    cell `(Nil . Nil)`; the last `cell` (its cdr is not a pair) is dropped at the end of the scope. -/
def dropWhile (car : Value) : Value → List (Value × Value)
  | .cons a d => (car, .cons .nil .nil) :: dropWhile a d
  | t => [(car, t)]

/-- `<Cons as Drop>::drop(&mut self)` on the cell `(car . cdr)`: the content of `self` afterwards
    (which the drop glue of the `Box<(Value, Value)>` then drops), and the cells dropped inside. -/
def Cons.dropLoop (car cdr : Value) : (Value × Value) × List (Value × Value) :=
  match cdr with
  | .cons _ (.cons _ _) =>
    -- let mut cell = self.take();  while …
    let (cell, left) := take car cdr
    (left, dropWhile cell.1 cell.2)
  | _ => ((car, cdr), [])    -- `_ => return`

/-! ### `Value::append` (value/mod.rs), which is written with the mutators above -/

/-- The `for item in elements { … }` loop and the code after it; `list` is the owner, `pair` the
    path of the `&mut Cons` into it. -/
def appendLoop (list : Value) (pair : Nat) (haveValue : Bool) : List Value → Value → Out Value
  | [], tail =>
    if haveValue then
      match setCdrAt list pair tail with     -- pair.set_cdr(tail.into()); Value::Cons(list)
      | some l => .ok l
      | none => .panic .dangling
    else .ok tail
  | item :: items, tail =>
    let st : Out (Value × Nat) :=
      if haveValue then
        -- pair.set_cdr(Value::from((Value::Nil, Value::Null)));
        match setCdrAt list pair (.cons .nil .null) with
        | none => .panic .dangling
        | some l =>
          -- pair = pair.cdr_mut().as_cons_mut().unwrap();
          match cellAt l pair with
          | some (_, .cons _ _) => .ok (l, pair + 1)
          | some _ => .panic .appendUnwrap
          | none => .panic .dangling
      else .ok (list, pair)
    match st with
    | .panic s => .panic s
    | .ok (l, p) =>
      match setCarAt l p item with             -- pair.set_car(item.into()); have_value = true;
      | none => .panic .dangling
      | some l' => appendLoop l' p true items tail

/-- `Value::append(elements, tail)` as written: `let mut list = Cons::new(Nil, Null); …`. -/
def appendImpl (xs : List Value) (t : Value) : Out Value := appendLoop (.cons .nil .null) 0 false xs t

/-! ### `Cons::{to_vec, to_ref_vec, into_vec}` as loops over the iterators, with their `unreachable!()` -/

/-- `for pair in self.iter() { vec.push(pair.car().clone()); if !pair.cdr().is_cons() { return … } }
    unreachable!()` over the cells `cells` still to come. -/
def toVecLoop (acc : List Value) : List (Value × Value) → Out (List Value × Value)
  | [] => .panic .toVecUnreachable
  | (car, cdr) :: rest =>
    if !cdr.isCons then .ok (acc ++ [car], cdr) else toVecLoop (acc ++ [car]) rest

/-- `for (item, rest) in self.into_iter() { vec.push(item); if let Some(rest) = rest { return … } }
    unreachable!()`. -/
def intoVecLoop (acc : List Value) : List (Value × Option Value) → Out (List Value × Value)
  | [] => .panic .toVecUnreachable
  | (item, some rest) :: _ => .ok (acc ++ [item], rest)
  | (item, none) :: more => intoVecLoop (acc ++ [item]) more

/-! ### the iterators as state machines: `Iter`, `IntoIter` (cursor = the current cell) and the
    accessors of `ListIter` that ListOps.lean does not have -/

/-- `Iter { cursor: Option<&Cons> }` / `IntoIter { cursor: Option<Cons> }`. -/
abbrev CellCursor := Option (Value × Value)

/-- `Cons::iter()` / `Cons::into_iter()` on the cell `(car . cdr)`. -/
def CellCursor.start (car cdr : Value) : CellCursor := some (car, cdr)

/-- `Iter::peek` / `IntoIter::peek`: the current cell, the iterator is not changed. -/
def CellCursor.peek (c : CellCursor) : Option (Value × Value) := c

/-- `<Iter as Iterator>::next`. -/
def Iter.next : CellCursor → Option (Value × Value) × CellCursor
  | some (car, cdr) =>
    match cdr with
    | .cons a d => (some (car, cdr), some (a, d))
    | _ => (some (car, cdr), none)
  | none => (none, none)

/-- `<IntoIter as Iterator>::next`. -/
def IntoIter.next : CellCursor → Option (Value × Option Value) × CellCursor
  | some (car, cdr) =>
    match cdr with
    | .cons a d => (some (car, none), some (a, d))
    | t => (some (car, some t), none)
  | none => (none, none)

/-- `it.peek_mut().map(|c| c.set_car(x))`: `false` when the iterator has no current cell. -/
def IntoIter.peekSetCar (c : CellCursor) (x : Value) : Bool × CellCursor :=
  match c with
  | some (_, cdr) => (true, some (x, cdr))
  | none => (false, none)

/-- `it.peek_mut().map(|c| c.set_cdr(x))`. -/
def IntoIter.peekSetCdr (c : CellCursor) (x : Value) : Bool × CellCursor :=
  match c with
  | some (car, _) => (true, some (car, x))
  | none => (false, none)

/-- The first `n` results of `Iter::next`. -/
def Iter.take : Nat → CellCursor → List (Option (Value × Value))
  | 0, _ => []
  | n + 1, c => (Iter.next c).1 :: Iter.take n (Iter.next c).2

/-- The first `n` results of `IntoIter::next`. -/
def IntoIter.take : Nat → CellCursor → List (Option (Value × Option Value))
  | 0, _ => []
  | n + 1, c => (IntoIter.next c).1 :: IntoIter.take n (IntoIter.next c).2

/-! ### one list under mutation: scripts of mutation / observation steps -/

/-- The iterator a script currently holds. Borrowing iterators (`Iter`, `ListIter`) borrow the list,
    so no mutation step can come between their calls; every step that is not an iterator step ends
    the iterator. -/
inductive Cursor where
  | none
  | iter (c : CellCursor)
  | intoIter (c : CellCursor)
  | listIter (c : ListCursor)
  deriving Inhabited

structure MState where
  root : Value
  cur : Cursor := .none
  deriving Inhabited

inductive Step where
  | setCar (i : Nat) (x : Value)      -- cell i: c.set_car(x)
  | setCdr (i : Nat) (x : Value)      -- cell i: c.set_cdr(x)
  | carMut (i : Nat) (x : Value)      -- cell i: *c.car_mut() = x
  | cdrMut (i : Nat) (x : Value)      -- cell i: *c.cdr_mut() = x
  | car (i : Nat)                     -- cell i: c.car()
  | cdr (i : Nat)                     -- cell i: c.cdr()
  | asPair (i : Nat)                  -- cell i: c.as_pair()
  | sliceSet (i : Nat) (x : Value)    -- root.as_slice_mut(): s[i] = x
  | intoPair                          -- root (a pair) is consumed by into_pair; root := its cdr
  | toVec                             -- Cons::to_vec of root
  | intoVec                           -- Cons::into_vec of a clone of root
  | valueToVec                        -- Value::to_vec of root
  | index (i : Nat)                   -- root.get(i)
  | startIter                         -- root.as_cons().iter()
  | startIntoIter                     -- root.clone() into_iter()
  | startListIter                     -- root.list_iter()
  | peek | next | isEmpty             -- on the current iterator
  | peekSetCar (x : Value)            -- IntoIter::peek_mut + set_car
  | peekSetCdr (x : Value)            -- IntoIter::peek_mut + set_cdr
  | clone                             -- root := root.clone()
  | eq (x : Value)                    -- root == x
  | consOnto (x : Value)              -- root := Value::cons(x, root)
  | appendTo (xs : List Value)        -- root := Value::append(xs, root)
  | show                              -- root
  deriving Inhabited

inductive Obs where
  | done | oob | noCons | noVec | noIter
  | val (v : Value)
  | opt (o : Option Value)
  | optPair (o : Option (Value × Value))
  | item (o : Option (Value × Option Value))
  | bool (b : Bool)
  | vecTail (xs : List Value) (t : Value)
  | optVec (o : Option (List Value))
  | panic (s : Site)
  deriving Inhabited

/-- a store through cell `i` -/
def storeObs (s : MState) (r : Option Value) : MState × Obs :=
  match r with
  | some v => ({ root := v }, .done)
  | none => ({ root := s.root }, .oob)

def step (s : MState) : Step → MState × Obs
  | .setCar i x => storeObs s (setCarAt s.root i x)
  | .setCdr i x => storeObs s (setCdrAt s.root i x)
  | .carMut i x => storeObs s (carMutAssign s.root i x)
  | .cdrMut i x => storeObs s (cdrMutAssign s.root i x)
  | .car i => ({ root := s.root }, match carAt s.root i with | some v => .val v | none => .oob)
  | .cdr i => ({ root := s.root }, match cdrAt s.root i with | some v => .val v | none => .oob)
  | .asPair i => ({ root := s.root }, match cellAt s.root i with | some p => .optPair (some p) | none => .oob)
  | .sliceSet i x =>
    match sliceSet s.root i x with
    | some (some v) => ({ root := v }, .done)
    | some none => ({ root := s.root }, .oob)
    | none => ({ root := s.root }, .noVec)
  | .intoPair =>
    match s.root with
    | .cons a d => let (p, _) := intoPair a d; ({ root := p.2 }, .optPair (some p))
    | _ => ({ root := s.root }, .noCons)
  | .toVec =>
    match s.root with
    | .cons a d =>
      ({ root := s.root }, match toVecLoop [] (consIter a d) with
        | .ok (xs, t) => .vecTail xs t | .panic p => .panic p)
    | _ => ({ root := s.root }, .noCons)
  | .intoVec =>
    match s.root with
    | .cons a d =>
      ({ root := s.root }, match intoVecLoop [] (consIntoIter a d) with
        | .ok (xs, t) => .vecTail xs t | .panic p => .panic p)
    | _ => ({ root := s.root }, .noCons)
  | .valueToVec => ({ root := s.root }, .optVec s.root.toVec)
  | .index i => ({ root := s.root }, .opt (s.root.getIdx i))
  | .startIter =>
    match s.root with
    | .cons a d => ({ root := s.root, cur := .iter (CellCursor.start a d) }, .done)
    | _ => ({ root := s.root }, .noCons)
  | .startIntoIter =>
    match s.root with
    | .cons a d => ({ root := s.root, cur := .intoIter (CellCursor.start a d) }, .done)
    | _ => ({ root := s.root }, .noCons)
  | .startListIter =>
    match s.root.listIter with
    | some c => ({ root := s.root, cur := .listIter c }, .done)
    | none => ({ root := s.root }, .noCons)
  | .peek =>
    match s.cur with
    | .iter c => (s, .optPair c.peek)
    | .intoIter c => (s, .optPair c.peek)
    | .listIter c => (s, .opt c.peek)
    | .none => (s, .noIter)
  | .next =>
    match s.cur with
    | .iter c => let (r, c') := Iter.next c; ({ s with cur := .iter c' }, .optPair r)
    | .intoIter c => let (r, c') := IntoIter.next c; ({ s with cur := .intoIter c' }, .item r)
    | .listIter c => let (r, c') := c.next; ({ s with cur := .listIter c' }, .opt r)
    | .none => (s, .noIter)
  | .isEmpty =>
    match s.cur with
    | .listIter c => (s, .bool c.isEmpty)
    | _ => (s, .noIter)
  | .peekSetCar x =>
    match s.cur with
    | .intoIter c => let (b, c') := IntoIter.peekSetCar c x; ({ s with cur := .intoIter c' }, .bool b)
    | _ => (s, .noIter)
  | .peekSetCdr x =>
    match s.cur with
    | .intoIter c => let (b, c') := IntoIter.peekSetCdr c x; ({ s with cur := .intoIter c' }, .bool b)
    | _ => (s, .noIter)
  | .clone =>
    match cloneV s.root with
    | .ok v => ({ root := v }, .val v)
    | .panic p => ({ root := s.root }, .panic p)
  | .eq x => ({ root := s.root }, .bool (eqV s.root x))
  | .consOnto x => ({ root := new x s.root }, .done)
  | .appendTo xs =>
    match appendImpl xs s.root with
    | .ok v => ({ root := v }, .done)
    | .panic p => ({ root := s.root }, .panic p)
  | .show => ({ root := s.root }, .val s.root)

/-- A script on one list: the observations, one per step. -/
def run (s : MState) : List Step → List Obs
  | [] => []
  | st :: more => (step s st).2 :: run (step s st).1 more

/-- The list after a script. -/
def runState (s : MState) : List Step → MState
  | [] => s
  | st :: more => runState (step s st).1 more

end ConsOps
end Lexpr
