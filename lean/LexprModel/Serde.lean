/-
  serde-lexpr: the value serializer (value/ser.rs) and deserializer (value/de.rs) over a universe
  of Serde data-model types.  `de t v` is the deserializer *composed with the visitor of t*;
  the visitors are serde's and serde_derive's and their behaviour is assumed (DESIGN.md 3.3):
  integer visitors range-check, float visitors accept integers, tuple visitors read exactly n
  elements and ignore the rest, struct visitors ignore unknown fields, reject duplicates and
  missing fields except missing `Option` fields, map visitors let a later entry win.
-/
import LexprModel.Value
import LexprModel.ListOps
namespace Lexpr
namespace Serde

inductive IntTy where | i8 | i16 | i32 | i64 | u8 | u16 | u32 | u64
  deriving DecidableEq, Repr, Inhabited

def IntTy.lo : IntTy → Int
  | .i8 => -128 | .i16 => -32768 | .i32 => -2147483648 | .i64 => -9223372036854775808
  | _ => 0
def IntTy.hi : IntTy → Int
  | .i8 => 127 | .i16 => 32767 | .i32 => 2147483647 | .i64 => 9223372036854775807
  | .u8 => 255 | .u16 => 65535 | .u32 => 4294967295 | .u64 => 18446744073709551615

mutual
inductive Ty where
  | int (w : IntTy)
  | f32 | f64 | bool | char | str | bytes | unit | unitStruct
  | option (t : Ty)
  | seq (t : Ty)
  | set (t : Ty)
  | tuple (ts : TyList)
  | tupleStruct (ts : TyList)
  | newtypeStruct (t : Ty)
  | map (k v : Ty)
  | struct (fields : FieldList)
  | enum (variants : VariantList)
inductive TyList where
  | nil
  | cons (t : Ty) (ts : TyList)
inductive FieldList where
  | nil
  | cons (name : List UInt8) (t : Ty) (fs : FieldList)
inductive Variant where
  | unit
  | newtype (t : Ty)
  | tuple (ts : TyList)
  | struct (fields : FieldList)
inductive VariantList where
  | nil
  | cons (name : List UInt8) (v : Variant) (vs : VariantList)
end

/-- Values of the data model. Sets and maps are kept in the order given; canonical form sorts. -/
inductive Data where
  | int (n : Int)
  | float (bits : Nat)          -- f32 values are stored widened to f64 bits
  | bool (b : Bool)
  | char (c : Nat)
  | str (s : List UInt8)
  | bytes (b : List UInt8)
  | unit
  | none
  | some (d : Data)
  | seq (ds : List Data)        -- Vec, set, tuple, tuple struct, struct fields (in declaration order)
  | map (kvs : List (Data × Data))
  | variant (idx : Nat) (payload : Data)   -- payload: unit | the newtype content | seq of fields
  deriving Repr, Inhabited

def TyList.length : TyList → Nat | .nil => 0 | .cons _ ts => ts.length + 1
def FieldList.length : FieldList → Nat | .nil => 0 | .cons _ _ fs => fs.length + 1
def FieldList.names : FieldList → List (List UInt8) | .nil => [] | .cons n _ fs => n :: fs.names
def VariantList.get : VariantList → Nat → Option (List UInt8 × Variant)
  | .nil, _ => none
  | .cons n v _, 0 => some (n, v)
  | .cons _ _ vs, i + 1 => vs.get i
def VariantList.find (name : List UInt8) : VariantList → Nat → Option (Nat × Variant)
  | .nil, _ => none
  | .cons n v vs, i => if n == name then some (i, v) else vs.find name (i + 1)

/-! ### serializer -/

def serInt (w : IntTy) (n : Int) : Value :=
  match w with
  | .u64 => .number (Number.ofUnsigned n.toNat)
  | _ => .number (Number.ofSigned n)

/- `to_value`: `none` when the data does not inhabit the type. Structural on the type. -/
mutual
def ser : Ty → Data → Option Value
  | .int w, .int n => some (serInt w n)
  | .f32, .float b => some (.number (.flt b))
  | .f64, .float b => some (.number (.flt b))
  | .bool, .bool b => some (.bool b)
  | .char, .char c => some (.char c)
  | .str, .str s => some (.string s)
  | .bytes, .bytes b => some (.bytes b)
  | .unit, .unit => some .null
  | .unitStruct, .unit => some .null
  | .option _, .none => some .null
  | .option t, .some d => (ser t d).map fun v => .cons v .null
  | .seq t, .seq ds => (ds.mapM (ser t)).map Value.list
  | .set t, .seq ds => (ds.mapM (ser t)).map Value.list
  | .tuple ts, .seq ds => (serTuple ts ds).map Value.vector
  | .tupleStruct ts, .seq ds => (serTuple ts ds).map Value.vector
  | .newtypeStruct t, d => ser t d
  | .map k v, .map kvs =>
    (kvs.mapM fun (a, b) => do let x ← ser k a; let y ← ser v b; pure (Value.cons x y)).map Value.list
  | .struct fs, .seq ds => (serFields fs ds).map Value.list
  | .enum vs, .variant i p => serVariant vs i p
  | _, _ => none
def serTuple : TyList → List Data → Option (List Value)
  | .nil, [] => some []
  | .cons t ts, d :: ds => do let v ← ser t d; let vs ← serTuple ts ds; pure (v :: vs)
  | _, _ => none
def serFields : FieldList → List Data → Option (List Value)
  | .nil, [] => some []
  | .cons n t fs, d :: ds => do
    let v ← ser t d; let vs ← serFields fs ds; pure (.cons (.symbol n) v :: vs)
  | _, _ => none
def serVariant : VariantList → Nat → Data → Option Value
  | .nil, _, _ => none
  | .cons name var _, 0, p =>
    match var, p with
    | .unit, .unit => some (.symbol name)
    | .newtype t, p => (ser t p).map fun v => .cons (.symbol name) v
    | .tuple ts, .seq ds => (serTuple ts ds).map fun xs => .cons (.symbol name) (Value.list xs)
    | .struct fs, .seq ds => (serFields fs ds).map fun xs => .cons (.symbol name) (Value.list xs)
    | _, _ => none
  | .cons _ _ vs, i + 1, p => serVariant vs i p
end

/-! ### deserializer -/

/-- Every error the value deserializer and the visitors raise is a message error
    (`Category::Data`); a panic is the `expect` in `MapAccess::next_value_seed`. -/
inductive DeRes (α : Type) where
  | ok (a : α)
  | dataErr
  | panic
  deriving Repr, Inhabited

@[inline] def DeRes.bind (m : DeRes α) (f : α → DeRes β) : DeRes β :=
  match m with | .ok a => f a | .dataErr => .dataErr | .panic => .panic
instance : Monad DeRes where
  pure := DeRes.ok
  bind := DeRes.bind

/-- `f64 as f32` widened back to f64 bits (round to nearest binary32, overflow to infinity). -/
def roundToF32 (bits : Nat) : Nat :=
  if F64.isNaN bits then bits
  else if F64.isInf bits then bits
  else
    let sign := if bits ≥ F64.signBit then F64.signBit else 0
    let (m, p) := F64.decode bits
    if m = 0 then bits
    else
      -- round m * 2^p to 24 bits of precision, emin = -126 (last place 2^-149)
      let (n, d) : Nat × Nat := if p ≥ 0 then (m * 2 ^ p.toNat, 1) else (m, 2 ^ (-p).toNat)
      let e := F64.ilog2 n d
      let ee : Int := if e < -126 then -126 else e
      let q : Int := ee - 23
      let r : Nat := if q ≥ 0 then F64.rne n (d * 2 ^ q.toNat) else F64.rne (n * 2 ^ (-q).toNat) d
      -- r * 2^q, overflow if r * 2^q ≥ 2^128
      if (if q ≥ 0 then r * 2 ^ q.toNat ≥ 2 ^ 128 else false) then sign + F64.infBits
      else sign + F64.rnScaled r q

/-- The number visitors of serde's primitive impls. -/
def deNumber (t : Ty) (n : Number) : DeRes Data :=
  match t with
  | .int w =>
    (match n with
     | .pos v => if (v : Int) ≤ w.hi then .ok (.int v) else .dataErr
     | .neg i => if w.lo ≤ i ∧ i ≤ w.hi then .ok (.int i) else .dataErr
     | .flt _ => .dataErr)
  | .f64 =>
    (match n with
     | .pos v => .ok (.float (F64.ofNat v))
     | .neg i => .ok (.float (F64.ofInt i))
     | .flt b => .ok (.float b))
  | .f32 =>
    (match n with
     | .pos v => .ok (.float (roundToF32 (F64.ofNat v)))   -- `v as f32`: one rounding from the integer
     | .neg i => .ok (.float (roundToF32 (F64.ofInt i)))
     | .flt b => .ok (.float (roundToF32 b)))
  | _ => .dataErr

/-- elements of a proper list; `none` if the chain does not end in `Null` -/
def listElems : Value → Option (List Value)
  | .null => some []
  | .cons a d => (listElems d).map (a :: ·)
  | _ => none

/-- elements of a list up to the first non-pair cdr, and that cdr -/
def chain : Value → List Value × Value
  | .cons a d => let (xs, t) := chain d; (a :: xs, t)
  | t => ([], t)

def lookupField (name : List UInt8) : List (List UInt8 × Data) → Option Data
  | [] => none
  | (n, d) :: rest => if n == name then some d else lookupField name rest

def Ty.isOption : Ty → Bool | .option _ => true | _ => false

/-- `ListAccess` driven to the end by a collecting visitor: each element, then the cdr must be
    a pair or `Null`. -/
def deChain (f : Value → DeRes Data) : Value → Value → DeRes (List Data)
  | a, .null => do let d ← f a; pure [d]
  | a, .cons a' d' => do let d ← f a; let ds ← deChain f a' d'; pure (d :: ds)
  | a, _ => do let _ ← f a; .dataErr

/-- `deserialize_seq` with a collecting visitor (Vec, BTreeSet). -/
def deSeqLike (f : Value → DeRes Data) : Value → DeRes Data
  | .null => .ok (.seq [])
  | .vector xs => do let ds ← xs.mapM f; pure (.seq ds)
  | .cons a d => do let ds ← deChain f a d; pure (.seq ds)
  | _ => .dataErr

/-- `MapAccess` with a collecting visitor: entries must be pairs, the chain must be proper. -/
def deEntries (fk fv : Value → DeRes Data) : Value → Value → DeRes (List (Data × Data))
  | .cons ka va, rest => do
    let x ← fk ka
    let y ← fv va
    match rest with
    | .null => pure [(x, y)]
    | .cons a' d' => do let r ← deEntries fk fv a' d'; pure ((x, y) :: r)
    | _ => .dataErr
  | _, _ => .dataErr

/-- The derived struct visitor's `visit_map` loop.  `field name va` is `none` for an unknown
    field (skipped, value ignored) and the deserialised value otherwise; keys must be symbols;
    a duplicate known field is an error. -/
def deStructEntries (field : List UInt8 → Value → Option (DeRes Data)) :
    Value → Value → List (List UInt8 × Data) → DeRes (List (List UInt8 × Data))
  | .cons (.symbol name) va, rest, got => do
    let got' ← (match field name va with
      | some r =>
        if (lookupField name got).isSome then DeRes.dataErr
        else do let d ← r; pure (got ++ [(name, d)])
      | none => pure got : DeRes (List (List UInt8 × Data)))
    match rest with
    | .null => pure got'
    | .cons a' d' => deStructEntries field a' d' got'
    | _ => .dataErr
  | _, _, _ => .dataErr

/-- after the loop: every field present, except that a missing `Option` field is `None` -/
def deStructFill : List (List UInt8 × Bool) → List (List UInt8 × Data) → DeRes (List Data)
  | [], _ => .ok []
  | (n, isOpt) :: fs, got =>
    match lookupField n got with
    | some d => do let ds ← deStructFill fs got; pure (d :: ds)
    | none => if isOpt then do let ds ← deStructFill fs got; pure (.none :: ds) else .dataErr

def FieldList.optFlags : FieldList → List (List UInt8 × Bool)
  | .nil => []
  | .cons n t fs => (n, t.isOption) :: fs.optFlags

/-- `deserialize_struct` (= `deserialize_map`) with the derived visitor -/
def deStructLike (field : List UInt8 → Value → Option (DeRes Data)) (flags : List (List UInt8 × Bool)) :
    Value → DeRes Data
  | .null => do let ds ← deStructFill flags []; pure (.seq ds)
  | .cons a d => do
    let got ← deStructEntries field a d []
    let ds ← deStructFill flags got
    pure (.seq ds)
  | _ => .dataErr

/- `from_value::<T>` for the type described by `t`. Structural on the type. -/
mutual
def de : Ty → Value → DeRes Data
  | .int w, .number n => deNumber (.int w) n
  | .f32, .number n => deNumber .f32 n
  | .f64, .number n => deNumber .f64 n
  | .bool, .bool b => .ok (.bool b)
  | .char, .char c => .ok (.char c)
  | .str, .string s => .ok (.str s)
  | .bytes, .bytes b => .ok (.bytes b)
  | .unit, .nil => .ok .unit
  | .unit, .null => .ok .unit
  | .unitStruct, .nil => .ok .unit
  | .unitStruct, .null => .ok .unit
  | .option _, .null => .ok .none
  | .option t, .cons a .null => do let d ← de t a; pure (.some d)
  | .newtypeStruct t, v => de t v
  | .seq t, v => deSeqLike (de t) v
  | .set t, v => deSeqLike (de t) v
  | .tuple ts, v => deTupleLike ts v
  | .tupleStruct ts, v => deTupleLike ts v
  | .map _ _, .null => .ok (.map [])
  | .map k v, .cons a d => do let kvs ← deEntries (de k) (de v) a d; pure (.map kvs)
  | .struct fs, v => deStructLike (deField fs) fs.optFlags v
  | .enum vs, .symbol name => deVariant vs 0 name none
  | .enum vs, .cons (.symbol name) payload => deVariant vs 0 name (some payload)
  | _, _ => .dataErr
/-- `deserialize_tuple` with a fixed-length visitor -/
def deTupleLike : TyList → Value → DeRes Data
  | ts, .null => do let ds ← deTupleVec ts []; pure (.seq ds)
  | ts, .vector xs => do let ds ← deTupleVec ts xs; pure (.seq ds)
  | ts, .cons a d =>
    if Value.isList (.cons a d) then do let ds ← deTupleList ts (some (a, d)); pure (.seq ds)
    else .dataErr
  | _, _ => .dataErr
/-- `deserialize_seq` with a fixed-length visitor: what `tuple_variant` called BEFORE its repair (it now
    calls `deserialize_tuple` = `deTupleLike`); kept as the witness of the old behaviour, not used by `de` -/
def deTupleSeq : TyList → Value → DeRes Data
  | ts, .null => do let ds ← deTupleVec ts []; pure (.seq ds)
  | ts, .vector xs => do let ds ← deTupleVec ts xs; pure (.seq ds)
  | ts, .cons a d => do let ds ← deTupleList ts (some (a, d)); pure (.seq ds)
  | _, _ => .dataErr
/-- `VecAccess`: n elements, a missing one is `invalid_length`, extra ones are ignored -/
def deTupleVec : TyList → List Value → DeRes (List Data)
  | .nil, _ => .ok []
  | .cons _ _, [] => .dataErr
  | .cons t ts, x :: xs => do let d ← de t x; let ds ← deTupleVec ts xs; pure (d :: ds)
/-- `ListAccess`: after each element the cdr must be a pair or `Null` (checked even when the
    visitor will not ask for more) -/
def deTupleList : TyList → Option (Value × Value) → DeRes (List Data)
  | .nil, _ => .ok []
  | .cons _ _, none => .dataErr
  | .cons t ts, some (a, d) => do
    let x ← de t a
    match d with
    | .cons a' d' => do let ds ← deTupleList ts (some (a', d')); pure (x :: ds)
    | .null => do let ds ← deTupleList ts none; pure (x :: ds)
    | _ => .dataErr
/-- a struct field by name: `none` if there is no such field -/
def deField : FieldList → List UInt8 → Value → Option (DeRes Data)
  | .nil, _, _ => none
  | .cons n t fs, name, va => if n == name then some (de t va) else deField fs name va
/-- the variant named `name`; `payload = none` for a bare symbol.  `unit_variant()` does not
    look at the payload; a data-carrying variant given as a bare symbol is an error. -/
def deVariant : VariantList → Nat → List UInt8 → Option Value → DeRes Data
  | .nil, _, _, _ => .dataErr
  | .cons n var vs, i, name, payload =>
    if n == name then
      match var, payload with
      | .unit, _ => .ok (.variant i .unit)
      | .newtype t, some p => do let d ← de t p; pure (.variant i d)
      | .tuple ts, some p => do let d ← deTupleLike ts p; pure (.variant i d)
      | .struct fs, some p => do
        let d ← deStructLike (deField fs) fs.optFlags p
        pure (.variant i d)
      | _, none => .dataErr
    else deVariant vs (i + 1) name payload
end

end Serde
end Lexpr
