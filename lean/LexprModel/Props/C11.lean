/-
  C11 — source spans delimit exactly the text of each datum.
  Open: `C11_span_ok` (containment, ordering and the re-parse clause for every reachable sub-datum).
  Proved here: the span synthesis of quote shorthands, and that the reader's position does not depend
  on the input source (which is what makes spans equal across sources once values are).
-/
import LexprModel.Parse
namespace Lexpr
namespace Parse

/-- for a quote shorthand the head's span is the span of the shorthand characters, the whole
    datum runs from the start of the shorthand to the end of the quoted datum, and the quoted datum
    keeps its own span -/
theorem C11_quote_head (q : Quote) (d : Datum) (sp : Span) :
    (Datum.quotation q d sp).info =
      .cons ⟨sp.start, d.info.span.stop⟩ (.prim sp)
        (.cons d.info.span d.info (.prim ⟨d.info.span.stop, d.info.span.stop⟩)) := rfl

theorem C11_quote_span (q : Quote) (d : Datum) (sp : Span) :
    (Datum.quotation q d sp).info.span = ⟨sp.start, d.info.span.stop⟩ := rfl

/-- `Read::position` is the same function of (line, column) for the three sources -/
theorem C11_position_mode_independent (rd : Rd) (m : Mode) :
    ({ rd with mode := m } : Rd).position = rd.position := rfl

/-- consuming bytes updates the position identically for the three sources -/
theorem C11_consume_mode_independent (rd : Rd) (m : Mode) (n : Nat) :
    (({ rd with mode := m } : Rd).consume n).position = (rd.consume n).position := by
  induction n generalizing rd with
  | zero => rfl
  | succ n ih =>
    cases rd with
    | mk mode rest line col peeked faulty =>
      cases rest with
      | nil => rfl
      | cons b bs =>
        simp only [Rd.consume]
        exact ih { mode := mode, rest := bs, line := (advance line col b).1,
                   col := (advance line col b).2, peeked := false, faulty := faulty }

/-- columns count bytes, lines count line feeds -/
theorem C11_advance (l c : Nat) (b : UInt8) :
    advance l c b = if b = 10 then (l + 1, 0) else (l, c + 1) := by
  unfold advance; by_cases h : b = 10 <;> simp [h]

example : (Rd.consume { mode := .io, rest := asc "a\nλ" } 3).position = ⟨2, 1⟩ := by decide

end Parse
end Lexpr
