/-
  C11 — source spans delimit exactly the text of each datum.
  Proved in LexprModel/Proofs/Spans.lean (with SpansPos, SpansInv, SpansRel, SpansTwin; imported
  here; namespace Lexpr.Parse.Spans), for every input, option set and source:
   * `C11_span_bounds` — the span of a returned datum is ⟨posOf p, posOf q⟩ for prefixes p < q of the
     input, p ending exactly where the trivia before the datum ends and q where the parser stopped:
     the span lies inside the input and starts at the datum's first non-trivia byte;
     `C11_span_nonempty`; `C11_posOf_mono`, `C11_posOf_inj` (positions order as offsets do);
   * `C11_children_inside`, `C11_well_nested` — recursively, every element span (cars, dotted tail,
     vector entries) is a real non-empty span inside its parent, siblings are ordered and do not
     overlap;
   * `C11_list_iter_spans`, `C11_vector_iter_spans` — what the datum iterators yield at every depth
     satisfies the same, and the "badly shaped span information" expect never fires;
   * `C11_quote_head_span` — for a quote shorthand the head's span is exactly the shorthand characters;
   * `C11_sources`, `C11_sources_slice_io` — identical datums *and span trees* from different sources.
   * the re-parse clause (LexprModel/Proofs/Reparse.lean with ReparseCore, ReparseLex, ReparseParse,
     ReparseTop, ReparseElems; imported here; namespace Lexpr.Parse.Reparse): `C11_trunc` — a run that
     returned a value having stopped in front of `r` returns the same value on the input cut off there
     (end of input acts as a delimiter at every one of the ~22 peek sites; larger depth budget and other
     fuel allowed: `C11_depth_mono`, `C11_trunc_fuel`); `C11_reparse` — for the datum returned and,
     recursively (`RepV`), for every element reachable through the list and vector iterators (cars,
     dotted tails, vector entries), the text its span covers, parsed on its own with the same options,
     yields that element's value; the head of a quote shorthand is instead characterised by `QuoteHead`
     (the shorthand characters); `ReparsesTo.forall` (the prefixes are determined by the span);
     `C11_reparse_list_iter`, `C11_reparse_vector_iter` (what the datum iterators yield).
  Proved here: the span synthesis of quote shorthands, and that the reader's position does not depend
  on the input source (which is what makes spans equal across sources once values are).
-/
import LexprModel.Parse
import LexprModel.Proofs.Spans
import LexprModel.Proofs.Reparse
namespace Lexpr
namespace Parse

/-- for a quote shorthand the head's span is the span of the shorthand characters, the whole
    datum runs from the start of the shorthand to the end of the quoted datum, and the quoted datum
    keeps its own span -/
theorem C11_quote_head (q : Quote) (d : Datum) (sp : Span) :
    (Datum.quotation q d sp).info =
      .cons ⟨sp.start, d.info.span.stop⟩ (.prim sp)
        (.cons d.info.span d.info (.prim ⟨d.info.span.stop, d.info.span.stop⟩)) := rfl

theorem C11_quote_span (q : Quote) (d : Datum) (sp : Span) :
    (Datum.quotation q d sp).info.span = ⟨sp.start, d.info.span.stop⟩ := rfl

/-- `Read::position` is the same function of (line, column) for the three sources -/
theorem C11_position_mode_independent (rd : Rd) (m : Mode) :
    ({ rd with mode := m } : Rd).position = rd.position := rfl

/-- consuming bytes updates the position identically for the three sources -/
theorem C11_consume_mode_independent (rd : Rd) (m : Mode) (n : Nat) :
    (({ rd with mode := m } : Rd).consume n).position = (rd.consume n).position := by
  induction n generalizing rd with
  | zero => rfl
  | succ n ih =>
    cases rd with
    | mk mode rest line col peeked faulty =>
      cases rest with
      | nil => rfl
      | cons b bs =>
        simp only [Rd.consume]
        exact ih { mode := mode, rest := bs, line := (advance line col b).1,
                   col := (advance line col b).2, peeked := false, faulty := faulty }

/-- columns count bytes, lines count line feeds -/
theorem C11_advance (l c : Nat) (b : UInt8) :
    advance l c b = if b = 10 then (l + 1, 0) else (l, c + 1) := by
  unfold advance; by_cases h : b = 10 <;> simp [h]

/-- **C11_span_text_reparses** (the re-parse clause of the property): the text covered by the span of a
    datum returned by `next_datum` — and, recursively, of every element reachable through its list and
    vector iterators, the head of a quote shorthand excepted — read on its own with the same options
    yields exactly that element's value. -/
theorem C11_span_text_reparses (cfg : Cfg) (fuel : Nat) (s s' : St) (d : Datum) (input : List UInt8)
    (h : nextDatum cfg fuel s = .ok (some d) s') (hat : Spans.At input s) (hd : s.depth ≤ 128) :
    Reparse.ReparsesTo cfg s.rd.mode input d.value d.info.span ∧
      Reparse.RepV (Reparse.ElemOK cfg s.rd.mode input) d.value d.info :=
  Reparse.C11_reparse cfg fuel s s' d input h hat hd

example : (Rd.consume { mode := .io, rest := asc "a\nλ" } 3).position = ⟨2, 1⟩ := by decide

end Parse
end Lexpr
