/-
  C09 — `sexp!` builds the value the parser reads from the same S-expression.

  Macro side, fully proved (LexprModel/Proofs/MacroSpec.lean, imported here): for the documented
  syntax as a tree type `Doc` with its rendering `toks` into the Rust token stream, the macro's token
  parser inverts `toks` for every well-formed tree (`C09_parse_inverts_toks`, lists, dotted lists with
  flattened tails, vectors), the generated code evaluates to the denoted value (`C09_eval_mv`), hence
  `expand env (toks d) = some (valueOf env d)` (`C09_expand`); an unquoted expression contributes
  exactly `Value::from(expr)`, also as a dotted tail (`C09_unquote`, `C09_unquote_tail`,
  `C09_unquote_expand`); tail flattening agrees with `Value::append` (`C09_tail_flatten*`).
  The well-formedness conditions are exactly the token-level ambiguities of Rust's tokenisation
  (a free-standing `-` before a NUMERIC literal, `:` before a literal or an identifier, the lone
  `.`), shown necessary by witnesses in that file (`minus_before_number_witness`).  Since the repair
  70c5316 of parser.rs a `-` before a string or character literal is the symbol `-`: `(- "s")`,
  `(- 'a')`, `(- "s" 1)` are well formed and covered (`minus_before_string_tokens`,
  `C09_expand_minus_before_string`; end to end in LexprModel/Proofs/MacroMinus.lean, imported here:
  `C09_agree_minus_string/_char/_string_int`, `C09_agree_full_minus_string/_char/_escaped`,
  `C09_unquote_minus_string`, `C09_unquote_agree_minus_char`).
  Text side, proved (LexprModel/Proofs/MacroText.lean, imported here): `stext d`, the S-expression
  text of a tree, equals the default printer's text of `valueOf d` (`stext_eq_print`), the default
  parser reads it as `valueOf d` (`C09_text`), hence `C09_agree`: for every well-formed tree in the
  proved sub-language (`TextOK`: integers, strings and characters that need no escape, all symbol and
  keyword spellings, lists, dotted lists, vectors, nesting ≤ 127)
      expand env (toks d) = some (valueOf env d)  ∧  fromTrait cfg (initSt .slice (stext d)) = .ok (valueOf env d) _ ;
  `C09_text_literal` / `C09_agree_literal`: the same for the literal text with unmerged dotted tails
  (`(a . (b c))` reads as `(a b c)`); `C09_names`: every Rust identifier and punctuation run is a
  plain name.  Outside the theorem: floats, unquotes (no text), escapes in literals (rustc unescapes).
  Witnesses kept there: `(. 5)`, `#(. a)`, the 127-fold dotted literal.
  Extended text side (LexprModel/Proofs/MacroText2.lean with MacroText2Base, MacroText2Ex, MacroText2Embed;
  imported here): the syntax tree `Sx` adds float leaves with their written spelling (`DecLit`) and
  strings / characters of ARBITRARY content (a Rust literal reaches the macro unescaped; its equivalent
  S-expression text is the default printer's rendering, R6RS escapes); `C09_text2`, `C09_agree_full`
  (`TextOK2`: any valid UTF-8 string, any scalar character, `-0`, symbol names with a non-ASCII alphabetic
  initial, float leaves that are exactly readable in the build), `C09_agree_float_default` (digits below
  2^53 and |exponent| <= 22: macro and default parser give the same correctly rounded double, both signs),
  `C09_agree_float_nofast` (at most 19 digits); `C09_agree_full_extends` (the old sub-language embeds).
  Each float hypothesis is shown necessary by a kernel-checked witness that is also a behaviour of the
  real crate (known findings): `C09_float_window_needed` (`1e-23`), `C09_float_window_needed_8_5em30`,
  `C09_float_digits_needed` (`18446744073709553665.0`, 20 digits: one ulp apart in BOTH builds).
  Names: `C09_keyword_names_exact`, `C09_symbol_image`, `C09_space_symbol_no_text` (`#"a b"` has no
  text), `C09_dot_head_needed` (the C13 dot-head finding seen through the macro).
  Unquotes (LexprModel/Proofs/MacroUnquote.lean, imported here): `C09_unquote_plug`, `C09_unquote_agree`
  (the macro on a tree with unquotes = the parser on the text of the plugged tree, at any depth),
  `C09_unquote_tail_list/_improper/_atom/_nested` (a dotted tail that evaluates to a list is merged as
  `Value::append` does).
  Tie: batches of generated `sexp!` invocations compiled against /repo, compared with `from_str`
  and with this model.
-/
import LexprModel.Proofs.MacroSpec
import LexprModel.Proofs.MacroText
import LexprModel.Proofs.MacroText2Ex
import LexprModel.Proofs.MacroText2Embed
import LexprModel.Proofs.MacroUnquote
import LexprModel.Proofs.MacroMinus
namespace Lexpr
namespace Macro

/-- the list parser's final step: elements, a dot, a tail that is a list -/
theorem C09_parseList_finish (f : Nat) (elements rl : List MV) (r : MV) :
    parseList f [] elements (some (.list rl)) = some (.list (elements ++ rl)) ∧
    parseList f [] elements (some (.improper rl r)) = some (.improper (elements ++ rl) r) ∧
    parseList f [] elements none = some (.list elements) := by
  refine ⟨?_, ?_, ?_⟩ <;> cases f <;> simp [parseList]

/-- only a free-standing dot is the dotted-tail marker: a dot glued to more punctuation
    (as in `...`) starts a symbol -/
theorem C09_joint_dot_is_symbol :
    expand (fun _ => .nil) [.group true [.ident [97], .punct 46 .joint, .punct 46 .joint, .punct 46 .alone, .ident [98]]] =
      some (Value.list [.symbol [97], .symbol [46, 46, 46], .symbol [98]]) := by
  simp [expand, parse, parseList, parseIdentifier, isSymPunct, isIdPunct, eval, evalAll]

end Macro
end Lexpr
