/-
  C09 — `sexp!` builds the value the parser reads from the same S-expression.

  Macro side, fully proved (LexprModel/Proofs/MacroSpec.lean, imported here): for the documented
  syntax as a tree type `Doc` with its rendering `toks` into the Rust token stream, the macro's token
  parser inverts `toks` for every well-formed tree (`C09_parse_inverts_toks`, lists, dotted lists with
  flattened tails, vectors), the generated code evaluates to the denoted value (`C09_eval_mv`), hence
  `expand env (toks d) = some (valueOf env d)` (`C09_expand`); an unquoted expression contributes
  exactly `Value::from(expr)`, also as a dotted tail (`C09_unquote`, `C09_unquote_tail`,
  `C09_unquote_expand`); tail flattening agrees with `Value::append` (`C09_tail_flatten*`).
  The well-formedness conditions are exactly the token-level ambiguities of Rust's tokenisation
  (a free-standing `-` before a literal, `:` before an identifier, the lone `.`), shown necessary by
  witnesses in that file.
  Text side, proved (LexprModel/Proofs/MacroText.lean, imported here): `stext d`, the S-expression
  text of a tree, equals the default printer's text of `valueOf d` (`stext_eq_print`), the default
  parser reads it as `valueOf d` (`C09_text`), hence `C09_agree`: for every well-formed tree in the
  proved sub-language (`TextOK`: integers, strings and characters that need no escape, all symbol and
  keyword spellings, lists, dotted lists, vectors, nesting ≤ 127)
      expand env (toks d) = some (valueOf env d)  ∧  fromTrait cfg (initSt .slice (stext d)) = .ok (valueOf env d) _ ;
  `C09_text_literal` / `C09_agree_literal`: the same for the literal text with unmerged dotted tails
  (`(a . (b c))` reads as `(a b c)`); `C09_names`: every Rust identifier and punctuation run is a
  plain name.  Outside the theorem: floats, unquotes (no text), escapes in literals (rustc unescapes).
  Witnesses kept there: `(. 5)`, `#(. a)`, the 127-fold dotted literal.
  Tie: batches of generated `sexp!` invocations compiled against /repo, compared with `from_str`
  and with this model.
-/
import LexprModel.Proofs.MacroSpec
import LexprModel.Proofs.MacroText
namespace Lexpr
namespace Macro

/-- the list parser's final step: elements, a dot, a tail that is a list -/
theorem C09_parseList_finish (f : Nat) (elements rl : List MV) (r : MV) :
    parseList f [] elements (some (.list rl)) = some (.list (elements ++ rl)) ∧
    parseList f [] elements (some (.improper rl r)) = some (.improper (elements ++ rl) r) ∧
    parseList f [] elements none = some (.list elements) := by
  refine ⟨?_, ?_, ?_⟩ <;> cases f <;> simp [parseList]

/-- only a free-standing dot is the dotted-tail marker: a dot glued to more punctuation
    (as in `...`) starts a symbol -/
theorem C09_joint_dot_is_symbol :
    expand (fun _ => .nil) [.group true [.ident [97], .punct 46 .joint, .punct 46 .joint, .punct 46 .alone, .ident [98]]] =
      some (Value.list [.symbol [97], .symbol [46, 46, 46], .symbol [98]]) := by
  simp [expand, parse, parseList, parseIdentifier, isSymPunct, isIdPunct, eval, evalAll]

end Macro
end Lexpr
