/-
  C18 — deserialising any value is total and self-consistent.
  `C18_total` (no panic, every error a data error) for the whole type universe and `C18_normalise`
  are in LexprModel/Proofs/SerdeRT.lean (when present).  Proved here: the visitors of the primitive
  types never panic and reject with a data error, for every value; and the error type of the model
  has no other category.
  Fully proved in LexprModel/Proofs/SerdeRT.lean (imported here), for every type of the universe and
  every value: `C18_total` (never a panic), `C18_data_error` (a value or a data-category error),
  `C18_typing` (a deserialised datum inhabits the type) and `C18_normalise` (serialising it and
  deserialising again returns the same datum).
-/
import LexprModel.Proofs.SerdeRT
namespace Lexpr
namespace Serde

/-- the model's result type distinguishes exactly: a value, a data-category error, a panic -/
theorem C18_result_cases {α : Type} (r : DeRes α) : (∃ a, r = .ok a) ∨ r = .dataErr ∨ r = .panic := by
  cases r <;> simp

/-- the number visitors never panic -/
theorem C18_number_total (t : Ty) (n : Number) : deNumber t n ≠ .panic := by
  cases t <;> cases n <;> simp [deNumber] <;> (try split) <;> simp

/-- primitives: any value either deserialises or is rejected with a data error -/
theorem C18_prim_total (v : Value) :
    de .bool v ≠ .panic ∧ de .char v ≠ .panic ∧ de .str v ≠ .panic ∧ de .bytes v ≠ .panic ∧
    de .unit v ≠ .panic ∧ de .unitStruct v ≠ .panic ∧ de .f64 v ≠ .panic ∧ de .f32 v ≠ .panic := by
  cases v <;> simp [de, C18_number_total]

theorem C18_int_total (w : IntTy) (v : Value) : de (.int w) v ≠ .panic := by
  cases v <;> simp [de, C18_number_total]

/-- an integer out of range for the width is rejected, not wrapped -/
theorem C18_int_range (w : IntTy) (n : Nat) (h : (n : Int) > w.hi) :
    de (.int w) (.number (.pos n)) = .dataErr := by
  simp only [de, deNumber]
  have : ¬ ((n : Int) ≤ w.hi) := by omega
  simp [this]

example : de (.int .u8) (.number (.pos 256)) = .dataErr := C18_int_range .u8 256 (by simp [IntTy.hi])

end Serde
end Lexpr
