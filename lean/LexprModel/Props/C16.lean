/-
  C16 — stack use does not grow with the number of list elements.  (partial: the call depth is proved
  in the model; bytes per frame and the platform's stack are observed by running the real code on a
  2 MiB stack, see the `depth` probes of the check.)

  Proved: operations implemented with a loop along the cdr chain have call depth bounded by the
  nesting depth alone, for every value.  On the pinned tree `Clone`/`PartialEq` of `Cons` and
  `Clone`/`PartialEq`/drop of a datum's span information were derived and recursed once per element
  (`C16_derived_linear` is kept as the witness of that defect); /repo commit 54f14f8 replaced them by
  loops, so every operation the property lists is now in the `looped` class.  That the real
  implementations are in that class is what the depth probes observe (10^6 elements, 2 MiB stack).
-/
import LexprModel.Depth
import LexprModel.ListOps
namespace Lexpr
namespace Depth
open Spec

mutual
theorem looped_le : ∀ v : Value, looped v ≤ nesting v + 1
  | .cons a d => by
    have h1 := looped_le a; have h2 := loopedTail_le d
    simp only [looped, nesting]; omega
  | .vector xs => by have := loopedList_le xs; simp only [looped, nesting]; omega
  | .nil | .null | .bool _ | .number _ | .char _ | .string _ | .symbol _ | .keyword _ | .bytes _ => by
    simp [looped, nesting]
theorem loopedTail_le : ∀ v : Value, loopedTail v ≤ nestingTail v + 1
  | .cons a d => by
    have h1 := looped_le a; have h2 := loopedTail_le d
    simp only [loopedTail, nestingTail]; omega
  | .vector xs => by have := loopedList_le xs; simp only [loopedTail, nestingTail]; omega
  | .nil | .null | .bool _ | .number _ | .char _ | .string _ | .symbol _ | .keyword _ | .bytes _ => by
    simp [loopedTail, nestingTail]
theorem loopedList_le : ∀ xs : List Value, loopedList xs ≤ nestingList xs + 1
  | [] => by simp [loopedList]
  | x :: xs => by
    have h1 := looped_le x; have h2 := loopedList_le xs
    simp only [loopedList, nestingList]; omega
end

/-- **C16_depth_looped**: for clone, == (values and datums), print, Display, parse, to_vec,
    iterators, index, is_list the call depth is at most nesting + 1, whatever the number of elements.
    (`Drop` needs up to twice that: see `C16_loops_from_code` below — `Cons::drop` hands short lists to
    the recursive drop glue and frees the cells of longer ones one level below itself; still
    independent of the length.) -/
theorem C16_depth_looped (v : Value) : looped v ≤ nesting v + 1 := looped_le v

/-- a flat list of n atoms has nesting 1: depth 2 for the looped operations, for every n -/
theorem C16_flat_list (n : Nat) : looped (Value.list (List.replicate n (.number (.pos 7)))) ≤ 2 := by
  have h : ∀ n, loopedTail (Value.append (List.replicate n (.number (.pos 7))) .null) ≤ 1 := by
    intro n; induction n with
    | zero => simp [Value.append, loopedTail]
    | succ n ih => simp only [List.replicate_succ, Value.append, loopedTail, looped]; omega
  cases n with
  | zero => simp [Value.list, Value.append, looped]
  | succ n =>
    simp only [Value.list, List.replicate_succ, Value.append, looped]
    have := h n; omega

/-- **C16_derived_linear** (witness of the defect repaired by 54f14f8): a derived `Clone` / `==`
    recurses once per element. -/
theorem C16_derived_linear (n : Nat) :
    derived (Value.list (List.replicate n (.number (.pos 7)))) = n + 1 := by
  induction n with
  | zero => simp [Value.list, Value.append, derived]
  | succ n ih =>
    simp only [Value.list, List.replicate_succ, Value.append, derived] at ih ⊢
    omega

example : nesting (Value.list [.number (.pos 1), Value.list [.null]]) = 2 := by decide

/-! **C16_datum_clone_depth / _eq_depth / _drop_depth** (LexprModel/Proofs/DatumDepth.lean, built and audited with
    this property): for every datum any entry point or history returns, the span tree nests exactly as deep as the
    value (`loopedS_eq_of_shaped`, from `C10_shaped`), so cloning, comparing and dropping a datum stay within
    `nesting value + 2`, `+ 2` and `2 * nesting value + 3` — "with or without source-location information". -/

/-! **C16_cons_loops_depth** (LexprModel/Proofs/ConsOpsAll.lean, built and audited with this property; it
    imports this file): the bounds derived from depth-instrumented models of the loops as they are written
    in cons.rs and datum.rs (LexprModel/ConsOps.lean, ConsOpsDepth.lean, ConsOpsDatum.lean; tied to the code by
    the `clone` / `dclone` / `consmut` operations): the call depth of `Cons::clone` is EXACTLY `looped v`,
    `==` stays within `nesting + 1` of either operand, `Drop` within `2 * nesting + 2`; same for the span
    information of a datum — none depends on the length. -/

end Depth
end Lexpr
