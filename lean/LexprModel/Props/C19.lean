/-
  C19 — parse errors carry an in-bounds location and truncation is reported as EOF.

  Proved in LexprModel/Proofs/Locations.lean and PrefixDet.lean (imported here; namespace
  Lexpr.Parse.Locations):
   * location clause, complete: `C19_location` / `C19_location_strong` / `C19_location_api` /
     `C19_location_history` — every syntax or EOF error raised by any entry point, any history of
     calls, any source (faulty or not) carries the position after a genuine prefix of the input;
     hence 1 ≤ line ≤ lines(input) and column ≤ length of that line (tighter than the property asks);
   * EOF classification: `C19_eof_only_at_end` (eofList / eofVector / eofValue are raised only with the
     input exhausted), `C19_eof_lexer`, `C19_syntax_at_end` (the seven syntax codes that can be raised
     at the very end of the input); `C19_eof_only_at_end_false` — the literal converse is false
     (`"\xZ" 1` reports eofString with input left) and is not part of C19;
   * truncation clause: `C19_prefix_det`, `C19_prefix_det_ok` (an outcome reached with input left
     does not depend on what follows), `C19_truncation_reads_all` (if the full text parses and a
     prefix does not, the prefix was read to its end), and, in LexprModel/Proofs/Truncation.lean and
     TruncHistory.lean (Trunc*.lean; imported here), the clause itself for every option set, both
     build features and every source: `C19_truncation`, `C19_truncation_datum` — the error on the
     proper prefix is of EOF category unless it is `NumberOutOfRange`; `C19_truncation_iff` — that
     exception is exactly the failure of the clause; `C19_truncation_history` — the same for any
     history of calls on one parser (the iterator API).  The clause as stated is FALSE
     (`C19_truncation_clause_false`): an integer part of more than 308 digits is out of range at
     the end of the input although `e-1` may follow (`C19_truncation_counterexample_long_integer`,
     `_fast`; known finding, both build features).  The Lean development also found `#u8(#`
     (`C19_truncation_u8_hash`) and the surrogate-valued Emacs escapes `"\xD800`, `?\154000`,
     `"\N{U+D800` (examples in TruncExamples.lean); both are repaired in /repo and the model
     follows the repaired code (DESIGN.md section 9).
  Proved here: the classification clause, for the whole error table as
  regenerated from the code on this run, and the model's category function.
-/
import LexprModel.TablesCheck
import LexprModel.Proofs.Locations
import LexprModel.Proofs.TruncExamples
namespace Lexpr
namespace Parse

/-- the five EOF codes are exactly the codes classified as EOF -/
theorem C19_eof_codes (c : Code) :
    c.category = .eof ↔ (c = .eofList ∨ c = .eofVector ∨ c = .eofString ∨ c = .eofValue ∨ c = .eofChar) := by
  cases c <;> simp [Code.category]

/-- no syntax code is classified as I/O; an I/O error is never classified as syntax or EOF -/
theorem C19_io_category (e : Err) : e.category = .io ↔ e = .io := by
  rcases e with ⟨c, l, k⟩ | _
  · cases c <;> simp [Err.category, Code.category]
  · simp [Err.category]

/-- **C19_io_kind**: on the current build every one of the 18 syntax codes was raised by a concrete
    input, carried the category the model assigns, and converted to the documented `io::ErrorKind`
    (InvalidData for syntax, UnexpectedEof for EOF); an injected read error kept its own kind and
    payload. (Restates `TablesCheck.error_table`, which the kernel checks against the regenerated table.) -/
theorem C19_io_kind :
    Gen.errorTable.length = 19 ∧
    (Gen.errorTable.all fun (c, got, cat, kind) =>
      got == c &&
      (match TablesCheck.codeOfNat c with
       | some code => cat == TablesCheck.catNo code.category && kind == TablesCheck.documentedKind code.category
       | none => c == 18 && cat == 0 && kind == 2)) = true :=
  TablesCheck.error_table

/-- positions only move forward: consuming bytes never decreases the line, and the column is
    the number of bytes since the last line feed -/
theorem advance_line (l c : Nat) (b : UInt8) : l ≤ (advance l c b).1 := by
  unfold advance; split <;> simp

example : (Code.eofValue).category = .eof ∧ (Code.invalidNumber).category = .syntax := by decide

end Parse
end Lexpr
