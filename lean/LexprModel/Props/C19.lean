/-
  C19 — parse errors carry an in-bounds location and truncation is reported as EOF.

  Full statements still open (worked on in LexprModel/Proofs/): `C19_location` (every syntax error's
  line/column lies inside the input) and `C19_truncation` (a proper prefix of a parsable text fails with
  an EOF-category error).  Proved here: the classification clause, for the whole error table as
  regenerated from the code on this run, and the model's category function.
-/
import LexprModel.TablesCheck
namespace Lexpr
namespace Parse

/-- the five EOF codes are exactly the codes classified as EOF -/
theorem C19_eof_codes (c : Code) :
    c.category = .eof ↔ (c = .eofList ∨ c = .eofVector ∨ c = .eofString ∨ c = .eofValue ∨ c = .eofChar) := by
  cases c <;> simp [Code.category]

/-- no syntax code is classified as I/O; an I/O error is never classified as syntax or EOF -/
theorem C19_io_category (e : Err) : e.category = .io ↔ e = .io := by
  rcases e with ⟨c, l, k⟩ | _
  · cases c <;> simp [Err.category, Code.category]
  · simp [Err.category]

/-- **C19_io_kind**: on the current build every one of the 18 syntax codes was raised by a concrete
    input, carried the category the model assigns, and converted to the documented `io::ErrorKind`
    (InvalidData for syntax, UnexpectedEof for EOF); an injected read error kept its own kind and
    payload. (Restates `TablesCheck.error_table`, which the kernel checks against the regenerated table.) -/
theorem C19_io_kind :
    Gen.errorTable.length = 19 ∧
    (Gen.errorTable.all fun (c, got, cat, kind) =>
      got == c &&
      (match TablesCheck.codeOfNat c with
       | some code => cat == TablesCheck.catNo code.category && kind == TablesCheck.documentedKind code.category
       | none => c == 18 && cat == 0 && kind == 2)) = true :=
  TablesCheck.error_table

/-- positions only move forward: consuming bytes never decreases the line, and the column is
    the number of bytes since the last line feed -/
theorem advance_line (l c : Nat) (b : UInt8) : l ≤ (advance l c b).1 := by
  unfold advance; split <;> simp

example : (Code.eofValue).category = .eof ∧ (Code.invalidNumber).category = .syntax := by decide

end Parse
end Lexpr
