/-
  C20 — accessors, conversions and comparisons are coherent.
-/
import LexprModel.Value
namespace Lexpr
namespace Value

/-- exactly one of the eleven kind predicates holds: the one numbered `kind v` -/
theorem C20_one_kind (v : Value) :
    ∀ i, i < 11 → (v.kindFlags.getD i false = true ↔ i = v.kind) := by
  intro i hi
  cases v <;>
    (simp only [kindFlags, kind, isNil, isNull, isBoolean, isNumber, isChar, isString, isSymbol,
      isKeyword, isBytes, isCons, isVector, asNil, asNull, asBool, asNumber, asChar, asStr,
      asSymbol, asKeyword, asBytes, Option.isSome]
     ; (have : i = 0 ∨ i = 1 ∨ i = 2 ∨ i = 3 ∨ i = 4 ∨ i = 5 ∨ i = 6 ∨ i = 7 ∨ i = 8 ∨ i = 9 ∨ i = 10 := by omega)
     ; rcases this with h | h | h | h | h | h | h | h | h | h | h <;> subst h <;> simp)

/-- each `is_x` is `as_x().is_some()` by definition; `as_name` is `Some` exactly for strings,
    symbols and keywords -/
theorem C20_as_name (v : Value) :
    v.asName.isSome = (v.isString || v.isSymbol || v.isKeyword) := by
  cases v <;> simp [asName, isString, isSymbol, isKeyword, asStr, asSymbol, asKeyword]

theorem C20_as_name_payload (v : Value) (s : List UInt8) :
    v.asName = some s ↔ (v = string s ∨ v = symbol s ∨ v = keyword s) := by
  cases v <;> simp [asName]

def inI64 (i : Int) : Prop := i64Min ≤ i ∧ i ≤ i64Max
def inU64 (n : Nat) : Prop := n ≤ u64Max

/-- `From<iN>`: as_i64 returns the integer; as_u64 exactly when it is non-negative -/
theorem C20_from_signed (i : Int) (h : inI64 i) :
    (number (Number.ofSigned i)).asI64 = some i ∧
    (number (Number.ofSigned i)).asU64 = (if i ≥ 0 then some i.toNat else none) ∧
    (number (Number.ofSigned i)).isF64 = false := by
  unfold inI64 i64Min i64Max at h
  by_cases hi : i ≥ 0
  · simp [Number.ofSigned, hi, asI64, asU64, isF64, asNumber, Number.asI64, Number.asU64,
      Number.isF64, Option.bind, i64Max]
    omega
  · simp [Number.ofSigned, hi, asI64, asU64, isF64, asNumber, Number.asI64, Number.asU64,
      Number.isF64, Option.bind]

/-- `From<uN>`: as_u64 returns the integer; as_i64 exactly when it fits -/
theorem C20_from_unsigned (n : Nat) (_h : inU64 n) :
    (number (Number.ofUnsigned n)).asU64 = some n ∧
    (number (Number.ofUnsigned n)).asI64 = (if (n : Int) ≤ i64Max then some (n : Int) else none) ∧
    (number (Number.ofUnsigned n)).isF64 = false := by
  simp [Number.ofUnsigned, asI64, asU64, isF64, asNumber, Number.asI64, Number.asU64,
    Number.isF64, Option.bind]

/-- a float is never an integer, and `as_f64` returns it unchanged -/
theorem C20_from_f64 (b : Nat) :
    (number (Number.ofF64 b)).asI64 = none ∧ (number (Number.ofF64 b)).asU64 = none ∧
    (number (Number.ofF64 b)).asF64 = some b ∧ (number (Number.ofF64 b)).isF64 = true := by
  simp [Number.ofF64, asI64, asU64, asF64, isF64, asNumber, Number.asI64, Number.asU64,
    Number.asF64, Number.isF64, Option.bind]

/-- `as_f64` of an integer is the integer converted to the nearest double (`rn n 1`) -/
theorem C20_as_f64_int (n : Nat) (i : Int) :
    (number (.pos n)).asF64 = some (F64.rn n 1) ∧ (number (.neg i)).asF64 = some (F64.ofInt i) := by
  simp [asF64, asNumber, Number.asF64, Option.bind, F64.ofNat]

/-- the payload accessors return what was put in -/
theorem C20_payload (s : List UInt8) (c : Nat) (b : Bool) (a d : Value) (xs : List Value) :
    (string s).asStr = some s ∧ (symbol s).asSymbol = some s ∧ (keyword s).asKeyword = some s ∧
    (bytes s).asBytes = some s ∧ (char c).asChar = some c ∧ (bool b).asBool = some b ∧
    (cons a d).asPair = some (a, d) ∧ (vector xs).asSlice = some xs := by
  simp [asStr, asSymbol, asKeyword, asBytes, asChar, asBool, asPair, asSlice]

/-- comparison with a primitive = comparison of the primitive with the accessor's result;
    both operand orders and the `&Value` / `&mut Value` impls call the same helper -/
theorem C20_cmp (v : Value) (i : Int) (n : Nat) (f : Nat) (b : Bool) (s : List UInt8) :
    v.eqI64 i = (v.asI64 == some i) ∧ v.eqU64 n = (v.asU64 == some n) ∧
    v.eqF64 f = (match v.asF64 with | some x => F64.feq x f | none => false) ∧
    v.eqBool b = (v.asBool == some b) ∧ v.eqStr s = (v.asStr == some s) := by
  refine ⟨?_, ?_, rfl, ?_, ?_⟩
  · simp only [eqI64]; cases v.asI64 <;> simp
  · simp only [eqU64]; cases v.asU64 <;> simp
  · simp only [eqBool]; cases v.asBool <;> simp
  · simp only [eqStr]; cases v.asStr <;> simp

/-- cross-sign: a non-negative i64 compares equal to the same u64 payload -/
theorem C20_cross_sign (n : Nat) (h : (n : Int) ≤ i64Max) :
    (number (Number.ofUnsigned n)).eqI64 (n : Int) = true ∧
    (number (Number.ofSigned (n : Int))).eqU64 n = true := by
  simp [Number.ofUnsigned, Number.ofSigned, eqI64, eqU64, asI64, asU64, asNumber, Number.asI64,
    Number.asU64, Option.bind, h]

example : (number (Number.ofSigned (-5))).asI64 = some (-5) := by decide
example : inI64 i64Min ∧ inI64 i64Max ∧ inU64 u64Max := by
  unfold inI64 inU64 i64Min i64Max u64Max; omega

end Value
end Lexpr
