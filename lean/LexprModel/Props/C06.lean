/-
  C06 — str, slice and stream input give the same result; read errors surface.
  Proved in LexprModel/Proofs/Sources.lean (with Rel, Hist, SliceIo, StrSlice, Fault; imported here):
   * slice vs stream, whole parser: `C06_slice_io_value/_datum/_expectEnd/_fromTrait/_fromTraitDatum`
     and `C06_slice_io_history` — from related states every entry point and every history of calls
     gives the same values, the same error codes at the same items (positions of a few errors differ
     between the two, shown by a witness, and are not part of C06) and the same end of input;
   * &str vs slice: `C06_str_slice` — on valid UTF-8 every history gives *equal* results, positions
     included (`C06_str_slice_history`, `_value`, `_datum`, `_fromTrait*`); the two unchecked
     conversions agree with the checked ones (`C06_str_slice_parseSymbolBytes`, `_parseR6rsStr`);
   * read faults: `C06_fault_peek_next`, `C06_fault_scanners`, `C06_fault_parseToken`,
     `C06_fault_endSeq_expectEnd`, `C06_fault_reading` — up to and including the tokenizer a run on a
     stream failing after k bytes either reports the I/O error or returns exactly what the fault-free
     run returns; a fault is never turned into a value, a syntax error or an end-of-input error.
     Whole parser (LexprModel/Proofs/FaultParse.lean, FaultParse2, FaultParse3; imported here):
     `C06_fault_value/_datum/_expectValue/_expectDatum/_expectEnd/_fromTrait/_fromTraitDatum`,
     `C06_fault_fromReader` — for every entry point, the run on a stream that delivers `pre` and then
     fails either reports the I/O error (and the parser is dead: every later call reports it again) or
     has exactly the outcome of the run on the fault-free stream `pre ++ tail`; `C06_fault_history`,
     `C06_fault_iterate`, `C06_fault_prefix`, `C06_fault_no_io` — item for item over any history of
     calls; `C06_never_swallowed` — an item of the faulty run is the I/O error or the fault-free run's
     item: never a value, `None`, or an end-of-input error of its own; `C06_fault_demanded`,
     `C06_fault_only_beyond` — if the fault-free run leaves more than |tail| bytes unread after every
     call, the fault is never seen, and an I/O error implies the fault-free call read into the tail.
  Chunking, `Interrupted` and `BufReader` are std behaviour and not modelled (compared directly).
  Proved here: the two hand-duplicated symbol scanners stop at the same bytes; a read
  fault surfaces as an I/O error from the primitives and is never reported as end of input; the
  slice and stream readers consume identically.
-/
import LexprModel.Lex
import LexprModel.Proofs.Sources
import LexprModel.Proofs.FaultParse3
namespace Lexpr
namespace Parse

theorem C06_symLen_mode (m m' : Mode) (bs : List UInt8) : symLen m bs = symLen m' bs := by
  induction bs with
  | nil => rfl
  | cons b bs ih =>
    have : symTerm m b = symTerm m' b := by cases m <;> cases m' <;> rfl
    simp [symLen, this, ih]

/-- at the faulty end of a stream `peek` and `next` return the I/O error, not end of input -/
theorem C06_fault_surfaces (s : St) (h : s.rd.rest = []) (hf : s.rd.faulty = true) :
    peek s = .err .io s ∧ next s = .err .io s := by
  simp [peek, next, h, hf]

/-- without a fault the end of the stream is end of input -/
theorem C06_eof (s : St) (h : s.rd.rest = []) (hf : s.rd.faulty = false) :
    peek s = .ok none s ∧ next s = .ok none s := by
  simp [peek, next, h, hf]

/-- `next` returns the same byte and leaves the same remaining input for every source -/
theorem C06_next_mode (s : St) (b : UInt8) (bs : List UInt8) (h : s.rd.rest = b :: bs) :
    ∃ s', next s = .ok (some b) s' ∧ s'.rd.rest = bs ∧ s'.depth = s.depth ∧ s'.rd.mode = s.rd.mode := by
  refine ⟨{ s with rd := s.rd.consume 1 }, by simp [next, h], ?_, rfl, ?_⟩ <;>
    simp [Rd.consume, h]

/-- an I/O error is in the I/O category, never EOF or syntax -/
theorem C06_io_category : Err.io.category = .io := rfl

/-- **C06_read_errors_surface** (the read-error clause of the property): over any history of calls on
    one parser, each item a failing stream yields is either the I/O error or exactly the item the
    fault-free stream yields at that position; a fault never produces a value, `None` or an EOF error. -/
theorem C06_read_errors_surface (cfg : Cfg) (ops : List Op) (pre tail : List UInt8) :
    FaultHist (runHistory cfg ops (initSt .io (pre ++ tail))) (runHistory cfg ops (initSt .io pre true)) :=
  C06_fault_history cfg ops pre tail

example : symLen .io (asc "abc def") = 3 ∧ symLen .slice (asc "abc def") = 3 := by decide

end Parse
end Lexpr
