/-
  C06 — str, slice and stream input give the same result; read errors surface.
  The simulation between sources over the whole parser is in LexprModel/Proofs/Sources.lean (when
  present).  Proved here: the two hand-duplicated symbol scanners stop at the same bytes; a read
  fault surfaces as an I/O error from the primitives and is never reported as end of input; the
  slice and stream readers consume identically.
-/
import LexprModel.Lex
namespace Lexpr
namespace Parse

/-- the slice scanner and the stream scanner have the same terminator set -/
theorem C06_symTerm_eq (b : UInt8) : symTermSlice b = symTermIo b := rfl

theorem C06_symLen_mode (m m' : Mode) (bs : List UInt8) : symLen m bs = symLen m' bs := by
  induction bs with
  | nil => rfl
  | cons b bs ih =>
    have : symTerm m b = symTerm m' b := by cases m <;> cases m' <;> rfl
    simp [symLen, this, ih]

/-- at the faulty end of a stream `peek` and `next` return the I/O error, not end of input -/
theorem C06_fault_surfaces (s : St) (h : s.rd.rest = []) (hf : s.rd.faulty = true) :
    peek s = .err .io s ∧ next s = .err .io s := by
  simp [peek, next, h, hf]

/-- without a fault the end of the stream is end of input -/
theorem C06_eof (s : St) (h : s.rd.rest = []) (hf : s.rd.faulty = false) :
    peek s = .ok none s ∧ next s = .ok none s := by
  simp [peek, next, h, hf]

/-- `next` returns the same byte and leaves the same remaining input for every source -/
theorem C06_next_mode (s : St) (b : UInt8) (bs : List UInt8) (h : s.rd.rest = b :: bs) :
    ∃ s', next s = .ok (some b) s' ∧ s'.rd.rest = bs ∧ s'.depth = s.depth ∧ s'.rd.mode = s.rd.mode := by
  refine ⟨{ s with rd := s.rd.consume 1 }, by simp [next, h], ?_, rfl, ?_⟩ <;>
    simp [Rd.consume, h]

/-- an I/O error is in the I/O category, never EOF or syntax -/
theorem C06_io_category : Err.io.category = .io := rfl

example : symLen .io (asc "abc def") = 3 ∧ symLen .slice (asc "abc def") = 3 := by decide

end Parse
end Lexpr
