/-
  C08 — each parser option changes exactly the tokens it governs.

  Proved for every option set (LexprModel/Proofs/Tokens.lean, imported here), on whole tokens
  (a run of non-terminator bytes followed by a terminator or the end of input):
   * `C08_letter`, `C08_nil`, `C08_t`, `C08_colon_postfix` with their frame lemmas: a letter-initial
     token is a postfix keyword / nil / t / symbol exactly as the three options `kwPostfix`, `nil`, `t`
     say, and no other option is consulted (`C08_frame_letter`);
   * `C08_colon_prefix`: `:name` is a keyword iff the colon-prefix spelling is enabled;
   * `C08_punct`, `C08_frame_punct`: `(`, `'`, `` ` ``, `,`, `,@` consult no option and expand to the
     fixed shorthand names; `C08_bracket`: `[` consults only `brackets`; `C08_frame_string`: `"` only
     `string`; `C08_elisp_char`, `C08_frame_qmark`: `?c` is a character only under Emacs character
     syntax (else a symbol, where only `kwPostfix` matters); `C08_hash_percent`: `#%name` only with
     the Racket option; `C08_digit`, `C08_frame_digit`: a digit-initial token under leading-digit
     symbols is a number only if the whole token is a numeric literal (`wholeNumber`);
   * `C08_quote_shorthand`: the shorthands expand to two-element lists headed by quote, quasiquote,
     unquote, unquote-splicing.
  Builder API of `parse::Options` (LexprModel/Proofs/Builder.lean, imported here; tied to the code by the
  `opts` operations: every chain of at most two builder calls from `new()`, `default()`, `elisp()`, and
  random longer chains, observed through the getters AND through the reader's behaviour on one probe
  token per option): `builder_frame` — a `with_*` call changes its own option and no other;
  `builder_commute`, `builder_last_wins`, `builder_addKeyword` (accumulates), `builder_setKeywords`
  (replaces), `builder_elisp`/`builder_default` (the presets are the documented chains),
  `builder_reachable` (all 1536 option sets are reachable).
  The remaining token classes (LexprModel/Proofs/Tokens2.lean, NumberEnd.lean; imported here):
   * `C08_sign`, `C08_sign_keyword`, `C08_sign_number(_only)`, `C08_frame_sign(_any)`: a sign-initial token is a
     symbol when the byte after the sign is the end, a delimiter, a sign-subsequent or a dot not followed by a
     digit — a postfix keyword exactly when it ends in `:` and that spelling is enabled — the error
     InvalidNumber for sign-dot-digit (`+.5`), otherwise whatever the number scanner makes of the whole token;
     no option is consulted unless the token ends in `:`;
   * `C08_nonascii(_keyword)`, `C08_frame_nonascii`: a token whose first scalar is non-ASCII is a symbol (or
     postfix keyword) iff that scalar is alphabetic, else ExpectedSomeValue, under every option set;
   * `C08_octothorpe_keyword`, `C08_frame_octothorpe`: `#:name` is the keyword iff the `#:` spelling is enabled,
     otherwise the error ExpectedSomeIdent reported behind `#:`; `C08_hash_fixed`: every other `#` token
     (`#t #f #nil #( #u8 #vu8 #\ #x #b #o #d`, junk) consults no option at all;
   * `C08_number_delimited`: whenever ANY token is read as a number the reader has stopped at the end of the
     input or in front of a delimiter — a token is a number only as a whole.
   * `C08_number_whole_token` (LexprModel/Spec/NumericLiteral.lean, Proofs/NumberWhole*.lean; imported here):
     whenever a token is read as a number, the bytes consumed are exactly a numeric literal of the C05 grammar
     (`numericLiteralShape`, a small decidable recogniser) and the reader stopped at the end of the input or in
     front of a delimiter — the clause "a token is read as a number only if the whole token is a numeric
     literal" in full, for every option set (the leading-digit path through `wholeNumber` included), both
     builds, all sources.
  The frame clause for whole inputs (LexprModel/Spec/Exercised.lean, Proofs/FrameTok.lean, Frame.lean, DepthInd.lean,
  ScanBase.lean, FrameScan.lean; imported here): `tokenOpts` names, per token, the options its reading may
  consult; `exercised cfg mode bytes` collects them over one flat scan of the input; **`C08_frame`** — two
  configurations of the same build that agree on every option in `exercised c1 mode bytes` give the same
  outcome of `from_str / from_slice / from_reader` on `bytes`: same value, or same error code and position,
  and the same final state — for every input (well-formed or not), every source, all 1536 x 1536 pairs.
  (`C08_frame_op` is the exact operational version; the flat scan over-approximates it: witnesses in FrameScan.)
  Observations kept as kernel-checked examples there: `#true` / `#false` are not single tokens (`(#true)` reads
  as `(#t rue)`), `+.5` is InvalidNumber while `+.x` is a symbol, `"` and `|` end numbers but not symbols.
-/
import LexprModel.Proofs.Tokens
import LexprModel.Proofs.Builder
import LexprModel.Proofs.FrameScan
import LexprModel.Proofs.NumberEnd
import LexprModel.Proofs.NumberWhole
namespace Lexpr
namespace Parse

/-- otherwise the token is the symbol itself, whatever the other nine options are -/
theorem C08_symbol_token_frame (o o' : Options) (name : List UInt8) (h : o.kwPostfix = o'.kwPostfix) :
    symbolToken o name = symbolToken o' name := by
  simp [symbolToken, h]

theorem C08_symbol_token_off (o : Options) (name : List UInt8) (h : o.kwPostfix = false) :
    symbolToken o name = .symbol name := by simp [symbolToken, h]

/-- the four shorthands always expand to these head symbols -/
theorem C08_quote_names :
    Quote.quote.name = asc "quote" ∧ Quote.quasiquote.name = asc "quasiquote" ∧
    Quote.unquote.name = asc "unquote" ∧ Quote.unquoteSplicing.name = asc "unquote-splicing" := by
  refine ⟨rfl, rfl, rfl, rfl⟩

/-- **C08_builder_frame**: setting one parser option through the builder API leaves every other
    option as it was — the premise of "each option changes exactly the tokens it names". -/
theorem C08_builder_frame (o : Options) (st : Setter) (f : Field) (h : f ≠ st.field) :
    (o.set st).get f = o.get f := builder_frame o st f h

/-- every parser option set the properties quantify over is constructible through the public API -/
theorem C08_every_option_set (r : Options) : ∃ ops, Options.build Options.new ops = r :=
  builder_reachable r

end Parse
end Lexpr
