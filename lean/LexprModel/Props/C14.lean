/-
  C14 — serialization produces the documented S-expression shapes.
  (Acceptance and rejection clauses and the typed round trip: LexprModel/Proofs/SerdeRT.lean.)
  Fully proved in LexprModel/Proofs/SerdeRT.lean (imported here): `C14_shape_seq`, `C14_shape_tuple`,
  `C14_shape_struct`, `C14_shape_option`, `C14_shape_unit_variant`, `C14_shape_int`, and the acceptance
  clause: `C14_accept_vector_for_seq`, `C14_accept_list_for_tuple(_variant)`, `C14_reject_improper_seq`,
  `C14_reject_improper_tuple`, and — after the repair of `VariantAccess::tuple_variant` (it now calls
  `deserialize_tuple`, so an improper tail beyond the last item is seen) — `C14_reject_improper_tuple_variant`
  (`_de` at the entry point) with `C14_tuple_variant_surplus` (a proper over-long payload is still accepted).
-/
import LexprModel.Proofs.SerdeRT
namespace Lexpr
namespace Serde

/-- every integer is serialised as the integer of the same mathematical value, in normal form -/
theorem C14_int_value (w : IntTy) (n : Int) (h : w.lo ≤ n ∧ n ≤ w.hi) :
    serInt w n = .number (if n ≥ 0 then .pos n.toNat else .neg n) := by
  cases w <;> simp only [serInt, Number.ofSigned, Number.ofUnsigned] <;> (try rfl)
  · -- u64
    have : n ≥ 0 := by simpa [IntTy.lo] using h.1
    simp [this]

theorem C14_int_accessors (w : IntTy) (n : Int) (h : w.lo ≤ n ∧ n ≤ w.hi) :
    (serInt w n).asI64 = (if n ≤ i64Max then some n else none) ∧
    (serInt w n).asU64 = (if n ≥ 0 then some n.toNat else none) := by
  rw [C14_int_value w n h]
  by_cases hn : n ≥ 0
  · simp only [hn, ↓reduceIte, Value.asI64, Value.asU64, Value.asNumber, Option.bind, Number.asI64,
      Number.asU64]
    have : ((n.toNat : Nat) : Int) = n := Int.toNat_of_nonneg hn
    simp [this]
  · have hlo : i64Min ≤ n := by
      have := h.1; cases w <;> simp [IntTy.lo, i64Min] at * <;> omega
    simp only [hn, ↓reduceIte, Value.asI64, Value.asU64, Value.asNumber, Option.bind, Number.asI64,
      Number.asU64]
    have : n ≤ i64Max := by unfold i64Max; omega
    simp [this]

/-- None is the empty list, Some(x) a one-element list -/
theorem C14_option (t : Ty) (d : Data) :
    ser (.option t) .none = some .null ∧
    ser (.option t) (.some d) = (ser t d).map fun v => .cons v .null := by
  constructor <;> simp [ser]

/-- unit and unit structs are the empty list; newtype structs are their content -/
theorem C14_unit_newtype (t : Ty) (d : Data) :
    ser .unit .unit = some .null ∧ ser .unitStruct .unit = some .null ∧
    ser (.newtypeStruct t) d = ser t d := by
  refine ⟨by simp [ser], by simp [ser], by simp [ser]⟩

/-- chars are characters, strings strings, byte buffers byte vectors, booleans booleans -/
theorem C14_atoms (c : Nat) (s b : List UInt8) (x : Bool) :
    ser .char (.char c) = some (.char c) ∧ ser .str (.str s) = some (.string s) ∧
    ser .bytes (.bytes b) = some (.bytes b) ∧ ser .bool (.bool x) = some (.bool x) := by
  refine ⟨by simp [ser], by simp [ser], by simp [ser], by simp [ser]⟩

/-- sequences and sets are proper lists, tuples and tuple structs vectors -/
theorem C14_seq_tuple (t : Ty) (ts : TyList) (ds : List Data) (v : Value) :
    (ser (.seq t) (.seq ds) = some v → v.isList = true) ∧
    (ser (.set t) (.seq ds) = some v → v.isList = true) ∧
    (ser (.tuple ts) (.seq ds) = some v → v.isVector = true) ∧
    (ser (.tupleStruct ts) (.seq ds) = some v → v.isVector = true) := by
  have hl : ∀ xs : List Value, (Value.list xs).isList = true := by
    intro xs
    have h : ∀ xs : List Value, Value.isList.isListTail (Value.append xs .null) = true := by
      intro xs; induction xs with
      | nil => simp [Value.append, Value.isList.isListTail]
      | cons x xs ih => simp [Value.append, Value.isList.isListTail, ih]
    cases xs with
    | nil => simp [Value.list, Value.append, Value.isList]
    | cons x xs => simp [Value.list, Value.append, Value.isList, h]
  refine ⟨?_, ?_, ?_, ?_⟩ <;> intro h <;> simp only [ser, Option.map_eq_some_iff] at h <;>
    obtain ⟨xs, _, rfl⟩ := h
  · exact hl xs
  · exact hl xs
  · rfl
  · rfl

/-- unit variants are symbols; newtype variants `(name . payload)`;
    tuple variants `(name item...)`; struct variants `(name (field . value)...)` -/
theorem C14_variants (name : List UInt8) (vs : VariantList) (t : Ty) (ts : TyList) (fs : FieldList)
    (p : Data) (ds : List Data) :
    serVariant (.cons name .unit vs) 0 .unit = some (.symbol name) ∧
    serVariant (.cons name (.newtype t) vs) 0 p = (ser t p).map (fun v => .cons (.symbol name) v) ∧
    serVariant (.cons name (.tuple ts) vs) 0 (.seq ds) =
      (serTuple ts ds).map (fun xs => .cons (.symbol name) (Value.list xs)) ∧
    serVariant (.cons name (.struct fs) vs) 0 (.seq ds) =
      (serFields fs ds).map (fun xs => .cons (.symbol name) (Value.list xs)) := by
  refine ⟨by simp [serVariant], ?_, by simp [serVariant], by simp [serVariant]⟩
  cases p <;> simp [serVariant]

/-- struct fields are `(name . value)` cells with the field name as a symbol, in declaration order -/
theorem C14_struct_field (n : List UInt8) (t : Ty) (fs : FieldList) (d : Data) (ds : List Data) :
    serFields (.cons n t fs) (d :: ds) =
      (ser t d).bind fun v => (serFields fs ds).map fun vs => Value.cons (.symbol n) v :: vs := by
  simp only [serFields]
  cases ser t d <;> simp
  cases serFields fs ds <;> simp

/-- the rejection clause for the items of a tuple variant: `(name x… . tl)` with a non-list tail is a
    data error, however many items there are (restated from LexprModel/Proofs/SerdeRT.lean) -/
theorem C14_reject_improper_tuple_variant' (vs : VariantList) (name : List UInt8) (j : Nat) (ts : TyList)
    (h : vs.find name 0 = some (j, .tuple ts))
    (xs : List Value) (hxs : xs ≠ []) (tl : Value) (hnull : tl.isNull = false) (hcons : tl.isCons = false) :
    de (.enum vs) (.cons (.symbol name) (Value.append xs tl)) = .dataErr :=
  C14_reject_improper_tuple_variant_de vs name j ts h xs hxs tl hnull hcons

example : ser (.tuple (.cons (.int .u8) (.cons .str .nil))) (.seq [.int 1, .str [116]]) =
    some (.vector [.number (.pos 1), .string [116]]) := by
  simp [ser, serTuple, serInt, Number.ofSigned]

end Serde
end Lexpr
