/-
  C12 — datum sequences: concatenation, trivia insensitivity, terminating iteration.

  Fully proved (LexprModel/Proofs/Progress.lean, imported here), for every configuration and state:
   * `rest_suffix`: every call only consumes input (the remaining input is a suffix of what it was);
   * `C12_progress`: every successful item and every syntax error of `next_value` / `next_datum`
     strictly consumes input; `C12_none_at_end`: `None` is returned only at the end of the input;
   * `C12_terminates`: iterating next_value, next_datum, value_iter, datum_iter or Iterator for Parser on
     a non-failing source yields at most `length` items followed by the end marker — no fuel, no I/O
     item, the cap is never what stops it; `io_error_faulty`: an I/O error implies a failing source.
  (Agreement of the four iteration styles: `C10_streams` in Props/C10.)
  Fully proved (LexprModel/Proofs/Trivia.lean with TriviaBase, TriviaBytes, TriviaRel; imported here;
  namespace Lexpr.Parse.ListRT), the trivia clause at parser level: `TV p ryu v t` — `t` is the text
  the printer `p` writes for `v` with an arbitrary trivia string (whitespace bytes and complete line
  comments) inserted at every token boundary, non-empty where the printer writes a space, also
  inside byte vectors; `trivia_structure`, `C12_trivia`, `C12_trivia_plain`, `C12_trivia_eq`,
  `C12_trivia_printT`: for every compatible printer/parser option pair and every value plain for
  the pair, every trivia variant (with leading trivia and a possibly unterminated final comment)
  reads as the same value as the plain text — inserting or changing trivia never changes a value.
  Fully proved (LexprModel/Proofs/Concat.lean with ConcatBase, ConcatDatum, ConcatSources, ConcatTrivia;
  imported here; namespace Lexpr.Parse.Concat), the concatenation clause: `C12_concat` — for every
  compatible printer/parser pair, any list of values plain for the pair, leading trivia, trivia
  separators (`SepsOK`: a separator may be empty only at the very start, after a pair / vector / `()`
  or before a text starting with a delimiter — `empty_separator_merges`, `octothorpe_vector_needs_separator`
  and `string_after_symbol_needs_separator` show the restriction is needed) and final trivia whose last
  comment may lack its newline: `next_value` loop, `value_iter` and `Iterator for Parser` yield exactly the
  (folded) values in order, then end of input on every further call, with the depth budget back at 128
  and the unread input after the i-th call exactly the text after the i-th value;
  `C12_concat_default` (default options: the values themselves), `C12_concat_datum` (`next_datum`,
  `datum_iter`), `C12_concat_io`, `C12_concat_str` (stream and &str sources), `C12_concat_trivia`
  (each value written with arbitrary trivia inside, combining both clauses).
  Proved here in addition: the lexer-level trivia theorem — any string of whitespace and complete line comments
  in front of a token is skipped entirely, whatever it contains — and that every trivia byte ends a
  symbol in both symbol scanners (the defect class behind `foo<FF>bar`).
-/
import LexprModel.Proofs.Progress
import LexprModel.Proofs.Trivia
import LexprModel.Proofs.ConcatSources
import LexprModel.Proofs.ConcatTrivia
import LexprModel.Proofs.ConcatDatum
import LexprModel.Proofs.FloatApproxConcat
namespace Lexpr
namespace Parse

/-- Trivia: whitespace bytes and complete comments `; … \n`. -/
inductive Trivia : List UInt8 → Prop where
  | nil : Trivia []
  | ws (b : UInt8) (t : List UInt8) : isTrivia b = true → Trivia t → Trivia (b :: t)
  | comment (body t : List UInt8) : (∀ x ∈ body, x ≠ 10) → Trivia t → Trivia (59 :: (body ++ 10 :: t))

theorem commentLen_body (body rest : List UInt8) (h : ∀ x ∈ body, x ≠ 10) :
    commentLen (body ++ 10 :: rest) = body.length + 1 + wsLen rest := by
  induction body with
  | nil => simp [commentLen]; omega
  | cons b bs ih =>
    have hb : b ≠ 10 := h b (by simp)
    have : (b == 10) = false := by simpa using hb
    simp only [List.cons_append, commentLen, this, Bool.false_eq_true, ↓reduceIte, List.length_cons]
    rw [ih (fun x hx => h x (by simp [hx]))]
    omega

/-- **C12_trivia_skipped**: trivia in front of any input is skipped as a whole. -/
theorem C12_trivia_skipped (tr rest : List UInt8) (h : Trivia tr) :
    wsLen (tr ++ rest) = tr.length + wsLen rest := by
  induction h with
  | nil => simp
  | ws b t hb _ ih =>
    have hne : (b == 59) = false := by
      cases hc : (b == 59)
      · rfl
      · have : b = 59 := by simpa using hc
        subst this; simp [isTrivia] at hb
    simp only [List.cons_append, wsLen, hne, Bool.false_eq_true, ↓reduceIte, hb, List.length_cons]
    omega
  | comment body t hbody _ ih =>
    simp only [List.cons_append, List.append_assoc, wsLen, beq_self_eq_true, ↓reduceIte,
      List.length_cons, List.length_append]
    rw [commentLen_body body (t ++ rest) hbody, ih]
    omega

/-- a final comment without a newline, at the very end of the input, is skipped too -/
theorem C12_final_comment (body : List UInt8) (h : ∀ x ∈ body, x ≠ 10) :
    wsLen (59 :: body) = body.length + 1 := by
  have : commentLen body = body.length := by
    induction body with
    | nil => rfl
    | cons b bs ih =>
      have hb : (b == 10) = false := by simpa using h b (by simp)
      simp [commentLen, hb, ih (fun x hx => h x (by simp [hx]))]
  simp [wsLen, this]

/-- every trivia byte and the comment character end a symbol, in both scanners -/
theorem C12_trivia_terminates_symbols (b : UInt8) (h : isTrivia b = true ∨ b = 59) :
    symTermSlice b = true ∧ symTermIo b = true := by
  rcases h with h | h
  · simp only [isTrivia, Bool.or_eq_true, beq_iff_eq] at h
    rcases h with (((h | h) | h) | h) | h <;> subst h <;> decide
  · subst h; decide

/-- the trivia of this file and of `Proofs/Trivia.lean` are the same strings -/
theorem trivia_iff (t : List UInt8) : Trivia t ↔ ListRT.Triv t := by
  constructor
  · intro h; induction h with
    | nil => exact .nil
    | ws b t hb _ ih => exact .ws b t hb ih
    | comment body t hb _ ih => exact .comment body t hb ih
  · intro h; induction h with
    | nil => exact .nil
    | ws b t hb _ ih => exact .ws b t hb ih
    | comment body t hb _ ih => exact .comment body t hb ih

/-- **C12_trivia_insensitive** (the trivia clause of the property): for every compatible
    printer/parser option pair, every value that is plain for the pair (nesting at most 127), every
    assignment `τ` of trivia strings to the token boundaries of its printed text, any leading trivia and
    any final trivia (whose last comment may lack its newline): parsing the text with trivia gives
    exactly what parsing the printed text gives, namely the (folded) value. -/
theorem C12_trivia_insensitive (cfg : Cfg) (p : Print.Options) (ryu : Nat → List UInt8)
    (hc : Spec.Compatible p cfg.opts = true) (v : Value) (h : ListRT.AllPlainFor p cfg v)
    (hn : ListRT.nestingP p v ≤ 127) (τ : Nat → List UInt8) (hτ : ∀ i, Trivia (τ i))
    (lead trail : List UInt8) (hl : Trivia lead) (ht : ListRT.TrivEnd trail) :
    ListRT.okValue (fromTrait cfg (initSt .slice (lead ++ (ListRT.textT τ p ryu v ++ trail)))) =
      ListRT.okValue (fromTrait cfg (initSt .slice (Print.text p ryu v))) ∧
    ListRT.okValue (fromTrait cfg (initSt .slice (lead ++ (ListRT.textT τ p ryu v ++ trail)))) =
      some (Spec.fold p cfg.opts v) :=
  ListRT.C12_trivia_printT cfg p ryu hc v h hn τ (fun i => (trivia_iff _).1 (hτ i)) lead trail
    ((trivia_iff _).1 hl) ht

/-- **C12_concatenation** (the concatenation clause of the property, default dialect): parsing the
    concatenation of printed values separated by trivia yields exactly those values, in order, then end
    of input — by the `next_value` loop, `value_iter` or `Iterator for Parser` alike. -/
theorem C12_concatenation (cfg : Cfg) (ho : cfg.opts = Parse.Options.default) (ryu : Nat → List UInt8)
    (op : Op) (hop : Concat.ValueOp op) (items : List (List UInt8 × Value)) (tEnd : List UInt8)
    (hall : ∀ it ∈ items, ListRT.AllPlainFor Print.Options.default cfg it.2 ∧
      ListRT.nestingP Print.Options.default it.2 ≤ 127)
    (hs : Concat.SepsOK Print.Options.default ryu true items) (hE : Concat.TriviaEnd tEnd) :
    iterate cfg op (items.length + 1)
        (initSt .slice (Concat.concatText Print.Options.default ryu items ++ tEnd)) =
      items.map (fun it => Item.value it.2) ++ [.none_] :=
  (Concat.C12_concat_default cfg ho ryu op hop items tEnd hall hs hE).1 (items.length + 1) (Nat.le_refl _)

example : Trivia (asc " \t;c (\n\x0c") := by
  refine .ws 32 _ (by decide) (.ws 9 _ (by decide) ?_)
  exact .comment (asc "c (") (asc "\x0c") (by decide) (.ws 12 _ (by decide) .nil)

end Parse
end Lexpr
