/-
  C12 — datum sequences: concatenation, trivia insensitivity, terminating iteration.

  Fully proved (LexprModel/Proofs/Progress.lean, imported here), for every configuration and state:
   * `rest_suffix`: every call only consumes input (the remaining input is a suffix of what it was);
   * `C12_progress`: every successful item and every syntax error of `next_value` / `next_datum`
     strictly consumes input; `C12_none_at_end`: `None` is returned only at the end of the input;
   * `C12_terminates`: iterating next_value, next_datum, value_iter, datum_iter or Iterator for Parser on
     a non-failing source yields at most `length` items followed by the end marker — no fuel, no I/O
     item, the cap is never what stops it; `io_error_faulty`: an I/O error implies a failing source.
  (Agreement of the four iteration styles: `C10_streams` in Props/C10.)
  Proved here in addition: the lexer-level trivia theorem — any string of whitespace and complete line comments
  in front of a token is skipped entirely, whatever it contains — and that every trivia byte ends a
  symbol in both symbol scanners (the defect class behind `foo<FF>bar`).
-/
import LexprModel.Proofs.Progress
namespace Lexpr
namespace Parse

/-- Trivia: whitespace bytes and complete comments `; … \n`. -/
inductive Trivia : List UInt8 → Prop where
  | nil : Trivia []
  | ws (b : UInt8) (t : List UInt8) : isTrivia b = true → Trivia t → Trivia (b :: t)
  | comment (body t : List UInt8) : (∀ x ∈ body, x ≠ 10) → Trivia t → Trivia (59 :: (body ++ 10 :: t))

theorem commentLen_body (body rest : List UInt8) (h : ∀ x ∈ body, x ≠ 10) :
    commentLen (body ++ 10 :: rest) = body.length + 1 + wsLen rest := by
  induction body with
  | nil => simp [commentLen]; omega
  | cons b bs ih =>
    have hb : b ≠ 10 := h b (by simp)
    have : (b == 10) = false := by simpa using hb
    simp only [List.cons_append, commentLen, this, Bool.false_eq_true, ↓reduceIte, List.length_cons]
    rw [ih (fun x hx => h x (by simp [hx]))]
    omega

/-- **C12_trivia_skipped**: trivia in front of any input is skipped as a whole. -/
theorem C12_trivia_skipped (tr rest : List UInt8) (h : Trivia tr) :
    wsLen (tr ++ rest) = tr.length + wsLen rest := by
  induction h with
  | nil => simp
  | ws b t hb _ ih =>
    have hne : (b == 59) = false := by
      cases hc : (b == 59)
      · rfl
      · have : b = 59 := by simpa using hc
        subst this; simp [isTrivia] at hb
    simp only [List.cons_append, wsLen, hne, Bool.false_eq_true, ↓reduceIte, hb, List.length_cons]
    omega
  | comment body t hbody _ ih =>
    simp only [List.cons_append, List.append_assoc, wsLen, beq_self_eq_true, ↓reduceIte,
      List.length_cons, List.length_append]
    rw [commentLen_body body (t ++ rest) hbody, ih]
    omega

/-- a final comment without a newline, at the very end of the input, is skipped too -/
theorem C12_final_comment (body : List UInt8) (h : ∀ x ∈ body, x ≠ 10) :
    wsLen (59 :: body) = body.length + 1 := by
  have : commentLen body = body.length := by
    induction body with
    | nil => rfl
    | cons b bs ih =>
      have hb : (b == 10) = false := by simpa using h b (by simp)
      simp [commentLen, hb, ih (fun x hx => h x (by simp [hx]))]
  simp [wsLen, this]

/-- every trivia byte and the comment character end a symbol, in both scanners -/
theorem C12_trivia_terminates_symbols (b : UInt8) (h : isTrivia b = true ∨ b = 59) :
    symTermSlice b = true ∧ symTermIo b = true := by
  rcases h with h | h
  · simp only [isTrivia, Bool.or_eq_true, beq_iff_eq] at h
    rcases h with (((h | h) | h) | h) | h <;> subst h <;> decide
  · subst h; decide

example : Trivia (asc " \t;c (\n\x0c") := by
  refine .ws 32 _ (by decide) (.ws 9 _ (by decide) ?_)
  exact .comment (asc "c (") (asc "\x0c") (by decide) (.ws 12 _ (by decide) .nil)

end Parse
end Lexpr
