/-
  C15 — list construction, traversal, conversion and indexing are consistent.
  Reference model: an element sequence `xs` and a tail `t` that is not a pair (a pair tail merges
  into the chain: `append_merge`).  Every theorem is for all `xs`, `t`, indices and keys.

  The implementations themselves (LexprModel/ConsOps.lean: `Value::append` as written with
  `set_cdr` / `cdr_mut` / `as_cons_mut().unwrap()`, the `to_vec` / `into_vec` loops with their
  `unreachable!()`, the iterator state machines with `peek` / `peek_mut` / `is_empty`, the
  mutators `set_car` / `set_cdr` / `car_mut` / `cdr_mut` / `into_pair`, and the hand-written
  `Clone` / `PartialEq` loops of `Cons` and of a datum's span information) are proved against the
  functional definitions used below in LexprModel/Proofs/ConsOps*.lean (they import this file; built and
  audited with this property as module Proofs.ConsOpsAll; namespace Lexpr.ConsOps): `appendImpl_eq`, `toVec_impl_eq`, `intoVec_impl_eq`,
  `clone_eq` (the clone is the value itself, no panic site reachable), `eqLoop_iff` (the hand-written
  `==` is the structural comparison, IEEE on floats), `setCarAt_ref` / `setCdrAt_ref` and
  `after_setCar_*` / `after_setCdr_*` (what every traversal of this file sees after a store into
  cell i), `iter_peek_next`, `intoIter_peek_next`, `listIter_isEmpty_iff`, `script_*` (arbitrary
  scripts of stores and observations).  Tie: the `clone`, `dclone` and `consmut` operations.
-/
import LexprModel.ListOps
namespace Lexpr
namespace Value

/-- A tail that terminates the chain: anything but a pair. -/
def NotCons (t : Value) : Prop := t.isCons = false

/-- A pair tail merges into the chain. -/
theorem C15_append_merge (xs ys : List Value) (t : Value) :
    append xs (append ys t) = append (xs ++ ys) t := by
  induction xs with
  | nil => rfl
  | cons x xs ih => simp [append, ih]

/-- `Cons::to_vec`, `into_vec`, `to_ref_vec` recover `(xs, t)`. -/
theorem C15_to_vec (x : Value) (xs : List Value) (t : Value) (ht : NotCons t) :
    consToVec x (append xs t) = (x :: xs, t) := by
  induction xs generalizing x with
  | nil =>
    cases t <;> simp_all [NotCons, isCons, append, consToVec]
  | cons y ys ih => simp [append, consToVec, ih]

/-- cell iteration visits `|xs|` cells -/
theorem C15_iter_len (x : Value) (xs : List Value) (t : Value) (ht : NotCons t) :
    (consIter x (append xs t)).length = (x :: xs).length := by
  induction xs generalizing x with
  | nil => cases t <;> simp_all [NotCons, isCons, append, consIter]
  | cons y ys ih => simp [append, consIter, ih]

/-- the consuming iterator yields each element once, the tail attached to the last -/
theorem C15_into_iter (x : Value) (xs : List Value) (t : Value) (ht : NotCons t) :
    consIntoIter x (append xs t) =
      ((x :: xs).dropLast.map fun e => (e, none)) ++ [((x :: xs).getLast (by simp), some t)] := by
  induction xs generalizing x with
  | nil => cases t <;> simp_all [NotCons, isCons, append, consIntoIter]
  | cons y ys ih =>
    simp only [append, consIntoIter]
    rw [ih y]
    simp

/-- `Value::to_vec` / `to_ref_vec`: `Some xs` exactly for a proper list. -/
theorem C15_value_to_vec (xs : List Value) (t : Value) (ht : NotCons t) :
    (append xs t).toVec = if t.isNull then some xs else none := by
  cases xs with
  | nil => cases t <;> simp_all [NotCons, isCons, append, toVec, isNull, asNull]
  | cons x xs => simp [append, toVec, C15_to_vec x xs t ht]

/-- the element iterator: `xs`, then for a tail other than the empty list `None, t, None`, then `None` forever -/
theorem C15_list_iter (x : Value) (xs : List Value) (t : Value) (ht : NotCons t) (k : Nat) :
    (ListCursor.cons x (append xs t)).take ((x :: xs).length + 3 + k) =
      (x :: xs).map some ++
        (if t.isNull then List.replicate (3 + k) none
         else [none, some t] ++ List.replicate (1 + k) none) := by
  have hex : ∀ n, ListCursor.take n .exhausted = List.replicate n none := by
    intro n; induction n with
    | zero => rfl
    | succ n ih => simp [ListCursor.take, ListCursor.next, ih, List.replicate_succ]
  induction xs generalizing x with
  | nil =>
    cases t <;> simp_all [NotCons, isCons, isNull, asNull, append, ListCursor.take, ListCursor.next,
      List.replicate_succ, Nat.add_comm]
  | cons y ys ih =>
    have := ih y
    simp only [List.length_cons] at this ⊢
    simp only [append]
    rw [show ys.length + 1 + 1 + 3 + k = (ys.length + 1 + 3 + k) + 1 by omega]
    simp [ListCursor.take, ListCursor.next, this]

/-- positional indexing returns `xs[i]` for `i < |xs|` and `None` beyond, for every `i` -/
theorem C15_index_usize (x : Value) (xs : List Value) (t : Value) (ht : NotCons t) (i : Nat) :
    (cons x (append xs t)).getIdx i = (x :: xs)[i]? := by
  simp only [getIdx]
  induction xs generalizing x i with
  | nil =>
    cases i with
    | zero => simp [getIdx.nth]
    | succ i => cases t <;> simp_all [NotCons, isCons, append, getIdx.nth]
  | cons y ys ih =>
    cases i with
    | zero => simp [getIdx.nth]
    | succ i => simp [append, getIdx.nth, ih]

/-- `ops::Index` returns `xs[i]` or `Nil`. -/
theorem C15_index_op (x : Value) (xs : List Value) (t : Value) (ht : NotCons t) (i : Nat) :
    indexOr ((cons x (append xs t)).getIdx i) = ((x :: xs)[i]?).getD nil := by
  rw [C15_index_usize x xs t ht i]; cases (x :: xs)[i]? <;> rfl

/-- the proper-list and dotted-list predicates are complementary, on every value -/
theorem tail_complementary : ∀ d : Value, isList.isListTail d = !isDottedList.isDottedTail d
  | .cons _ d => by simp [isList.isListTail, isDottedList.isDottedTail, tail_complementary d]
  | .nil | .null | .bool _ | .number _ | .char _ | .string _ | .symbol _ | .keyword _ | .bytes _
  | .vector _ => by simp [isList.isListTail, isDottedList.isDottedTail]

theorem C15_complementary (v : Value) : v.isList = !v.isDottedList := by
  cases v <;> simp [isList, isDottedList, tail_complementary]

/-- `is_list` holds exactly when the terminator is the empty list -/
theorem C15_is_list (xs : List Value) (t : Value) (ht : NotCons t) :
    (append xs t).isList = t.isNull := by
  have h : ∀ xs : List Value, isList.isListTail (append xs t) = t.isNull := by
    intro xs
    induction xs with
    | nil => cases t <;> simp_all [NotCons, isCons, isNull, asNull, append, isList.isListTail]
    | cons y ys ih => simp [append, isList.isListTail, ih]
  cases xs with
  | nil => cases t <;> simp_all [NotCons, isCons, isNull, asNull, append, isList]
  | cons x xs => simp [append, isList, h]

/-- Reference association lookup: the cdr of the first entry that is a pair whose key matches. -/
def refAssoc (p : Value → Bool) : List Value → Option Value
  | [] => none
  | cons k v :: rest => if p k then some v else refAssoc p rest
  | _ :: rest => refAssoc p rest

theorem C15_assoc (p : Value → Bool) (x : Value) (xs : List Value) (t : Value) (ht : NotCons t) :
    assocFind p x (append xs t) = refAssoc p (x :: xs) := by
  induction xs generalizing x with
  | nil =>
    cases x <;> cases t <;> simp_all [NotCons, isCons, append, assocFind, refAssoc] <;>
      split <;> simp_all
  | cons y ys ih =>
    cases x <;> simp [append, assocFind, refAssoc, ih] <;> split <;> simp_all

/-- lookup by name: the first entry whose key is a string, symbol or keyword with that name -/
theorem C15_alist_name (name : List UInt8) (x : Value) (xs : List Value) (t : Value)
    (ht : NotCons t) :
    (cons x (append xs t)).getName name = refAssoc (fun k => k.asName == some name) (x :: xs) := by
  simp [getName, C15_assoc _ x xs t ht]

/-- lookup by value: the first entry whose key equals the given value -/
theorem C15_alist_value (key : Value) (x : Value) (xs : List Value) (t : Value) (ht : NotCons t) :
    (cons x (append xs t)).getKey key = refAssoc (fun k => Value.beq k key) (x :: xs) := by
  simp [getKey, C15_assoc _ x xs t ht]

/-- indexing a value that is not a list never finds anything (and, being total, never panics) -/
theorem C15_index_total (v : Value) (hv : v.isCons = false) (hvec : v.isVector = false)
    (i : Nat) (name : List UInt8) (key : Value) :
    v.getIdx i = none ∧ v.getName name = none ∧ v.getKey key = none := by
  cases v <;> simp_all [isCons, isVector, getIdx, getName, getKey]

/-- Every value decomposes as `append xs t` with `t` not a pair, so the theorems above cover
    every value (non-vacuity of the reference model). -/
theorem C15_decompose : ∀ v : Value, ∃ xs t, NotCons t ∧ v = append xs t
  | .cons a d => by
    obtain ⟨xs, t, ht, hd⟩ := C15_decompose d
    exact ⟨a :: xs, t, ht, by simp [append, hd]⟩
  | .nil => ⟨[], _, by simp [NotCons, isCons], rfl⟩
  | .null => ⟨[], _, by simp [NotCons, isCons], rfl⟩
  | .bool _ => ⟨[], _, by simp [NotCons, isCons], rfl⟩
  | .number _ => ⟨[], _, by simp [NotCons, isCons], rfl⟩
  | .char _ => ⟨[], _, by simp [NotCons, isCons], rfl⟩
  | .string _ => ⟨[], _, by simp [NotCons, isCons], rfl⟩
  | .symbol _ => ⟨[], _, by simp [NotCons, isCons], rfl⟩
  | .keyword _ => ⟨[], _, by simp [NotCons, isCons], rfl⟩
  | .bytes _ => ⟨[], _, by simp [NotCons, isCons], rfl⟩
  | .vector _ => ⟨[], _, by simp [NotCons, isCons], rfl⟩

example : NotCons (Value.number (.pos 7)) ∧
    consToVec (.symbol [97]) (append [.null, .vector []] (.number (.pos 7))) =
      ([.symbol [97], .null, .vector []], .number (.pos 7)) := by
  exact ⟨rfl, C15_to_vec _ _ _ rfl⟩

end Value
end Lexpr
