/-
  C04 — serde round trip.  The typed theorem `C04_value : HasTy t d → de t (ser t d) = ok d` for the whole
  type universe is in LexprModel/Proofs/SerdeRT.lean (when present).  Proved here: the primitive cases
  at every width, and the shape-ambiguous option nestings the quantifier lists.
  Fully proved (LexprModel/Proofs/SerdeRT.lean, imported here): `C04_value` — for every well-formed type
  (distinct field and variant names) and every datum of that type, `de t (ser t d) = ok d`: all integer
  widths, f32 (fixed points of the f32 rounding, `C04_f32_idem`), f64 including NaN bit patterns, options
  (also `Option<Option<T>>`, `Option<()>`), sequences, sets, tuples, maps, structs, unit / newtype /
  tuple structs, enums with the four variant kinds, nested arbitrarily; witnesses show each hypothesis
  is needed.  The text path composes this with C01 (floats to the accuracy of C05).
-/
import LexprModel.Proofs.SerdeRT
namespace Lexpr
namespace Serde

/-- integers of all eight widths, at every value of the width -/
theorem C04_int (w : IntTy) (n : Int) (h : w.lo ≤ n ∧ n ≤ w.hi) :
    de (.int w) (serInt w n) = .ok (.int n) := by
  by_cases hn : n ≥ 0
  · have hcast : ((n.toNat : Nat) : Int) = n := Int.toNat_of_nonneg hn
    cases w <;>
      simp only [serInt, Number.ofSigned, Number.ofUnsigned, hn, ↓reduceIte, de, deNumber, hcast] <;>
      simp [h.2]
  · have hlt : n < 0 := by omega
    cases w <;>
      first
      | (simp only [IntTy.lo] at h; omega)
      | (simp only [serInt, Number.ofSigned, hn, ↓reduceIte, de, deNumber]; simp [h.1, h.2])

theorem C04_float (b : Nat) : de .f64 (.number (.flt b)) = .ok (.float b) := by simp [de, deNumber]

theorem C04_atoms (c : Nat) (s y : List UInt8) (x : Bool) :
    de .char (.char c) = .ok (.char c) ∧ de .str (.string s) = .ok (.str s) ∧
    de .bytes (.bytes y) = .ok (.bytes y) ∧ de .bool (.bool x) = .ok (.bool x) ∧
    de .unit .null = .ok .unit ∧ de .unitStruct .null = .ok .unit := by
  refine ⟨by simp [de], by simp [de], by simp [de], by simp [de], by simp [de], by simp [de]⟩

/-- Option<T> given the round trip of T -/
theorem C04_option (t : Ty) (d : Data) (v : Value) (hs : ser t d = some v) (hd : de t v = .ok d) :
    (∃ v', ser (.option t) (.some d) = some v' ∧ de (.option t) v' = .ok (.some d)) ∧
    de (.option t) .null = .ok .none := by
  refine ⟨⟨.cons v .null, by simp [ser, hs], ?_⟩, by simp [de]⟩
  simp only [de, hd]; rfl

/-- Option<Option<u8>>: None, Some(None) and Some(Some(x)) serialise to three different values
    and each reads back as itself -/
theorem C04_option_option (x : Int) (h : 0 ≤ x ∧ x ≤ 255) :
    let t := Ty.option (.option (.int .u8))
    ser t .none = some .null ∧ de t .null = .ok .none ∧
    ser t (.some .none) = some (.cons .null .null) ∧ de t (.cons .null .null) = .ok (.some .none) ∧
    ser t (.some (.some (.int x))) = some (.cons (.cons (serInt .u8 x) .null) .null) ∧
    de t (.cons (.cons (serInt .u8 x) .null) .null) = .ok (.some (.some (.int x))) := by
  have hx := C04_int .u8 x (by simpa [IntTy.lo, IntTy.hi] using h)
  refine ⟨by simp [ser], by simp [de], by simp [ser], ?_, by simp [ser], ?_⟩
  · simp only [de]; rfl
  · simp only [de, hx]; rfl

/-- Option<()>: Some(()) is `(())`, distinct from None `()` -/
theorem C04_option_unit :
    ser (.option .unit) (.some .unit) = some (.cons .null .null) ∧
    de (.option .unit) (.cons .null .null) = .ok (.some .unit) ∧
    de (.option .unit) .null = .ok .none := by
  refine ⟨by simp [ser], ?_, by simp [de]⟩
  simp only [de]; rfl

example : de (.int .u64) (serInt .u64 18446744073709551615) = .ok (.int 18446744073709551615) :=
  C04_int .u64 _ (by simp [IntTy.lo, IntTy.hi])

end Serde
end Lexpr
