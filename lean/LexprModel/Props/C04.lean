/-
  C04 — serde round trip.  The typed theorem `C04_value : HasTy t d → de t (ser t d) = ok d` for the whole
  type universe is in LexprModel/Proofs/SerdeRT.lean (when present).  Proved here: the primitive cases
  at every width, and the shape-ambiguous option nestings the quantifier lists.
  Fully proved (LexprModel/Proofs/SerdeRT.lean, imported here): `C04_value` — for every well-formed type
  (distinct field and variant names) and every datum of that type, `de t (ser t d) = ok d`: all integer
  widths, f32 (fixed points of the f32 rounding, `C04_f32_idem`), f64 including NaN bit patterns, options
  (also `Option<Option<T>>`, `Option<()>`), sequences, sets, tuples, maps, structs, unit / newtype /
  tuple structs, enums with the four variant kinds, nested arbitrarily; witnesses show each hypothesis
  is needed.
  Text path, fully proved (LexprModel/Proofs/SerdeText.lean, imported here): `C04_ser_leaves`,
  `C04_ser_supported` — every value the serializer produces has only round-trippable leaves (given plain
  field and variant names, valid strings, scalar chars, exactly readable floats) and nests at most
  `depthOf t d` deep; `C04_text`, `C04_text_identity` — Rust data -> `to_string` -> `from_str` /
  `from_slice` / `from_reader` -> Rust data is the identity, for the whole type universe;
  `C04_text_unicode` (names with a non-ASCII alphabetic initial).  Witnesses that each hypothesis is
  needed, all confirmed on the real crate: `C04_text_names_needed` (a field renamed to `my field`, to
  `1st`, or named `℘` — an identifier rustc accepts whose first character is not `char::is_alphabetic`:
  recorded as a known finding), `C04_text_depth_needed` (data nested 128 levels: the value path works,
  the text path hits the recursion limit, as C03 documents), `C04_text_float_window_needed`.
  Floats that are not exactly readable (LexprModel/Proofs/FloatApproxSerde.lean, F32Stable.lean,
  FloatApproxSerde32.lean; imported here): `C04_text_approx_all`, `C04_text_identity_approx_all` — through text,
  for the whole type universe, f64 leaves come back within the C05 accuracy and **f32 leaves come back exactly**
  (`roundToF32_stable`: a double within 2^-50 of a widened f32 narrows back to that f32 — subnormals, ±0 and
  f32::MAX included; `f32_max_witness`: the default build reads the text of f32::MAX one ulp high, and narrowing
  still gives f32::MAX).
-/
import LexprModel.Proofs.SerdeRT
import LexprModel.Proofs.SerdeText
import LexprModel.Proofs.FloatApproxSerde
import LexprModel.Proofs.FloatApproxSerde32
namespace Lexpr
namespace Serde

/-- integers of all eight widths, at every value of the width -/
theorem C04_int (w : IntTy) (n : Int) (h : w.lo ≤ n ∧ n ≤ w.hi) :
    de (.int w) (serInt w n) = .ok (.int n) := by
  by_cases hn : n ≥ 0
  · have hcast : ((n.toNat : Nat) : Int) = n := Int.toNat_of_nonneg hn
    cases w <;>
      simp only [serInt, Number.ofSigned, Number.ofUnsigned, hn, ↓reduceIte, de, deNumber, hcast] <;>
      simp [h.2]
  · have hlt : n < 0 := by omega
    cases w <;>
      first
      | (simp only [IntTy.lo] at h; omega)
      | (simp only [serInt, Number.ofSigned, hn, ↓reduceIte, de, deNumber]; simp [h.1, h.2])

theorem C04_float (b : Nat) : de .f64 (.number (.flt b)) = .ok (.float b) := by simp [de, deNumber]

theorem C04_atoms (c : Nat) (s y : List UInt8) (x : Bool) :
    de .char (.char c) = .ok (.char c) ∧ de .str (.string s) = .ok (.str s) ∧
    de .bytes (.bytes y) = .ok (.bytes y) ∧ de .bool (.bool x) = .ok (.bool x) ∧
    de .unit .null = .ok .unit ∧ de .unitStruct .null = .ok .unit := by
  refine ⟨by simp [de], by simp [de], by simp [de], by simp [de], by simp [de], by simp [de]⟩

/-- Option<T> given the round trip of T -/
theorem C04_option (t : Ty) (d : Data) (v : Value) (hs : ser t d = some v) (hd : de t v = .ok d) :
    (∃ v', ser (.option t) (.some d) = some v' ∧ de (.option t) v' = .ok (.some d)) ∧
    de (.option t) .null = .ok .none := by
  refine ⟨⟨.cons v .null, by simp [ser, hs], ?_⟩, by simp [de]⟩
  simp only [de, hd]; rfl

/-- Option<Option<u8>>: None, Some(None) and Some(Some(x)) serialise to three different values
    and each reads back as itself -/
theorem C04_option_option (x : Int) (h : 0 ≤ x ∧ x ≤ 255) :
    let t := Ty.option (.option (.int .u8))
    ser t .none = some .null ∧ de t .null = .ok .none ∧
    ser t (.some .none) = some (.cons .null .null) ∧ de t (.cons .null .null) = .ok (.some .none) ∧
    ser t (.some (.some (.int x))) = some (.cons (.cons (serInt .u8 x) .null) .null) ∧
    de t (.cons (.cons (serInt .u8 x) .null) .null) = .ok (.some (.some (.int x))) := by
  have hx := C04_int .u8 x (by simpa [IntTy.lo, IntTy.hi] using h)
  refine ⟨by simp [ser], by simp [de], by simp [ser], ?_, by simp [ser], ?_⟩
  · simp only [de]; rfl
  · simp only [de, hx]; rfl

/-- Option<()>: Some(()) is `(())`, distinct from None `()` -/
theorem C04_option_unit :
    ser (.option .unit) (.some .unit) = some (.cons .null .null) ∧
    de (.option .unit) (.cons .null .null) = .ok (.some .unit) ∧
    de (.option .unit) .null = .ok .none := by
  refine ⟨by simp [ser], ?_, by simp [de]⟩
  simp only [de]; rfl

example : de (.int .u64) (serInt .u64 18446744073709551615) = .ok (.int 18446744073709551615) :=
  C04_int .u64 _ (by simp [IntTy.lo, IntTy.hi])

/-- **C04_text_roundtrip** (the second sentence of the property): serialising to text with the default
    printer and deserialising that text with the default parser, from any of the three sources, returns
    the original datum. -/
theorem C04_text_roundtrip (cfg : Parse.Cfg) (ho : cfg.opts = Parse.Options.default)
    (ryu : Nat → List UInt8) (t : Ty) (d : Data) (wf : WellFormed t) (hN : PlainNames t) (h : HasTy t d)
    (hl : LeavesOK (Decimals.FloatOK cfg ryu) t d) (hn : depthOf t d ≤ 127) (m : Parse.Mode) :
    ∃ bytes, toText ryu t d = some bytes ∧ fromText cfg m t bytes = some (.ok d) :=
  C04_text_identity cfg ho ryu t d wf hN h hl hn m

end Serde
end Lexpr
