/-
  C13 — whatever the parser accepts can be printed and read back unchanged.

  Proved (LexprModel/Proofs/Image.lean with ImageBase, ImageTok, ImageDepth, ImageLift, ImageAtoms,
  ImageFloat, ImageStruct, ImageExamples; imported here; namespace Lexpr.Parse.Image), for EVERY parser
  option set (no compatibility hypothesis: `pof R` is always read by `R`), every input length:
   * `parseToken_img`, `C13_image_shape`, `C13_image` — the image of the parser: every arm of `parse_token`
     is inverted (symbols and keywords carry exactly the token's bytes, characters are scalars, strings
     valid UTF-8, integers in range, …), and every atom of every value `next_value` returns from a slice or
     stream source is read back, from its text under `pof R`, as itself in every follow context;
     `C13_keyword_enabled` — a keyword can only have been read through an enabled syntax;
   * `C13_reparse_partial` — if `from_slice_custom(bytes, R) = Ok(v)` then
     `from_slice_custom(to_string_custom(v, pof R), R) = Ok(v)`, consuming everything, under three
     explicit decidable side conditions, each shown necessary by a kernel-checked witness that is also a
     behaviour of the real code (recorded as known findings, DESIGN.md section 9):
       - `carDotOk`: no symbol starting with `.|` or `."` as the car of a pair (`C13_witness_dot`:
         `'.|a` accepted, `(quote .|a)` rejected; `C13_witness_dot_misread`: `'."x"` reads as
         `(quote ."x")` whose text reads as `(quote . "x")`);
       - `kwDotOk`: no keyword named `.` when `pof R` spells keywords `#:` or `:` (`C13_witness_kwdot`:
         `.:` is accepted as the keyword `.`, `#:.` is rejected);
       - with `nil` read as the empty list, nesting at most 127 counting `()` as a level
         (`C13_witness_depth`: `nil` inside 127 lists is accepted, `()` inside 127 lists is not);
     and the float side condition `FloatOK` (exactly readable floats: always in the build without
     fast-float-parsing, inside the exactness window otherwise — as the property states);
   * `C13_fixpoint` — under the same conditions printing the re-read value gives the same text again;
   * `C13_reparse_next` — the same in the middle of an input.
   * accuracy clause for floats that are not exactly readable (LexprModel/Proofs/FloatApproxImage*.lean,
     FloatApproxFin.lean; imported here): `C13_reparse_approx(_fin)` — the same with `approxEq` (same shape,
     floats within the C05 accuracy) in place of equality and ryu merely specified; every float the parser
     returns is finite (`fromTrait_floats_finite`).  `C13_float_cycle` (kernel-checked, confirmed on the
     real crate): in the default build `11e23` -> print -> parse alternates between two neighbouring
     doubles for ever, each step within the accuracy — which is why the property asks for the fixed point
     only "when every float is exactly representable by the reader".
  Proved here: the option-level facts that make the statement well-posed for every parser option set.
-/
import LexprModel.Props.C02
import LexprModel.Proofs.ImageExamples
import LexprModel.Proofs.FloatApproxImage2
namespace Lexpr
namespace Spec

/-- For every parser option set with a keyword syntax, printing with `pof R` uses only spellings
    `R` reads, and the expected result of the re-read is the value itself (no folding). -/
theorem C13_wellposed (r : Parse.Options) (hk : r.kwPrefix || r.kwPostfix || r.kwOctothorpe) (v : Value) :
    Compatible (pof r) r = true ∧ fold (pof r) r v = v :=
  ⟨C13_pof_compatible r hk, C13_pof_fold r v⟩

/-- `pof` keeps the string and character syntax and chooses the vector style from the bracket meaning. -/
theorem C13_pof_syntax (r : Parse.Options) :
    (pof r).string = r.string ∧ (pof r).char = r.char ∧
    ((pof r).vector = .brackets ↔ r.brackets = .vector) := by
  cases r with
  | mk a b c n t br s ch ra d => cases br <;> simp [pof]

/-- **C13_parse_print_parse** (the property, with its three recorded exceptions as explicit decidable
    hypotheses): whatever `from_slice_custom` accepts under `R` prints, under the corresponding printer
    options, to a text that `R` reads as the same value — for every parser option set. -/
theorem C13_parse_print_parse (cfg : Parse.Cfg) (ryu : Nat → List UInt8) (bytes : List UInt8) (v : Value)
    (s1 : Parse.St) (h : Parse.fromTrait cfg (Parse.initSt .slice bytes) = .ok v s1)
    (hside : Parse.Image.AllAtoms (Parse.Image.AtomSideW cfg ryu) v)
    (hdot : Parse.Image.carDotOk (pof cfg.opts) v = true)
    (hnest : cfg.opts.nil = .emptyList → Parse.ListRT.nestingP (pof cfg.opts) v ≤ 127) :
    ∃ s', Parse.fromTrait cfg (Parse.initSt .slice (Print.text (pof cfg.opts) ryu v)) = .ok v s' ∧
      s'.rd.rest = [] ∧ s'.depth = 128 :=
  Parse.Image.C13_reparse_partial cfg ryu bytes v s1 h hside hdot hnest

example : pof Parse.Options.elisp =
    { keyword := .colonPrefix, nil := .token, bool := .token, vector := .brackets, bytes := .r7rs,
      string := .elisp, char := .elisp } := by decide

end Spec
end Lexpr
