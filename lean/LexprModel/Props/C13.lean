/-
  C13 — whatever the parser accepts can be printed and read back unchanged.

  Full statement (depends on the structural round-trip theorem, see C01/C02 and LexprModel/Proofs/):
    theorem C13_reparse (R bytes v) (h : fromTrait R bytes = .ok v) :
      fromTrait R (text (pof R) v) = .ok (fold (pof R) R (readBack v))
  Proved here: the option-level facts that make the statement well-posed for every parser option set.
-/
import LexprModel.Props.C02
namespace Lexpr
namespace Spec

/-- For every parser option set with a keyword syntax, printing with `pof R` uses only spellings
    `R` reads, and the expected result of the re-read is the value itself (no folding). -/
theorem C13_wellposed (r : Parse.Options) (hk : r.kwPrefix || r.kwPostfix || r.kwOctothorpe) (v : Value) :
    Compatible (pof r) r = true ∧ fold (pof r) r v = v :=
  ⟨C13_pof_compatible r hk, C13_pof_fold r v⟩

/-- `pof` keeps the string and character syntax and chooses the vector style from the bracket meaning. -/
theorem C13_pof_syntax (r : Parse.Options) :
    (pof r).string = r.string ∧ (pof r).char = r.char ∧
    ((pof r).vector = .brackets ↔ r.brackets = .vector) := by
  cases r with
  | mk a b c n t br s ch ra d => cases br <;> simp [pof]

example : pof Parse.Options.elisp =
    { keyword := .colonPrefix, nil := .token, bool := .token, vector := .brackets, bytes := .r7rs,
      string := .elisp, char := .elisp } := by decide

end Spec
end Lexpr
