/-
  C01 — print then parse returns the same value (default Scheme dialect).
  The token lemmas (LexprModel/Proofs/AtomRT.lean) and the structural induction
  (LexprModel/Proofs/ListRT.lean) are wired in below when present.  Proved here: all print entry
  points produce the same bytes (default formatter = customised formatter with default options),
  the expected result of the round trip is the value itself (no folding in the default pairing),
  and the fixed tokens of the default printer.
-/
import LexprModel.Props.C07
import LexprModel.Props.C02
namespace Lexpr

/-- to_string / to_vec / to_writer / Display all run the same printer: same emissions, same text -/
theorem C01_entry_points (ryu : Nat → List UInt8) (v : Value) :
    Print.textDefault ryu v = Print.text Print.Options.default ryu v :=
  (Print.C07_default_eq_custom ryu v).2

/-- in the default pairing nothing is folded: the round trip is the identity on values -/
theorem C01_no_folding (v : Value) :
    Spec.fold Print.Options.default Parse.Options.default v = v := Spec.C02_fold_default v

/-- the default spellings -/
theorem C01_default_spellings (ryu : Nat → List UInt8) :
    Print.text Print.Options.default ryu .nil = asc "#nil" ∧
    Print.text Print.Options.default ryu .null = asc "()" ∧
    Print.text Print.Options.default ryu (.bool true) = asc "#t" ∧
    Print.text Print.Options.default ryu (.bool false) = asc "#f" := by
  refine ⟨rfl, rfl, rfl, rfl⟩

/-- a list prints as its elements separated by single spaces between parentheses, a dotted tail
    after ` . ` -/
theorem C01_list_text (ryu : Nat → List UInt8) (a b : Value) :
    Print.text Print.Options.default ryu (.cons a (.cons b .null)) =
      asc "(" ++ Print.text Print.Options.default ryu a ++ asc " " ++
        Print.text Print.Options.default ryu b ++ asc ")" := by
  simp [Print.text, Print.emits, Print.emitsTail, Print.flatten, Print.Emit.bytes]

example : Print.text Print.Options.default (fun _ => []) (.cons (.symbol [97]) (.bool true)) =
    asc "(a . #t)" := by decide

end Lexpr
