/-
  C01 — print then parse returns the same value (default Scheme dialect).
  Proved (LexprModel/Proofs/AtomRT.lean, ListRT.lean, ListRTGlue.lean, imported here):
   * token level, for all three sources: the printed text of #nil, booleans, every scalar character,
     every valid UTF-8 string (escape/unescape by induction over the bytes), plain-identifier symbols
     (ASCII and special initials, sign-initial peculiar identifiers, non-ASCII alphabetic initials),
     keywords, u64 and negative i64 integers and byte vectors is lexed back to the same token in every
     follow context (`atomRT_*`);
   * structure: mutual induction over `emits`/`emitsTail`/`emitsSeq` against
     `nextValue`/`parseList`/`parseVector` — proper and dotted lists, vectors, arbitrary nesting up to
     the depth limit, fuel of the public entry point sufficient (`C01_structure`, `C01_structure_public`);
     the depth bound is exact (`C01_depth_exact`);
   * end to end: `C01_roundtrip` below.
   * float leaves (LexprModel/Proofs/Decimals.lean): `atomRT_float`, `C01_roundtrip_floats` — the end to
     end theorem extended to values whose float leaves satisfy `FloatOK` (ryu meets its specification
     `RyuSpec`; default build: shortest form within the exactness window, as the property states;
     build without fast-float-parsing: every finite double).
   * every leaf kind and every source (LexprModel/Proofs/FullRT.lean, imported here):
     `C01_roundtrip_full`, `C01_roundtrip_full_sources` — for every value whose leaves are #nil, booleans,
     integers, floats satisfying `FloatOK`, scalar characters, valid UTF-8 strings, plain-identifier
     symbols and keywords and ANY byte vectors, nesting at most 127, the text of the default printer is
     read by the default parser from a &str, a byte slice or a (fault-free) stream as exactly that value,
     consuming everything and restoring the depth budget; `C01_text_valid` (the text is valid UTF-8,
     which is what makes the &str source applicable); `C01_roundtrip_plain` (names with a non-ASCII
     alphabetic initial).
   * the independent-reader clause (LexprModel/Spec/Reader.lean: a reader written from the documented
     R6RS/R7RS-style grammar — tokenise, classify, build with a stack machine; it shares nothing with the
     model of the crate's parser; LexprModel/Proofs/SpecRT*.lean, imported here): `C01_independent` below —
     for every supported value whose names are identifiers of the grammar, `Spec.readScheme` reads the
     default printer's text as exactly that value: NO nesting bound, and floats need only `RyuSpec` (the
     specification gives a literal its correctly rounded value), not the exactness window.  The identifier
     hypothesis is needed and is what the property says ("names are plain identifiers"): witnesses
     `SpecRT.witness_dot5` (the symbol `.5` prints as `.5`, a number in the grammar), `witness_quote`,
     `witness_hash`, `witness_plus_i`, `witness_keyword_digit`.  Tie: the `specrd` operations run the
     specification reader on texts written by the real printer.
   * floats that are NOT exactly readable (LexprModel/Proofs/FloatApprox*.lean, imported here): outside the
     exactness window of the default build the property only asks for the C05 accuracy, and that is what is
     proved — `atomRT_float_approx` (the shortest form of every finite double, ryu as a specified parameter
     without any window, is read back under every option set as a float within 2^-50 relative + 2^-1073
     absolute, never an error, integer or symbol), `C01_roundtrip_approx` / `C02_roundtrip_approx` (the
     whole value reads back as a value of the same shape with identical leaves except such floats, all
     sources), witness `C01_roundtrip_approx_strict` (`(a 1e-23 . #(2.5))` reads back close but not equal).
     The one extra hypothesis in the default build, `InRange` (the decimal does not exceed f64::MAX), is
     needed: `1.7976931348623158e308` rounds to f64::MAX yet is rejected (known finding C05); the shortest
     form of every finite double satisfies it.
  Also proved here: all print entry points produce the same bytes, no folding in the default pairing.
-/
import LexprModel.Props.C07
import LexprModel.Props.C02
import LexprModel.Proofs.ListRTGlue
import LexprModel.Proofs.Decimals
import LexprModel.Proofs.FullRT
import LexprModel.Proofs.SpecRTExec
import LexprModel.Proofs.FloatApproxRT
namespace Lexpr

/-- **C01_roundtrip** (proved for every value without floats and byte vectors; see the header):
    parsing the default printer's text with the default parser returns the value, consumes the whole
    text and restores the depth budget.  `AllSupported v`: atoms are #nil, booleans, integers in
    u64 / negative i64 range, scalar characters, valid UTF-8 strings, plain-identifier symbols and
    keywords; nesting at most 127 (the documented limit; `C01_depth_exact` shows 128 is refused). -/
theorem C01_roundtrip (cfg : Parse.Cfg) (ho : cfg.opts = Parse.Options.default)
    (ryu : Nat → List UInt8) (v : Value) (h : Parse.ListRT.AllSupported v)
    (hn : Parse.ListRT.nesting v ≤ 127) :
    ∃ s', Parse.fromTrait cfg (Parse.initSt .slice (Print.text Print.Options.default ryu v)) = .ok v s' ∧
      s'.rd.rest = [] ∧ s'.depth = 128 :=
  Parse.ListRT.C01_roundtrip_supported cfg ho ryu v h hn

/-- **C01_roundtrip_all_sources**: the same for every leaf kind (floats that are exactly readable, byte
    vectors included) and for each of the three input sources. -/
theorem C01_roundtrip_all_sources (cfg : Parse.Cfg) (ho : cfg.opts = Parse.Options.default)
    (ryu : Nat → List UInt8) (v : Value) (h : FullRT.AllSupportedFull cfg ryu v)
    (hn : Parse.ListRT.nesting v ≤ 127) (m : Parse.Mode) :
    ∃ s', Parse.fromTrait cfg (Parse.initSt m (Print.text Print.Options.default ryu v)) = .ok v s' ∧
      s'.rd.rest = [] ∧ s'.depth = 128 :=
  FullRT.C01_roundtrip_full_sources cfg ho ryu v h hn m

/-- **C01_independent_reader**: the printed text is readable as the same datum by an independent reader of
    the documented grammar (restates `Lexpr.C01_independent` of Proofs/SpecRTExec.lean). -/
theorem C01_independent_reader (cfg : Parse.Cfg) (ryu : Nat → List UInt8) (v : Value)
    (h : FullRT.AllSupportedFull cfg ryu v)
    (hid : FullRT.AllLeaves (SpecRT.IdentNames Spec.unicodeAlphabetic) v) :
    Spec.readScheme (Print.text Print.Options.default ryu v) = some v :=
  C01_independent cfg ryu v h hid

/-- to_string / to_vec / to_writer / Display all run the same printer: same emissions, same text -/
theorem C01_entry_points (ryu : Nat → List UInt8) (v : Value) :
    Print.textDefault ryu v = Print.text Print.Options.default ryu v :=
  (Print.C07_default_eq_custom ryu v).2

/-- in the default pairing nothing is folded: the round trip is the identity on values -/
theorem C01_no_folding (v : Value) :
    Spec.fold Print.Options.default Parse.Options.default v = v := Spec.C02_fold_default v

/-- the default spellings -/
theorem C01_default_spellings (ryu : Nat → List UInt8) :
    Print.text Print.Options.default ryu .nil = asc "#nil" ∧
    Print.text Print.Options.default ryu .null = asc "()" ∧
    Print.text Print.Options.default ryu (.bool true) = asc "#t" ∧
    Print.text Print.Options.default ryu (.bool false) = asc "#f" := by
  refine ⟨rfl, rfl, rfl, rfl⟩

/-- a list prints as its elements separated by single spaces between parentheses, a dotted tail
    after ` . ` -/
theorem C01_list_text (ryu : Nat → List UInt8) (a b : Value) :
    Print.text Print.Options.default ryu (.cons a (.cons b .null)) =
      asc "(" ++ Print.text Print.Options.default ryu a ++ asc " " ++
        Print.text Print.Options.default ryu b ++ asc ")" := by
  simp [Print.text, Print.emits, Print.emitsTail, Print.flatten, Print.Emit.bytes]

example : Print.text Print.Options.default (fun _ => []) (.cons (.symbol [97]) (.bool true)) =
    asc "(a . #t)" := by decide

end Lexpr
