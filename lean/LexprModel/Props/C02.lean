/-
  C02 — round trip for every consistent printer/parser pairing.

  Fully proved for values without float leaves (LexprModel/Proofs/DialectRT.lean and
  DialectStructRT.lean, imported here):
    theorem C02_roundtrip : Compatible p cfg.opts → AllPlainFor p cfg v → Spec.nesting v < 127 →
      ∃ s', fromTrait cfg (initSt .slice (Print.text p ryu v)) = .ok (fold p cfg.opts v) s'
            ∧ s'.rd.rest = [] ∧ s'.depth = 128
  for every one of the 576 printer and 1536 parser option sets: the text printed under `p` is read
  back under any compatible parser option set as the documented folding of the value, nothing else.
  Token level (`dialectRT_nil/_bool/_keyword/_char/_string/_bytes/_symbol/_posint/_negint/_atom`) for
  all three sources; structure (`dialectRT_structure`: lists, dotted lists, both vector spellings,
  exact depth measure `nestingP`) on the slice source.  Side conditions (`symbolPlainFor`,
  `keywordPlainFor`) are decidable and each is shown necessary by a witness in those files.
  With float leaves and for all three sources (LexprModel/Proofs/FullRT.lean, imported here):
  `C02_roundtrip_full(_exact)`, `C02_roundtrip_full_sources` — the same for values whose float leaves
  satisfy `FloatOK` (ryu meets its specification; exactly readable), read from a &str, a slice or a
  stream; `atomRT_float_any` — the printed float is read back under ANY parser option set (with
  leading-digit symbols the token goes through the symbol scanner and `wholeNumber`).
  Independent Emacs Lisp reader (LexprModel/Spec/ReaderElisp.lean, Proofs/SpecRTElisp.lean, SpecRTExec.lean):
  `C02_independent_elisp` — for every value plain for the Emacs Lisp pair whose names are symbols of the
  documented subset, `Spec.readElisp` reads the Emacs Lisp printer's text as `fold` of the value (Nil and
  false become the empty list, true the symbol `t`, an empty byte vector the empty string); no nesting bound.
  Not covered by the theorem: digit-initial and `#`-initial names (not plain identifiers).
  Proved here: facts about `Compatible`, `fold` and `pof` over the whole (finite) option space and
  for all values.
-/
import LexprModel.Spec.Dialect
import LexprModel.Proofs.DialectStructRT
import LexprModel.Proofs.Builder
import LexprModel.Proofs.FullRT
import LexprModel.Proofs.SpecRTExec
namespace Lexpr
namespace Spec

/-- the default pairing and the Emacs Lisp pairing are compatible -/
theorem C02_default_compatible : Compatible Print.Options.default Parse.Options.default = true := by decide
theorem C02_elisp_compatible : Compatible Print.Options.elisp Parse.Options.elisp = true := by decide

/-- Every printer option set has a compatible parser option set, except the one combination
    that no reader can serve: Emacs unibyte byte strings together with R6RS string syntax. -/
theorem C02_compatible_exists (p : Print.Options) (h : ¬ (p.bytes = .elisp ∧ p.string = .r6rs)) :
    ∃ r : Parse.Options, Compatible p r = true := by
  refine ⟨{ kwPrefix := true, kwPostfix := true, kwOctothorpe := true, nil := .default, t := .default,
            brackets := .vector, string := p.string, char := .elisp, racket := false,
            leadingDigit := false }, ?_⟩
  cases p with
  | mk k n b v y s c =>
    cases k <;> cases v <;> cases y <;> cases s <;> cases c <;>
      simp_all [Compatible, Parse.Options.keyword]

/-- and that combination has none -/
theorem C02_incompatible (p : Print.Options) (hb : p.bytes = .elisp) (hs : p.string = .r6rs)
    (r : Parse.Options) : Compatible p r = false := by
  cases hr : r.string <;> simp [Compatible, hb, hs, hr]

mutual
/-- With token spellings for nil and booleans and a non-Emacs bytes syntax nothing is folded. -/
theorem fold_id (p : Print.Options) (r : Parse.Options) (hn : p.nil = .token) (hb : p.bool = .token)
    (hy : p.bytes ≠ .elisp) : ∀ v : Value, fold p r v = v
  | .nil => by simp [fold, hn]
  | .bool b => by simp [fold, hb]
  | .bytes b => by
    simp only [fold]
    cases hpb : p.bytes <;> simp_all
  | .cons a d => by simp [fold, fold_id p r hn hb hy a, fold_id p r hn hb hy d]
  | .vector xs => by simp [fold, foldList_id p r hn hb hy xs]
  | .null => by simp [fold]
  | .number _ => by simp [fold]
  | .char _ => by simp [fold]
  | .string _ => by simp [fold]
  | .symbol _ => by simp [fold]
  | .keyword _ => by simp [fold]
theorem foldList_id (p : Print.Options) (r : Parse.Options) (hn : p.nil = .token) (hb : p.bool = .token)
    (hy : p.bytes ≠ .elisp) : ∀ xs : List Value, foldList p r xs = xs
  | [] => by simp [foldList]
  | x :: xs => by simp [foldList, fold_id p r hn hb hy x, foldList_id p r hn hb hy xs]
end

/-- In the default dialect the round trip is the identity (no folding): C01 is the instance. -/
theorem C02_fold_default (v : Value) : fold Print.Options.default Parse.Options.default v = v :=
  fold_id _ _ rfl rfl (by decide) v

/-- The Emacs Lisp pairing folds exactly: Nil and false to the empty list, true to the symbol t,
    the empty byte vector to the empty string. -/
theorem C02_fold_elisp_atoms :
    fold Print.Options.elisp Parse.Options.elisp .nil = .null ∧
    fold Print.Options.elisp Parse.Options.elisp (.bool false) = .null ∧
    fold Print.Options.elisp Parse.Options.elisp (.bool true) = .symbol (asc "t") ∧
    fold Print.Options.elisp Parse.Options.elisp (.bytes []) = .string [] ∧
    fold Print.Options.elisp Parse.Options.elisp (.bytes [1]) = .bytes [1] := by
  refine ⟨rfl, rfl, rfl, rfl, rfl⟩

/-- The printer options corresponding to a parser option set are compatible with it whenever the
    parser has some keyword syntax enabled (otherwise no keyword can have been read). -/
theorem C13_pof_compatible (r : Parse.Options) (hk : r.kwPrefix || r.kwPostfix || r.kwOctothorpe) :
    Compatible (pof r) r = true := by
  cases r with
  | mk a b c n t br s ch ra d =>
    cases a <;> cases b <;> cases c <;> cases br <;> cases s <;> cases ch <;>
      simp_all [Compatible, pof, Parse.Options.keyword]

/-- … and nothing is folded under them. -/
theorem C13_pof_fold (r : Parse.Options) (v : Value) : fold (pof r) r v = v :=
  fold_id _ _ rfl rfl (by simp [pof]) v

example : Compatible Print.Options.elisp Parse.Options.default = false := by decide

/-- every printer option set the property quantifies over is constructible through the builder API of
    `print::Options` (whose setters assign one field each: `Print.builder_frame`, `_commute`,
    `_last_wins`; tied to the code by the `opts P` operations), and so is every parser option set -/
theorem C02_every_option_set (p : Print.Options) (r : Parse.Options) :
    (∃ ops, Print.Options.build Print.Options.default ops = p) ∧
    (∃ ops, Parse.Options.build Parse.Options.new ops = r) :=
  ⟨Print.builder_reachable p, Parse.builder_reachable r⟩

end Spec
/-- **C02_independent_elisp_reader**: the Emacs Lisp printer's text is readable by an independent reader of
    the documented Emacs Lisp subset as the folding of the value (restates `Lexpr.C02_independent_elisp`). -/
theorem C02_independent_elisp_reader (cfg : Parse.Cfg) (ho : cfg.opts = Parse.Options.elisp)
    (ryu : Nat → List UInt8) (v : Value)
    (h : FullRT.AllPlainForF Print.Options.elisp cfg ryu v)
    (hid : FullRT.AllLeaves (SpecRT.El.ElNames Spec.unicodeAlphabetic) v) :
    Spec.readElisp (Print.text Print.Options.elisp ryu v) =
      some (Spec.fold Print.Options.elisp Parse.Options.elisp v) :=
  C02_independent_elisp cfg ho ryu v h hid

end Lexpr
