/-
  C17 — only well-formed UTF-8 ever reaches a str.
  The general theorems (`valid_append`, `encode_valid`, printed text valid for every value and option
  set, the two unchecked conversions of the &str source) are in LexprModel/Proofs/Utf8Valid.lean
  (when present).  Proved here: ASCII is valid in every automaton state it can occur in; every byte at
  which a scanner may stop is ASCII, so the scanners split the input at character boundaries; the
  checked paths (slice / stream) reject ill-formed and incomplete sequences.
-/
import LexprModel.Lex
import LexprModel.Print
namespace Lexpr
namespace Utf8

/-- an ASCII byte keeps the automaton idle, and is rejected in the middle of a sequence -/
theorem step_ascii (b : UInt8) (h : b < 0x80) : step .idle b = some .idle := by
  simp [step, h]

theorem step_mid_ascii (need : Nat) (lo hi b : UInt8) (h : b < 0x80) (hlo : 0x80 ≤ lo) :
    step (.mid need lo hi) b = none := by
  have : ¬ (lo ≤ b) := by
    intro hle
    have h1 : b.toNat < 128 := by simpa [UInt8.lt_iff_toNat_lt] using h
    have h2 : 128 ≤ lo.toNat := by simpa [UInt8.le_iff_toNat_le] using hlo
    have h3 : lo.toNat ≤ b.toNat := by simpa [UInt8.le_iff_toNat_le] using hle
    omega
  simp [step, this]

/-- ASCII text is valid -/
theorem C17_valid_ascii (bs : List UInt8) (h : ∀ b ∈ bs, b < 0x80) : valid bs = true := by
  have : run .idle bs = some .idle := by
    induction bs with
    | nil => rfl
    | cons b bs ih =>
      simp only [run, step_ascii b (h b (by simp))]
      exact ih (fun x hx => h x (by simp [hx]))
  simp [valid, this]

end Utf8

namespace Parse

/-- every byte at which a symbol, a string body or a character name may end is ASCII:
    terminators, delimiters, the quote and the backslash -/
theorem C17_stop_bytes_ascii (b : UInt8)
    (h : symTermSlice b = true ∨ symTermIo b = true ∨ isCharDelimiter b = true ∨ isDelimiter b = true ∨
         b = 34 ∨ b = 92) : b < 0x80 := by
  rcases h with h | h | h | h | h | h
  all_goals first
    | (subst h; decide)
    | (simp only [symTermSlice, symTermIo, isCharDelimiter, isDelimiter, Bool.or_eq_true, beq_iff_eq] at h
       rcases h with h | h
       all_goals (repeat (first | (subst h; decide) | (rcases h with h | h))))

/-- the checked conversion (`as_str`) of the slice and stream sources accepts exactly valid bytes -/
theorem C17_finishStr_checked (bytes : List UInt8) (s : St) (h : s.rd.mode ≠ .str) :
    (Utf8.valid bytes = true → finishStr false bytes s = .ok bytes s) ∧
    (Utf8.valid bytes = false → ∃ l c, finishStr false bytes s = .err (.syntax .invalidUnicodeCodePoint l c) s) := by
  have hm : (s.rd.mode == Mode.str) = false := by cases hmode : s.rd.mode <;> simp_all
  constructor <;> intro hv <;>
    simp [finishStr, getMode, bind, P.bind, hm, hv, pure, P.pure, errAt]

/-- Emacs strings are validated for every source, the &str source included -/
theorem C17_finishStr_elisp (bytes : List UInt8) (s : St) (hv : Utf8.valid bytes = false) :
    ∃ l c, finishStr true bytes s = .err (.syntax .invalidUnicodeCodePoint l c) s := by
  simp [finishStr, getMode, bind, P.bind, hv, errAt]

example : Utf8.valid [0xCE, 0xBB, 40, 120, 41] = true ∧ Utf8.valid [0xCE] = false ∧ Utf8.incomplete [0xCE] = true ∧
    Utf8.valid [0xC0, 0x80] = false ∧ Utf8.valid [0xED, 0xA0, 0x80] = false := by decide

end Parse
end Lexpr
