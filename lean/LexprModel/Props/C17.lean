/-
  C17 — only well-formed UTF-8 ever reaches a str.
  Fully proved (LexprModel/Proofs/Utf8Valid.lean, imported here; main theorems in namespace Lexpr.C17):
   * the automaton: `run_append`, `valid_append`, `valid_ascii`, `valid_split_ascii` (a valid string
     splits into valid halves at any ASCII byte), `encode_valid`, `decodeFirst_encode` for every scalar;
   * printer: `valid_escapeStr` and `C17_print_valid` — for every value with valid payloads and every
     printer option set the text is valid and so is every single emission (what `Display` needs);
   * parser: `C17_symbol_bytes_valid`, `C17_r6rs_str_valid` — the two `from_utf8_unchecked` sites of the
     &str source return valid bytes given valid input; `C17_elisp_str_valid` — Emacs strings are
     always checked; the slice and stream sources validate on return; `C17_token_valid` — every token;
   * end to end (LexprModel/Proofs/Utf8Parse.lean): `C17_next_value_valid`, `C17_next_datum_valid`,
     `C17_from_valid`, `C17_from_datum_valid` — every string, symbol and keyword of every value any
     entry point returns is valid UTF-8, for every source, option set and input (valid input for the
     &str source, arbitrary bytes otherwise); `C17_parse_print_valid` — parse then print is valid.
  Proved here in addition: every byte at which a scanner may stop is ASCII; the checked conversions
  reject invalid bytes.
  The clause "INPUT that is not valid UTF-8 inside a string, symbol or character is rejected" (as opposed
  to: what is returned is valid), for the R6RS string syntax (the default) and every other option
  (Proofs/Utf8InputTokBase.lean, Utf8InputTokNum.lean, Utf8InputTok.lean, Utf8InputAll.lean,
  Utf8InputAllDatum.lean; namespaces `InTok`, `InAll`):
   * tokens: `InTok.C17_r6rs_str_input_valid(_iff)`, `C17_symbol_input_valid`, `C17_char_input_valid_r6rs`,
     `C17_char_input_valid_elisp`, and for every token of every kind `InTok.C17_token_input_valid` — an accepted
     token of a slice or stream source consumed valid UTF-8 (number scanners consume only ASCII);
   * whole inputs: `InAll.C17_whole_input_valid` / `C17_whole_input_valid_no_comment` (restated below as
     `C17_ill_formed_input_never_accepted`) and the datum variants — if `from_slice` / `from_reader` accepts
     `bytes` and every run of trivia is valid UTF-8 (in particular: no `;` at all) then `bytes` is valid UTF-8;
     `InAll.C17_whole_input_valid_iff`: ill-formed bytes can hide in comments and nowhere else
     (`comment_may_hide_ill_formed_bytes`: `1;` FF is accepted as 1; `r6rs_hypothesis_needed`: the Emacs string
     syntax is excluded because of the finding below).  This is exactly the rule the direct oracle checks.
  For EVERY option set (Proofs/Utf8InputAllOptsBase.lean, Utf8InputAllOpts.lean, Utf8InputAllOptsDatum.lean;
  namespace `InAllOpts`): `C17_whole_input_valid_all(_no_comment)`, `C17_whole_input_valid_datum_all(_no_comment)`,
  `C17_token_input_valid_all` — the same conclusion with the R6RS hypothesis replaced by a syntactic one that is
  only needed under the Emacs Lisp string syntax: `NoByteEsc bytes`, no backslash is directly followed by a blank,
  `x` or an octal digit (restated below as `C17_ill_formed_input_never_accepted_all`).  It excludes exactly the
  escapes of the recorded finding and is necessary (`noByteEsc_needed_hex/_octal/_datum`); it is
  sufficient, not sharp (`"\x41"` is excluded too).  After the repair of the escaped blank (the arm `b' '` of
  `parse_elisp_escape` rejects a continuation byte behind the blank) the blank need not be excluded: the
  `_num` theorems (`C17_whole_input_valid_all_num`, …, restated below as
  `C17_ill_formed_input_never_accepted_all_num(_datum)`) need `NoNumEsc bytes` only — no backslash directly
  followed by `x` or an octal digit — and the `NoByteEsc` statements are their corollaries;
  `InAllOpts.escaped_blank_inside_sequence_rejected_whole`: `"` C3 `\ ` A9 `"` is now rejected.
  The token-level analysis for the Emacs Lisp string syntax, where escape output and raw input meet in one buffer that is
  validated as a whole (Proofs/Utf8Input.lean, Utf8InputLoopBase.lean, Utf8InputLoop.lean):
   * `C17_elisp_backslash_continuation_rejected` — a backslash followed by a continuation byte is an error
     in every state (repair 29, /repo c74523a; `C17_repair29_input_rejected` is the input that exposed it);
   * `InLoop.C17_elisp_input_valid`, `InLoop.C17_elisp_input_valid_unibyte`, `InLoop.C17_elisp_input_valid_iff`,
     `InLoop.C17_elisp_token_input_valid` (restated below as `C17_elisp_input_clause`): for every source, fuel
     and state, if the string token is accepted and consumed the bytes `w`, then `w` is valid UTF-8 — UNLESS
     one of exactly two things happened, recorded by flags of an instrumented copy of the loop that is proved
     to agree with the model's loop (`parseElispStrT_agrees`): a numeric escape appended a byte >= 0x80 (`hi`),
     or an escaped blank was read while the buffer ended inside a sequence (`bl`); for a unibyte result the
     exception is a byte >= 0x80 directly after a backslash (`nc`; such input comes back as bytes, which the
     property allows).  Each exception is necessary: `C17_numeric_escape_completes_sequence` / `InLoop.hi_is_needed`
     (`"` C3 `\xa9"` is read as the string é), `InLoop.unibyte_catchall_raw_byte`; both are behaviours of the
     real code.  The exception `bl` is REPAIRED: `InLoop.escaped_blank_inside_sequence_rejected` (`"` C3 `\ ` A9 `"`
     was read as é and is now an error), and for a string token `bl` is no longer a hypothesis:
     `InLoop.C17_elisp_input_valid_noblank`, `InLoop.C17_elisp_token_input_valid_noblank` (restated below as
     `C17_elisp_input_clause_noblank`).  The flag can still rise on an accepted string together with `hi`
     (`InLoop.bl_still_set_string`), and `InLoop.C17_elisp_input_sync` still needs it for a byte string
     (`InLoop.bl_needed_for_sync`).  So the clause as a whole is
     FALSE of the model and of the code in exactly the class of the recorded finding
     `[escape joins an ill-formed sequence]`, and true everywhere else.
  Histories (Proofs/Utf8InputHist.lean): `C17_history_consumed_valid` — any interleaving of `next_value`,
  `next_datum`, iterator steps, `expect_value`, `expect_datum`, `expect_end` on one parser over a slice or stream:
  while every call so far succeeded, the bytes consumed so far are valid UTF-8 (side conditions `TV` and, Emacs
  Lisp strings, `NoNumEsc`, both inherited by every suffix of the input); `C17_history_ill_formed_prefix_fails`
  is the rule of the direct oracle for histories.
-/
import LexprModel.Proofs.Utf8Valid
import LexprModel.Proofs.Utf8Parse
import LexprModel.Proofs.Utf8Input
import LexprModel.Proofs.Utf8InputLoop
import LexprModel.Proofs.Utf8InputAll
import LexprModel.Proofs.Utf8InputAllDatum
import LexprModel.Proofs.Utf8InputAllOpts
import LexprModel.Proofs.Utf8InputAllOptsDatum
import LexprModel.Proofs.Utf8InputHist
namespace Lexpr
namespace Parse

/-- every byte at which a symbol, a string body or a character name may end is ASCII:
    terminators, delimiters, the quote and the backslash -/
theorem C17_stop_bytes_ascii (b : UInt8)
    (h : symTermSlice b = true ∨ symTermIo b = true ∨ isCharDelimiter b = true ∨ isDelimiter b = true ∨
         b = 34 ∨ b = 92) : b < 0x80 := by
  rcases h with h | h | h | h | h | h
  all_goals first
    | (subst h; decide)
    | (simp only [symTermSlice, symTermIo, isCharDelimiter, isDelimiter, Bool.or_eq_true, beq_iff_eq] at h
       rcases h with h | h
       all_goals (repeat (first | (subst h; decide) | (rcases h with h | h))))

/-- the checked conversion (`as_str`) of the slice and stream sources accepts exactly valid bytes -/
theorem C17_finishStr_checked (bytes : List UInt8) (s : St) (h : s.rd.mode ≠ .str) :
    (Utf8.valid bytes = true → finishStr false bytes s = .ok bytes s) ∧
    (Utf8.valid bytes = false → ∃ l c, finishStr false bytes s = .err (.syntax .invalidUnicodeCodePoint l c) s) := by
  have hm : (s.rd.mode == Mode.str) = false := by cases hmode : s.rd.mode <;> simp_all
  constructor <;> intro hv <;>
    simp [finishStr, getMode, bind, P.bind, hm, hv, pure, P.pure, errAt]

/-- Emacs strings are validated for every source, the &str source included -/
theorem C17_finishStr_elisp (bytes : List UInt8) (s : St) (hv : Utf8.valid bytes = false) :
    ∃ l c, finishStr true bytes s = .err (.syntax .invalidUnicodeCodePoint l c) s := by
  simp [finishStr, getMode, bind, P.bind, hv, errAt]

/-- a backslash followed by a UTF-8 continuation byte is rejected by `parse_elisp_escape`, whatever has
    been read so far (the arm added by repair 29) -/
theorem C17_elisp_backslash_continuation_rejected (fuel : Nat) (acc : List UInt8) (S : St) (c : UInt8)
    (t : List UInt8) (h : S.rd.rest = c :: t) (hc : 128 ≤ c ∧ c ≤ 191) :
    ∃ l k S', parseElispEscape fuel acc S = .err (.syntax .invalidUnicodeCodePoint l k) S' :=
  elisp_escape_continuation_rejected fuel acc S c t h hc

/-- `"` F3 9F BB `\` 96 `"` (accepted as U+DFED6 before repair 29) is rejected -/
theorem C17_repair29_input_rejected :
    Image.rejectsWith Image.cfgEl [0x22, 0xF3, 0x9F, 0xBB, 0x5C, 0x96, 0x22] .invalidUnicodeCodePoint = true :=
  ex_backslash_continuation_rejected

/-- the recorded finding: ill-formed input completed by a numeric escape is accepted -/
theorem C17_numeric_escape_completes_sequence :
    Utf8.valid [0x22, 0xC3, 0x5C, 0x78, 0x61, 0x39, 0x22] = false ∧
    Image.parsesTo Image.cfgEl [0x22, 0xC3, 0x5C, 0x78, 0x61, 0x39, 0x22] (.string [0xC3, 0xA9]) = true ∧
    Image.parsesTo Image.cfgEl [0x22, 0xC3, 0xA9, 0x22] (.string [0xC3, 0xA9]) = true :=
  numeric_escape_completes_sequence

/-- the input clause for Emacs Lisp strings at the token level: an accepted string token consumed valid
    UTF-8 unless a byte escape (`hi`) or an escaped blank inside a sequence (`bl`) joined an ill-formed
    sequence; an accepted unibyte token consumed valid UTF-8 unless a byte >= 0x80 followed a backslash -/
theorem C17_elisp_input_clause {cfg : Cfg} {fuel : Nat} {S S' : St} {tok : Token}
    {w : List UInt8} (h : parseToken cfg fuel 34 S = .ok tok S')
    (hel : cfg.opts.string = .elisp) (hpk : ∃ tl, S.rd.rest = 34 :: tl)
    (hw : S.rd.rest = w ++ S'.rd.rest) :
    ∃ S1 r fl, S.rd.rest = 34 :: S1.rd.rest ∧
      InLoop.parseElispStrT fuel [] false false false {} S1 = .ok (r, fl) S' ∧
      tok = InLoop.tokOf r ∧
      ((∃ s, tok = .string s) → fl.hi = false → fl.bl = false → Utf8.valid w = true) ∧
      ((∃ b, tok = .bytes b) → fl.nc = false → Utf8.valid w = true) :=
  InLoop.C17_elisp_token_input_valid h hel hpk hw

/-- the same after the repair of the escaped blank: for a string token only `hi` is an exception -/
theorem C17_elisp_input_clause_noblank {cfg : Cfg} {fuel : Nat} {S S' : St} {tok : Token}
    {w : List UInt8} (h : parseToken cfg fuel 34 S = .ok tok S')
    (hel : cfg.opts.string = .elisp) (hpk : ∃ tl, S.rd.rest = 34 :: tl)
    (hw : S.rd.rest = w ++ S'.rd.rest) :
    ∃ S1 r fl, S.rd.rest = 34 :: S1.rd.rest ∧
      InLoop.parseElispStrT fuel [] false false false {} S1 = .ok (r, fl) S' ∧
      tok = InLoop.tokOf r ∧
      ((∃ s, tok = .string s) → fl.hi = false → Utf8.valid w = true) ∧
      ((∃ b, tok = .bytes b) → fl.nc = false → Utf8.valid w = true) :=
  InLoop.C17_elisp_token_input_valid_noblank h hel hpk hw

/-- the oracle's rule as a theorem: input of a slice or stream source that has no `;`, is accepted as a whole
    under the R6RS string syntax (any other options), is valid UTF-8 — ill-formed input is never accepted -/
theorem C17_ill_formed_input_never_accepted {cfg : Cfg} {mode : Mode} {bytes : List UInt8}
    {faulty : Bool} {v : Value} {S' : St}
    (h : fromTrait cfg (initSt mode bytes faulty) = .ok v S')
    (hr6 : cfg.opts.string = .r6rs) (hm : mode ≠ .str) (hno : ∀ b ∈ bytes, b ≠ 59) :
    Utf8.valid bytes = true :=
  InAll.C17_whole_input_valid_no_comment h hr6 hm hno

/-- every option set: the Emacs Lisp string syntax needs the syntactic side condition `NoByteEsc` (no
    backslash directly followed by a blank, `x` or an octal digit), which excludes exactly the recorded finding -/
theorem C17_ill_formed_input_never_accepted_all {cfg : Cfg} {mode : Mode} {bytes : List UInt8}
    {faulty : Bool} {v : Value} {S' : St}
    (h : fromTrait cfg (initSt mode bytes faulty) = .ok v S')
    (hm : mode ≠ .str) (hno : ∀ b ∈ bytes, b ≠ 59) (hnb : InAllOpts.NoByteEsc bytes) :
    Utf8.valid bytes = true :=
  InAllOpts.C17_whole_input_valid_all_no_comment h hm hno hnb

theorem C17_ill_formed_input_never_accepted_all_datum {cfg : Cfg} {mode : Mode} {bytes : List UInt8}
    {faulty : Bool} {d : Datum} {S' : St}
    (h : fromTraitDatum cfg (initSt mode bytes faulty) = .ok d S')
    (hm : mode ≠ .str) (hno : ∀ b ∈ bytes, b ≠ 59) (hnb : InAllOpts.NoByteEsc bytes) :
    Utf8.valid bytes = true :=
  InAllOpts.C17_whole_input_valid_datum_all_no_comment h hm hno hnb

/-- after the repair of the escaped blank: only the numeric escapes have to be excluded (`NoNumEsc`: no
    backslash directly followed by `x` or an octal digit) -/
theorem C17_ill_formed_input_never_accepted_all_num {cfg : Cfg} {mode : Mode} {bytes : List UInt8}
    {faulty : Bool} {v : Value} {S' : St}
    (h : fromTrait cfg (initSt mode bytes faulty) = .ok v S')
    (hm : mode ≠ .str) (hno : ∀ b ∈ bytes, b ≠ 59) (hnb : InAllOpts.NoNumEsc bytes) :
    Utf8.valid bytes = true :=
  InAllOpts.C17_whole_input_valid_all_no_comment_num h hm hno hnb

theorem C17_ill_formed_input_never_accepted_all_num_datum {cfg : Cfg} {mode : Mode} {bytes : List UInt8}
    {faulty : Bool} {d : Datum} {S' : St}
    (h : fromTraitDatum cfg (initSt mode bytes faulty) = .ok d S')
    (hm : mode ≠ .str) (hno : ∀ b ∈ bytes, b ≠ 59) (hnb : InAllOpts.NoNumEsc bytes) :
    Utf8.valid bytes = true :=
  InAllOpts.C17_whole_input_valid_datum_all_no_comment_num h hm hno hnb

/-- the same through the location-tracking reader -/
theorem C17_ill_formed_input_never_accepted_datum {cfg : Cfg} {mode : Mode} {bytes : List UInt8}
    {faulty : Bool} {d : Datum} {S' : St}
    (h : fromTraitDatum cfg (initSt mode bytes faulty) = .ok d S')
    (hr6 : cfg.opts.string = .r6rs) (hm : mode ≠ .str) (hno : ∀ b ∈ bytes, b ≠ 59) :
    Utf8.valid bytes = true :=
  InAll.C17_whole_input_valid_datum_no_comment h hr6 hm hno

/-- **input clause over call histories, every option set** (Proofs/Utf8InputHist): whatever kinds of calls
    (`next_value`, `next_datum`, the three iterators, `expect_value`, `expect_datum`, `expect_end`) are made in
    whatever order on one parser over a slice or stream, as long as every call so far succeeded
    (`runAccepted … = some S'`) the bytes `w` consumed so far are valid UTF-8.  Side conditions as for single
    calls: trivia well-formed (`TV`: only comments may hide ill-formed bytes), `NoNumEsc` under the Emacs Lisp
    string syntax (necessary: the recorded finding). -/
theorem C17_history_consumed_valid {cfg : Cfg} {mode : Mode} {bytes w : List UInt8} {faulty : Bool}
    {ops : List Op} {S' : St}
    (h : InAllOpts.runAccepted cfg ops (initSt mode bytes faulty) = some S')
    (hm : mode ≠ .str) (htv : InAll.TV bytes)
    (hnb : cfg.opts.string = .elisp → InAllOpts.NoNumEsc bytes)
    (hw : bytes = w ++ S'.rd.rest) : Utf8.valid w = true :=
  InAllOpts.C17_history_consumed_valid h hm htv hnb hw

/-- the oracle's rule for histories: if the input up to some point is ill-formed (no `;`, no numeric escape),
    no all-successful history of calls gets the parser to that point -/
theorem C17_history_ill_formed_prefix_fails {cfg : Cfg} {mode : Mode} {bytes w rest : List UInt8}
    {faulty : Bool} {ops : List Op}
    (hm : mode ≠ .str) (hno : ∀ b ∈ bytes, b ≠ 59) (hnb : InAllOpts.NoNumEsc bytes)
    (hw : bytes = w ++ rest) (hbad : Utf8.valid w = false) :
    ∀ S', InAllOpts.runAccepted cfg ops (initSt mode bytes faulty) = some S' → S'.rd.rest ≠ rest :=
  InAllOpts.C17_history_ill_formed_prefix_fails hm hno hnb hw hbad

/-- `runAccepted` describes `runHistory`: all `ops.length` items were produced and each is a success -/
theorem C17_runAccepted_items {cfg : Cfg} (ops : List Op) {s s' : St}
    (h : InAllOpts.runAccepted cfg ops s = some s') :
    (runHistory cfg ops s).length = ops.length ∧
      ∀ it ∈ runHistory cfg ops s, InAllOpts.Item.accepted it = true :=
  InAllOpts.runAccepted_some_items ops h


/-- the history clause stated on `runHistory`, the function the correspondence runs against the real parser:
    if every item of the history is a success, the parser reached a state, and what it consumed to get there
    is valid UTF-8 -/
theorem C17_history_all_success_consumed_valid {cfg : Cfg} {mode : Mode} {bytes : List UInt8} {faulty : Bool}
    {ops : List Op}
    (hall : ∀ it ∈ runHistory cfg ops (initSt mode bytes faulty), InAllOpts.Item.accepted it = true)
    (hm : mode ≠ .str) (htv : InAll.TV bytes)
    (hnb : cfg.opts.string = .elisp → InAllOpts.NoNumEsc bytes) :
    ∃ S', InAllOpts.runAccepted cfg ops (initSt mode bytes faulty) = some S' ∧
      ∀ w, bytes = w ++ S'.rd.rest → Utf8.valid w = true := by
  obtain ⟨S', h⟩ := InAllOpts.runAccepted_of_items ops _ hall
  exact ⟨S', h, fun w hw => InAllOpts.C17_history_consumed_valid h hm htv hnb hw⟩

example : Utf8.valid [0xCE, 0xBB, 40, 120, 41] = true ∧ Utf8.valid [0xCE] = false ∧ Utf8.incomplete [0xCE] = true ∧
    Utf8.valid [0xC0, 0x80] = false ∧ Utf8.valid [0xED, 0xA0, 0x80] = false := by decide

end Parse
end Lexpr
