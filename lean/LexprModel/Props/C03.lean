/-
  C03 — parsing is total; bounded recursion.
  Fully proved in LexprModel/Proofs/Progress.lean (imported here): `C03_fuel`, `C03_fuel_bound`,
  `C03_fuel_scanners`, `C03_fuel_history` — with the fuel the public entry points pass, no call ever
  runs out of fuel, so fuel never changes a result ("fails to return" is excluded in the model).
  `C03_no_panic` over the whole parser and depth restoration: LexprModel/Proofs/Safety.lean (when
  present).  Proved here: the depth budget
  mechanism itself — charging never underflows while at least one level is left, the last level is
  refused with RecursionLimitExceeded and leaves the budget intact, charge-then-release is the
  identity — and, from the regenerated table, that the deepest accepted nesting on the current
  build is 127 (≥ 100) for every nesting construct.
-/
import LexprModel.TablesCheck
import LexprModel.Proofs.Progress
namespace Lexpr
namespace Parse

/-- with at least two levels left, `enter` succeeds and takes exactly one -/
theorem C03_enter_ok (s : St) (h : 2 ≤ s.depth) :
    enter s = .ok () { s with depth := s.depth - 1 } := by
  have h1 : (s.depth == 0) = false := by simp; omega
  have h2 : (s.depth - 1 == 0) = false := by simp; omega
  simp [enter, h1, h2]

/-- with exactly one level left, `enter` refuses with RecursionLimitExceeded and keeps the budget -/
theorem C03_enter_limit (s : St) (h : s.depth = 1) :
    ∃ l c, enter s = .err (.syntax .recursionLimitExceeded l c) s := by
  simp [enter, h]

/-- `enter` panics only with an exhausted budget — which the invariant `1 ≤ depth` excludes -/
theorem C03_enter_no_panic (s : St) (h : 1 ≤ s.depth) : ∀ p, enter s ≠ .panic p := by
  intro p
  have h1 : (s.depth == 0) = false := by simp; omega
  simp only [enter, h1, Bool.false_eq_true, ↓reduceIte]
  split <;> simp

/-- charge then release restores the budget -/
theorem C03_enter_leave (s : St) (h : 2 ≤ s.depth) :
    (enter >>= fun _ => leave) s = .ok () s := by
  show P.bind enter (fun _ => leave) s = _
  simp only [P.bind, C03_enter_ok s h, leave]
  cases s with
  | mk rd depth =>
    simp only at h ⊢
    congr 2
    omega

/-- a fresh parser has 128 levels: 127 nested openers are accepted, the 128th is refused -/
theorem C03_initial_budget (m : Mode) (bytes : List UInt8) : (initSt m bytes).depth = 128 := rfl

/-- on the current build, probing the real parser: the deepest accepted nesting is 127 for
    parentheses, brackets (as lists and as vectors), `#(`, quote and unquote-splicing shorthands -/
theorem C03_limit_observed : Gen.depthLimits.all (fun n => n == 127 && decide (n ≥ 100)) = true := by
  decide +kernel

example : ∃ l c, enter { rd := { mode := .slice, rest := [] }, depth := 1 } =
    .err (.syntax .recursionLimitExceeded l c) { rd := { mode := .slice, rest := [] }, depth := 1 } :=
  C03_enter_limit _ rfl

end Parse
end Lexpr
