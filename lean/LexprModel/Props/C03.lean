/-
  C03 — parsing is total; bounded recursion.
  Fully proved in LexprModel/Proofs/Progress.lean (imported here): `C03_fuel`, `C03_fuel_bound`,
  `C03_fuel_scanners`, `C03_fuel_history` — with the fuel the public entry points pass, no call ever
  runs out of fuel, so fuel never changes a result ("fails to return" is excluded in the model).
  Fully proved in LexprModel/Proofs/Safety.lean (imported here), by a Hoare logic over the parser monad
  with one spec per model function: `C03_no_panic_value/_datum/_expectValue/_expectDatum/_fromTrait/
  _fromTraitDatum/_top/_expectEnd` — no entry point reaches any of the model's panic sites (each is a
  panic, `unreachable!`, arithmetic overflow or slice-index site of the real code) on inputs shorter
  than 2^31-2 bytes; `C03_no_panic_history`, `C03_no_panic_iterate` — nor does any history of calls on
  one parser or any iteration; `depth_restored_value/_datum` — every call, successful or failing,
  leaves the depth budget as it found it; `C03_enter_limit`; `C03_accepted_shallow(_fresh)` — an
  accepted value nests less deep than the budget (≤ 127 from a fresh parser); `C03_utf8_decodable`
  discharges the `unreachable!` of `decode_utf8_sequence`.  Proved here: the depth budget
  mechanism itself — charging never underflows while at least one level is left, the last level is
  refused with RecursionLimitExceeded and leaves the budget intact, charge-then-release is the
  identity — and, from the regenerated table, that the deepest accepted nesting on the current
  build is 127 (≥ 100) for every nesting construct.
-/
import LexprModel.TablesCheck
import LexprModel.Proofs.Progress
import LexprModel.Proofs.Safety
namespace Lexpr
namespace Parse

/-- with at least two levels left, `enter` succeeds and takes exactly one -/
theorem C03_enter_ok (s : St) (h : 2 ≤ s.depth) :
    enter s = .ok () { s with depth := s.depth - 1 } := by
  have h1 : (s.depth == 0) = false := by simp; omega
  have h2 : (s.depth - 1 == 0) = false := by simp; omega
  simp [enter, h1, h2]

/-- `enter` panics only with an exhausted budget — which the invariant `1 ≤ depth` excludes -/
theorem C03_enter_no_panic (s : St) (h : 1 ≤ s.depth) : ∀ p, enter s ≠ .panic p := by
  intro p
  have h1 : (s.depth == 0) = false := by simp; omega
  simp only [enter, h1, Bool.false_eq_true, ↓reduceIte]
  split <;> simp

/-- charge then release restores the budget -/
theorem C03_enter_leave (s : St) (h : 2 ≤ s.depth) :
    (enter >>= fun _ => leave) s = .ok () s := by
  show P.bind enter (fun _ => leave) s = _
  simp only [P.bind, C03_enter_ok s h, leave]
  cases s with
  | mk rd depth =>
    simp only at h ⊢
    congr 2
    omega

/-- a fresh parser has 128 levels: 127 nested openers are accepted, the 128th is refused -/
theorem C03_initial_budget (m : Mode) (bytes : List UInt8) : (initSt m bytes).depth = 128 := rfl

/-- on the current build, probing the real parser: the deepest accepted nesting is 127 for
    parentheses, brackets (as lists and as vectors), `#(`, quote and unquote-splicing shorthands -/
theorem C03_limit_observed : Gen.depthLimits.all (fun n => n == 127 && decide (n ≥ 100)) = true := by
  decide +kernel

example : ∃ e, enter { rd := { mode := .slice, rest := [] }, depth := 1 } =
    .err e { rd := { mode := .slice, rest := [] }, depth := 1 } :=
  ⟨_, C03_enter_limit _ rfl⟩

end Parse
end Lexpr
