/-
  C07 — every sink receives exactly the printed text; write errors surface.
-/
import LexprModel.Print
namespace Lexpr
namespace Print

/-- every emission goes through `write_all` -/
def AllAll (es : List Emit) : Prop := ∀ e ∈ es, e.isAll = true

theorem AllAll.nil : AllAll [] := by intro e h; cases h
theorem AllAll.cons {e : Emit} {es : List Emit} (h : e.isAll = true) (hs : AllAll es) :
    AllAll (e :: es) := by
  intro x hx; cases hx with
  | head => exact h
  | tail _ hx => exact hs x hx
theorem AllAll.append {a b : List Emit} (ha : AllAll a) (hb : AllAll b) : AllAll (a ++ b) := by
  intro x hx; rcases List.mem_append.mp hx with h | h
  · exact ha x h
  · exact hb x h

theorem atomEmits_all (o : Options) (ryu : Nat → List UInt8) (v : Value) :
    AllAll (atomEmits o ryu v) := by
  cases v <;> simp [atomEmits, AllAll, Emit.isAll, keywordEmits, bytesEmits] <;>
    (try cases o.keyword <;> simp [Emit.isAll]) <;> (try cases o.bytes <;> simp [Emit.isAll])

theorem dot_all : AllAll [Emit.all (asc " "), Emit.all (asc "."), Emit.all (asc " ")] := by
  simp [AllAll, Emit.isAll]

mutual
theorem emits_all (o : Options) (ryu : Nat → List UInt8) : ∀ v : Value, AllAll (emits o ryu v)
  | .cons a d => by
    simp only [emits]
    exact AllAll.cons rfl (AllAll.append (AllAll.append (emits_all o ryu a) (emitsTail_all o ryu d))
      (AllAll.cons rfl AllAll.nil))
  | .vector xs => by
    simp only [emits]
    exact AllAll.cons rfl (AllAll.append (emitsSeq_all o ryu true xs) (AllAll.cons rfl AllAll.nil))
  | .nil => by simp only [emits]; exact atomEmits_all _ _ _
  | .null => by simp only [emits]; exact atomEmits_all _ _ _
  | .bool _ => by simp only [emits]; exact atomEmits_all _ _ _
  | .number _ => by simp only [emits]; exact atomEmits_all _ _ _
  | .char _ => by simp only [emits]; exact atomEmits_all _ _ _
  | .string _ => by simp only [emits]; exact atomEmits_all _ _ _
  | .symbol _ => by simp only [emits]; exact atomEmits_all _ _ _
  | .keyword _ => by simp only [emits]; exact atomEmits_all _ _ _
  | .bytes _ => by simp only [emits]; exact atomEmits_all _ _ _
theorem emitsTail_all (o : Options) (ryu : Nat → List UInt8) : ∀ v : Value, AllAll (emitsTail o ryu v)
  | .null => by simp only [emitsTail]; exact AllAll.nil
  | .cons a d => by
    simp only [emitsTail]
    exact AllAll.cons rfl (AllAll.append (emits_all o ryu a) (emitsTail_all o ryu d))
  | .vector xs => by
    simp only [emitsTail]
    exact AllAll.append dot_all
      (AllAll.cons rfl (AllAll.append (emitsSeq_all o ryu true xs) (AllAll.cons rfl AllAll.nil)))
  | .nil => by simp only [emitsTail]; exact AllAll.append dot_all (atomEmits_all _ _ _)
  | .bool _ => by simp only [emitsTail]; exact AllAll.append dot_all (atomEmits_all _ _ _)
  | .number _ => by simp only [emitsTail]; exact AllAll.append dot_all (atomEmits_all _ _ _)
  | .char _ => by simp only [emitsTail]; exact AllAll.append dot_all (atomEmits_all _ _ _)
  | .string _ => by simp only [emitsTail]; exact AllAll.append dot_all (atomEmits_all _ _ _)
  | .symbol _ => by simp only [emitsTail]; exact AllAll.append dot_all (atomEmits_all _ _ _)
  | .keyword _ => by simp only [emitsTail]; exact AllAll.append dot_all (atomEmits_all _ _ _)
  | .bytes _ => by simp only [emitsTail]; exact AllAll.append dot_all (atomEmits_all _ _ _)
theorem emitsSeq_all (o : Options) (ryu : Nat → List UInt8) :
    ∀ (first : Bool) (xs : List Value), AllAll (emitsSeq o ryu first xs)
  | _, [] => by simp only [emitsSeq]; exact AllAll.nil
  | true, x :: xs => by
    simp only [emitsSeq]; exact AllAll.append (emits_all o ryu x) (emitsSeq_all o ryu false xs)
  | false, x :: xs => by
    simp only [emitsSeq]
    exact AllAll.cons rfl (AllAll.append (emits_all o ryu x) (emitsSeq_all o ryu false xs))
end

/-- **C07_all_writeAll**: for every option set and value, every emission is a `write_all`. -/
theorem C07_all_writeAll (o : Options) (ryu : Nat → List UInt8) (v : Value) :
    ∀ e ∈ emits o ryu v, e.isAll = true := emits_all o ryu v

/-! ### delivery: `write_all` against any schedule of sink answers -/

theorem writeAll_prefix (sched : List Resp) (buf : List UInt8) :
    (writeAll sched buf).2.1 <+: buf ∧
    ((writeAll sched buf).1 = .ok → (writeAll sched buf).2.1 = buf) := by
  induction sched generalizing buf with
  | nil => cases buf <;> simp [writeAll]
  | cons r s ih =>
    cases buf with
    | nil => simp [writeAll]
    | cons b bs =>
      cases r with
      | accept k =>
        simp only [writeAll]
        split
        · simp
        · rename_i hk
          have := ih ((b :: bs).drop (min k (bs.length + 1)))
          obtain ⟨hp, hok⟩ := this
          constructor
          · obtain ⟨t, ht⟩ := hp
            refine ⟨t, ?_⟩
            simp only [List.append_assoc, ht, List.take_append_drop]
          · intro h
            have := hok h
            simp only [this, List.take_append_drop]
      | interrupted => simpa [writeAll] using ih (b :: bs)
      | fail => simp [writeAll]

/-- **C07_delivery**: when every emission is a `write_all`, whatever the sink answers
    (short counts, zero counts, `Interrupted`, errors, in any order): the bytes delivered are a
    prefix of the printed text, and if the print call reports success they are all of it. -/
theorem C07_delivery (es : List Emit) (h : AllAll es) (sched : List Resp) :
    (runEmits es sched).2 <+: flatten es ∧
    ((runEmits es sched).1 = .ok → (runEmits es sched).2 = flatten es) := by
  induction es generalizing sched with
  | nil => simp [runEmits, flatten]
  | cons e es ih =>
    have he : e.isAll = true := h e (List.mem_cons_self)
    have hes : AllAll es := fun x hx => h x (List.mem_cons_of_mem _ hx)
    cases e with
    | one bs => simp [Emit.isAll] at he
    | all bs =>
      have hw := writeAll_prefix sched bs
      simp only [runEmits, flatten, List.flatMap_cons, Emit.bytes]
      rcases hres : writeAll sched bs with ⟨r, out, s'⟩
      rw [hres] at hw
      cases r with
      | err =>
        simp only
        exact ⟨by obtain ⟨t, ht⟩ := hw.1; exact ⟨t ++ List.flatMap Emit.bytes es, by simp [← ht]⟩,
               by intro h; cases h⟩
      | ok =>
        have hout : out = bs := hw.2 rfl
        subst hout
        have := ih hes s'
        simp only [flatten] at this
        constructor
        · obtain ⟨t, ht⟩ := this.1
          exact ⟨t, by simp [← ht]⟩
        · intro hok
          simp only at hok
          have := this.2 hok
          simp [this]

/-- Corollary for the printer: a print call that returns `Ok` has delivered exactly the text,
    and a failed one a prefix of it. -/
theorem C07_print_delivery (o : Options) (ryu : Nat → List UInt8) (v : Value) (sched : List Resp) :
    (runEmits (emits o ryu v) sched).2 <+: text o ryu v ∧
    ((runEmits (emits o ryu v) sched).1 = .ok → (runEmits (emits o ryu v) sched).2 = text o ryu v) :=
  C07_delivery _ (emits_all o ryu v) sched

/-- A sink whose schedule contains a failure or a zero-length acceptance before the text is
    complete cannot make the call succeed with less than the text: success implies everything was
    delivered (contrapositive form of "an error is returned rather than success"). -/
theorem C07_no_silent_loss (o : Options) (ryu : Nat → List UInt8) (v : Value) (sched : List Resp)
    (h : (runEmits (emits o ryu v) sched).2 ≠ text o ryu v) :
    (runEmits (emits o ryu v) sched).1 = .err := by
  have := (C07_print_delivery o ryu v sched).2
  cases hr : (runEmits (emits o ryu v) sched).1 with
  | ok => exact absurd (this hr) h
  | err => rfl

/-- With a bare `write` in the emission list the delivery theorem is false: witness. -/
theorem C07_write_witness :
    runEmits [.one [49, 50, 51]] [.accept 1] = (.ok, [49]) := by decide

/-! ### the two formatters agree on default options -/

theorem atom_default_eq (ryu : Nat → List UInt8) (v : Value) :
    atomEmitsDefault ryu v = atomEmits Options.default ryu v := by
  cases v <;> simp [atomEmitsDefault, atomEmits, Options.default, nilText, boolText, charText,
    keywordEmits, bytesEmits] <;> (try split <;> rfl)

mutual
theorem emits_default_eq (ryu : Nat → List UInt8) :
    ∀ v : Value, emitsDefault ryu v = emits Options.default ryu v
  | .cons a d => by
    simp only [emitsDefault, emits, emits_default_eq ryu a, emitsTail_default_eq ryu d]
  | .vector xs => by
    simp only [emitsDefault, emits, emitsSeq_default_eq ryu true xs]; rfl
  | .nil => by simp only [emitsDefault, emits]; exact atom_default_eq ..
  | .null => by simp only [emitsDefault, emits]; exact atom_default_eq ..
  | .bool _ => by simp only [emitsDefault, emits]; exact atom_default_eq ..
  | .number _ => by simp only [emitsDefault, emits]; exact atom_default_eq ..
  | .char _ => by simp only [emitsDefault, emits]; exact atom_default_eq ..
  | .string _ => by simp only [emitsDefault, emits]; exact atom_default_eq ..
  | .symbol _ => by simp only [emitsDefault, emits]; exact atom_default_eq ..
  | .keyword _ => by simp only [emitsDefault, emits]; exact atom_default_eq ..
  | .bytes _ => by simp only [emitsDefault, emits]; exact atom_default_eq ..
theorem emitsTail_default_eq (ryu : Nat → List UInt8) :
    ∀ v : Value, emitsTailDefault ryu v = emitsTail Options.default ryu v
  | .null => by simp only [emitsTailDefault, emitsTail]
  | .cons a d => by
    simp only [emitsTailDefault, emitsTail, emits_default_eq ryu a, emitsTail_default_eq ryu d]
  | .vector xs => by
    simp only [emitsTailDefault, emitsTail, emitsSeq_default_eq ryu true xs]; rfl
  | .nil => by simp only [emitsTailDefault, emitsTail, atom_default_eq]
  | .bool _ => by simp only [emitsTailDefault, emitsTail, atom_default_eq]
  | .number _ => by simp only [emitsTailDefault, emitsTail, atom_default_eq]
  | .char _ => by simp only [emitsTailDefault, emitsTail, atom_default_eq]
  | .string _ => by simp only [emitsTailDefault, emitsTail, atom_default_eq]
  | .symbol _ => by simp only [emitsTailDefault, emitsTail, atom_default_eq]
  | .keyword _ => by simp only [emitsTailDefault, emitsTail, atom_default_eq]
  | .bytes _ => by simp only [emitsTailDefault, emitsTail, atom_default_eq]
theorem emitsSeq_default_eq (ryu : Nat → List UInt8) :
    ∀ (first : Bool) (xs : List Value),
      emitsSeqDefault ryu first xs = emitsSeq Options.default ryu first xs
  | _, [] => by simp only [emitsSeqDefault, emitsSeq]
  | true, x :: xs => by
    simp only [emitsSeqDefault, emitsSeq, emits_default_eq ryu x, emitsSeq_default_eq ryu false xs]
  | false, x :: xs => by
    simp only [emitsSeqDefault, emitsSeq, emits_default_eq ryu x, emitsSeq_default_eq ryu false xs]
end

/-- **C07_default_eq_custom**: the default printer and the customised printer with default
    options emit the same calls, hence the same bytes. -/
theorem C07_default_eq_custom (ryu : Nat → List UInt8) (v : Value) :
    emitsDefault ryu v = emits Options.default ryu v ∧ textDefault ryu v = text Options.default ryu v := by
  refine ⟨emits_default_eq ryu v, ?_⟩
  simp [textDefault, text, emits_default_eq ryu v]

example : AllAll (emits Options.elisp (fun _ => asc "1.5")
    (.cons (.number (.pos 12345)) (.cons (.bytes [200, 100]) .null))) := emits_all _ _ _

end Print
end Lexpr
