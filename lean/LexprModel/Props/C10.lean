/-
  C10 — the location-tracking parse API agrees with the plain value API.
  The lock-step simulation `C10_sim` (nextDatum mapped to values = nextValue) and the accessor
  theorems for parser-produced datums are in LexprModel/Proofs/DatumValue.lean (when present).
  Proved here: conversion and the vector/pair accessors on well-shaped span trees.
-/
import LexprModel.Parse
namespace Lexpr
namespace Parse

/-- `Value::from(datum)` is `datum.value()` (both are the field) -/
theorem C10_into_value (d : Datum) : (⟨d.value, d.info⟩ : Datum).value = d.value := rfl

/-- `vector_iter` exposes exactly the vector's elements when the span tree has one entry per element -/
theorem C10_vector_iter (xs : List Value) (ms : List SpanInfo) (sp : Span) (h : ms.length = xs.length) :
    ((⟨.vector xs, .vec sp ms⟩ : Datum).vectorIter).map (·.map Datum.value) = some xs := by
  simp only [Datum.vectorIter, Option.map_some, Option.some.injEq, List.map_map]
  induction xs generalizing ms with
  | nil => simp
  | cons x xs ih =>
    cases ms with
    | nil => simp at h
    | cons m ms =>
      simp only [List.zip_cons_cons, List.map_cons, Function.comp_apply, List.cons.injEq, true_and]
      exact ih ms (by simpa using h)

/-- `as_pair` on a pair with a pair-shaped span tree returns car and cdr (the `unreachable!` does not fire) -/
theorem C10_as_pair (a b : Value) (sp : Span) (cm dm : SpanInfo) :
    (⟨.cons a b, .cons sp cm dm⟩ : Datum).asPair = some (some (⟨a, cm⟩, ⟨b, dm⟩)) := rfl

/-- the quotation datum has the value `(name quoted)` and a pair-shaped span tree -/
theorem C10_quotation_value (q : Quote) (d : Datum) (sp : Span) :
    (Datum.quotation q d sp).value = Value.list [.symbol q.name, d.value] := rfl

example : (Datum.quotation .quote ⟨.symbol [97], .prim ⟨⟨1, 1⟩, ⟨1, 2⟩⟩⟩ ⟨⟨1, 0⟩, ⟨1, 1⟩⟩).asPair.isSome = true := rfl

end Parse
end Lexpr
