/-
  C10 — the location-tracking parse API agrees with the plain value API.

  Fully proved (LexprModel/Proofs/DatumValue.lean, imported here), for every configuration, fuel and
  parser state:
   * `C10_sim`: `nextDatum` mapped to its value equals `nextValue` — same value or same error (code and
     position), same residual state, same panic/fuel; `C10_sim_list`, `C10_sim_vector` for the
     duplicated list and vector readers; `C10_sim_api` for `next_datum`/`expect_datum`/`from_*`;
   * `C10_streams`: any call history with the datum operations yields, item for item, what the same
     history with the value operations yields (`runHistory`, `iterate`), so the streams end together;
   * `C10_into_value`; `C10_shaped`: every datum any entry point returns has a span tree mirroring its
     value; on such datums `C10_list_iter` (the datum list iterator never hits its `expect` and yields
     the value iterator's items), `C10_as_pair` (the `unreachable!` never fires), `C10_vector_iter`.
-/
import LexprModel.Proofs.DatumValue
namespace Lexpr
namespace Parse

/-- the quotation datum has the value `(name quoted)` -/
theorem C10_quotation_value (q : Quote) (d : Datum) (sp : Span) :
    (Datum.quotation q d sp).value = Value.list [.symbol q.name, d.value] := rfl

example : (Datum.quotation .quote ⟨.symbol [97], .prim ⟨⟨1, 1⟩, ⟨1, 2⟩⟩⟩ ⟨⟨1, 0⟩, ⟨1, 1⟩⟩).asPair.isSome = true := rfl

end Parse
end Lexpr
