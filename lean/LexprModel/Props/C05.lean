/-
  C05 — numeric literals denote their exact mathematical value.
  Fully proved (LexprModel/Proofs/Numbers.lean, imported here; namespace Lexpr.Numbers):
   * `overflow_iff`: the `overflow!` test is exact; `rn_exact`: integers below 2^53 convert exactly;
     `mulPos_correct`, `divPos_correct`: one multiplication / division of exact operands is one correct
     rounding of the exact product / quotient;
   * `C05_fast_exact`, `C05_f64FromParts_fast`: with `sig < 2^53` and `|e| <= 22` the fast path returns the
     correctly rounded `sig * 10^e` (premise: the first 23 POW10 entries are exact — discharged for the
     regenerated table by `pow10Tab_exact`);
   * `C05_int_digits_radix`, `C05_int_digits`: an integer literal in radix 2, 8, 10 or 16 with any
     number of leading zeros whose value is at most u64::MAX reads as exactly that integer; negative
     literals down to -2^63 as that i64, below that as the negated float;
   * `C05_never_inf`, `C05_out_of_range`: the conversion never returns infinity or NaN; the only error is
     NumberOutOfRange.
  Not yet covered by theorems: the fraction/exponent scanners (`parseDecimal`, `parseExponent`), the
  long-integer path and the 2^-50 accuracy bound outside the exact region (checked by the oracle).  Proved here, against the table regenerated from the code on this run: every `POW10`
  entry is the correctly rounded power of ten and the first 23 are exact (the premise of the
  exactness region |exponent| ≤ 22); and basic facts of the rounding function.
-/
import LexprModel.TablesCheck
import LexprModel.Proofs.Numbers
namespace Lexpr
namespace F64

/-- the table the fast path multiplies and divides by: correctly rounded, all 309 entries -/
theorem C05_pow10_rounded :
    Gen.pow10Bits.length = 309 ∧
    (List.range 309).all (fun k => Gen.pow10Bits.getD k 0 == rn (10 ^ k) 1) = true :=
  TablesCheck.pow10_rounded

/-- … and exact up to 10^22 -/
theorem C05_pow10_exact :
    (List.range 23).all (fun k =>
      let (m, p) := decode (Gen.pow10Bits.getD k 0)
      p ≤ 0 && m == 10 ^ k * 2 ^ (-p).toNat || (p > 0 && m * 2 ^ p.toNat == 10 ^ k)) = true :=
  TablesCheck.pow10_exact

/-- zero has a zero significand whatever the exponent: the result is (signed) zero, not an error -/
theorem C05_zero (e : Int) : rnDec 0 e = 0 := by simp [rnDec]

/-- a literal beyond the range of a double rounds to infinity in the exact reader, which the parser
    turns into NumberOutOfRange -/
theorem C05_huge (s : Nat) (hs : s ≠ 0) (e : Int) (he : e > 400) : rnDec s e = infBits := by
  simp [rnDec, hs, he]

example : rn 1 1 = 0x3FF0000000000000 ∧ rn 1 10 = 0x3FB999999999999A ∧ rn 5 (10 ^ 324) = 1 := by
  decide +kernel

end F64
end Lexpr
