/-
  C05 — numeric literals denote their exact mathematical value.
  Fully proved (LexprModel/Proofs/Numbers.lean, imported here; namespace Lexpr.Numbers):
   * `overflow_iff`: the `overflow!` test is exact; `rn_exact`: integers below 2^53 convert exactly;
     `mulPos_correct`, `divPos_correct`: one multiplication / division of exact operands is one correct
     rounding of the exact product / quotient;
   * `C05_fast_exact`, `C05_f64FromParts_fast`: with `sig < 2^53` and `|e| <= 22` the fast path returns the
     correctly rounded `sig * 10^e` (premise: the first 23 POW10 entries are exact — discharged for the
     regenerated table by `pow10Tab_exact`);
   * `C05_int_digits_radix`, `C05_int_digits`: an integer literal in radix 2, 8, 10 or 16 with any
     number of leading zeros whose value is at most u64::MAX reads as exactly that integer; negative
     literals down to -2^63 as that i64, below that as the negated float;
   * `C05_never_inf`, `C05_out_of_range`: the conversion never returns infinity or NaN; the only error is
     NumberOutOfRange.
  Decimal literals (LexprModel/Proofs/Decimals.lean, imported here): `C05_scan_parts` — the scanners
  (`parseNumLiteral`, `parseDecimal`, `parseExponent`, trailing-zero stripping) deliver exactly the
  significand/exponent pair of the written literal; `C05_rnDec_eq(_all)`; `C05_decimal_exact` — in the
  default build a literal whose digits fit 2^53 with |exponent| ≤ 22 reads as the correctly rounded
  double of its exact value; `C05_decimal_exact_nofast` — without fast-float-parsing every literal with
  at most 19 significant digits (sig ≤ u64::MAX) does; `C05_decimal_token` — as a whole token;
  `C05_out_of_range_literal`, `C05_literal_finite_or_range`, `C05_any_literal_finite_or_range` — every
  literal of any length reads as a finite double or is rejected as NumberOutOfRange at its end, never
  infinity, NaN, panic or fuel exhaustion; `atomRT_float` — the printer's shortest form of a double
  (ryu as a specified parameter, `RyuSpec`) reads back bit-exactly in the exactness window (default
  build) or always (other build); witnesses `atomRT_float_window_needed` (1e-23 is one ulp off in
  the default build, allowed by the property) and `C05_out_of_range_fast_counterexample`.
  Accuracy clause (LexprModel/Proofs/Accuracy.lean with AccuracyRn, AccuracyFast, AccuracyLit,
  AccuracyTrunc, AccuracyEx; imported here; values as core `Rat`): `rn_relerr` / `rn_abserr` — one
  rounding is within 2^-53 relative in the normal range and 2^-1075 absolute below it;
  `C05_accuracy_fast(_tight)` — whatever the fast path returns for `sig * 10^e` (sig < 2^64, any
  exponent) is finite and within 2^-50 relative + 2^-1074 absolute (in fact 6*2^-53 and
  1.125*2^-1075) of the exact value, given the table is correctly rounded (`tab_rounded`, from the
  regenerated table); `C05_accuracy_nofast` (2^-53 without fast-float-parsing);
  `C05_accuracy_parts`, `C05_accuracy_literal`, and `C05_accuracy_any_literal` — a decimal literal
  of ANY length (the truncation of over-long significands included) reads as a finite double within
  that bound of its exact value, or is rejected as NumberOutOfRange at its end; kernel-evaluated
  instances equal to the bits the real code returns (1e-23, 5e-324, 1e-320, 18446744073709551616.5, …).
  Written exponents of ANY size (LexprModel/Proofs/ExpOverflow.lean, ExpOverflowVal.lean, ExpAll.lean; imported
  here): `scan_over` (the overflow path of `parse_exponent` / `parse_exponent_overflow` in closed form),
  `C05_exp_overflow` — an exponent that does not fit i32 gives signed zero when every digit is zero (value 0)
  or the exponent is negative (value below 2^-1075: zero IS the correct rounding), and NumberOutOfRange when
  positive (value at least 2^1024); `C05_accuracy_all_exponents` — the accuracy statement with no bound on the
  exponent at all, for literals shorter than 2^31 - 324 bytes.  That length bound is needed
  (`length_bound_needed`, `length_bound_needed_pos`: a 2 GiB run of zeros can compensate the exponent —
  reproduced on the real crate: `1` + (2^31-101 zeros) + `e-2147483648` reads as 0.0 although it denotes
  1e-101; recorded in DESIGN.md section 9 as an observation, no check feeds 2 GiB inputs).
  Not covered by a theorem: that acceptance is complete near f64::MAX (known findings).
  Proved here, against the table regenerated from the code on this run: every `POW10`
  entry is the correctly rounded power of ten and the first 23 are exact (the premise of the
  exactness region |exponent| ≤ 22); and basic facts of the rounding function.
-/
import LexprModel.TablesCheck
import LexprModel.Proofs.Numbers
import LexprModel.Proofs.Decimals
import LexprModel.Proofs.Accuracy
import LexprModel.Proofs.ExpAll
namespace Lexpr
namespace F64

/-- the table the fast path multiplies and divides by: correctly rounded, all 309 entries -/
theorem C05_pow10_rounded :
    Gen.pow10Bits.length = 309 ∧
    (List.range 309).all (fun k => Gen.pow10Bits.getD k 0 == rn (10 ^ k) 1) = true :=
  TablesCheck.pow10_rounded

/-- … and exact up to 10^22 -/
theorem C05_pow10_exact :
    (List.range 23).all (fun k =>
      let (m, p) := decode (Gen.pow10Bits.getD k 0)
      p ≤ 0 && m == 10 ^ k * 2 ^ (-p).toNat || (p > 0 && m * 2 ^ p.toNat == 10 ^ k)) = true :=
  TablesCheck.pow10_exact

/-- zero has a zero significand whatever the exponent: the result is (signed) zero, not an error -/
theorem C05_zero (e : Int) : rnDec 0 e = 0 := by simp [rnDec]

/-- a literal beyond the range of a double rounds to infinity in the exact reader, which the parser
    turns into NumberOutOfRange -/
theorem C05_huge (s : Nat) (hs : s ≠ 0) (e : Int) (he : e > 400) : rnDec s e = infBits := by
  simp [rnDec, hs, he]

example : rn 1 1 = 0x3FF0000000000000 ∧ rn 1 10 = 0x3FB999999999999A ∧ rn 5 (10 ^ 324) = 1 := by
  decide +kernel

end F64

/-- **C05_accuracy** (the accuracy clause of the property, default build, the table regenerated from
    the code on this run): whatever `f64_from_parts` returns for a non-zero significand below 2^64 and
    any exponent is a finite double within relative error 2^-50 (plus 2^-1074 for results in the
    subnormal range) of `sig * 10^e`. -/
theorem C05_accuracy {sig : Nat} {e : Int} {f : Nat} (hs0 : sig ≠ 0) (hs64 : sig < 2 ^ 64)
    (h : Accuracy.fastReal sig e = some f) :
    f < F64.infBits ∧
    Accuracy.dec sig e * (1 - Accuracy.c50) - Accuracy.a1074 ≤ Accuracy.val f ∧
    Accuracy.val f ≤ Accuracy.dec sig e * (1 + Accuracy.c50) + Accuracy.a1074 :=
  Accuracy.C05_accuracy_fast_real hs0 hs64 h

end Lexpr
