/-
  C05 — numeric literals denote their exact mathematical value.
  Scanner theorems (integer literals, `C05_fast_exact`) are in LexprModel/Proofs/Numbers.lean (when
  present).  Proved here, against the table regenerated from the code on this run: every `POW10`
  entry is the correctly rounded power of ten and the first 23 are exact (the premise of the
  exactness region |exponent| ≤ 22); and basic facts of the rounding function.
-/
import LexprModel.Lex
import LexprModel.TablesCheck
namespace Lexpr
namespace F64

/-- the table the fast path multiplies and divides by: correctly rounded, all 309 entries -/
theorem C05_pow10_rounded :
    Gen.pow10Bits.length = 309 ∧
    (List.range 309).all (fun k => Gen.pow10Bits.getD k 0 == rn (10 ^ k) 1) = true :=
  TablesCheck.pow10_rounded

/-- … and exact up to 10^22 -/
theorem C05_pow10_exact :
    (List.range 23).all (fun k =>
      let (m, p) := decode (Gen.pow10Bits.getD k 0)
      p ≤ 0 && m == 10 ^ k * 2 ^ (-p).toNat || (p > 0 && m * 2 ^ p.toNat == 10 ^ k)) = true :=
  TablesCheck.pow10_exact

/-- zero has a zero significand whatever the exponent: the result is (signed) zero, not an error -/
theorem C05_zero (e : Int) : rnDec 0 e = 0 := by simp [rnDec]

/-- a literal beyond the range of a double rounds to infinity in the exact reader, which the parser
    turns into NumberOutOfRange -/
theorem C05_huge (s : Nat) (hs : s ≠ 0) (e : Int) (he : e > 400) : rnDec s e = infBits := by
  simp [rnDec, hs, he]

example : rn 1 1 = 0x3FF0000000000000 ∧ rn 1 10 = 0x3FB999999999999A ∧ rn 5 (10 ^ 324) = 1 := by
  decide +kernel

end F64
end Lexpr
