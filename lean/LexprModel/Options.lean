/-
  Printer options (print.rs, 576 sets) and parser options (parse/mod.rs, 1536 sets).
-/
import LexprModel.Basic
namespace Lexpr

inductive KeywordSyntax where | colonPrefix | colonPostfix | octothorpe
  deriving DecidableEq, Repr, Inhabited
inductive StringSyntax where | r6rs | elisp
  deriving DecidableEq, Repr, Inhabited
inductive CharSyntax where | r6rs | elisp
  deriving DecidableEq, Repr, Inhabited

namespace Print
inductive NilSyntax where | symbol | token | emptyList | false_
  deriving DecidableEq, Repr, Inhabited
inductive BoolSyntax where | token | symbol
  deriving DecidableEq, Repr, Inhabited
inductive VectorSyntax where | octothorpe | brackets
  deriving DecidableEq, Repr, Inhabited
inductive BytesSyntax where | r6rs | r7rs | elisp
  deriving DecidableEq, Repr, Inhabited

structure Options where
  keyword : KeywordSyntax
  nil : NilSyntax
  bool : BoolSyntax
  vector : VectorSyntax
  bytes : BytesSyntax
  string : StringSyntax
  char : CharSyntax
  deriving DecidableEq, Repr, Inhabited

def Options.default : Options :=
  { keyword := .octothorpe, nil := .token, bool := .token, vector := .octothorpe,
    bytes := .r7rs, string := .r6rs, char := .r6rs }

def Options.elisp : Options :=
  { keyword := .colonPrefix, nil := .symbol, bool := .symbol, vector := .brackets,
    bytes := .elisp, string := .elisp, char := .elisp }

/-- The builder API of `print::Options`: every `with_*` setter assigns exactly its own field. -/
inductive Setter where
  | keyword (k : KeywordSyntax) | nil (n : NilSyntax) | bool (b : BoolSyntax) | vector (v : VectorSyntax)
  | bytes (y : BytesSyntax) | string (s : StringSyntax) | char (c : CharSyntax)
  deriving DecidableEq, Repr

def Options.set (o : Options) : Setter → Options
  | .keyword k => { o with keyword := k }
  | .nil n => { o with nil := n }
  | .bool b => { o with bool := b }
  | .vector v => { o with vector := v }
  | .bytes y => { o with bytes := y }
  | .string s => { o with string := s }
  | .char c => { o with char := c }

/-- a chain of builder calls, applied left to right -/
def Options.build (start : Options) (ops : List Setter) : Options := ops.foldl Options.set start

/-- All 576 printer option sets. -/
def Options.all : List Options := Id.run do
  let mut out := []
  for k in [KeywordSyntax.colonPrefix, .colonPostfix, .octothorpe] do
    for n in [NilSyntax.symbol, .token, .emptyList, .false_] do
      for b in [BoolSyntax.token, .symbol] do
        for v in [VectorSyntax.octothorpe, .brackets] do
          for y in [BytesSyntax.r6rs, .r7rs, .elisp] do
            for s in [StringSyntax.r6rs, .elisp] do
              for c in [CharSyntax.r6rs, .elisp] do
                out := { keyword := k, nil := n, bool := b, vector := v, bytes := y,
                         string := s, char := c } :: out
  return out.reverse
end Print

namespace Parse
inductive NilSymbol where | emptyList | default | special
  deriving DecidableEq, Repr, Inhabited
inductive TSymbol where | true_ | default
  deriving DecidableEq, Repr, Inhabited
inductive Brackets where | list | vector
  deriving DecidableEq, Repr, Inhabited

structure Options where
  kwPrefix : Bool
  kwPostfix : Bool
  kwOctothorpe : Bool
  nil : NilSymbol
  t : TSymbol
  brackets : Brackets
  string : StringSyntax
  char : CharSyntax
  racket : Bool
  leadingDigit : Bool
  deriving DecidableEq, Repr, Inhabited

def Options.default : Options :=
  { kwPrefix := false, kwPostfix := false, kwOctothorpe := true, nil := .default, t := .default,
    brackets := .list, string := .r6rs, char := .r6rs, racket := false, leadingDigit := false }

def Options.new : Options := { Options.default with kwOctothorpe := false }

def Options.elisp : Options :=
  { kwPrefix := true, kwPostfix := false, kwOctothorpe := false, nil := .emptyList, t := .default,
    brackets := .vector, string := .elisp, char := .elisp, racket := false, leadingDigit := true }

def Options.keyword (o : Options) : KeywordSyntax → Bool
  | .colonPrefix => o.kwPrefix
  | .colonPostfix => o.kwPostfix
  | .octothorpe => o.kwOctothorpe

/-- The builder API of `parse::Options`.  `with_keyword_syntax` ADDS one spelling to the enabled set
    (`|=` on the flag byte), `with_keyword_syntaxes` REPLACES the set by the given ones (a fold from
    0); every other setter assigns exactly its own field. -/
inductive Setter where
  | addKeyword (k : KeywordSyntax) | setKeywords (ks : List KeywordSyntax)
  | nil (n : NilSymbol) | t (t : TSymbol) | brackets (b : Brackets) | string (s : StringSyntax)
  | char (c : CharSyntax) | racket (b : Bool) | leadingDigit (b : Bool)
  deriving DecidableEq, Repr

def Options.addKeyword (o : Options) : KeywordSyntax → Options
  | .colonPrefix => { o with kwPrefix := true }
  | .colonPostfix => { o with kwPostfix := true }
  | .octothorpe => { o with kwOctothorpe := true }

def Options.set (o : Options) : Setter → Options
  | .addKeyword k => o.addKeyword k
  | .setKeywords ks =>
    ks.foldl Options.addKeyword { o with kwPrefix := false, kwPostfix := false, kwOctothorpe := false }
  | .nil n => { o with nil := n }
  | .t t => { o with t := t }
  | .brackets b => { o with brackets := b }
  | .string s => { o with string := s }
  | .char c => { o with char := c }
  | .racket b => { o with racket := b }
  | .leadingDigit b => { o with leadingDigit := b }

/-- a chain of builder calls, applied left to right -/
def Options.build (start : Options) (ops : List Setter) : Options := ops.foldl Options.set start
end Parse

end Lexpr
