/-
  Printer options (print.rs, 576 sets) and parser options (parse/mod.rs, 1536 sets).
-/
import LexprModel.Basic
namespace Lexpr

inductive KeywordSyntax where | colonPrefix | colonPostfix | octothorpe
  deriving DecidableEq, Repr, Inhabited
inductive StringSyntax where | r6rs | elisp
  deriving DecidableEq, Repr, Inhabited
inductive CharSyntax where | r6rs | elisp
  deriving DecidableEq, Repr, Inhabited

namespace Print
inductive NilSyntax where | symbol | token | emptyList | false_
  deriving DecidableEq, Repr, Inhabited
inductive BoolSyntax where | token | symbol
  deriving DecidableEq, Repr, Inhabited
inductive VectorSyntax where | octothorpe | brackets
  deriving DecidableEq, Repr, Inhabited
inductive BytesSyntax where | r6rs | r7rs | elisp
  deriving DecidableEq, Repr, Inhabited

structure Options where
  keyword : KeywordSyntax
  nil : NilSyntax
  bool : BoolSyntax
  vector : VectorSyntax
  bytes : BytesSyntax
  string : StringSyntax
  char : CharSyntax
  deriving DecidableEq, Repr, Inhabited

def Options.default : Options :=
  { keyword := .octothorpe, nil := .token, bool := .token, vector := .octothorpe,
    bytes := .r7rs, string := .r6rs, char := .r6rs }

def Options.elisp : Options :=
  { keyword := .colonPrefix, nil := .symbol, bool := .symbol, vector := .brackets,
    bytes := .elisp, string := .elisp, char := .elisp }

/-- All 576 printer option sets. -/
def Options.all : List Options := Id.run do
  let mut out := []
  for k in [KeywordSyntax.colonPrefix, .colonPostfix, .octothorpe] do
    for n in [NilSyntax.symbol, .token, .emptyList, .false_] do
      for b in [BoolSyntax.token, .symbol] do
        for v in [VectorSyntax.octothorpe, .brackets] do
          for y in [BytesSyntax.r6rs, .r7rs, .elisp] do
            for s in [StringSyntax.r6rs, .elisp] do
              for c in [CharSyntax.r6rs, .elisp] do
                out := { keyword := k, nil := n, bool := b, vector := v, bytes := y,
                         string := s, char := c } :: out
  return out.reverse
end Print

namespace Parse
inductive NilSymbol where | emptyList | default | special
  deriving DecidableEq, Repr, Inhabited
inductive TSymbol where | true_ | default
  deriving DecidableEq, Repr, Inhabited
inductive Brackets where | list | vector
  deriving DecidableEq, Repr, Inhabited

structure Options where
  kwPrefix : Bool
  kwPostfix : Bool
  kwOctothorpe : Bool
  nil : NilSymbol
  t : TSymbol
  brackets : Brackets
  string : StringSyntax
  char : CharSyntax
  racket : Bool
  leadingDigit : Bool
  deriving DecidableEq, Repr, Inhabited

def Options.default : Options :=
  { kwPrefix := false, kwPostfix := false, kwOctothorpe := true, nil := .default, t := .default,
    brackets := .list, string := .r6rs, char := .r6rs, racket := false, leadingDigit := false }

def Options.new : Options := { Options.default with kwOctothorpe := false }

def Options.elisp : Options :=
  { kwPrefix := true, kwPostfix := false, kwOctothorpe := false, nil := .emptyList, t := .default,
    brackets := .vector, string := .elisp, char := .elisp, racket := false, leadingDigit := true }

def Options.keyword (o : Options) : KeywordSyntax → Bool
  | .colonPrefix => o.kwPrefix
  | .colonPostfix => o.kwPostfix
  | .octothorpe => o.kwOctothorpe
end Parse

end Lexpr
