/-
  C11 — the re-parse clause.

  "For every successfully parsed datum and every sub-datum reachable through the list and vector
   iterators, the input text its span covers, parsed on its own with the same options, yields
   that sub-datum's value" — exempt: the head of a quote shorthand, whose span covers just the
   shorthand characters, and the synthesised tail cells of a shorthand (which the iterators do
   not yield).

  Layers (each in its own module):
   * ReparseCore.lean  — the relation between a run over `x ++ r` and the run over `x` alone
                          (`TRel`, `TrK`, `Bd`), the rules for `>>=` / `peek` / `next` / scanners;
   * ReparseLex.lean   — every function of Lex.lean treats the end of input like the byte at which
                          it stopped (one boundary analysis per `peek` site; none of them fails);
   * ReparseParse.lean — the same for `next_value` (lists, vectors, byte vectors, quote
                          shorthands); `C11_trunc`, `C11_depth_mono` (success is monotone in the depth
                          budget, values do not depend on line/column/`peeked`);
   * ReparseTop.lean   — one datum: `reparsesTo_datum`;
   * ReparseElems.lean — symbols that start with a dot inside a list, and quote heads;
   * this file         — all elements, recursively: `C11_reparse`, and what the iterators yield.
-/
import LexprModel.Proofs.ReparseElems
namespace Lexpr
namespace Parse
namespace Reparse
open Progress Spans

/-! ### the predicate: every reachable element satisfies `E` -/

mutual
/-- `RepV E v info`: following the value `v` alongside its span tree `info`, every element — the
    cars along a list, a final cdr other than `Null` (a dotted tail), the entries of a vector —
    satisfies `E value span`, and recursively so inside each element.  (The spans of inner cons
    cells are not elements; a final cdr `Null` carries a placeholder span and is not yielded.) -/
def RepV (E : Value → Span → Prop) : Value → SpanInfo → Prop
  | _, .prim _ => True
  | v, .cons _ car cdr =>
    match v with
    | .cons a b => (E a car.span ∧ RepV E a car) ∧ RepTail E b cdr
    | _ => False
  | v, .vec _ xs =>
    match v with
    | .vector vs => RepElems E vs xs
    | _ => False
/-- the rest of a list -/
def RepTail (E : Value → Span → Prop) : Value → SpanInfo → Prop
  | v, .prim sp => v = .null ∨ E v sp
  | v, .cons _ car cdr =>
    match v with
    | .cons a b => (E a car.span ∧ RepV E a car) ∧ RepTail E b cdr
    | _ => False
  | v, .vec sp xs =>
    E v sp ∧
      match v with
      | .vector vs => RepElems E vs xs
      | _ => False
/-- the entries of a vector -/
def RepElems (E : Value → Span → Prop) : List Value → List SpanInfo → Prop
  | vs, [] => vs = []
  | vs, x :: xs =>
    match vs with
    | v :: vs' => (E v x.span ∧ RepV E v x) ∧ RepElems E vs' xs
    | [] => False
end

variable {E : Value → Span → Prop}

/-- a list cell with value `v` whose car and cdr infos are `c`, `d` -/
def RepCell (E : Value → Span → Prop) (v : Value) (c d : SpanInfo) : Prop :=
  match v with
  | .cons a b => (E a c.span ∧ RepV E a c) ∧ RepTail E b d
  | _ => False

theorem repV_prim (v : Value) (sp : Span) : RepV E v (.prim sp) := by simp [RepV]
theorem repV_cons (v : Value) (sp : Span) (c d : SpanInfo) :
    RepV E v (.cons sp c d) ↔ RepCell E v c d := by
  cases v <;> simp [RepV, RepCell]
theorem repV_vec (v : Value) (sp : Span) (xs : List SpanInfo) :
    RepV E v (.vec sp xs) ↔ ∃ vs, v = .vector vs ∧ RepElems E vs xs := by
  cases v <;> simp [RepV]
theorem repTail_prim (v : Value) (sp : Span) : RepTail E v (.prim sp) ↔ (v = .null ∨ E v sp) := by
  simp [RepTail]
theorem repTail_cons (v : Value) (sp : Span) (c d : SpanInfo) :
    RepTail E v (.cons sp c d) ↔ RepCell E v c d := by
  cases v <;> simp [RepTail, RepCell]
theorem repTail_vec (v : Value) (sp : Span) (xs : List SpanInfo) :
    RepTail E v (.vec sp xs) ↔ E v sp ∧ ∃ vs, v = .vector vs ∧ RepElems E vs xs := by
  cases v <;> simp [RepTail]
theorem repElems_nil (vs : List Value) : RepElems E vs [] ↔ vs = [] := by simp [RepElems]
theorem repElems_cons (vs : List Value) (x : SpanInfo) (xs : List SpanInfo) :
    RepElems E vs (x :: xs) ↔
      ∃ v vs', vs = v :: vs' ∧ (E v x.span ∧ RepV E v x) ∧ RepElems E vs' xs := by
  cases vs with
  | nil => simp [RepElems]
  | cons v vs' =>
    simp only [RepElems]
    constructor
    · intro h; exact ⟨v, vs', rfl, h⟩
    · rintro ⟨_, _, h, h'⟩; cases h; exact h'
theorem repCell_cons (a b : Value) (c d : SpanInfo) :
    RepCell E (.cons a b) c d ↔ (E a c.span ∧ RepV E a c) ∧ RepTail E b d := Iff.rfl

/-- a whole datum is a legal dotted tail -/
theorem RepTail.of_datum (v : Value) (t : SpanInfo) (he : E v t.span) (hr : RepV E v t) :
    RepTail E v t := by
  cases t with
  | prim sp => rw [repTail_prim]; exact Or.inr he
  | cons sp c d => rw [repTail_cons]; rw [repV_cons] at hr; exact hr
  | vec sp xs => rw [repTail_vec]; rw [repV_vec] at hr; exact ⟨he, hr⟩

theorem RepElems.snoc : ∀ (acc : List Value) (ms : List SpanInfo) {a : Value} {m : SpanInfo},
    RepElems E acc ms → (E a m.span ∧ RepV E a m) → RepElems E (acc ++ [a]) (ms ++ [m])
  | acc, [], a, m, h, hm => by
    rw [repElems_nil] at h
    subst h
    simp only [List.nil_append]
    rw [repElems_cons]
    exact ⟨a, [], rfl, hm, (repElems_nil _).mpr rfl⟩
  | acc, x :: xs, a, m, h, hm => by
    rw [repElems_cons] at h
    obtain ⟨v, vs', rfl, hv, hrest⟩ := h
    simp only [List.cons_append]
    rw [repElems_cons]
    exact ⟨v, vs' ++ [a], rfl, hv, RepElems.snoc vs' xs hrest hm⟩

/-- `buildMeta` lays the elements and the final cdr out as the car and cdr infos of the first
    cell of `Value.append acc tv` -/
theorem rep_buildMeta : ∀ (acc : List Value) (ms : List SpanInfo) (tv : Value) (t : SpanInfo),
    acc ≠ [] → RepElems E acc ms → RepTail E tv t →
    RepCell E (Value.append acc tv) (buildMeta ms t).1 (buildMeta ms t).2
  | [], _, _, _, h, _, _ => absurd rfl h
  | _ :: _, [], _, _, _, h, _ => by rw [repElems_nil] at h; cases h
  | [a], [m], tv, t, _, h, ht => by
    rw [repElems_cons] at h
    obtain ⟨v, vs', he, hv, _⟩ := h
    cases he
    simp only [buildMeta, Value.append]
    exact ⟨hv, ht⟩
  | [a], m :: m' :: ms, tv, t, _, h, _ => by
    rw [repElems_cons] at h
    obtain ⟨v, vs', he, _, h2⟩ := h
    cases he
    rw [repElems_cons] at h2
    obtain ⟨_, _, he2, _⟩ := h2
    cases he2
  | a :: b :: acc, [m], tv, t, _, h, _ => by
    rw [repElems_cons] at h
    obtain ⟨v, vs', he, _, h2⟩ := h
    cases he
    rw [repElems_nil] at h2
    cases h2
  | a :: b :: acc, m :: m' :: ms, tv, t, _, h, ht => by
    rw [repElems_cons] at h
    obtain ⟨v, vs', he, hv, h2⟩ := h
    cases he
    have ih := rep_buildMeta (b :: acc) (m' :: ms) tv t (by simp) h2 ht
    simp only [buildMeta]
    show RepCell E (Value.cons a (Value.append (b :: acc) tv)) _ _
    rw [repCell_cons, repTail_cons]
    exact ⟨hv, ih⟩

/-! ### the induction over `next_datum` / `parse_list_meta` / `parse_vector_meta` -/

/-- an element is in order: its text re-parses to its value, or it is the head of a quote
    shorthand -/
def ElemOK (cfg : Cfg) (mode : Mode) (input : List UInt8) (v : Value) (sp : Span) : Prop :=
  ReparsesTo cfg mode input v sp ∨ QuoteHead input v sp

/-- the states of the run: on the track of `input`, the given kind of source, and a depth budget
    that a fresh parser also has -/
def Good (input : List UInt8) (mode : Mode) (s : St) : Prop :=
  At input s ∧ s.rd.mode = mode ∧ s.depth ≤ 128

section tri
variable {α : Type} {input : List UInt8} {mode : Mode} {s : St}

theorem tri_good {m : P α} (hinv : ∀ (I : St → Prop) [Stable I], Inv I m) (hfr : FrOk m)
    (hs : Good input mode s) :
    Tri m s (fun a s' => Good input mode s' ∧ m s = .ok a s') := by
  unfold Tri
  cases hm : m s with
  | ok a s' =>
    have h1 := hinv (At input) s hs.1
    have h2 := hinv (fun t : St => t.rd.mode = mode) s hs.2.1
    rw [hm] at h1 h2
    have h3 := (hfr s a s' hm).2
    exact ⟨⟨h1, h2, by rw [h3]; exact hs.2.2⟩, rfl⟩
  | err e s' => trivial
  | panic p => trivial
  | fuel => trivial

theorem Tri.any {m : P α} : Tri m s (fun _ _ => True) := by
  unfold Tri
  cases m s <;> trivial

theorem Tri.and {m : P α} {Q1 Q2 : α → St → Prop} (h1 : Tri m s Q1) (h2 : Tri m s Q2) :
    Tri m s (fun a s' => Q1 a s' ∧ Q2 a s') := by
  unfold Tri at *
  cases hm : m s <;> rw [hm] at h1 h2 <;> first | exact ⟨h1, h2⟩ | trivial

theorem tri_enter (hs : Good input mode s) : Tri enter s (fun _ s' => Good input mode s') := by
  unfold Tri
  cases hm : enter s with
  | ok a s' =>
    obtain ⟨_, rfl⟩ := enter_ok hm
    exact ⟨Stable.depth s _ hs.1, hs.2.1, by show s.depth - 1 ≤ 128; have := hs.2.2; omega⟩
  | err e s' => trivial
  | panic p => trivial
  | fuel => trivial

end tri

theorem nextDatum_frame (cfg : Cfg) (f : Nat) : FrOk (nextDatum cfg f) := by
  intro S od S' h
  have := C10_sim cfg f S
  rw [h] at this
  exact nextValue_frame cfg f S _ S' this.symm

/-- two states on the track of `input` with the same unread input stand at the same position -/
theorem at_pos_eq {input : List UInt8} {a b : St} (ha : At input a) (hb : At input b)
    (h : a.rd.rest = b.rd.rest) : a.rd.position = b.rd.position := by
  obtain ⟨p1, e1, q1⟩ := ha
  obtain ⟨p2, e2, q2⟩ := hb
  have : p1 = p2 := by
    rw [h, ← e2] at e1
    exact List.append_cancel_right e1
  rw [q1, q2, this]

/-- the element read by `parse_list_meta` at a dot that is not followed by a delimiter -/
theorem elemOK_dotSymbol {cfg : Cfg} {input : List UInt8} {mode : Mode} {S1 S2 S3 S4 : St}
    {nxt : UInt8} {name : List UInt8} (hg1 : Good input mode S1) (hg4 : Good input mode S4)
    (hhead : S1.rd.rest.head? = some 46) (hd : discard S1 = .ok () S2)
    (hp : peekOrNull S2 = .ok nxt S3) (hs : parseSymbolBytes [46] S3 = .ok name S4) :
    ElemOK cfg mode input (symbolValue cfg.opts name) ⟨S1.rd.position, S4.rd.position⟩ := by
  cases h1 : S1.rd.rest with
  | nil => rw [h1] at hhead; cases hhead
  | cons c t =>
    rw [h1] at hhead
    obtain rfl : c = 46 := by simpa using hhead
    obtain ⟨S4', hrun, hr4⟩ := dotSymbol_run (cfg := cfg) (F := 0) h1 hd hp hs
    have hat4' : At input S4' := by
      have := (value_invs (I := At input) cfg 1).1 S1 hg1.1
      rw [hrun] at this
      exact this
    have hws : wsLen S1.rd.rest = 0 := by rw [h1]; exact wsLen_head (by decide) (by decide)
    have := reparsesTo_of_run hrun hg1.1 hg1.2.2 (Reach.refl S1) (by rw [hws]; rfl)
    rw [hg1.2.1, at_pos_eq hat4' hg4.1 hr4] at this
    exact Or.inl this

theorem rep_all (cfg : Cfg) (input : List UInt8) (mode : Mode) : ∀ fuel : Nat,
    (∀ s, Good input mode s →
      Tri (nextDatum cfg fuel) s
        (fun od _ => ∀ d, od = some d → RepV (ElemOK cfg mode input) d.value d.info)) ∧
    (∀ term acc ms s, Good input mode s → RepElems (ElemOK cfg mode input) acc ms →
      Tri (parseListMeta cfg fuel term acc ms) s
        (fun r _ => ∀ v c d, r = some (v, c, d) → RepCell (ElemOK cfg mode input) v c d)) ∧
    (∀ term acc ms s, Good input mode s → RepElems (ElemOK cfg mode input) acc ms →
      Tri (parseVectorMeta cfg fuel term acc ms) s
        (fun r _ => RepElems (ElemOK cfg mode input) r.1 r.2)) := by
  intro fuel
  induction fuel with
  | zero =>
    refine ⟨?_, ?_, ?_⟩
    · intro s _; rw [nextDatum]; exact Tri.outOfFuel
    · intro term acc ms s _ _; rw [parseListMeta]; exact Tri.outOfFuel
    · intro term acc ms s _ _; rw [parseVectorMeta]; exact Tri.outOfFuel
  | succ f ih =>
    obtain ⟨ihD, ihL, ihV⟩ := ih
    -- a call of `next_datum` one level down: the datum is an element in order
    have callD : ∀ s, Good input mode s → Tri (nextDatum cfg f) s (fun od s' =>
        Good input mode s' ∧ ∀ d, od = some d →
          ElemOK cfg mode input d.value d.info.span ∧ RepV (ElemOK cfg mode input) d.value d.info) := by
      intro s hs
      refine Tri.conseq (Tri.and (ihD s hs)
        (tri_good (fun _ _ => (datum_invs cfg f).1) (nextDatum_frame cfg f) hs)) ?_
      rintro od s' ⟨hod, hg', heq⟩
      refine ⟨hg', fun d hd => ?_⟩
      subst hd
      have := reparsesTo_datum heq hs.1 hs.2.2
      rw [hs.2.1] at this
      exact ⟨Or.inl this, hod d rfl⟩
    refine ⟨?_, ?_, ?_⟩
    · intro s hs
      rw [nextDatum]
      refine Tri.bind (tri_good (fun _ _ => parseWhitespace_inv) parseWhitespace_t1.frame hs) ?_
      rintro o s1 ⟨hg1, heq1⟩
      have hw := parseWhitespace_tri s
      unfold Tri at hw
      rw [heq1] at hw
      obtain ⟨_, _, ho⟩ := hw
      cases o with
      | none => exact Tri.pure (fun d hd => by cases hd)
      | some pk =>
        dsimp only
        refine Tri.bind_getPos ?_
        refine Tri.bind_tokenFuel ?_
        refine Tri.bind (tri_good (fun _ _ => parseToken_inv) (parseToken_t (f' := 0)).frame hg1) ?_
        rintro tok s2 ⟨hg2, heq2⟩
        have atomCase : ∀ t : Token, Tri
            (match t.atom with
              | some v => do
                let stop ← getPos
                pure (some (Datum.mk v (SpanInfo.prim { start := s1.rd.position, stop := stop })))
              | none => panicAt Site.unreachable) s2
            (fun od _ => ∀ d, od = some d → RepV (ElemOK cfg mode input) d.value d.info) := by
          intro t
          cases ht : t.atom with
          | none => exact Tri.panicAt
          | some v =>
            refine Tri.bind_getPos (Tri.pure ?_)
            intro d hd; cases hd
            exact repV_prim _ _
        cases tok with
        | byteVecOpen close =>
          dsimp only
          refine Tri.bind Tri.any ?_
          intro bs s3 _
          refine Tri.bind_getPos (Tri.pure ?_)
          intro d hd; cases hd
          exact repV_prim _ _
        | vecOpen close =>
          dsimp only
          refine Tri.bind (tri_enter hg2) ?_
          intro _ s3 hg3
          refine Tri.bind_attempt (ihV close [] [] s3 hg3 ((repElems_nil _).mpr rfl)) ?_ ?_
          · rintro ⟨xs, ms⟩ s4 hrep
            refine Tri.bind Tri.any ?_
            intro _ s5 _
            refine Tri.bind_attempt Tri.any ?_ ?_
            · rintro ⟨⟩ s6 _
              dsimp only
              refine Tri.bind_getPos (Tri.pure ?_)
              intro d hd; cases hd
              show RepV _ (.vector xs) (.vec _ ms)
              rw [repV_vec]
              exact ⟨xs, rfl, hrep⟩
            · intro e; rel_wp []
          · intro e; rel_wp []
        | listOpen close =>
          dsimp only
          refine Tri.bind (tri_enter hg2) ?_
          intro _ s3 hg3
          refine Tri.bind_attempt (ihL close [] [] s3 hg3 ((repElems_nil _).mpr rfl)) ?_ ?_
          · rintro r s4 hr
            refine Tri.bind Tri.any ?_
            intro _ s5 _
            refine Tri.bind_attempt Tri.any ?_ ?_
            · rintro ⟨⟩ s6 _
              rcases r with _ | ⟨v, c, d⟩
              · dsimp only
                refine Tri.bind_getPos (Tri.pure ?_)
                intro d hd; cases hd
                exact repV_prim _ _
              · dsimp only
                refine Tri.bind_getPos (Tri.pure ?_)
                intro d' hd; cases hd
                show RepV _ v (.cons _ c d)
                rw [repV_cons]
                exact hr v c d rfl
            · intro e; rel_wp []
          · intro e; rel_wp []
        | quotation q =>
          dsimp only
          refine Tri.bind_getPos ?_
          refine Tri.bind (tri_enter hg2) ?_
          intro _ s3 hg3
          refine Tri.bind_attempt (callD s3 hg3) ?_ ?_
          · rintro od s4 ⟨_, hod⟩
            refine Tri.bind Tri.any ?_
            intro _ s5 _
            cases od with
            | none => exact Tri.peekErr
            | some d =>
              dsimp only
              refine Tri.pure ?_
              intro d' hd; cases hd
              obtain ⟨hE, hR⟩ := hod d rfl
              show RepV _ (.cons (.symbol q.name) (.cons d.value .null))
                (.cons _ (.prim ⟨s1.rd.position, s2.rd.position⟩)
                  (.cons d.info.span d.info (.prim ⟨d.info.span.stop, d.info.span.stop⟩)))
              rw [repV_cons, repCell_cons, repTail_cons, repCell_cons, repTail_prim]
              exact ⟨⟨Or.inr (quoteHead_of_token heq2 ho.symm hg1.1 hg2.1), repV_prim _ _⟩,
                ⟨hE, hR⟩, Or.inl rfl⟩
          · intro e; rel_wp []
        | null => exact atomCase Token.null
        | nil => exact atomCase Token.nil
        | bool b => exact atomCase (Token.bool b)
        | char c => exact atomCase (Token.char c)
        | number n => exact atomCase (Token.number n)
        | symbol s => exact atomCase (Token.symbol s)
        | keyword s => exact atomCase (Token.keyword s)
        | string s => exact atomCase (Token.string s)
        | bytes b => exact atomCase (Token.bytes b)
    · intro term acc ms s hs hrep
      rw [parseListMeta]
      refine Tri.bind (tri_good (fun _ _ => parseWhitespace_inv) parseWhitespace_t1.frame hs) ?_
      rintro o s1 ⟨hg1, heq1⟩
      have hw := parseWhitespace_tri s
      unfold Tri at hw
      rw [heq1] at hw
      obtain ⟨_, _, ho⟩ := hw
      cases o with
      | none => exact Tri.peekErr
      | some c =>
        dsimp only
        refine Tri.ite
          (fun _ => Tri.ite (fun _ => Tri.peekErr) (fun _ => Tri.ite (fun _ => ?_) (fun hne => ?_)))
          (fun _ => Tri.ite (fun h46 => ?_) (fun _ => ?_))
        · exact Tri.pure (fun v c d h => by cases h)
        · have hacc : acc ≠ [] := by
            intro h; subst h; simp at hne
          refine Tri.pure ?_
          intro v c d h
          cases h
          exact rep_buildMeta acc ms Value.null _ hacc hrep ((repTail_prim _ _).mpr (Or.inl rfl))
        · refine Tri.bind_getPos ?_
          refine Tri.bind (tri_good (fun _ _ => Inv.discard) (discard_t (k := 0)).frame hg1) ?_
          rintro _ s2 ⟨hg2, heq2⟩
          refine Tri.bind (tri_good (fun _ _ => peekOrNull_inv) peekOrNull_t1.frame hg2) ?_
          rintro nxt s3 ⟨hg3, heq3⟩
          refine Tri.ite
            (fun _ => Tri.ite (fun _ => Tri.of_neverOk never_peek_err) (fun hne => ?_)) (fun _ => ?_)
          · have hacc : acc ≠ [] := by
              intro h; subst h; simp at hne
            refine Tri.bind (Q1 := fun (tail : Datum) _ =>
              ElemOK cfg mode input tail.value tail.info.span ∧
                RepV (ElemOK cfg mode input) tail.value tail.info) ?_ ?_
            · refine Tri.bind (callD s3 hg3) ?_
              rintro od s4 ⟨_, hod⟩
              cases od with
              | none => exact Tri.peekErr
              | some d => exact Tri.pure (hod d rfl)
            · intro tail s4 htail
              refine Tri.bind Tri.any ?_
              rintro o s5 _
              cases o with
              | none => exact Tri.peekErr
              | some c' =>
                dsimp only
                refine Tri.ite (fun _ => ?_) (fun _ => Tri.peekErr)
                refine Tri.pure ?_
                intro v c d h
                cases h
                exact rep_buildMeta acc ms tail.value _ hacc hrep
                  (RepTail.of_datum tail.value tail.info htail.1 htail.2)
          · refine Tri.bind
              (tri_good (fun _ _ => parseSymbolBytes_inv) parseSymbolBytes_t.frame hg3) ?_
            rintro name s4 ⟨hg4, heq4⟩
            refine Tri.bind_getPos ?_
            have hc : c = 46 := eq_of_beq h46
            subst hc
            exact ihL term _ _ s4 hg4 (RepElems.snoc acc ms hrep
              ⟨elemOK_dotSymbol hg1 hg4 ho.symm heq2 heq3 heq4, repV_prim _ _⟩)
        · refine Tri.bind (callD s1 hg1) ?_
          rintro od s2 ⟨hg2, hod⟩
          cases od with
          | none => exact Tri.peekErr
          | some d =>
            dsimp only
            exact ihL term _ _ s2 hg2 (RepElems.snoc acc ms hrep (hod d rfl))
    · intro term acc ms s hs hrep
      rw [parseVectorMeta]
      refine Tri.bind (tri_good (fun _ _ => parseWhitespace_inv) parseWhitespace_t1.frame hs) ?_
      rintro o s1 ⟨hg1, _⟩
      cases o with
      | none => exact Tri.peekErr
      | some c =>
        dsimp only
        refine Tri.ite (fun _ => Tri.ite (fun _ => Tri.peekErr) (fun _ => ?_)) (fun _ => ?_)
        · exact Tri.pure hrep
        · refine Tri.bind (callD s1 hg1) ?_
          rintro od s2 ⟨hg2, hod⟩
          cases od with
          | none => exact Tri.peekErr
          | some d =>
            dsimp only
            exact ihV term _ _ s2 hg2 (RepElems.snoc acc ms hrep (hod d rfl))

/-! ## Main theorems -/

/-- **C11_reparse** (the re-parse clause).  Let `next_datum` return the datum `d` from a state
    that is `At input` (it has consumed a prefix of `input` and stands at the position of that
    prefix — e.g. a freshly initialised parser, or the same parser after any number of calls) with
    a depth budget of at most 128 (what a fresh parser has).  Then
     * the span of `d` is `⟨posOf p, posOf q⟩` for prefixes `p ≤ q` of `input`, and the text between
       them, parsed on its own by `from_trait` with the same options and the same kind of source,
       yields exactly `d.value`;
     * recursively (`RepV`), the same holds for every element reachable through the list and vector
       iterators: the cars along a list, a dotted tail, the entries of a vector, at every depth —
       except that the *head* of a quote shorthand is instead the symbol `quote` / `quasiquote` /
       `unquote` / `unquote-splicing` with a span covering exactly the shorthand characters
       (`QuoteHead`); the quoted datum itself re-parses. -/
theorem C11_reparse (cfg : Cfg) (fuel : Nat) (s s' : St) (d : Datum) (input : List UInt8)
    (h : nextDatum cfg fuel s = .ok (some d) s') (hat : At input s) (hd : s.depth ≤ 128) :
    ReparsesTo cfg s.rd.mode input d.value d.info.span ∧
      RepV (ElemOK cfg s.rd.mode input) d.value d.info := by
  refine ⟨reparsesTo_datum h hat hd, ?_⟩
  have := (rep_all cfg input s.rd.mode fuel).1 s ⟨hat, rfl, hd⟩
  unfold Tri at this
  rw [h] at this
  exact this d rfl

/-- the prefixes in `ReparsesTo` are determined by the span: for *any* two prefixes `p`, `q` of the
    input whose positions are the ends of the span, the text between them re-parses to the value -/
theorem ReparsesTo.forall {cfg : Cfg} {mode : Mode} {input : List UInt8} {v : Value} {sp : Span}
    (h : ReparsesTo cfg mode input v sp) (p q : List UInt8) (hp : p <+: input) (hq : q <+: input)
    (hsp : sp = ⟨posOf p, posOf q⟩) :
    p <+: q ∧ ∃ sF, fromTrait cfg (initSt mode (q.drop p.length)) = .ok v sF := by
  obtain ⟨p', q', hpq, hq', hsp', sF, hre⟩ := h
  rw [hsp] at hsp'
  have hp' : p' <+: input := hpq.trans hq'
  obtain rfl : p = p' := posOf_inj hp hp' (by injection hsp' with h1 h2)
  obtain rfl : q = q' := posOf_inj hq hq' (by injection hsp' with h1 h2)
  exact ⟨hpq, sF, hre⟩

/-! ### what the iterators yield -/

/-- what is left to iterate -/
def CurRep (E : Value → Span → Prop) : DCursor → Prop
  | .cons car cdr cm dm => (E car cm.span ∧ RepV E car cm) ∧ RepTail E cdr dm
  | .dot v m => E v m.span ∧ RepV E v m
  | .rest v m => E v m.span ∧ RepV E v m
  | .exhausted => True

theorem CurRep.next {c : DCursor} (h : CurRep E c) {item : Option Datum} {c' : DCursor}
    (hn : c.next = some (item, c')) :
    (∀ e, item = some e → E e.value e.info.span ∧ RepV E e.value e.info) ∧ CurRep E c' := by
  cases c with
  | cons car cdr cm dm =>
    obtain ⟨h1, h2⟩ := h
    cases dm with
    | cons sp c d =>
      rw [repTail_cons] at h2
      cases cdr with
      | cons a b =>
        simp only [DCursor.next, Option.some.injEq, Prod.mk.injEq] at hn
        obtain ⟨rfl, rfl⟩ := hn
        exact ⟨fun e he => by cases he; exact h1, h2⟩
      | _ => exact h2.elim
    | prim sp =>
      rw [repTail_prim] at h2
      by_cases hnull : cdr.isNull = true
      · simp only [DCursor.next, hnull, if_true, Option.some.injEq, Prod.mk.injEq] at hn
        obtain ⟨rfl, rfl⟩ := hn
        exact ⟨fun e he => by cases he; exact h1, trivial⟩
      · simp only [DCursor.next, hnull] at hn
        cases hn
        refine ⟨fun e he => by cases he; exact h1, ?_, repV_prim _ _⟩
        rcases h2 with hv | hv
        · subst hv; exact absurd rfl hnull
        · exact hv
    | vec sp xs =>
      rw [repTail_vec] at h2
      simp only [DCursor.next, Option.some.injEq, Prod.mk.injEq] at hn
      obtain ⟨rfl, rfl⟩ := hn
      refine ⟨fun e he => by cases he; exact h1, h2.1, ?_⟩
      show RepV E cdr (.vec sp xs)
      rw [repV_vec]
      exact h2.2
  | dot v m =>
    simp only [DCursor.next, Option.some.injEq, Prod.mk.injEq] at hn
    obtain ⟨rfl, rfl⟩ := hn
    exact ⟨(fun e he => by cases he), h⟩
  | rest v m =>
    simp only [DCursor.next, Option.some.injEq, Prod.mk.injEq] at hn
    obtain ⟨rfl, rfl⟩ := hn
    exact ⟨fun e he => by cases he; exact h, trivial⟩
  | exhausted =>
    simp only [DCursor.next, Option.some.injEq, Prod.mk.injEq] at hn
    obtain ⟨rfl, rfl⟩ := hn
    exact ⟨(fun e he => by cases he), trivial⟩

theorem listIter_curRep {d : Datum} (h : RepV E d.value d.info) {c : DCursor}
    (hc : d.listIter = some c) : CurRep E c := by
  rcases d with ⟨v, i⟩
  cases v <;> cases i <;> simp [Datum.listIter] at hc <;> subst hc <;> first | trivial | exact h

/-- **C11_reparse_list_iter**: every datum that `Datum::list_iter` yields, at any step, is an
    element in order (`E`: its text re-parses to its value, or it is the head of a quote shorthand)
    and satisfies `RepV` again, so the statement applies recursively to everything reachable. -/
theorem C11_reparse_list_iter (E : Value → Span → Prop) (d : Datum) (h : RepV E d.value d.info)
    (c : DCursor) (hc : d.listIter = some c) (n : Nat) (l : List (Option Datum))
    (hl : takeN n c = some l) :
    ∀ e ∈ l.filterMap id, E e.value e.info.span ∧ RepV E e.value e.info := by
  have hcur := listIter_curRep h hc
  clear hc h
  induction n generalizing c l with
  | zero =>
    simp only [takeN, Option.some.injEq] at hl
    subst hl
    intro e he; simp at he
  | succ n ih =>
    simp only [takeN] at hl
    cases hn : c.next with
    | none => rw [hn] at hl; cases hl
    | some p =>
      obtain ⟨item, c'⟩ := p
      rw [hn] at hl
      simp only [Option.map_eq_some_iff] at hl
      obtain ⟨l', hl', rfl⟩ := hl
      obtain ⟨hitem, hcur'⟩ := hcur.next hn
      intro e he
      cases item with
      | none => exact ih c' l' hl' hcur' e (by simpa using he)
      | some x =>
        simp only [List.filterMap_cons, id, List.mem_cons] at he
        rcases he with rfl | he
        · exact hitem _ rfl
        · exact ih c' l' hl' hcur' e he

theorem repElems_zip : ∀ (vs : List Value) (ms : List SpanInfo), RepElems E vs ms →
    ∀ e ∈ (vs.zip ms).map (fun (v, m) => (⟨v, m⟩ : Datum)), E e.value e.info.span ∧ RepV E e.value e.info
  | vs, [], h => by
    rw [repElems_nil] at h
    subst h
    intro e he; simp at he
  | vs, m :: ms, h => by
    rw [repElems_cons] at h
    obtain ⟨v, vs', rfl, h1, h2⟩ := h
    intro e he
    simp only [List.zip_cons_cons, List.map_cons, List.mem_cons] at he
    rcases he with rfl | he
    · exact h1
    · exact repElems_zip vs' ms h2 e he

/-- **C11_reparse_vector_iter**: the same for `Datum::vector_iter`. -/
theorem C11_reparse_vector_iter (E : Value → Span → Prop) (d : Datum) (h : RepV E d.value d.info)
    (l : List Datum) (hv : d.vectorIter = some l) :
    ∀ e ∈ l, E e.value e.info.span ∧ RepV E e.value e.info := by
  rcases d with ⟨v, i⟩
  cases v <;> cases i <;> simp [Datum.vectorIter] at hv
  subst hv
  simp only at h
  rw [repV_vec] at h
  obtain ⟨vs, hvs, h⟩ := h
  cases hvs
  exact repElems_zip _ _ h

/-! ### examples (non-vacuity) -/

/-- a multi-line input with nested lists, a vector, a string that contains `)`, a quote
    shorthand, a symbol that starts with a dot, and a dotted tail -/
def exInput : List UInt8 := asc "(a (b \"x)y\")\n  #(1 (2)) 'q .d . c)"

/-- the hypotheses of `C11_reparse` hold for it: the parser returns a datum … -/
example : ∃ d s', nextDatum Progress.exCfg 80 (initSt .slice exInput) = .ok (some d) s' :=
  okSome_elim (by decide +kernel)

/-- … whose elements are the six of the outer list: `a`, `(b "x)y")`, `#(1 (2))` on the second
    line, `'q`, `.d` and the dotted tail `c` -/
example : topCarSpans (nextDatum Progress.exCfg 80 (initSt .slice exInput)) =
    [⟨⟨1, 1⟩, ⟨1, 2⟩⟩, ⟨⟨1, 3⟩, ⟨1, 12⟩⟩, ⟨⟨2, 2⟩, ⟨2, 10⟩⟩, ⟨⟨2, 11⟩, ⟨2, 13⟩⟩, ⟨⟨2, 14⟩, ⟨2, 16⟩⟩,
      ⟨⟨2, 19⟩, ⟨2, 20⟩⟩] := by decide +kernel

/-- … so the theorem applies: the whole datum and every reachable element re-parse -/
example (d : Datum) (s' : St)
    (h : nextDatum Progress.exCfg 80 (initSt .slice exInput) = .ok (some d) s') :
    ReparsesTo Progress.exCfg .slice exInput d.value d.info.span ∧
      RepV (ElemOK Progress.exCfg .slice exInput) d.value d.info :=
  C11_reparse _ _ _ _ _ exInput h (at_initSt _ _ _) (by decide)

/-- the text of the second element, which contains a `)` inside a string, on its own -/
example : okAny (fromTrait Progress.exCfg (initSt .slice (asc "(b \"x)y\")"))) = true := by
  decide +kernel

/-- the hypothesis on the depth budget cannot be dropped: a parser state with a budget of 130
    (no fresh parser has one) accepts 128 nested lists, which a fresh parser rejects -/
example : okSome (nextDatum Progress.exCfg 600
      { rd := { mode := .slice, rest := List.replicate 128 40 ++ List.replicate 128 41 },
        depth := 130 }) = true ∧
    okAny (fromTrait Progress.exCfg
      (initSt .slice (List.replicate 128 40 ++ List.replicate 128 41))) = false := by
  decide +kernel

/-- what is left unread after a run, for the examples -/
def restAfter {α : Type} : Res α → Option (List UInt8)
  | .ok _ s => some s.rd.rest
  | _ => none

/-- `C11_trunc` on a concrete run: `(a b)` read from `(a b) c` at line 3, with depth budget 5,
    against a fresh parser over `(a b)` alone -/
example : restAfter (nextValue Progress.exCfg 20
    { rd := { mode := .slice, rest := asc "(a b) c", line := 3, col := 7 }, depth := 5 }) =
    some (asc " c") := by decide +kernel

example (v : Option Value) (S' : St)
    (h : nextValue Progress.exCfg 20
      { rd := { mode := .slice, rest := asc "(a b) c", line := 3, col := 7 }, depth := 5 } = .ok v S')
    (hS' : S'.rd.rest = asc " c") :
    nextValue Progress.exCfg 14 (initSt .slice (asc "(a b)")) = .fuel ∨
      ∃ s', nextValue Progress.exCfg 14 (initSt .slice (asc "(a b)")) = .ok v s' ∧ s'.rd.rest = [] ∧
        s'.rd.mode = .slice ∧ s'.rd.faulty = false ∧ S'.depth ≤ s'.depth :=
  C11_trunc _ 20 14 _ S' (initSt .slice (asc "(a b)")) v (asc "(a b)") (asc " c") h rfl hS' rfl rfl rfl
    (by decide)

/-- `C11_depth_mono` on the same run: same unread input, other position, larger depth budget -/
example (v : Option Value) (S' : St)
    (h : nextValue Progress.exCfg 20
      { rd := { mode := .slice, rest := asc "(a b) c", line := 3, col := 7 }, depth := 5 } = .ok v S') :
    nextValue Progress.exCfg 30 (initSt .slice (asc "(a b) c")) = .fuel ∨
      ∃ s', nextValue Progress.exCfg 30 (initSt .slice (asc "(a b) c")) = .ok v s' ∧
        s'.rd.rest = S'.rd.rest :=
  C11_depth_mono _ 20 30 _ S' (initSt .slice (asc "(a b) c")) v h rfl rfl rfl (by decide)

end Reparse
end Parse
end Lexpr

#print axioms Lexpr.Parse.Reparse.C11_trunc
#print axioms Lexpr.Parse.Reparse.C11_trunc_fuel
#print axioms Lexpr.Parse.Reparse.C11_depth_mono
#print axioms Lexpr.Parse.Reparse.nextValue_t
#print axioms Lexpr.Parse.Reparse.reparsesTo_datum
#print axioms Lexpr.Parse.Reparse.C11_reparse
#print axioms Lexpr.Parse.Reparse.ReparsesTo.forall
#print axioms Lexpr.Parse.Reparse.C11_reparse_list_iter
#print axioms Lexpr.Parse.Reparse.C11_reparse_vector_iter
