/-
  Source positions as a function of the consumed input.

  `posOf bs` is the reader position after consuming `bs` from the start of an input; positions are
  ordered lexicographically (line, column).  Every consumed byte strictly advances the position, so
  `posOf` is strictly monotone (hence injective) on the prefixes of one input.  `Track base whole s`
  is the ghost invariant "`s` has consumed a prefix `pre` of `whole` and stands at
  `posFrom base pre`"; `At input` and `Reach s0` are its two instances.
-/
import LexprModel.Proofs.Progress
namespace Lexpr
namespace Parse
/-! ### the order on positions -/

/-- lexicographic order on (line, column) -/
def Pos.le (a b : Pos) : Prop := a.line < b.line ∨ (a.line = b.line ∧ a.col ≤ b.col)
/-- strict lexicographic order on (line, column) -/
def Pos.lt (a b : Pos) : Prop := a.line < b.line ∨ (a.line = b.line ∧ a.col < b.col)

instance : LE Pos := ⟨Pos.le⟩
instance : LT Pos := ⟨Pos.lt⟩

theorem Pos.le_def (a b : Pos) : a ≤ b ↔ a.line < b.line ∨ (a.line = b.line ∧ a.col ≤ b.col) :=
  Iff.rfl
theorem Pos.lt_def (a b : Pos) : a < b ↔ a.line < b.line ∨ (a.line = b.line ∧ a.col < b.col) :=
  Iff.rfl

instance (a b : Pos) : Decidable (a ≤ b) := by rw [Pos.le_def]; infer_instance
instance (a b : Pos) : Decidable (a < b) := by rw [Pos.lt_def]; infer_instance

theorem Pos.ext' {a b : Pos} (h1 : a.line = b.line) (h2 : a.col = b.col) : a = b := by
  cases a; cases b; simp_all

theorem Pos.le_refl (a : Pos) : a ≤ a := Or.inr ⟨rfl, Nat.le_refl _⟩

theorem Pos.le_of_eq {a b : Pos} (h : a = b) : a ≤ b := h ▸ Pos.le_refl a

theorem Pos.le_trans {a b c : Pos} (h1 : a ≤ b) (h2 : b ≤ c) : a ≤ c := by
  rw [Pos.le_def] at *; omega

theorem Pos.lt_of_lt_of_le {a b c : Pos} (h1 : a < b) (h2 : b ≤ c) : a < c := by
  rw [Pos.le_def] at *; rw [Pos.lt_def] at *; omega

theorem Pos.lt_of_le_of_lt {a b c : Pos} (h1 : a ≤ b) (h2 : b < c) : a < c := by
  rw [Pos.le_def] at *; rw [Pos.lt_def] at *; omega

theorem Pos.lt_trans {a b c : Pos} (h1 : a < b) (h2 : b < c) : a < c := by
  rw [Pos.lt_def] at *; omega

theorem Pos.le_of_lt {a b : Pos} (h : a < b) : a ≤ b := by
  rw [Pos.le_def]; rw [Pos.lt_def] at h; omega

theorem Pos.lt_irrefl (a : Pos) : ¬ a < a := by
  rw [Pos.lt_def]; omega

theorem Pos.le_antisymm {a b : Pos} (h1 : a ≤ b) (h2 : b ≤ a) : a = b := by
  rw [Pos.le_def] at *; exact Pos.ext' (by omega) (by omega)

theorem Pos.not_le_of_lt {a b : Pos} (h : a < b) : ¬ b ≤ a := by
  rw [Pos.le_def]; rw [Pos.lt_def] at h; omega

theorem Pos.le_total (a b : Pos) : a ≤ b ∨ b ≤ a := by
  rw [Pos.le_def, Pos.le_def]; omega

theorem Pos.le_iff_lt_or_eq {a b : Pos} : a ≤ b ↔ a < b ∨ a = b := by
  constructor
  · intro h
    rw [Pos.le_def] at h
    by_cases hc : a.line = b.line ∧ a.col = b.col
    · exact Or.inr (Pos.ext' hc.1 hc.2)
    · left; rw [Pos.lt_def]; omega
  · rintro (h | h)
    · exact Pos.le_of_lt h
    · exact Pos.le_of_eq h

/-! ### positions as a function of the consumed bytes -/

/-- the position after one more byte -/
def Pos.adv (p : Pos) (b : UInt8) : Pos :=
  ⟨(advance p.line p.col b).1, (advance p.line p.col b).2⟩

namespace Spans

/-- the position reached from `p` by consuming `bs` -/
def posFrom (p : Pos) (bs : List UInt8) : Pos := bs.foldl Pos.adv p

/-- the position after consuming `bs` from the very start of an input: line 1, column 0 -/
def posOf (bs : List UInt8) : Pos := posFrom ⟨1, 0⟩ bs

@[simp] theorem posFrom_nil (p : Pos) : posFrom p [] = p := rfl
@[simp] theorem posFrom_cons (p : Pos) (b : UInt8) (bs : List UInt8) :
    posFrom p (b :: bs) = posFrom (p.adv b) bs := rfl

theorem posFrom_append (p : Pos) (xs ys : List UInt8) :
    posFrom p (xs ++ ys) = posFrom (posFrom p xs) ys := by
  simp [posFrom, List.foldl_append]

theorem posOf_append (xs ys : List UInt8) : posOf (xs ++ ys) = posFrom (posOf xs) ys :=
  posFrom_append _ _ _

/-- a line feed starts a new line, any other byte is one more column -/
theorem Pos.adv_eq (p : Pos) (b : UInt8) :
    p.adv b = if b = 10 then ⟨p.line + 1, 0⟩ else ⟨p.line, p.col + 1⟩ := by
  unfold Pos.adv advance
  by_cases h : b = 10 <;> simp [h]

/-- each consumed byte strictly advances the position -/
theorem Pos.lt_adv (p : Pos) (b : UInt8) : p < p.adv b := by
  rw [Pos.adv_eq, Pos.lt_def]
  by_cases h : b = 10 <;> simp [h]

theorem le_posFrom (p : Pos) (bs : List UInt8) : p ≤ posFrom p bs := by
  induction bs generalizing p with
  | nil => exact Pos.le_refl p
  | cons b bs ih => exact Pos.le_trans (Pos.le_of_lt (Pos.lt_adv p b)) (ih _)

theorem lt_posFrom (p : Pos) (bs : List UInt8) (h : bs ≠ []) : p < posFrom p bs := by
  cases bs with
  | nil => exact absurd rfl h
  | cons b bs => exact Pos.lt_of_lt_of_le (Pos.lt_adv p b) (le_posFrom _ _)

/-- real positions have a line number of at least 1 (so they differ from `Span.empty`) -/
theorem posFrom_line (p : Pos) (bs : List UInt8) : p.line ≤ (posFrom p bs).line := by
  have := le_posFrom p bs
  rw [Pos.le_def] at this; omega

theorem posOf_line (bs : List UInt8) : 1 ≤ (posOf bs).line := posFrom_line ⟨1, 0⟩ bs

/-! ### the reader follows `posFrom` -/

theorem consume_position (n : Nat) : ∀ rd : Rd,
    (rd.consume n).position = posFrom rd.position (rd.rest.take n) := by
  induction n with
  | zero => intro rd; simp [Rd.consume, Rd.position]
  | succ n ih =>
    intro rd
    cases hr : rd.rest with
    | nil => simp [Rd.consume, hr, Rd.position]
    | cons b bs =>
      simp only [Rd.consume, hr, List.take_succ_cons, posFrom_cons]
      rw [ih]
      rfl

theorem consume_depth_irrelevant (s : St) (n : Nat) :
    ({ s with rd := s.rd.consume n } : St).depth = s.depth := rfl

/-- Ghost invariant: the reader has consumed a prefix `pre` of `whole` and stands at
    `posFrom base pre`. -/
def Track (base : Pos) (whole : List UInt8) (s : St) : Prop :=
  ∃ pre, pre ++ s.rd.rest = whole ∧ s.rd.position = posFrom base pre

/-- `At input s`: `s` has consumed a prefix `pre` of `input`, and its position is `posOf pre`. -/
def At (input : List UInt8) (s : St) : Prop :=
  ∃ pre, pre ++ s.rd.rest = input ∧ s.rd.position = posOf pre

/-- `Reach s0 s`: `s` is `s0` after consuming some bytes `mid`, position included. -/
def Reach (s0 s : St) : Prop :=
  ∃ mid, mid ++ s.rd.rest = s0.rd.rest ∧ s.rd.position = posFrom s0.rd.position mid

theorem at_iff_track (input : List UInt8) (s : St) : At input s ↔ Track ⟨1, 0⟩ input s := Iff.rfl
theorem reach_iff_track (s0 s : St) : Reach s0 s ↔ Track s0.rd.position s0.rd.rest s := Iff.rfl

theorem Reach.refl (s : St) : Reach s s := ⟨[], rfl, rfl⟩

theorem Reach.trans {s0 s1 s2 : St} (h1 : Reach s0 s1) (h2 : Reach s1 s2) : Reach s0 s2 := by
  obtain ⟨m1, e1, p1⟩ := h1
  obtain ⟨m2, e2, p2⟩ := h2
  exact ⟨m1 ++ m2, by rw [List.append_assoc, e2, e1], by rw [p2, p1, posFrom_append]⟩

theorem Track.reach {base : Pos} {whole : List UInt8} {s s' : St} (h : Track base whole s)
    (hr : Reach s s') : Track base whole s' := by
  obtain ⟨pre, e1, p1⟩ := h
  obtain ⟨mid, e2, p2⟩ := hr
  exact ⟨pre ++ mid, by rw [List.append_assoc, e2, e1], by rw [p2, p1, posFrom_append]⟩

theorem At.reach {input : List UInt8} {s s' : St} (h : At input s) (hr : Reach s s') :
    At input s' := Track.reach h hr

theorem Reach.pos_le {s s' : St} (h : Reach s s') : s.rd.position ≤ s'.rd.position := by
  obtain ⟨mid, _, p⟩ := h
  rw [p]; exact le_posFrom _ _

theorem Reach.length_le {s s' : St} (h : Reach s s') : s'.rd.rest.length ≤ s.rd.rest.length := by
  obtain ⟨mid, e, _⟩ := h
  rw [← e]; simp

theorem Reach.pos_lt {s s' : St} (h : Reach s s') (hl : s'.rd.rest.length < s.rd.rest.length) :
    s.rd.position < s'.rd.position := by
  obtain ⟨mid, e, p⟩ := h
  rw [p]
  refine lt_posFrom _ _ ?_
  rintro rfl
  rw [← e] at hl
  simp at hl

/-- the consumed bytes are determined by the lengths -/
theorem Reach.mid_eq {s s' : St} (h : Reach s s') :
    s'.rd.rest = s.rd.rest.drop (s.rd.rest.length - s'.rd.rest.length) ∧
    s'.rd.position =
      posFrom s.rd.position (s.rd.rest.take (s.rd.rest.length - s'.rd.rest.length)) := by
  obtain ⟨mid, e, p⟩ := h
  have hl : s.rd.rest.length - s'.rd.rest.length = mid.length := by rw [← e]; simp
  rw [hl, ← e]
  simp [p]

/-! ### strict monotonicity and injectivity of `posOf` on prefixes -/

/-- **posOf_mono**: a prefix is at an earlier or equal position. -/
theorem posOf_mono {p q : List UInt8} (h : p <+: q) : posOf p ≤ posOf q := by
  obtain ⟨t, rfl⟩ := h
  rw [posOf_append]; exact le_posFrom _ _

/-- **posOf_strict**: a proper prefix is at a strictly earlier position. -/
theorem posOf_strict {p q : List UInt8} (h : p <+: q) (hne : p ≠ q) : posOf p < posOf q := by
  obtain ⟨t, rfl⟩ := h
  rw [posOf_append]
  refine lt_posFrom _ _ ?_
  rintro rfl
  simp at hne

/-- two prefixes of one list are comparable -/
theorem prefix_total {p q l : List UInt8} (hp : p <+: l) (hq : q <+: l) : p <+: q ∨ q <+: p := by
  by_cases h : p.length ≤ q.length
  · exact Or.inl (List.prefix_of_prefix_length_le hp hq h)
  · exact Or.inr (List.prefix_of_prefix_length_le hq hp (by omega))

/-- **posOf_inj**: on the prefixes of one input, the position determines the prefix (so a
    (line, column) pair reported by the parser converts back to a byte offset uniquely). -/
theorem posOf_inj {p q input : List UInt8} (hp : p <+: input) (hq : q <+: input)
    (h : posOf p = posOf q) : p = q := by
  rcases prefix_total hp hq with hpq | hqp
  · by_cases hne : p = q
    · exact hne
    · exact absurd (h ▸ posOf_strict hpq hne) (Pos.lt_irrefl _)
  · by_cases hne : q = p
    · exact hne.symm
    · exact absurd (h ▸ posOf_strict hqp hne) (Pos.lt_irrefl _)

/-- on the prefixes of one input the order of positions is the order of offsets -/
theorem posOf_le_iff {p q input : List UInt8} (hp : p <+: input) (hq : q <+: input) :
    posOf p ≤ posOf q ↔ p.length ≤ q.length := by
  constructor
  · intro h
    rcases prefix_total hp hq with hpq | hqp
    · exact hpq.length_le
    · by_cases hne : q = p
      · rw [hne]; exact Nat.le_refl _
      · exact absurd h (Pos.not_le_of_lt (posOf_strict hqp hne))
  · intro h
    exact posOf_mono (List.prefix_of_prefix_length_le hp hq h)

end Spans
end Parse
end Lexpr
