/-
  C08 — each parser option governs exactly its tokens.
-/
import LexprModel.Parse
namespace Lexpr
namespace Parse

/-! ### the parser monad applied to a state -/

@[simp] theorem bind_apply {α β : Type} (m : P α) (f : α → P β) (s : St) :
    (m >>= f) s = match m s with
      | .ok a s' => f a s'
      | .err e s' => .err e s'
      | .panic p => .panic p
      | .fuel => .fuel := rfl

@[simp] theorem pure_apply {α : Type} (a : α) (s : St) : (pure a : P α) s = .ok a s := rfl

/-! ### byte facts -/

theorem byte_forall (p : UInt8 → Prop) [DecidablePred p]
    (h : ∀ n : Fin 256, p (UInt8.ofNat n.val)) : ∀ b : UInt8, p b := by
  intro b
  have := h ⟨b.toNat, b.toNat_lt⟩
  simpa using this

theorem alpha_facts : ∀ b : UInt8, isAsciiAlpha b = true →
    (b == 35) = false ∧ (b == 45) = false ∧ (b == 43) = false ∧ isDigit b = false ∧
    (b == 34) = false ∧ (b == 40) = false ∧ (b == 91) = false ∧ (b == 58) = false ∧
    symTermSlice b = false := by
  apply byte_forall
  decide +kernel


/-! ### reader lemmas -/

theorem consume_mode (rd : Rd) (n : Nat) : (rd.consume n).mode = rd.mode := by
  induction n generalizing rd with
  | zero => simp [Rd.consume]
  | succ n ih =>
    unfold Rd.consume
    split
    · rfl
    · simp only [ih]

theorem consume_faulty (rd : Rd) (n : Nat) : (rd.consume n).faulty = rd.faulty := by
  induction n generalizing rd with
  | zero => simp [Rd.consume]
  | succ n ih =>
    unfold Rd.consume
    split
    · rfl
    · simp only [ih]

theorem consume_peeked (rd : Rd) (n : Nat) : (rd.consume n).peeked = false := by
  induction n generalizing rd with
  | zero => simp [Rd.consume]
  | succ n ih =>
    unfold Rd.consume
    split
    · rfl
    · simp only [ih]

theorem consume_rest (rd : Rd) (n : Nat) : (rd.consume n).rest = rd.rest.drop n := by
  induction n generalizing rd with
  | zero => simp [Rd.consume]
  | succ n ih =>
    unfold Rd.consume
    split
    · next h => simp [h]
    · next b bs h => simp only [ih, h, List.drop_succ_cons]

/-- The state after `n` more bytes have been consumed. -/
def St.adv (s : St) (n : Nat) : St := { s with rd := s.rd.consume n }

@[simp] theorem adv_depth (s : St) (n : Nat) : (s.adv n).depth = s.depth := rfl
@[simp] theorem adv_mode (s : St) (n : Nat) : (s.adv n).rd.mode = s.rd.mode := consume_mode _ _
@[simp] theorem adv_faulty (s : St) (n : Nat) : (s.adv n).rd.faulty = s.rd.faulty :=
  consume_faulty _ _
@[simp] theorem adv_peeked (s : St) (n : Nat) : (s.adv n).rd.peeked = false := consume_peeked _ _
@[simp] theorem adv_rest (s : St) (n : Nat) : (s.adv n).rd.rest = s.rd.rest.drop n :=
  consume_rest _ _

/-- `peek` on a slice source that has nothing peeked leaves the state alone. -/
theorem peek_slice (s : St) (hm : s.rd.mode = .slice) (hp : s.rd.peeked = false)
    (hf : s.rd.faulty = false) : peek s = .ok s.rd.rest.head? s := by
  obtain ⟨⟨mode, rest, line, col, peeked, faulty⟩, depth⟩ := s
  simp only at hm hp hf
  subst hm hp hf
  cases rest <;> simp [peek]

theorem peek_adv (s : St) (n : Nat) (hm : s.rd.mode = .slice) (hf : s.rd.faulty = false) :
    peek (s.adv n) = .ok (s.rd.rest.drop n).head? (s.adv n) := by
  rw [peek_slice (s.adv n) (by simp [hm]) (by simp) (by simp [hf])]
  simp

theorem consumeN_eq (n : Nat) (s : St) : consumeN n s = .ok () (s.adv n) := rfl
theorem getRest_eq (s : St) : getRest s = .ok s.rd.rest s := rfl
theorem getMode_eq (s : St) : getMode s = .ok s.rd.mode s := rfl

theorem discard_cons (s : St) (b : UInt8) (bs : List UInt8) (h : s.rd.rest = b :: bs) :
    discard s = .ok () (s.adv 1) := by
  simp [discard, h, St.adv]

theorem next_cons (s : St) (b : UInt8) (bs : List UInt8) (h : s.rd.rest = b :: bs) :
    next s = .ok (some b) (s.adv 1) := by
  simp [next, h, St.adv]

theorem consume_nil (rd : Rd) (k : Nat) (h : rd.rest = []) :
    rd.consume k = { rd with peeked := false } := by
  cases k <;> simp [Rd.consume, h]

theorem consume_cons (rd : Rd) (k : Nat) (b : UInt8) (bs : List UInt8) (h : rd.rest = b :: bs) :
    rd.consume (k + 1) =
      Rd.consume { rd with rest := bs, line := (advance rd.line rd.col b).1,
                           col := (advance rd.line rd.col b).2, peeked := false } k := by
  rw [Rd.consume]
  simp [h]

theorem consume_consume (rd : Rd) (m n : Nat) : (rd.consume m).consume n = rd.consume (m + n) := by
  induction m generalizing rd with
  | zero =>
    simp only [Nat.zero_add]
    cases n <;> simp [Rd.consume]
  | succ m ih =>
    cases h : rd.rest with
    | nil =>
      rw [consume_nil rd _ h, consume_nil rd _ h, consume_nil _ _ (by simpa using h)]
    | cons b bs =>
      rw [consume_cons rd m b bs h, Nat.succ_add, consume_cons rd (m + n) b bs h, ih]

theorem adv_adv (s : St) (m n : Nat) : (s.adv m).adv n = s.adv (m + n) := by
  simp [St.adv, consume_consume]

/-! ### UTF-8 validity of a concatenation -/

theorem utf8_run_append (st : Utf8.St) (a b : List UInt8) :
    Utf8.run st (a ++ b) = (Utf8.run st a).bind fun st' => Utf8.run st' b := by
  induction a generalizing st with
  | nil => simp [Utf8.run]
  | cons x xs ih =>
    simp only [List.cons_append, Utf8.run]
    cases Utf8.step st x with
    | none => simp
    | some st' => simp [ih]

theorem utf8_valid_append (a b : List UInt8) (ha : Utf8.valid a = true) (hb : Utf8.valid b = true) :
    Utf8.valid (a ++ b) = true := by
  simp only [Utf8.valid, beq_iff_eq] at *
  rw [utf8_run_append, ha]
  simpa using hb

/-! ### tokens -/

/-- `body ++ rest` where `body` runs up to the next symbol terminator (or the end of input). -/
structure IsBody (body rest : List UInt8) : Prop where
  noTerm : ∀ b ∈ body, symTermSlice b = false
  restOk : rest = [] ∨ ∃ b bs, rest = b :: bs ∧ symTermSlice b = true

/-- A *token*: a non-empty, valid UTF-8 `name` without symbol terminators, followed by the end
    of input or a symbol terminator. -/
structure IsToken (name rest : List UInt8) : Prop extends IsBody name rest where
  ne : name ≠ []
  utf8 : Utf8.valid name = true

/-- Source mode `.slice`, reads do not fail, and the input is `inp`. -/
structure SliceAt (s : St) (inp : List UInt8) : Prop where
  mode : s.rd.mode = .slice
  faulty : s.rd.faulty = false
  rest : s.rd.rest = inp

theorem symLen_body (name rest : List UInt8) (h : IsBody name rest) :
    symLen .slice (name ++ rest) = name.length := by
  induction name with
  | nil =>
    rcases h.restOk with h | ⟨b, bs, h, hb⟩
    · simp [h, symLen]
    · simp [h, symLen, symTerm, hb]
  | cons x xs ih =>
    have hx : symTermSlice x = false := h.noTerm x (by simp)
    have : IsBody xs rest := ⟨fun b hb => h.noTerm b (by simp [hb]), h.restOk⟩
    simp [symLen, symTerm, hx, ih this]

theorem IsBody.tail {x : UInt8} {xs rest : List UInt8} (h : IsBody (x :: xs) rest) :
    IsBody xs rest := ⟨fun b hb => h.noTerm b (by simp [hb]), h.restOk⟩

/-- `parse_symbol_bytes` on a token: the scratch prefix plus the whole body, and the input is
    left at `rest`. -/
theorem parseSymbolBytes_body (scratch name rest : List UInt8) (s : St)
    (hb : IsBody name rest) (hs : SliceAt s (name ++ rest))
    (hv : Utf8.valid (scratch ++ name) = true) (hdot : scratch ++ name ≠ [46]) :
    parseSymbolBytes scratch s = .ok (scratch ++ name) (s.adv name.length) := by
  unfold parseSymbolBytes
  simp only [bind_apply, getRest_eq, getMode_eq, hs.mode, hs.rest, symLen_body name rest hb,
    consumeN_eq, peek_adv s _ hs.mode hs.faulty, List.take_left']
  simp [hdot, hv]

theorem SliceAt.adv {s : St} {a b : List UInt8} (h : SliceAt s (a ++ b)) :
    SliceAt (s.adv a.length) b := by
  refine ⟨by simp [h.mode], by simp [h.faulty], ?_⟩
  simp [h.rest]


/-! ### the letter arm -/

/-- Closed form of what a letter-initial token reads as. -/
def letterTok (o : Options) (name : List UInt8) : Token :=
  if o.kwPostfix = true ∧ name.getLast? = some 58 then .keyword name.dropLast
  else if o.nil ≠ .default ∧ name = asc "nil" then
    (match o.nil with | .emptyList => .null | _ => .nil)
  else if o.t ≠ .default ∧ name = asc "t" then .bool true
  else .symbol name

theorem letter_arm (cfg : Cfg) (fuel : Nat) (pk : UInt8) (name rest : List UInt8) (s : St)
    (ht : IsToken name rest) (hs : SliceAt s (name ++ rest)) (hpk : name.head? = some pk)
    (hl : isAsciiAlpha pk = true) :
    parseToken cfg fuel pk s = .ok (letterTok cfg.opts name) (s.adv name.length) := by
  obtain ⟨h35, h45, h43, hd, h34, h40, h91, h58, _⟩ := alpha_facts pk hl
  have hdot : [] ++ name ≠ [46] := by
    intro h
    simp only [List.nil_append] at h
    subst h
    simp at hpk
    subst hpk
    simp [isAsciiAlpha] at hl
  unfold parseToken
  simp only [h35, h45, h43, hd, h34, h40, h91, h58, hl, Bool.false_eq_true, ↓reduceIte]
  simp only [bind_apply, parseSymbolBytes_body [] name rest s ht.toIsBody hs (by simpa using ht.utf8) hdot]
  simp only [List.nil_append, letterTok]
  cases hn : cfg.opts.nil <;> cases htt : cfg.opts.t <;> cases hk : cfg.opts.kwPostfix <;>
    by_cases h1 : name.getLast? = some 58 <;> by_cases h2 : name = asc "nil" <;>
    by_cases h3 : name = asc "t" <;> simp [h1, h2, h3] <;> (split <;> rfl)


/-! ### `symbol_token` -/

theorem symbolToken_keyword (o : Options) (name k : List UInt8) :
    symbolToken o name = .keyword k ↔
      o.kwPostfix = true ∧ name.length > 1 ∧ name.getLast? = some 58 ∧ k = name.dropLast := by
  unfold symbolToken
  split
  · next h =>
    simp only [Bool.and_eq_true, decide_eq_true_eq, beq_iff_eq] at h
    simp only [Token.keyword.injEq, h, true_and]
    exact eq_comm
  · next h =>
    simp only [Bool.and_eq_true, decide_eq_true_eq, beq_iff_eq] at h
    simp only [reduceCtorEq, false_iff]
    intro ⟨h1, h2, h3, _⟩
    exact h ⟨⟨h1, h2⟩, h3⟩

theorem symbolToken_symbol (o : Options) (name k : List UInt8) :
    symbolToken o name = .symbol k ↔
      ¬ (o.kwPostfix = true ∧ name.length > 1 ∧ name.getLast? = some 58) ∧ k = name := by
  unfold symbolToken
  split
  · next h =>
    simp only [Bool.and_eq_true, decide_eq_true_eq, beq_iff_eq] at h
    simp [h]
  · next h =>
    simp only [Bool.and_eq_true, decide_eq_true_eq, beq_iff_eq] at h
    simp only [Token.symbol.injEq]
    constructor
    · intro e; exact ⟨fun ⟨h1, h2, h3⟩ => h ⟨⟨h1, h2⟩, h3⟩, e.symm⟩
    · intro ⟨_, e⟩; exact e.symm

/-- `symbol_token` only ever yields a symbol or a keyword. -/
theorem symbolToken_cases (o : Options) (name : List UInt8) :
    symbolToken o name = .symbol name ∨ symbolToken o name = .keyword name.dropLast := by
  unfold symbolToken
  split
  · exact .inr rfl
  · exact .inl rfl

/-! ### the `:` arm -/

theorem colon_prefix_arm (cfg : Cfg) (fuel : Nat) (tl rest : List UInt8) (s : St)
    (hb : IsBody tl rest) (hv : Utf8.valid tl = true) (hs : SliceAt s (58 :: tl ++ rest))
    (hk : cfg.opts.kwPrefix = true) (hdot : tl ≠ [46]) :
    parseToken cfg fuel 58 s = .ok (.keyword tl) (s.adv (tl.length + 1)) := by
  have hs1 : SliceAt (s.adv 1) (tl ++ rest) := SliceAt.adv (a := [58]) hs
  unfold parseToken
  simp [hk, isDigit, discard_cons s 58 (tl ++ rest) hs.rest,
    parseSymbolBytes_body [] tl rest (s.adv 1) hb hs1 (by simpa using hv) (by simpa using hdot),
    adv_adv, Nat.add_comm]


/-- With prefix keywords, `:.` is rejected (the name after the colon is the lone dot). -/
theorem colon_prefix_dot (cfg : Cfg) (fuel : Nat) (rest : List UInt8) (s : St)
    (hb : IsBody [46] rest) (hs : SliceAt s (58 :: 46 :: rest))
    (hk : cfg.opts.kwPrefix = true) :
    ∃ l c, parseToken cfg fuel 58 s =
      .err (.syntax (if rest = [] then .eofValue else .invalidSymbol) l c) (s.adv 2) := by
  have hs1 : SliceAt (s.adv 1) ([46] ++ rest) := SliceAt.adv (a := [58]) hs
  have h1 : parseToken cfg fuel 58 s =
      (parseSymbolBytes [] >>= fun name => pure (.keyword name)) (s.adv 1) := by
    unfold parseToken
    simp [hk, isDigit, discard_cons s 58 (46 :: rest) hs.rest]
  rw [h1]
  simp only [parseSymbolBytes, bind_apply, getRest_eq, getMode_eq, hs1.mode, hs1.rest,
    symLen_body [46] rest hb, consumeN_eq, List.take_left', adv_adv]
  simp only [List.length_cons, List.length_nil, peek_adv s 2 hs.mode hs.faulty, hs.rest]
  cases rest <;> simp [errAt, invalidDot]

theorem colon_noprefix_arm (cfg : Cfg) (fuel : Nat) (tl rest : List UInt8) (s : St)
    (ht : IsToken (58 :: tl) rest) (hs : SliceAt s (58 :: tl ++ rest))
    (hk : cfg.opts.kwPrefix = false) :
    parseToken cfg fuel 58 s = .ok (symbolToken cfg.opts (58 :: tl)) (s.adv (tl.length + 1)) := by
  unfold parseToken
  simp [hk, isDigit,
    parseSymbolBytes_body [] (58 :: tl) rest s ht.toIsBody hs (by simpa using ht.utf8) (by simp)]

/-! ### the arms that read a symbol with `symbol_token` -/

theorem ext_facts_tok : ∀ b : UInt8, isSymbolExtended b = true →
    (b == 35) = false ∧ (b == 45) = false ∧ (b == 43) = false ∧ isDigit b = false ∧
    (b == 34) = false ∧ (b == 40) = false ∧ (b == 91) = false ∧ isAsciiAlpha b = false ∧
    (b == 39) = false ∧ (b == 96) = false ∧ (b == 44) = false ∧ (decide (b > 127)) = false ∧
    symTermSlice b = false := by
  apply byte_forall
  decide +kernel

/-- A token that starts with one of `!$%&*./<=>?@^_~` (for `?`: unless Emacs Lisp characters
    are enabled) is read by `symbol_token`. -/
theorem extended_arm (cfg : Cfg) (fuel : Nat) (pk : UInt8) (name rest : List UInt8) (s : St)
    (ht : IsToken name rest) (hs : SliceAt s (name ++ rest)) (_hpk : name.head? = some pk)
    (he : isSymbolExtended pk = true) (h58 : pk ≠ 58)
    (hq : pk = 63 → cfg.opts.char ≠ .elisp) (hdot : name ≠ [46]) :
    parseToken cfg fuel pk s = .ok (symbolToken cfg.opts name) (s.adv name.length) := by
  obtain ⟨h35, h45, h43, hd, h34, h40, h91, ha, h39, h96, h44, h127, _⟩ := ext_facts_tok pk he
  have hq' : (pk == 63 && cfg.opts.char == CharSyntax.elisp) = false := by
    by_cases h : pk = 63
    · have := hq h
      simp [h, this]
    · simp [h]
  have h127' : ¬ (pk > 127) := by simpa using h127
  unfold parseToken
  simp only [h35, h45, h43, hd, h34, h40, h91, ha, h39, h96, h44, h127', hq', he, h58,
    beq_iff_eq, Bool.false_eq_true, ↓reduceIte]
  simp only [bind_apply,
    parseSymbolBytes_body [] name rest s ht.toIsBody hs (by simpa using ht.utf8) (by simpa using hdot)]
  rfl

/-! ### the arms that consult no option, or exactly one -/

theorem paren_arm (cfg : Cfg) (fuel : Nat) (s : St) (x : List UInt8) (hs : s.rd.rest = 40 :: x) :
    parseToken cfg fuel 40 s = .ok (.listOpen 41) (s.adv 1) := by
  unfold parseToken
  simp [isDigit, discard_cons s 40 x hs]

theorem quote_arm (cfg : Cfg) (fuel : Nat) (s : St) (x : List UInt8) (hs : s.rd.rest = 39 :: x) :
    parseToken cfg fuel 39 s = .ok (.quotation .quote) (s.adv 1) := by
  unfold parseToken
  simp [isDigit, isAsciiAlpha, discard_cons s 39 x hs]

theorem quasiquote_arm (cfg : Cfg) (fuel : Nat) (s : St) (x : List UInt8)
    (hs : s.rd.rest = 96 :: x) :
    parseToken cfg fuel 96 s = .ok (.quotation .quasiquote) (s.adv 1) := by
  unfold parseToken
  simp [isDigit, isAsciiAlpha, discard_cons s 96 x hs]

theorem unquote_splicing_arm (cfg : Cfg) (fuel : Nat) (s : St) (x : List UInt8)
    (hm : s.rd.mode = .slice) (hf : s.rd.faulty = false) (hs : s.rd.rest = 44 :: 64 :: x) :
    parseToken cfg fuel 44 s = .ok (.quotation .unquoteSplicing) (s.adv 2) := by
  unfold parseToken
  simp [isDigit, isAsciiAlpha, discard_cons s 44 _ hs, peekOrNull, peek_adv s 1 hm hf, hs,
    discard_cons (s.adv 1) 64 x (by simp [hs]), adv_adv]

theorem unquote_arm (cfg : Cfg) (fuel : Nat) (s : St) (x : List UInt8)
    (hm : s.rd.mode = .slice) (hf : s.rd.faulty = false) (hs : s.rd.rest = 44 :: x)
    (hx : x.head? ≠ some 64) :
    parseToken cfg fuel 44 s = .ok (.quotation .unquote) (s.adv 1) := by
  unfold parseToken
  cases x with
  | nil => simp [isDigit, isAsciiAlpha, discard_cons s 44 _ hs, peekOrNull, peek_adv s 1 hm hf, hs]
  | cons b bs =>
    have : b ≠ 64 := by simpa using hx
    simp [isDigit, isAsciiAlpha, discard_cons s 44 _ hs, peekOrNull, peek_adv s 1 hm hf, hs, this]

theorem bracket_arm (cfg : Cfg) (fuel : Nat) (s : St) (x : List UInt8) (hs : s.rd.rest = 91 :: x) :
    parseToken cfg fuel 91 s =
      .ok (match cfg.opts.brackets with | .vector => .vecOpen 93 | .list => .listOpen 93)
        (s.adv 1) := by
  unfold parseToken
  cases h : cfg.opts.brackets <;> simp [isDigit, discard_cons s 91 x hs]

theorem string_frame (c1 c2 : Cfg) (fuel : Nat) (h : c1.opts.string = c2.opts.string) :
    parseToken c1 fuel 34 = parseToken c2 fuel 34 := by
  unfold parseToken
  simp [isDigit, h]

/-- With Emacs Lisp characters, `?` is the character arm. -/
theorem qmark_elisp_arm (cfg : Cfg) (fuel : Nat) (h : cfg.opts.char = .elisp) :
    parseToken cfg fuel 63 = (do discard; let c ← parseElispChar fuel; pure (.char c)) := by
  unfold parseToken
  simp [isDigit, isAsciiAlpha, h]

theorem qmark_elisp_only_char (cfg : Cfg) (fuel : Nat) (h : cfg.opts.char = .elisp) (s s' : St)
    (tok : Token) (hr : parseToken cfg fuel 63 s = .ok tok s') : ∃ c, tok = .char c := by
  rw [qmark_elisp_arm cfg fuel h] at hr
  simp only [bind_apply] at hr
  cases hd : discard s with
  | ok a s1 =>
    rw [hd] at hr
    simp only at hr
    cases hc : parseElispChar fuel s1 with
    | ok c s2 =>
      rw [hc] at hr
      simp only [pure_apply, Res.ok.injEq] at hr
      exact ⟨c, hr.1.symm⟩
    | err e s2 => rw [hc] at hr; simp at hr
    | panic p => rw [hc] at hr; simp at hr
    | fuel => rw [hc] at hr; simp at hr
  | err e s1 => rw [hd] at hr; simp at hr
  | panic p => rw [hd] at hr; simp at hr
  | fuel => rw [hd] at hr; simp at hr

/-- `?b` for a plain ASCII byte `b` reads the character `b`. -/
theorem qmark_elisp_plain (cfg : Cfg) (fuel : Nat) (h : cfg.opts.char = .elisp) (s : St)
    (b : UInt8) (x : List UInt8) (hs : s.rd.rest = 63 :: b :: x) (hb : b ≤ 127)
    (hne : b ≠ 40 ∧ b ≠ 41 ∧ b ≠ 91 ∧ b ≠ 93 ∧ b ≠ 59 ∧ b ≠ 92) :
    parseToken cfg fuel 63 s = .ok (.char b.toNat) (s.adv 2) := by
  rw [qmark_elisp_arm cfg fuel h]
  have hb' : ¬ (b > 127) := by
    intro h'
    exact absurd hb (UInt8.not_le.mpr h')
  simp [discard_cons s 63 _ hs, parseElispChar, next_cons (s.adv 1) b x (by simp [hs]), hb', hne,
    adv_adv]

/-! ### `#%` (Racket) -/

theorem hash_percent_frame (c1 c2 : Cfg) (fuel : Nat) (s : St) (x : List UInt8)
    (hs : s.rd.rest = 35 :: 37 :: x) (h : c1.opts.racket = c2.opts.racket) :
    parseToken c1 fuel 35 s = parseToken c2 fuel 35 s := by
  unfold parseToken
  simp [discard_cons s 35 _ hs, next_cons (s.adv 1) 37 x (by simp [hs]), h]

theorem hash_percent_racket (cfg : Cfg) (fuel : Nat) (s : St) (name rest : List UInt8)
    (hb : IsBody name rest) (hv : Utf8.valid name = true)
    (hs : SliceAt s (35 :: 37 :: name ++ rest)) (h : cfg.opts.racket = true) :
    parseToken cfg fuel 35 s = .ok (.symbol (asc "#%" ++ name)) (s.adv (name.length + 2)) := by
  have hs2 : SliceAt (s.adv 2) (name ++ rest) := SliceAt.adv (a := [35, 37]) hs
  have hv' : Utf8.valid (asc "#%" ++ name) = true := utf8_valid_append _ _ (by decide) hv
  have hdot : asc "#%" ++ name ≠ [46] := by simp [asc, ch]
  unfold parseToken
  simp [discard_cons s 35 _ hs.rest, next_cons (s.adv 1) 37 (name ++ rest) (by simp [hs.rest]), h,
    adv_adv, parseSymbolBytes_body (asc "#%") name rest (s.adv 2) hb hs2 hv' hdot, Nat.add_comm]

theorem hash_percent_plain (cfg : Cfg) (fuel : Nat) (s : St) (x : List UInt8)
    (hs : s.rd.rest = 35 :: 37 :: x) (h : cfg.opts.racket = false) :
    parseToken cfg fuel 35 s =
      .err (.syntax .expectedSomeIdent (s.adv 2).rd.peekPosition.line
        (s.adv 2).rd.peekPosition.col) (s.adv 2) := by
  unfold parseToken
  simp [discard_cons s 35 _ hs, next_cons (s.adv 1) 37 x (by simp [hs]), h, adv_adv, peekErr]

/-! ### numbers depend on the float configuration only -/

/-- The two configurations agree on everything the number parser looks at. -/
def NumCfgEq (c1 c2 : Cfg) : Prop := c1.fast = c2.fast ∧ c1.pow10 = c2.pow10

theorem f64FromParts_congr {c1 c2 : Cfg} (h : NumCfgEq c1 c2) :
    f64FromParts c1 = f64FromParts c2 := by
  funext pos sig e
  simp only [f64FromParts, h.1, h.2]

theorem exponentLoop_congr {c1 c2 : Cfg} (h : NumCfgEq c1 c2) (pos : Bool) (sig : Nat)
    (startExp : Int) (posExp : Bool) (fuel : Nat) :
    exponentLoop c1 pos sig startExp posExp fuel = exponentLoop c2 pos sig startExp posExp fuel := by
  induction fuel with
  | zero => funext e; rfl
  | succ f ih =>
    funext e
    simp only [exponentLoop, ih, f64FromParts_congr h]

theorem parseExponent_congr {c1 c2 : Cfg} (h : NumCfgEq c1 c2) :
    parseExponent c1 = parseExponent c2 := by
  funext fuel pos sig startExp
  simp only [parseExponent, exponentLoop_congr h]

theorem parseDecimal_congr {c1 c2 : Cfg} (h : NumCfgEq c1 c2) :
    parseDecimal c1 = parseDecimal c2 := by
  funext fuel pos sig e
  simp only [parseDecimal, parseExponent_congr h, f64FromParts_congr h]

theorem parseLongInteger_congr {c1 c2 : Cfg} (h : NumCfgEq c1 c2) (radix : Nat) (pos : Bool)
    (sig : Nat) (fuel : Nat) :
    parseLongInteger c1 radix pos sig fuel = parseLongInteger c2 radix pos sig fuel := by
  induction fuel with
  | zero => funext e; rfl
  | succ f ih =>
    funext e
    simp only [parseLongInteger, ih, f64FromParts_congr h, parseDecimal_congr h,
      parseExponent_congr h]

theorem parseNumTail_congr {c1 c2 : Cfg} (h : NumCfgEq c1 c2) :
    parseNumTail c1 = parseNumTail c2 := by
  funext fuel radix pos sig
  simp only [parseNumTail, parseDecimal_congr h, parseExponent_congr h]

theorem numLoop_congr {c1 c2 : Cfg} (h : NumCfgEq c1 c2) (radix : Nat) (pos : Bool) (fuel : Nat) :
    numLoop c1 radix pos fuel = numLoop c2 radix pos fuel := by
  induction fuel with
  | zero => funext e; rfl
  | succ f ih =>
    funext e
    simp only [numLoop, ih, parseNumTail_congr h, parseLongInteger_congr h]

theorem parseNumLiteral_congr {c1 c2 : Cfg} (h : NumCfgEq c1 c2) :
    parseNumLiteral c1 = parseNumLiteral c2 := by
  funext fuel radix pos
  simp only [parseNumLiteral, numLoop_congr h]

theorem parseNumToken_congr {c1 c2 : Cfg} (h : NumCfgEq c1 c2) :
    parseNumToken c1 = parseNumToken c2 := by
  funext fuel pos
  simp only [parseNumToken, parseNumLiteral_congr h]

theorem wholeNumber_congr {c1 c2 : Cfg} (h : NumCfgEq c1 c2) :
    wholeNumber c1 = wholeNumber c2 := by
  funext sym
  simp only [wholeNumber, parseNumLiteral_congr h]

/-! ### the digit arm -/

theorem digit_facts : ∀ b : UInt8, isDigit b = true →
    (b == 35) = false ∧ (b == 45) = false ∧ (b == 43) = false ∧ b ≠ 46 ∧
    symTermSlice b = false := by
  apply byte_forall
  decide +kernel

/-- Digit-initial input is governed by `leadingDigit` and `kwPostfix` (and the float
    configuration) only. -/
theorem digit_frame (c1 c2 : Cfg) (fuel : Nat) (pk : UInt8) (hd : isDigit pk = true)
    (hn : NumCfgEq c1 c2) (h1 : c1.opts.leadingDigit = c2.opts.leadingDigit)
    (h2 : c1.opts.kwPostfix = c2.opts.kwPostfix) :
    parseToken c1 fuel pk = parseToken c2 fuel pk := by
  obtain ⟨h35, h45, h43, _, _⟩ := digit_facts pk hd
  unfold parseToken
  simp only [h35, h45, h43, hd, Bool.false_eq_true, ↓reduceIte, h1, parseNumToken_congr hn,
    wholeNumber_congr hn, symbolToken, h2]

/-- Without `leadingDigit` a digit starts a number. -/
theorem digit_number_arm (cfg : Cfg) (fuel : Nat) (pk : UInt8) (hd : isDigit pk = true)
    (h : cfg.opts.leadingDigit = false) :
    parseToken cfg fuel pk = (do let n ← parseNumToken cfg fuel true; pure (.number n)) := by
  obtain ⟨h35, h45, h43, _, _⟩ := digit_facts pk hd
  unfold parseToken
  simp only [h35, h45, h43, hd, Bool.false_eq_true, ↓reduceIte, h]

/-- With `leadingDigit` a digit-initial token is a number if the whole token is one, and
    otherwise what `symbol_token` makes of it. -/
theorem digit_symbol_arm (cfg : Cfg) (fuel : Nat) (pk : UInt8) (name rest : List UInt8) (s : St)
    (ht : IsToken name rest) (hs : SliceAt s (name ++ rest)) (hpk : name.head? = some pk)
    (hd : isDigit pk = true) (h : cfg.opts.leadingDigit = true) :
    parseToken cfg fuel pk s =
      .ok (match wholeNumber cfg name with
           | some n => .number n
           | none => symbolToken cfg.opts name) (s.adv name.length) := by
  obtain ⟨h35, h45, h43, h46, _⟩ := digit_facts pk hd
  have hdot : [] ++ name ≠ [46] := by
    intro e
    simp only [List.nil_append] at e
    subst e
    simp at hpk
    exact h46 hpk.symm
  unfold parseToken
  simp only [h35, h45, h43, hd, Bool.false_eq_true, ↓reduceIte, h, bind_apply,
    parseSymbolBytes_body [] name rest s ht.toIsBody hs (by simpa using ht.utf8) hdot,
    List.nil_append]
  cases wholeNumber cfg name <;> rfl

/-! ### quotation shorthands in `next_value` -/

theorem parseWhitespace_nontrivia (s : St) (b : UInt8) (x : List UInt8)
    (hm : s.rd.mode = .slice) (hf : s.rd.faulty = false) (hs : s.rd.rest = b :: x)
    (h59 : b ≠ 59) (ht : isTrivia b = false) :
    parseWhitespace s = .ok (some b) (s.adv 0) := by
  unfold parseWhitespace
  simp [getRest_eq, hs, wsLen, h59, ht, consumeN_eq, peek_adv s 0 hm hf]

/-- The quotation arm of `next_value`, given what the tokeniser and the recursive call do. -/
theorem nextValue_quotation (cfg : Cfg) (f : Nat) (s s0 s1 s2 : St) (pk : UInt8) (q : Quote)
    (v : Value)
    (hw : parseWhitespace s = .ok (some pk) s0)
    (ht : parseToken cfg (s0.rd.rest.length + 1) pk s0 = .ok (.quotation q) s1)
    (hd : 2 ≤ s1.depth)
    (hv : nextValue cfg f { s1 with depth := s1.depth - 1 } = .ok (some v) s2) :
    nextValue cfg (f + 1) s =
      .ok (some (Value.list [.symbol q.name, v])) { s2 with depth := s2.depth + 1 } := by
  have hd1 : (s1.depth == 0) = false := by simp; omega
  have hd2 : (s1.depth - 1 == 0) = false := by simp; omega
  rw [nextValue]
  simp only [bind_apply, hw, tokenFuel, ht, enter, hd1, hd2, Bool.false_eq_true, ↓reduceIte,
    attempt, hv, leave, pure_apply]

/-! ### helpers for the main theorems -/

/-- What may follow a token: nothing, or a symbol terminator. -/
def RestOk (rest : List UInt8) : Prop := rest = [] ∨ ∃ b bs, rest = b :: bs ∧ symTermSlice b = true

theorem isToken_nil (rest : List UInt8) (hr : RestOk rest) : IsToken (asc "nil") rest :=
  ⟨⟨by decide, hr⟩, by decide, by decide⟩

theorem isToken_t (rest : List UInt8) (hr : RestOk rest) : IsToken (asc "t") rest :=
  ⟨⟨by decide, hr⟩, by decide, by decide⟩

/-- A configuration for the examples. -/
def cfgOf (o : Options) : Cfg := { opts := o, isAlphabetic := fun _ => false, pow10 := fun _ => 0 }

theorem sliceAt_init (inp : List UInt8) : SliceAt (initSt .slice inp) inp := ⟨rfl, rfl, rfl⟩

theorem nil_ne_t : asc "nil" ≠ asc "t" := by decide
theorem nil_last : (asc "nil").getLast? ≠ some 58 := by decide
theorem t_last : (asc "t").getLast? ≠ some 58 := by decide

theorem letterTok_frame (o1 o2 : Options) (name : List UInt8)
    (hk : o1.kwPostfix = o2.kwPostfix ∨ name.getLast? ≠ some 58)
    (hn : o1.nil = o2.nil ∨ name ≠ asc "nil") (ht : o1.t = o2.t ∨ name ≠ asc "t") :
    letterTok o1 name = letterTok o2 name := by
  unfold letterTok
  by_cases h1 : name.getLast? = some 58
  · have hk' : o1.kwPostfix = o2.kwPostfix := hk.resolve_right (by simp [h1])
    have n1 : name ≠ asc "nil" := by intro e; subst e; exact nil_last h1
    have n2 : name ≠ asc "t" := by intro e; subst e; exact t_last h1
    simp [h1, hk', n1, n2]
  · by_cases h2 : name = asc "nil"
    · have hn' : o1.nil = o2.nil := hn.resolve_right (by simp [h2])
      subst h2
      simp [nil_last, nil_ne_t, hn']
    · by_cases h3 : name = asc "t"
      · have ht' : o1.t = o2.t := ht.resolve_right (by simp [h3])
        subst h3
        simp [t_last, Ne.symm nil_ne_t, ht']
      · simp [h1, h2, h3]

/-! ## Main theorems -/

/-- `symLen` on a token: the scanner stops exactly at the end of the name. -/
theorem C08_symLen (name rest : List UInt8) (h : IsBody name rest) :
    symLen .slice (name ++ rest) = name.length := symLen_body name rest h

/-- `parse_symbol_bytes` on a token returns the scratch prefix followed by the name and leaves
    the input at `rest`; the name is not the lone dot. -/
theorem C08_parseSymbolBytes (scratch name rest : List UInt8) (s : St)
    (ht : IsToken name rest) (hs : SliceAt s (name ++ rest))
    (hv : Utf8.valid scratch = true) (hdot : scratch ++ name ≠ [46]) :
    ∃ s', parseSymbolBytes scratch s = .ok (scratch ++ name) s' ∧ s'.rd.rest = rest ∧
      s' = s.adv name.length := by
  refine ⟨_, parseSymbolBytes_body scratch name rest s ht.toIsBody hs
    (utf8_valid_append _ _ hv ht.utf8) hdot, ?_, rfl⟩
  simp [hs.rest]

example : IsToken (asc "foo:") (asc " x") ∧ asc "#%" ++ asc "foo:" ≠ [46] :=
  ⟨⟨⟨by decide, .inr ⟨32, asc "x", rfl, rfl⟩⟩, by decide, by decide⟩, by decide⟩

/-- `symbol_token` yields a keyword exactly for postfix-keyword syntax on a name of at least
    two bytes that ends in a colon. -/
theorem C08_symbol_token_spec (o : Options) (name k : List UInt8) :
    symbolToken o name = .keyword k ↔
      o.kwPostfix = true ∧ name.length > 1 ∧ name.getLast? = some 58 ∧ k = name.dropLast :=
  symbolToken_keyword o name k

example : symbolToken { Options.default with kwPostfix := true } (asc "a:") = .keyword (asc "a") :=
  by rfl

/-- A letter-initial token, for every option set: the closed form `letterTok`, and the input
    is left at `rest`. -/
theorem C08_letter (cfg : Cfg) (fuel : Nat) (pk : UInt8) (name rest : List UInt8) (s : St)
    (ht : IsToken name rest) (hs : SliceAt s (name ++ rest)) (hpk : name.head? = some pk)
    (hl : isAsciiAlpha pk = true) :
    ∃ s', parseToken cfg fuel pk s = .ok
        (if cfg.opts.kwPostfix = true ∧ name.getLast? = some 58 then .keyword name.dropLast
         else if cfg.opts.nil ≠ .default ∧ name = asc "nil" then
           (match cfg.opts.nil with | .emptyList => .null | _ => .nil)
         else if cfg.opts.t ≠ .default ∧ name = asc "t" then .bool true
         else .symbol name) s' ∧
      s'.rd.rest = rest ∧ s' = s.adv name.length := by
  refine ⟨_, letter_arm cfg fuel pk name rest s ht hs hpk hl, ?_, rfl⟩
  simp [hs.rest]

example : IsToken (asc "nil:") (asc ")") ∧ (asc "nil:").head? = some 110 ∧
    isAsciiAlpha 110 = true :=
  ⟨⟨⟨by decide, .inr ⟨41, [], rfl, rfl⟩⟩, by decide, by decide⟩, by decide, by decide⟩

/-- The three readings of `nil`; neither `kwPostfix` nor `t` nor any other option matters. -/
theorem C08_nil (cfg : Cfg) (fuel : Nat) (rest : List UInt8) (s : St) (hr : RestOk rest)
    (hs : SliceAt s (asc "nil" ++ rest)) :
    parseToken cfg fuel 110 s = .ok
      (match cfg.opts.nil with
       | .default => .symbol (asc "nil")
       | .emptyList => .null
       | .special => .nil) (s.adv 3) := by
  rw [letter_arm cfg fuel 110 (asc "nil") rest s (isToken_nil rest hr) hs (by decide) (by decide)]
  have h1 : (asc "nil").getLast? ≠ some 58 := by decide
  have h3 : (asc "nil").length = 3 := by decide
  rw [h3]
  cases h : cfg.opts.nil <;> simp [letterTok, h1, h, nil_ne_t]

example : RestOk (asc " nil") := .inr ⟨32, asc "nil", rfl, rfl⟩

/-- A letter-initial token other than `nil` (for instance `nil:` or `nilx`) is not affected by
    the `nil` option. -/
theorem C08_nil_frame (c1 c2 : Cfg) (fuel : Nat) (pk : UInt8) (name rest : List UInt8) (s : St)
    (ht : IsToken name rest) (hs : SliceAt s (name ++ rest)) (hpk : name.head? = some pk)
    (hl : isAsciiAlpha pk = true) (hne : name ≠ asc "nil")
    (hk : c1.opts.kwPostfix = c2.opts.kwPostfix) (htt : c1.opts.t = c2.opts.t) :
    parseToken c1 fuel pk s = parseToken c2 fuel pk s := by
  rw [letter_arm c1 fuel pk name rest s ht hs hpk hl, letter_arm c2 fuel pk name rest s ht hs hpk hl,
    letterTok_frame c1.opts c2.opts name (.inl hk) (.inr hne) (.inl htt)]

example : asc "nil:" ≠ asc "nil" ∧ asc "nilx" ≠ asc "nil" := by decide

/-- The two readings of `t`. -/
theorem C08_t (cfg : Cfg) (fuel : Nat) (rest : List UInt8) (s : St) (hr : RestOk rest)
    (hs : SliceAt s (asc "t" ++ rest)) :
    parseToken cfg fuel 116 s = .ok
      (match cfg.opts.t with
       | .default => .symbol (asc "t")
       | .true_ => .bool true) (s.adv 1) := by
  rw [letter_arm cfg fuel 116 (asc "t") rest s (isToken_t rest hr) hs (by decide) (by decide)]
  have h1 : (asc "t").getLast? ≠ some 58 := by decide
  have h2 : asc "t" ≠ asc "nil" := by decide
  have h3 : (asc "t").length = 1 := by decide
  rw [h3]
  cases h : cfg.opts.t <;> simp [letterTok, h1, h2, h]

/-- A letter-initial token other than `t` is not affected by the `t` option. -/
theorem C08_t_frame (c1 c2 : Cfg) (fuel : Nat) (pk : UInt8) (name rest : List UInt8) (s : St)
    (ht : IsToken name rest) (hs : SliceAt s (name ++ rest)) (hpk : name.head? = some pk)
    (hl : isAsciiAlpha pk = true) (hne : name ≠ asc "t")
    (hk : c1.opts.kwPostfix = c2.opts.kwPostfix) (hn : c1.opts.nil = c2.opts.nil) :
    parseToken c1 fuel pk s = parseToken c2 fuel pk s := by
  rw [letter_arm c1 fuel pk name rest s ht hs hpk hl, letter_arm c2 fuel pk name rest s ht hs hpk hl,
    letterTok_frame c1.opts c2.opts name (.inl hk) (.inl hn) (.inr hne)]

/-- A letter-initial token that ends in a colon is a keyword (without the colon) exactly under
    `kwPostfix`, and the symbol `name` otherwise, whatever `nil` and `t` say. -/
theorem C08_colon_postfix (cfg : Cfg) (fuel : Nat) (pk : UInt8) (name rest : List UInt8) (s : St)
    (ht : IsToken name rest) (hs : SliceAt s (name ++ rest)) (hpk : name.head? = some pk)
    (hl : isAsciiAlpha pk = true) (hc : name.getLast? = some 58) :
    parseToken cfg fuel pk s =
      .ok (if cfg.opts.kwPostfix = true then .keyword name.dropLast else .symbol name)
        (s.adv name.length) := by
  rw [letter_arm cfg fuel pk name rest s ht hs hpk hl]
  have n1 : name ≠ asc "nil" := by intro e; subst e; revert hc; decide
  have n2 : name ≠ asc "t" := by intro e; subst e; revert hc; decide
  simp [letterTok, hc, n1, n2]

/-- A letter-initial token that does not end in a colon is not affected by `kwPostfix`. -/
theorem C08_colon_postfix_frame (c1 c2 : Cfg) (fuel : Nat) (pk : UInt8) (name rest : List UInt8)
    (s : St) (ht : IsToken name rest) (hs : SliceAt s (name ++ rest))
    (hpk : name.head? = some pk) (hl : isAsciiAlpha pk = true) (hc : name.getLast? ≠ some 58)
    (hn : c1.opts.nil = c2.opts.nil) (htt : c1.opts.t = c2.opts.t) :
    parseToken c1 fuel pk s = parseToken c2 fuel pk s := by
  rw [letter_arm c1 fuel pk name rest s ht hs hpk hl, letter_arm c2 fuel pk name rest s ht hs hpk hl,
    letterTok_frame c1.opts c2.opts name (.inr hc) (.inl hn) (.inl htt)]

/-- Letter-initial tokens depend on `kwPostfix`, `nil` and `t` only. -/
theorem C08_frame_letter (c1 c2 : Cfg) (fuel : Nat) (pk : UInt8) (name rest : List UInt8) (s : St)
    (ht : IsToken name rest) (hs : SliceAt s (name ++ rest)) (hpk : name.head? = some pk)
    (hl : isAsciiAlpha pk = true) (hk : c1.opts.kwPostfix = c2.opts.kwPostfix)
    (hn : c1.opts.nil = c2.opts.nil) (htt : c1.opts.t = c2.opts.t) :
    parseToken c1 fuel pk s = parseToken c2 fuel pk s := by
  rw [letter_arm c1 fuel pk name rest s ht hs hpk hl, letter_arm c2 fuel pk name rest s ht hs hpk hl,
    letterTok_frame c1.opts c2.opts name (.inl hk) (.inl hn) (.inl htt)]

/-- A token that starts with `:`.  With prefix keywords it is the keyword named by the
    remainder (which may be empty, but must not be the lone dot); otherwise `symbol_token`
    decides. -/
theorem C08_colon_prefix (cfg : Cfg) (fuel : Nat) (tl rest : List UInt8) (s : St)
    (ht : IsToken (58 :: tl) rest) (hs : SliceAt s (58 :: tl ++ rest)) (hdot : tl ≠ [46]) :
    parseToken cfg fuel 58 s =
      .ok (if cfg.opts.kwPrefix = true then .keyword tl else symbolToken cfg.opts (58 :: tl))
        (s.adv (tl.length + 1)) := by
  cases hk : cfg.opts.kwPrefix
  · simpa using colon_noprefix_arm cfg fuel tl rest s ht hs hk
  · have hv : Utf8.valid tl = true := by
      have := ht.utf8
      simpa [Utf8.valid, Utf8.run, Utf8.step] using this
    simpa using colon_prefix_arm cfg fuel tl rest s ht.toIsBody.tail hv hs hk hdot

/-- `:.` under prefix keywords is an error (the name after the colon is the lone dot). -/
theorem C08_colon_prefix_dot (cfg : Cfg) (fuel : Nat) (rest : List UInt8) (s : St)
    (hr : RestOk rest) (hs : SliceAt s (58 :: 46 :: rest)) (hk : cfg.opts.kwPrefix = true) :
    ∃ l c, parseToken cfg fuel 58 s =
      .err (.syntax (if rest = [] then .eofValue else .invalidSymbol) l c) (s.adv 2) :=
  colon_prefix_dot cfg fuel rest s ⟨by decide, hr⟩ hs hk

example : IsToken (asc ":key") [] ∧ asc "key" ≠ [46] :=
  ⟨⟨⟨by decide, .inl rfl⟩, by decide, by decide⟩, by decide⟩

/-- `(`, `'`, `` ` `` and `,` consult no option at all. -/
theorem C08_frame_punct (c1 c2 : Cfg) (fuel : Nat) (pk : UInt8)
    (h : pk = 40 ∨ pk = 39 ∨ pk = 96 ∨ pk = 44) :
    parseToken c1 fuel pk = parseToken c2 fuel pk := by
  rcases h with h | h | h | h <;> subst h <;> unfold parseToken <;> simp [isDigit, isAsciiAlpha]

/-- What `(`, `'`, `` ` ``, `,@` and `,` read as. -/
theorem C08_punct (cfg : Cfg) (fuel : Nat) (s : St) (x : List UInt8)
    (hm : s.rd.mode = .slice) (hf : s.rd.faulty = false) :
    (s.rd.rest = 40 :: x → parseToken cfg fuel 40 s = .ok (.listOpen 41) (s.adv 1)) ∧
    (s.rd.rest = 39 :: x → parseToken cfg fuel 39 s = .ok (.quotation .quote) (s.adv 1)) ∧
    (s.rd.rest = 96 :: x → parseToken cfg fuel 96 s = .ok (.quotation .quasiquote) (s.adv 1)) ∧
    (s.rd.rest = 44 :: 64 :: x →
      parseToken cfg fuel 44 s = .ok (.quotation .unquoteSplicing) (s.adv 2)) ∧
    (s.rd.rest = 44 :: x → x.head? ≠ some 64 →
      parseToken cfg fuel 44 s = .ok (.quotation .unquote) (s.adv 1)) :=
  ⟨paren_arm cfg fuel s x, quote_arm cfg fuel s x, quasiquote_arm cfg fuel s x,
   unquote_splicing_arm cfg fuel s x hm hf, unquote_arm cfg fuel s x hm hf⟩

/-- `[` consults `brackets` only, and reads as the corresponding opening token. -/
theorem C08_frame_bracket (c1 c2 : Cfg) (fuel : Nat)
    (h : c1.opts.brackets = c2.opts.brackets) :
    parseToken c1 fuel 91 = parseToken c2 fuel 91 := by
  unfold parseToken
  simp [isDigit, h]

theorem C08_bracket (cfg : Cfg) (fuel : Nat) (s : St) (x : List UInt8)
    (hs : s.rd.rest = 91 :: x) :
    parseToken cfg fuel 91 s =
      .ok (match cfg.opts.brackets with | .vector => .vecOpen 93 | .list => .listOpen 93)
        (s.adv 1) := bracket_arm cfg fuel s x hs

/-- `"` consults `string` only. -/
theorem C08_frame_string (c1 c2 : Cfg) (fuel : Nat) (h : c1.opts.string = c2.opts.string) :
    parseToken c1 fuel 34 = parseToken c2 fuel 34 := string_frame c1 c2 fuel h

/-- `?` consults `char`, and when that is not Emacs Lisp also `kwPostfix` (the token is then a
    symbol read by `symbol_token`). -/
theorem C08_frame_qmark (c1 c2 : Cfg) (fuel : Nat) (hc : c1.opts.char = c2.opts.char)
    (hk : c1.opts.char = .elisp ∨ c1.opts.kwPostfix = c2.opts.kwPostfix) :
    parseToken c1 fuel 63 = parseToken c2 fuel 63 := by
  cases h : c1.opts.char
  · have hk' : c1.opts.kwPostfix = c2.opts.kwPostfix := by
      rcases hk with hk | hk
      · rw [h] at hk; cases hk
      · exact hk
    have h2 : c2.opts.char = .r6rs := by rw [← hc, h]
    unfold parseToken
    simp [isDigit, isAsciiAlpha, isSymbolExtended, h, h2, symbolToken, hk']
  · rw [qmark_elisp_arm c1 fuel h, qmark_elisp_arm c2 fuel (by rw [← hc, h])]

/-- `#%` consults `racket` only. -/
theorem C08_frame_hash_percent (c1 c2 : Cfg) (fuel : Nat) (s : St) (x : List UInt8)
    (hs : s.rd.rest = 35 :: 37 :: x) (h : c1.opts.racket = c2.opts.racket) :
    parseToken c1 fuel 35 s = parseToken c2 fuel 35 s := hash_percent_frame c1 c2 fuel s x hs h

/-- `#%name`: the symbol `#%name` under `racket`, an error otherwise. -/
theorem C08_hash_percent (cfg : Cfg) (fuel : Nat) (s : St) (name rest : List UInt8)
    (hb : IsBody name rest) (hv : Utf8.valid name = true)
    (hs : SliceAt s (35 :: 37 :: name ++ rest)) :
    parseToken cfg fuel 35 s =
      if cfg.opts.racket = true then .ok (.symbol (asc "#%" ++ name)) (s.adv (name.length + 2))
      else .err (.syntax .expectedSomeIdent (s.adv 2).rd.peekPosition.line
        (s.adv 2).rd.peekPosition.col) (s.adv 2) := by
  cases h : cfg.opts.racket
  · simpa using hash_percent_plain cfg fuel s (name ++ rest) hs.rest h
  · simpa using hash_percent_racket cfg fuel s name rest hb hv hs h

/-- Digit-initial input consults `leadingDigit` and `kwPostfix` only (and the float
    configuration of the build). -/
theorem C08_frame_digit (c1 c2 : Cfg) (fuel : Nat) (pk : UInt8) (hd : isDigit pk = true)
    (hn : c1.fast = c2.fast ∧ c1.pow10 = c2.pow10)
    (h1 : c1.opts.leadingDigit = c2.opts.leadingDigit)
    (h2 : c1.opts.kwPostfix = c2.opts.kwPostfix) :
    parseToken c1 fuel pk = parseToken c2 fuel pk := digit_frame c1 c2 fuel pk hd hn h1 h2

/-- A digit-initial token under `leadingDigit`: a number if the whole token is a decimal
    literal, else what `symbol_token` makes of it; without `leadingDigit` the number parser
    runs. -/
theorem C08_digit (cfg : Cfg) (fuel : Nat) (pk : UInt8) (name rest : List UInt8) (s : St)
    (ht : IsToken name rest) (hs : SliceAt s (name ++ rest)) (hpk : name.head? = some pk)
    (hd : isDigit pk = true) :
    parseToken cfg fuel pk s =
      if cfg.opts.leadingDigit = true then
        .ok (match wholeNumber cfg name with
             | some n => .number n
             | none => symbolToken cfg.opts name) (s.adv name.length)
      else (do let n ← parseNumToken cfg fuel true; pure (.number n) : P Token) s := by
  cases h : cfg.opts.leadingDigit
  · rw [digit_number_arm cfg fuel pk hd h, if_neg (by decide)]
  · rw [digit_symbol_arm cfg fuel pk name rest s ht hs hpk hd h, if_pos rfl]

/-- The quotation shorthands: `'x`, `` `x``, `,@x` and `,x` read as the two-element list
    `(quote x)` etc. whenever the rest reads as `x` (one unit of depth is charged while it is
    read, so at least two must remain). -/
theorem C08_quote_shorthand (cfg : Cfg) (f : Nat) (s s2 : St) (x : List UInt8) (v : Value)
    (hm : s.rd.mode = .slice) (hf : s.rd.faulty = false) (hd : 2 ≤ s.depth) :
    (s.rd.rest = 39 :: x →
      nextValue cfg f { s.adv 1 with depth := s.depth - 1 } = .ok (some v) s2 →
      nextValue cfg (f + 1) s =
        .ok (some (Value.list [.symbol (asc "quote"), v])) { s2 with depth := s2.depth + 1 }) ∧
    (s.rd.rest = 96 :: x →
      nextValue cfg f { s.adv 1 with depth := s.depth - 1 } = .ok (some v) s2 →
      nextValue cfg (f + 1) s =
        .ok (some (Value.list [.symbol (asc "quasiquote"), v]))
          { s2 with depth := s2.depth + 1 }) ∧
    (s.rd.rest = 44 :: 64 :: x →
      nextValue cfg f { s.adv 2 with depth := s.depth - 1 } = .ok (some v) s2 →
      nextValue cfg (f + 1) s =
        .ok (some (Value.list [.symbol (asc "unquote-splicing"), v]))
          { s2 with depth := s2.depth + 1 }) ∧
    (s.rd.rest = 44 :: x → x.head? ≠ some 64 →
      nextValue cfg f { s.adv 1 with depth := s.depth - 1 } = .ok (some v) s2 →
      nextValue cfg (f + 1) s =
        .ok (some (Value.list [.symbol (asc "unquote"), v])) { s2 with depth := s2.depth + 1 }) := by
  have hm0 : (s.adv 0).rd.mode = .slice := by simp [hm]
  have hf0 : (s.adv 0).rd.faulty = false := by simp [hf]
  refine ⟨?_, ?_, ?_, ?_⟩
  · intro hs hv
    have hw := parseWhitespace_nontrivia s 39 x hm hf hs (by decide) (by decide)
    have ht := quote_arm cfg ((s.adv 0).rd.rest.length + 1) (s.adv 0) x (by simp [hs])
    rw [adv_adv] at ht
    exact nextValue_quotation cfg f s _ _ s2 39 .quote v hw ht (by simpa using hd) hv
  · intro hs hv
    have hw := parseWhitespace_nontrivia s 96 x hm hf hs (by decide) (by decide)
    have ht := quasiquote_arm cfg ((s.adv 0).rd.rest.length + 1) (s.adv 0) x (by simp [hs])
    rw [adv_adv] at ht
    exact nextValue_quotation cfg f s _ _ s2 96 .quasiquote v hw ht (by simpa using hd) hv
  · intro hs hv
    have hw := parseWhitespace_nontrivia s 44 _ hm hf hs (by decide) (by decide)
    have ht := unquote_splicing_arm cfg ((s.adv 0).rd.rest.length + 1) (s.adv 0) x hm0 hf0
      (by simp [hs])
    rw [adv_adv] at ht
    exact nextValue_quotation cfg f s _ _ s2 44 .unquoteSplicing v hw ht (by simpa using hd) hv
  · intro hs hx hv
    have hw := parseWhitespace_nontrivia s 44 x hm hf hs (by decide) (by decide)
    have ht := unquote_arm cfg ((s.adv 0).rd.rest.length + 1) (s.adv 0) x hm0 hf0
      (by simp [hs]) hx
    rw [adv_adv] at ht
    exact nextValue_quotation cfg f s _ _ s2 44 .unquote v hw ht (by simpa using hd) hv

/-- `?` followed by a plain ASCII byte starts a character exactly under Emacs Lisp character
    syntax; otherwise the token is a symbol (or postfix keyword) that starts with `?`. -/
theorem C08_elisp_char (cfg : Cfg) (fuel : Nat) (b : UInt8) (tl rest : List UInt8) (s : St)
    (ht : IsToken (63 :: b :: tl) rest) (hs : SliceAt s (63 :: b :: tl ++ rest))
    (hb : b ≤ 127) (h92 : b ≠ 92) :
    parseToken cfg fuel 63 s =
      if cfg.opts.char = .elisp then .ok (.char b.toNat) (s.adv 2)
      else .ok (symbolToken cfg.opts (63 :: b :: tl)) (s.adv (tl.length + 2)) := by
  cases h : cfg.opts.char
  · have := extended_arm cfg fuel 63 (63 :: b :: tl) rest s ht hs rfl (by decide) (by decide)
      (by intro _; rw [h]; decide) (by simp)
    simpa using this
  · have hb' : symTermSlice b = false := ht.noTerm b (by simp)
    have hne : b ≠ 40 ∧ b ≠ 41 ∧ b ≠ 91 ∧ b ≠ 93 ∧ b ≠ 59 ∧ b ≠ 92 := by
      refine ⟨?_, ?_, ?_, ?_, ?_, h92⟩ <;> (intro e; subst e; revert hb'; decide)
    simpa using qmark_elisp_plain cfg fuel h s b (tl ++ rest) hs.rest hb hne

/-- Under Emacs Lisp character syntax `?` never starts a symbol or keyword: whatever follows,
    a successful result is a character. -/
theorem C08_elisp_char_only (cfg : Cfg) (fuel : Nat) (h : cfg.opts.char = .elisp) (s s' : St)
    (tok : Token) (hr : parseToken cfg fuel 63 s = .ok tok s') : ∃ c, tok = .char c :=
  qmark_elisp_only_char cfg fuel h s s' tok hr

/-- Any other token that starts with an extended symbol character `!$%&*./<=>?@^_~` (for `?`:
    when characters are not Emacs Lisp) is read by `symbol_token`: only `kwPostfix` matters. -/
theorem C08_extended (cfg : Cfg) (fuel : Nat) (pk : UInt8) (name rest : List UInt8) (s : St)
    (ht : IsToken name rest) (hs : SliceAt s (name ++ rest)) (hpk : name.head? = some pk)
    (he : isSymbolExtended pk = true) (h58 : pk ≠ 58)
    (hq : pk = 63 → cfg.opts.char ≠ .elisp) (hdot : name ≠ [46]) :
    parseToken cfg fuel pk s = .ok (symbolToken cfg.opts name) (s.adv name.length) :=
  extended_arm cfg fuel pk name rest s ht hs hpk he h58 hq hdot

/-- `char` alone does not determine how `?:` reads: with R6RS characters `kwPostfix` matters. -/
theorem C08_qmark_needs_kwPostfix :
    ∃ (c1 c2 : Cfg) (s : St), c1.opts.char = c2.opts.char ∧
      parseToken c1 3 63 s ≠ parseToken c2 3 63 s := by
  refine ⟨cfgOf Options.default, cfgOf { Options.default with kwPostfix := true },
    initSt .slice (asc "?:"), rfl, ?_⟩
  have ht : IsToken (asc "?:") [] := ⟨⟨by decide, .inl rfl⟩, by decide, by decide⟩
  have e1 := extended_arm (cfgOf Options.default) 3 63 (asc "?:") [] _ ht
    (sliceAt_init _) rfl (by decide) (by decide) (by intro _; decide) (by decide)
  have e2 := extended_arm (cfgOf { Options.default with kwPostfix := true }) 3 63 (asc "?:") [] _
    ht (sliceAt_init _) rfl (by decide) (by decide) (by intro _; decide) (by decide)
  simp only [List.append_nil] at e1 e2
  rw [e1, e2]
  intro h
  injection h with h _
  have k1 : symbolToken (cfgOf Options.default).opts (asc "?:") = .symbol (asc "?:") :=
    (symbolToken_symbol _ _ _).mpr ⟨fun h => absurd h.1 (by decide), rfl⟩
  have k2 : symbolToken (cfgOf { Options.default with kwPostfix := true }).opts (asc "?:") =
      .keyword (asc "?") :=
    (symbolToken_keyword _ _ _).mpr ⟨rfl, by decide, by decide, by decide⟩
  rw [k1, k2] at h
  cases h


/-! ### instances: the hypotheses are satisfiable and the closed forms compute -/

example : IsBody (asc "foo") (asc ")") ∧ symLen .slice (asc "foo" ++ asc ")") = 3 :=
  ⟨⟨by decide, .inr ⟨41, [], rfl, rfl⟩⟩, C08_symLen _ _ ⟨by decide, .inr ⟨41, [], rfl, rfl⟩⟩⟩

/-- `nil)` under the Emacs Lisp options is the empty list -/
example : parseToken (cfgOf Options.elisp) 5 110 (initSt .slice (asc "nil" ++ asc ")")) =
    .ok .null ((initSt .slice (asc "nil" ++ asc ")")).adv 3) :=
  C08_nil (cfgOf Options.elisp) 5 (asc ")") _ (.inr ⟨41, [], rfl, rfl⟩) (sliceAt_init _)

/-- `t` at the end of input, `t` option on -/
example : parseToken (cfgOf { Options.default with t := .true_ }) 2 116
      (initSt .slice (asc "t" ++ [])) = .ok (.bool true) ((initSt .slice (asc "t" ++ [])).adv 1) :=
  C08_t (cfgOf { Options.default with t := .true_ }) 2 [] _ (.inl rfl) (sliceAt_init _)

/-- `nilx` and `nil:` are letter-initial tokens different from `nil` and `t` -/
example : IsToken (asc "nilx") [] ∧ (asc "nilx").head? = some 110 ∧ isAsciiAlpha 110 = true ∧
    asc "nilx" ≠ asc "nil" ∧ asc "nilx" ≠ asc "t" ∧ (asc "nilx").getLast? ≠ some 58 :=
  ⟨⟨⟨by decide, .inl rfl⟩, by decide, by decide⟩, by decide, by decide, by decide, by decide,
   by decide⟩

/-- `foo:` with postfix keywords is the keyword `foo` -/
example : parseToken (cfgOf { Options.default with kwPostfix := true }) 5 102
      (initSt .slice (asc "foo:" ++ [])) =
    .ok (.keyword (asc "foo")) ((initSt .slice (asc "foo:" ++ [])).adv 4) :=
  C08_colon_postfix (cfgOf { Options.default with kwPostfix := true }) 5 102 (asc "foo:") [] _
    ⟨⟨by decide, .inl rfl⟩, by decide, by decide⟩ (sliceAt_init _) rfl (by decide) (by decide)

/-- two option sets that differ in everything but `kwPostfix`, `nil`, `t` -/
example : Options.default.kwPostfix = Options.elisp.kwPostfix ∧
    Options.default.t = Options.elisp.t ∧
    Options.default.brackets ≠ Options.elisp.brackets ∧
    Options.default.kwPrefix ≠ Options.elisp.kwPrefix := by decide

/-- `:key` under the Emacs Lisp options is the keyword `key` -/
example : parseToken (cfgOf Options.elisp) 5 58 (initSt .slice (58 :: asc "key" ++ [])) =
    .ok (.keyword (asc "key")) ((initSt .slice (58 :: asc "key" ++ [])).adv 4) :=
  C08_colon_prefix (cfgOf Options.elisp) 5 (asc "key") [] _
    ⟨⟨by decide, .inl rfl⟩, by decide, by decide⟩ (sliceAt_init _) (by decide)

example : RestOk [] ∧ SliceAt (initSt .slice (58 :: 46 :: [])) (58 :: 46 :: []) :=
  ⟨.inl rfl, sliceAt_init _⟩

example : (initSt .slice (asc ",@x")).rd.rest = 44 :: 64 :: asc "x" ∧
    (initSt .slice (asc ",x")).rd.rest = 44 :: asc "x" ∧ (asc "x").head? ≠ some 64 := by decide

example : (initSt .slice (asc "[1]")).rd.rest = 91 :: asc "1]" := by decide

/-- `#%app` under `racket` -/
example : parseToken (cfgOf { Options.default with racket := true }) 6 35
      (initSt .slice (35 :: 37 :: asc "app" ++ [])) =
    .ok (.symbol (asc "#%app")) ((initSt .slice (35 :: 37 :: asc "app" ++ [])).adv 5) :=
  C08_hash_percent (cfgOf { Options.default with racket := true }) 6 _ (asc "app") []
    ⟨by decide, .inl rfl⟩ (by decide) (sliceAt_init _)

/-- `1+` is a digit-initial token -/
example : IsToken (asc "1+") (asc " ") ∧ (asc "1+").head? = some 49 ∧ isDigit 49 = true :=
  ⟨⟨⟨by decide, .inr ⟨32, [], rfl, rfl⟩⟩, by decide, by decide⟩, by decide, by decide⟩

/-- `?a` is the character `a` under the Emacs Lisp options and the symbol `?a` otherwise -/
example : parseToken (cfgOf Options.elisp) 3 63 (initSt .slice (63 :: 97 :: [] ++ [])) =
    .ok (.char 97) ((initSt .slice (63 :: 97 :: [] ++ [])).adv 2) :=
  C08_elisp_char (cfgOf Options.elisp) 3 97 [] [] _
    ⟨⟨by decide, .inl rfl⟩, by decide, by decide⟩ (sliceAt_init _) (by decide) (by decide)

example : parseToken (cfgOf Options.default) 3 63 (initSt .slice (63 :: 97 :: [] ++ [])) =
    .ok (.symbol (asc "?a")) ((initSt .slice (63 :: 97 :: [] ++ [])).adv 2) :=
  C08_elisp_char (cfgOf Options.default) 3 97 [] [] _
    ⟨⟨by decide, .inl rfl⟩, by decide, by decide⟩ (sliceAt_init _) (by decide) (by decide)

/-- `...` is an extended-initial token that is not the lone dot -/
example : IsToken (asc "...") [] ∧ isSymbolExtended 46 = true ∧ asc "..." ≠ [46] :=
  ⟨⟨⟨by decide, .inl rfl⟩, by decide, by decide⟩, by decide, by decide⟩

/-- `'a` reads as `(quote a)` -/
example : ∃ s', nextValue (cfgOf Options.default) 2 (initSt .slice (asc "'a")) =
    .ok (some (Value.list [.symbol (asc "quote"), .symbol (asc "a")])) s' := by
  obtain ⟨s2, hv⟩ : ∃ s2, nextValue (cfgOf Options.default) 1
      { (initSt .slice (asc "'a")).adv 1 with depth := (initSt .slice (asc "'a")).depth - 1 } =
      .ok (some (.symbol (asc "a"))) s2 := ⟨_, rfl⟩
  exact ⟨_, (C08_quote_shorthand (cfgOf Options.default) 1 (initSt .slice (asc "'a")) s2 (asc "a")
    (.symbol (asc "a")) rfl rfl (by decide)).1 rfl hv⟩

end Parse
end Lexpr

#print axioms Lexpr.Parse.C08_symLen
#print axioms Lexpr.Parse.C08_parseSymbolBytes
#print axioms Lexpr.Parse.C08_symbol_token_spec
#print axioms Lexpr.Parse.C08_letter
#print axioms Lexpr.Parse.C08_nil
#print axioms Lexpr.Parse.C08_nil_frame
#print axioms Lexpr.Parse.C08_t
#print axioms Lexpr.Parse.C08_t_frame
#print axioms Lexpr.Parse.C08_colon_postfix
#print axioms Lexpr.Parse.C08_colon_postfix_frame
#print axioms Lexpr.Parse.C08_frame_letter
#print axioms Lexpr.Parse.C08_colon_prefix
#print axioms Lexpr.Parse.C08_colon_prefix_dot
#print axioms Lexpr.Parse.C08_frame_punct
#print axioms Lexpr.Parse.C08_punct
#print axioms Lexpr.Parse.C08_frame_bracket
#print axioms Lexpr.Parse.C08_bracket
#print axioms Lexpr.Parse.C08_frame_string
#print axioms Lexpr.Parse.C08_frame_qmark
#print axioms Lexpr.Parse.C08_frame_hash_percent
#print axioms Lexpr.Parse.C08_hash_percent
#print axioms Lexpr.Parse.C08_frame_digit
#print axioms Lexpr.Parse.C08_digit
#print axioms Lexpr.Parse.C08_quote_shorthand
#print axioms Lexpr.Parse.C08_elisp_char
#print axioms Lexpr.Parse.C08_elisp_char_only
#print axioms Lexpr.Parse.C08_extended
#print axioms Lexpr.Parse.C08_qmark_needs_kwPostfix
