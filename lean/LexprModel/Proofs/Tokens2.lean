/-
  C08 — closed forms for the token classes `Tokens.lean` left open, for every option set and every
  follow context (the token is followed by a symbol terminator or the end of input):

   * sign-initial tokens (`+`, `-`, `+foo`, `-foo:`, `+5`, `-1.5e3`, `+.x`, `-...`):
     `C08_sign` (closed form), `C08_sign_alone`, `C08_sign_keyword`, `C08_sign_symbol`,
     `C08_sign_number`, `C08_sign_number_only`, `C08_frame_sign`, `C08_frame_sign_any`
     (for every token class: `C08_number_delimited` in `NumberEnd.lean`);
   * non-ASCII-initial tokens (`λ`, `λ:`): `C08_nonascii` (alphabetic initial: symbol or postfix
     keyword; any other non-ASCII initial: `ExpectedSomeValue` under every option set),
     `C08_nonascii_keyword`, `C08_frame_nonascii`, `C08_frame_nonascii_any`;
   * `#`-initial tokens: `C08_octothorpe_keyword`, `C08_frame_octothorpe`, `C08_hash_fixed`
     (every `#` token other than `#:` and `#%` consults no option), and the closed forms
     `C08_hash_simple` (`#t #f #( #nil #u8 #vu8`), `C08_hash_eof`.

  Helper lemmas live in the namespace `Lexpr.Parse.C08`.
-/
import LexprModel.Proofs.Tokens
import LexprModel.Proofs.Safety
namespace Lexpr
namespace Parse
namespace C08

/-! ### small facts -/

theorem peekOrNull_adv (s : St) (n : Nat) (hm : s.rd.mode = .slice) (hf : s.rd.faulty = false) :
    peekOrNull (s.adv n) = .ok ((s.rd.rest.drop n).head?.getD 0) (s.adv n) := by
  simp [peekOrNull, peek_adv s n hm hf]

/-- the next byte of the input, 0 at the end of input (`peek_or_null`) -/
def nextByte (l : List UInt8) : UInt8 := l.head?.getD 0

/-- after a sign these bytes (0 stands for the end of input) make the token a symbol -/
def signSymbolNext (b : UInt8) : Bool := b == 0 || isDelimiter b || isSignSubsequent b

theorem term_ne_dot (b : UInt8) (h : symTermSlice b = true) : b ≠ 46 := by
  intro e; subst e; revert h; decide

theorem term_signSymbolNext : ∀ b : UInt8, symTermSlice b = true → signSymbolNext b = true := by
  apply byte_forall; decide +kernel

theorem adv_zero (s : St) (h : s.rd.peeked = false) : s.adv 0 = s := by
  obtain ⟨⟨mode, rest, line, col, peeked, faulty⟩, depth⟩ := s
  simp only at h
  subst h
  rfl

/-! ### the `+` / `-` arms -/

theorem sign_dispatch (cfg : Cfg) (fuel : Nat) :
    parseToken cfg fuel 45 = parseSignToken cfg fuel 45 false ∧
    parseToken cfg fuel 43 = parseSignToken cfg fuel 43 true := by
  constructor <;> (unfold parseToken; simp)

/-- closed form of `parse_sign_token` on a whole token -/
theorem sign_arm (cfg : Cfg) (fuel : Nat) (sign : UInt8) (pos : Bool) (tl rest : List UInt8) (s : St)
    (hsg : sign = 45 ∨ sign = 43)
    (ht : IsToken (sign :: tl) rest) (hs : SliceAt s (sign :: tl ++ rest)) :
    parseSignToken cfg fuel sign pos s =
      if signSymbolNext (nextByte (tl ++ rest)) = true then
        .ok (symbolToken cfg.opts (sign :: tl)) (s.adv (tl.length + 1))
      else if nextByte (tl ++ rest) = 46 then
        if isDigit (nextByte ((tl ++ rest).drop 1)) = true then
          .err (.syntax .invalidNumber (s.adv 2).rd.peekPosition.line
            (s.adv 2).rd.peekPosition.col) (s.adv 2)
        else .ok (symbolToken cfg.opts (sign :: tl)) (s.adv (tl.length + 1))
      else (parseNumToken cfg fuel pos >>= fun n => pure (.number n)) (s.adv 1) := by
  have hs1 : SliceAt (s.adv 1) (tl ++ rest) := SliceAt.adv (a := [sign]) hs
  have hb : IsBody tl rest := ht.toIsBody.tail
  have hpn : peekOrNull (s.adv 1) = .ok (nextByte (tl ++ rest)) (s.adv 1) := by
    rw [peekOrNull_adv s 1 hs.mode hs.faulty, hs.rest]; rfl
  unfold parseSignToken
  simp only [bind_apply, discard_cons s sign (tl ++ rest) hs.rest, hpn]
  by_cases h1 : signSymbolNext (nextByte (tl ++ rest)) = true
  · have h1' : (nextByte (tl ++ rest) == 0 || isDelimiter (nextByte (tl ++ rest)) ||
        isSignSubsequent (nextByte (tl ++ rest))) = true := h1
    simp only [h1', h1, ↓reduceIte, bind_apply]
    rw [parseSymbolBytes_body [sign] tl rest (s.adv 1) hb hs1 (by simpa using ht.utf8)
      (by rcases hsg with rfl | rfl <;> simp)]
    simp [adv_adv, Nat.add_comm]
  · have h1' : (nextByte (tl ++ rest) == 0 || isDelimiter (nextByte (tl ++ rest)) ||
        isSignSubsequent (nextByte (tl ++ rest))) = false := by
      simpa [signSymbolNext] using h1
    simp only [h1', h1, Bool.false_eq_true, ↓reduceIte]
    by_cases h2 : nextByte (tl ++ rest) = 46
    · -- the byte after the sign is a dot, and it belongs to the token
      obtain ⟨tl', rfl⟩ : ∃ tl', tl = 46 :: tl' := by
        cases tl with
        | nil =>
          exfalso
          rcases hb.restOk with rfl | ⟨b, bs, rfl, hbt⟩
          · simp [nextByte] at h2
          · simp only [nextByte, List.nil_append, List.head?_cons, Option.getD_some] at h2
            exact term_ne_dot b hbt h2
        | cons x xs =>
          simp only [nextByte, List.cons_append, List.head?_cons, Option.getD_some] at h2
          exact ⟨xs, by rw [h2]⟩
      have hs2 : SliceAt (s.adv 2) (tl' ++ rest) := SliceAt.adv (a := [sign, 46]) hs
      have hb2 : IsBody tl' rest := hb.tail
      have hpn2 : peekOrNull (s.adv 2) = .ok (nextByte (tl' ++ rest)) (s.adv 2) := by
        rw [peekOrNull_adv s 2 hs.mode hs.faulty, hs.rest]; rfl
      have e46 : nextByte (46 :: tl' ++ rest) = 46 := rfl
      have edrop : (46 :: tl' ++ rest).drop 1 = tl' ++ rest := rfl
      rw [e46, edrop]
      simp only [beq_self_eq_true, ↓reduceIte, parseSignDotSymbol, bind_apply,
        discard_cons (s.adv 1) 46 (tl' ++ rest) hs1.rest, adv_adv, hpn2]
      by_cases h3 : isDigit (nextByte (tl' ++ rest)) = true
      · simp [h3, peekErr]
      · simp only [h3, Bool.false_eq_true, ↓reduceIte, bind_apply]
        rw [parseSymbolBytes_body [sign, 46] tl' rest (s.adv 2) hb2 hs2 (by simpa using ht.utf8)
          (by simp)]
        simp [adv_adv, Nat.add_comm, Nat.add_left_comm]
    · have h2' : (nextByte (tl ++ rest) == 46) = false := by simpa using h2
      simp only [h2', h2, Bool.false_eq_true, ↓reduceIte, bind_apply]

/-- The sign-initial token is read by the symbol reader: the byte after the sign is a delimiter,
    a "sign subsequent" character or the end of input, or it is a dot that is not followed by a
    digit. -/
def signSymbolic (tl rest : List UInt8) : Bool :=
  signSymbolNext (nextByte (tl ++ rest)) ||
    (nextByte (tl ++ rest) == 46 && !isDigit (nextByte ((tl ++ rest).drop 1)))

/-- `+.5`, `-.5e3`: a sign, a dot and a digit is an error (`InvalidNumber`). -/
def signDotDigit (tl rest : List UInt8) : Bool :=
  !signSymbolNext (nextByte (tl ++ rest)) && nextByte (tl ++ rest) == 46 &&
    isDigit (nextByte ((tl ++ rest).drop 1))

/-! ### the number parser: a number ends at a delimiter, and starts with a digit -/

theorem expectNumberEnd_ok {n n' : Number} {s s' : St} (h : expectNumberEnd n s = .ok n' s') :
    n' = n ∧ s'.rd.rest = s.rd.rest ∧
      (s'.rd.rest = [] ∨ ∃ b bs, s'.rd.rest = b :: bs ∧ isDelimiter b = true) := by
  unfold expectNumberEnd at h
  simp only [bind_apply] at h
  unfold peek at h
  cases hr : s.rd.rest with
  | nil =>
    simp only [hr] at h
    by_cases hf : s.rd.faulty = true
    · simp [hf] at h
    · simp only [hf, Bool.false_eq_true, ↓reduceIte, pure_apply, Res.ok.injEq] at h
      obtain ⟨h1, h2⟩ := h
      subst h2
      exact ⟨h1.symm, hr, .inl hr⟩
  | cons b bs =>
    simp only [hr] at h
    by_cases hd : isDelimiter b = true
    · simp only [hd, Bool.not_true, Bool.false_eq_true, ↓reduceIte, pure_apply,
        Res.ok.injEq] at h
      obtain ⟨h1, h2⟩ := h
      subst h2
      exact ⟨h1.symm, rfl, .inr ⟨b, bs, rfl, hd⟩⟩
    · simp [hd, peekErr] at h

theorem parseNumLiteral_ok_digit {cfg : Cfg} {fuel : Nat} {pos : Bool} {n : Number} {s s' : St}
    (h : parseNumLiteral cfg fuel 10 pos s = .ok n s') :
    ∃ c bs, s.rd.rest = c :: bs ∧ isDigit c = true := by
  unfold parseNumLiteral at h
  simp only [bind_apply] at h
  unfold next at h
  cases hr : s.rd.rest with
  | nil =>
    simp only [hr] at h
    by_cases hf : s.rd.faulty = true
    · simp [hf] at h
    · simp [hf, peekErr] at h
  | cons c bs =>
    refine ⟨c, bs, rfl, ?_⟩
    simp only [hr] at h
    by_cases hd : isDigit c = true
    · exact hd
    · exfalso
      have : digitVal 10 c = none := by
        have hd' : (decide (48 ≤ c) && decide (c ≤ 57)) = false := by simpa [isDigit] using hd
        simp [digitVal, hd']
      simp [this, peekErr] at h

/-- A successful `parse_num_token` started at a digit and stopped in front of a delimiter or at
    the end of input. -/
theorem parseNumToken_ok {cfg : Cfg} {fuel : Nat} {pos : Bool} {n : Number} {s s' : St}
    (h : parseNumToken cfg fuel pos s = .ok n s') :
    (∃ c bs, s.rd.rest = c :: bs ∧ isDigit c = true) ∧
      (s'.rd.rest = [] ∨ ∃ b bs, s'.rd.rest = b :: bs ∧ isDelimiter b = true) := by
  unfold parseNumToken at h
  simp only [bind_apply] at h
  cases hl : parseNumLiteral cfg fuel 10 pos s with
  | ok m s1 =>
    rw [hl] at h
    exact ⟨parseNumLiteral_ok_digit hl, (expectNumberEnd_ok h).2.2⟩
  | err e s1 => rw [hl] at h; cases h
  | panic p => rw [hl] at h; cases h
  | fuel => rw [hl] at h; cases h

theorem parseRadixLiteral_congr {c1 c2 : Cfg} (h : NumCfgEq c1 c2) :
    parseRadixLiteral c1 = parseRadixLiteral c2 := by
  funext fuel radix
  simp only [parseRadixLiteral, parseNumLiteral_congr h]

theorem parseRadixToken_congr {c1 c2 : Cfg} (h : NumCfgEq c1 c2) :
    parseRadixToken c1 = parseRadixToken c2 := by
  funext fuel radix
  simp only [parseRadixToken, parseRadixLiteral_congr h]

/-! ### the non-ASCII arm -/

theorem decodeFirst_append (l x : List UInt8) (c : Nat) (r : List UInt8)
    (h : Utf8.decodeFirst l = some (c, r)) : Utf8.decodeFirst (l ++ x) = some (c, r ++ x) := by
  cases l with
  | nil => simp [Utf8.decodeFirst] at h
  | cons b0 rest =>
    by_cases c1 : b0 < 128
    · simp_all [Utf8.decodeFirst]
    by_cases c2 : (decide (194 ≤ b0) && decide (b0 < 224)) = true
    · cases rest with
      | nil => simp [Utf8.decodeFirst, c1, c2] at h
      | cons b1 r1 =>
        simp only [Utf8.decodeFirst, c1, c2, if_true, if_false, List.cons_append] at h ⊢
        (repeat' split at h) <;> simp_all
    by_cases c3 : (decide (224 ≤ b0) && decide (b0 < 240)) = true
    · match rest, h with
      | [], h => simp [Utf8.decodeFirst, c1, c2, c3] at h
      | [_], h => simp [Utf8.decodeFirst, c1, c2, c3] at h
      | b1 :: b2 :: r2, h =>
        simp only [Utf8.decodeFirst, c1, c2, c3, if_true, if_false, List.cons_append] at h ⊢
        (repeat' split at h) <;> simp_all
    by_cases c4 : (decide (240 ≤ b0) && decide (b0 < 245)) = true
    · match rest, h with
      | [], h => simp [Utf8.decodeFirst, c1, c2, c3, c4] at h
      | [_], h => simp [Utf8.decodeFirst, c1, c2, c3, c4] at h
      | [_, _], h => simp [Utf8.decodeFirst, c1, c2, c3, c4] at h
      | b1 :: b2 :: b3 :: r3, h =>
        simp only [Utf8.decodeFirst, c1, c2, c3, c4, if_true, if_false, List.cons_append] at h ⊢
        (repeat' split at h) <;> simp_all
    · simp [Utf8.decodeFirst, c1, c2, c3, c4] at h

/-- number of continuation bytes `decode_utf8_sequence` reads after the initial byte -/
def seqLen (initial : UInt8) : Option Nat :=
  if 0xC0 ≤ initial && initial ≤ 0xDF then some 1
  else if 0xE0 ≤ initial && initial ≤ 0xF7 then some ((initial.toNat - 0xC0) / 16)
  else none

/-- after a non-ASCII initial byte the validity automaton waits for exactly `seqLen`
    continuation bytes, all of them at least 0x80 -/
def stepOk (b : UInt8) : Bool :=
  match Utf8.step .idle b with
  | none => true
  | some (.mid n lo _) => seqLen b == some n && decide (1 ≤ n) && decide (0x80 ≤ lo)
  | some .idle => false

theorem stepOk_all : ∀ b : UInt8, b > 127 → stepOk b = true := by
  apply byte_forall; decide +kernel

theorem hi_facts : ∀ b : UInt8, b > 127 →
    (b == 35) = false ∧ (b == 45) = false ∧ (b == 43) = false ∧ isDigit b = false ∧
    (b == 34) = false ∧ (b == 40) = false ∧ (b == 91) = false ∧ (b == 58) = false ∧
    isAsciiAlpha b = false ∧ (b == 63) = false ∧ (b == 39) = false ∧ (b == 96) = false ∧
    (b == 44) = false ∧ symTermSlice b = false ∧ b ≠ 46 ∧ b ≠ 58 := by
  apply byte_forall; decide +kernel

theorem ge80_facts : ∀ b : UInt8, 0x80 ≤ b → symTermSlice b = false ∧ b ≠ 58 := by
  apply byte_forall; decide +kernel

theorem run_mid_split (n : Nat) : ∀ (lo hi : UInt8) (l : List UInt8), 0x80 ≤ lo →
    Utf8.run (.mid (n + 1) lo hi) l = some .idle →
    ∃ cont tl', l = cont ++ tl' ∧ cont.length = n + 1 ∧ (∀ b ∈ cont, 0x80 ≤ b) ∧
      Utf8.run .idle tl' = some .idle ∧ Utf8.run (.mid (n + 1) lo hi) cont = some .idle := by
  induction n with
  | zero =>
    intro lo hi l hlo h
    cases l with
    | nil => simp [Utf8.run] at h
    | cons b l' =>
      simp only [Utf8.run, Utf8.step] at h
      by_cases hc : (decide (lo ≤ b) && decide (b ≤ hi)) = true
      · simp only [hc, ↓reduceIte, Nat.zero_add, Nat.le_refl] at h
        have hb : 0x80 ≤ b := by
          simp only [Bool.and_eq_true, decide_eq_true_eq] at hc
          exact UInt8.le_trans hlo hc.1
        refine ⟨[b], l', rfl, rfl, ?_, h, ?_⟩
        · intro x hx; simp at hx; subst hx; exact hb
        · simp [Utf8.run, Utf8.step, hc]
      · simp [hc] at h
  | succ m ih =>
    intro lo hi l hlo h
    cases l with
    | nil => simp [Utf8.run] at h
    | cons b l' =>
      simp only [Utf8.run, Utf8.step] at h
      by_cases hc : (decide (lo ≤ b) && decide (b ≤ hi)) = true
      · have hn : ¬ (m + 1 + 1 ≤ 1) := by omega
        simp only [hc, ↓reduceIte, hn, Nat.add_sub_cancel] at h
        have hb : 0x80 ≤ b := by
          simp only [Bool.and_eq_true, decide_eq_true_eq] at hc
          exact UInt8.le_trans hlo hc.1
        obtain ⟨cont, tl', rfl, hlen, hall, hrun, hc2⟩ := ih 0x80 0xBF l' (by decide) h
        refine ⟨b :: cont, tl', rfl, by simp [hlen], ?_, hrun, ?_⟩
        · intro x hx
          rcases List.mem_cons.mp hx with rfl | hx
          · exact hb
          · exact hall x hx
        · simp only [Utf8.run, Utf8.step, hc, ↓reduceIte, hn, Nat.add_sub_cancel]
          exact hc2
      · simp [hc] at h

theorem readCont_cont (k : Nat) : ∀ (acc : List UInt8) (s : St) (cont r : List UInt8),
    cont.length = k → s.rd.rest = cont ++ r → s.rd.peeked = false →
    readCont k acc s = .ok (acc ++ cont) (s.adv k) := by
  induction k with
  | zero =>
    intro acc s cont r hl _ hp
    have : cont = [] := by simpa using hl
    subst this
    simp [readCont, adv_zero s hp]
  | succ k ih =>
    intro acc s cont r hl hr hp
    cases cont with
    | nil => simp at hl
    | cons b cont' =>
      simp only [readCont, bind_apply, next_cons s b (cont' ++ r) (by simpa using hr)]
      rw [ih (acc ++ [b]) (s.adv 1) cont' r (by simpa using hl) (by simp [hr]) (by simp)]
      simp [adv_adv, Nat.add_comm]

/-- how many bytes `decodeFirst` consumes after a non-ASCII initial byte -/
theorem decodeFirst_len (b0 : UInt8) (rest : List UInt8) (c : Nat) (r : List UInt8) (n : Nat)
    (hb : b0 > 127) (hn : seqLen b0 = some n)
    (h : Utf8.decodeFirst (b0 :: rest) = some (c, r)) : rest.length = n + r.length := by
  have c1 : ¬ b0 < 128 := by
    have : ∀ b : UInt8, b > 127 → ¬ b < 128 := by apply byte_forall; decide +kernel
    exact this b0 hb
  have facts : ∀ b : UInt8,
      ((decide (194 ≤ b) && decide (b < 224)) = true → seqLen b = some 1) ∧
      ((decide (224 ≤ b) && decide (b < 240)) = true → seqLen b = some 2) ∧
      ((decide (240 ≤ b) && decide (b < 245)) = true → seqLen b = some 3) := by
    apply byte_forall; decide +kernel
  obtain ⟨f2, f3, f4⟩ := facts b0
  by_cases c2 : (decide (194 ≤ b0) && decide (b0 < 224)) = true
  · have : n = 1 := by rw [f2 c2] at hn; exact (Option.some.inj hn).symm
    subst this
    cases rest with
    | nil => simp [Utf8.decodeFirst, c1, c2] at h
    | cons b1 r1 =>
      simp only [Utf8.decodeFirst, c1, c2, if_true, if_false] at h
      (repeat' split at h) <;> simp_all <;> omega
  by_cases c3 : (decide (224 ≤ b0) && decide (b0 < 240)) = true
  · have : n = 2 := by rw [f3 c3] at hn; exact (Option.some.inj hn).symm
    subst this
    match rest, h with
    | [], h => simp [Utf8.decodeFirst, c1, c2, c3] at h
    | [_], h => simp [Utf8.decodeFirst, c1, c2, c3] at h
    | b1 :: b2 :: r2, h =>
      simp only [Utf8.decodeFirst, c1, c2, c3, if_true, if_false] at h
      (repeat' split at h) <;> simp_all <;> omega
  by_cases c4 : (decide (240 ≤ b0) && decide (b0 < 245)) = true
  · have : n = 3 := by rw [f4 c4] at hn; exact (Option.some.inj hn).symm
    subst this
    match rest, h with
    | [], h => simp [Utf8.decodeFirst, c1, c2, c3, c4] at h
    | [_], h => simp [Utf8.decodeFirst, c1, c2, c3, c4] at h
    | [_, _], h => simp [Utf8.decodeFirst, c1, c2, c3, c4] at h
    | b1 :: b2 :: b3 :: r3, h =>
      simp only [Utf8.decodeFirst, c1, c2, c3, c4, if_true, if_false] at h
      (repeat' split at h) <;> simp_all <;> omega
  · simp [Utf8.decodeFirst, c1, c2, c3, c4] at h

/-- `decode_utf8_sequence` on the first scalar of a valid non-ASCII-initial name -/
theorem nonascii_decode (pk : UInt8) (tl rest : List UInt8) (s1 : St) (hpk : pk > 127)
    (hv : Utf8.valid (pk :: tl) = true) (hs1 : SliceAt s1 (tl ++ rest))
    (hp : s1.rd.peeked = false) :
    ∃ c cont tl', tl = cont ++ tl' ∧ Utf8.decodeFirst (pk :: tl) = some (c, tl') ∧
      (∀ b ∈ cont, 0x80 ≤ b) ∧ Utf8.valid tl' = true ∧
      decodeUtf8Sequence pk s1 = .ok (c, pk :: cont) (s1.adv cont.length) := by
  have hok := stepOk_all pk hpk
  unfold stepOk at hok
  have hv' := hv
  simp only [Utf8.valid, Utf8.run, beq_iff_eq] at hv'
  cases hstep : Utf8.step .idle pk with
  | none => rw [hstep] at hv'; simp at hv'
  | some st =>
    rw [hstep] at hv' hok
    cases st with
    | idle => simp at hok
    | mid n lo hi =>
      simp only [Bool.and_eq_true, beq_iff_eq, decide_eq_true_eq] at hok
      obtain ⟨⟨hsl, hn1⟩, hlo⟩ := hok
      obtain ⟨m, rfl⟩ : ∃ m, n = m + 1 := ⟨n - 1, by omega⟩
      simp only at hv'
      obtain ⟨cont, tl', rfl, hlen, hall, hrun, hc2⟩ := run_mid_split m lo hi tl hlo hv'
      have hvc : Utf8.valid (pk :: cont) = true := by
        simp [Utf8.valid, Utf8.run, hstep, hc2]
      have hsome := Utf8.decodeFirst_of_valid pk cont hvc
      obtain ⟨⟨c, r'⟩, hd⟩ := Option.isSome_iff_exists.mp hsome
      have hl := decodeFirst_len pk cont c r' (m + 1) hpk hsl hd
      have hr' : r' = [] := by
        have : r'.length = 0 := by omega
        exact List.length_eq_zero_iff.mp this
      subst hr'
      have hd2 := decodeFirst_append (pk :: cont) tl' c [] hd
      refine ⟨c, cont, tl', rfl, by simpa using hd2, hall, by simp [Utf8.valid, hrun], ?_⟩
      unfold decodeUtf8Sequence
      have hl2 : (if (0xC0 ≤ pk && pk ≤ 0xDF) = true then some 1
          else if (0xE0 ≤ pk && pk ≤ 0xF7) = true then some ((pk.toNat - 0xC0) / 16) else none)
          = some (m + 1) := hsl
      simp only [hl2, bind_apply]
      rw [readCont_cont (m + 1) [pk] s1 cont (tl' ++ rest) hlen (by simp [hs1.rest]) hp]
      simp [hvc, hd, hlen]

theorem hi_dispatch (cfg : Cfg) (fuel : Nat) (pk : UInt8) (hpk : pk > 127) :
    parseToken cfg fuel pk = (do
      discard
      let (c, bytes) ← decodeUtf8Sequence pk
      if !cfg.isAlphabetic c then peekErr .expectedSomeValue
      else do
        let name ← parseSymbolBytes bytes
        pure (symbolToken cfg.opts name)) := by
  obtain ⟨g1, g2, g3, g4, g5, g6, g7, g8, g9, g10, g11, g12, g13, _, _, _⟩ := hi_facts pk hpk
  unfold parseToken
  simp only [g1, g2, g3, g4, g5, g6, g7, g8, g9, g10, g11, g12, g13, hpk, Bool.false_eq_true,
    ↓reduceIte, Bool.false_and]

/-- closed form of the non-ASCII arm on a whole token -/
theorem nonascii_arm (cfg : Cfg) (fuel : Nat) (pk : UInt8) (tl rest : List UInt8) (s : St)
    (ht : IsToken (pk :: tl) rest) (hs : SliceAt s (pk :: tl ++ rest)) (hpk : pk > 127) :
    ∃ c r, Utf8.decodeFirst (pk :: tl) = some (c, r) ∧ r.length ≤ tl.length ∧
      parseToken cfg fuel pk s =
        if cfg.isAlphabetic c = true then
          .ok (symbolToken cfg.opts (pk :: tl)) (s.adv (tl.length + 1))
        else
          .err (.syntax .expectedSomeValue (s.adv (tl.length + 1 - r.length)).rd.peekPosition.line
            (s.adv (tl.length + 1 - r.length)).rd.peekPosition.col)
            (s.adv (tl.length + 1 - r.length)) := by
  have hs1 : SliceAt (s.adv 1) (tl ++ rest) := SliceAt.adv (a := [pk]) hs
  obtain ⟨c, cont, tl', rfl, hd, hall, hvt, hdec⟩ :=
    nonascii_decode pk tl rest (s.adv 1) hpk ht.utf8 hs1 (by simp)
  refine ⟨c, tl', hd, by simp, ?_⟩
  have hb : IsBody tl' rest :=
    ⟨fun b hb => ht.noTerm b (by simp [hb]), ht.restOk⟩
  have hs2 : SliceAt ((s.adv 1).adv cont.length) (tl' ++ rest) := by
    have := SliceAt.adv (a := cont) (b := tl' ++ rest) (s := s.adv 1) (by simpa using hs1)
    exact this
  have hlen : (cont ++ tl').length + 1 - tl'.length = 1 + cont.length := by
    simp only [List.length_append]; omega
  rw [hi_dispatch cfg fuel pk hpk]
  simp only [bind_apply, discard_cons s pk (cont ++ tl' ++ rest) hs.rest, hdec]
  by_cases ha : cfg.isAlphabetic c = true
  · simp only [ha, Bool.not_true, Bool.false_eq_true, ↓reduceIte, bind_apply]
    rw [parseSymbolBytes_body (pk :: cont) tl' rest _ hb hs2 (by simpa using ht.utf8)
      (by simp; intro h; exact absurd h (hi_facts pk hpk).2.2.2.2.2.2.2.2.2.2.2.2.2.2.1)]
    simp only [adv_adv, List.cons_append, List.length_append, pure_apply]
    rw [show 1 + cont.length + tl'.length = cont.length + tl'.length + 1 by omega]
  · simp only [ha, Bool.false_eq_true, ↓reduceIte, Bool.not_false, peekErr, adv_adv, hlen]

/-! ### the `#` arm -/

theorem hash_colon_on (cfg : Cfg) (fuel : Nat) (s : St) (name rest : List UInt8)
    (hb : IsBody name rest) (hv : Utf8.valid name = true) (hdot : name ≠ [46])
    (hs : SliceAt s (35 :: 58 :: name ++ rest)) (h : cfg.opts.kwOctothorpe = true) :
    parseToken cfg fuel 35 s = .ok (.keyword name) (s.adv (name.length + 2)) := by
  have hs2 : SliceAt (s.adv 2) (name ++ rest) := SliceAt.adv (a := [35, 58]) hs
  unfold parseToken
  simp [discard_cons s 35 _ hs.rest, next_cons (s.adv 1) 58 (name ++ rest) (by simp [hs.rest]), h,
    adv_adv, parseSymbolBytes_body [] name rest (s.adv 2) hb hs2 (by simpa using hv)
      (by simpa using hdot), Nat.add_comm]

theorem hash_colon_off (cfg : Cfg) (fuel : Nat) (s : St) (x : List UInt8)
    (hs : s.rd.rest = 35 :: 58 :: x) (h : cfg.opts.kwOctothorpe = false) :
    parseToken cfg fuel 35 s =
      .err (.syntax .expectedSomeIdent (s.adv 2).rd.peekPosition.line
        (s.adv 2).rd.peekPosition.col) (s.adv 2) := by
  unfold parseToken
  simp [discard_cons s 35 _ hs, next_cons (s.adv 1) 58 x (by simp [hs]), h, adv_adv, peekErr]

theorem hash_colon_frame (c1 c2 : Cfg) (fuel : Nat) (s : St) (x : List UInt8)
    (hs : s.rd.rest = 35 :: 58 :: x) (h : c1.opts.kwOctothorpe = c2.opts.kwOctothorpe) :
    parseToken c1 fuel 35 s = parseToken c2 fuel 35 s := by
  unfold parseToken
  simp [discard_cons s 35 _ hs, next_cons (s.adv 1) 58 x (by simp [hs]), h]

/-- `#` followed by anything but `:` and `%` (or by nothing): no option is consulted -/
theorem hash_fixed (c1 c2 : Cfg) (fuel : Nat) (s : St) (x : List UInt8) (hn : NumCfgEq c1 c2)
    (hs : s.rd.rest = 35 :: x) (h58 : x.head? ≠ some 58) (h37 : x.head? ≠ some 37) :
    parseToken c1 fuel 35 s = parseToken c2 fuel 35 s := by
  unfold parseToken
  cases x with
  | nil =>
    have hn' : next (s.adv 1) = .ok none (s.adv 1) ∨ next (s.adv 1) = .err .io (s.adv 1) := by
      unfold next
      simp only [adv_rest, hs, List.drop_succ_cons, List.drop_zero]
      by_cases hf : s.rd.faulty = true
      · exact .inr (by simp [hf])
      · exact .inl (by simp [hf])
    rcases hn' with hn' | hn' <;> simp [discard_cons s 35 _ hs, hn']
  | cons c x' =>
    have e58 : (c == 58) = false := by simpa using h58
    have e37 : (c == 37) = false := by simpa using h37
    simp only [beq_self_eq_true, ↓reduceIte, bind_apply, discard_cons s 35 _ hs,
      next_cons (s.adv 1) c x' (by simp [hs]), e58, e37, Bool.false_and, Bool.false_eq_true,
      parseRadixToken_congr hn]

/-! ### `symbol_token` on names that do not start with a colon -/

theorem symbolToken_of_head (o : Options) (name : List UInt8) (h : name.head? ≠ some 58) :
    symbolToken o name =
      if o.kwPostfix = true ∧ name.getLast? = some 58 then .keyword name.dropLast
      else .symbol name := by
  unfold symbolToken
  by_cases hl : name.getLast? = some 58
  · have hlen : name.length > 1 := by
      match name, h, hl with
      | [], _, hl => simp at hl
      | [x], h, hl => simp at h hl; exact absurd hl h
      | _ :: _ :: _, _, _ => simp
    cases hk : o.kwPostfix <;> simp [hl, hlen]
  · cases hk : o.kwPostfix <;> simp [hl]

theorem symbolToken_frame (o1 o2 : Options) (name : List UInt8)
    (h : o1.kwPostfix = o2.kwPostfix ∨ name.getLast? ≠ some 58) :
    symbolToken o1 name = symbolToken o2 name := by
  unfold symbolToken
  rcases h with h | h
  · rw [h]
  · have : (name.getLast? == some 58) = false := by simpa using h
    simp [this]

end C08

open C08

/-! ## Main theorems: sign-initial tokens -/

/-- **C08_sign** — a whole token that starts with `+` or `-`, for every option set and every
    follow context.  If the byte after the sign is a delimiter, a "sign subsequent" character
    (a letter or one of `!$%&*/:<=>?@^_~+-`) or the end of input, or a dot that is not followed
    by a digit, the token is read by `symbol_token` (a symbol, or a postfix keyword);
    sign-dot-digit is the error `InvalidNumber`; everything else goes to the number parser. -/
theorem C08_sign (cfg : Cfg) (fuel : Nat) (sign : UInt8) (tl rest : List UInt8) (s : St)
    (hsg : sign = 45 ∨ sign = 43)
    (ht : IsToken (sign :: tl) rest) (hs : SliceAt s (sign :: tl ++ rest)) :
    parseToken cfg fuel sign s =
      if signSymbolic tl rest = true then
        .ok (symbolToken cfg.opts (sign :: tl)) (s.adv (tl.length + 1))
      else if signDotDigit tl rest = true then
        .err (.syntax .invalidNumber (s.adv 2).rd.peekPosition.line
          (s.adv 2).rd.peekPosition.col) (s.adv 2)
      else (parseNumToken cfg fuel (sign == 43) >>= fun n => pure (.number n)) (s.adv 1) := by
  have hd : parseToken cfg fuel sign = parseSignToken cfg fuel sign (sign == 43) := by
    rcases hsg with rfl | rfl
    · exact (sign_dispatch cfg fuel).1
    · exact (sign_dispatch cfg fuel).2
  rw [hd, sign_arm cfg fuel sign (sign == 43) tl rest s hsg ht hs]
  unfold signSymbolic signDotDigit
  generalize signSymbolNext (nextByte (tl ++ rest)) = a
  generalize isDigit (nextByte ((tl ++ rest).drop 1)) = d
  by_cases h2 : nextByte (tl ++ rest) = 46
  · cases a <;> cases d <;> simp [h2]
  · cases a <;> cases d <;> simp [h2]

/-- `+` and `-` alone are the symbols `+` and `-`, whatever the options. -/
theorem C08_sign_alone (cfg : Cfg) (fuel : Nat) (sign : UInt8) (rest : List UInt8) (s : St)
    (hsg : sign = 45 ∨ sign = 43) (hr : RestOk rest) (hs : SliceAt s (sign :: [] ++ rest)) :
    parseToken cfg fuel sign s = .ok (.symbol [sign]) (s.adv 1) := by
  have ht : IsToken [sign] rest := by
    refine ⟨⟨?_, hr⟩, by simp, ?_⟩ <;> rcases hsg with rfl | rfl <;> decide
  have hsym : signSymbolic [] rest = true := by
    unfold signSymbolic
    rcases hr with rfl | ⟨b, bs, rfl, hb⟩
    · decide
    · simp [nextByte, term_signSymbolNext b hb]
  rw [C08_sign cfg fuel sign [] rest s hsg ht hs, if_pos hsym]
  simp [symbolToken]

/-- A sign-initial token that the symbol reader takes is the postfix keyword (without its colon)
    exactly when it ends in `:` and the colon-postfix spelling is enabled, and otherwise the
    symbol itself. -/
theorem C08_sign_keyword (cfg : Cfg) (fuel : Nat) (sign : UInt8) (tl rest : List UInt8) (s : St)
    (hsg : sign = 45 ∨ sign = 43)
    (ht : IsToken (sign :: tl) rest) (hs : SliceAt s (sign :: tl ++ rest))
    (hsym : signSymbolic tl rest = true) :
    parseToken cfg fuel sign s =
      .ok (if cfg.opts.kwPostfix = true ∧ (sign :: tl).getLast? = some 58
           then .keyword (sign :: tl).dropLast else .symbol (sign :: tl))
        (s.adv (tl.length + 1)) := by
  rw [C08_sign cfg fuel sign tl rest s hsg ht hs, if_pos hsym,
    symbolToken_of_head cfg.opts (sign :: tl) (by rcases hsg with rfl | rfl <;> simp)]

/-- Conversely a sign-initial token is read as a symbol or keyword only through that path. -/
theorem C08_sign_symbol (cfg : Cfg) (fuel : Nat) (sign : UInt8) (tl rest : List UInt8) (s s' : St)
    (hsg : sign = 45 ∨ sign = 43)
    (ht : IsToken (sign :: tl) rest) (hs : SliceAt s (sign :: tl ++ rest)) (name : List UInt8)
    (h : parseToken cfg fuel sign s = .ok (.symbol name) s' ∨
         parseToken cfg fuel sign s = .ok (.keyword name) s') :
    signSymbolic tl rest = true := by
  rw [C08_sign cfg fuel sign tl rest s hsg ht hs] at h
  by_cases h1 : signSymbolic tl rest = true
  · exact h1
  · exfalso
    rw [if_neg h1] at h
    by_cases h2 : signDotDigit tl rest = true
    · rw [if_pos h2] at h; rcases h with h | h <;> cases h
    · rw [if_neg h2] at h
      simp only [bind_apply] at h
      cases hn : parseNumToken cfg fuel (sign == 43) (s.adv 1) with
      | ok n s1 => rw [hn] at h; rcases h with h | h <;> cases h
      | err e s1 => rw [hn] at h; rcases h with h | h <;> cases h
      | panic p => rw [hn] at h; rcases h with h | h <;> cases h
      | fuel => rw [hn] at h; rcases h with h | h <;> cases h

/-- A sign-initial token is read as a number exactly when it does not go to the symbol reader,
    is not sign-dot-digit, and the number parser accepts what follows the sign. -/
theorem C08_sign_number (cfg : Cfg) (fuel : Nat) (sign : UInt8) (tl rest : List UInt8) (s s' : St)
    (n : Number) (hsg : sign = 45 ∨ sign = 43)
    (ht : IsToken (sign :: tl) rest) (hs : SliceAt s (sign :: tl ++ rest)) :
    parseToken cfg fuel sign s = .ok (.number n) s' ↔
      signSymbolic tl rest = false ∧ signDotDigit tl rest = false ∧
        parseNumToken cfg fuel (sign == 43) (s.adv 1) = .ok n s' := by
  rw [C08_sign cfg fuel sign tl rest s hsg ht hs]
  by_cases h1 : signSymbolic tl rest = true
  · rw [if_pos h1]
    constructor
    · intro h
      injection h with h _
      rcases symbolToken_cases cfg.opts (sign :: tl) with e | e <;> rw [e] at h <;> cases h
    · intro ⟨h, _⟩; rw [h1] at h; cases h
  · rw [if_neg h1]
    have h1' : signSymbolic tl rest = false := by simpa using h1
    by_cases h2 : signDotDigit tl rest = true
    · rw [if_pos h2]
      constructor
      · intro h; cases h
      · intro ⟨_, h, _⟩; rw [h2] at h; cases h
    · rw [if_neg h2]
      have h2' : signDotDigit tl rest = false := by simpa using h2
      simp only [bind_apply]
      cases hn : parseNumToken cfg fuel (sign == 43) (s.adv 1) with
      | ok m s1 =>
        simp only [pure_apply, Res.ok.injEq, Token.number.injEq]
        exact ⟨fun ⟨a, b⟩ => ⟨h1', h2', a, b⟩, fun ⟨_, _, a, b⟩ => ⟨a, b⟩⟩
      | err e s1 => simp
      | panic p => simp
      | fuel => simp

/-- **number only if the token is a numeric literal** (sign-initial tokens): if the token is read
    as a number, the sign is followed by a digit of the token, and the number parser stopped at
    the end of input or in front of a delimiter (`expect_number_end`): `+5x`, `-1+` are errors,
    never a number followed by something else. -/
theorem C08_sign_number_only (cfg : Cfg) (fuel : Nat) (sign : UInt8) (tl rest : List UInt8)
    (s s' : St) (n : Number) (hsg : sign = 45 ∨ sign = 43)
    (ht : IsToken (sign :: tl) rest) (hs : SliceAt s (sign :: tl ++ rest))
    (h : parseToken cfg fuel sign s = .ok (.number n) s') :
    (∃ d tl', tl = d :: tl' ∧ isDigit d = true) ∧
      (s'.rd.rest = [] ∨ ∃ b bs, s'.rd.rest = b :: bs ∧ isDelimiter b = true) := by
  obtain ⟨_, _, hn⟩ := (C08_sign_number cfg fuel sign tl rest s s' n hsg ht hs).mp h
  obtain ⟨⟨c, bs, hc, hd⟩, hend⟩ := parseNumToken_ok hn
  refine ⟨?_, hend⟩
  have hr : (s.adv 1).rd.rest = tl ++ rest := by simp [hs.rest]
  rw [hr] at hc
  cases tl with
  | nil =>
    exfalso
    rcases ht.restOk with rfl | ⟨b, bs', rfl, hb⟩
    · simp at hc
    · simp only [List.nil_append, List.cons.injEq] at hc
      obtain ⟨rfl, _⟩ := hc
      rw [(digit_facts b hd).2.2.2.2] at hb
      cases hb
  | cons d tl' =>
    simp only [List.cons_append, List.cons.injEq] at hc
    obtain ⟨rfl, _⟩ := hc
    exact ⟨d, tl', rfl, hd⟩

/-- Sign-initial input consults `kwPostfix` only (and the float configuration of the build). -/
theorem C08_frame_sign_any (c1 c2 : Cfg) (fuel : Nat) (sign : UInt8) (hsg : sign = 45 ∨ sign = 43)
    (hn : c1.fast = c2.fast ∧ c1.pow10 = c2.pow10)
    (hk : c1.opts.kwPostfix = c2.opts.kwPostfix) :
    parseToken c1 fuel sign = parseToken c2 fuel sign := by
  have hn' : NumCfgEq c1 c2 := hn
  rcases hsg with rfl | rfl
  · rw [(sign_dispatch c1 fuel).1, (sign_dispatch c2 fuel).1]
    simp only [parseSignToken, parseSignDotSymbol, symbolToken, hk, parseNumToken_congr hn']
  · rw [(sign_dispatch c1 fuel).2, (sign_dispatch c2 fuel).2]
    simp only [parseSignToken, parseSignDotSymbol, symbolToken, hk, parseNumToken_congr hn']

/-- A sign-initial token that does not end in a colon consults no option at all. -/
theorem C08_frame_sign (c1 c2 : Cfg) (fuel : Nat) (sign : UInt8) (tl rest : List UInt8) (s : St)
    (hsg : sign = 45 ∨ sign = 43)
    (ht : IsToken (sign :: tl) rest) (hs : SliceAt s (sign :: tl ++ rest))
    (hn : c1.fast = c2.fast ∧ c1.pow10 = c2.pow10)
    (hk : c1.opts.kwPostfix = c2.opts.kwPostfix ∨ (sign :: tl).getLast? ≠ some 58) :
    parseToken c1 fuel sign s = parseToken c2 fuel sign s := by
  have hn' : NumCfgEq c1 c2 := hn
  rw [C08_sign c1 fuel sign tl rest s hsg ht hs, C08_sign c2 fuel sign tl rest s hsg ht hs,
    symbolToken_frame c1.opts c2.opts (sign :: tl) hk, parseNumToken_congr hn']

/-! ## Main theorems: non-ASCII-initial tokens -/

/-- **C08_nonascii** — a whole token whose first byte is not ASCII.  Its first scalar `c`
    (`Utf8.decodeFirst`) decides: if `char::is_alphabetic(c)` (the build's table
    `cfg.isAlphabetic`) the token is read by `symbol_token` — a symbol, or a postfix keyword —
    and otherwise the result is the error `ExpectedSomeValue`, reported just behind that scalar,
    for every option set. -/
theorem C08_nonascii (cfg : Cfg) (fuel : Nat) (pk : UInt8) (name rest : List UInt8) (s : St)
    (ht : IsToken name rest) (hs : SliceAt s (name ++ rest)) (hpk : name.head? = some pk)
    (hhi : pk > 127) :
    ∃ c r, Utf8.decodeFirst name = some (c, r) ∧ r.length < name.length ∧
      parseToken cfg fuel pk s =
        if cfg.isAlphabetic c = true then .ok (symbolToken cfg.opts name) (s.adv name.length)
        else
          .err (.syntax .expectedSomeValue (s.adv (name.length - r.length)).rd.peekPosition.line
            (s.adv (name.length - r.length)).rd.peekPosition.col)
            (s.adv (name.length - r.length)) := by
  cases name with
  | nil => simp at hpk
  | cons x tl =>
    simp only [List.head?_cons, Option.some.injEq] at hpk
    subst hpk
    obtain ⟨c, r, hd, hl, h⟩ := nonascii_arm cfg fuel x tl rest s ht hs hhi
    exact ⟨c, r, hd, by simp only [List.length_cons]; omega, h⟩

/-- … so with an alphabetic initial the token is the postfix keyword exactly when it ends in `:`
    and the colon-postfix spelling is enabled, and otherwise the symbol itself. -/
theorem C08_nonascii_keyword (cfg : Cfg) (fuel : Nat) (pk : UInt8) (name rest : List UInt8) (s : St)
    (ht : IsToken name rest) (hs : SliceAt s (name ++ rest)) (hpk : name.head? = some pk)
    (hhi : pk > 127) (c : Nat) (r : List UInt8) (hd : Utf8.decodeFirst name = some (c, r))
    (ha : cfg.isAlphabetic c = true) :
    parseToken cfg fuel pk s =
      .ok (if cfg.opts.kwPostfix = true ∧ name.getLast? = some 58
           then .keyword name.dropLast else .symbol name) (s.adv name.length) := by
  obtain ⟨c', r', hd', _, h⟩ := C08_nonascii cfg fuel pk name rest s ht hs hpk hhi
  rw [hd] at hd'
  obtain ⟨rfl, rfl⟩ : c = c' ∧ r = r' := by simpa using hd'
  rw [h, if_pos ha, symbolToken_of_head cfg.opts name (by
    rw [hpk]; intro e; exact (hi_facts pk hhi).2.2.2.2.2.2.2.2.2.2.2.2.2.2.2 (Option.some.inj e))]

/-- Non-ASCII-initial input consults `kwPostfix` only (and the build's alphabetic table). -/
theorem C08_frame_nonascii_any (c1 c2 : Cfg) (fuel : Nat) (pk : UInt8) (hhi : pk > 127)
    (ha : c1.isAlphabetic = c2.isAlphabetic) (hk : c1.opts.kwPostfix = c2.opts.kwPostfix) :
    parseToken c1 fuel pk = parseToken c2 fuel pk := by
  rw [hi_dispatch c1 fuel pk hhi, hi_dispatch c2 fuel pk hhi]
  simp only [ha, symbolToken, hk]

/-- A non-ASCII-initial token that does not end in a colon consults no option at all. -/
theorem C08_frame_nonascii (c1 c2 : Cfg) (fuel : Nat) (pk : UInt8) (name rest : List UInt8) (s : St)
    (ht : IsToken name rest) (hs : SliceAt s (name ++ rest)) (hpk : name.head? = some pk)
    (hhi : pk > 127) (ha : c1.isAlphabetic = c2.isAlphabetic)
    (hk : c1.opts.kwPostfix = c2.opts.kwPostfix ∨ name.getLast? ≠ some 58) :
    parseToken c1 fuel pk s = parseToken c2 fuel pk s := by
  obtain ⟨c, r, hd, _, h1⟩ := C08_nonascii c1 fuel pk name rest s ht hs hpk hhi
  obtain ⟨c', r', hd', _, h2⟩ := C08_nonascii c2 fuel pk name rest s ht hs hpk hhi
  rw [hd] at hd'
  obtain ⟨rfl, rfl⟩ : c = c' ∧ r = r' := by simpa using hd'
  rw [h1, h2, ha, symbolToken_frame c1.opts c2.opts name hk]

/-! ## Main theorems: `#`-initial tokens -/

/-- **C08_octothorpe_keyword** — `#:name` is the keyword `name` exactly when the `#:` spelling
    is enabled, and otherwise the error `ExpectedSomeIdent` (reported behind `#:`); no other
    option is consulted.  (`name` may be empty: `#:` alone is the keyword with the empty name.) -/
theorem C08_octothorpe_keyword (cfg : Cfg) (fuel : Nat) (s : St) (name rest : List UInt8)
    (hb : IsBody name rest) (hv : Utf8.valid name = true) (hdot : name ≠ [46])
    (hs : SliceAt s (35 :: 58 :: name ++ rest)) :
    parseToken cfg fuel 35 s =
      if cfg.opts.kwOctothorpe = true then .ok (.keyword name) (s.adv (name.length + 2))
      else .err (.syntax .expectedSomeIdent (s.adv 2).rd.peekPosition.line
        (s.adv 2).rd.peekPosition.col) (s.adv 2) := by
  cases h : cfg.opts.kwOctothorpe
  · simpa using hash_colon_off cfg fuel s (name ++ rest) hs.rest h
  · simpa using hash_colon_on cfg fuel s name rest hb hv hdot hs h

/-- `#:` consults `kwOctothorpe` only. -/
theorem C08_frame_octothorpe (c1 c2 : Cfg) (fuel : Nat) (s : St) (x : List UInt8)
    (hs : s.rd.rest = 35 :: 58 :: x) (h : c1.opts.kwOctothorpe = c2.opts.kwOctothorpe) :
    parseToken c1 fuel 35 s = parseToken c2 fuel 35 s := hash_colon_frame c1 c2 fuel s x hs h

/-- **C08_hash_fixed** — every `#` token other than `#:` and `#%` (`#t #f #true #false #nil #(
    #u8( #vu8( #\ #x #b #o #d`, a lone `#`, `#` and anything else) consults no option at all:
    the result is the same under any two configurations of the same build. -/
theorem C08_hash_fixed (c1 c2 : Cfg) (fuel : Nat) (s : St) (x : List UInt8)
    (hn : c1.fast = c2.fast ∧ c1.pow10 = c2.pow10)
    (hs : s.rd.rest = 35 :: x) (h58 : x.head? ≠ some 58) (h37 : x.head? ≠ some 37) :
    parseToken c1 fuel 35 s = parseToken c2 fuel 35 s :=
  hash_fixed c1 c2 fuel s x hn hs h58 h37

/-- What the option-free `#` tokens read as: `#t`, `#f` (and so the first two bytes of `#true`,
    `#false`: the code does not look further), `#(`, `#nil`, `#u8`, `#vu8`. -/
theorem C08_hash_simple (cfg : Cfg) (fuel : Nat) (s : St) (x : List UInt8) :
    (s.rd.rest = 35 :: 116 :: x → parseToken cfg fuel 35 s = .ok (.bool true) (s.adv 2)) ∧
    (s.rd.rest = 35 :: 102 :: x → parseToken cfg fuel 35 s = .ok (.bool false) (s.adv 2)) ∧
    (s.rd.rest = 35 :: 40 :: x → parseToken cfg fuel 35 s = .ok (.vecOpen 41) (s.adv 2)) ∧
    (s.rd.rest = 35 :: 110 :: 105 :: 108 :: x → parseToken cfg fuel 35 s = .ok .nil (s.adv 4)) ∧
    (s.rd.rest = 35 :: 117 :: 56 :: x →
      parseToken cfg fuel 35 s = .ok (.byteVecOpen 41) (s.adv 3)) ∧
    (s.rd.rest = 35 :: 118 :: 117 :: 56 :: x →
      parseToken cfg fuel 35 s = .ok (.byteVecOpen 41) (s.adv 4)) := by
  have e1 : asc "il" = [105, 108] := by decide
  have e2 : asc "8" = [56] := by decide
  have e3 : asc "u8" = [117, 56] := by decide
  refine ⟨?_, ?_, ?_, ?_, ?_, ?_⟩ <;> intro hs <;> unfold parseToken
  · simp [discard_cons s 35 _ hs, next_cons (s.adv 1) 116 x (by simp [hs]), adv_adv]
  · simp [discard_cons s 35 _ hs, next_cons (s.adv 1) 102 x (by simp [hs]), adv_adv]
  · simp [discard_cons s 35 _ hs, next_cons (s.adv 1) 40 x (by simp [hs]), adv_adv]
  · simp [discard_cons s 35 _ hs, next_cons (s.adv 1) 110 (105 :: 108 :: x) (by simp [hs]),
      adv_adv, e1, expectIdent, next_cons (s.adv 2) 105 (108 :: x) (by simp [hs]),
      next_cons (s.adv 3) 108 x (by simp [hs])]
  · simp [discard_cons s 35 _ hs, next_cons (s.adv 1) 117 (56 :: x) (by simp [hs]), adv_adv, e2,
      expectIdent, next_cons (s.adv 2) 56 x (by simp [hs])]
  · simp [discard_cons s 35 _ hs, next_cons (s.adv 1) 118 (117 :: 56 :: x) (by simp [hs]),
      adv_adv, e3, expectIdent, next_cons (s.adv 2) 117 (56 :: x) (by simp [hs]),
      next_cons (s.adv 3) 56 x (by simp [hs])]

/-- A lone `#` at the end of input is the error `EofWhileParsingValue`. -/
theorem C08_hash_eof (cfg : Cfg) (fuel : Nat) (s : St) (hs : s.rd.rest = [35])
    (hf : s.rd.faulty = false) :
    parseToken cfg fuel 35 s =
      .err (.syntax .eofValue (s.adv 1).rd.peekPosition.line (s.adv 1).rd.peekPosition.col)
        (s.adv 1) := by
  unfold parseToken
  have hn : next (s.adv 1) = .ok none (s.adv 1) := by
    unfold next
    simp [hs, hf]
  simp [discard_cons s 35 _ hs, hn, peekErr]

/-! ### instances: the hypotheses are satisfiable and the closed forms compute -/

/-- a configuration whose alphabetic table knows `λ` (U+03BB) and nothing else -/
def cfgL (o : Options) : Cfg :=
  { opts := o, isAlphabetic := fun c => c == 955, pow10 := fun _ => 0 }

/-- `+` at the end of input (default options) and `-` before `)` (Emacs Lisp options) -/
example : parseToken (cfgOf Options.default) 5 43 (initSt .slice (43 :: [] ++ [])) =
    .ok (.symbol [43]) ((initSt .slice (43 :: [] ++ [])).adv 1) :=
  C08_sign_alone (cfgOf Options.default) 5 43 [] _ (.inr rfl) (.inl rfl) (sliceAt_init _)

example : parseToken (cfgOf Options.elisp) 5 45 (initSt .slice (45 :: [] ++ asc ")")) =
    .ok (.symbol [45]) ((initSt .slice (45 :: [] ++ asc ")")).adv 1) :=
  C08_sign_alone (cfgOf Options.elisp) 5 45 (asc ")") _ (.inl rfl) (.inr ⟨41, [], rfl, rfl⟩)
    (sliceAt_init _)

/-- `-5` is the number −5 under the default and under the Emacs Lisp options -/
example : ∃ s', parseToken (cfgOf Options.default) 5 45 (initSt .slice (45 :: asc "5" ++ [])) =
    .ok (.number (.neg (-5))) s' :=
  ⟨_, (C08_sign_number (cfgOf Options.default) 5 45 (asc "5") [] _ _ _ (.inl rfl)
    ⟨⟨by decide, .inl rfl⟩, by decide, by decide⟩ (sliceAt_init _)).mpr ⟨by decide, by decide, rfl⟩⟩

example : ∃ s', parseToken (cfgOf Options.elisp) 5 45 (initSt .slice (45 :: asc "5" ++ asc " x")) =
    .ok (.number (.neg (-5))) s' :=
  ⟨_, (C08_sign_number (cfgOf Options.elisp) 5 45 (asc "5") (asc " x") _ _ _ (.inl rfl)
    ⟨⟨by decide, .inr ⟨32, asc "x", rfl, rfl⟩⟩, by decide, by decide⟩ (sliceAt_init _)).mpr
    ⟨by decide, by decide, rfl⟩⟩

/-- `+foo:` is the keyword `+foo` with postfix keywords and the symbol `+foo:` without -/
example : parseToken (cfgOf { Options.default with kwPostfix := true }) 7 43
      (initSt .slice (43 :: asc "foo:" ++ [])) =
    .ok (.keyword (asc "+foo")) ((initSt .slice (43 :: asc "foo:" ++ [])).adv 5) :=
  C08_sign_keyword (cfgOf { Options.default with kwPostfix := true }) 7 43 (asc "foo:") [] _
    (.inr rfl) ⟨⟨by decide, .inl rfl⟩, by decide, by decide⟩ (sliceAt_init _) (by decide)

example : parseToken (cfgOf Options.default) 7 43 (initSt .slice (43 :: asc "foo:" ++ [])) =
    .ok (.symbol (asc "+foo:")) ((initSt .slice (43 :: asc "foo:" ++ [])).adv 5) :=
  C08_sign_keyword (cfgOf Options.default) 7 43 (asc "foo:") [] _
    (.inr rfl) ⟨⟨by decide, .inl rfl⟩, by decide, by decide⟩ (sliceAt_init _) (by decide)

/-- `+.x` and `-...` go to the symbol reader, `+.5` is sign-dot-digit, `+5x` goes to the number
    parser -/
example : signSymbolic (asc ".x") [] = true ∧ signSymbolic (asc "...") (asc ")") = true ∧
    signDotDigit (asc ".5") [] = true ∧ signSymbolic (asc "5x") [] = false ∧
    signDotDigit (asc "5x") [] = false := by decide

/-- `λ:` (CE BB 3A) is the keyword `λ` with postfix keywords and the symbol `λ:` without -/
example : parseToken (cfgL { Options.default with kwPostfix := true }) 4 206
      (initSt .slice ([206, 187, 58] ++ [])) =
    .ok (.keyword [206, 187]) ((initSt .slice ([206, 187, 58] ++ [])).adv 3) :=
  C08_nonascii_keyword (cfgL { Options.default with kwPostfix := true }) 4 206 [206, 187, 58] [] _
    ⟨⟨by decide, .inl rfl⟩, by decide, by decide⟩ (sliceAt_init _) rfl (by decide) 955 [58]
    (by decide) rfl

example : parseToken (cfgL Options.elisp) 4 206 (initSt .slice ([206, 187, 58] ++ asc ")")) =
    .ok (.symbol [206, 187, 58]) ((initSt .slice ([206, 187, 58] ++ asc ")")).adv 3) :=
  C08_nonascii_keyword (cfgL Options.elisp) 4 206 [206, 187, 58] (asc ")") _
    ⟨⟨by decide, .inr ⟨41, [], rfl, rfl⟩⟩, by decide, by decide⟩ (sliceAt_init _) rfl (by decide)
    955 [58] (by decide) rfl

/-- `×` (C3 97, U+00D7, not alphabetic) is rejected under every option set -/
example : IsToken [195, 151] [] ∧ Utf8.decodeFirst [195, 151] = some (215, []) ∧
    (cfgL Options.default).isAlphabetic 215 = false ∧
    (cfgL Options.elisp).isAlphabetic 215 = false :=
  ⟨⟨⟨by decide, .inl rfl⟩, by decide, by decide⟩, by decide, rfl, rfl⟩

/-- `#:a` is the keyword `a` under the default options (octothorpe keywords on) and the error
    `ExpectedSomeIdent` under `Options::new()` and the Emacs Lisp options (off) -/
example : parseToken (cfgOf Options.default) 4 35 (initSt .slice (35 :: 58 :: asc "a" ++ [])) =
    .ok (.keyword (asc "a")) ((initSt .slice (35 :: 58 :: asc "a" ++ [])).adv 3) := by
  have h := C08_octothorpe_keyword (cfgOf Options.default) 4 (initSt .slice (35 :: 58 :: asc "a" ++ []))
    (asc "a") [] ⟨by decide, .inl rfl⟩ (by decide) (by decide) (sliceAt_init _)
  rw [h]; rfl

example : ∃ l c s', parseToken (cfgOf Options.elisp) 4 35 (initSt .slice (35 :: 58 :: asc "a" ++ [])) =
    .err (.syntax .expectedSomeIdent l c) s' := by
  have h := C08_octothorpe_keyword (cfgOf Options.elisp) 4 (initSt .slice (35 :: 58 :: asc "a" ++ []))
    (asc "a") [] ⟨by decide, .inl rfl⟩ (by decide) (by decide) (sliceAt_init _)
  rw [h]; exact ⟨_, _, _, rfl⟩

/-- `...` is the symbol `...` under any two option sets -/
example : parseToken (cfgOf Options.default) 4 46 (initSt .slice (asc "..." ++ [])) =
    .ok (.symbol (asc "...")) ((initSt .slice (asc "..." ++ [])).adv 3) :=
  C08_extended (cfgOf Options.default) 4 46 (asc "...") [] _
    ⟨⟨by decide, .inl rfl⟩, by decide, by decide⟩ (sliceAt_init _) rfl (by decide) (by decide)
    (by intro h; cases h) (by decide)

example : parseToken (cfgOf Options.elisp) 4 46 (initSt .slice (asc "..." ++ asc ")")) =
    .ok (.symbol (asc "...")) ((initSt .slice (asc "..." ++ asc ")")).adv 3) :=
  C08_extended (cfgOf Options.elisp) 4 46 (asc "...") (asc ")") _
    ⟨⟨by decide, .inr ⟨41, [], rfl, rfl⟩⟩, by decide, by decide⟩ (sliceAt_init _) rfl (by decide)
    (by decide) (by intro h; cases h) (by decide)

/-- the hypotheses of `C08_hash_fixed` hold for `#t`, `#xFF`, `#\a` and a lone `#` -/
example : (asc "t").head? ≠ some 58 ∧ (asc "xFF").head? ≠ some 37 ∧ (asc "\\a").head? ≠ some 58 ∧
    ([] : List UInt8).head? ≠ some 58 := by decide

/-- `#true` is read as `#t` followed by the symbol `rue` (the code does not look behind the
    `t`): as a whole input it is rejected with `TrailingCharacters`.  Not a C08 matter (no option
    is involved), recorded because the token list of the property's informal reader names
    `#true` / `#false`. -/
example : (match fromTrait (cfgOf Options.default) (initSt .slice (asc "#true")) with
    | .err e _ => some e | _ => none) = some (.syntax .trailingCharacters 1 3) := by decide

end Parse
end Lexpr

#print axioms Lexpr.Parse.C08_sign
#print axioms Lexpr.Parse.C08_sign_alone
#print axioms Lexpr.Parse.C08_sign_keyword
#print axioms Lexpr.Parse.C08_sign_symbol
#print axioms Lexpr.Parse.C08_sign_number
#print axioms Lexpr.Parse.C08_sign_number_only
#print axioms Lexpr.Parse.C08_frame_sign_any
#print axioms Lexpr.Parse.C08_frame_sign
#print axioms Lexpr.Parse.C08_nonascii
#print axioms Lexpr.Parse.C08_nonascii_keyword
#print axioms Lexpr.Parse.C08_frame_nonascii_any
#print axioms Lexpr.Parse.C08_frame_nonascii
#print axioms Lexpr.Parse.C08_octothorpe_keyword
#print axioms Lexpr.Parse.C08_frame_octothorpe
#print axioms Lexpr.Parse.C08_hash_fixed
#print axioms Lexpr.Parse.C08_hash_simple
#print axioms Lexpr.Parse.C08_hash_eof
