/-
  ImageTok — C13, the image of the lexer: which tokens `parse_token` can return.

  `TokImg cfg tok` describes, per atom kind, what is known of a token that `parse_token` has
  returned from a source that validates text (slice or stream):
    * a symbol is the full text of a name-shaped token that reads as a symbol (`nameShape` /
      `nameTok` of `DialectRT.lean`), or a digit-initial name that is not a number (option
      `leadingDigit`), or a `#%` name (option `racket`);
    * a keyword was read through an enabled keyword syntax: `#:name` / `:name` (then `name` is not
      the lone dot) or `name:` (then `name:` is a name-shaped or digit-initial token);
    * integers are in range, characters are scalar values, strings are well-formed.
  `parseToken_img` proves it by inversion of every arm of `parse_token`.
-/
import LexprModel.Proofs.ImageBase
namespace Lexpr
namespace Parse
namespace Image
open Utf8

/-! ### vocabulary -/

def NonTerm (n : List UInt8) : Prop := ∀ b ∈ n, symTermSlice b = false
def DigitInit (n : List UInt8) : Prop := ∃ d tl, n = d :: tl ∧ isDigit d = true

instance (n : List UInt8) : Decidable (NonTerm n) := by unfold NonTerm; exact inferInstance

/-- the symbols `parse_token` returns -/
def SymImg (cfg : Cfg) (n : List UInt8) : Prop :=
  Utf8.valid n = true ∧ NonTerm n ∧
  ((nameShape cfg n = true ∧ nameTok cfg.opts n = .symbol n) ∨
   (cfg.opts.leadingDigit = true ∧ DigitInit n ∧ wholeNumber cfg n = none ∧
      symbolToken cfg.opts n = .symbol n) ∨
   (cfg.opts.racket = true ∧ ∃ body, n = 35 :: 37 :: body))

/-- the keywords `parse_token` returns -/
def KwImg (cfg : Cfg) (n : List UInt8) : Prop :=
  Utf8.valid n = true ∧ NonTerm n ∧
  (((cfg.opts.kwOctothorpe = true ∨ cfg.opts.kwPrefix = true) ∧ n ≠ [46]) ∨
   (cfg.opts.kwPostfix = true ∧ n ≠ [] ∧
     ((nameShape cfg (n ++ [58]) = true ∧ nameTok cfg.opts (n ++ [58]) = .keyword n) ∨
      (cfg.opts.leadingDigit = true ∧ DigitInit n ∧ wholeNumber cfg (n ++ [58]) = none))))

def TokImg (cfg : Cfg) : Token → Prop
  | .symbol n => SymImg cfg n
  | .keyword n => KwImg cfg n
  | .char c => isScalar c = true
  | .string s => Utf8.valid s = true
  | .number n => NumOK n
  | .null => cfg.opts.nil = .emptyList
  | _ => True

/-! ### byte classes -/

theorem alpha_nonterm : ∀ b : UInt8, isAsciiAlpha b = true → symTermSlice b = false := by
  apply forall_u8; decide +kernel
theorem digit_nonterm : ∀ b : UInt8, isDigit b = true → symTermSlice b = false := by
  apply forall_u8; decide +kernel
theorem ext_nonterm : ∀ b : UInt8, isSymbolExtended b = true → symTermSlice b = false := by
  apply forall_u8; decide +kernel
theorem hi_nonterm : ∀ b : UInt8, b > 127 → symTermSlice b = false := by
  apply forall_u8; decide +kernel
theorem ascii_of_not_hi : ∀ b : UInt8, ¬ b > 127 → b < 0x80 := by
  apply forall_u8; decide +kernel

theorem NonTerm.cons {b : UInt8} {tl : List UInt8} (hb : symTermSlice b = false) (h : NonTerm tl) :
    NonTerm (b :: tl) := by
  intro x hx
  rcases List.mem_cons.mp hx with rfl | hx
  · exact hb
  · exact h x hx

theorem NonTerm.dropLast {n : List UInt8} (h : NonTerm n) : NonTerm n.dropLast :=
  fun x hx => h x (List.dropLast_subset n hx)

theorem dropLast_snoc {α : Type} {l : List α} {a : α} (h : l.getLast? = some a) :
    l = l.dropLast ++ [a] := by
  induction l with
  | nil => simp at h
  | cons x xs ih =>
    cases xs with
    | nil => simp at h; simp [h]
    | cons y ys =>
      have : (y :: ys).getLast? = some a := by simpa [List.getLast?_cons_cons] using h
      have := ih this
      simp only [List.dropLast_cons_cons, List.cons_append]
      rw [← this]

theorem nameShape_intro (cfg : Cfg) (b : UInt8) (tl : List UInt8) (hall : NonTerm (b :: tl))
    (hcls : (isAsciiAlpha b
      || (b == 58 && (!cfg.opts.kwPrefix || tl != [46]))
      || (isSymbolExtended b && b != 58 && !(b == 63 && cfg.opts.char == .elisp) &&
            (b :: tl) != [46])
      || ((b == 43 || b == 45) && signTailOk tl)
      || (decide (b > 127) &&
            match Utf8.decodeFirst (b :: tl) with
            | some (c, _) => cfg.isAlphabetic c
            | none => false)) = true) : nameShape cfg (b :: tl) = true := by
  simp only [nameShape, Bool.and_eq_true]
  refine ⟨?_, hcls⟩
  simp only [List.all_eq_true, Bool.not_eq_true']
  exact hall

/-! ### the tokens of name-shaped texts -/

theorem symbolToken_img_postfix (cfg : Cfg) (t : List UInt8) (hv : Utf8.valid t = true)
    (hnt : NonTerm t) (hk : cfg.opts.kwPostfix = true) (hlen : t.length > 1)
    (hlast : t.getLast? = some 58)
    (hsrc : (nameShape cfg t = true ∧ nameTok cfg.opts t = .keyword t.dropLast) ∨
      (cfg.opts.leadingDigit = true ∧ DigitInit t ∧ wholeNumber cfg t = none)) :
    KwImg cfg t.dropLast := by
  have ht := dropLast_snoc hlast
  refine ⟨U8.valid_dropLast_colon hv hlast, hnt.dropLast, Or.inr ⟨hk, ?_, ?_⟩⟩
  · intro h0
    rw [h0] at ht
    rw [ht] at hlen
    simp at hlen
  · rw [← ht]
    rcases hsrc with h | ⟨h1, ⟨d, tl, hd, hdd⟩, h3⟩
    · exact Or.inl h
    · refine Or.inr ⟨h1, ?_, h3⟩
      subst hd
      cases tl with
      | nil => simp at hlen
      | cons y ys => exact ⟨d, (y :: ys).dropLast, by simp, hdd⟩

/-- every name-shaped, well-formed text reads as a token of the image -/
theorem nameTok_img (cfg : Cfg) (t : List UInt8) (hs : nameShape cfg t = true)
    (hv : Utf8.valid t = true) : TokImg cfg (nameTok cfg.opts t) := by
  cases t with
  | nil => simp [nameShape] at hs
  | cons b tl =>
    have hs0 := hs
    simp only [nameShape, Bool.and_eq_true, List.all_eq_true, Bool.not_eq_true'] at hs
    obtain ⟨hall, hcls⟩ := hs
    have hnt : NonTerm (b :: tl) := hall
    have hsym : ∀ h : nameTok cfg.opts (b :: tl) = .symbol (b :: tl), SymImg cfg (b :: tl) :=
      fun h => ⟨hv, hnt, Or.inl ⟨hs0, h⟩⟩
    have hpost : symbolToken cfg.opts (b :: tl) = nameTok cfg.opts (b :: tl) →
        TokImg cfg (symbolToken cfg.opts (b :: tl)) := by
      intro heq
      unfold symbolToken at heq ⊢
      split
      · rename_i hc
        rw [if_pos hc] at heq
        simp only [Bool.and_eq_true, decide_eq_true_eq, beq_iff_eq] at hc
        exact symbolToken_img_postfix cfg _ hv hnt hc.1.1 hc.1.2 hc.2 (Or.inl ⟨hs0, heq.symm⟩)
      · rename_i hc
        rw [if_neg hc] at heq
        exact hsym heq.symm
    by_cases ha : isAsciiAlpha b = true
    · have e : nameTok cfg.opts (b :: tl) = letterTok cfg.opts (b :: tl) := by
        simp [nameTok, ha]
      rw [e] at hsym ⊢
      unfold letterTok at hsym ⊢
      split
      · rename_i hc
        have hlen := alpha_last b tl ha hc.2
        refine symbolToken_img_postfix cfg _ hv hnt hc.1 hlen hc.2 (Or.inl ⟨hs0, ?_⟩)
        rw [e]; simp only [letterTok]; rw [if_pos hc]
      · rename_i hc
        rw [if_neg hc] at hsym
        split
        · split <;> first | assumption | trivial
        · rename_i hc2
          rw [if_neg hc2] at hsym
          split
          · trivial
          · rename_i hc3
            rw [if_neg hc3] at hsym
            exact hsym rfl
    · by_cases hp : b = 58 ∧ cfg.opts.kwPrefix = true
      · obtain ⟨rfl, hk⟩ := hp
        have e : nameTok cfg.opts (58 :: tl) = .keyword tl := by
          simp [nameTok, isAsciiAlpha, hk]
        rw [e]
        have htl : tl ≠ [46] := by
          intro h46
          subst h46
          revert hcls
          simp [hk, isAsciiAlpha, isSymbolExtended]
        exact ⟨valid_tail58 tl hv, fun x hx => hnt x (by simp [hx]),
          Or.inl ⟨Or.inr hk, htl⟩⟩
      · have e : nameTok cfg.opts (b :: tl) = symbolToken cfg.opts (b :: tl) := by
          simp only [nameTok, ha, Bool.false_eq_true, if_false, hp]
        rw [e]
        exact hpost e.symm

/-! ### the letter arm -/

theorem letter_chain_inv (o : Options) (name : List UInt8) {s s' : St} {tok : Token}
    (h : (if (o.kwPostfix && name.getLast? == some 58) = true then
            (pure (.keyword name.dropLast) : P Token)
          else if (o.nil != .default && name == asc "nil") = true then
            match o.nil with
            | .emptyList => pure .null
            | .special => pure .nil
            | .default => panicAt .unreachable
          else if (o.t != .default && name == asc "t") = true then
            match o.t with
            | .true_ => pure (.bool true)
            | .default => panicAt .unreachable
          else pure (.symbol name)) s = .ok tok s') :
    tok = letterTok o name := by
  unfold letterTok
  rcases U8.ite_ok h with ⟨hc, h⟩ | ⟨hc, h⟩
  · obtain ⟨rfl, _⟩ := U8.pure_ok h
    simp only [Bool.and_eq_true, beq_iff_eq] at hc
    rw [if_pos hc]
  · have hc' : ¬ (o.kwPostfix = true ∧ name.getLast? = some 58) := by
      simpa [Bool.and_eq_true] using hc
    rw [if_neg hc']
    rcases U8.ite_ok h with ⟨hc2, h⟩ | ⟨hc2, h⟩
    · simp only [Bool.and_eq_true, bne_iff_ne, ne_eq, beq_iff_eq] at hc2
      rw [if_pos hc2]
      cases hn : o.nil <;> rw [hn] at h <;> dsimp only at h
      · obtain ⟨rfl, _⟩ := U8.pure_ok h; rfl
      · simp [panicAt] at h
      · obtain ⟨rfl, _⟩ := U8.pure_ok h; rfl
    · have hc2' : ¬ (o.nil ≠ .default ∧ name = asc "nil") := by
        simpa [Bool.and_eq_true] using hc2
      rw [if_neg hc2']
      rcases U8.ite_ok h with ⟨hc3, h⟩ | ⟨hc3, h⟩
      · simp only [Bool.and_eq_true, bne_iff_ne, ne_eq, beq_iff_eq] at hc3
        rw [if_pos hc3]
        cases ht : o.t <;> rw [ht] at h <;> dsimp only at h
        · obtain ⟨rfl, _⟩ := U8.pure_ok h; rfl
        · simp [panicAt] at h
      · have hc3' : ¬ (o.t ≠ .default ∧ name = asc "t") := by
          simpa [Bool.and_eq_true] using hc3
        rw [if_neg hc3']
        obtain ⟨rfl, _⟩ := U8.pure_ok h; rfl

/-! ### the sign arms -/

theorem sign_nonterm {sign : UInt8} (h : sign = 43 ∨ sign = 45) : symTermSlice sign = false := by
  rcases h with rfl | rfl <;> decide

theorem sign_tok (o : Options) {sign : UInt8} (h : sign = 43 ∨ sign = 45) (tl : List UInt8) :
    nameTok o (sign :: tl) = symbolToken o (sign :: tl) := by
  rcases h with rfl | rfl <;> simp [nameTok, isAsciiAlpha]

theorem sign_shape (cfg : Cfg) {sign : UInt8} (h : sign = 43 ∨ sign = 45) (tl : List UInt8)
    (hnt : NonTerm tl) (hs : signTailOk tl = true) : nameShape cfg (sign :: tl) = true := by
  refine nameShape_intro cfg sign tl (NonTerm.cons (sign_nonterm h) hnt) ?_
  have : (sign == 43 || sign == 45) = true := by rcases h with rfl | rfl <;> decide
  simp [this, hs]

theorem sign_valid {sign : UInt8} (h : sign = 43 ∨ sign = 45) : sign < 0x80 := by
  rcases h with rfl | rfl <;> decide

theorem parseSignToken_img {cfg : Cfg} {fuel : Nat} {sign : UInt8} {pos : Bool} {s s' : St}
    {tok : Token} (h : parseSignToken cfg fuel sign pos s = .ok tok s')
    (hsign : sign = 43 ∨ sign = 45) (hm : s.rd.mode ≠ .str) : TokImg cfg tok := by
  unfold parseSignToken at h
  obtain ⟨_, s1, hd, h⟩ := U8.bind_ok h
  obtain ⟨hm1, _, _⟩ := U8.discard_ok hd
  obtain ⟨nxt, s2, hpk, h⟩ := U8.bind_ok h
  obtain ⟨hm2, hr2, hnxt⟩ := U8.peekOrNull_ok hpk
  have hms2 : s2.rd.mode ≠ .str := by rw [hm2, hm1]; exact hm
  rcases U8.ite_ok h with ⟨hc1, h⟩ | ⟨hc1, h⟩
  · obtain ⟨name, s3, hsym, h⟩ := U8.bind_ok h
    obtain ⟨rfl, _⟩ := U8.pure_ok h
    obtain ⟨body, hname, hbody, hnt, -, hv, -⟩ := psb_inv hsym
    have hname' : name = sign :: body := by simpa using hname
    subst hname'
    have hs : signTailOk body = true := by
      cases hb : body with
      | nil => rfl
      | cons c tl =>
        have hc : s2.rd.rest.head?.getD 0 = c := psb_body_head (by rw [← hbody, hb])
        rw [hr2, ← hnxt] at hc
        subst hc
        simp only [signTailOk, hc1, Bool.true_or]
    rw [← sign_tok cfg.opts hsign body]
    exact nameTok_img cfg _ (sign_shape cfg hsign body hnt hs) (hv hms2)
  · rcases U8.ite_ok h with ⟨h46, h⟩ | ⟨_, h⟩
    · unfold parseSignDotSymbol at h
      obtain ⟨_, s3, hd3, h⟩ := U8.bind_ok h
      obtain ⟨hm3, _, _⟩ := U8.discard_ok hd3
      obtain ⟨c, s4, hpk4, h⟩ := U8.bind_ok h
      obtain ⟨hm4, hr4, hc4⟩ := U8.peekOrNull_ok hpk4
      have hms4 : s4.rd.mode ≠ .str := by rw [hm4, hm3]; exact hms2
      rcases U8.ite_ok h with ⟨_, h⟩ | ⟨hnd, h⟩
      · simp [peekErr] at h
      · obtain ⟨name, s5, hsym, h⟩ := U8.bind_ok h
        obtain ⟨rfl, _⟩ := U8.pure_ok h
        obtain ⟨body, hname, hbody, hnt, -, hv, -⟩ := psb_inv hsym
        have hname' : name = sign :: 46 :: body := by simpa using hname
        subst hname'
        have hdt : dotTailOk body = true := by
          cases hb : body with
          | nil => rfl
          | cons d tl =>
            have hc : s4.rd.rest.head?.getD 0 = d := psb_body_head (by rw [← hbody, hb])
            rw [hr4, ← hc4] at hc
            subst hc
            simpa [dotTailOk] using hnd
        have hs : signTailOk (46 :: body) = true := by
          simp [signTailOk, hdt]
        rw [← sign_tok cfg.opts hsign (46 :: body)]
        exact nameTok_img cfg _
          (sign_shape cfg hsign (46 :: body) (NonTerm.cons (by decide) hnt) hs) (hv hms4)
    · obtain ⟨n, s3, hnum, h⟩ := U8.bind_ok h
      obtain ⟨rfl, _⟩ := U8.pure_ok h
      exact parseNumToken_inv hnum

/-! ### the digit arm with `leadingDigit` -/

theorem digit_sym_img (cfg : Cfg) (sym : List UInt8) (hld : cfg.opts.leadingDigit = true)
    (hv : Utf8.valid sym = true) (hnt : NonTerm sym) (hdi : DigitInit sym)
    (hw : wholeNumber cfg sym = none) : TokImg cfg (symbolToken cfg.opts sym) := by
  unfold symbolToken
  split
  · rename_i hc
    simp only [Bool.and_eq_true, decide_eq_true_eq, beq_iff_eq] at hc
    exact symbolToken_img_postfix cfg _ hv hnt hc.1.1 hc.1.2 hc.2 (Or.inr ⟨hld, hdi, hw⟩)
  · rename_i hc
    refine ⟨hv, hnt, Or.inr (Or.inl ⟨hld, hdi, hw, ?_⟩)⟩
    unfold symbolToken
    rw [if_neg hc]

/-! ### `parse_token` -/

theorem ext_not_alpha : ∀ b : UInt8, isSymbolExtended b = true → isAsciiAlpha b = false := by
  apply forall_u8; decide +kernel

/-- **Every token `parse_token` returns lies in the image** (sources that validate text). -/
theorem parseToken_img {cfg : Cfg} {fuel : Nat} {pk : UInt8} {s s' : St} {tok : Token}
    (h : parseToken cfg fuel pk s = .ok tok s') (hpk : ∃ tl, s.rd.rest = pk :: tl)
    (hm : s.rd.mode ≠ .str) : TokImg cfg tok := by
  have hstr : ∀ b, tok = .string b → Utf8.valid b = true := by
    intro b hb
    have := (U8.parseToken_pres h hpk (fun hs => absurd hs hm)).2
    rw [hb] at this
    exact this
  obtain ⟨tl0, hpk⟩ := hpk
  unfold parseToken at h
  simp only [] at h
  -- '#'
  rcases U8.ite_ok h with ⟨_, h⟩ | ⟨n35, h⟩
  · obtain ⟨_, s1, hd, h⟩ := U8.bind_ok h
    obtain ⟨hm1, _, _⟩ := U8.discard_ok hd
    obtain ⟨a, s2, hn, h⟩ := U8.bind_ok h
    obtain ⟨hm2, _⟩ := U8.next_ok hn
    have hms2 : s2.rd.mode ≠ .str := by rw [hm2, hm1]; exact hm
    cases a with
    | none => simp [peekErr] at h
    | some c =>
      dsimp only at h
      rcases U8.ite_ok h with ⟨_, h⟩ | ⟨_, h⟩
      · obtain ⟨rfl, _⟩ := U8.pure_ok h; trivial
      rcases U8.ite_ok h with ⟨_, h⟩ | ⟨_, h⟩
      · obtain ⟨rfl, _⟩ := U8.pure_ok h; trivial
      rcases U8.ite_ok h with ⟨_, h⟩ | ⟨_, h⟩
      · obtain ⟨_, s3, _, h⟩ := U8.bind_ok h
        obtain ⟨rfl, _⟩ := U8.pure_ok h; trivial
      rcases U8.ite_ok h with ⟨_, h⟩ | ⟨_, h⟩
      · obtain ⟨rfl, _⟩ := U8.pure_ok h; trivial
      rcases U8.ite_ok h with ⟨hc, h⟩ | ⟨_, h⟩
      · simp only [Bool.and_eq_true] at hc
        obtain ⟨name, s3, hsym, h⟩ := U8.bind_ok h
        obtain ⟨rfl, _⟩ := U8.pure_ok h
        obtain ⟨body, hname, -, hnt, hdot, hv, -⟩ := psb_inv hsym
        have hname' : name = body := by simpa using hname
        subst hname'
        exact ⟨hv hms2, hnt, Or.inl ⟨Or.inl hc.2, hdot⟩⟩
      rcases U8.ite_ok h with ⟨_, h⟩ | ⟨_, h⟩
      · obtain ⟨_, s3, _, h⟩ := U8.bind_ok h
        obtain ⟨rfl, _⟩ := U8.pure_ok h; trivial
      rcases U8.ite_ok h with ⟨_, h⟩ | ⟨_, h⟩
      · obtain ⟨_, s3, _, h⟩ := U8.bind_ok h
        obtain ⟨rfl, _⟩ := U8.pure_ok h; trivial
      rcases U8.ite_ok h with ⟨_, h⟩ | ⟨_, h⟩
      · obtain ⟨n, s3, hnum, h⟩ := U8.bind_ok h
        obtain ⟨rfl, _⟩ := U8.pure_ok h
        exact parseRadixToken_inv (by decide) hnum
      rcases U8.ite_ok h with ⟨_, h⟩ | ⟨_, h⟩
      · obtain ⟨n, s3, hnum, h⟩ := U8.bind_ok h
        obtain ⟨rfl, _⟩ := U8.pure_ok h
        exact parseRadixToken_inv (by decide) hnum
      rcases U8.ite_ok h with ⟨_, h⟩ | ⟨_, h⟩
      · obtain ⟨n, s3, hnum, h⟩ := U8.bind_ok h
        obtain ⟨rfl, _⟩ := U8.pure_ok h
        exact parseRadixToken_inv (by decide) hnum
      rcases U8.ite_ok h with ⟨_, h⟩ | ⟨_, h⟩
      · obtain ⟨n, s3, hnum, h⟩ := U8.bind_ok h
        obtain ⟨rfl, _⟩ := U8.pure_ok h
        exact parseRadixToken_inv (by decide) hnum
      rcases U8.ite_ok h with ⟨_, h⟩ | ⟨_, h⟩
      · obtain ⟨ch, s3, hch, h⟩ := U8.bind_ok h
        obtain ⟨rfl, _⟩ := U8.pure_ok h
        exact parseR6rsChar_inv hch
      rcases U8.ite_ok h with ⟨hc, h⟩ | ⟨_, h⟩
      · simp only [Bool.and_eq_true] at hc
        obtain ⟨name, s3, hsym, h⟩ := U8.bind_ok h
        obtain ⟨rfl, _⟩ := U8.pure_ok h
        obtain ⟨body, hname, -, hnt, -, hv, -⟩ := psb_inv hsym
        have e : asc "#%" = [35, 37] := by decide
        rw [e] at hname
        have hname' : name = 35 :: 37 :: body := by simpa using hname
        subst hname'
        exact ⟨hv hms2, NonTerm.cons (by decide) (NonTerm.cons (by decide) hnt),
          Or.inr (Or.inr ⟨hc.2, body, rfl⟩)⟩
      · simp [peekErr] at h
  -- '-'
  rcases U8.ite_ok h with ⟨_, h⟩ | ⟨n45, h⟩
  · exact parseSignToken_img h (Or.inr rfl) hm
  -- '+'
  rcases U8.ite_ok h with ⟨_, h⟩ | ⟨n43, h⟩
  · exact parseSignToken_img h (Or.inl rfl) hm
  -- digits
  rcases U8.ite_ok h with ⟨hdig, h⟩ | ⟨ndig, h⟩
  · rcases U8.ite_ok h with ⟨hld, h⟩ | ⟨_, h⟩
    · obtain ⟨sym, s1, hsym, h⟩ := U8.bind_ok h
      obtain ⟨body, hname, hbody, hnt, -, hv, -⟩ := psb_inv hsym
      have hname' : sym = body := by simpa using hname
      subst hname'
      cases hw : wholeNumber cfg sym with
      | some n =>
        rw [hw] at h
        obtain ⟨rfl, _⟩ := U8.pure_ok h
        exact wholeNumber_inv hw
      | none =>
        rw [hw] at h
        obtain ⟨rfl, _⟩ := U8.pure_ok h
        obtain ⟨tl', htl'⟩ := psb_take_head (s := s) hpk (digit_nonterm pk hdig)
        exact digit_sym_img cfg sym hld (hv hm) hnt ⟨pk, tl', by rw [hbody, htl'], hdig⟩ hw
    · obtain ⟨n, s1, hnum, h⟩ := U8.bind_ok h
      obtain ⟨rfl, _⟩ := U8.pure_ok h
      exact parseNumToken_inv hnum
  -- '"'
  rcases U8.ite_ok h with ⟨_, h⟩ | ⟨n34, h⟩
  · obtain ⟨_, s1, hd, h⟩ := U8.bind_ok h
    cases hstr' : cfg.opts.string with
    | r6rs =>
      rw [hstr'] at h
      obtain ⟨out, s2, hp, h⟩ := U8.bind_ok h
      obtain ⟨rfl, _⟩ := U8.pure_ok h
      exact hstr _ rfl
    | elisp =>
      rw [hstr'] at h
      obtain ⟨r, s2, hp, h⟩ := U8.bind_ok h
      cases r with
      | unibyte b => obtain ⟨rfl, _⟩ := U8.pure_ok h; trivial
      | multibyte out => obtain ⟨rfl, _⟩ := U8.pure_ok h; exact hstr _ rfl
  -- '('
  rcases U8.ite_ok h with ⟨_, h⟩ | ⟨n40, h⟩
  · obtain ⟨_, s1, hd, h⟩ := U8.bind_ok h
    obtain ⟨rfl, _⟩ := U8.pure_ok h; trivial
  -- '['
  rcases U8.ite_ok h with ⟨_, h⟩ | ⟨n91, h⟩
  · obtain ⟨_, s1, hd, h⟩ := U8.bind_ok h
    cases hb : cfg.opts.brackets <;> rw [hb] at h <;>
      (obtain ⟨rfl, _⟩ := U8.pure_ok h; trivial)
  -- ':'
  rcases U8.ite_ok h with ⟨h58, h⟩ | ⟨n58, h⟩
  · have h58' : pk = 58 := by simpa using h58
    rcases U8.ite_ok h with ⟨hk, h⟩ | ⟨hk, h⟩
    · obtain ⟨_, s1, hd, h⟩ := U8.bind_ok h
      obtain ⟨hm1, _, _⟩ := U8.discard_ok hd
      obtain ⟨name, s2, hsym, h⟩ := U8.bind_ok h
      obtain ⟨rfl, _⟩ := U8.pure_ok h
      obtain ⟨body, hname, -, hnt, hdot, hv, -⟩ := psb_inv hsym
      have hname' : name = body := by simpa using hname
      subst hname'
      exact ⟨hv (by rw [hm1]; exact hm), hnt, Or.inl ⟨Or.inr hk, hdot⟩⟩
    · obtain ⟨name, s2, hsym, h⟩ := U8.bind_ok h
      obtain ⟨rfl, _⟩ := U8.pure_ok h
      obtain ⟨body, hname, hbody, hnt, -, hv, -⟩ := psb_inv hsym
      have hname' : name = body := by simpa using hname
      subst hname'
      obtain ⟨tl', htl'⟩ := psb_take_head (s := s) hpk (by rw [h58']; decide)
      rw [← hbody] at htl'
      subst htl'
      have hk' : cfg.opts.kwPrefix = false := by simpa using hk
      have hshape : nameShape cfg (pk :: tl') = true :=
        nameShape_intro cfg pk tl' hnt (by simp [h58', hk'])
      have e : nameTok cfg.opts (pk :: tl') = symbolToken cfg.opts (pk :: tl') := by
        simp [nameTok, h58', isAsciiAlpha, hk']
      rw [← e]
      exact nameTok_img cfg _ hshape (hv hm)
  -- letters
  rcases U8.ite_ok h with ⟨halpha, h⟩ | ⟨nalpha, h⟩
  · obtain ⟨name, s1, hsym, h⟩ := U8.bind_ok h
    obtain ⟨body, hname, hbody, hnt, -, hv, -⟩ := psb_inv hsym
    have hname' : name = body := by simpa using hname
    subst hname'
    obtain ⟨tl', htl'⟩ := psb_take_head (s := s) hpk (alpha_nonterm pk halpha)
    rw [← hbody] at htl'
    subst htl'
    have htok := letter_chain_inv cfg.opts (pk :: tl') h
    have hshape : nameShape cfg (pk :: tl') = true :=
      nameShape_intro cfg pk tl' hnt (by simp [halpha])
    have e : nameTok cfg.opts (pk :: tl') = letterTok cfg.opts (pk :: tl') := by
      simp [nameTok, halpha]
    rw [htok, ← e]
    exact nameTok_img cfg _ hshape (hv hm)
  -- '?'
  rcases U8.ite_ok h with ⟨_, h⟩ | ⟨nq, h⟩
  · obtain ⟨_, s1, hd, h⟩ := U8.bind_ok h
    obtain ⟨ch, s2, hch, h⟩ := U8.bind_ok h
    obtain ⟨rfl, _⟩ := U8.pure_ok h
    exact parseElispChar_inv hch
  -- quote
  rcases U8.ite_ok h with ⟨_, h⟩ | ⟨n39, h⟩
  · obtain ⟨_, s1, hd, h⟩ := U8.bind_ok h
    obtain ⟨rfl, _⟩ := U8.pure_ok h; trivial
  rcases U8.ite_ok h with ⟨_, h⟩ | ⟨n96, h⟩
  · obtain ⟨_, s1, hd, h⟩ := U8.bind_ok h
    obtain ⟨rfl, _⟩ := U8.pure_ok h; trivial
  -- ','
  rcases U8.ite_ok h with ⟨_, h⟩ | ⟨n44, h⟩
  · obtain ⟨_, s1, hd, h⟩ := U8.bind_ok h
    obtain ⟨c, s2, hp, h⟩ := U8.bind_ok h
    rcases U8.ite_ok h with ⟨_, h⟩ | ⟨_, h⟩
    · obtain ⟨_, s3, hd3, h⟩ := U8.bind_ok h
      obtain ⟨rfl, _⟩ := U8.pure_ok h; trivial
    · obtain ⟨rfl, _⟩ := U8.pure_ok h; trivial
  -- a non-ASCII symbol initial
  rcases U8.ite_ok h with ⟨hhi, h⟩ | ⟨nhi, h⟩
  · obtain ⟨_, s1, hd, h⟩ := U8.bind_ok h
    obtain ⟨hm1, _, _⟩ := U8.discard_ok hd
    obtain ⟨⟨c, bytes⟩, s2, hseq, h⟩ := U8.bind_ok h
    obtain ⟨hvb, hm2, cont, hcont, hcn', hdec⟩ := dus_inv hseq (not_lt_of_hi hhi)
    dsimp only at h
    rcases U8.ite_ok h with ⟨_, h⟩ | ⟨hal, h⟩
    · simp [peekErr] at h
    · obtain ⟨name, s3, hsym, h⟩ := U8.bind_ok h
      obtain ⟨rfl, _⟩ := U8.pure_ok h
      obtain ⟨body, hname, -, hnt, -, hv, -⟩ := psb_inv hsym
      subst hcont
      have hname' : name = pk :: (cont ++ body) := by simpa using hname
      subst hname'
      have hal' : cfg.isAlphabetic c = true := by simpa using hal
      have hcn : NonTerm cont := fun x hx => hi_nonterm x (hcn' x hx)
      have hshape : nameShape cfg (pk :: (cont ++ body)) = true := by
        refine nameShape_intro cfg pk _ (NonTerm.cons (hi_nonterm pk hhi) ?_) ?_
        · intro x hx
          rcases List.mem_append.mp hx with hx | hx
          · exact hcn x hx
          · exact hnt x hx
        · have := decodeFirst_append body hdec
          simp only [List.cons_append] at this
          simp [hhi, this, hal']
      obtain ⟨hna, hn58⟩ := hi_not_misc pk hhi
      have e : nameTok cfg.opts (pk :: (cont ++ body)) =
          symbolToken cfg.opts (pk :: (cont ++ body)) := by
        simp [nameTok, hna, hn58]
      rw [← e]
      exact nameTok_img cfg _ hshape (hv (by rw [hm2, hm1]; exact hm))
  -- extended symbol characters
  rcases U8.ite_ok h with ⟨hext, h⟩ | ⟨_, h⟩
  · obtain ⟨name, s2, hsym, h⟩ := U8.bind_ok h
    obtain ⟨rfl, _⟩ := U8.pure_ok h
    obtain ⟨body, hname, hbody, hnt, hdot, hv, -⟩ := psb_inv hsym
    have hname' : name = body := by simpa using hname
    subst hname'
    obtain ⟨tl', htl'⟩ := psb_take_head (s := s) hpk (ext_nonterm pk hext)
    rw [← hbody] at htl'
    subst htl'
    have hn58 : pk ≠ 58 := by simpa using n58
    have hq : (pk == 63 && cfg.opts.char == CharSyntax.elisp) = false := by simpa using nq
    have hshape : nameShape cfg (pk :: tl') = true :=
      nameShape_intro cfg pk tl' hnt (by simp [hext, hn58, hq, hdot])
    have e : nameTok cfg.opts (pk :: tl') = symbolToken cfg.opts (pk :: tl') := by
      simp [nameTok, ext_not_alpha pk hext, hn58]
    rw [← e]
    exact nameTok_img cfg _ hshape (hv hm)
  -- anything else is an error
  · obtain ⟨_, s1, _, h⟩ := U8.bind_ok h
    obtain ⟨_, s2, _, h⟩ := U8.bind_ok h
    cases h

end Image
end Parse
end Lexpr
