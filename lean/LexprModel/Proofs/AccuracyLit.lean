/-
  Accuracy of decimal literals (property C05, accuracy clause), part 3: the build without
  `fast-float-parsing`, `f64_from_parts` in both builds, and the composition with the scanners
  (`Decimals.C05_scan_parts`).
-/
import LexprModel.Proofs.AccuracyFast
namespace Lexpr
namespace Accuracy
open Parse F64 Numbers Decimals

/-! ## 1. The build without `fast-float-parsing`: one correct rounding -/

theorem ten_zpow_split (p : Int) :
    (10 : Rat) ^ p * ((10 ^ (-p).toNat : Nat) : Rat) = ((10 ^ p.toNat : Nat) : Rat) := by
  rw [ten_pow_cast, ten_pow_cast, ← Rat.zpow_natCast, ← Rat.zpow_natCast,
    ← Rat.zpow_add ten_ne]
  congr 1
  omega

/-- the quotient `decRn` rounds is `S * 10^E` -/
theorem decRn_quot (S : Nat) (E : Int) :
    ((S * 10 ^ E.toNat : Nat) : Rat) / ((10 ^ (-E).toNat : Nat) : Rat) = dec S E := by
  unfold dec
  rw [Rat.natCast_mul]
  have hs := ten_zpow_split E
  have hA : (0 : Rat) < ((10 ^ (-E).toNat : Nat) : Rat) := natCast_pos' (ten_pow_pos _)
  generalize ((10 ^ (-E).toNat : Nat) : Rat) = A at *
  generalize ((10 ^ E.toNat : Nat) : Rat) = B at *
  rw [← hs]
  grind

/-- **C05_accuracy_nofast.**  Build without `fast-float-parsing` (the standard library's parser,
    modelled as the correctly rounded `rnDec`): for a `u64` significand and a finite result, the
    relative error is at most `2^-53` whenever `sig * 10^e ≥ 2^-1022` (half an ulp, `rn_relerr`),
    and the absolute error at most `2^-1075` below that. -/
theorem C05_accuracy_nofast {sig : Nat} {e : Int} (hs : sig ≤ u64Max)
    (hfin : rnDec sig e < infBits) :
    ((2 : Rat) ^ (-1022 : Int) ≤ dec sig e →
      dec sig e * (1 - u) ≤ val (rnDec sig e) ∧ val (rnDec sig e) ≤ dec sig e * (1 + u)) ∧
    (dec sig e < (2 : Rat) ^ (-1022 : Int) →
      dec sig e - eta ≤ val (rnDec sig e) ∧ val (rnDec sig e) ≤ dec sig e + eta) ∧
    (dec sig e * (1 - u) - eta ≤ val (rnDec sig e) ∧
      val (rnDec sig e) ≤ dec sig e * (1 + u) + eta) := by
  rw [rnDec_eq_all sig e hs] at hfin ⊢
  unfold decRn at hfin ⊢
  have hd : 0 < 10 ^ (-e).toNat := ten_pow_pos _
  refine ⟨fun hn => ?_, fun hsub => ?_, ?_⟩
  · have := rn_relerr hd (by rw [decRn_quot]; exact hn) hfin
    rw [decRn_quot] at this
    exact this
  · have := (rn_abserr (n := sig * 10 ^ e.toNat) hd (by rw [decRn_quot]; exact hsub)).2
    rw [decRn_quot] at this
    exact this
  · have := rn_err (n := sig * 10 ^ e.toNat) hd hfin
    rw [decRn_quot] at this
    exact this

/-! ## 2. `f64_from_parts` in both builds -/

theorem u_le_c50 : u ≤ c50 := by decide +kernel
theorem eta_le_a1074 : eta ≤ a1074 := by decide +kernel

theorem u_le_cTight : u ≤ cTight := by decide +kernel

/-- `f64_from_parts` with the constants the analysis yields (`cTight = 6 * 2^-53`,
    `aTight = 9/8 * 2^-1075`); used for over-long literals, where the truncation error of the
    scanner comes on top. -/
theorem C05_accuracy_parts_tight (cfg : Cfg) (pos : Bool) (sig : Nat) (e : Int) (s s' : St) (r : Nat)
    (hsig : sig ≤ u64Max)
    (hp : cfg.fast = true → ∀ k, k ≤ 308 → cfg.pow10 k = rn (10 ^ k) 1)
    (h : f64FromParts cfg pos sig e s = .ok r s') :
    ∃ g, r = signed pos g ∧ s' = s ∧ g < infBits ∧
      (dec sig e * (1 - cTight) - aTight ≤ val g ∧ val g ≤ dec sig e * (1 + cTight) + aTight) ∧
      (cfg.fast = false →
        dec sig e * (1 - u) - eta ≤ val g ∧ val g ≤ dec sig e * (1 + u) + eta) := by
  unfold f64FromParts at h
  have hx := dec_nonneg sig e
  by_cases hfast : cfg.fast = true
  · rw [if_pos hfast] at h
    cases hfp : fastParts cfg.pow10 (e.natAbs / 308 + 2) (F64.ofNat sig) e with
    | none => rw [hfp] at h; cases h
    | some f =>
      rw [hfp] at h
      simp only [pure_ok] at h
      injection h with h1 h2
      refine ⟨f, h1.symm, h2.symm, ?_⟩
      by_cases h0 : sig = 0
      · subst h0
        rw [fast_sig_zero] at hfp
        injection hfp with hfp; subst hfp
        have hd : dec 0 e = 0 := by unfold dec; exact Rat.zero_mul _
        rw [hd, val_zero]
        have h1 := eta_pos
        have h2 := eta_le_aTight
        refine ⟨by decide, ⟨?_, ?_⟩, fun hf => ?_⟩
        · grind
        · grind
        · rw [hfast] at hf; cases hf
      · obtain ⟨a, b, c⟩ :=
          C05_accuracy_fast_tight (hp hfast) h0 (by unfold u64Max at hsig; omega) hfp
        exact ⟨a, ⟨b, c⟩, fun hf => by rw [hfast] at hf; cases hf⟩
  · rw [if_neg hfast] at h
    cases hinf : isInf (rnDec sig e) with
    | true => rw [hinf] at h; simp only [if_true] at h; cases h
    | false =>
      rw [hinf] at h; simp only [Bool.false_eq_true, if_false] at h
      have hfin := lt_inf_of_not_isInf (rnDec_le_inf sig e) hinf
      rw [pure_ok] at h
      injection h with h1 h2
      refine ⟨rnDec sig e, h1.symm, h2.symm, hfin, ?_, fun _ => ?_⟩
      · obtain ⟨_, _, b, c⟩ := C05_accuracy_nofast hsig hfin
        have h1 := Rat.mul_le_mul_of_nonneg_left u_le_cTight hx
        have h2 := eta_le_aTight
        constructor <;> grind
      · exact (C05_accuracy_nofast hsig hfin).2.2

/-- **C05_accuracy_parts.**  Whenever `f64_from_parts(pos, sig, e)` succeeds on a `u64`
    significand, the result is `±g` for finite magnitude bits `g` with
    `|g - sig * 10^e| ≤ 2^-50 * sig * 10^e + 2^-1074`; without `fast-float-parsing` even
    `≤ 2^-53 * sig * 10^e + 2^-1075`.  (Fast build: `POW10` correctly rounded.) -/
theorem C05_accuracy_parts (cfg : Cfg) (pos : Bool) (sig : Nat) (e : Int) (s s' : St) (r : Nat)
    (hsig : sig ≤ u64Max)
    (hp : cfg.fast = true → ∀ k, k ≤ 308 → cfg.pow10 k = rn (10 ^ k) 1)
    (h : f64FromParts cfg pos sig e s = .ok r s') :
    ∃ g, r = signed pos g ∧ s' = s ∧ g < infBits ∧
      (dec sig e * (1 - c50) - a1074 ≤ val g ∧ val g ≤ dec sig e * (1 + c50) + a1074) ∧
      (cfg.fast = false →
        dec sig e * (1 - u) - eta ≤ val g ∧ val g ≤ dec sig e * (1 + u) + eta) := by
  obtain ⟨g, h1, h2, h3, ⟨h4, h5⟩, h6⟩ := C05_accuracy_parts_tight cfg pos sig e s s' r hsig hp h
  have := aTight_le
  have := Rat.mul_le_mul_of_nonneg_left cTight_le (dec_nonneg sig e)
  exact ⟨g, h1, h2, h3, ⟨by grind, by grind⟩, h6⟩

/-! ## 3. Literals whose significant digits fit `u64` -/

/-- `(S * 10^t) * 10^E = S * 10^(E + t)` -/
theorem dec_shift (S t : Nat) (E : Int) : dec (S * 10 ^ t) E = dec S (E + (t : Int)) := by
  unfold dec
  rw [Rat.natCast_mul, ten_pow_cast, Rat.zpow_add ten_ne, Rat.zpow_natCast]
  grind

/-- the exact value of the literal: all written digits, scaled by the written exponent and the
    number of fraction digits -/
def litValue (L : DecLit) : Rat := dec L.rawSig L.rawExp

/-- the pair handed to `f64_from_parts` denotes the literal's value -/
theorem litValue_eq (L : DecLit) : dec L.sig L.exp10 = litValue L := by
  obtain ⟨h1, h2⟩ := L.value_eq
  unfold litValue
  rw [← h2, dec_shift]
  congr 1; omega

/-- **C05_accuracy_literal.**  A decimal literal with a fraction and / or an exponent whose
    significant digits fit `u64` (hypotheses of `Decimals.C05_scan_parts`) is consumed entirely
    and either rejected with `NumberOutOfRange`, or read as `±g` where `g` is a finite double with

      `|g - value| ≤ 2^-50 * value + 2^-1074`        (both builds),
      `|g - value| ≤ 2^-53 * value + 2^-1075`        (build without `fast-float-parsing`),

    `value = litValue L` the exact value of the written digits. -/
theorem C05_accuracy_literal (cfg : Cfg) (fuel : Nat) (pos : Bool) (L : DecLit) (rest : List UInt8)
    (s : St) (hwf : L.WF) (hrest : s.rd.rest = L.text ++ rest) (hstop : ScanStop rest)
    (hf : rest = [] → s.rd.faulty = false) (hS : L.sig ≤ u64Max) (hsmall : L.Small)
    (hfuel : L.text.length + 1 ≤ fuel)
    (hp : cfg.fast = true → ∀ k, k ≤ 308 → cfg.pow10 k = rn (10 ^ k) 1) :
    (∃ g, parseNumLiteral cfg fuel 10 pos s =
        .ok (Number.flt (signed pos g)) (adv s L.text.length (endPeek s rest)) ∧
      g < infBits ∧
      (litValue L * (1 - c50) - a1074 ≤ val g ∧ val g ≤ litValue L * (1 + c50) + a1074) ∧
      (cfg.fast = false →
        litValue L * (1 - u) - eta ≤ val g ∧ val g ≤ litValue L * (1 + u) + eta)) ∨
    parseNumLiteral cfg fuel 10 pos s =
      errAt .numberOutOfRange (adv s L.text.length (endPeek s rest)) := by
  rw [scan_lit cfg fuel pos L rest s hwf hrest hstop hf hS hsmall hfuel]
  rcases f64FromParts_cases cfg pos L.sig L.exp10 (adv s L.text.length (endPeek s rest)) with
    ⟨r, hr⟩ | he
  · obtain ⟨g, h1, _, h3, h4, h5⟩ := C05_accuracy_parts cfg pos L.sig L.exp10 _ _ r hS hp hr
    rw [litValue_eq] at h4 h5
    subst h1
    exact Or.inl ⟨g, by simp only [bind_apply, hr, pure_apply, Number.ofF64], h3, h4, h5⟩
  · exact Or.inr (by simp only [bind_apply, he, errAt])

#print axioms C05_accuracy_nofast
#print axioms C05_accuracy_parts
#print axioms C05_accuracy_literal

end Accuracy
end Lexpr
