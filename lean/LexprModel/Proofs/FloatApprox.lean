/-
  FloatApprox — round trip of floats that are not exactly readable (C01 / C13 / C12 / C04 "to the
  accuracy of C05").

  * `floatClose a b`: both doubles finite, same sign bit, `b < 2^64`, and
      `| |b| - |a| | ≤ 2^-50 * |a| + 2^-1073`     (rationals; `cRel`, `cAbs` of `FloatApproxNum`).
  * `Value.approxEq`: same shape, identical leaves, float leaves equal or `floatClose`; reflexive.
  * `RyuSpecOnly cfg ryu b`: `b` is a finite double (`< 2^64`), ryu's text meets `RyuSpec`, and —
    in the build with `fast-float-parsing` only — the `POW10` table is correctly rounded and the
    decimal ryu prints does not exceed `f64::MAX` (`InRange d.m d.e`; true of the shortest form of
    every finite double, needed because `RyuSpec` alone allows `1.7976931348623158e308` for
    `f64::MAX`, which the fast path rejects: `ryuSpecOnly_range_needed`).  No exactness window.
  * `atomRT_float_approx`: under every parser option set and in every follow context the printed
    text is read back by `parse_token` as a float `b'` with `floatClose b b'` (never an error,
    an integer or a symbol); `b' = b` in the build without `fast-float-parsing`.
  * `atomRT_float_approx_1em23`: the case of `Decimals.atomRT_float_window_needed` (`1e-23`, read
    back one ulp up in the default build) is covered: `floatClose` holds, equality does not.
-/
import LexprModel.Proofs.FloatApproxNum
import LexprModel.Proofs.AccuracyEx
import LexprModel.Proofs.FullRT
namespace Lexpr

/-! ## 1. The relation -/

namespace FloatApprox
open Parse F64 Numbers Decimals Accuracy

/-- **floatClose.**  `a`, `b` bit patterns of finite doubles with the same sign whose magnitudes
    differ by at most `2^-50 * |a| + 2^-1073`. -/
def floatClose (a b : Nat) : Prop :=
  isFinite a = true ∧ isFinite b = true ∧ isNeg a = isNeg b ∧ b < 2 ^ 64 ∧
    closeMag (val a) (val b)

/-- the relation on float leaves: equal bits (any double, NaN and infinities included) or
    `floatClose` -/
def floatApprox (a b : Nat) : Prop := a = b ∨ floatClose a b

theorem floatApprox_refl (a : Nat) : floatApprox a a := Or.inl rfl

end FloatApprox

open FloatApprox in
mutual
/-- **Value.approxEq.**  Same structure, identical leaves, except that float leaves are related by
    `floatApprox` (equal, or both finite and within `2^-50` relative + `2^-1073` absolute). -/
def Value.approxEq : Value → Value → Prop
  | .cons a d, w => ∃ a' d', w = .cons a' d' ∧ Value.approxEq a a' ∧ Value.approxEq d d'
  | .vector xs, w => ∃ ys, w = .vector ys ∧ Value.approxEqList xs ys
  | .number (.flt a), w => ∃ b, w = .number (.flt b) ∧ floatApprox a b
  | .number (.pos n), w => w = .number (.pos n)
  | .number (.neg i), w => w = .number (.neg i)
  | .nil, w => w = .nil
  | .null, w => w = .null
  | .bool b, w => w = .bool b
  | .char c, w => w = .char c
  | .string x, w => w = .string x
  | .symbol x, w => w = .symbol x
  | .keyword x, w => w = .keyword x
  | .bytes x, w => w = .bytes x
def Value.approxEqList : List Value → List Value → Prop
  | [], ys => ys = []
  | x :: xs, ys => ∃ y ys', ys = y :: ys' ∧ Value.approxEq x y ∧ Value.approxEqList xs ys'
end

namespace FloatApprox
open Parse F64 Numbers Decimals Accuracy

mutual
theorem approxEq_refl : ∀ v : Value, Value.approxEq v v
  | .cons a d => by
    simp only [Value.approxEq]; exact ⟨a, d, rfl, approxEq_refl a, approxEq_refl d⟩
  | .vector xs => by simp only [Value.approxEq]; exact ⟨xs, rfl, approxEqList_refl xs⟩
  | .number (.flt a) => by simp only [Value.approxEq]; exact ⟨a, rfl, Or.inl rfl⟩
  | .number (.pos n) => by simp only [Value.approxEq]
  | .number (.neg i) => by simp only [Value.approxEq]
  | .nil => by simp only [Value.approxEq]
  | .null => by simp only [Value.approxEq]
  | .bool _ => by simp only [Value.approxEq]
  | .char _ => by simp only [Value.approxEq]
  | .string _ => by simp only [Value.approxEq]
  | .symbol _ => by simp only [Value.approxEq]
  | .keyword _ => by simp only [Value.approxEq]
  | .bytes _ => by simp only [Value.approxEq]
theorem approxEqList_refl : ∀ xs : List Value, Value.approxEqList xs xs
  | [] => by simp only [Value.approxEqList]
  | x :: xs => by
    simp only [Value.approxEqList]; exact ⟨x, xs, rfl, approxEq_refl x, approxEqList_refl xs⟩
end

/-- a value without a float leaf is related to itself only -/
theorem approxEq_atom (v w : Value) (h1 : v.isCons = false) (h2 : v.isVector = false)
    (h3 : ∀ b, v ≠ .number (.flt b)) (h : Value.approxEq v w) : w = v := by
  cases v with
  | cons a d => simp [Value.isCons] at h1
  | vector xs => simp [Value.isVector] at h2
  | number n =>
    cases n with
    | flt b => exact absurd rfl (h3 b)
    | pos n => simpa only [Value.approxEq] using h
    | neg i => simpa only [Value.approxEq] using h
  | _ => simpa only [Value.approxEq] using h

theorem approxEqList_append {xs ys xs' ys' : List Value} (h1 : Value.approxEqList xs xs')
    (h2 : Value.approxEqList ys ys') : Value.approxEqList (xs ++ ys) (xs' ++ ys') := by
  induction xs generalizing xs' with
  | nil => simp only [Value.approxEqList] at h1; subst h1; simpa using h2
  | cons x xs ih =>
    simp only [Value.approxEqList] at h1
    obtain ⟨y, t, rfl, hxy, ht⟩ := h1
    simp only [List.cons_append, Value.approxEqList]
    exact ⟨y, t ++ ys', rfl, hxy, ih ht⟩

theorem approxEqList_length {xs ys : List Value} (h : Value.approxEqList xs ys) :
    xs.length = ys.length := by
  induction xs generalizing ys with
  | nil => simp only [Value.approxEqList] at h; subst h; rfl
  | cons x xs ih =>
    simp only [Value.approxEqList] at h
    obtain ⟨y, t, rfl, _, ht⟩ := h
    simp [ih ht]

/-! ## 2. The hypothesis on the float formatter -/

/-- **RyuSpecOnly.**  `b` is a finite double and ryu's text for it meets `RyuSpec` (the layout of
    a decimal `(m, e)`, 1–17 digits, whose correctly rounded value is `b`).  In the build with
    `fast-float-parsing`, additionally: the `POW10` table holds the correctly rounded powers of ten
    (true of the real table, `Accuracy.tab_rounded`) and the decimal does not exceed `f64::MAX`. -/
def RyuSpecOnly (cfg : Cfg) (ryu : Nat → List UInt8) (b : Nat) : Prop :=
  b < 2 ^ 64 ∧ isFinite b = true ∧ ∃ d : RyuDec, RyuSpec ryu b d ∧
    (cfg.fast = true → (∀ k, k ≤ 308 → cfg.pow10 k = rn (10 ^ k) 1) ∧ InRange d.m d.e)

/-- `FloatOK` (exactly readable) implies `RyuSpecOnly` for finite doubles when the table is
    correctly rounded -/
theorem ryuSpecOnly_of_floatOK (cfg : Cfg) (ryu : Nat → List UInt8) (b : Nat)
    (h : FloatOK cfg ryu b) (hfin : isFinite b = true)
    (hp : cfg.fast = true → ∀ k, k ≤ 308 → cfg.pow10 k = rn (10 ^ k) 1)
    (hr : cfg.fast = true → ∀ d, RyuSpec ryu b d → InRange d.m d.e) : RyuSpecOnly cfg ryu b := by
  obtain ⟨hb, d, hspec, _⟩ := h
  exact ⟨hb, hfin, d, hspec, fun hf => ⟨hp hf, hr hf d hspec⟩⟩

theorem inRange_SE (d : RyuDec) (h : d.WF) (hr : InRange d.m d.e) : InRange d.S d.E := by
  obtain ⟨neg, m, e, layout⟩ := d
  obtain ⟨_, _, hl⟩ := h
  cases layout with
  | intDot0 =>
    have he : 0 ≤ e := hl.1
    unfold InRange at hr ⊢
    simp only [RyuDec.S, RyuDec.E] at hr ⊢
    have h0 : (-e).toNat = 0 := by omega
    rw [h0] at hr
    simpa using hr
  | mid => exact hr
  | small => exact hr
  | sci => exact hr
  | sci1 => exact hr

theorem val_mod (b : Nat) : val (b % signBit) = val b := by
  unfold val decode
  rw [Nat.mod_mod]

theorem finite_mod {b : Nat} (h : isFinite b = true) : b % signBit < infBits := by
  unfold isFinite at h; simpa using h

theorem decode_add_sign (g : Nat) : decode (g + signBit) = decode g := by
  unfold decode
  simp only [Nat.add_mod_right]

theorem val_add_sign (g : Nat) : val (g + signBit) = val g := by
  unfold val; rw [decode_add_sign]

theorem signed_props (pos : Bool) {g : Nat} (hg : g < infBits) :
    isNeg (signed pos g) = !pos ∧ signed pos g < 2 ^ 64 ∧ val (signed pos g) = val g := by
  cases pos
  · have h1 : ¬ (g ≥ signBit) := by simp only [infBits, signBit] at *; omega
    have e : signed false g = g + signBit := by
      unfold signed F64.neg; simp only [Bool.false_eq_true, if_false, h1]
    rw [e]
    refine ⟨?_, by simp only [infBits, signBit] at *; omega, val_add_sign g⟩
    unfold isNeg; simp
  · have e : signed true g = g := by unfold signed; simp
    rw [e]
    refine ⟨?_, by simp only [infBits] at *; omega, rfl⟩
    unfold isNeg; simp only [infBits, signBit] at *; simp; omega

/-! ## 3. The token -/

/-- **atomRT_float_approx.**  For a finite double `b` with `RyuSpecOnly` there is a double `b'`
    with `floatClose b b'` (and `b' = b` in the build without `fast-float-parsing`) such that,
    under every parser option set, in every follow context, from every source mode and state,
    `parse_token` consumes exactly the text ryu wrote and returns `Float(b')` — never an error,
    an integer or a symbol.  (`b'` does not depend on the context.) -/
theorem atomRT_float_approx (cfg : Cfg) (ryu : Nat → List UInt8) (b : Nat)
    (h : RyuSpecOnly cfg ryu b) :
    ∃ b', floatClose b b' ∧ (cfg.fast = false → b' = b) ∧
      ∀ (fuel : Nat) (s : St) (rest : List UInt8) (pk : UInt8),
        s.rd.rest = ryu b ++ rest → (ryu b).head? = some pk → (ryu b).length + 1 ≤ fuel →
        Follow rest → (rest = [] → s.rd.faulty = false) →
        parseToken cfg fuel pk s =
          .ok (.number (.flt b')) (adv s (ryu b).length (endPeek s rest)) := by
  obtain ⟨hb, hfinb, d, ⟨hwf, htext, hsign, hround⟩, hfastc⟩ := h
  have hfacts := d.litFacts hwf
  have hS17 := d.S_lt hwf
  have hSle : d.S ≤ u64Max := Nat.le_of_lt (Nat.lt_of_lt_of_le hS17 (by decide))
  have hrn : decRn d.S d.E = b % signBit := by rw [d.decRn_SE hwf, hround]
  have hBfin := finite_mod hfinb
  obtain ⟨g, hok, hgfin, hclose, hslow⟩ :=
    parts_close cfg (!d.neg) d.S d.E (b % signBit) hS17 hrn hBfin
      (fun hfast => (hfastc hfast).1) (fun hfast => inRange_SE d hwf (hfastc hfast).2)
  have hparts : ∀ u, f64FromParts cfg (!d.neg) d.lit.sig d.lit.exp10 u =
      .ok (signed (!d.neg) g) u := by
    intro u; rw [hfacts.sig, hfacts.exp]; exact hok u
  obtain ⟨sp1, sp2, sp3⟩ := signed_props (!d.neg) hgfin
  have hcl : floatClose b (signed (!d.neg) g) := by
    refine ⟨hfinb, (signed_finite (!d.neg) hgfin).1, ?_, sp2, ?_⟩
    · rw [sp1, Bool.not_not, hsign]
    · rw [sp3, ← val_mod b]; exact hclose
  refine ⟨signed (!d.neg) g, hcl, fun hfast => ?_, ?_⟩
  · rw [hslow hfast, hsign, signed_bits hb]
  · intro fuel s rest pk hrest hpk hfuel hF hf
    rw [htext] at hrest hpk hfuel ⊢
    unfold RyuDec.text at hrest hpk hfuel ⊢
    cases hneg : d.neg with
    | false =>
      simp only [hneg, Bool.false_eq_true, if_false, List.nil_append, Bool.not_false]
        at hrest hpk hfuel hparts ⊢
      exact FullRT.token_lit_pos_any cfg fuel d.lit rest s _ pk hfacts.wf hrest hpk hF hf
        (by rw [hfacts.sig]; exact hSle) hfacts.small hfuel hparts
    | true =>
      simp only [hneg, if_true, List.cons_append, List.nil_append, Bool.not_true,
        List.length_cons, List.head?_cons, Option.some.injEq] at hrest hpk hfuel hparts ⊢
      subst hpk
      exact token_lit_neg cfg fuel d.lit rest s _ hfacts.wf hrest (delimStop_of_follow hF) hf
        (by rw [hfacts.sig]; exact hSle) hfacts.small (by omega) hparts

/-- the first byte of what ryu writes: a digit or `-` -/
theorem float_head (cfg : Cfg) (ryu : Nat → List UInt8) (b : Nat) (h : RyuSpecOnly cfg ryu b) :
    ListRT.ElemHead (ryu b) := by
  obtain ⟨-, -, d, hspec, -⟩ := h
  have hfacts := d.litFacts hspec.wf
  rw [hspec.text_eq]
  unfold RyuDec.text
  obtain ⟨c, tl, hc, hdig⟩ := d.lit.text_head hfacts.wf
  cases d.neg with
  | false =>
    simp only [Bool.false_eq_true, if_false, List.nil_append, hc]
    exact ListRT.head_of_nonterm c tl (digit_head_facts c hdig).1 (digit_head_facts c hdig).2
  | true =>
    simp only [if_true, List.cons_append, List.nil_append]
    exact ListRT.head_of_nonterm 45 _ (by decide) (by decide)

/-- what ryu writes for such a double is ASCII -/
theorem ryuSpecOnly_ascii (cfg : Cfg) (ryu : Nat → List UInt8) (b : Nat)
    (h : RyuSpecOnly cfg ryu b) : ∀ x ∈ ryu b, x < 0x80 := by
  obtain ⟨-, -, d, hspec, -⟩ := h
  have hfacts := d.litFacts hspec.wf
  rw [hspec.text_eq]
  intro x hx
  unfold RyuDec.text at hx
  rcases List.mem_append.mp hx with hx | hx
  · split at hx
    · simp at hx; subst hx; decide
    · simp at hx
  · exact (FullRT.litByte_facts x (FullRT.DecLit.text_bytes d.lit hfacts.wf x hx)).2

/-! ## 4. Examples and witnesses -/

/-- a stand-in for ryu on four doubles outside the exactness window of the default build:
    `1e-23`, `2.5`, `f64::MAX`, `-1.2345678901234568e17` -/
def ryuAx (b : Nat) : List UInt8 :=
  if b = 0x3B282DB34012B251 then asc "1e-23"
  else if b = 0x4004000000000000 then asc "2.5"
  else if b = 0x7FEFFFFFFFFFFFFF then asc "1.7976931348623157e308"
  else if b = 0xC37B69B4BA630F35 then asc "-1.2345678901234568e17"
  else []

/-- the real table is correctly rounded -/
theorem exTab : exCfgFast.fast = true → ∀ k, k ≤ 308 → exCfgFast.pow10 k = rn (10 ^ k) 1 :=
  fun _ => tab_rounded

set_option exponentiation.threshold 2048 in
theorem ryuAx_1em23 : RyuSpecOnly exCfgFast ryuAx 0x3B282DB34012B251 :=
  ⟨by decide, by decide, ⟨false, 1, -23, .sci1⟩,
    ⟨by decide, by decide, by decide, fast_1em23.2⟩, fun h => ⟨exTab h, by decide +kernel⟩⟩

theorem ryuAx_25 : RyuSpecOnly exCfgFast ryuAx 0x4004000000000000 :=
  ⟨by decide, by decide, ⟨false, 25, -1, .mid⟩,
    ⟨by decide, by decide, by decide, by decide +kernel⟩, fun h => ⟨exTab h, by decide +kernel⟩⟩

set_option exponentiation.threshold 2048 in
theorem ryuAx_max : RyuSpecOnly exCfgFast ryuAx 0x7FEFFFFFFFFFFFFF :=
  ⟨by decide, by decide, ⟨false, 17976931348623157, 292, .sci⟩,
    ⟨by decide, by decide, by decide, fast_total_needed.2.2.2.2⟩,
    fun h => ⟨exTab h, fast_total_needed.2.2.2.1⟩⟩

theorem ryuAx_17 : RyuSpecOnly exCfgFast ryuAx 0xC37B69B4BA630F35 :=
  ⟨by decide, by decide, ⟨true, 12345678901234568, 1, .sci⟩,
    ⟨by decide, by decide, by decide, by decide +kernel⟩, fun h => ⟨exTab h, by decide +kernel⟩⟩

/-- non-vacuity: `f64::MAX` followed by `)`, default build -/
example : ∃ b', floatClose 0x7FEFFFFFFFFFFFFF b' ∧
    parseToken exCfgFast 30 49 (exSt (asc "1.7976931348623157e308)")) =
      .ok (.number (.flt b')) (adv (exSt (asc "1.7976931348623157e308)")) 22
        (endPeek (exSt (asc "1.7976931348623157e308)")) (asc ")"))) := by
  obtain ⟨b', h1, _, h3⟩ := atomRT_float_approx exCfgFast ryuAx 0x7FEFFFFFFFFFFFFF ryuAx_max
  exact ⟨b', h1, h3 30 (exSt (asc "1.7976931348623157e308)")) (asc ")") 49 rfl rfl (by decide)
    (Follow.cons (by decide)) (fun _ => rfl)⟩

/-- **atomRT_float_approx_1em23.**  The double of `Decimals.atomRT_float_window_needed`: in the
    default build `1e-23` is read back as the next double up.  `atomRT_float_approx` covers it:
    the double read is `0x3B282DB34012B252`, it is `floatClose` to the original, and it is not
    equal to it. -/
theorem atomRT_float_approx_1em23 (rest : List UInt8) (hF : Follow rest) :
    parseToken exCfgFast (rest.length + 7) 49 (exSt (ryuAx 0x3B282DB34012B251 ++ rest)) =
      .ok (.number (.flt 0x3B282DB34012B252))
        (adv (exSt (ryuAx 0x3B282DB34012B251 ++ rest)) 5
          (endPeek (exSt (ryuAx 0x3B282DB34012B251 ++ rest)) rest)) ∧
    floatClose 0x3B282DB34012B251 0x3B282DB34012B252 ∧
    (0x3B282DB34012B251 : Nat) ≠ 0x3B282DB34012B252 := by
  have hspec : RyuSpec ryuAx 0x3B282DB34012B251 ⟨false, 1, -23, .sci1⟩ :=
    ⟨by decide, by decide, by decide, fast_1em23.2⟩
  have hw := (atomRT_float_window_needed ryuAx hspec rest hF).2
  obtain ⟨b', h2, _, h3⟩ := atomRT_float_approx exCfgFast ryuAx 0x3B282DB34012B251 ryuAx_1em23
  have h1 := h3 (rest.length + 7) (exSt (ryuAx 0x3B282DB34012B251 ++ rest)) rest 49 rfl rfl
    (by simp [ryuAx, asc]) hF (fun _ => rfl)
  rw [hw] at h1
  have : b' = 0x3B282DB34012B252 := by
    injection h1 with h1 _; injection h1 with h1; injection h1 with h1; exact h1.symm
  subst this
  exact ⟨hw, h2, by decide⟩

/-- a formatter that meets `RyuSpec` on `f64::MAX` with the 17-digit decimal just above it -/
def ryuBad (b : Nat) : List UInt8 :=
  if b = 0x7FEFFFFFFFFFFFFF then asc "1.7976931348623158e308" else []

/-- **ryuSpecOnly_range_needed.**  The range condition in `RyuSpecOnly` cannot be dropped in the
    build with `fast-float-parsing`: `ryuBad` meets `RyuSpec` on `f64::MAX`
    (`1.7976931348623158e308` rounds to it), yet the text is rejected with `NumberOutOfRange`
    by `f64_from_parts` (the real `from_str` answers "number out of range" as well). -/
theorem ryuSpecOnly_range_needed :
    RyuSpec ryuBad 0x7FEFFFFFFFFFFFFF ⟨false, 17976931348623158, 292, .sci⟩ ∧
    (∀ s, f64FromParts exCfgFast true 17976931348623158 292 s = errAt .numberOutOfRange s) := by
  refine ⟨⟨by decide, by decide, by decide, fast_total_needed.1⟩, fun s => ?_⟩
  unfold f64FromParts
  simp only [exCfgFast, if_true]
  rw [fast_total_needed.2.2.1]
  rfl

#print axioms approxEq_refl
#print axioms atomRT_float_approx
#print axioms atomRT_float_approx_1em23
#print axioms ryuSpecOnly_range_needed

end FloatApprox
end Lexpr
