/-
  ConcatDatumCopy — a copy of the first part of `DatumValue.lean` (lock-step simulation of the
  datum parser by the value parser: `sim_all`, `sim_nextTop`, `runHistory_toValue`,
  `iterate_toValue`), in the namespace `Lexpr.Parse.Concat.DV` and with `Op.toValue` /
  `Item.toValue` renamed to `Op.toValueC` / `Item.toValueC`.

  Why a copy: `DatumValue.lean` declares `Lexpr.Parse.bind_apply`, which `AtomRT.lean` declares
  too, so `DatumValue.lean` cannot be imported together with `DialectStructRT.lean` (on which
  `Concat.lean` rests).  The statements and proofs below are those of `DatumValue.lean`, unchanged
  except for the names.
-/
import LexprModel.Parse
namespace Lexpr
namespace Parse
namespace Concat
namespace DV

/-! ## Mapping results, and lock-step simulation of parser computations -/

/-- Map the returned value of a parser result; errors (code and position), the residual state,
    panics and fuel exhaustion are kept as they are. -/
def Res.map (f : α → β) : Res α → Res β
  | .ok a s => .ok (f a) s
  | .err e s => .err e s
  | .panic p => .panic p
  | .fuel => .fuel

/-- `m` and `m'` run in lock step: from every state they end the same way, in the same state,
    and the value of `m'` is the `h`-image of the value of `m`. -/
def Sim (h : α → β) (m : P α) (m' : P β) : Prop := ∀ s, Res.map h (m s) = m' s

theorem bind_apply (m : P α) (f : α → P β) (s : St) :
    (m >>= f) s = match m s with
      | .ok a s' => f a s'
      | .err e s' => .err e s'
      | .panic p => .panic p
      | .fuel => .fuel := rfl

theorem pure_apply (a : α) (s : St) : (pure a : P α) s = .ok a s := rfl

theorem Sim.bind {h : α → β} {g : γ → δ} {m : P α} {m' : P β} {f : α → P γ} {f' : β → P δ}
    (hm : Sim h m m') (hf : ∀ a, Sim g (f a) (f' (h a))) : Sim g (m >>= f) (m' >>= f') := by
  intro s
  have := hm s
  rw [bind_apply, bind_apply, ← this]
  cases m s <;> simp only [Res.map]
  exact hf _ _

theorem Sim.bind_same {g : γ → δ} {m : P α} {f : α → P γ} {f' : α → P δ}
    (hf : ∀ a, Sim g (f a) (f' a)) : Sim g (m >>= f) (m >>= f') := by
  intro s
  rw [bind_apply, bind_apply]
  cases m s <;> simp only [Res.map]
  exact hf _ _

/-- reading the position on the datum side only does not disturb the simulation -/
theorem Sim.getPos_left {g : γ → δ} {f : Pos → P γ} {m' : P δ}
    (hf : ∀ p, Sim g (f p) m') : Sim g (getPos >>= f) m' := by
  intro s
  exact hf _ s

theorem Sim.pure {h : α → β} {a : α} {b : β} (hab : h a = b) :
    Sim h (pure a : P α) (pure b) := by
  intro s; simp only [pure_apply, Res.map, hab]

theorem Sim.peekErr {h : α → β} (c : Code) : Sim h (peekErr c) (peekErr c) := fun _ => rfl
theorem Sim.panicAt {h : α → β} (p : Site) : Sim h (panicAt p) (panicAt p) := fun _ => rfl
theorem Sim.outOfFuel {h : α → β} : Sim h outOfFuel outOfFuel := fun _ => rfl
theorem Sim.liftError {h : α → β} (e : Err) :
    Sim h (liftExcept (.error e)) (liftExcept (.error e)) := fun _ => rfl

theorem Sim.attempt {h : α → β} {m : P α} {m' : P β} (hm : Sim h m m') :
    Sim (Except.map h) (attempt m) (attempt m') := by
  intro s
  have := hm s
  simp only [Parse.attempt, ← this]
  cases m s <;> simp only [Res.map, Except.map]

theorem Sim.ite {h : α → β} {c : Prop} [Decidable c] {a b : P α} {a' b' : P β}
    (ht : Sim h a a') (he : Sim h b b') :
    Sim h (if c then a else b) (if c then a' else b') := by
  split
  · exact ht
  · exact he

/-- the value a `parse_list_meta` result stands for: `None` is the empty list -/
def listVal : Option (Value × SpanInfo × SpanInfo) → Value
  | none => Value.null
  | some (v, _, _) => v

theorem sim_all (cfg : Cfg) : ∀ fuel : Nat,
    Sim (Option.map Datum.value) (nextDatum cfg fuel) (nextValue cfg fuel) ∧
    (∀ term acc ms, Sim listVal (parseListMeta cfg fuel term acc ms) (parseList cfg fuel term acc)) ∧
    (∀ term acc ms,
      Sim Prod.fst (parseVectorMeta cfg fuel term acc ms) (parseVector cfg fuel term acc)) := by
  intro fuel
  induction fuel with
  | zero =>
    refine ⟨?_, ?_, ?_⟩
    · rw [nextDatum, nextValue]; exact Sim.outOfFuel
    · intro term acc ms; rw [parseListMeta, parseList]; exact Sim.outOfFuel
    · intro term acc ms; rw [parseVectorMeta, parseVector]; exact Sim.outOfFuel
  | succ f ih =>
    obtain ⟨ihD, ihL, ihV⟩ := ih
    refine ⟨?_, ?_, ?_⟩
    · rw [nextDatum, nextValue]
      refine Sim.bind_same ?_
      intro ws
      cases ws with
      | none => exact Sim.pure rfl
      | some pk =>
        dsimp only
        refine Sim.getPos_left ?_
        intro start
        refine Sim.bind_same ?_
        intro tf
        refine Sim.bind_same ?_
        intro tok
        have atomCase : ∀ t : Token, Sim (Option.map Datum.value)
            (match t.atom with
              | some v => do
                let stop ← getPos
                pure (some ({ value := v, info := SpanInfo.prim { start := start, stop := stop } } : Datum))
              | none => panicAt Site.unreachable)
            (match t.atom with
              | some v => pure (some v)
              | none => panicAt Site.unreachable) := by
          intro t
          cases t.atom with
          | none => exact Sim.panicAt _
          | some v => exact Sim.getPos_left (fun _ => Sim.pure rfl)
        cases tok with
        | byteVecOpen close =>
          dsimp only
          refine Sim.bind_same ?_
          intro bs
          exact Sim.getPos_left (fun _ => Sim.pure rfl)
        | vecOpen close =>
          dsimp only
          refine Sim.bind_same ?_
          intro _
          refine Sim.bind (Sim.attempt (ihV close [] [])) ?_
          intro ret
          refine Sim.bind_same ?_
          intro _
          refine Sim.bind_same ?_
          intro es
          rcases ret with e | ⟨xs, ms⟩ <;> rcases es with e' | ⟨⟩ <;> simp only [Except.map]
          · exact Sim.liftError _
          · exact Sim.liftError _
          · exact Sim.liftError _
          · exact Sim.getPos_left (fun _ => Sim.pure rfl)
        | listOpen close =>
          dsimp only
          refine Sim.bind_same ?_
          intro _
          refine Sim.bind (Sim.attempt (ihL close [] [])) ?_
          intro ret
          refine Sim.bind_same ?_
          intro _
          refine Sim.bind_same ?_
          intro es
          rcases ret with e | _ | ⟨v, c, d⟩ <;> rcases es with e' | ⟨⟩ <;>
            simp only [Except.map, listVal]
          · exact Sim.liftError _
          · exact Sim.liftError _
          · exact Sim.liftError _
          · exact Sim.getPos_left (fun _ => Sim.pure rfl)
          · exact Sim.liftError _
          · exact Sim.getPos_left (fun _ => Sim.pure rfl)
        | quotation q =>
          dsimp only
          refine Sim.getPos_left ?_
          intro tokenEnd
          refine Sim.bind_same ?_
          intro _
          refine Sim.bind (Sim.attempt ihD) ?_
          intro ret
          refine Sim.bind_same ?_
          intro _
          rcases ret with e | _ | d <;> simp only [Except.map, Option.map]
          · exact Sim.liftError _
          · exact Sim.peekErr _
          · exact Sim.pure rfl
        | null => exact atomCase Token.null
        | nil => exact atomCase Token.nil
        | bool b => exact atomCase (Token.bool b)
        | char c => exact atomCase (Token.char c)
        | number n => exact atomCase (Token.number n)
        | symbol s => exact atomCase (Token.symbol s)
        | keyword s => exact atomCase (Token.keyword s)
        | string s => exact atomCase (Token.string s)
        | bytes b => exact atomCase (Token.bytes b)
    · intro term acc ms
      rw [parseListMeta, parseList]
      refine Sim.bind_same ?_
      intro ws
      cases ws with
      | none => exact Sim.peekErr _
      | some c =>
        dsimp only
        refine Sim.ite (Sim.ite (Sim.peekErr _) ?_) (Sim.ite ?_ ?_)
        · by_cases hacc : acc.isEmpty = true
          · have : acc = [] := by simpa using hacc
            subst this
            simp only [List.isEmpty_nil, if_true]
            exact Sim.pure rfl
          · simp only [hacc]
            exact Sim.pure rfl
        · refine Sim.getPos_left ?_
          intro start
          refine Sim.bind_same ?_
          intro _
          refine Sim.bind_same ?_
          intro nxt
          refine Sim.ite (Sim.ite ?_ ?_) ?_
          · refine Sim.bind_same ?_
            intro pk
            cases pk with
            | none => exact Sim.peekErr _
            | some _ => exact Sim.peekErr _
          · refine Sim.bind (h := Datum.value) ?_ ?_
            · refine Sim.bind ihD ?_
              intro od
              cases od with
              | none => exact Sim.peekErr _
              | some d => exact Sim.pure rfl
            · intro tail
              refine Sim.bind_same ?_
              intro ws
              cases ws with
              | none => exact Sim.peekErr _
              | some c' => exact Sim.ite (Sim.pure rfl) (Sim.peekErr _)
          · refine Sim.bind_same ?_
            intro name
            refine Sim.getPos_left ?_
            intro stop
            exact ihL _ _ _
        · refine Sim.bind ihD ?_
          intro od
          cases od with
          | none => exact Sim.peekErr _
          | some d => exact ihL _ _ _
    · intro term acc ms
      rw [parseVectorMeta, parseVector]
      refine Sim.bind_same ?_
      intro ws
      cases ws with
      | none => exact Sim.peekErr _
      | some c =>
        dsimp only
        refine Sim.ite (Sim.ite (Sim.peekErr _) (Sim.pure rfl)) ?_
        refine Sim.bind ihD ?_
        intro od
        cases od with
        | none => exact Sim.peekErr _
        | some d => exact ihV _ _ _

theorem sim_nextTop (cfg : Cfg) :
    Sim (Option.map Datum.value) (nextDatumTop cfg) (nextValueTop cfg) := by
  unfold nextDatumTop nextValueTop
  exact Sim.bind_same (fun f => (sim_all cfg f).1)

theorem sim_expect (cfg : Cfg) : Sim Datum.value (expectDatum cfg) (expectValue cfg) := by
  unfold expectDatum expectValue
  refine Sim.bind (sim_nextTop cfg) ?_
  intro od
  cases od with
  | none => exact Sim.peekErr _
  | some d => exact Sim.pure rfl

theorem sim_fromTrait (cfg : Cfg) : Sim Datum.value (fromTraitDatum cfg) (fromTrait cfg) := by
  unfold fromTraitDatum fromTrait
  refine Sim.bind (sim_expect cfg) ?_
  intro d
  exact Sim.bind_same (fun _ => Sim.pure rfl)

/-! ## Call histories -/

/-- the value-API call corresponding to a datum-API call -/
def _root_.Lexpr.Parse.Op.toValueC : Op → Op
  | .nextDatum => .nextValue
  | .datumIterNext => .valueIterNext
  | .expectDatum => .expectValue
  | op => op

/-- forget the spans of a returned item -/
def _root_.Lexpr.Parse.Item.toValueC : Item → Item
  | .datum d => .value d.value
  | it => it

theorem stepOp_toValue (cfg : Cfg) (op : Op) (s : St) :
    stepOp cfg op.toValueC s = ((stepOp cfg op s).1.toValueC, (stepOp cfg op s).2) := by
  have hN := sim_nextTop cfg s
  have hE := sim_expect cfg s
  cases op <;> simp only [Op.toValueC, stepOp]
  · cases nextValueTop cfg s with
    | ok a s' => cases a <;> rfl
    | _ => rfl
  · rw [← hN]
    cases nextDatumTop cfg s with
    | ok a s' => cases a <;> rfl
    | _ => rfl
  · cases expectValue cfg s <;> rfl
  · rw [← hE]
    cases expectDatum cfg s <;> rfl
  · cases expectEnd s <;> rfl
  · cases nextValueTop cfg s with
    | ok a s' => cases a <;> rfl
    | _ => rfl
  · rw [← hN]
    cases nextDatumTop cfg s with
    | ok a s' => cases a <;> rfl
    | _ => rfl
  · cases nextValueTop cfg s with
    | ok a s' => cases a <;> rfl
    | _ => rfl

theorem runHistory_toValue (cfg : Cfg) (ops : List Op) (s : St) :
    runHistory cfg (ops.map Op.toValueC) s = (runHistory cfg ops s).map Item.toValueC := by
  induction ops generalizing s with
  | nil => rfl
  | cons op ops ih =>
    simp only [List.map_cons, runHistory, stepOp_toValue]
    rcases stepOp cfg op s with ⟨it, _ | s'⟩
    · rfl
    · simp only [List.map_cons, ih]

theorem _root_.Lexpr.Parse.Item.toValueC_eq_none (it : Item) : it.toValueC = .none_ ↔ it = .none_ := by
  cases it <;> simp [Item.toValueC]

theorem iterate_toValue (cfg : Cfg) (op : Op) (cap : Nat) (s : St) :
    iterate cfg op.toValueC cap s = (iterate cfg op cap s).map Item.toValueC := by
  induction cap generalizing s with
  | zero => rfl
  | succ cap ih =>
    simp only [iterate, stepOp_toValue]
    rcases stepOp cfg op s with ⟨it, os⟩
    cases it <;> cases os <;> simp [Item.toValueC, ih]

end DV
end Concat
end Parse
end Lexpr
