/-
  Truncation (C19): `next_datum`, `parse_list_meta`, `parse_vector_meta`.
-/
import LexprModel.Proofs.TruncValue
set_option linter.unusedSimpArgs false
namespace Lexpr
namespace Parse
namespace Trunc
open PrefixDet (Sim ext Scanner digitsLen scan ext_rest ext_consume)

section datum
variable {X : Err → Prop} {s : St} {q : List UInt8}

theorem nextDatum_eo {cfg : Cfg} {f : Nat} (h0 : s.rd.rest = []) :
    EO X (nextDatum cfg f) s (fun a s1 => a = none ∧ s1.depth = s.depth) := by
  cases f with
  | zero => exact EO.outOfFuel
  | succ f =>
    unfold nextDatum
    refine EO.bind (parseWhitespace_eo h0) (fun a s1 h1 ha => ?_)
    obtain ⟨rfl, hd⟩ := ha
    exact EO.pure h1 ⟨rfl, hd⟩

theorem parseListMeta_eo {cfg : Cfg} {f : Nat} {term : UInt8} {acc : List Value}
    {ms : List SpanInfo} (h0 : s.rd.rest = []) :
    EO X (parseListMeta cfg f term acc ms) s (fun _ _ => False) := by
  cases f with
  | zero => exact EO.outOfFuel
  | succ f =>
    unfold parseListMeta
    refine EO.bind (parseWhitespace_eo h0) (fun a s1 h1 ha => ?_)
    obtain ⟨rfl, _⟩ := ha
    exact EO.peekErrSoft (by decide)

theorem parseVectorMeta_eo {cfg : Cfg} {f : Nat} {term : UInt8} {acc : List Value}
    {ms : List SpanInfo} (h0 : s.rd.rest = []) :
    EO X (parseVectorMeta cfg f term acc ms) s (fun _ _ => False) := by
  cases f with
  | zero => exact EO.outOfFuel
  | succ f =>
    unfold parseVectorMeta
    refine EO.bind (parseWhitespace_eo h0) (fun a s1 h1 ha => ?_)
    obtain ⟨rfl, _⟩ := ha
    exact EO.peekErrSoft (by decide)

theorem tailDatum_eo {cfg : Cfg} {f : Nat} (h0 : s.rd.rest = []) :
    EO X (do match (← nextDatum cfg f) with
          | some d => pure d
          | none => peekErr .eofValue : P Datum) s (fun _ _ => False) := by
  refine EO.bind (nextDatum_eo h0) (fun a s1 h1 ha => ?_)
  obtain ⟨rfl, _⟩ := ha
  exact EO.peekErrSoft (by decide)

theorem getPos_enter_notOk {β : Type} {f : Pos → Unit → P β} {x : St}
    (hd : (x.depth == 0) = false) (h1 : (x.depth - 1 == 0) = true) :
    NotOk ((getPos >>= fun p => enter >>= f p) x) := by
  rw [bind_eq]
  unfold getPos
  simp only [rbind]
  exact enter_notOk hd h1

theorem datum_ts (cfg : Cfg) (hq : q ≠ []) : ∀ f f' : Nat, f ≤ f' →
    (∀ s, TS (XR cfg s.rd.rest) QT (nextDatum cfg f) (nextDatum cfg f') s q) ∧
    (∀ s term acc ms, TS (XR cfg s.rd.rest) QF (parseListMeta cfg f term acc ms)
      (parseListMeta cfg f' term acc ms) s q) ∧
    (∀ s term acc ms, TS (XR cfg s.rd.rest) QF (parseVectorMeta cfg f term acc ms)
      (parseVectorMeta cfg f' term acc ms) s q) := by
  intro f
  induction f with
  | zero =>
    intro f' _
    exact ⟨fun _ => TS.fuel0 rfl, fun _ _ _ _ => TS.fuel0 rfl, fun _ _ _ _ => TS.fuel0 rfl⟩
  | succ f ih =>
    intro f' h
    obtain ⟨g, rfl⟩ : ∃ g, f' = g + 1 := ⟨f' - 1, by omega⟩
    have ih' := ih g (by omega)
    refine ⟨fun s => ?_, fun s term acc ms => ?_, fun s term acc ms => ?_⟩
    · unfold nextDatum
      refine TS.bindM XR.mono (parseWhitespace_t hq) (fun o s1 _ _ => ?_) (fun o s1 _ h0 ho => ?_)
      · cases o with
        | none => exact TS.pure
        | some pk =>
          dsimp only
          refine TS.bindFM XR.mono getPos_t (fun start s1' _ _ => ?_)
          refine TS.bind_tokenFuel (fun n n' hn => ?_)
          refine TS.bindM XR.mono (parseToken_t hq (XR.noor _ _) hn)
            (fun tok s2 _ _ => ?_) (fun tok s2 htok h0 hqt => ?_)
          · cases tok with
            | byteVecOpen close =>
              dsimp only
              refine TS.bindFM XR.mono (parseByteList_t hq (XR.noor _ _) hn) (fun _ _ _ _ => ?_)
              exact TS.bindFM XR.mono getPos_t (fun _ _ _ _ => TS.pure)
            | vecOpen close =>
              dsimp only
              refine TS.bindFM XR.mono enter_t (fun _ s3 _ _ => ?_)
              refine TS.bind_attemptM XR.mono (ih'.2.2 s3 close [] []) (fun xs s4 _ _ => ?_)
                (fun _ _ _ _ h => h.elim) (reraises_leave ?_) (reraises_leave ?_)
              · refine TS.bindFM XR.mono leave_t (fun _ s5 _ _ => ?_)
                obtain ⟨xs, ms⟩ := xs
                refine TS.bind_attemptM XR.mono (endSeq_t hq) (fun u s6 _ _ => ?_)
                  (fun _ _ _ _ h => h.elim) (fun e x => ?_) (fun e x => ?_)
                · cases u
                  exact TS.bindFM XR.mono getPos_t (fun _ _ _ _ => TS.pure)
                · rfl
                · rfl
              · intro e es x; cases es <;> rfl
              · intro e es x; cases es <;> rfl
            | listOpen close =>
              dsimp only
              refine TS.bindFM XR.mono enter_t (fun _ s3 _ _ => ?_)
              refine TS.bind_attemptM XR.mono (ih'.2.1 s3 close [] []) (fun r s4 _ _ => ?_)
                (fun _ _ _ _ h => h.elim) (reraises_leave ?_) (reraises_leave ?_)
              · refine TS.bindFM XR.mono leave_t (fun _ s5 _ _ => ?_)
                cases r with
                | none =>
                  refine TS.bind_attemptM XR.mono (endSeq_t hq) (fun u s6 _ _ => ?_)
                    (fun _ _ _ _ h => h.elim) (fun e x => ?_) (fun e x => ?_)
                  · cases u
                    exact TS.bindFM XR.mono getPos_t (fun _ _ _ _ => TS.pure)
                  · rfl
                  · rfl
                | some r =>
                  obtain ⟨v, c, d⟩ := r
                  refine TS.bind_attemptM XR.mono (endSeq_t hq) (fun u s6 _ _ => ?_)
                    (fun _ _ _ _ h => h.elim) (fun e x => ?_) (fun e x => ?_)
                  · cases u
                    exact TS.bindFM XR.mono getPos_t (fun _ _ _ _ => TS.pure)
                  · rfl
                  · rfl
              · intro e es x; cases es <;> rfl
              · intro e es x; cases es <;> rfl
            | quotation qt =>
              dsimp only
              refine TS.bindFM XR.mono getPos_t (fun tokenEnd s2' _ _ => ?_)
              refine TS.bindFM XR.mono enter_t (fun _ s3 _ _ => ?_)
              refine TS.bind_attemptM XR.mono (ih'.1 s3) (fun d s4 _ _ => ?_)
                (fun d s4 _ h0 _ => ?_) (fun e x => ?_) (fun e x => ?_)
              · refine TS.bindFM XR.mono leave_t (fun _ s5 _ _ => ?_)
                cases d with
                | none => exact TS.peekErr
                | some d => exact TS.pure
              · refine TE.bind_leave (fun s5 h5 => ?_)
                cases d with
                | none => exact TE.peekErrSoft (by decide)
                | some d => exact TE.pure (h5.trans h0) trivial
              · rfl
              · rfl
            | _ => exact TS.bindFM XR.mono getPos_t (fun _ _ _ _ => TS.pure)
          · rcases hqt with hat | ⟨qt, qt', s', rfl, hr', hd'⟩
            · cases tok <;> first
                | exact TE.bind_getPos (TE.pure h0 trivial)
                | (exfalso; simp [Token.atom] at hat)
            · dsimp only
              rw [hr']
              simp only [rbind]
              refine TE.bind_getPos ?_
              refine TE.bind_enter (fun hd h1 => getPos_enter_notOk (by rw [hd']; exact hd)
                (by rw [hd']; exact h1)) (fun s3 h3 => ?_)
              refine TE.bind_attempt (nextDatum_eo (h3.trans h0)) (fun d s4 h4 hd4 => ?_)
                (fun e x => rfl)
              obtain ⟨rfl, _⟩ := hd4
              exact TE.bind_leave (fun s5 h5 => TE.peekErrSoft (by decide))
      · cases ho; exact TE.pure h0 trivial
    · unfold parseListMeta
      refine TS.bindM XR.mono (parseWhitespace_t hq) (fun o s1 _ _ => ?_) (fun o s1 _ h0 ho => ?_)
      · cases o with
        | none => exact TS.peekErr
        | some c =>
          dsimp only
          refine TS.ite (fun _ => ?_) (fun _ => TS.ite (fun _ => ?_) (fun _ => ?_))
          · exact TS.ite (fun _ => TS.peekErr) (fun _ => TS.ite (fun _ => TS.pure) (fun _ => TS.pure))
          · -- a dot
            refine TS.bindFM XR.mono getPos_t (fun start s1' _ _ => ?_)
            refine TS.bindFM XR.mono discard_t (fun _ s2 _ _ => ?_)
            refine TS.bindM XR.mono peekOrNull_t (fun nxt s3 _ _ => ?_) (fun nxt s3 _ h0 hn => ?_)
            · refine TS.ite (fun _ => TS.ite (fun _ => ?_) (fun _ => ?_)) (fun _ => ?_)
              · refine TS.bindM XR.mono peek_t (fun o s4 _ _ => ?_) (fun o s4 _ h0 ho => ?_)
                · cases o with
                  | none => exact TS.peekErr
                  | some _ => exact TS.peekErr
                · obtain ⟨rfl, rfl⟩ := ho
                  exact TE.peekErrSoft (by decide)
              · refine TS.bindM XR.mono (Q1 := QT) ?_ (fun tail s4 _ _ => ?_) (fun tail s4 _ h0 _ => ?_)
                · refine TS.bindM XR.mono (ih'.1 s3) (fun o s4 _ _ => ?_) (fun o s4 _ h0 _ => ?_)
                  · cases o with
                    | none => exact TS.peekErr
                    | some v => exact TS.pure
                  · cases o with
                    | none => exact TE.peekErrSoft (by decide)
                    | some v => exact TE.pure h0 trivial
                · refine TS.bindM XR.mono (parseWhitespace_t hq) (fun o s5 _ _ => ?_)
                    (fun o s5 _ h0 ho => ?_)
                  · cases o with
                    | none => exact TS.peekErr
                    | some c' => exact TS.ite (fun _ => TS.pure) (fun _ => TS.peekErr)
                  · cases ho; exact TE.peekErrSoft (by decide)
                · refine TE.bind (parseWhitespace_eo h0) (fun o s5 h5 ho => ?_)
                  obtain ⟨rfl, _⟩ := ho
                  exact TE.peekErrSoft (by decide)
              · refine TS.bindM XR.mono ((parseSymbolBytes_t hq).toQT) (fun name s4 _ _ => ?_)
                  (fun name s4 _ h0 _ => ?_)
                · exact TS.bindFM XR.mono getPos_t (fun stop s4' _ _ => ih'.2.1 s4' term _ _)
                · exact TE.bind_getPos (TE.ofEO (parseListMeta_eo h0) (fun _ _ _ h => h.elim))
            · obtain ⟨rfl, rfl⟩ := hn
              simp (decide := true) only [Bool.true_or, ↓reduceIte]
              refine TE.ite (fun _ => ?_) (fun _ => ?_)
              · exact TE.bind_peek h0 (TE.peekErrSoft (by decide))
              · exact TE.bind (tailDatum_eo h0) (fun _ _ _ h => h.elim)
          · refine TS.bindM XR.mono (ih'.1 s1) (fun o s2 _ _ => ?_) (fun o s2 _ h0 _ => ?_)
            · cases o with
              | none => exact TS.peekErr
              | some v => exact ih'.2.1 s2 term _ _
            · cases o with
              | none => exact TE.peekErrSoft (by decide)
              | some v => exact TE.ofEO (parseListMeta_eo h0) (fun _ _ _ h => h.elim)
      · cases ho; exact TE.peekErrSoft (by decide)
    · unfold parseVectorMeta
      refine TS.bindM XR.mono (parseWhitespace_t hq) (fun o s1 _ _ => ?_) (fun o s1 _ h0 ho => ?_)
      · cases o with
        | none => exact TS.peekErr
        | some c =>
          dsimp only
          refine TS.ite (fun _ => ?_) (fun _ => ?_)
          · exact TS.ite (fun _ => TS.peekErr) (fun _ => TS.pure)
          · refine TS.bindM XR.mono (ih'.1 s1) (fun o s2 _ _ => ?_) (fun o s2 _ h0 _ => ?_)
            · cases o with
              | none => exact TS.peekErr
              | some v => exact ih'.2.2 s2 term _ _
            · cases o with
              | none => exact TE.peekErrSoft (by decide)
              | some v => exact TE.ofEO (parseVectorMeta_eo h0) (fun _ _ _ h => h.elim)
      · cases ho; exact TE.peekErrSoft (by decide)

end datum
end Trunc
end Parse
end Lexpr
