/-
  C06 — the three input sources (str / slice / io) agree.

  Layout: `SymTerm.lean` (the two terminator tables), `Rel.lean` (relational logic for the parser
  monad and the generic congruence proof), `Hist.lean` (entry points and call histories),
  `SliceIo.lean` (slice vs. stream source), `Utf8Lemmas.lean` + `StrSlice.lean` (`&str` vs. slice),
  `Fault.lean` (read faults on the stream source).  This file collects the main statements.
-/
import LexprModel.Proofs.SliceIo
import LexprModel.Proofs.StrSlice
import LexprModel.Proofs.Fault
namespace Lexpr
namespace Parse

/-! ## Witnesses: why the statements are not stronger -/

/-- a configuration for concrete runs -/
def witnessCfg : Cfg := { opts := Options.default, isAlphabetic := fun _ => false, pow10 := fun _ => 0 }

/-- Slice and stream source do *not* agree on error positions: on `#qz` the slice parser reports
    `ExpectedSomeIdent` at column 3 (`peek_position` looks one byte ahead), the stream parser at
    column 2 (nothing is in its lookahead slot).  Hence `ErrSim` compares codes only. -/
example :
    (match nextValue witnessCfg 3 (initSt .slice [35, 113, 122]) with | .err e _ => some e | _ => none)
      = some (.syntax .expectedSomeIdent 1 3) ∧
    (match nextValue witnessCfg 3 (initSt .io [35, 113, 122]) with | .err e _ => some e | _ => none)
      = some (.syntax .expectedSomeIdent 1 2) := by decide

/-- Without the UTF-8 hypothesis the `&str` source (whose model state may hold arbitrary bytes)
    and the slice source differ: `from_utf8_unchecked` returns what `as_str` rejects. -/
example :
    (match parseSymbolBytes [] (initSt .str [97, 255]) with | .ok n _ => some n | _ => none)
      = some [97, 255] ∧
    (match parseSymbolBytes [] (initSt .slice [97, 255]) with | .err e _ => some e | _ => none)
      = some (.syntax .invalidUnicodeCodePoint 1 2) := by decide

/-- `discard` on an exhausted reader panics even when the reader is faulty (the model has no
    `Err.io` there): the fault statements about computations that start with `discard` therefore
    assume that the faulty reader still holds a byte, as it does after a successful `peek`. -/
example : (match discard (initSt .io [] true) with | .panic p => some p | _ => none)
    = some .discardAtEof := by decide

/-! ## Main theorems -/

/-- **symTerm_eq**: `SliceRead::parse_symbol_bytes` and `IoRead::parse_symbol_bytes` stop at the
    same bytes (in the model the two tables are literally the same expression). -/
theorem C06_symTerm_eq : ∀ b : UInt8, symTermSlice b = symTermIo b := symTermSlice_eq_io

example : symTermSlice 59 = true ∧ symTermIo 59 = true ∧ symTermSlice 97 = symTermIo 97 := by decide

/-- **C06 (slice/io), `next_value`**: on similar states the slice parser and the stream parser
    return the same value (or the same error code, the same panic, both run out of fuel) and
    end in similar states. -/
theorem C06_slice_io_value (cfg : Cfg) (fuel : Nat) {s₁ s₂ : St} (h : Sim s₁ s₂) :
    ResSim (nextValue cfg fuel s₁) (nextValue cfg fuel s₂) :=
  (resSim_iff _ _).2 ((Gen.nextValue cfg fuel).app _ _ h)

/-- **C06 (slice/io), `next_datum`**: values *and spans* are equal. -/
theorem C06_slice_io_datum (cfg : Cfg) (fuel : Nat) {s₁ s₂ : St} (h : Sim s₁ s₂) :
    ResSim (nextDatum cfg fuel s₁) (nextDatum cfg fuel s₂) :=
  (resSim_iff _ _).2 ((Gen.nextDatum cfg fuel).app _ _ h)

/-- **C06 (slice/io), `expect_end`**. -/
theorem C06_slice_io_expectEnd {s₁ s₂ : St} (h : Sim s₁ s₂) :
    ResSim (expectEnd s₁) (expectEnd s₂) :=
  (resSim_iff _ _).2 (Gen.expectEnd.app _ _ h)

/-- **C06 (slice/io), `from_trait`** (`from_slice` vs `from_reader`). -/
theorem C06_slice_io_fromTrait (cfg : Cfg) {s₁ s₂ : St} (h : Sim s₁ s₂) :
    ResSim (fromTrait cfg s₁) (fromTrait cfg s₂) :=
  (resSim_iff _ _).2 ((Gen.fromTrait cfg).app _ _ h)

/-- **C06 (slice/io), `datum::from_trait`**. -/
theorem C06_slice_io_fromTraitDatum (cfg : Cfg) {s₁ s₂ : St} (h : Sim s₁ s₂) :
    ResSim (fromTraitDatum cfg s₁) (fromTraitDatum cfg s₂) :=
  (resSim_iff _ _).2 ((Gen.fromTraitDatum cfg).app _ _ h)

/-- **C06 (slice/io), call histories**: any sequence of API calls on the two parsers returns
    the same items, up to the positions inside errors. -/
theorem C06_slice_io_history (cfg : Cfg) (ops : List Op) {s₁ s₂ : St} (h : Sim s₁ s₂) :
    HistRel ErrSim (runHistory cfg ops s₁) (runHistory cfg ops s₂) :=
  runHistory_rel cfg ops h

/-- fresh parsers on the same bytes are similar -/
theorem Sim.init (bytes : List UInt8) : Sim (initSt .slice bytes) (initSt .io bytes) :=
  ⟨rfl, rfl, rfl, rfl, rfl, rfl, rfl, rfl⟩

example (cfg : Cfg) :
    ResSim (fromTrait cfg (initSt .slice (asc "(a . b)"))) (fromTrait cfg (initSt .io (asc "(a . b)"))) :=
  C06_slice_io_fromTrait cfg (Sim.init _)
example (cfg : Cfg) :
    ResSim (nextValue cfg 9 (initSt .slice (asc "#(1 2)"))) (nextValue cfg 9 (initSt .io (asc "#(1 2)"))) :=
  C06_slice_io_value cfg 9 (Sim.init _)
example (cfg : Cfg) :
    ResSim (nextDatum cfg 9 (initSt .slice (asc "'x"))) (nextDatum cfg 9 (initSt .io (asc "'x"))) :=
  C06_slice_io_datum cfg 9 (Sim.init _)
example : ResSim (expectEnd (initSt .slice (asc " ; c"))) (expectEnd (initSt .io (asc " ; c"))) :=
  C06_slice_io_expectEnd (Sim.init _)
example (cfg : Cfg) :
    ResSim (fromTraitDatum cfg (initSt .slice (asc "(a"))) (fromTraitDatum cfg (initSt .io (asc "(a"))) :=
  C06_slice_io_fromTraitDatum cfg (Sim.init _)
example (cfg : Cfg) :
    HistRel ErrSim (runHistory cfg [.nextValue, .expectEnd] (initSt .slice (asc "1 #qz")))
      (runHistory cfg [.nextValue, .expectEnd] (initSt .io (asc "1 #qz"))) :=
  C06_slice_io_history cfg _ (Sim.init _)

/-! ### `&str` versus `&[u8]` -/

/-- **C06 (str/slice), the two unchecked conversions**: `parse_symbol` (`from_utf8_unchecked`
    on the `&str` source, `as_str` on the slice source), at a character boundary and with a
    well-formed scratch prefix: equal results, including error positions. -/
theorem C06_str_slice_parseSymbolBytes (scratch : List UInt8) {s₁ s₂ : St} (h : StrSl s₁ s₂)
    (hv : Utf8.valid s₁.rd.rest = true) (hs : Utf8.valid scratch = true) :
    ResEq (parseSymbolBytes scratch s₁) (parseSymbolBytes scratch s₂) := by
  have hb := StrB.of_valid h hv
  have := (HR.parseSymbolBytes (r0 := s₂.rd.rest) hs (h.rest ▸ hv)).app s₁ s₂ hb rfl
  revert this
  cases parseSymbolBytes scratch s₁ <;> cases parseSymbolBytes scratch s₂ <;>
    simp only [HRes, ResEq] <;> intro h' <;>
    first | exact h'.elim | exact ⟨h'.1, h'.2.1.toStrSl⟩ | exact ⟨h'.1, h'.2.toStrSl⟩ | exact h'

/-- ... and `parse_r6rs_str` (after the opening quote, with an empty scratch buffer). -/
theorem C06_str_slice_parseR6rsStr (fuel : Nat) {s₁ s₂ : St} (h : StrSl s₁ s₂)
    (hv : Utf8.valid s₁.rd.rest = true) :
    ResEq (parseR6rsStr fuel [] s₁) (parseR6rsStr fuel [] s₂) := by
  have hb := StrB.of_valid h hv
  have := (HR.parseR6rsStr (r0 := s₂.rd.rest) fuel [] (Mid.of_valid rfl (h.rest ▸ hv))).app
    s₁ s₂ hb rfl
  revert this
  cases parseR6rsStr fuel [] s₁ <;> cases parseR6rsStr fuel [] s₂ <;>
    simp only [HRes, ResEq] <;> intro h' <;>
    first | exact h'.elim | exact ⟨h'.1, h'.2.1.toStrSl⟩ | exact ⟨h'.1, h'.2.toStrSl⟩ | exact h'

/-- **C06 (str/slice), `next_value`**: on well-formed UTF-8 the `&str` parser (which skips
    validation) and the slice parser return *equal* results, error positions included. -/
theorem C06_str_slice_value (cfg : Cfg) (fuel : Nat) {s₁ s₂ : St} (h : StrSl s₁ s₂)
    (hv : Utf8.valid s₁.rd.rest = true) :
    ResEq (nextValue cfg fuel s₁) (nextValue cfg fuel s₂) :=
  ResEq.of_rel ((PrimsTop.nextValue cfg fuel).app _ _ (StrB.of_valid h hv))

/-- **C06 (str/slice), `next_datum`**. -/
theorem C06_str_slice_datum (cfg : Cfg) (fuel : Nat) {s₁ s₂ : St} (h : StrSl s₁ s₂)
    (hv : Utf8.valid s₁.rd.rest = true) :
    ResEq (nextDatum cfg fuel s₁) (nextDatum cfg fuel s₂) :=
  ResEq.of_rel ((PrimsTop.nextDatum cfg fuel).app _ _ (StrB.of_valid h hv))

/-- **C06 (str/slice), `from_trait`** (`from_str` vs `from_slice`). -/
theorem C06_str_slice_fromTrait (cfg : Cfg) {s₁ s₂ : St} (h : StrSl s₁ s₂)
    (hv : Utf8.valid s₁.rd.rest = true) :
    ResEq (fromTrait cfg s₁) (fromTrait cfg s₂) :=
  ResEq.of_rel ((Gen.fromTrait cfg).app _ _ (StrB.of_valid h hv))

/-- **C06 (str/slice), `datum::from_trait`**. -/
theorem C06_str_slice_fromTraitDatum (cfg : Cfg) {s₁ s₂ : St} (h : StrSl s₁ s₂)
    (hv : Utf8.valid s₁.rd.rest = true) :
    ResEq (fromTraitDatum cfg s₁) (fromTraitDatum cfg s₂) :=
  ResEq.of_rel ((Gen.fromTraitDatum cfg).app _ _ (StrB.of_valid h hv))

/-- **C06 (str/slice), call histories**: any sequence of API calls returns the same items
    (after an error the parser may sit inside a character; the invariant that survives is
    "suffix of well-formed text", which is all the proof needs). -/
theorem C06_str_slice_history (cfg : Cfg) (ops : List Op) {s₁ s₂ : St} (h : StrSl s₁ s₂)
    (hv : Utf8.valid s₁.rd.rest = true) :
    runHistory cfg ops s₁ = runHistory cfg ops s₂ :=
  (runHistory_rel (S := StrB) (E := Eq) cfg ops (StrB.of_valid h hv)).eq

/-- fresh parsers on the same bytes -/
theorem StrSl.init (bytes : List UInt8) : StrSl (initSt .str bytes) (initSt .slice bytes) :=
  ⟨rfl, rfl, rfl⟩

/-- **C06_str_slice**: the `&str` source and the slice source agree, positions included, on
    every sequence of calls, for well-formed input. -/
theorem C06_str_slice (cfg : Cfg) (ops : List Op) (bytes : List UInt8)
    (hv : Utf8.valid bytes = true) :
    runHistory cfg ops (initSt .str bytes) = runHistory cfg ops (initSt .slice bytes) :=
  C06_str_slice_history cfg ops (StrSl.init bytes) hv

example (cfg : Cfg) :
    ResEq (parseSymbolBytes [206, 187] (initSt .str [195, 169, 32])) (parseSymbolBytes [206, 187] (initSt .slice [195, 169, 32])) :=
  C06_str_slice_parseSymbolBytes _ (StrSl.init _) (by decide) (by decide)
example :
    ResEq (parseR6rsStr 9 [] (initSt .str [195, 169, 92, 120, 51, 98, 98, 59, 34]))
      (parseR6rsStr 9 [] (initSt .slice [195, 169, 92, 120, 51, 98, 98, 59, 34])) :=
  C06_str_slice_parseR6rsStr 9 (StrSl.init _) (by decide)
example (cfg : Cfg) :
    ResEq (nextValue cfg 9 (initSt .str [40, 206, 187, 41])) (nextValue cfg 9 (initSt .slice [40, 206, 187, 41])) :=
  C06_str_slice_value cfg 9 (StrSl.init _) (by decide)
example (cfg : Cfg) :
    ResEq (nextDatum cfg 9 (initSt .str [40, 206, 187, 41])) (nextDatum cfg 9 (initSt .slice [40, 206, 187, 41])) :=
  C06_str_slice_datum cfg 9 (StrSl.init _) (by decide)
example (cfg : Cfg) :
    ResEq (fromTrait cfg (initSt .str [34, 195, 169, 34])) (fromTrait cfg (initSt .slice [34, 195, 169, 34])) :=
  C06_str_slice_fromTrait cfg (StrSl.init _) (by decide)
example (cfg : Cfg) :
    ResEq (fromTraitDatum cfg (initSt .str [34, 195, 169, 34])) (fromTraitDatum cfg (initSt .slice [34, 195, 169, 34])) :=
  C06_str_slice_fromTraitDatum cfg (StrSl.init _) (by decide)
example (cfg : Cfg) (ops : List Op) :
    runHistory cfg ops (initSt .str [206, 187, 32, 35, 113]) = runHistory cfg ops (initSt .slice [206, 187, 32, 35, 113]) :=
  C06_str_slice cfg ops _ (by decide)

/-- the bytes of `(λx "é")` -/
example (cfg : Cfg) (ops : List Op) :
    runHistory cfg ops (initSt .str [40, 206, 187, 120, 32, 34, 195, 169, 34, 41]) =
      runHistory cfg ops (initSt .slice [40, 206, 187, 120, 32, 34, 195, 169, 34, 41]) :=
  C06_str_slice_history cfg ops (StrSl.init _) (by decide)

/-! ### read faults on the stream source (stretch) -/

/-- **C06 (faults), primitives**: `peek` and `next` on a reader that fails after the bytes it
    holds either behave as on the fault-free reader or return `Err.io` (never end of input). -/
theorem C06_fault_peek_next {tail : List UInt8} {s₁ s₂ : St} (h : FSim tail s₁ s₂) :
    FRes tail (peek s₁) (peek s₂) ∧ FRes tail (next s₁) (next s₂) :=
  ⟨FRel.peek.app _ _ h, FRel.next.app _ _ h⟩

/-- **C06 (faults), scanners**: whitespace / comment skipping and symbol scanning stop where
    the fault-free reader stops, or run into the cut and report `Err.io`. -/
theorem C06_fault_scanners {tail : List UInt8} (scratch : List UInt8) {s₁ s₂ : St}
    (h : FSim tail s₁ s₂) :
    FRes tail (parseWhitespace s₁) (parseWhitespace s₂) ∧
    FRes tail (parseSymbolBytes scratch s₁) (parseSymbolBytes scratch s₂) ∧
    FRes tail (skipDigits s₁) (skipDigits s₂) :=
  ⟨FRel.parseWhitespace.app _ _ h, (FRel.parseSymbolBytes _).app _ _ h, FRel.skipDigits.app _ _ h⟩

/-- **C06 (faults), tokens**: `parse_token` (same fuel on both sides, called after
    `parse_whitespace` returned the byte `pk`, i.e. the faulty reader still holds a byte):
    the faulty run is the fault-free run or ends in `Err.io`. -/
theorem C06_fault_parseToken {tail : List UInt8} (cfg : Cfg) (fuel : Nat) (pk : UInt8)
    {s₁ s₂ : St} (h : FSim tail s₁ s₂) (hne : s₂.rd.rest ≠ []) :
    FRes tail (parseToken cfg fuel pk s₁) (parseToken cfg fuel pk s₂) :=
  (FRelNE.parseToken cfg fuel pk).app _ _ h hne

/-- **C06 (faults)**: `end_seq`, `expect_end` and byte lists (same fuel). -/
theorem C06_fault_endSeq_expectEnd {tail : List UInt8} (cfg : Cfg) (fuel : Nat) (close : UInt8)
    {s₁ s₂ : St} (h : FSim tail s₁ s₂) :
    FRes tail (endSeq close s₁) (endSeq close s₂) ∧ FRes tail (expectEnd s₁) (expectEnd s₂) ∧
    FRes tail (parseByteList cfg fuel close s₁) (parseByteList cfg fuel close s₂) :=
  ⟨(FRel.endSeq _).app _ _ h, FRel.expectEnd.app _ _ h, (FRel.parseByteList _ _ _).app _ _ h⟩

/-- Reading `FRes`: an `Ok` of the faulty run is the fault-free run's `Ok`; a syntax error of
    the faulty run (e.g. any `Eof*` code) is the fault-free run's error at the same position. -/
theorem C06_fault_reading {tail : List UInt8} {α : Type} {r₁ r₂ : Res α} (h : FRes tail r₁ r₂) :
    (∀ b t, r₂ = .ok b t → ∃ s, r₁ = .ok b s) ∧
    (∀ c l k t, r₂ = .err (.syntax c l k) t → ∃ s, r₁ = .err (.syntax c l k) s) := by
  constructor
  · rintro b t rfl; obtain ⟨s, hs, _⟩ := h.ok_inv; exact ⟨s, hs⟩
  · rintro c l k t rfl; obtain ⟨s, hs, _⟩ := h.syntax_inv; exact ⟨s, hs⟩

example :
    FRes ((asc "ab").drop 1) (peek (initSt .io (asc "ab"))) (peek (initSt .io ((asc "ab").take 1) true)) :=
  (C06_fault_peek_next (FSim.init _ 1)).1
example :
    FRes ((asc "  abc ").drop 4) (parseWhitespace (initSt .io (asc "  abc ")))
      (parseWhitespace (initSt .io ((asc "  abc ").take 4) true)) :=
  (C06_fault_scanners [] (FSim.init _ 4)).1
example (cfg : Cfg) :
    FRes ((asc " )").drop 1) (endSeq 41 (initSt .io (asc " )"))) (endSeq 41 (initSt .io ((asc " )").take 1) true)) :=
  (C06_fault_endSeq_expectEnd cfg 5 41 (FSim.init _ 1)).1
example (cfg : Cfg) :
    ∀ b t, parseToken cfg 10 40 (initSt .io ((asc "(abc def)").take 4) true) = .ok b t →
      ∃ s, parseToken cfg 10 40 (initSt .io (asc "(abc def)")) = .ok b s :=
  (C06_fault_reading (C06_fault_parseToken cfg 10 40 (FSim.init _ 4) (by decide))).1

example (cfg : Cfg) :
    FRes ((asc "(abc def)").drop 4)
      (parseToken cfg 10 40 (initSt .io (asc "(abc def)")))
      (parseToken cfg 10 40 (initSt .io ((asc "(abc def)").take 4) true)) :=
  C06_fault_parseToken cfg 10 40 (FSim.init _ 4) (by decide)

end Parse
end Lexpr
