/-
  Trivia — C12, "inserting or changing trivia between tokens never changes any value":
  the trivia-inserting printer `textT τ`, the statement of the design document
  `parse R (printT τ P v) = parse R (bytes P v)`, a checker for trivia strings, and instances.

  The development is in four files:
   * `TriviaBase.lean`  — `Triv` / `TrivEnd` (trivia strings), `parse_whitespace` over trivia, the
     rounds of the list / vector loops with trivia, the byte-vector variants `BytesVar`;
   * `TriviaBytes.lean` — `parse_byte_list` over trivia (`bytesOKT_of_compat`);
   * `TriviaRel.lean`   — the relation `TV p ryu v t` ("`t` is the text of `v` with trivia inserted
     at token boundaries"), `TVTop` (leading and final trivia), the mutual induction and the
     theorems `trivia_structure`, `C12_trivia`, `C12_trivia_plain`, `C12_trivia_eq`, `tv_plain`;
   * this file          — `textT τ p ryu v`: the printer that inserts `τ i` at the `i`-th token
     boundary (a space where `τ i` is empty and the plain printer writes a space), `tv_textT`
     (its output is a variant), `C12_trivia_printT`, `trivB` (a Boolean checker for `Triv`) and
     the examples.
-/
import LexprModel.Proofs.TriviaRel
namespace Lexpr
namespace Parse
namespace ListRT
open Print Spec

/-! ### a checker for trivia strings -/

mutual
/-- `trivB t`: `t` consists of whitespace bytes and complete comments -/
def trivB : List UInt8 → Bool
  | [] => true
  | b :: bs => if b == 59 then commB bs else (isTrivia b && trivB bs)
/-- inside a comment: a line feed must come, then trivia -/
def commB : List UInt8 → Bool
  | [] => false
  | b :: bs => if b == 10 then trivB bs else commB bs
end

theorem trivB_sound : ∀ t : List UInt8, (trivB t = true → Triv t) ∧
    (commB t = true → ∃ body t', t = body ++ 10 :: t' ∧ (∀ x ∈ body, x ≠ 10) ∧ Triv t')
  | [] => ⟨fun _ => .nil, fun h => by simp [commB] at h⟩
  | b :: bs => by
    obtain ⟨ih1, ih2⟩ := trivB_sound bs
    constructor
    · intro h
      simp only [trivB] at h
      split at h
      · rename_i hb
        have : b = 59 := by simpa using hb
        subst this
        obtain ⟨body, t', rfl, hbody, ht'⟩ := ih2 h
        exact .comment body t' hbody ht'
      · simp only [Bool.and_eq_true] at h
        exact .ws b bs h.1 (ih1 h.2)
    · intro h
      simp only [commB] at h
      split at h
      · rename_i hb
        have : b = 10 := by simpa using hb
        subst this
        exact ⟨[], bs, rfl, by simp, ih1 h⟩
      · rename_i hb
        obtain ⟨body, t', rfl, hbody, ht'⟩ := ih2 h
        refine ⟨b :: body, t', rfl, ?_, ht'⟩
        intro x hx
        simp only [List.mem_cons] at hx
        rcases hx with rfl | hx
        · simpa using hb
        · exact hbody x hx

theorem triv_of_trivB (t : List UInt8) (h : trivB t = true) : Triv t := (trivB_sound t).1 h

/-- final trivia: trivia, then possibly a comment without its line feed -/
theorem trivEnd_of (w body : List UInt8) (hw : trivB w = true) (hb : body.all (· != 10) = true) :
    TrivEnd (w ++ 59 :: body) :=
  ⟨w, 59 :: body, triv_of_trivB w hw, Or.inr ⟨body, by
    intro x hx
    have := List.all_eq_true.1 hb x hx
    simpa using this, rfl⟩, rfl⟩

/-! ### the trivia-inserting printer -/

/-- what is written where the plain printer writes a space: the trivia string, or a space if it
    is empty -/
def sepT (w : List UInt8) : List UInt8 :=
  match w with
  | [] => [32]
  | _ => w

theorem sepT_triv {w : List UInt8} (h : Triv w) : Triv (sepT w) := by
  cases w with
  | nil => exact triv_space
  | cons b t => exact h

theorem sepT_ne (w : List UInt8) : sepT w ≠ [] := by
  cases w <;> simp [sepT]

/-- the octets of a byte vector; returns the text and the next boundary index -/
def octetsT (τ : Nat → List UInt8) : Bool → List UInt8 → Nat → List UInt8 × Nat
  | _, [], n => (τ n, n + 1)
  | first, b :: bs, n =>
    let r := octetsT τ false bs (n + 1)
    ((if first then τ n else sepT (τ n)) ++ (natDigits b.toNat ++ r.1), r.2)

def bytesT (τ : Nat → List UInt8) (p : Print.Options) (bs : List UInt8) (n : Nat) :
    List UInt8 × Nat :=
  match p.bytes with
  | .r6rs =>
    let r := octetsT τ true bs (n + 1)
    (35 :: 118 :: 117 :: 56 :: (τ n ++ 40 :: (r.1 ++ [41])), r.2)
  | .r7rs =>
    let r := octetsT τ true bs (n + 1)
    (35 :: 117 :: 56 :: (τ n ++ 40 :: (r.1 ++ [41])), r.2)
  | .elisp => (34 :: (Print.elispBytesText bs ++ [34]), n)

/-- ` . tx` with the trivia `τ n`, `τ (n+1)` around the dot and `τ m` before the parenthesis -/
def dotT (τ : Nat → List UInt8) (n m : Nat) (tx : List UInt8) : List UInt8 :=
  sepT (τ n) ++ 46 :: (sepT (τ (n + 1)) ++ (tx ++ τ m))

mutual
/-- `emT τ p ryu v n`: the text of `v` with `τ n`, `τ (n+1)`, … inserted at its token boundaries
    in order, and the index of the next unused trivia string -/
def emT (τ : Nat → List UInt8) (p : Print.Options) (ryu : Nat → List UInt8) :
    Value → Nat → List UInt8 × Nat
  | .cons a d, n =>
    let ra := emT τ p ryu a (n + 1)
    let rd := emTailT τ p ryu d ra.2
    (40 :: (τ n ++ (ra.1 ++ (rd.1 ++ [41]))), rd.2)
  | .vector xs, n =>
    let r := emSeqT τ p ryu true xs n
    (vopen p ++ (r.1 ++ [vclose p]), r.2)
  | .null, n => (40 :: (τ n ++ [41]), n + 1)
  | .nil, n => (atomTextP p ryu .nil, n)
  | .bool b, n => (atomTextP p ryu (.bool b), n)
  | .number x, n => (atomTextP p ryu (.number x), n)
  | .char c, n => (atomTextP p ryu (.char c), n)
  | .string x, n => (atomTextP p ryu (.string x), n)
  | .symbol x, n => (atomTextP p ryu (.symbol x), n)
  | .keyword x, n => (atomTextP p ryu (.keyword x), n)
  | .bytes b, n => bytesT τ p b n
def emTailT (τ : Nat → List UInt8) (p : Print.Options) (ryu : Nat → List UInt8) :
    Value → Nat → List UInt8 × Nat
  | .null, n => (τ n, n + 1)
  | .cons a d, n =>
    let ra := emT τ p ryu a (n + 1)
    let rd := emTailT τ p ryu d ra.2
    (sepT (τ n) ++ (ra.1 ++ rd.1), rd.2)
  | .vector xs, n =>
    let r := emSeqT τ p ryu true xs (n + 2)
    (dotT τ n r.2 (vopen p ++ (r.1 ++ [vclose p])), r.2 + 1)
  | .nil, n => (dotT τ n (n + 2) (atomTextP p ryu .nil), n + 3)
  | .bool b, n => (dotT τ n (n + 2) (atomTextP p ryu (.bool b)), n + 3)
  | .number x, n => (dotT τ n (n + 2) (atomTextP p ryu (.number x)), n + 3)
  | .char c, n => (dotT τ n (n + 2) (atomTextP p ryu (.char c)), n + 3)
  | .string x, n => (dotT τ n (n + 2) (atomTextP p ryu (.string x)), n + 3)
  | .symbol x, n => (dotT τ n (n + 2) (atomTextP p ryu (.symbol x)), n + 3)
  | .keyword x, n => (dotT τ n (n + 2) (atomTextP p ryu (.keyword x)), n + 3)
  | .bytes b, n =>
    let r := bytesT τ p b (n + 2)
    (dotT τ n r.2 r.1, r.2 + 1)
def emSeqT (τ : Nat → List UInt8) (p : Print.Options) (ryu : Nat → List UInt8) :
    Bool → List Value → Nat → List UInt8 × Nat
  | _, [], n => (τ n, n + 1)
  | first, x :: xs, n =>
    let rx := emT τ p ryu x (n + 1)
    let rs := emSeqT τ p ryu false xs rx.2
    ((if first then τ n else sepT (τ n)) ++ (rx.1 ++ rs.1), rs.2)
end

/-- **`printT τ P v`** of the design document: the text of `v` with `τ i` at the `i`-th token
    boundary (counted from 0, in text order; where the plain printer writes a space and `τ i` is
    empty, a space is written) -/
def textT (τ : Nat → List UInt8) (p : Print.Options) (ryu : Nat → List UInt8) (v : Value) :
    List UInt8 :=
  (emT τ p ryu v 0).1

theorem octetsT_var (τ : Nat → List UInt8) (hτ : ∀ i, Triv (τ i)) (bs : List UInt8) :
    ∀ (first : Bool) (n : Nat), BElemsT first bs (octetsT τ first bs n).1 := by
  induction bs with
  | nil => intro first n; simp only [octetsT, BElemsT]; exact hτ n
  | cons b bs ih =>
    intro first n
    simp only [octetsT, BElemsT]
    refine ⟨_, _, ?_, ?_, ih false (n + 1), rfl⟩
    · cases first
      · exact sepT_triv (hτ n)
      · exact hτ n
    · intro h; subst h; exact sepT_ne _

theorem bytesT_var (τ : Nat → List UInt8) (hτ : ∀ i, Triv (τ i)) (p : Print.Options)
    (bs : List UInt8) (n : Nat) : BytesVar p bs (bytesT τ p bs n).1 := by
  unfold BytesVar bytesT
  cases p.bytes <;> simp only
  · exact ⟨_, _, hτ n, octetsT_var τ hτ bs true (n + 1), rfl⟩
  · exact ⟨_, _, hτ n, octetsT_var τ hτ bs true (n + 1), rfl⟩

theorem dotT_shape (τ : Nat → List UInt8) (hτ : ∀ i, Triv (τ i)) (n m : Nat) (tx : List UInt8) :
    DotShape tx (dotT τ n m tx) :=
  ⟨_, _, _, sepT_triv (hτ n), sepT_ne _, sepT_triv (hτ (n + 1)), sepT_ne _, hτ m, rfl⟩

mutual
theorem emT_var (τ : Nat → List UInt8) (hτ : ∀ i, Triv (τ i)) (p : Print.Options)
    (ryu : Nat → List UInt8) : ∀ (v : Value) (n : Nat), TV p ryu v (emT τ p ryu v n).1
  | .cons a d, n => by
    simp only [emT, TV]
    exact ⟨_, _, _, hτ n, emT_var τ hτ p ryu a (n + 1), emTailT_var τ hτ p ryu d _, rfl⟩
  | .vector xs, n => by
    simp only [emT, TV]
    exact ⟨_, emSeqT_var τ hτ p ryu true xs n, rfl⟩
  | .null, n => by simp only [emT, TV]; exact ⟨_, hτ n, rfl⟩
  | .nil, n => by simp only [emT, TV]
  | .bool _, n => by simp only [emT, TV]
  | .number _, n => by simp only [emT, TV]
  | .char _, n => by simp only [emT, TV]
  | .string _, n => by simp only [emT, TV]
  | .symbol _, n => by simp only [emT, TV]
  | .keyword _, n => by simp only [emT, TV]
  | .bytes b, n => by simp only [emT, TV]; exact bytesT_var τ hτ p b n
theorem emTailT_var (τ : Nat → List UInt8) (hτ : ∀ i, Triv (τ i)) (p : Print.Options)
    (ryu : Nat → List UInt8) : ∀ (d : Value) (n : Nat), TVTail p ryu d (emTailT τ p ryu d n).1
  | .null, n => by simp only [emTailT, TVTail]; exact hτ n
  | .cons a d, n => by
    simp only [emTailT, TVTail]
    exact ⟨_, _, _, sepT_triv (hτ n), sepT_ne _, emT_var τ hτ p ryu a (n + 1),
      emTailT_var τ hτ p ryu d _, rfl⟩
  | .vector xs, n => by
    simp only [emTailT, TVTail]
    exact ⟨_, emSeqT_var τ hτ p ryu true xs (n + 2), dotT_shape τ hτ _ _ _⟩
  | .nil, n => by simp only [emTailT, TVTail]; exact dotT_shape τ hτ _ _ _
  | .bool _, n => by simp only [emTailT, TVTail]; exact dotT_shape τ hτ _ _ _
  | .number _, n => by simp only [emTailT, TVTail]; exact dotT_shape τ hτ _ _ _
  | .char _, n => by simp only [emTailT, TVTail]; exact dotT_shape τ hτ _ _ _
  | .string _, n => by simp only [emTailT, TVTail]; exact dotT_shape τ hτ _ _ _
  | .symbol _, n => by simp only [emTailT, TVTail]; exact dotT_shape τ hτ _ _ _
  | .keyword _, n => by simp only [emTailT, TVTail]; exact dotT_shape τ hτ _ _ _
  | .bytes b, n => by
    simp only [emTailT, TVTail]
    exact ⟨_, bytesT_var τ hτ p b (n + 2), dotT_shape τ hτ _ _ _⟩
theorem emSeqT_var (τ : Nat → List UInt8) (hτ : ∀ i, Triv (τ i)) (p : Print.Options)
    (ryu : Nat → List UInt8) :
    ∀ (first : Bool) (xs : List Value) (n : Nat), TVSeq p ryu first xs (emSeqT τ p ryu first xs n).1
  | first, [], n => by simp only [emSeqT, TVSeq]; exact hτ n
  | first, x :: xs, n => by
    simp only [emSeqT, TVSeq]
    refine ⟨_, _, _, ?_, ?_, emT_var τ hτ p ryu x (n + 1), emSeqT_var τ hτ p ryu false xs _, rfl⟩
    · cases first
      · exact sepT_triv (hτ n)
      · exact hτ n
    · intro h; subst h; exact sepT_ne _
end

/-- the output of the trivia-inserting printer is a trivia variant of the printed text -/
theorem tv_textT (τ : Nat → List UInt8) (hτ : ∀ i, Triv (τ i)) (p : Print.Options)
    (ryu : Nat → List UInt8) (v : Value) : TV p ryu v (textT τ p ryu v) :=
  emT_var τ hτ p ryu v 0

/-- **C12_trivia_printT** — the formal statement of the design document,
    `theorem C12_trivia (P R …) (τ) : parse R (printT τ P v) = parse R (bytes P v)`:
    for every compatible pair, every value that is plain for the pair with nesting at most 127,
    every assignment `τ` of trivia strings to token boundaries, any leading trivia and any final
    trivia: `from_slice_custom` on the text with trivia returns what it returns on the printed
    text, namely `fold p cfg.opts v`. -/
theorem C12_trivia_printT (cfg : Cfg) (p : Print.Options) (ryu : Nat → List UInt8)
    (hc : Compatible p cfg.opts = true) (v : Value) (h : AllPlainFor p cfg v)
    (hn : nestingP p v ≤ 127) (τ : Nat → List UInt8) (hτ : ∀ i, Triv (τ i))
    (lead trail : List UInt8) (hl : Triv lead) (ht : TrivEnd trail) :
    okValue (fromTrait cfg (initSt .slice (lead ++ (textT τ p ryu v ++ trail)))) =
      okValue (fromTrait cfg (initSt .slice (text p ryu v))) ∧
    okValue (fromTrait cfg (initSt .slice (lead ++ (textT τ p ryu v ++ trail)))) =
      some (fold p cfg.opts v) :=
  C12_trivia_plain cfg p ryu hc v h hn _ ⟨lead, _, trail, hl, tv_textT τ hτ p ryu v, ht, rfl⟩

/-- with no trivia at all the trivia-inserting printer writes single spaces where the plain
    printer does: instance check on a value with every kind of boundary -/
example : textT (fun _ => []) Print.Options.default ryu0
      (.cons (.symbol (asc "a")) (.cons (.vector [.null, .bytes [1, 2]]) (.number (.pos 7)))) =
    text Print.Options.default ryu0
      (.cons (.symbol (asc "a")) (.cons (.vector [.null, .bytes [1, 2]]) (.number (.pos 7)))) := by
  decide

/-! ### instances -/

/-- the `i`-th string of a list, `[]` beyond its end -/
def nthT : List (List UInt8) → Nat → List UInt8
  | [], _ => []
  | x :: _, 0 => x
  | _ :: xs, n + 1 => nthT xs n

theorem nthT_triv (l : List (List UInt8)) (h : l.all trivB = true) : ∀ i, Triv (nthT l i) := by
  induction l with
  | nil => intro i; simp only [nthT]; exact .nil
  | cons x xs ih =>
    simp only [List.all_cons, Bool.and_eq_true] at h
    intro i
    cases i with
    | zero => exact triv_of_trivB x h.1
    | succ i => exact ih h.2 i

/-- `(a (1 . "x;y") #(#t () #u8(1 2)) . z)`: nested list, dotted pairs, a string that contains
    `;`, a vector, `()`, a byte vector, a dotted tail -/
def exV1 : Value :=
  .cons (.symbol (asc "a")) (.cons (.cons (.number (.pos 1)) (.string (asc "x;y")))
    (.cons (.vector [.bool true, .null, .bytes [1, 2]]) (.symbol (asc "z"))))

/-- trivia for the 19 token boundaries of `exV1`: spaces, tabs, CR LF, form feeds, comments -/
def exTau1 : List (List UInt8) :=
  [asc " ", asc "\t", asc "", asc "\r\n", asc ";c\n\x0c", asc " ", asc "\n", asc ";v\n", asc " ",
   asc "\t", asc " ", asc " ", asc "", asc ";o\n", asc " ", asc " ", asc " ;d\n ", asc " ",
   asc "\x0c"]

example : text Print.Options.default ryu0 exV1 = asc "(a (1 . \"x;y\") #(#t () #u8(1 2)) . z)" := by
  decide

/-- the text with trivia: a comment glued to `.` and to an octet, CR LF after a number, a form
    feed before a string and before the last parenthesis, whitespace inside `()` and between
    `#u8` and `(` -/
example : textT (nthT exTau1) Print.Options.default ryu0 exV1 =
    asc "( a\t(1\r\n.;c\n\x0c\"x;y\" )\n#(;v\n#t (\t) #u8 (1;o\n2 ) ) ;d\n . z\x0c)" := by
  decide

/-- default options on both sides: the text above with a leading comment and an unterminated
    final comment is read back as `exV1` (`fold` is the identity here) -/
example :
    ∃ s', fromTrait cfg0 (initSt .slice (asc " ;lead\n\t" ++
        (textT (nthT exTau1) Print.Options.default ryu0 exV1 ++ (asc "\n" ++ 59 :: asc " end")))) =
      .ok exV1 s' ∧ s'.rd.rest = [] ∧ s'.depth = 128 := by
  have hfold : fold Print.Options.default cfg0.opts exV1 = exV1 := by rfl
  rw [← hfold]
  refine C12_trivia cfg0 Print.Options.default ryu0 (by decide) exV1 ?_ ?_ _
    ⟨asc " ;lead\n\t", _, _, triv_of_trivB _ (by decide),
      tv_textT _ (nthT_triv exTau1 (by decide)) _ _ _,
      trivEnd_of (asc "\n") (asc " end") (by decide) (by decide), rfl⟩
  · simp only [exV1, AllPlainFor, AllPlainForSeq, LeafPlainFor, AtomPlainFor, dotOkP]
    decide
  · simp [exV1, nestingP, nestingTailP, nestingSeqP, Print.Options.default]

/-- a successful result with the value `v` (compared with the model of the derived `==`, which is
    structural equality on values without floats) and nothing left unread -/
def readsAs (r : Res Value) (v : Value) : Bool :=
  match r with
  | .ok x s => Value.beq x v && s.rd.rest.isEmpty
  | _ => false

/-- the same instance by evaluating the model (independent of the theorems) -/
example : readsAs (fromTrait cfg0 (initSt .slice
    (asc " ;lead\n\t( a\t(1\r\n.;c\n\x0c\"x;y\" )\n#(;v\n#t (\t) #u8 (1;o\n2 ) ) ;d\n . z\x0c)\n; end")))
    exV1 = true := by
  decide +kernel

/-- `(setq x [1 "a\"b" ?x :k nil nil t (-3)] . "\001")` in Emacs Lisp syntax -/
def exV2 : Value :=
  .cons (.symbol (asc "setq")) (.cons (.symbol (asc "x"))
    (.cons (.vector [.number (.pos 1), .string (asc "a\"b"), .char 120, .keyword (asc "k"),
      .nil, .bool false, .bool true, .cons (.number (.neg (-3))) .null]) (.bytes [1])))

/-- trivia for the 17 token boundaries of `exV2` -/
def exTau2 : List (List UInt8) :=
  [asc "", asc "\n", asc "\t", asc " ", asc ";s\n", asc "\r\n", asc " ", asc "\x0c", asc " ",
   asc ";;\n", asc "", asc " ", asc "", asc "\t", asc " ; dot\n", asc ";\n", asc " "]

example : text Print.Options.elisp ryu0 exV2 =
    asc "(setq x [1 \"a\\\"b\" ?x :k nil nil t (-3)] . \"\\001\")" := by
  decide

example : textT (nthT exTau2) Print.Options.elisp ryu0 exV2 =
    asc "(setq\nx\t[ 1;s\n\"a\\\"b\"\r\n?x :k\x0cnil nil;;\nt ( -3)\t] ; dot\n.;\n\"\\001\" )" := by
  decide

/-- Emacs Lisp on both sides: the text with trivia reads back as `fold … exV2` (`Nil` and `false`
    folded to the empty list, `true` to the symbol `t`), as the plain text does -/
example :
    ∃ s', fromTrait elCfg (initSt .slice (asc "\x0c" ++
        (textT (nthT exTau2) Print.Options.elisp ryu0 exV2 ++ asc " \n"))) =
      .ok (fold Print.Options.elisp Options.elisp exV2) s' ∧ s'.rd.rest = [] ∧ s'.depth = 128 := by
  refine C12_trivia elCfg Print.Options.elisp ryu0 (by decide) exV2 ?_ ?_ _
    ⟨asc "\x0c", _, _, triv_of_trivB _ (by decide),
      tv_textT _ (nthT_triv exTau2 (by decide)) _ _ _,
      (triv_of_trivB (asc " \n") (by decide)).toEnd, rfl⟩
  · simp only [exV2, AllPlainFor, AllPlainForSeq, LeafPlainFor, AtomPlainFor, dotOkP]
    decide
  · simp [exV2, nestingP, nestingTailP, nestingSeqP, Print.Options.elisp]

/-- any two trivia placements give the same value (here: the plain text and the text with
    trivia, both option sets) -/
example :
    okValue (fromTrait elCfg (initSt .slice (textT (nthT exTau2) Print.Options.elisp ryu0 exV2))) =
      okValue (fromTrait elCfg (initSt .slice (text Print.Options.elisp ryu0 exV2))) := by
  refine C12_trivia_eq elCfg Print.Options.elisp ryu0 (by decide) exV2 ?_ ?_ _ _
    (tvTop_of_tv _ _ _ _ (tv_textT _ (nthT_triv exTau2 (by decide)) _ _ _)) (tvTop_plain _ _ _)
  · simp only [exV2, AllPlainFor, AllPlainForSeq, LeafPlainFor, AtomPlainFor, dotOkP]
    decide
  · simp [exV2, nestingP, nestingTailP, nestingSeqP, Print.Options.elisp]

/-- `trivia_structure` inside a larger input: bracket vectors, `#vu8`, `name:` keywords
    (`mixP` / `mixCfg` of `DialectRT.lean`); the variant is followed by `)` -/
example (s : St) (hm : s.rd.mode = .slice) (hfa : s.rd.faulty = false) (hd : 3 ≤ s.depth)
    (τ : Nat → List UInt8) (hτ : ∀ i, Triv (τ i)) :
    let v : Value := .cons (.keyword (asc "a")) (.cons (.vector [.number (.pos 1), .bytes [1, 2],
      .string (asc "s"), .char 955]) (.cons .nil (.cons (.bool true) (.number (.neg (-5))))))
    s.rd.rest = asc "\t;x\n" ++ (textT τ mixP ryu0 v ++ asc ")") →
    ∃ s', nextValue mixCfg (2 * s.rd.rest.length + 3) s = .ok (some (fold mixP mixOpts v)) s' ∧
      s'.rd.rest = asc ")" ∧ s'.rd.mode = .slice ∧ s'.rd.faulty = false ∧ s'.depth = s.depth := by
  intro v hr
  refine trivia_structure mixCfg mixP ryu0 (by decide) v ?_ (asc "\t;x\n") _
    (triv_of_trivB _ (by decide)) (tv_textT τ hτ mixP ryu0 v) s (asc ")") _
    (follow_cons _ _ (by decide)) hm hfa hr (Nat.le_refl _) ?_
  · refine allAtomsOKP_of_plain mixP mixCfg ryu0 (by decide) v ?_
    simp only [v, AllPlainFor, AllPlainForSeq, LeafPlainFor, AtomPlainFor, dotOkP]
    decide
  · have : nestingP mixP v = 2 := by
      simp [v, nestingP, nestingTailP, nestingSeqP, mixP]
    omega

#print axioms trivia_structure
#print axioms C12_trivia_atoms
#print axioms C12_trivia
#print axioms C12_trivia_plain
#print axioms C12_trivia_eq
#print axioms C12_trivia_spec
#print axioms C12_trivia_printT
#print axioms tv_plain
#print axioms tv_textT
#print axioms bytesOKT_of_compat

end ListRT
end Parse
end Lexpr
