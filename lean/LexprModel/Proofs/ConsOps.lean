/-
  Correctness of the hand-written `Clone` / `PartialEq` / `Drop` loops of `Cons` (cons.rs), of
  `Value::append` as written (value/mod.rs) and of the `to_vec` family's loops
  (model: LexprModel/ConsOps.lean).

  Main theorems (all for every value, by mutual structural induction):
    clone_eq            cloneV v = .ok v                      (the clone is structurally identical)
    clone_no_panic      (cloneV v).isOk
    consClone_eq        Cons.cloneLoop a d = .ok (.cons a d)
    eqLoop_iff          eqV a b = Value.beq a b               (hand-written == is the derived structural ==)
    eqV_symm            eqV a b = eqV b a
    eqV_refl            NaN-free v → eqV v v = true           (and eqV_nan_irrefl: the NaN witness)
    clone_eqV           NaN-free v → the clone compares equal to the original
    appendImpl_eq       appendImpl xs t = .ok (Value.append xs t)
    toVecLoop_eq / intoVecLoop_eq   the loops with `unreachable!()` return `consToVec`, never panic
    dropWhile_cells / dropLoop_*    every element and the tail is dropped exactly once
-/
import LexprModel.ConsOps
namespace Lexpr
namespace ConsOps
open Value

/-! ### paths into `append ys (cons c d)` -/

theorem append_snoc (ys : List Value) (c t : Value) :
    append (ys ++ [c]) t = append ys (.cons c t) := by
  induction ys with
  | nil => rfl
  | cons y ys ih => simp [append, ih]

theorem cellAt_append (ys : List Value) (c d : Value) :
    cellAt (append ys (.cons c d)) ys.length = some (c, d) := by
  induction ys with
  | nil => rfl
  | cons y ys ih => simpa [append, cellAt] using ih

theorem setCdrAt_append (ys : List Value) (c d x : Value) :
    setCdrAt (append ys (.cons c d)) ys.length x = some (append ys (.cons c x)) := by
  induction ys with
  | nil => rfl
  | cons y ys ih => simp [append, setCdrAt, ih]

theorem setCarAt_append (ys : List Value) (c d x : Value) :
    setCarAt (append ys (.cons c d)) ys.length x = some (append ys (.cons x d)) := by
  induction ys with
  | nil => rfl
  | cons y ys ih => simp [append, setCarAt, ih]

/-! ### Clone -/

theorem finish_append (ys : List Value) (c d t : Value) :
    finish (append ys (.cons c d)) ys.length (.ok t) = .ok (append ys (.cons c t)) := by
  simp [finish, setCdrAt_append]

mutual
/-- **clone_eq**: the hand-written loop returns a value structurally identical to its argument,
    for every value (dotted lists, lists in cars, vectors of lists, …). -/
theorem clone_eq : ∀ v : Value, cloneV v = .ok v
  | .cons a d => by
    have h := cloneWhile_eq d [] a
    simp only [append, List.length_nil] at h
    simp only [cloneV, clone_eq a, h]
  | .vector xs => by simp [cloneV, cloneList_eq xs, Out.map]
  | .nil | .null | .bool _ | .number _ | .char _ | .string _ | .symbol _ | .keyword _ | .bytes _ => by
    simp [cloneV]
/-- the loop invariant: `head` is the copied prefix `ys` followed by the cell `last = (c . Null)` -/
theorem cloneWhile_eq : ∀ (rest : Value) (ys : List Value) (c : Value),
    cloneWhile (append ys (.cons c .null)) ys.length rest = .ok (append ys (.cons c rest))
  | .cons a d, ys, c => by
    have ih := cloneWhile_eq d (ys ++ [c]) a
    simp only [append_snoc, List.length_append, List.length_cons, List.length_nil,
      Nat.zero_add] at ih
    simp only [cloneWhile, clone_eq a, setCdrAt_append, cellAt_append, ih]
  | .vector xs, ys, c => by
    simp only [cloneWhile, cloneList_eq xs, Out.map, finish_append]
  | .nil, ys, c | .null, ys, c | .bool _, ys, c | .number _, ys, c | .char _, ys, c
  | .string _, ys, c | .symbol _, ys, c | .keyword _, ys, c | .bytes _, ys, c => by
    simp only [cloneWhile, finish_append]
theorem cloneList_eq : ∀ xs : List Value, cloneList xs = .ok xs
  | [] => by simp [cloneList]
  | x :: xs => by simp [cloneList, clone_eq x, cloneList_eq xs, Out.map]
end

/-- **clone_no_panic**: neither the `unreachable!()` arm nor a dangling path is ever reached. -/
theorem clone_no_panic (v : Value) : (cloneV v).isOk = true := by simp [clone_eq, Out.isOk]

theorem consClone_eq (a d : Value) : Cons.cloneLoop a d = .ok (.cons a d) := clone_eq _

/-! ### PartialEq -/

theorem eqAtom_beq (a b : Value) (h : a.isCons = false ∨ b.isCons = false)
    (hv : a.isVector = false ∨ b.isVector = false) : eqAtom a b = Value.beq a b := by
  cases a <;> cases b <;> simp_all [eqAtom, Value.beq, isCons, isVector]

mutual
/-- **eqLoop_iff**: the hand-written `==` is exactly the derived structural equality (IEEE on floats). -/
theorem eqLoop_iff : ∀ a b : Value, eqV a b = Value.beq a b
  | .cons a d, b => by
    cases b with
    | cons a' d' =>
      simp only [eqV, Value.beq, eqLoop_iff a a', eqTail_beq d d']
      cases Value.beq a a' <;> simp
    | vector ys => simp [eqV, eqAtom, Value.beq]
    | _ => simp [eqV, eqAtom, Value.beq]
  | .vector xs, b => by
    cases b with
    | vector ys => simp only [eqV, Value.beq, eqList_beq xs ys]
    | cons a' d' => simp [eqV, eqAtom, Value.beq]
    | _ => simp [eqV, eqAtom, Value.beq]
  | .nil, b | .null, b | .bool _, b | .number _, b | .char _, b | .string _, b | .symbol _, b
  | .keyword _, b | .bytes _, b => by
    cases b <;> simp [eqV, eqAtom, Value.beq]
theorem eqTail_beq : ∀ d d' : Value, eqTail d d' = Value.beq d d'
  | .cons x dx, b => by
    cases b with
    | cons y dy =>
      simp only [eqTail, Value.beq, eqLoop_iff x y, eqTail_beq dx dy]
      cases Value.beq x y <;> simp
    | vector ys => simp [eqTail, eqAtom, Value.beq]
    | _ => simp [eqTail, eqAtom, Value.beq]
  | .vector xs, b => by
    cases b with
    | vector ys => simp only [eqTail, Value.beq, eqList_beq xs ys]
    | cons a' d' => simp [eqTail, eqAtom, Value.beq]
    | _ => simp [eqTail, eqAtom, Value.beq]
  | .nil, b | .null, b | .bool _, b | .number _, b | .char _, b | .string _, b | .symbol _, b
  | .keyword _, b | .bytes _, b => by
    cases b <;> simp [eqTail, eqAtom, Value.beq]
theorem eqList_beq : ∀ xs ys : List Value, eqList xs ys = Value.beqList xs ys
  | [], ys => by cases ys <;> simp [eqList, Value.beqList]
  | x :: xs, ys => by
    cases ys with
    | nil => simp [eqList, Value.beqList]
    | cons y ys => simp [eqList, Value.beqList, eqLoop_iff x y, eqList_beq xs ys]
end

theorem consEq_iff (a d a' d' : Value) :
    Cons.eqLoop a d a' d' = (Value.beq a a' && Value.beq d d') := by
  simp [Cons.eqLoop, eqLoop_iff, Value.beq]

/-- `!=` is the negation of `==`. -/
theorem neV_eq (a b : Value) : neV a b = !(Value.beq a b) := by simp [neV, eqLoop_iff]

/-! #### symmetry, and reflexivity away from NaN -/

theorem feq_symm (a b : Nat) : F64.feq a b = F64.feq b a := by
  unfold F64.feq
  by_cases ha : F64.isNaN a <;> by_cases hb : F64.isNaN b <;> simp [ha, hb]
  by_cases za : F64.isZero a <;> by_cases zb : F64.isZero b <;> simp [za, zb]
  all_goals exact Bool.eq_iff_iff.mpr ⟨fun h => by simpa using (by simpa using h : a = b).symm,
    fun h => by simpa using (by simpa using h : b = a).symm⟩

theorem beq_comm' {α : Type} [BEq α] [LawfulBEq α] (a b : α) : (a == b) = (b == a) := by
  by_cases h : a = b
  · subst h; rfl
  · have h' : ¬ b = a := fun e => h e.symm
    rw [beq_eq_false_iff_ne.2 h, beq_eq_false_iff_ne.2 h']

theorem numBeq_symm (a b : Number) : Number.beq a b = Number.beq b a := by
  cases a <;> cases b <;> simp [Number.beq, feq_symm, beq_comm']

mutual
theorem beq_symm : ∀ a b : Value, Value.beq a b = Value.beq b a
  | .cons a d, b => by
    cases b with
    | cons a' d' => simp only [Value.beq, beq_symm a a', beq_symm d d']
    | _ => simp [Value.beq]
  | .vector xs, b => by
    cases b with
    | vector ys => simp only [Value.beq, beqList_symm xs ys]
    | _ => simp [Value.beq]
  | .number n, b => by cases b <;> simp [Value.beq, numBeq_symm]
  | .nil, b | .null, b => by cases b <;> simp [Value.beq]
  | .bool _, b | .char _, b | .string _, b | .symbol _, b | .keyword _, b | .bytes _, b => by
    cases b <;> simp [Value.beq, beq_comm']
theorem beqList_symm : ∀ xs ys : List Value, Value.beqList xs ys = Value.beqList ys xs
  | [], ys => by cases ys <;> simp [Value.beqList]
  | x :: xs, ys => by
    cases ys with
    | nil => simp [Value.beqList]
    | cons y ys => simp only [Value.beqList, beq_symm x y, beqList_symm xs ys]
end

/-- **eqV_symm**: `a == b` and `b == a` agree. -/
theorem eqV_symm (a b : Value) : eqV a b = eqV b a := by
  simp only [eqLoop_iff, beq_symm a b]

mutual
/-- No NaN anywhere inside the value. -/
def nanFree : Value → Bool
  | .number (.flt b) => !F64.isNaN b
  | .cons a d => nanFree a && nanFree d
  | .vector xs => nanFreeList xs
  | _ => true
def nanFreeList : List Value → Bool
  | [] => true
  | x :: xs => nanFree x && nanFreeList xs
end

theorem feq_refl (b : Nat) (h : F64.isNaN b = false) : F64.feq b b = true := by
  simp [F64.feq, h]

mutual
theorem beq_refl : ∀ v : Value, nanFree v = true → Value.beq v v = true
  | .cons a d, h => by
    simp only [nanFree, Bool.and_eq_true] at h
    simp [Value.beq, beq_refl a h.1, beq_refl d h.2]
  | .vector xs, h => by
    simp only [nanFree] at h
    simp [Value.beq, beqList_refl xs h]
  | .number n, h => by
    cases n with
    | flt b => simp only [nanFree, Bool.not_eq_true'] at h; simp [Value.beq, Number.beq, feq_refl b h]
    | pos n => simp [Value.beq, Number.beq]
    | neg i => simp [Value.beq, Number.beq]
  | .nil, _ | .null, _ | .bool _, _ | .char _, _ | .string _, _ | .symbol _, _ | .keyword _, _
  | .bytes _, _ => by simp [Value.beq]
theorem beqList_refl : ∀ xs : List Value, nanFreeList xs = true → Value.beqList xs xs = true
  | [], _ => by simp [Value.beqList]
  | x :: xs, h => by
    simp only [nanFreeList, Bool.and_eq_true] at h
    simp [Value.beqList, beq_refl x h.1, beqList_refl xs h.2]
end

/-- **eqV_refl**: `v == v` for every value without a NaN inside. -/
theorem eqV_refl (v : Value) (h : nanFree v = true) : eqV v v = true := by
  rw [eqLoop_iff]; exact beq_refl v h

/-- The hypothesis is needed: a list holding a NaN is not equal to itself (IEEE), for the
    hand-written loop as for the derived comparison. -/
theorem eqV_nan_irrefl :
    eqV (.cons (.number (.flt 0x7ff8000000000000)) .null)
        (.cons (.number (.flt 0x7ff8000000000000)) .null) = false := by decide

/-- `-0.0 == 0.0` inside a list: equal values need not be identical. -/
theorem eqV_zero_signs :
    eqV (.cons (.number (.flt 0x8000000000000000)) .null) (.cons (.number (.flt 0)) .null) = true := by
  decide

/-- **clone_eqV**: `v.clone() == v` and `v == v.clone()` for NaN-free `v`. -/
theorem clone_eqV (v : Value) (h : nanFree v = true) :
    ∃ c, cloneV v = .ok c ∧ eqV v c = true ∧ eqV c v = true :=
  ⟨v, clone_eq v, eqV_refl v h, eqV_refl v h⟩

example : nanFree (.cons (.number (.flt 0x8000000000000000)) (.vector [.null, .symbol [97]])) = true := by
  decide

/-! ### `Value::append` as written -/

/-- after at least one element: `list` holds the elements so far, `pair` is its last cell -/
theorem appendLoop_have (items : List Value) (tail : Value) (ys : List Value) (c : Value) :
    appendLoop (append ys (.cons c .null)) ys.length true items tail
      = .ok (append ys (.cons c (append items tail))) := by
  induction items generalizing ys c with
  | nil => simp [appendLoop, setCdrAt_append, append]
  | cons item items ih =>
    have h := ih (ys ++ [c]) item
    simp only [append_snoc, List.length_append, List.length_cons, List.length_nil,
      Nat.zero_add] at h
    have hset : setCarAt (append ys (.cons c (.cons .nil .null))) (ys.length + 1) item
        = some (append ys (.cons c (.cons item .null))) := by
      have := setCarAt_append (ys ++ [c]) .nil .null item
      simpa only [append_snoc, List.length_append, List.length_cons, List.length_nil,
        Nat.zero_add] using this
    simp only [appendLoop, if_true, setCdrAt_append, cellAt_append, hset, h, append]

/-- **appendImpl_eq**: the loop of `Value::append` builds exactly `append xs t` (its `unwrap()`
    never fails), for every element sequence and every tail. -/
theorem appendImpl_eq (xs : List Value) (t : Value) : appendImpl xs t = .ok (append xs t) := by
  cases xs with
  | nil => simp [appendImpl, appendLoop, append]
  | cons x xs =>
    have h := appendLoop_have xs t [] x
    simp only [append, List.length_nil] at h
    simp only [appendImpl, appendLoop, Bool.false_eq_true, if_false, setCarAt, h, append]

/-! ### the `to_vec` family's loops -/

theorem toVecLoop_eq : ∀ (d : Value) (acc : List Value) (a : Value),
    toVecLoop acc (consIter a d) = .ok (acc ++ (consToVec a d).1, (consToVec a d).2)
  | .cons x y, acc, a => by
    simp only [consIter, toVecLoop, isCons, consToVec]
    rw [toVecLoop_eq y]; simp
  | .nil, _, _ | .null, _, _ | .bool _, _, _ | .number _, _, _ | .char _, _, _ | .string _, _, _
  | .symbol _, _, _ | .keyword _, _, _ | .bytes _, _, _ | .vector _, _, _ => by
    simp [consIter, toVecLoop, isCons, consToVec]

/-- `Cons::to_vec` / `to_ref_vec` as written return the functional `consToVec` of ListOps.lean and
    never reach `unreachable!()`. -/
theorem toVec_impl_eq (a d : Value) : toVecLoop [] (consIter a d) = .ok (consToVec a d) := by
  rw [toVecLoop_eq d]; simp

theorem intoVecLoop_eq : ∀ (d : Value) (acc : List Value) (a : Value),
    intoVecLoop acc (consIntoIter a d) = .ok (acc ++ (consToVec a d).1, (consToVec a d).2)
  | .cons x y, acc, a => by
    simp only [consIntoIter, intoVecLoop, consToVec]
    rw [intoVecLoop_eq y]; simp
  | .nil, _, _ | .null, _, _ | .bool _, _, _ | .number _, _, _ | .char _, _, _ | .string _, _, _
  | .symbol _, _, _ | .keyword _, _, _ | .bytes _, _, _ | .vector _, _, _ => by
    simp [consIntoIter, intoVecLoop, consToVec]

/-- `Cons::into_vec` as written. -/
theorem intoVec_impl_eq (a d : Value) : intoVecLoop [] (consIntoIter a d) = .ok (consToVec a d) := by
  rw [intoVecLoop_eq d]; simp

/-! ### Drop: what the loop drops -/

/-- the loop of `Cons::drop` drops one cell per element: each but the last with the emptied next
    cell `(Nil . Nil)` as its cdr, the last one with the tail — every element and the tail exactly once -/
theorem dropWhile_cells (x : Value) (xs : List Value) (t : Value) (ht : t.isCons = false) :
    dropWhile x (append xs t) =
      ((x :: xs).dropLast.map fun e => (e, Value.cons .nil .nil)) ++ [((x :: xs).getLast (by simp), t)] := by
  induction xs generalizing x with
  | nil => cases t <;> simp_all [isCons, append, dropWhile]
  | cons y ys ih =>
    simp only [append, dropWhile]
    rw [ih y]
    simp

/-- with fewer than three cells `Cons::drop` returns at once and leaves everything to the drop glue -/
theorem dropLoop_short (a d : Value) (h : ∀ x y z, d ≠ .cons x (.cons y z)) :
    Cons.dropLoop a d = ((a, d), []) := by
  unfold Cons.dropLoop
  split
  · rename_i x y z; exact absurd rfl (h x y z)
  · rfl

/-- with three cells or more the cell itself is left as `(Nil . Nil)` and the loop drops the chain -/
theorem dropLoop_long (a x y z : Value) :
    Cons.dropLoop a (.cons x (.cons y z)) = ((.nil, .nil), dropWhile a (.cons x (.cons y z))) := by
  simp [Cons.dropLoop, take]

end ConsOps
end Lexpr
