/-
  Progress, termination and sufficiency of fuel.

  Every model function only ever consumes input.  The file goes function by function through
  Reader.lean, Lex.lean and Parse.lean and proves for each a statement of one shape,
  `Spec m s s0 ko ke F`:  running `m` in state `s` (which is at least `k` bytes past `s0`)
    * an `ok a s'` result has consumed at least `ko a` bytes counted from `s0`,
    * an `err e s'` result has consumed at least `ke e` bytes, and `e = io` needs a faulty source,
    * in both cases the unread input of `s'` is a suffix of that of `s0`, and the `faulty` flag
      and the mode are unchanged,
    * a `fuel` result is possible only if `F` holds (`F` is `fuel ≤ remaining length` for the
      scanners, `fuel ≤ 2 * remaining length (+ 1)` for the recursive parsers).
  The statements are proved by a small weakest-precondition tactic (`wp [lemmas]`) that follows the
  structure of the `do` blocks.  The main theorems are at the end of the file.
-/
import Lean.Elab.Tactic
import LexprModel.Parse
namespace Lexpr
namespace Parse
namespace Progress

/-- `s'` is reachable from `s0` by consuming at least `k` bytes. -/
structure Ext (k : Nat) (s0 s' : St) : Prop where
  suf : s'.rd.rest <:+ s0.rd.rest
  len : s'.rd.rest.length + k ≤ s0.rd.rest.length
  faulty : s'.rd.faulty = s0.rd.faulty
  mode : s'.rd.mode = s0.rd.mode

theorem Ext.refl (s : St) : Ext 0 s s := ⟨List.suffix_refl _, by omega, rfl, rfl⟩

theorem Ext.trans {a b : Nat} {s0 s1 s2 : St} (h1 : Ext a s0 s1) (h2 : Ext b s1 s2) :
    Ext (a + b) s0 s2 :=
  ⟨h2.suf.trans h1.suf, by have := h1.len; have := h2.len; omega, h2.faulty.trans h1.faulty,
   h2.mode.trans h1.mode⟩

theorem Ext.mono {a b : Nat} {s0 s1 : St} (h : Ext a s0 s1) (hb : b ≤ a) : Ext b s0 s1 :=
  ⟨h.suf, by have := h.len; omega, h.faulty, h.mode⟩

/-- Post-condition on a result: `Q` for `ok`, `E` for `err`, `F` says whether `fuel` may occur. -/
def Sat {α : Type} (r : Res α) (Q : α → St → Prop) (E : Err → St → Prop) (F : Prop) : Prop :=
  match r with
  | .ok a s' => Q a s'
  | .err e s' => E e s'
  | .panic _ => True
  | .fuel => F

/-- The standard error post-condition: at least `k` bytes consumed, and an `io` error only from a
    faulty source. -/
def EP (k : Nat) (s0 : St) (e : Err) (s' : St) : Prop :=
  Ext k s0 s' ∧ (e = .io → s0.rd.faulty = true)

theorem Sat.imp {α : Type} {r : Res α} {Q Q' : α → St → Prop} {E E' : Err → St → Prop} {F F' : Prop}
    (h : Sat r Q E F) (hq : ∀ a s, Q a s → Q' a s) (he : ∀ e s, E e s → E' e s) (hf : F → F') :
    Sat r Q' E' F' := by
  cases r <;> simp only [Sat] at * <;> first | exact hq _ _ h | exact he _ _ h | exact hf h | trivial

theorem Sat.bind {α β : Type} {m : P α} {f : α → P β} {s : St}
    {Q1 : α → St → Prop} {E1 : Err → St → Prop} {F1 : Prop}
    {Q : β → St → Prop} {E : Err → St → Prop} {F : Prop}
    (hm : Sat (m s) Q1 E1 F1)
    (hf : ∀ a s', Q1 a s' → Sat (f a s') Q E F)
    (he : ∀ e s', E1 e s' → E e s')
    (hF : F1 → F) : Sat ((m >>= f) s) Q E F := by
  show Sat (P.bind m f s) Q E F
  unfold P.bind
  cases hms : m s <;> simp only [hms, Sat] at * <;>
    first | exact hf _ _ hm | exact he _ _ hm | exact hF hm | trivial

theorem Sat.pure {α : Type} {a : α} {s : St} {Q : α → St → Prop} {E : Err → St → Prop} {F : Prop}
    (h : Q a s) : Sat ((pure a : P α) s) Q E F := h


def optN {α : Type} : Option α → Nat
  | some _ => 1
  | none => 0

def synN : Err → Nat
  | .syntax _ _ _ => 1
  | .io => 0

theorem EP.mono {a b : Nat} {s0 s' : St} {e : Err} (h : EP a s0 e s') (hb : b ≤ a) : EP b s0 e s' :=
  ⟨h.1.mono hb, h.2⟩

/-- Standard shape: run `m` at `s`; `ok a` consumes at least `ko a` bytes counted from `s0`,
    `err e` at least `ke e`; `F` says whether running out of fuel is possible. -/
def Spec {α : Type} (m : P α) (s s0 : St) (ko : α → Nat) (ke : Err → Nat) (F : Prop) : Prop :=
  Sat (m s) (fun a s' => Ext (ko a) s0 s') (fun e s' => EP (ke e) s0 e s') F

section rules
variable {α β : Type} {k : Nat} {s0 s : St} {ko : α → Nat} {ke : Err → Nat} {F : Prop}

theorem Spec.bind {m : P α} {f : α → P β} {ko1 : α → Nat} {ke1 : Err → Nat} {F1 : Prop}
    {ko : β → Nat}
    (h : Ext k s0 s) (hm : Spec m s s ko1 ke1 F1)
    (hke : ∀ e, ke e ≤ k + ke1 e)
    (hF : s.rd.rest.length + k ≤ s0.rd.rest.length → F1 → F)
    (hf : ∀ a s', Ext (k + ko1 a) s0 s' → Spec (f a) s' s0 ko ke F) :
    Spec (m >>= f) s s0 ko ke F := by
  refine Sat.bind hm (fun a s' hq => hf a s' (h.trans hq)) (fun e s' he => ?_) (hF h.len)
  exact ⟨(h.trans he.1).mono (hke e), fun hio => by rw [← h.faulty]; exact he.2 hio⟩

theorem Spec.tail {m : P α} {ko1 : α → Nat} {ke1 : Err → Nat} {F1 : Prop}
    (h : Ext k s0 s) (hm : Spec m s s ko1 ke1 F1)
    (hko : ∀ a, ko a ≤ k + ko1 a)
    (hke : ∀ e, ke e ≤ k + ke1 e)
    (hF : s.rd.rest.length + k ≤ s0.rd.rest.length → F1 → F) :
    Spec m s s0 ko ke F := by
  refine Sat.imp hm (fun a s' hq => (h.trans hq).mono (hko a)) (fun e s' he => ?_) (hF h.len)
  exact ⟨(h.trans he.1).mono (hke e), fun hio => by rw [← h.faulty]; exact he.2 hio⟩

theorem Spec.pure {a : α} (h : Ext k s0 s) (hk : ko a ≤ k) : Spec (pure a : P α) s s0 ko ke F :=
  h.mono hk

theorem Spec.ite {c : Prop} [Decidable c] {A B : P α}
    (hA : c → Spec A s s0 ko ke F) (hB : ¬c → Spec B s s0 ko ke F) :
    Spec (if c then A else B) s s0 ko ke F := by
  split
  · exact hA ‹_›
  · exact hB ‹_›

theorem Spec.start {m : P α} (h : Ext 0 s s → Spec m s s ko ke F) : Spec m s s ko ke F :=
  h (Ext.refl s)

theorem Spec.errAt {c : Code} (h : Ext k s0 s)
    (hk : ke (.syntax c s.rd.position.line s.rd.position.col) ≤ k) :
    Spec (errAt c : P α) s s0 ko ke F :=
  ⟨h.mono hk, fun hio => by cases hio⟩

theorem Spec.peekErr {c : Code} (h : Ext k s0 s)
    (hk : ke (.syntax c s.rd.peekPosition.line s.rd.peekPosition.col) ≤ k) :
    Spec (peekErr c : P α) s s0 ko ke F :=
  ⟨h.mono hk, fun hio => by cases hio⟩

theorem Spec.panicAt {p : Site} : Spec (panicAt p : P α) s s0 ko ke F := trivial

theorem Spec.outOfFuel (hF : F) : Spec (outOfFuel : P α) s s0 ko ke F := hF

end rules

/-! ### the reader primitives -/

theorem consume_rest (n : Nat) : ∀ rd : Rd, (rd.consume n).rest = rd.rest.drop n := by
  induction n with
  | zero => intro rd; simp [Rd.consume]
  | succ n ih =>
    intro rd
    cases hr : rd.rest with
    | nil => simp [Rd.consume, hr]
    | cons b bs => simp [Rd.consume, hr, ih]

theorem consume_faulty (n : Nat) : ∀ rd : Rd, (rd.consume n).faulty = rd.faulty := by
  induction n with
  | zero => intro rd; simp [Rd.consume]
  | succ n ih =>
    intro rd
    cases hr : rd.rest with
    | nil => simp [Rd.consume, hr]
    | cons b bs => simp [Rd.consume, hr, ih]

theorem consume_mode (n : Nat) : ∀ rd : Rd, (rd.consume n).mode = rd.mode := by
  induction n with
  | zero => intro rd; simp [Rd.consume]
  | succ n ih =>
    intro rd
    cases hr : rd.rest with
    | nil => simp [Rd.consume, hr]
    | cons b bs => simp [Rd.consume, hr, ih]

theorem ext_consume (s : St) (n : Nat) :
    Ext (min n s.rd.rest.length) s { s with rd := s.rd.consume n } :=
  ⟨by simp only [consume_rest]; exact List.drop_suffix _ _,
   by simp only [consume_rest, List.length_drop]; omega,
   by simp only [consume_faulty], by simp only [consume_mode]⟩

macro "arith" : tactic =>
  `(tactic| (intros; first | assumption | contradiction | ((try simp only [optN, synN] at *) <;> omega)))

theorem next_spec {s : St} : Spec next s s optN (fun _ => 0) False := by
  unfold Spec next
  cases hr : s.rd.rest with
  | nil =>
    by_cases hf : s.rd.faulty = true
    · simp only [hf, if_true]; exact ⟨Ext.refl s, fun _ => hf⟩
    · simp only [hf]; exact Ext.refl s
  | cons b bs =>
    exact (ext_consume s 1).mono (by simp [hr, optN])

theorem discard_spec {s : St} : Spec discard s s (fun _ => 1) (fun _ => 1) False := by
  unfold Spec discard
  cases hr : s.rd.rest with
  | nil => trivial
  | cons b bs => exact (ext_consume s 1).mono (by simp [hr])

theorem consumeN_spec {s : St} {n : Nat} :
    Spec (consumeN n) s s (fun _ => min n s.rd.rest.length) (fun _ => min n s.rd.rest.length)
      False :=
  ext_consume s n

section rules
variable {α β : Type} {k : Nat} {s0 s : St} {ko : β → Nat} {ke : Err → Nat} {F : Prop}

theorem Spec.bind_getRest {f : List UInt8 → P β} (hf : Spec (f s.rd.rest) s s0 ko ke F) :
    Spec (getRest >>= f) s s0 ko ke F := hf

theorem Spec.bind_getMode {f : Mode → P β} (hf : Spec (f s.rd.mode) s s0 ko ke F) :
    Spec (getMode >>= f) s s0 ko ke F := hf

theorem Spec.bind_getPos {f : Pos → P β} (hf : Spec (f s.rd.position) s s0 ko ke F) :
    Spec (getPos >>= f) s s0 ko ke F := hf

theorem Spec.bind_tokenFuel {f : Nat → P β} (hf : Spec (f (s.rd.rest.length + 1)) s s0 ko ke F) :
    Spec (tokenFuel >>= f) s s0 ko ke F := hf

theorem Spec.pure_bind {α : Type} {a : α} {f : α → P β} (hf : Spec (f a) s s0 ko ke F) :
    Spec ((Pure.pure a : P α) >>= f) s s0 ko ke F := hf

theorem Spec.bind_assoc {α γ : Type} {m : P α} {g : α → P γ} {f : γ → P β}
    (h : Spec (m >>= fun a => g a >>= f) s s0 ko ke F) : Spec ((m >>= g) >>= f) s s0 ko ke F := by
  revert h
  show Sat (P.bind m (fun a => P.bind (g a) f) s) _ _ _ → Sat (P.bind (P.bind m g) f s) _ _ _
  unfold P.bind
  cases m s <;> exact id

/-- `peek` changes nothing but the `peeked` flag and returns the head of the input. -/
theorem Spec.bind_peek {f : Option UInt8 → P β} (h : Ext k s0 s)
    (hke : s.rd.rest.length = 0 → ke .io ≤ k)
    (hf : ∀ s', Ext k s0 s' → s'.rd.rest = s.rd.rest → s'.rd.rest.length = s.rd.rest.length →
      Spec (f s.rd.rest.head?) s' s0 ko ke F) :
    Spec (peek >>= f) s s0 ko ke F := by
  show Sat (P.bind peek f s) _ _ _
  unfold P.bind peek
  cases hr : s.rd.rest with
  | nil =>
    by_cases hfl : s.rd.faulty = true
    · simp only [hfl, if_true]
      exact ⟨h.mono (hke (by simp [hr])), fun _ => by rw [← h.faulty]; exact hfl⟩
    · simp only [hfl]
      have := hf s h rfl rfl
      simpa [hr, Spec] using this
  | cons b bs =>
    have := hf { s with rd := { s.rd with peeked := s.rd.peeked || s.rd.mode == .io } }
      ⟨h.suf, h.len, h.faulty, h.mode⟩ rfl rfl
    simpa [hr, Spec] using this

/-- `next` with the information that `none` means the input is exhausted. -/
theorem Spec.bind_next {f : Option UInt8 → P β} (h : Ext k s0 s)
    (hke : s.rd.rest.length = 0 → ke .io ≤ k)
    (hnone : s.rd.rest.length = 0 → Spec (f none) s s0 ko ke F)
    (hsome : ∀ b s', 1 ≤ s.rd.rest.length → Ext (k + 1) s0 s' → Spec (f (some b)) s' s0 ko ke F) :
    Spec (next >>= f) s s0 ko ke F := by
  show Sat (P.bind next f s) _ _ _
  unfold P.bind next
  cases hr : s.rd.rest with
  | nil =>
    by_cases hfl : s.rd.faulty = true
    · simp only [hfl, if_true]
      exact ⟨h.mono (hke (by simp [hr])), fun _ => by rw [← h.faulty]; exact hfl⟩
    · simp only [hfl]
      have := hnone (by simp [hr])
      simpa [Spec] using this
  | cons b bs =>
    have := hsome b { s with rd := s.rd.consume 1 } (by simp [hr])
      (h.trans ((ext_consume s 1).mono (by simp [hr])))
    simpa [Spec] using this

/-- `consumeN` never fails -/
theorem Spec.bind_consumeN {n : Nat} {f : Unit → P β} (h : Ext k s0 s)
    (hf : ∀ s', Ext (k + min n s.rd.rest.length) s0 s' → Spec (f ()) s' s0 ko ke F) :
    Spec (consumeN n >>= f) s s0 ko ke F :=
  hf _ (h.trans (ext_consume s n))

/-- `discard` never fails (it panics at the end of the input) -/
theorem Spec.bind_discard {f : Unit → P β} (h : Ext k s0 s)
    (hf : ∀ s', Ext (k + 1) s0 s' → Spec (f ()) s' s0 ko ke F) :
    Spec (discard >>= f) s s0 ko ke F := by
  show Sat (P.bind discard f s) _ _ _
  unfold P.bind discard
  cases hr : s.rd.rest with
  | nil => trivial
  | cons b bs => exact hf _ (h.trans ((ext_consume s 1).mono (by simp [hr])))

theorem Spec.errAt_bind {α : Type} {c : Code} {f : α → P β} (h : Ext k s0 s)
    (hk : ke (.syntax c s.rd.position.line s.rd.position.col) ≤ k) :
    Spec ((Parse.errAt c : P α) >>= f) s s0 ko ke F :=
  ⟨h.mono hk, fun hio => by cases hio⟩

theorem Spec.peekErr_bind {α : Type} {c : Code} {f : α → P β} (h : Ext k s0 s)
    (hk : ke (.syntax c s.rd.peekPosition.line s.rd.peekPosition.col) ≤ k) :
    Spec ((Parse.peekErr c : P α) >>= f) s s0 ko ke F :=
  ⟨h.mono hk, fun hio => by cases hio⟩

/-- `parse_whitespace`: skips input, returns the head of what is left. -/
theorem Spec.bind_parseWhitespace {f : Option UInt8 → P β} (h : Ext k s0 s) (hke : ke .io ≤ k)
    (hnone : ∀ s', Ext k s0 s' → s'.rd.rest.length = 0 → Spec (f none) s' s0 ko ke F)
    (hsome : ∀ c s', Ext k s0 s' → s'.rd.rest.head? = some c → 1 ≤ s'.rd.rest.length →
      Spec (f (some c)) s' s0 ko ke F) :
    Spec (parseWhitespace >>= f) s s0 ko ke F := by
  unfold parseWhitespace
  refine Spec.bind_assoc ?_
  refine Spec.bind_getRest ?_
  refine Spec.bind_assoc ?_
  refine Spec.bind_consumeN h ?_
  · intro s1 h1
    refine Spec.bind_peek h1 (fun _ => Nat.le_trans hke (Nat.le_add_right _ _)) ?_
    intro s2 h2 hr hl
    cases hr1 : s1.rd.rest with
    | nil =>
      simp only [List.head?_nil]
      exact hnone s2 (h2.mono (Nat.le_add_right _ _)) (by rw [hl, hr1]; rfl)
    | cons c t =>
      simp only [List.head?_cons]
      exact hsome c s2 (h2.mono (Nat.le_add_right _ _)) (by rw [hr, hr1]; rfl)
        (by rw [hl, hr1]; simp)

/-- `attempt m`: errors of `m` become values; an `io` error still needs a faulty source. -/
theorem Spec.bind_attempt {α : Type} {m : P α} {f : Except Err α → P β}
    {ko1 : α → Nat} {ke1 : Err → Nat} {F1 : Prop}
    (h : Ext k s0 s) (hm : Spec m s s ko1 ke1 F1)
    (hF : s.rd.rest.length + k ≤ s0.rd.rest.length → F1 → F)
    (hok : ∀ a s', Ext k s0 s' → Spec (f (.ok a)) s' s0 ko ke F)
    (herr : ∀ e s', Ext k s0 s' → (e = .io → s0.rd.faulty = true) →
      Spec (f (.error e)) s' s0 ko ke F) :
    Spec (attempt m >>= f) s s0 ko ke F := by
  show Sat (P.bind (attempt m) f s) _ _ _
  unfold P.bind attempt
  unfold Spec at hm
  cases hms : m s with
  | ok a s' =>
    rw [hms] at hm
    exact hok a s' ((h.trans hm).mono (Nat.le_add_right _ _))
  | err e s' =>
    rw [hms] at hm
    exact herr e s' ((h.trans hm.1).mono (Nat.le_add_right _ _))
      (fun hio => by rw [← h.faulty]; exact hm.2 hio)
  | panic p => trivial
  | fuel => rw [hms] at hm; exact hF h.len hm

theorem Spec.liftErr {α : Type} {e : Err} {ko' : α → Nat} (h : Ext k s0 s) (hk : ke e ≤ k)
    (hio : e = .io → s0.rd.faulty = true) :
    Spec (liftExcept (.error e) : P α) s s0 ko' ke F :=
  ⟨h.mono hk, hio⟩

theorem Spec.weaken {α : Type} {m : P α} {ko ko' : α → Nat} {ke' : Err → Nat}
    (hm : Spec m s s0 ko' ke' F) (hko : ∀ a, ko a ≤ ko' a) (hke : ∀ e, ke e ≤ ke' e) :
    Spec m s s0 ko ke F :=
  Sat.imp hm (fun a _ h => h.mono (hko a)) (fun e _ h => h.mono (hke e)) id

end rules

theorem synN_le (e : Err) : synN e ≤ 1 := by cases e <;> simp [synN]

theorem enter_spec {s : St} : Spec enter s s (fun _ => 0) (fun _ => 0) False := by
  unfold Spec enter
  split
  · trivial
  · split
    · exact ⟨Ext.refl s, fun hio => by cases hio⟩
    · exact ⟨List.suffix_refl _, by simp, rfl, rfl⟩

theorem leave_spec {s : St} : Spec leave s s (fun _ => 0) (fun _ => 0) False :=
  ⟨List.suffix_refl _, by simp, rfl, rfl⟩

/-- `m` run at `s` returns `ok none` only in a state without unread input -/
def NoneEnd {α : Type} (m : P (Option α)) (s : St) : Prop :=
  Sat (m s) (fun a s' => a = none → s'.rd.rest = []) (fun _ _ => True) True

open Lean Elab Tactic Meta in
/-- succeed iff the goal is `Spec (c ..) s ..` (or `NoneEnd (c ..) s`) with head constant `c` -/
elab "guard_head " id:ident : tactic => do
  let g := (← instantiateMVars (← getMainTarget)).cleanupAnnotations
  unless g.getAppFn.isConstOf ``Spec || g.getAppFn.isConstOf ``NoneEnd do
    throwError "not a Spec goal"
  let r := g.getAppArgs[1]!
  unless r.getAppFn.isConstOf id.getId.eraseMacroScopes do throwError "head mismatch"

open Lean Elab Tactic Meta in
/-- succeed iff the goal is `Spec (c .. >>= f) s ..` with head constant `c` -/
elab "guard_bind_head " id:ident : tactic => do
  let g := (← instantiateMVars (← getMainTarget)).cleanupAnnotations
  unless g.getAppFn.isConstOf ``Spec do throwError "not a Spec goal"
  let r := g.getAppArgs[1]!
  unless r.getAppFn.isConstOf ``Bind.bind && r.getAppNumArgs == 6 do throwError "not a bind"
  let m := r.getAppArgs[4]!
  unless m.getAppFn.isConstOf id.getId.eraseMacroScopes do throwError "head mismatch"

open Lean Elab Tactic Meta in
/-- succeed iff the goal is `Spec prog s ..` where `prog` is an application of a constant that is
    not one of the structural ones (so that it has to be handled by a lemma about it) -/
elab "guard_call" : tactic => do
  let g := (← instantiateMVars (← getMainTarget)).cleanupAnnotations
  unless g.getAppFn.isConstOf ``Spec do throwError "not a Spec goal"
  let r := g.getAppArgs[1]!
  match r.getAppFn with
  | .const n _ =>
    if n == ``Bind.bind || n == ``ite || n == ``Pure.pure then throwError "structural"
    if (← isMatcher n) then throwError "matcher"
  | _ => throwError "not a constant application"

syntax "wp" "[" term,* "]" : tactic
macro_rules
  | `(tactic| wp [$ts,*]) => `(tactic| repeat' (first
      | intro _
      | (guard_head Pure.pure; refine Spec.pure (by assumption) ?_; arith)
      | (guard_head Lexpr.Parse.errAt; refine Spec.errAt (by assumption) ?_; arith)
      | (guard_head Lexpr.Parse.peekErr; refine Spec.peekErr (by assumption) ?_; arith)
      | (guard_head Lexpr.Parse.panicAt; exact Spec.panicAt)
      | (guard_head Lexpr.Parse.outOfFuel; refine Spec.outOfFuel ?_; arith)
      | (guard_head Lexpr.Parse.liftExcept; first
          | (refine Spec.liftErr (by assumption) ?_ (by assumption); arith)
          | contradiction
          | (simp only [Except.error.injEq] at *; subst_vars;
              refine Spec.liftErr (by assumption) ?_ (by assumption); arith))
      | (guard_head ite; refine Spec.ite ?_ ?_)
      | (guard_head Bind.bind; first
          | (guard_bind_head Pure.pure; refine Spec.pure_bind ?_)
          | (guard_bind_head Bind.bind; refine Spec.bind_assoc ?_)
          | (guard_bind_head Lexpr.Parse.getRest; refine Spec.bind_getRest ?_)
          | (guard_bind_head Lexpr.Parse.getMode; refine Spec.bind_getMode ?_)
          | (guard_bind_head Lexpr.Parse.getPos; refine Spec.bind_getPos ?_)
          | (guard_bind_head Lexpr.Parse.tokenFuel; refine Spec.bind_tokenFuel ?_)
          | (guard_bind_head Lexpr.Parse.peek; refine Spec.bind_peek (by assumption) ?_ ?_; arith)
          | (guard_bind_head Lexpr.Parse.errAt; refine Spec.errAt_bind (by assumption) ?_; arith)
          | (guard_bind_head Lexpr.Parse.peekErr; refine Spec.peekErr_bind (by assumption) ?_; arith)
          | (guard_bind_head Lexpr.Parse.parseWhitespace;
              refine Spec.bind_parseWhitespace (by assumption) ?_ ?_ ?_; arith)
          | (guard_bind_head Lexpr.Parse.enter;
              refine Spec.bind (by assumption) enter_spec ?_ ?_ ?_; arith; arith)
          | (guard_bind_head Lexpr.Parse.leave;
              refine Spec.bind (by assumption) leave_spec ?_ ?_ ?_; arith; arith)
          | (guard_bind_head Lexpr.Parse.attempt; first
              | fail
              $[| (refine Spec.bind_attempt (by assumption) $ts ?_ ?_ ?_; arith)]*)
          | (guard_bind_head Lexpr.Parse.next;
              refine Spec.bind (by assumption) next_spec ?_ ?_ ?_; arith; arith)
          | (guard_bind_head Lexpr.Parse.discard; refine Spec.bind_discard (by assumption) ?_)
          | (guard_bind_head Lexpr.Parse.consumeN; refine Spec.bind_consumeN (by assumption) ?_)
          $[| (refine Spec.bind (by assumption) $ts ?_ ?_ ?_; arith; arith)]*)
      | (guard_call; first
          | (refine Spec.tail (by assumption) discard_spec ?_ ?_ ?_; arith; arith; arith)
          $[| (refine Spec.tail (by assumption) $ts ?_ ?_ ?_; arith; arith; arith)]*)
      | dsimp only
      | split))

/-- Start a proof of `Spec foo s s ..`: unfold `foo` first, then `wp0 [specs]`. -/
syntax "wp0" "[" term,* "]" : tactic
macro_rules
  | `(tactic| wp0 [$ts,*]) => `(tactic| (refine Spec.start ?_; wp [$ts,*]))

/-! ### Lex.lean -/

theorem nextOrEof_spec {s : St} : Spec nextOrEof s s (fun _ => 1) (fun _ => 0) False := by
  unfold nextOrEof
  wp0 []

theorem nextOrEofChar_spec {s : St} : Spec nextOrEofChar s s (fun _ => 1) (fun _ => 0) False := by
  unfold nextOrEofChar
  wp0 []

theorem peekOrNull_spec {s : St} : Spec peekOrNull s s (fun _ => 0) (fun _ => 0) False := by
  unfold peekOrNull
  wp0 []

theorem nextOrNull_spec {s : St} : Spec nextOrNull s s (fun _ => 0) (fun _ => 0) False := by
  unfold nextOrNull
  wp0 []

theorem readCont_spec {n : Nat} {acc : List UInt8} {s : St} :
    Spec (readCont n acc) s s (fun _ => 0) (fun _ => 0) False := by
  induction n generalizing acc s with
  | zero => unfold readCont; wp0 []
  | succ n ih => unfold readCont; wp0 [ih]

theorem decodeUtf8Sequence_spec {b : UInt8} {s : St} :
    Spec (decodeUtf8Sequence b) s s (fun _ => 0) (fun _ => 0) False := by
  unfold decodeUtf8Sequence
  wp0 [readCont_spec]

theorem decodeR6rsHexEscape_spec {fuel n : Nat} {s : St} :
    Spec (decodeR6rsHexEscape fuel n) s s (fun _ => 0) (fun _ => 0) (fuel ≤ s.rd.rest.length) := by
  induction fuel generalizing n s with
  | zero => unfold decodeR6rsHexEscape; wp0 []
  | succ f ih => unfold decodeR6rsHexEscape; wp0 [nextOrEof_spec, ih]

theorem parseR6rsEscape_spec {fuel : Nat} {acc : List UInt8} {s : St} :
    Spec (parseR6rsEscape fuel acc) s s (fun _ => 1) (fun _ => 0) (fuel + 1 ≤ s.rd.rest.length) := by
  unfold parseR6rsEscape
  wp0 [nextOrEof_spec, decodeR6rsHexEscape_spec]


theorem finishStr_spec {c : Bool} {bs : List UInt8} {s : St} :
    Spec (finishStr c bs) s s (fun _ => 0) (fun _ => 0) False := by
  unfold finishStr
  wp0 []

theorem parseR6rsStr_spec {fuel : Nat} {acc : List UInt8} {s : St} :
    Spec (parseR6rsStr fuel acc) s s (fun _ => 0) (fun _ => 0) (fuel ≤ s.rd.rest.length) := by
  induction fuel generalizing acc s with
  | zero => unfold parseR6rsStr; wp0 []
  | succ f ih => unfold parseR6rsStr; wp0 [nextOrEof_spec, finishStr_spec, parseR6rsEscape_spec, ih]

theorem decodeElispHexEscape_spec {fuel n : Nat} {s : St} :
    Spec (decodeElispHexEscape fuel n) s s (fun _ => 0) (fun _ => 0) (fuel ≤ s.rd.rest.length) := by
  induction fuel generalizing n s with
  | zero => unfold decodeElispHexEscape; wp0 []
  | succ f ih => unfold decodeElispHexEscape; wp0 [ih]

theorem decodeElispUniEscape_spec {count n : Nat} {s : St} :
    Spec (decodeElispUniEscape count n) s s (fun _ => 0) (fun _ => 0) False := by
  induction count generalizing n s with
  | zero => unfold decodeElispUniEscape; wp0 []
  | succ f ih => unfold decodeElispUniEscape; wp0 [nextOrEof_spec, ih]

theorem decodeElispOctalEscape_spec {fuel n : Nat} {s : St} :
    Spec (decodeElispOctalEscape fuel n) s s (fun _ => 0) (fun _ => 0) (fuel ≤ s.rd.rest.length) := by
  induction fuel generalizing n s with
  | zero => unfold decodeElispOctalEscape; wp0 []
  | succ f ih => unfold decodeElispOctalEscape; wp0 [ih]

theorem elispCharEscape_spec {acc : List UInt8} {n : Nat} {s : St} :
    Spec (elispCharEscape acc n) s s (fun _ => 0) (fun _ => 0) False := by
  unfold elispCharEscape
  wp0 []

theorem elispUniCharEscape_spec {acc : List UInt8} {n : Nat} {s : St} :
    Spec (elispUniCharEscape acc n) s s (fun _ => 0) (fun _ => 0) False := by
  unfold elispUniCharEscape
  wp0 []

theorem parseElispEscape_spec {fuel : Nat} {acc : List UInt8} {s : St} :
    Spec (parseElispEscape fuel acc) s s (fun _ => 1) (fun _ => 0) (fuel ≤ s.rd.rest.length) := by
  unfold parseElispEscape
  wp0 [nextOrEof_spec, decodeElispHexEscape_spec, decodeElispUniEscape_spec,
    decodeElispOctalEscape_spec, elispCharEscape_spec, elispUniCharEscape_spec]

theorem parseElispStr_spec {fuel : Nat} {acc : List UInt8} {ub mb na : Bool} {s : St} :
    Spec (parseElispStr fuel acc ub mb na) s s (fun _ => 0) (fun _ => 0)
      (fuel ≤ s.rd.rest.length) := by
  induction fuel generalizing acc ub mb na s with
  | zero => unfold parseElispStr; wp0 []
  | succ f ih => unfold parseElispStr; wp0 [nextOrEof_spec, finishStr_spec, parseElispEscape_spec, ih]


theorem decodeR6rsCharHexEscape_spec {fuel n : Nat} {first : Bool} {s : St} :
    Spec (decodeR6rsCharHexEscape fuel n first) s s (fun _ => 0) (fun _ => 0)
      (fuel ≤ s.rd.rest.length) := by
  induction fuel generalizing n first s with
  | zero => unfold decodeR6rsCharHexEscape; wp0 []
  | succ f ih => unfold decodeR6rsCharHexEscape; wp0 [ih]

theorem parseR6rsChar_spec {fuel : Nat} {s : St} :
    Spec (parseR6rsChar fuel) s s (fun _ => 1) (fun _ => 0) (fuel ≤ s.rd.rest.length) := by
  unfold parseR6rsChar
  wp0 [nextOrEofChar_spec, decodeR6rsCharHexEscape_spec, decodeUtf8Sequence_spec]

theorem asChar_spec {n : Nat} {s : St} : Spec (asChar n) s s (fun _ => 0) (fun _ => 0) False := by
  unfold asChar
  wp0 []

theorem asEscapedChar_spec {n : Nat} {s : St} :
    Spec (asEscapedChar n) s s (fun _ => 0) (fun _ => 0) False := by
  unfold asEscapedChar
  wp0 [asChar_spec]

theorem decodeElispCharEscape_spec {fuel : Nat} {s : St} :
    Spec (decodeElispCharEscape fuel) s s (fun _ => 1) (fun _ => 0) (fuel ≤ s.rd.rest.length) := by
  unfold decodeElispCharEscape
  wp0 [nextOrEofChar_spec, nextOrEof_spec, decodeElispHexEscape_spec, decodeElispUniEscape_spec,
    decodeElispOctalEscape_spec, asChar_spec, asEscapedChar_spec, decodeUtf8Sequence_spec]

theorem parseElispChar_spec {fuel : Nat} {s : St} :
    Spec (parseElispChar fuel) s s (fun _ => 1) (fun _ => 0) (fuel ≤ s.rd.rest.length) := by
  unfold parseElispChar
  wp0 [decodeElispCharEscape_spec, decodeUtf8Sequence_spec]

theorem f64FromParts_spec {cfg : Cfg} {pos : Bool} {sig : Nat} {e : Int} {s : St} :
    Spec (f64FromParts cfg pos sig e) s s (fun _ => 0) (fun _ => 0) False := by
  unfold f64FromParts
  wp0 []

theorem skipDigits_spec {s : St} : Spec skipDigits s s (fun _ => 0) (fun _ => 0) False := by
  unfold skipDigits
  wp0 []

theorem parseExponentOverflow_spec {pos : Bool} {sig : Nat} {posExp : Bool} {s : St} :
    Spec (parseExponentOverflow pos sig posExp) s s (fun _ => 0) (fun _ => 0) False := by
  unfold parseExponentOverflow
  wp0 [skipDigits_spec]

theorem exponentLoop_spec {cfg : Cfg} {pos : Bool} {sig : Nat} {startExp : Int} {posExp : Bool}
    {fuel exp : Nat} {s : St} :
    Spec (exponentLoop cfg pos sig startExp posExp fuel exp) s s (fun _ => 0) (fun _ => 0)
      (fuel ≤ s.rd.rest.length) := by
  induction fuel generalizing exp s with
  | zero => unfold exponentLoop; wp0 []
  | succ f ih =>
    unfold exponentLoop
    wp0 [peekOrNull_spec, parseExponentOverflow_spec, f64FromParts_spec, ih]

theorem parseExponent_spec {cfg : Cfg} {fuel : Nat} {pos : Bool} {sig : Nat} {startExp : Int}
    {s : St} :
    Spec (parseExponent cfg fuel pos sig startExp) s s (fun _ => 1) (fun _ => 0)
      (fuel ≤ s.rd.rest.length) := by
  unfold parseExponent
  wp0 [peekOrNull_spec, exponentLoop_spec]

theorem decimalLoop_spec {fuel sig : Nat} {exp : Int} {zeros : Nat} {any : Bool} {s : St} :
    Spec (decimalLoop fuel sig exp zeros any) s s (fun _ => 0) (fun _ => 0)
      (fuel ≤ s.rd.rest.length) := by
  induction fuel generalizing sig exp zeros any s with
  | zero => unfold decimalLoop; wp0 []
  | succ f ih => unfold decimalLoop; wp0 [peekOrNull_spec, skipDigits_spec, ih]

theorem parseDecimal_spec {cfg : Cfg} {fuel : Nat} {pos : Bool} {sig : Nat} {exp : Int} {s : St} :
    Spec (parseDecimal cfg fuel pos sig exp) s s (fun _ => 1) (fun _ => 0)
      (fuel ≤ s.rd.rest.length) := by
  unfold parseDecimal
  wp0 [peekOrNull_spec, decimalLoop_spec, parseExponent_spec, f64FromParts_spec]

theorem parseLongInteger_spec {cfg : Cfg} {radix : Nat} {pos : Bool} {sig fuel exp : Nat} {s : St} :
    Spec (parseLongInteger cfg radix pos sig fuel exp) s s (fun _ => 0) (fun _ => 0)
      (fuel ≤ s.rd.rest.length) := by
  induction fuel generalizing exp s with
  | zero => unfold parseLongInteger; wp0 []
  | succ f ih =>
    unfold parseLongInteger
    generalize (2 : Nat) ^ 1024 = big
    wp0 [peekOrNull_spec, parseDecimal_spec, parseExponent_spec, f64FromParts_spec, ih]

theorem parseNumTail_spec {cfg : Cfg} {fuel radix : Nat} {pos : Bool} {sig : Nat} {s : St} :
    Spec (parseNumTail cfg fuel radix pos sig) s s (fun _ => 0) (fun _ => 0)
      (fuel ≤ s.rd.rest.length) := by
  unfold parseNumTail
  wp0 [peekOrNull_spec, parseDecimal_spec, parseExponent_spec]

theorem numLoop_spec {cfg : Cfg} {radix : Nat} {pos : Bool} {fuel res : Nat} {s : St} :
    Spec (numLoop cfg radix pos fuel res) s s (fun _ => 0) (fun _ => 0)
      (fuel ≤ s.rd.rest.length) := by
  induction fuel generalizing res s with
  | zero => unfold numLoop; wp0 []
  | succ f ih =>
    unfold numLoop
    wp0 [peekOrNull_spec, parseNumTail_spec, parseLongInteger_spec, ih]

theorem parseNumLiteral_spec {cfg : Cfg} {fuel radix : Nat} {pos : Bool} {s : St} :
    Spec (parseNumLiteral cfg fuel radix pos) s s (fun _ => 1) (fun _ => min 1 s.rd.rest.length)
      (fuel ≤ s.rd.rest.length) := by
  unfold parseNumLiteral
  refine Spec.start fun h0 => ?_
  refine Spec.bind_next h0 (by arith) ?_ ?_
  · intro hl
    exact Spec.peekErr h0 (by arith)
  · intro b s' hl h
    dsimp only
    wp [numLoop_spec]

theorem parseRadixLiteral_spec {cfg : Cfg} {fuel radix : Nat} {s : St} :
    Spec (parseRadixLiteral cfg fuel radix) s s (fun _ => 1) (fun _ => 0)
      (fuel ≤ s.rd.rest.length) := by
  unfold parseRadixLiteral
  wp0 [peekOrNull_spec, parseNumLiteral_spec]

theorem expectNumberEnd_spec {n : Number} {s : St} :
    Spec (expectNumberEnd n) s s (fun _ => 0) (fun _ => 0) False := by
  unfold expectNumberEnd
  wp0 []

theorem parseNumToken_spec {cfg : Cfg} {fuel : Nat} {pos : Bool} {s : St} :
    Spec (parseNumToken cfg fuel pos) s s (fun _ => 1) (fun _ => min 1 s.rd.rest.length)
      (fuel ≤ s.rd.rest.length) := by
  unfold parseNumToken
  wp0 [parseNumLiteral_spec, expectNumberEnd_spec]

theorem parseRadixToken_spec {cfg : Cfg} {fuel radix : Nat} {s : St} :
    Spec (parseRadixToken cfg fuel radix) s s (fun _ => 1) (fun _ => 0)
      (fuel ≤ s.rd.rest.length) := by
  unfold parseRadixToken
  wp0 [parseRadixLiteral_spec, expectNumberEnd_spec]

theorem parseNumber_spec {cfg : Cfg} {fuel : Nat} {s : St} :
    Spec (parseNumber cfg fuel) s s (fun _ => 1) (fun _ => 0) (fuel ≤ s.rd.rest.length) := by
  unfold parseNumber
  wp0 [peekOrNull_spec, nextOrNull_spec, parseRadixLiteral_spec]

theorem expectIdent_spec {cs : List UInt8} {s : St} :
    Spec (expectIdent cs) s s (fun _ => 0) (fun _ => 0) False := by
  induction cs generalizing s with
  | nil => unfold expectIdent; wp0 []
  | cons c cs ih => unfold expectIdent; wp0 [ih]

theorem parseSymbolBytes_spec {scratch : List UInt8} {s : St} :
    Spec (parseSymbolBytes scratch) s s
      (fun _ => min (symLen s.rd.mode s.rd.rest) s.rd.rest.length)
      (fun _ => min (symLen s.rd.mode s.rd.rest) s.rd.rest.length) False := by
  unfold parseSymbolBytes
  wp0 []

theorem parseSignDotSymbol_spec {cfg : Cfg} {pfx : List UInt8} {s : St} :
    Spec (parseSignDotSymbol cfg pfx) s s (fun _ => 1) (fun _ => 0) False := by
  unfold parseSignDotSymbol
  wp0 [peekOrNull_spec, parseSymbolBytes_spec]

theorem parseSignToken_spec {cfg : Cfg} {fuel : Nat} {sign : UInt8} {pos : Bool} {s : St} :
    Spec (parseSignToken cfg fuel sign pos) s s (fun _ => 1) (fun _ => 1)
      (fuel ≤ s.rd.rest.length) := by
  unfold parseSignToken
  wp0 [peekOrNull_spec, parseSymbolBytes_spec, parseSignDotSymbol_spec, parseNumToken_spec]


/-! ### `parse_token` consumes at least one byte -/

theorem forall_u8 {p : UInt8 → Bool}
    (h : (List.range 256).all (fun n => p (UInt8.ofNat n)) = true) (b : UInt8) : p b = true := by
  have hb : b.toNat < 256 := UInt8.toNat_lt b
  have := List.all_eq_true.mp h b.toNat (List.mem_range.mpr hb)
  simpa using this

theorem symTerm_eq (m : Mode) (b : UInt8) : symTerm m b = symTermSlice b := by
  cases m <;> rfl

theorem symTerm_of_digit {m : Mode} {b : UInt8} (h : isDigit b = true) : symTerm m b = false := by
  have := forall_u8 (p := fun b => !isDigit b || !symTermSlice b) (by decide +kernel) b
  rw [symTerm_eq]; simpa [h] using this

theorem symTerm_of_colon {m : Mode} {b : UInt8} (h : (b == 58) = true) : symTerm m b = false := by
  have := forall_u8 (p := fun b => !(b == 58) || !symTermSlice b) (by decide +kernel) b
  rw [symTerm_eq]; simpa [h] using this

theorem symTerm_of_alpha {m : Mode} {b : UInt8} (h : isAsciiAlpha b = true) :
    symTerm m b = false := by
  have := forall_u8 (p := fun b => !isAsciiAlpha b || !symTermSlice b) (by decide +kernel) b
  rw [symTerm_eq]; simpa [h] using this

theorem symTerm_of_ext {m : Mode} {b : UInt8} (h : isSymbolExtended b = true) :
    symTerm m b = false := by
  have := forall_u8 (p := fun b => !isSymbolExtended b || !symTermSlice b) (by decide +kernel) b
  rw [symTerm_eq]; simpa [h] using this

theorem symLen_pos {m : Mode} {l : List UInt8} {b : UInt8} (h : l.head? = some b)
    (hb : symTerm m b = false) : 1 ≤ min (symLen m l) l.length := by
  cases l with
  | nil => simp at h
  | cons c t =>
    simp only [List.head?_cons, Option.some.injEq] at h
    subst h
    simp [symLen, hb]

section rules
variable {α β : Type} {k : Nat} {s0 s : St} {ko : β → Nat} {ke : Err → Nat} {F : Prop}

/-- reading the state -/
theorem Spec.bind_getSt {f : St → P β} (hf : Spec (f s) s s0 ko ke F) :
    Spec ((fun s => Res.ok s s : P St) >>= f) s s0 ko ke F := hf

/-- raising a given syntax error -/
theorem Spec.rawErr {c : Code} {l col : Nat} (h : Ext k s0 s) (hk : ke (.syntax c l col) ≤ k) :
    Spec (fun s' => Res.err (.syntax c l col) s' : P β) s s0 ko ke F :=
  ⟨h.mono hk, fun hio => by cases hio⟩

end rules

theorem parseToken_spec {cfg : Cfg} {fuel : Nat} {pk : UInt8} {s : St}
    (hpk : s.rd.rest.head? = some pk) :
    Spec (parseToken cfg fuel pk) s s (fun _ => 1) (fun _ => 1) (fuel ≤ s.rd.rest.length) := by
  have hlen : 1 ≤ s.rd.rest.length := by
    cases hr : s.rd.rest with
    | nil => simp [hr] at hpk
    | cons b t => simp
  unfold parseToken
  wp0 [peekOrNull_spec, expectIdent_spec, parseSymbolBytes_spec, parseRadixToken_spec,
    parseR6rsChar_spec, parseSignToken_spec, parseNumToken_spec, parseR6rsStr_spec,
    parseElispStr_spec, parseElispChar_spec, decodeUtf8Sequence_spec]
  all_goals try (
    (first
      | have hN := symLen_pos hpk (symTerm_of_digit (m := s.rd.mode) ‹_›)
      | have hN := symLen_pos hpk (symTerm_of_colon (m := s.rd.mode) ‹_›)
      | have hN := symLen_pos hpk (symTerm_of_alpha (m := s.rd.mode) ‹_›)
      | have hN := symLen_pos hpk (symTerm_of_ext (m := s.rd.mode) ‹_›));
    wp [parseSymbolBytes_spec])
  refine Spec.bind_getSt ?_
  refine Spec.bind (by assumption) discard_spec (by arith) (by arith) ?_
  intro _ s' h
  exact Spec.rawErr h (by arith)

theorem endSeq_spec {close : UInt8} {s : St} :
    Spec (endSeq close) s s (fun _ => 0) (fun _ => 0) False := by
  unfold endSeq
  wp0 []

theorem byteListLoop_spec {cfg : Cfg} {close : UInt8} {fuel : Nat} {acc : List UInt8} {s : St} :
    Spec (byteListLoop cfg close fuel acc) s s (fun _ => 0) (fun _ => 0)
      (fuel ≤ s.rd.rest.length) := by
  induction fuel generalizing acc s with
  | zero => unfold byteListLoop; wp0 []
  | succ f ih => unfold byteListLoop; wp0 [parseNumber_spec, expectNumberEnd_spec, ih]

theorem parseByteList_spec {cfg : Cfg} {close : UInt8} {fuel : Nat} {s : St} :
    Spec (parseByteList cfg fuel close) s s (fun _ => 0) (fun _ => 0)
      (fuel ≤ s.rd.rest.length) := by
  unfold parseByteList
  wp0 [byteListLoop_spec]


theorem optN_le {α : Type} (a : Option α) : optN a ≤ 1 := by cases a <;> simp [optN]

theorem value_specs (cfg : Cfg) : ∀ fuel : Nat,
    (∀ s, Spec (nextValue cfg fuel) s s optN synN (fuel ≤ 2 * s.rd.rest.length)) ∧
    (∀ term acc s, Spec (parseList cfg fuel term acc) s s (fun _ => 0) (fun _ => 0)
      (fuel ≤ 2 * s.rd.rest.length + 1)) ∧
    (∀ term acc s, Spec (parseVector cfg fuel term acc) s s (fun _ => 0) (fun _ => 0)
      (fuel ≤ 2 * s.rd.rest.length + 1)) := by
  intro fuel
  induction fuel with
  | zero =>
    refine ⟨?_, ?_, ?_⟩
    · intro s; unfold nextValue; wp0 []
    · intro term acc s; unfold parseList; wp0 []
    · intro term acc s; unfold parseVector; wp0 []
  | succ f ih =>
    refine ⟨?_, ?_, ?_⟩
    · intro s
      unfold nextValue
      refine Spec.start fun h0 => ?_
      refine Spec.bind_parseWhitespace h0 (by simp [synN]) ?_ ?_
      · intro s' h hl
        exact Spec.pure h (by simp [optN])
      · intro pk s' h hpk hl
        dsimp only
        refine Spec.tail h (ko1 := fun _ => 1) (ke1 := fun _ => 1)
          (F1 := f + 1 ≤ 2 * s'.rd.rest.length) ?_ (fun a => by have := optN_le a; omega)
          (fun e => by have := synN_le e; omega) (by arith)
        refine Spec.start fun h0' => ?_
        refine Spec.bind_tokenFuel ?_
        refine Spec.bind h0' (parseToken_spec hpk) (by arith) (by arith) ?_
        intro tok s2 h2
        wp [parseByteList_spec, ih.1 _, ih.2.1 _ _ _, ih.2.2 _ _ _, endSeq_spec]
    · intro term acc s
      unfold parseList
      wp0 [peekOrNull_spec, parseSymbolBytes_spec, ih.1 _, ih.2.1 _ _ _]
    · intro term acc s
      unfold parseVector
      wp0 [ih.1 _, ih.2.2 _ _ _]

theorem datum_specs (cfg : Cfg) : ∀ fuel : Nat,
    (∀ s, Spec (nextDatum cfg fuel) s s optN synN (fuel ≤ 2 * s.rd.rest.length)) ∧
    (∀ term acc ms s, Spec (parseListMeta cfg fuel term acc ms) s s (fun _ => 0) (fun _ => 0)
      (fuel ≤ 2 * s.rd.rest.length + 1)) ∧
    (∀ term acc ms s, Spec (parseVectorMeta cfg fuel term acc ms) s s (fun _ => 0) (fun _ => 0)
      (fuel ≤ 2 * s.rd.rest.length + 1)) := by
  intro fuel
  induction fuel with
  | zero =>
    refine ⟨?_, ?_, ?_⟩
    · intro s; unfold nextDatum; wp0 []
    · intro term acc ms s; unfold parseListMeta; wp0 []
    · intro term acc ms s; unfold parseVectorMeta; wp0 []
  | succ f ih =>
    refine ⟨?_, ?_, ?_⟩
    · intro s
      unfold nextDatum
      refine Spec.start fun h0 => ?_
      refine Spec.bind_parseWhitespace h0 (by simp [synN]) ?_ ?_
      · intro s' h hl
        exact Spec.pure h (by simp [optN])
      · intro pk s' h hpk hl
        dsimp only
        refine Spec.tail h (ko1 := fun _ => 1) (ke1 := fun _ => 1)
          (F1 := f + 1 ≤ 2 * s'.rd.rest.length) ?_ (fun a => by have := optN_le a; omega)
          (fun e => by have := synN_le e; omega) (by arith)
        refine Spec.start fun h0' => ?_
        refine Spec.bind_getPos ?_
        refine Spec.bind_tokenFuel ?_
        refine Spec.bind h0' (parseToken_spec hpk) (by arith) (by arith) ?_
        intro tok s2 h2
        wp [parseByteList_spec, ih.1 _, ih.2.1 _ _ _ _, ih.2.2 _ _ _ _, endSeq_spec]
    · intro term acc ms s
      unfold parseListMeta
      wp0 [peekOrNull_spec, parseSymbolBytes_spec, ih.1 _, ih.2.1 _ _ _ _]
    · intro term acc ms s
      unfold parseVectorMeta
      wp0 [ih.1 _, ih.2.2 _ _ _ _]

/-! ### public entry points -/

section rules
variable {α β : Type} {k : Nat} {s0 s : St} {ko : β → Nat} {ke : Err → Nat} {F : Prop}

theorem Spec.bind_apiFuel {f : Nat → P β}
    (hf : Spec (f (2 * s.rd.rest.length + 4)) s s0 ko ke F) :
    Spec (apiFuel >>= f) s s0 ko ke F := hf

theorem Spec.ok {α : Type} {m : P α} {ko : α → Nat} {a : α} {s' : St}
    (h : Spec m s s0 ko ke F) (hr : m s = .ok a s') : Ext (ko a) s0 s' := by
  unfold Spec at h; rw [hr] at h; exact h

theorem Spec.err {α : Type} {m : P α} {ko : α → Nat} {e : Err} {s' : St}
    (h : Spec m s s0 ko ke F) (hr : m s = .err e s') : EP (ke e) s0 e s' := by
  unfold Spec at h; rw [hr] at h; exact h

theorem Spec.no_fuel {α : Type} {m : P α} {ko : α → Nat}
    (h : Spec m s s0 ko ke F) (hF : ¬F) : m s ≠ .fuel := by
  intro hr; unfold Spec at h; rw [hr] at h; exact hF h

end rules

theorem nextValueTop_spec {cfg : Cfg} {s : St} : Spec (nextValueTop cfg) s s optN synN False := by
  unfold nextValueTop
  refine Spec.bind_apiFuel ?_
  exact Spec.tail (Ext.refl s) ((value_specs cfg _).1 s) (by arith) (by arith) (by arith)

theorem nextDatumTop_spec {cfg : Cfg} {s : St} : Spec (nextDatumTop cfg) s s optN synN False := by
  unfold nextDatumTop
  refine Spec.bind_apiFuel ?_
  exact Spec.tail (Ext.refl s) ((datum_specs cfg _).1 s) (by arith) (by arith) (by arith)

theorem expectValue_spec {cfg : Cfg} {s : St} :
    Spec (expectValue cfg) s s (fun _ => 1) (fun _ => 0) False := by
  unfold expectValue
  wp0 [nextValueTop_spec]

theorem expectDatum_spec {cfg : Cfg} {s : St} :
    Spec (expectDatum cfg) s s (fun _ => 1) (fun _ => 0) False := by
  unfold expectDatum
  wp0 [nextDatumTop_spec]

theorem expectEnd_spec {s : St} : Spec expectEnd s s (fun _ => 0) (fun _ => 0) False := by
  unfold expectEnd
  wp0 []

theorem fromTrait_spec {cfg : Cfg} {s : St} :
    Spec (fromTrait cfg) s s (fun _ => 1) (fun _ => 0) False := by
  unfold fromTrait
  wp0 [expectValue_spec, expectEnd_spec]

theorem fromTraitDatum_spec {cfg : Cfg} {s : St} :
    Spec (fromTraitDatum cfg) s s (fun _ => 1) (fun _ => 0) False := by
  unfold fromTraitDatum
  wp0 [expectDatum_spec, expectEnd_spec]

/-! ### iteration -/

/-- An item that reports consumed input: a value, a datum or a syntax error. -/
def _root_.Lexpr.Parse.Item.isProgress : Item → Prop
  | .value _ => True
  | .datum _ => True
  | .err (.syntax _ _ _) => True
  | _ => False

/-- The operations that `iterate` is meant for. -/
def _root_.Lexpr.Parse.Op.isNext : Op → Prop
  | .nextValue | .nextDatum | .valueIterNext | .datumIterNext | .parserNext => True
  | _ => False

set_option hygiene false in
/-- case analysis on a generalised result `r` with `hr : Sat r ..` (local to `stepOp_cases`) -/
macro "step_res" : tactic => `(tactic| (
  rcases r with ⟨_ | v, s'⟩ | ⟨e, s'⟩ | p | _
  · exact Or.inl ⟨_, rfl⟩
  · have h : Ext 1 s s' := hr
    exact Or.inr (Or.inl ⟨_, _, rfl, trivial, by have := h.len; omega, by rw [h.faulty, hf]⟩)
  · have h : EP (synN e) s e s' := hr
    cases e with
    | io => have := h.2 rfl; rw [hf] at this; cases this
    | «syntax» c l k =>
      exact Or.inr (Or.inl ⟨_, _, rfl, trivial, by have := h.1.len; simp [synN] at this; omega,
        by rw [h.1.faulty, hf]⟩)
  · exact Or.inr (Or.inr ⟨p, rfl⟩)
  · exact hr.elim))

/-- One step of a `next`-like operation on a non-faulty source: end of input, or progress by at
    least one byte (staying non-faulty), or a panic.  Never `fuel`, never an `io` error. -/
theorem stepOp_cases (cfg : Cfg) (op : Op) (hop : op.isNext) (s : St)
    (hf : s.rd.faulty = false) :
    (∃ o, stepOp cfg op s = (.none_, o)) ∨
    (∃ it s', stepOp cfg op s = (it, some s') ∧ it.isProgress ∧
      s'.rd.rest.length < s.rd.rest.length ∧ s'.rd.faulty = false) ∨
    (∃ p, stepOp cfg op s = (.panic p, none)) := by
  have hv := @nextValueTop_spec cfg s
  have hd := @nextDatumTop_spec cfg s
  unfold Spec at hv hd
  cases op <;> first
    | exact hop.elim
    | (simp only [stepOp]
       generalize nextValueTop cfg s = r at hv ⊢
       have hr := hv
       step_res)
    | (simp only [stepOp]
       generalize nextDatumTop cfg s = r at hd ⊢
       have hr := hd
       step_res)

theorem iterate_terminates (cfg : Cfg) (op : Op) (hop : op.isNext) :
    ∀ (cap : Nat) (s : St), s.rd.faulty = false → s.rd.rest.length + 1 < cap →
    ∃ items last, iterate cfg op cap s = items ++ [last] ∧
      items.length ≤ s.rd.rest.length ∧ (∀ it ∈ items, it.isProgress) ∧
      (last = .none_ ∨ ∃ p, last = .panic p) := by
  intro cap
  induction cap with
  | zero => intro s _ h; omega
  | succ cap ih =>
    intro s hf hcap
    rcases stepOp_cases cfg op hop s hf with ⟨o, h⟩ | ⟨it, s', h, hit, hlen, hf'⟩ | ⟨p, h⟩
    · refine ⟨[], .none_, ?_, by simp, by simp, Or.inl rfl⟩
      simp only [iterate, h, List.nil_append]
    · obtain ⟨items, last, hi, hl, hall, hlast⟩ := ih s' hf' (by omega)
      refine ⟨it :: items, last, ?_, by simp only [List.length_cons]; omega, ?_, hlast⟩
      · cases it <;> first | exact hit.elim | simp only [iterate, h, hi, List.cons_append]
      · intro x hx
        rcases List.mem_cons.mp hx with rfl | hx
        · exact hit
        · exact hall x hx
    · refine ⟨[], .panic p, ?_, by simp, by simp, Or.inr ⟨p, rfl⟩⟩
      simp only [iterate, h, List.nil_append]

/-! ### `Ok(None)` only at the end of the input -/

theorem Sat.triv {α : Type} (r : Res α) : Sat r (fun _ _ => True) (fun _ _ => True) True := by
  cases r <;> trivial

section rules
variable {α β : Type} {s : St}

theorem NoneEnd.bind {m : P α} {f : α → P (Option β)} (hf : ∀ a s', NoneEnd (f a) s') :
    NoneEnd (m >>= f) s :=
  Sat.bind (Sat.triv (m s)) (fun a s' _ => hf a s') (fun _ _ _ => trivial) id

theorem NoneEnd.pure_some {a : α} : NoneEnd (Pure.pure (some a) : P (Option α)) s :=
  fun h => nomatch h

theorem NoneEnd.liftErr {e : Err} : NoneEnd (liftExcept (.error e) : P (Option α)) s := trivial
theorem NoneEnd.peekErr {c : Code} : NoneEnd (Parse.peekErr c : P (Option α)) s := trivial
theorem NoneEnd.panicAt {p : Site} : NoneEnd (Parse.panicAt p : P (Option α)) s := trivial
theorem NoneEnd.outOfFuel : NoneEnd (Parse.outOfFuel : P (Option α)) s := trivial

end rules

theorem parseWhitespace_none (s : St) :
    Sat (parseWhitespace s) (fun a s' => a = none → s'.rd.rest = []) (fun _ _ => True) True := by
  unfold parseWhitespace
  show Sat (P.bind getRest (fun rest => P.bind (consumeN (wsLen rest)) fun _ => peek) s) _ _ _
  simp only [P.bind, getRest, consumeN, peek]
  split
  · intro h; cases h
  · split
    · trivial
    · intro _; assumption

macro "none_end" : tactic => `(tactic| repeat' (first
  | (guard_head Pure.pure; exact NoneEnd.pure_some)
  | (guard_head Lexpr.Parse.liftExcept; exact NoneEnd.liftErr)
  | (guard_head Lexpr.Parse.peekErr; exact NoneEnd.peekErr)
  | (guard_head Lexpr.Parse.panicAt; exact NoneEnd.panicAt)
  | (guard_head Bind.bind; refine NoneEnd.bind ?_; intro _ _)
  | split))

theorem nextValue_noneEnd (cfg : Cfg) (fuel : Nat) (s : St) : NoneEnd (nextValue cfg fuel) s := by
  cases fuel with
  | zero => unfold nextValue; exact NoneEnd.outOfFuel
  | succ f =>
    unfold nextValue
    refine Sat.bind (parseWhitespace_none s) ?_ (fun _ _ _ => trivial) id
    intro a s1 ha
    cases a with
    | none => show NoneEnd (Pure.pure none) s1; intro _; exact ha rfl
    | some pk =>
      show NoneEnd _ s1
      dsimp only
      none_end

theorem nextDatum_noneEnd (cfg : Cfg) (fuel : Nat) (s : St) : NoneEnd (nextDatum cfg fuel) s := by
  cases fuel with
  | zero => unfold nextDatum; exact NoneEnd.outOfFuel
  | succ f =>
    unfold nextDatum
    refine Sat.bind (parseWhitespace_none s) ?_ (fun _ _ _ => trivial) id
    intro a s1 ha
    cases a with
    | none => show NoneEnd (Pure.pure none) s1; intro _; exact ha rfl
    | some pk =>
      show NoneEnd _ s1
      dsimp only
      none_end

/-! ### no operation runs out of fuel -/

theorem stepOp_ne_fuel (cfg : Cfg) (op : Op) (s : St) : (stepOp cfg op s).1 ≠ Item.fuel := by
  have hv := (@nextValueTop_spec cfg s).no_fuel id
  have hd := (@nextDatumTop_spec cfg s).no_fuel id
  have hev := (@expectValue_spec cfg s).no_fuel id
  have hed := (@expectDatum_spec cfg s).no_fuel id
  have hee := (@expectEnd_spec s).no_fuel id
  cases op <;> simp only [stepOp] <;> split <;> simp_all

theorem runHistory_ne_fuel (cfg : Cfg) :
    ∀ (ops : List Op) (s : St), ∀ it ∈ runHistory cfg ops s, it ≠ Item.fuel
  | [], s => by simp [runHistory]
  | op :: ops, s => by
    have h1 := stepOp_ne_fuel cfg op s
    have ih := runHistory_ne_fuel cfg ops
    simp only [runHistory]
    split
    · rename_i it s' heq
      rw [heq] at h1
      intro x hx
      rcases List.mem_cons.mp hx with rfl | hx
      · exact h1
      · exact ih s' x hx
    · rename_i it heq
      rw [heq] at h1
      intro x hx
      rcases List.mem_cons.mp hx with rfl | hx
      · exact h1
      · cases hx

/-- `r` stopped in state `s'`, successfully or with an error. -/
def _root_.Lexpr.Parse.Res.endsIn {α : Type} (r : Res α) (s' : St) : Prop :=
  (∃ a, r = .ok a s') ∨ (∃ e, r = .err e s')

theorem Spec.suffix {α : Type} {m : P α} {s s' : St} {ko : α → Nat} {ke : Err → Nat} {F : Prop}
    (h : Spec m s s ko ke F) (hr : (m s).endsIn s') : s'.rd.rest <:+ s.rd.rest := by
  rcases hr with ⟨a, hr⟩ | ⟨e, hr⟩
  · exact (h.ok hr).suf
  · exact (h.err hr).1.suf

/-! helpers for the concrete examples: the checks are evaluated by the kernel -/

def okSome {α : Type} : Res (Option α) → Bool
  | .ok (some _) _ => true
  | _ => false
def okAny {α : Type} : Res α → Bool
  | .ok _ _ => true
  | _ => false
def syntaxErr {α : Type} : Res α → Bool
  | .err (.syntax _ _ _) _ => true
  | _ => false
def ioErr {α : Type} : Res α → Bool
  | .err .io _ => true
  | _ => false

theorem okSome_elim {α : Type} {r : Res (Option α)} (h : okSome r = true) :
    ∃ v s', r = .ok (some v) s' := by
  rcases r with ⟨_ | v, s'⟩ | _ | _ | _ <;> first | exact ⟨_, _, rfl⟩ | cases h
theorem okAny_elim {α : Type} {r : Res α} (h : okAny r = true) : ∃ v s', r = .ok v s' := by
  rcases r with ⟨v, s'⟩ | _ | _ | _ <;> first | exact ⟨_, _, rfl⟩ | cases h
theorem syntaxErr_elim {α : Type} {r : Res α} (h : syntaxErr r = true) :
    ∃ c l k s', r = .err (.syntax c l k) s' := by
  rcases r with _ | ⟨_ | _, s'⟩ | _ | _ <;> first | exact ⟨_, _, _, _, rfl⟩ | cases h
theorem ioErr_elim {α : Type} {r : Res α} (h : ioErr r = true) : ∃ s', r = .err .io s' := by
  rcases r with _ | ⟨_ | _, s'⟩ | _ | _ <;> first | exact ⟨_, rfl⟩ | cases h

def exCfg : Cfg := { opts := Options.default, isAlphabetic := fun _ => false, pow10 := fun _ => 0 }

theorem nextValueTop_eq (cfg : Cfg) (s : St) :
    nextValueTop cfg s = nextValue cfg (2 * s.rd.rest.length + 4) s := rfl

theorem nextDatumTop_eq (cfg : Cfg) (s : St) :
    nextDatumTop cfg s = nextDatum cfg (2 * s.rd.rest.length + 4) s := rfl

/-! ## Main theorems -/

/-- **rest_suffix**: `next_value`, `next_datum` and `expect_end` only consume input: whenever they
    stop in a state `s'` (with a result or with an error), the unread input of `s'` is a suffix of
    the unread input they started from.  This holds for every amount of fuel. -/
theorem rest_suffix (cfg : Cfg) (fuel : Nat) (s s' : St) :
    ((nextValue cfg fuel s).endsIn s' → s'.rd.rest <:+ s.rd.rest) ∧
    ((nextDatum cfg fuel s).endsIn s' → s'.rd.rest <:+ s.rd.rest) ∧
    ((expectEnd s).endsIn s' → s'.rd.rest <:+ s.rd.rest) :=
  ⟨((value_specs cfg fuel).1 s).suffix, ((datum_specs cfg fuel).1 s).suffix, expectEnd_spec.suffix⟩

example : ∃ v s', nextValue exCfg 20 (initSt .str (asc "(a . b) c")) = .ok (some v) s' :=
  okSome_elim (by decide +kernel)

/-- **rest_suffix_api**: the same for the public entry points, which compute their own fuel. -/
theorem rest_suffix_api (cfg : Cfg) (s s' : St) :
    ((nextValueTop cfg s).endsIn s' → s'.rd.rest <:+ s.rd.rest) ∧
    ((nextDatumTop cfg s).endsIn s' → s'.rd.rest <:+ s.rd.rest) ∧
    ((expectValue cfg s).endsIn s' → s'.rd.rest <:+ s.rd.rest) ∧
    ((expectDatum cfg s).endsIn s' → s'.rd.rest <:+ s.rd.rest) ∧
    ((fromTrait cfg s).endsIn s' → s'.rd.rest <:+ s.rd.rest) ∧
    ((fromTraitDatum cfg s).endsIn s' → s'.rd.rest <:+ s.rd.rest) :=
  ⟨nextValueTop_spec.suffix, nextDatumTop_spec.suffix, expectValue_spec.suffix,
   expectDatum_spec.suffix, fromTrait_spec.suffix, fromTraitDatum_spec.suffix⟩

example : ∃ v s', fromTrait exCfg (initSt .slice (asc " #(1 2) ")) = .ok v s' :=
  okAny_elim (by decide +kernel)

/-- **C12_progress**: a call of `next_value` / `next_datum` that returns a value, or that fails
    with a syntax error, has consumed at least one byte.  (Only `Ok(None)` and an `io` error can
    leave the input where it was.)  Holds for every amount of fuel. -/
theorem C12_progress (cfg : Cfg) (fuel : Nat) (s s' : St) :
    (∀ v, nextValue cfg fuel s = .ok (some v) s' → s'.rd.rest.length < s.rd.rest.length) ∧
    (∀ c l k, nextValue cfg fuel s = .err (.syntax c l k) s' →
      s'.rd.rest.length < s.rd.rest.length) ∧
    (∀ d, nextDatum cfg fuel s = .ok (some d) s' → s'.rd.rest.length < s.rd.rest.length) ∧
    (∀ c l k, nextDatum cfg fuel s = .err (.syntax c l k) s' →
      s'.rd.rest.length < s.rd.rest.length) := by
  refine ⟨fun v h => ?_, fun c l k h => ?_, fun d h => ?_, fun c l k h => ?_⟩
  · have := (((value_specs cfg fuel).1 s).ok h).len; simp only [optN] at this; omega
  · have := (((value_specs cfg fuel).1 s).err h).1.len; simp only [synN] at this; omega
  · have := (((datum_specs cfg fuel).1 s).ok h).len; simp only [optN] at this; omega
  · have := (((datum_specs cfg fuel).1 s).err h).1.len; simp only [synN] at this; omega

example : ∃ c l k s', nextValue exCfg 5 (initSt .slice (asc ")")) = .err (.syntax c l k) s' :=
  syntaxErr_elim (by decide +kernel)
example : ∃ d s', nextDatum exCfg 9 (initSt .io (asc "'x")) = .ok (some d) s' :=
  okSome_elim (by decide +kernel)

/-- **C12_progress_api**: the same for `nextValueTop` / `nextDatumTop`. -/
theorem C12_progress_api (cfg : Cfg) (s s' : St) :
    (∀ v, nextValueTop cfg s = .ok (some v) s' → s'.rd.rest.length < s.rd.rest.length) ∧
    (∀ c l k, nextValueTop cfg s = .err (.syntax c l k) s' →
      s'.rd.rest.length < s.rd.rest.length) ∧
    (∀ d, nextDatumTop cfg s = .ok (some d) s' → s'.rd.rest.length < s.rd.rest.length) ∧
    (∀ c l k, nextDatumTop cfg s = .err (.syntax c l k) s' →
      s'.rd.rest.length < s.rd.rest.length) := by
  refine ⟨fun v h => ?_, fun c l k h => ?_, fun d h => ?_, fun c l k h => ?_⟩
  · have := ((@nextValueTop_spec cfg s).ok h).len; simp only [optN] at this; omega
  · have := ((@nextValueTop_spec cfg s).err h).1.len; simp only [synN] at this; omega
  · have := ((@nextDatumTop_spec cfg s).ok h).len; simp only [optN] at this; omega
  · have := ((@nextDatumTop_spec cfg s).err h).1.len; simp only [synN] at this; omega

example : ∃ v s', nextValueTop exCfg (initSt .str (asc "\"a\\x41;\" 1")) = .ok (some v) s' :=
  okSome_elim (by decide +kernel)

/-- **io_error_faulty**: an `io` error is only ever reported by a faulty source, and the
    `faulty` flag and the kind of source never change. -/
theorem io_error_faulty (cfg : Cfg) (fuel : Nat) (s s' : St) :
    (nextValue cfg fuel s = .err .io s' → s.rd.faulty = true) ∧
    (nextDatum cfg fuel s = .err .io s' → s.rd.faulty = true) ∧
    ((nextValue cfg fuel s).endsIn s' → s'.rd.faulty = s.rd.faulty ∧ s'.rd.mode = s.rd.mode) ∧
    ((nextDatum cfg fuel s).endsIn s' → s'.rd.faulty = s.rd.faulty ∧ s'.rd.mode = s.rd.mode) := by
  refine ⟨fun h => (((value_specs cfg fuel).1 s).err h).2 rfl,
    fun h => (((datum_specs cfg fuel).1 s).err h).2 rfl, ?_, ?_⟩
  · rintro (⟨a, h⟩ | ⟨e, h⟩)
    · exact ⟨(((value_specs cfg fuel).1 s).ok h).faulty, (((value_specs cfg fuel).1 s).ok h).mode⟩
    · exact ⟨(((value_specs cfg fuel).1 s).err h).1.faulty,
        (((value_specs cfg fuel).1 s).err h).1.mode⟩
  · rintro (⟨a, h⟩ | ⟨e, h⟩)
    · exact ⟨(((datum_specs cfg fuel).1 s).ok h).faulty, (((datum_specs cfg fuel).1 s).ok h).mode⟩
    · exact ⟨(((datum_specs cfg fuel).1 s).err h).1.faulty,
        (((datum_specs cfg fuel).1 s).err h).1.mode⟩

example : ∃ s', nextValue exCfg 9 (initSt .io (asc "(a") true) = .err .io s' :=
  ioErr_elim (by decide +kernel)

/-- **C12_none_at_end**: `next_value` / `next_datum` (for every amount of fuel, hence also the
    public entry points) report `Ok(None)` only when no unread input is left. -/
theorem C12_none_at_end (cfg : Cfg) (fuel : Nat) (s s' : St) :
    (nextValue cfg fuel s = .ok none s' → s'.rd.rest = []) ∧
    (nextDatum cfg fuel s = .ok none s' → s'.rd.rest = []) ∧
    (nextValueTop cfg s = .ok none s' → s'.rd.rest = []) ∧
    (nextDatumTop cfg s = .ok none s' → s'.rd.rest = []) := by
  have key1 : ∀ fuel, nextValue cfg fuel s = .ok none s' → s'.rd.rest = [] := fun fuel h => by
    have := nextValue_noneEnd cfg fuel s
    unfold NoneEnd at this; rw [h] at this; exact this rfl
  have key2 : ∀ fuel, nextDatum cfg fuel s = .ok none s' → s'.rd.rest = [] := fun fuel h => by
    have := nextDatum_noneEnd cfg fuel s
    unfold NoneEnd at this; rw [h] at this; exact this rfl
  exact ⟨key1 fuel, key2 fuel, fun h => key1 _ (nextValueTop_eq cfg s ▸ h),
    fun h => key2 _ (nextDatumTop_eq cfg s ▸ h)⟩

example : ∃ s', nextValue exCfg 3 (initSt .str (asc " ; c")) = .ok none s' ∧ s'.rd.rest = [] := by
  refine ⟨_, rfl, rfl⟩

/-- **C12_terminates**: iterating one of the `next` operations on a non-faulty source, with a cap
    larger than the input length plus one, produces `items ++ [last]` where `last` is `Ok(None)`
    (or a panic), there are at most as many `items` as there are input bytes, and every item is
    a value, a datum or a syntax error.  In particular no `fuel` and no `io` item occurs and the
    cap is never what stops the iteration. -/
theorem C12_terminates (cfg : Cfg) (op : Op)
    (hop : op = .nextValue ∨ op = .nextDatum ∨ op = .valueIterNext ∨ op = .datumIterNext ∨
      op = .parserNext)
    (s : St) (hf : s.rd.faulty = false) (cap : Nat) (hcap : cap > s.rd.rest.length + 1) :
    ∃ items last, iterate cfg op cap s = items ++ [last] ∧
      items.length ≤ s.rd.rest.length ∧ (∀ it ∈ items, it.isProgress) ∧
      (last = .none_ ∨ ∃ p, last = .panic p) := by
  refine iterate_terminates cfg op ?_ cap s hf hcap
  rcases hop with rfl | rfl | rfl | rfl | rfl <;> trivial

example : (initSt .str (asc "a (b) #t")).rd.faulty = false ∧
    12 > (initSt .str (asc "a (b) #t")).rd.rest.length + 1 := by decide
example : (iterate exCfg .nextValue 12 (initSt .str (asc "a (b) #t"))).length = 4 := by
  decide +kernel

/-- **C03_fuel**: the public entry points never run out of fuel. -/
theorem C03_fuel (cfg : Cfg) (s : St) :
    nextValueTop cfg s ≠ .fuel ∧ nextDatumTop cfg s ≠ .fuel ∧ expectValue cfg s ≠ .fuel ∧
    expectDatum cfg s ≠ .fuel ∧ expectEnd s ≠ .fuel ∧ fromTrait cfg s ≠ .fuel ∧
    fromTraitDatum cfg s ≠ .fuel :=
  ⟨nextValueTop_spec.no_fuel id, nextDatumTop_spec.no_fuel id, expectValue_spec.no_fuel id,
   expectDatum_spec.no_fuel id, expectEnd_spec.no_fuel id, fromTrait_spec.no_fuel id,
   fromTraitDatum_spec.no_fuel id⟩

example : nextValueTop exCfg (initSt .str (asc "((((((")) ≠ .fuel := (C03_fuel _ _).1

/-- **C03_fuel_bound**: `2 * length + 1` units of fuel are enough for `next_value` / `next_datum`
    (`apiFuel` passes `2 * length + 4`), `length + 1` units (`tokenFuel`) are enough for
    `parse_token` and for `parse_byte_list`. -/
theorem C03_fuel_bound (cfg : Cfg) (fuel : Nat) (s : St) :
    (2 * s.rd.rest.length < fuel → nextValue cfg fuel s ≠ .fuel ∧ nextDatum cfg fuel s ≠ .fuel) ∧
    (s.rd.rest.length < fuel →
      (∀ pk, s.rd.rest.head? = some pk → parseToken cfg fuel pk s ≠ .fuel) ∧
      (∀ close, parseByteList cfg fuel close s ≠ .fuel)) := by
  refine ⟨fun h => ⟨((value_specs cfg fuel).1 s).no_fuel (by omega),
    ((datum_specs cfg fuel).1 s).no_fuel (by omega)⟩,
    fun h => ⟨fun pk hpk => (parseToken_spec hpk).no_fuel (by omega),
      fun close => parseByteList_spec.no_fuel (by omega)⟩⟩

example : 2 * (initSt .str (asc "(1 . 2)")).rd.rest.length < 15 := by decide

/-- **C03_fuel_scanners**: for each scanner of Lex.lean that loops, more fuel than there are unread
    bytes (`tokenFuel` is `length + 1`) is enough. -/
theorem C03_fuel_scanners (cfg : Cfg) (fuel : Nat) (s : St) (h : s.rd.rest.length < fuel) :
    (∀ n, decodeR6rsHexEscape fuel n s ≠ .fuel) ∧
    (∀ acc, parseR6rsEscape fuel acc s ≠ .fuel) ∧
    (∀ acc, parseR6rsStr fuel acc s ≠ .fuel) ∧
    (∀ n, decodeElispHexEscape fuel n s ≠ .fuel) ∧
    (∀ n, decodeElispOctalEscape fuel n s ≠ .fuel) ∧
    (∀ acc, parseElispEscape fuel acc s ≠ .fuel) ∧
    (∀ acc ub mb na, parseElispStr fuel acc ub mb na s ≠ .fuel) ∧
    (∀ n first, decodeR6rsCharHexEscape fuel n first s ≠ .fuel) ∧
    parseR6rsChar fuel s ≠ .fuel ∧
    decodeElispCharEscape fuel s ≠ .fuel ∧
    parseElispChar fuel s ≠ .fuel ∧
    (∀ pos sig startExp posExp exp, exponentLoop cfg pos sig startExp posExp fuel exp s ≠ .fuel) ∧
    (∀ pos sig startExp, parseExponent cfg fuel pos sig startExp s ≠ .fuel) ∧
    (∀ sig exp zeros any, decimalLoop fuel sig exp zeros any s ≠ .fuel) ∧
    (∀ pos sig exp, parseDecimal cfg fuel pos sig exp s ≠ .fuel) ∧
    (∀ radix pos sig exp, parseLongInteger cfg radix pos sig fuel exp s ≠ .fuel) ∧
    (∀ radix pos sig, parseNumTail cfg fuel radix pos sig s ≠ .fuel) ∧
    (∀ radix pos res, numLoop cfg radix pos fuel res s ≠ .fuel) ∧
    (∀ radix pos, parseNumLiteral cfg fuel radix pos s ≠ .fuel) ∧
    (∀ radix, parseRadixLiteral cfg fuel radix s ≠ .fuel) ∧
    (∀ pos, parseNumToken cfg fuel pos s ≠ .fuel) ∧
    (∀ radix, parseRadixToken cfg fuel radix s ≠ .fuel) ∧
    parseNumber cfg fuel s ≠ .fuel ∧
    (∀ sign pos, parseSignToken cfg fuel sign pos s ≠ .fuel) ∧
    (∀ close acc, byteListLoop cfg close fuel acc s ≠ .fuel) := by
  have hF : ¬ fuel ≤ s.rd.rest.length := by omega
  exact ⟨fun _ => decodeR6rsHexEscape_spec.no_fuel hF,
    fun _ => parseR6rsEscape_spec.no_fuel (by omega),
    fun _ => parseR6rsStr_spec.no_fuel hF,
    fun _ => decodeElispHexEscape_spec.no_fuel hF,
    fun _ => decodeElispOctalEscape_spec.no_fuel hF,
    fun _ => parseElispEscape_spec.no_fuel hF,
    fun _ _ _ _ => parseElispStr_spec.no_fuel hF,
    fun _ _ => decodeR6rsCharHexEscape_spec.no_fuel hF,
    parseR6rsChar_spec.no_fuel hF,
    decodeElispCharEscape_spec.no_fuel hF,
    parseElispChar_spec.no_fuel hF,
    fun _ _ _ _ _ => exponentLoop_spec.no_fuel hF,
    fun _ _ _ => parseExponent_spec.no_fuel hF,
    fun _ _ _ _ => decimalLoop_spec.no_fuel hF,
    fun _ _ _ => parseDecimal_spec.no_fuel hF,
    fun _ _ _ _ => parseLongInteger_spec.no_fuel hF,
    fun _ _ _ => parseNumTail_spec.no_fuel hF,
    fun _ _ _ => numLoop_spec.no_fuel hF,
    fun _ _ => parseNumLiteral_spec.no_fuel hF,
    fun _ => parseRadixLiteral_spec.no_fuel hF,
    fun _ => parseNumToken_spec.no_fuel hF,
    fun _ => parseRadixToken_spec.no_fuel hF,
    parseNumber_spec.no_fuel hF,
    fun _ _ => parseSignToken_spec.no_fuel hF,
    fun _ _ => byteListLoop_spec.no_fuel hF⟩

example : (initSt .str (asc "abc\"")).rd.rest.length < 5 ∧
    okAny (parseR6rsStr 5 [] (initSt .str (asc "abc\""))) = true := by decide +kernel

/-- **C03_fuel_history**: no call history on one parser ever contains a `fuel` item. -/
theorem C03_fuel_history (cfg : Cfg) (ops : List Op) (s : St) :
    ∀ it ∈ runHistory cfg ops s, it ≠ Item.fuel := runHistory_ne_fuel cfg ops s

example : (runHistory exCfg [.nextValue, .expectEnd, .nextDatum] (initSt .str (asc "a b"))).length
    = 3 := by decide +kernel

end Progress
end Parse
end Lexpr
