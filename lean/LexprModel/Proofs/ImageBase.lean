/-
  ImageBase — C13, the image of the parser: what the scanners below `parse_token` can return.

  Inversion lemmas ("if the call succeeded, then …") for the pieces the image theorem needs:
  `parse_symbol` (the name is the scratch prefix followed by the unread bytes up to the first
  terminator, it is never the lone dot, and it is well-formed unless the source is a `&str`),
  `decode_utf8_sequence`, the integer scanners (`PosInt ≤ u64::MAX`, `i64::MIN ≤ NegInt < 0`), and
  the two character readers (always a Unicode scalar value).
-/
import LexprModel.Proofs.Utf8Parse
import LexprModel.Proofs.Numbers
import LexprModel.Proofs.DialectStructRT
namespace Lexpr
namespace Parse
namespace Image
open Utf8

/-! ### symbols -/

theorem symLen_take_nonterm (m : Mode) :
    ∀ rest : List UInt8, ∀ b ∈ rest.take (symLen m rest), symTermSlice b = false := by
  intro rest
  induction rest with
  | nil => intro b hb; simp [symLen] at hb
  | cons c cs ih =>
    intro b hb
    by_cases hc : symTerm m c = true
    · simp [symLen, hc] at hb
    · have hc' : symTerm m c = false := by simpa using hc
      simp only [symLen, hc', Bool.false_eq_true, if_false, List.take_succ_cons,
        List.mem_cons] at hb
      rcases hb with rfl | hb
      · rw [← Parse.symTerm_eq m b]; exact hc'
      · exact ih b hb

theorem take_head {α : Type} (n : Nat) (l : List α) (c : α) (tl : List α)
    (h : l.take n = c :: tl) : ∃ tl', l = c :: tl' := by
  cases l with
  | nil => simp at h
  | cons a as =>
    cases n with
    | zero => simp at h
    | succ n => simp only [List.take_succ_cons, List.cons.injEq] at h; exact ⟨as, by rw [h.1]⟩

/-- What a successful `parse_symbol` returns. -/
theorem psb_inv {scratch name : List UInt8} {s s' : St}
    (h : parseSymbolBytes scratch s = .ok name s') :
    ∃ body, name = scratch ++ body ∧ body = s.rd.rest.take (symLen s.rd.mode s.rd.rest) ∧
      (∀ b ∈ body, symTermSlice b = false) ∧ name ≠ [46] ∧
      (s.rd.mode ≠ .str → Utf8.valid name = true) ∧ s'.rd.mode = s.rd.mode := by
  obtain ⟨hn, hv⟩ := U8.parseSymbolBytes_ok h
  have hm := ((U8.SufP.parseSymbolBytes scratch).ok _ _ _ h).1
  refine ⟨_, hn, rfl, symLen_take_nonterm _ _, ?_, hv, hm⟩
  intro hdot
  unfold parseSymbolBytes at h
  simp only [bind_apply, getRest, getMode, consumeN] at h
  rw [← hn, hdot] at h
  split at h
  · simp [errAt] at h
  · cases h
  · cases h
  · cases h

/-- the body of a symbol starts with the byte that was peeked before the call -/
theorem psb_body_head {s : St} {c : UInt8} {tl : List UInt8}
    (h : s.rd.rest.take (symLen s.rd.mode s.rd.rest) = c :: tl) :
    s.rd.rest.head?.getD 0 = c := by
  obtain ⟨tl', h'⟩ := take_head _ _ _ _ h
  rw [h']; rfl

/-- a byte that is not a terminator is taken -/
theorem psb_take_head {s : St} {c : UInt8} {tl : List UInt8} (hr : s.rd.rest = c :: tl)
    (hc : symTermSlice c = false) :
    ∃ tl', s.rd.rest.take (symLen s.rd.mode s.rd.rest) = c :: tl' := by
  have : symTerm s.rd.mode c = false := by rw [Parse.symTerm_eq]; exact hc
  rw [hr]
  exact ⟨tl.take (symLen s.rd.mode tl), by simp [symLen, this]⟩

/-! ### UTF-8 sequences -/

theorem lt256_scalar {n : Nat} (h : n < 256) : isScalar n = true := by
  simp only [isScalar, isSurrogate, Bool.and_eq_true, decide_eq_true_eq, Bool.not_eq_true',
    Bool.and_eq_false_iff, decide_eq_false_iff_not]
  omega

theorem u8_scalar (b : UInt8) : isScalar b.toNat = true := lt256_scalar (UInt8.toNat_lt b)

/-- the strict decoder only returns scalar values -/
theorem decodeFirst_scalar {bs r : List UInt8} {c : Nat} (h : decodeFirst bs = some (c, r)) :
    isScalar c = true := by
  unfold decodeFirst at h
  split at h
  · cases h
  · rename_i b0 rest
    split at h
    · simp only [Option.some.injEq, Prod.mk.injEq] at h
      rw [← h.1]; exact u8_scalar b0
    split at h
    · rename_i h2
      split at h
      · split at h
        · simp only [Option.some.injEq, Prod.mk.injEq] at h
          rename_i b1 _ hc
          rw [← h.1]
          simp only [isCont, Bool.and_eq_true, decide_eq_true_eq, UInt8.le_iff_toNat_le,
            UInt8.lt_iff_toNat_lt, UInt8.reduceToNat] at h2 hc
          simp only [isScalar, isSurrogate, Bool.and_eq_true, decide_eq_true_eq,
            Bool.not_eq_true', Bool.and_eq_false_iff, decide_eq_false_iff_not]
          omega
        · cases h
      · cases h
    split at h
    · rename_i h3
      split at h
      · split at h
        · dsimp only at h
          split at h
          · simp only [Option.some.injEq, Prod.mk.injEq] at h
            rename_i hs
            rw [← h.1]
            rename_i b1 b2 _ hc
            simp only [isCont, Bool.and_eq_true, decide_eq_true_eq, UInt8.le_iff_toNat_le,
              UInt8.lt_iff_toNat_lt, UInt8.reduceToNat] at h3 hc
            simp only [isSurrogate, Bool.and_eq_true, decide_eq_true_eq, Bool.not_eq_true',
              Bool.and_eq_false_iff, decide_eq_false_iff_not] at hs
            simp only [isScalar, isSurrogate, Bool.and_eq_true, decide_eq_true_eq,
              Bool.not_eq_true', Bool.and_eq_false_iff, decide_eq_false_iff_not]
            omega
          · cases h
        · cases h
      · cases h
    split at h
    · split at h
      · split at h
        · dsimp only at h
          split at h
          · simp only [Option.some.injEq, Prod.mk.injEq] at h
            rename_i hs
            rw [← h.1]
            simp only [Bool.and_eq_true, decide_eq_true_eq] at hs
            simp only [isScalar, isSurrogate, Bool.and_eq_true, decide_eq_true_eq,
              Bool.not_eq_true', Bool.and_eq_false_iff, decide_eq_false_iff_not]
            omega
          · cases h
        · cases h
      · cases h
    · cases h

/-- decoding does not look past the first sequence -/
theorem decodeFirst_append {bs r : List UInt8} {c : Nat} (x : List UInt8)
    (h : decodeFirst bs = some (c, r)) : decodeFirst (bs ++ x) = some (c, r ++ x) := by
  unfold decodeFirst at h
  split at h
  · cases h
  · rename_i b0 rest
    split at h
    · rename_i h1
      simp only [Option.some.injEq, Prod.mk.injEq] at h
      simp [decodeFirst, h1, h.1, ← h.2]
    split at h
    · rename_i h1 h2
      split at h
      · split at h
        · rename_i b1 r' hc
          simp only [Option.some.injEq, Prod.mk.injEq] at h
          simp only [List.cons_append, decodeFirst, h1, h2, hc, if_true, if_false]
          simp [h.1, ← h.2]
        · cases h
      · cases h
    split at h
    · rename_i h1 h2 h3
      split at h
      · split at h
        · dsimp only at h
          split at h
          · rename_i b1 b2 r' hc hs
            simp only [Option.some.injEq, Prod.mk.injEq] at h
            simp only [List.cons_append, decodeFirst, h1, h2, h3, hc, if_true, if_false]
            simp only [hs, if_true]
            simp [h.1, ← h.2]
          · cases h
        · cases h
      · cases h
    split at h
    · rename_i h1 h2 h3 h4
      split at h
      · split at h
        · dsimp only at h
          split at h
          · rename_i b1 b2 b3 r' hc hs
            simp only [Option.some.injEq, Prod.mk.injEq] at h
            simp only [List.cons_append, decodeFirst, h1, h2, h3, h4, hc, if_true, if_false]
            simp only [hs, if_true]
            simp [h.1, ← h.2]
          · cases h
        · cases h
      · cases h
    · cases h

theorem isCont_hi : ∀ b : UInt8, isCont b = true → b > 127 := by
  apply forall_u8; decide +kernel

/-- a sequence decoded with nothing left over consists of continuation bytes after the first -/
theorem decodeFirst_nil_cont {b0 : UInt8} {cont : List UInt8} {c : Nat}
    (h : decodeFirst (b0 :: cont) = some (c, [])) (hb : ¬ b0 < 0x80) : ∀ x ∈ cont, x > 127 := by
  unfold decodeFirst at h
  simp only [] at h
  rw [if_neg hb] at h
  split at h
  · split at h
    · split at h
      · rename_i b1 r hc
        simp only [Option.some.injEq, Prod.mk.injEq] at h
        rw [h.2]
        intro x hx
        simp only [List.mem_cons, List.not_mem_nil, or_false] at hx
        rw [hx]; exact isCont_hi _ hc
      · cases h
    · cases h
  split at h
  · split at h
    · split at h
      · split at h
        · rename_i b1 b2 r hc _
          simp only [Option.some.injEq, Prod.mk.injEq] at h
          rw [h.2]
          simp only [Bool.and_eq_true] at hc
          intro x hx
          simp only [List.mem_cons, List.not_mem_nil, or_false] at hx
          rcases hx with rfl | rfl
          · exact isCont_hi _ hc.1
          · exact isCont_hi _ hc.2
        · cases h
      · cases h
    · cases h
  split at h
  · split at h
    · split at h
      · split at h
        · rename_i b1 b2 b3 r hc _
          simp only [Option.some.injEq, Prod.mk.injEq] at h
          rw [h.2]
          simp only [Bool.and_eq_true] at hc
          intro x hx
          simp only [List.mem_cons, List.not_mem_nil, or_false] at hx
          rcases hx with rfl | rfl | rfl
          · exact isCont_hi _ hc.1.1
          · exact isCont_hi _ hc.1.2
          · exact isCont_hi _ hc.2
        · cases h
      · cases h
    · cases h
  · cases h

theorem readCont_len (n : Nat) : ∀ {acc : List UInt8} {s s' : St} {bytes : List UInt8},
    readCont n acc s = .ok bytes s' → bytes.length = acc.length + n := by
  induction n with
  | zero =>
    intro acc s s' bytes h
    simp only [readCont, pure_apply, Res.ok.injEq] at h
    rw [← h.1]; rfl
  | succ n ih =>
    intro acc s s' bytes h
    simp only [readCont] at h
    obtain ⟨a, s1, hn, h⟩ := U8.bind_ok h
    cases a with
    | none => simp [errAt] at h
    | some b =>
      have := ih h
      simp only [List.length_append, List.length_cons, List.length_nil] at this
      omega

/-- `decode_utf8_sequence`: the bytes returned are the initial byte followed by continuation
    bytes, they are well-formed, and the scalar is their decoding. -/
theorem dus_inv {initial : UInt8} {s s' : St} {c : Nat} {bytes : List UInt8}
    (h : decodeUtf8Sequence initial s = .ok (c, bytes) s') (hi : ¬ initial < 0x80) :
    Utf8.valid bytes = true ∧ s'.rd.mode = s.rd.mode ∧
      ∃ cont, bytes = initial :: cont ∧ (∀ x ∈ cont, x > 127) ∧
        decodeFirst bytes = some (c, []) := by
  obtain ⟨hv, hm, hr⟩ := U8.decodeUtf8Sequence_ok h
  have hdec : ∃ r, decodeFirst bytes = some (c, r) ∧ seqLen initial = some (bytes.length - 1) := by
    unfold decodeUtf8Sequence at h
    have hsl : seqLen initial =
        (if (decide (192 ≤ initial) && decide (initial ≤ 223)) = true then some 1
         else if (decide (224 ≤ initial) && decide (initial ≤ 247)) = true then
           some ((initial.toNat - 192) / 16) else none) := rfl
    rw [hsl]
    generalize (if (decide (192 ≤ initial) && decide (initial ≤ 223)) = true then some 1 else _ :
      Option Nat) = len at h ⊢
    cases len with
    | none => simp [errAt] at h
    | some len =>
      obtain ⟨bs, s1, hrc, h⟩ := U8.bind_ok h
      have hlen := readCont_len _ hrc
      by_cases hv' : Utf8.valid bs = true
      · rw [if_pos hv'] at h
        cases hd : decodeFirst bs with
        | none => rw [hd] at h; simp [panicAt] at h
        | some cr =>
          obtain ⟨c', r⟩ := cr
          rw [hd] at h
          simp only [pure_apply, Res.ok.injEq, Prod.mk.injEq] at h
          obtain ⟨⟨rfl, rfl⟩, _⟩ := h
          refine ⟨r, hd, ?_⟩
          simp only [List.length_cons, List.length_nil] at hlen
          rw [hlen]; simp
      · rw [if_neg hv'] at h; simp [errAt] at h
  obtain ⟨r, hd, hsl⟩ := hdec
  cases bytes with
  | nil => simp [decodeFirst] at hd
  | cons b0 cont =>
    simp only [List.cons_append, List.cons.injEq] at hr
    obtain ⟨rfl, -⟩ := hr
    obtain ⟨cont', hsp, hlen, hd0⟩ := decodeFirst_split initial cont c r hi hd
    rw [hsl] at hlen
    simp only [List.length_cons, Nat.add_sub_cancel, Option.some.injEq] at hlen
    have hr0 : r = [] := by
      have := congrArg List.length hsp
      simp only [List.length_append] at this
      exact List.eq_nil_of_length_eq_zero (by omega)
    subst hr0
    exact ⟨hv, hm, cont, rfl, decodeFirst_nil_cont hd hi, hd⟩

theorem not_lt_of_hi : ∀ {b : UInt8}, b > 0x7F → ¬ b < 0x80 := by
  intro b; revert b; apply forall_u8; decide +kernel

/-! ### integers -/

/-- the integers the scanners can return: a `PosInt` fits `u64`, a `NegInt` is a negative `i64`;
    nothing is claimed of floats here -/
def NumOK : Number → Prop
  | .pos n => n ≤ u64Max
  | .neg i => i64Min ≤ i ∧ i < 0
  | .flt _ => True

theorem parseNumTail_inv {cfg : Cfg} {fuel radix : Nat} {pos : Bool} {sig : Nat} {s s' : St}
    {n : Number} (h : parseNumTail cfg fuel radix pos sig s = .ok n s') (hs : sig ≤ u64Max) :
    NumOK n := by
  unfold parseNumTail at h
  obtain ⟨c, s1, _, h⟩ := U8.bind_ok h
  rcases U8.ite_ok h with ⟨_, h⟩ | ⟨_, h⟩
  · rcases U8.ite_ok h with ⟨_, h⟩ | ⟨_, h⟩
    · simp [peekErr] at h
    · obtain ⟨f, s2, _, h⟩ := U8.bind_ok h
      obtain ⟨rfl, _⟩ := U8.pure_ok h
      trivial
  rcases U8.ite_ok h with ⟨_, h⟩ | ⟨_, h⟩
  · rcases U8.ite_ok h with ⟨_, h⟩ | ⟨_, h⟩
    · simp [peekErr] at h
    · obtain ⟨f, s2, _, h⟩ := U8.bind_ok h
      obtain ⟨rfl, _⟩ := U8.pure_ok h
      trivial
  rcases U8.ite_ok h with ⟨_, h⟩ | ⟨_, h⟩
  · obtain ⟨rfl, _⟩ := U8.pure_ok h
    exact hs
  · dsimp only at h
    rcases U8.ite_ok h with ⟨_, h⟩ | ⟨hneg, h⟩
    · obtain ⟨rfl, _⟩ := U8.pure_ok h
      trivial
    · obtain ⟨rfl, _⟩ := U8.pure_ok h
      simp only [u64Max] at hs
      unfold Number.ofSigned
      split
      · simp only [NumOK, u64Max]
        simp only [wrappingNeg, asI64, i64Min] at hneg ⊢
        split at hneg <;> split at hneg <;> (try split) <;> (try split) <;> simp_all <;> omega
      · simp only [NumOK]
        rename_i h0
        simp only [wrappingNeg, asI64, i64Min] at hneg h0 ⊢
        split <;> split <;> simp_all <;> omega

theorem digitVal_lt {radix : Nat} {c : UInt8} {d : Nat} (h : digitVal radix c = some d) : d < 16 := by
  unfold digitVal at h
  have := UInt8.toNat_lt c
  split at h
  · rename_i hc
    simp only [Bool.and_eq_true, decide_eq_true_eq, UInt8.le_iff_toNat_le, UInt8.reduceToNat] at hc
    simp only [Option.some.injEq] at h; omega
  split at h
  · rename_i hc
    simp only [Bool.and_eq_true, decide_eq_true_eq, UInt8.le_iff_toNat_le, UInt8.reduceToNat] at hc
    simp only [Option.some.injEq] at h; omega
  split at h
  · rename_i hc
    simp only [Bool.and_eq_true, decide_eq_true_eq, UInt8.le_iff_toNat_le, UInt8.reduceToNat] at hc
    simp only [Option.some.injEq] at h; omega
  · cases h

theorem numLoop_inv {cfg : Cfg} {radix : Nat} {pos : Bool} (hr : 0 < radix) :
    ∀ (f res : Nat) {s s' : St} {n : Number}, numLoop cfg radix pos f res s = .ok n s' →
      res ≤ u64Max → NumOK n := by
  intro f
  induction f with
  | zero => intro res s s' n h; simp [numLoop, outOfFuel] at h
  | succ f ih =>
    intro res s s' n h hres
    unfold numLoop at h
    obtain ⟨c, s1, _, h⟩ := U8.bind_ok h
    cases hd : digitVal radix c with
    | none => rw [hd] at h; exact parseNumTail_inv h hres
    | some d =>
      rw [hd] at h
      dsimp only at h
      rcases U8.ite_ok h with ⟨_, h⟩ | ⟨hlt, h⟩
      · simp [peekErr] at h
      · obtain ⟨_, s2, _, h⟩ := U8.bind_ok h
        rcases U8.ite_ok h with ⟨_, h⟩ | ⟨hov, h⟩
        · obtain ⟨g, s3, _, h⟩ := U8.bind_ok h
          obtain ⟨rfl, _⟩ := U8.pure_ok h
          trivial
        · refine ih _ h ?_
          have hov' : overflow res radix d u64Max = false := by simpa using hov
          exact (Numbers.overflow_false_iff hr (by omega)).mp hov'

theorem parseNumLiteral_inv {cfg : Cfg} {fuel radix : Nat} {pos : Bool} (hr : 0 < radix)
    {s s' : St} {n : Number} (h : parseNumLiteral cfg fuel radix pos s = .ok n s') : NumOK n := by
  unfold parseNumLiteral at h
  obtain ⟨a, s1, _, h⟩ := U8.bind_ok h
  cases a with
  | none => simp [peekErr] at h
  | some c =>
    dsimp only at h
    cases hd : digitVal radix c with
    | none => rw [hd] at h; simp [peekErr] at h
    | some d =>
      rw [hd] at h
      dsimp only at h
      rcases U8.ite_ok h with ⟨_, h⟩ | ⟨hlt, h⟩
      · simp [peekErr] at h
      · refine numLoop_inv hr _ _ h ?_
        have := digitVal_lt hd
        simp only [u64Max]; omega

theorem parseRadixLiteral_inv {cfg : Cfg} {fuel radix : Nat} (hr : 0 < radix)
    {s s' : St} {n : Number} (h : parseRadixLiteral cfg fuel radix s = .ok n s') : NumOK n := by
  unfold parseRadixLiteral at h
  obtain ⟨c, s1, _, h⟩ := U8.bind_ok h
  rcases U8.ite_ok h with ⟨_, h⟩ | ⟨_, h⟩
  · obtain ⟨_, s2, _, h⟩ := U8.bind_ok h
    exact parseNumLiteral_inv hr h
  rcases U8.ite_ok h with ⟨_, h⟩ | ⟨_, h⟩
  · obtain ⟨_, s2, _, h⟩ := U8.bind_ok h
    exact parseNumLiteral_inv hr h
  · exact parseNumLiteral_inv hr h

theorem parseNumToken_inv {cfg : Cfg} {fuel : Nat} {pos : Bool}
    {s s' : St} {n : Number} (h : parseNumToken cfg fuel pos s = .ok n s') : NumOK n := by
  unfold parseNumToken at h
  obtain ⟨m, s1, h1, h⟩ := U8.bind_ok h
  rw [(U8.expectNumberEnd_ok h).1]
  exact parseNumLiteral_inv (by decide) h1

theorem parseRadixToken_inv {cfg : Cfg} {fuel radix : Nat} (hr : 0 < radix)
    {s s' : St} {n : Number} (h : parseRadixToken cfg fuel radix s = .ok n s') : NumOK n := by
  unfold parseRadixToken at h
  obtain ⟨m, s1, h1, h⟩ := U8.bind_ok h
  rw [(U8.expectNumberEnd_ok h).1]
  exact parseRadixLiteral_inv hr h1

theorem wholeNumber_inv {cfg : Cfg} {sym : List UInt8} {n : Number}
    (h : wholeNumber cfg sym = some n) : NumOK n := by
  unfold wholeNumber at h
  dsimp only at h
  split at h
  · rename_i m s' hp
    split at h
    · simp only [Option.some.injEq] at h
      rw [← h]; exact parseNumLiteral_inv (by decide) hp
    · cases h
  · cases h

/-! ### characters -/

theorem ite_some_inv {α : Type} {c : Prop} [Decidable c] {a x : α} {r : Option α}
    (h : (if c then some a else r) = some x) : x = a ∨ r = some x := by
  by_cases hc : c
  · rw [if_pos hc] at h; exact Or.inl (Option.some.inj h).symm
  · rw [if_neg hc] at h; exact Or.inr h

theorem charName_scalar {name : List UInt8} {c : Nat} (h : charName name = some c) :
    isScalar c = true := by
  unfold charName at h
  iterate 12
    rcases ite_some_inv h with rfl | h
    · decide
  cases h

theorem parseR6rsChar_inv {fuel : Nat} {s s' : St} {c : Nat}
    (h : parseR6rsChar fuel s = .ok c s') : isScalar c = true := by
  unfold parseR6rsChar at h
  obtain ⟨initial, s1, _, h⟩ := U8.bind_ok h
  rcases U8.ite_ok h with ⟨_, h⟩ | ⟨_, h⟩
  · obtain ⟨r, s2, _, h⟩ := U8.bind_ok h
    cases r with
    | none => obtain ⟨rfl, _⟩ := U8.pure_ok h; decide
    | some n =>
      dsimp only at h
      rcases U8.ite_ok h with ⟨hsc, h⟩ | ⟨_, h⟩
      · obtain ⟨rfl, _⟩ := U8.pure_ok h; exact hsc
      rcases U8.ite_ok h with ⟨_, h⟩ | ⟨_, h⟩
      · obtain ⟨a, s3, _, h⟩ := U8.bind_ok h
        cases a <;> simp [errAt] at h
      · simp [errAt] at h
  rcases U8.ite_ok h with ⟨_, h⟩ | ⟨_, h⟩
  · obtain ⟨⟨c', bytes⟩, s2, hd, h⟩ := U8.bind_ok h
    obtain ⟨rfl, _⟩ := U8.pure_ok h
    obtain ⟨_, _, _, _, _, hdec⟩ := dus_inv hd (not_lt_of_hi ‹_›)
    exact decodeFirst_scalar hdec
  · obtain ⟨a, s2, _, h⟩ := U8.bind_ok h
    cases a with
    | none => obtain ⟨rfl, _⟩ := U8.pure_ok h; exact u8_scalar _
    | some nxt =>
      dsimp only at h
      rcases U8.ite_ok h with ⟨_, h⟩ | ⟨_, h⟩
      · obtain ⟨rfl, _⟩ := U8.pure_ok h; exact u8_scalar _
      · obtain ⟨rest, s3, _, h⟩ := U8.bind_ok h
        obtain ⟨_, s4, _, h⟩ := U8.bind_ok h
        obtain ⟨nxt', s5, _, h⟩ := U8.bind_ok h
        generalize hcn : charName _ = r at h
        cases r with
        | some c' =>
          obtain ⟨rfl, _⟩ := U8.pure_ok h
          exact charName_scalar hcn
        | none =>
          dsimp only at h
          rcases U8.ite_ok h with ⟨_, h⟩ | ⟨_, h⟩ <;> simp [errAt] at h

theorem asChar_inv {n c : Nat} {s s' : St} (h : asChar n s = .ok c s') : isScalar c = true := by
  unfold asChar at h
  rcases U8.ite_ok h with ⟨hs, h⟩ | ⟨_, h⟩
  · obtain ⟨rfl, _⟩ := U8.pure_ok h; exact hs
  · simp [errAt] at h

theorem asEscapedChar_inv {n c : Nat} {s s' : St} (h : asEscapedChar n s = .ok c s') :
    isScalar c = true := by
  unfold asEscapedChar at h
  rcases U8.ite_ok h with ⟨_, h⟩ | ⟨_, h⟩
  · obtain ⟨o, s1, _, h⟩ := U8.bind_ok h
    cases o with
    | none => simp [errAt] at h
    | some b => exact asChar_inv h
  · exact asChar_inv h

theorem decodeElispCharEscape_inv {fuel : Nat} {s s' : St} {c : Nat}
    (h : decodeElispCharEscape fuel s = .ok c s') : isScalar c = true := by
  unfold decodeElispCharEscape at h
  obtain ⟨c0, s1, _, h⟩ := U8.bind_ok h
  iterate 11
    rcases U8.ite_ok h with ⟨_, h⟩ | ⟨_, h⟩
    · obtain ⟨rfl, _⟩ := U8.pure_ok h; decide
  rcases U8.ite_ok h with ⟨_, h⟩ | ⟨_, h⟩
  · obtain ⟨k, s2, _, h⟩ := U8.bind_ok h
    dsimp only at h
    rcases U8.ite_ok h with ⟨_, h⟩ | ⟨_, h⟩
    · obtain ⟨rfl, _⟩ := U8.pure_ok h
      exact lt256_scalar (by have := UInt8.toNat_lt (toAsciiLower k); omega)
    · simp [errAt] at h
  rcases U8.ite_ok h with ⟨_, h⟩ | ⟨_, h⟩
  · obtain ⟨b1, s2, _, h⟩ := U8.bind_ok h
    rcases U8.ite_ok h with ⟨_, h⟩ | ⟨_, h⟩
    · simp [errAt] at h
    obtain ⟨b2, s3, _, h⟩ := U8.bind_ok h
    rcases U8.ite_ok h with ⟨_, h⟩ | ⟨_, h⟩
    · simp [errAt] at h
    obtain ⟨b3, s4, _, h⟩ := U8.bind_ok h
    rcases U8.ite_ok h with ⟨_, h⟩ | ⟨_, h⟩
    · simp [errAt] at h
    obtain ⟨n, s5, _, h⟩ := U8.bind_ok h
    obtain ⟨b4, s6, _, h⟩ := U8.bind_ok h
    rcases U8.ite_ok h with ⟨_, h⟩ | ⟨_, h⟩
    · simp [errAt] at h
    rcases U8.ite_ok h with ⟨hs, h⟩ | ⟨_, h⟩
    · obtain ⟨rfl, _⟩ := U8.pure_ok h; exact hs
    · simp [errAt] at h
  iterate 2
    rcases U8.ite_ok h with ⟨_, h⟩ | ⟨_, h⟩
    · obtain ⟨n, s2, _, h⟩ := U8.bind_ok h
      exact asChar_inv h
  iterate 2
    rcases U8.ite_ok h with ⟨_, h⟩ | ⟨_, h⟩
    · obtain ⟨n, s2, _, h⟩ := U8.bind_ok h
      exact asEscapedChar_inv h
  rcases U8.ite_ok h with ⟨_, h⟩ | ⟨_, h⟩
  · obtain ⟨⟨c', bytes⟩, s2, hd, h⟩ := U8.bind_ok h
    obtain ⟨rfl, _⟩ := U8.pure_ok h
    obtain ⟨_, _, _, _, _, hdec⟩ := dus_inv hd (not_lt_of_hi ‹_›)
    exact decodeFirst_scalar hdec
  · obtain ⟨rfl, _⟩ := U8.pure_ok h; exact u8_scalar _

theorem parseElispChar_inv {fuel : Nat} {s s' : St} {c : Nat}
    (h : parseElispChar fuel s = .ok c s') : isScalar c = true := by
  unfold parseElispChar at h
  obtain ⟨a, s1, _, h⟩ := U8.bind_ok h
  cases a with
  | none => simp [errAt] at h
  | some initial =>
    dsimp only at h
    rcases U8.ite_ok h with ⟨_, h⟩ | ⟨_, h⟩
    · obtain ⟨⟨c', bytes⟩, s2, hd, h⟩ := U8.bind_ok h
      obtain ⟨rfl, _⟩ := U8.pure_ok h
      obtain ⟨_, _, _, _, _, hdec⟩ := dus_inv hd (not_lt_of_hi ‹_›)
      exact decodeFirst_scalar hdec
    rcases U8.ite_ok h with ⟨_, h⟩ | ⟨_, h⟩
    · simp [errAt] at h
    rcases U8.ite_ok h with ⟨_, h⟩ | ⟨_, h⟩
    · exact decodeElispCharEscape_inv h
    · obtain ⟨rfl, _⟩ := U8.pure_ok h; exact u8_scalar _

end Image
end Parse
end Lexpr
