/-
  C17 — only well-formed UTF-8 reaches a string.

  Part 1: the validity automaton (`run_append`, ASCII bytes, splitting at an ASCII byte).
  Part 2: `encode` produces valid text that `decodeFirst` reads back.
  Part 3: the printer emits valid text when the payloads are valid.
  Part 4: the two `from_utf8_unchecked` sites of the `&str` source (`parse_symbol`, `parse_r6rs_str`).
-/
import LexprModel.Print
import LexprModel.Lex
namespace Lexpr
namespace Utf8.U8

/-! ### Part 1: the automaton -/

theorem run_append (s : St) (a b : List UInt8) :
    run s (a ++ b) = (run s a).bind (fun s' => run s' b) := by
  induction a generalizing s with
  | nil => simp [run]
  | cons x xs ih =>
    simp only [List.cons_append, run]
    cases step s x with
    | none => simp
    | some s' => simpa using ih s'

theorem valid_iff (bs : List UInt8) : valid bs = true ↔ run .idle bs = some .idle := by
  simp [valid]

theorem valid_nil : valid [] = true := by simp [valid, run]

theorem valid_append {a b : List UInt8} (ha : valid a) (hb : valid b) : valid (a ++ b) := by
  rw [valid_iff] at *
  simp [run_append, ha, hb]

theorem valid_append_iff_of_valid_left {a : List UInt8} (b : List UInt8) (ha : valid a) :
    valid (a ++ b) = valid b := by
  rw [valid_iff] at ha
  simp [valid, run_append, ha]

/-- States the automaton can actually be in: inside a sequence the next byte is a continuation
    byte, never ASCII. -/
def _root_.Lexpr.Utf8.St.WF : St → Prop
  | .idle => True
  | .mid _ lo _ => 0x80 ≤ lo

theorem step_wf {s s' : St} {b : UInt8} (hs : s.WF) (h : step s b = some s') : s'.WF := by
  cases s with
  | idle =>
    simp only [step] at h
    repeat' (split at h)
    all_goals (first | (cases h; first | trivial | (show (128 : UInt8) ≤ _; decide)) | cases h)
  | mid need lo hi =>
    simp only [step] at h
    split at h
    · split at h <;> cases h <;> first | trivial | (show (128 : UInt8) ≤ _; decide)
    · cases h

theorem run_wf {s s' : St} {bs : List UInt8} (hs : s.WF) (h : run s bs = some s') : s'.WF := by
  induction bs generalizing s with
  | nil => simp [run] at h; subst h; exact hs
  | cons b bs ih =>
    simp only [run] at h
    cases hb : step s b with
    | none => simp [hb] at h
    | some s1 => simp only [hb] at h; exact ih (step_wf hs hb) h

theorem step_idle_ascii {b : UInt8} (hb : b < 0x80) : step .idle b = some .idle := by
  simp [step, hb]

/-- An ASCII byte is accepted only in state `idle`. -/
theorem step_ascii {s s' : St} {b : UInt8} (hs : s.WF) (hb : b < 0x80) (h : step s b = some s') :
    s = .idle ∧ s' = .idle := by
  cases s with
  | idle => simp [step, hb] at h; exact ⟨rfl, h.symm⟩
  | mid need lo hi =>
    exfalso
    simp only [step] at h
    split at h
    · rename_i hc
      simp only [Bool.and_eq_true, decide_eq_true_eq] at hc
      simp only [St.WF] at hs
      rw [UInt8.le_iff_toNat_le] at hs hc
      rw [UInt8.lt_iff_toNat_lt] at hb
      have := hc.1
      simp at hs hb
      omega
    · cases h

theorem run_cons_ascii_idle {b : UInt8} (bs : List UInt8) (hb : b < 0x80) :
    run .idle (b :: bs) = run .idle bs := by
  simp [run, step_idle_ascii hb]

theorem valid_cons_ascii {b : UInt8} (bs : List UInt8) (hb : b < 0x80) :
    valid (b :: bs) = valid bs := by
  simp [valid, run_cons_ascii_idle bs hb]

/-- All bytes are ASCII. -/
def Ascii (bs : List UInt8) : Prop := ∀ b ∈ bs, b < 0x80

theorem Ascii.nil : Ascii [] := by intro b h; cases h
theorem Ascii.cons {b : UInt8} {bs : List UInt8} (hb : b < 0x80) (h : Ascii bs) : Ascii (b :: bs) := by
  intro x hx
  cases hx with
  | head => exact hb
  | tail _ hx => exact h x hx
theorem Ascii.append {a b : List UInt8} (ha : Ascii a) (hb : Ascii b) : Ascii (a ++ b) := by
  intro x hx
  rcases List.mem_append.mp hx with h | h
  · exact ha x h
  · exact hb x h
theorem Ascii.head {b : UInt8} {bs : List UInt8} (h : Ascii (b :: bs)) : b < 0x80 :=
  h b List.mem_cons_self
theorem Ascii.tail {b : UInt8} {bs : List UInt8} (h : Ascii (b :: bs)) : Ascii bs :=
  fun x hx => h x (List.mem_cons_of_mem _ hx)

theorem run_idle_ascii {bs : List UInt8} (h : Ascii bs) : run .idle bs = some .idle := by
  induction bs with
  | nil => rfl
  | cons b bs ih => rw [run_cons_ascii_idle bs h.head]; exact ih h.tail

theorem valid_ascii {bs : List UInt8} (h : ∀ b ∈ bs, b < 0x80) : valid bs := by
  rw [valid_iff]; exact run_idle_ascii h

/-- ASCII text in front does not matter. -/
theorem valid_ascii_append {a : List UInt8} (b : List UInt8) (ha : Ascii a) :
    valid (a ++ b) = valid b :=
  valid_append_iff_of_valid_left b (valid_ascii ha)

/-- A non-empty ASCII text is rejected inside a sequence. -/
theorem run_mid_ascii {s : St} {b : UInt8} {bs : List UInt8} (hs : s.WF) (hb : b < 0x80)
    (hne : s ≠ .idle) : run s (b :: bs) = none := by
  simp only [run]
  cases h : step s b with
  | none => rfl
  | some s' => exact absurd (step_ascii hs hb h).1 hne

/-- **Split at an ASCII byte**: the automaton is in state `idle` in front of it. -/
theorem valid_split_ascii {a : List UInt8} {b : UInt8} {c : List UInt8}
    (h : valid (a ++ b :: c)) (hb : b < 0x80) : valid a ∧ valid (b :: c) := by
  rw [valid_iff, run_append] at h
  cases ha : run .idle a with
  | none => simp [ha] at h
  | some s =>
    simp only [ha, Option.bind_some] at h
    have hwf : s.WF := run_wf (s := .idle) trivial ha
    cases hs : step s b with
    | none => simp [run, hs] at h
    | some s' =>
      obtain ⟨h1, _⟩ := step_ascii hwf hb hs
      subst h1
      exact ⟨by rw [valid_iff]; exact ha, by rw [valid_iff]; exact h⟩

/-- The same as an equation. -/
theorem valid_append_cons_ascii (a : List UInt8) {b : UInt8} (c : List UInt8) (hb : b < 0x80) :
    valid (a ++ b :: c) = (valid a && valid c) := by
  cases h : valid (a ++ b :: c) with
  | true =>
    obtain ⟨h1, h2⟩ := valid_split_ascii h hb
    rw [valid_cons_ascii c hb] at h2
    simp [h1, h2]
  | false =>
    cases ha : valid a with
    | false => simp
    | true =>
      rw [valid_append_iff_of_valid_left _ ha, valid_cons_ascii c hb] at h
      simp [h]

/-- Split at the end: dropping a trailing ASCII byte. -/
theorem valid_split_ascii_end {a : List UInt8} {b : UInt8}
    (h : valid (a ++ [b])) (hb : b < 0x80) : valid a :=
  (valid_split_ascii h hb).1

/-- Split in front of any ASCII text. -/
theorem valid_split_ascii_text {a t c : List UInt8} (h : valid (a ++ t ++ c)) (ht : Ascii t)
    (hne : t ≠ []) : valid a ∧ valid c := by
  cases t with
  | nil => exact absurd rfl hne
  | cons b t =>
    rw [List.append_assoc, List.cons_append] at h
    obtain ⟨h1, h2⟩ := valid_split_ascii h ht.head
    refine ⟨h1, ?_⟩
    rw [← List.cons_append, valid_ascii_append c ht] at h2
    exact h2

end Utf8.U8
namespace Utf8.U8

/-! ### Part 2: `encode` -/

/-- `step .idle` on the byte with number `k`. -/
def stepIdleNat (k : Nat) : Option St :=
  if k < 0x80 then some .idle
  else if 0xC2 ≤ k ∧ k ≤ 0xDF then some (.mid 1 0x80 0xBF)
  else if k = 0xE0 then some (.mid 2 0xA0 0xBF)
  else if k = 0xED then some (.mid 2 0x80 0x9F)
  else if 0xE1 ≤ k ∧ k ≤ 0xEF then some (.mid 2 0x80 0xBF)
  else if k = 0xF0 then some (.mid 3 0x90 0xBF)
  else if 0xF1 ≤ k ∧ k ≤ 0xF3 then some (.mid 3 0x80 0xBF)
  else if k = 0xF4 then some (.mid 3 0x80 0x8F)
  else none

theorem step_idle_ofNat_all : ∀ k < 256, step .idle (UInt8.ofNat k) = stepIdleNat k := by
  decide +kernel

theorem step_idle_ofNat {k : Nat} (hk : k < 256) : step .idle (UInt8.ofNat k) = stepIdleNat k :=
  step_idle_ofNat_all k hk

theorem step_mid_ofNat (need : Nat) (lo hi : UInt8) {k : Nat} (hk : k < 256) :
    step (.mid need lo hi) (UInt8.ofNat k) =
      if lo.toNat ≤ k ∧ k ≤ hi.toNat then
        (if need ≤ 1 then some .idle else some (.mid (need - 1) 0x80 0xBF)) else none := by
  have : k % 256 = k := Nat.mod_eq_of_lt hk
  simp [step, UInt8.le_iff_toNat_le, UInt8.toNat_ofNat', this]

theorem encode_valid1 {c : Nat} (h : c < 0x80) : valid (encode c) = true := by
  have h1 : encode c = [UInt8.ofNat c] := by simp [encode, h]
  rw [h1, valid_iff]
  simp only [run]
  rw [step_idle_ofNat (by omega)]
  simp [stepIdleNat, h]

theorem encode_valid2 {c : Nat} (h0 : ¬ c < 0x80) (h : c < 0x800) : valid (encode c) = true := by
  have h1 : encode c = [UInt8.ofNat (0xC0 + c / 64), UInt8.ofNat (0x80 + c % 64)] := by
    simp [encode, h, h0]
  rw [h1, valid_iff]
  simp only [run]
  rw [step_idle_ofNat (by omega)]
  unfold stepIdleNat
  rw [if_neg (by omega), if_pos (by omega)]
  simp only []
  rw [step_mid_ofNat _ _ _ (by omega), if_pos (by simp; omega)]
  simp

theorem encode_valid3 {c : Nat} (h0 : ¬ c < 0x800) (h : c < 0x10000)
    (hs : ¬ (0xD800 ≤ c ∧ c < 0xE000)) : valid (encode c) = true := by
  have h1 : encode c = [UInt8.ofNat (0xE0 + c / 4096), UInt8.ofNat (0x80 + (c / 64) % 64),
      UInt8.ofNat (0x80 + c % 64)] := by
    have : ¬ c < 0x80 := by omega
    simp [encode, h, h0, this]
  rw [h1, valid_iff]
  simp only [run]
  rw [step_idle_ofNat (by omega)]
  unfold stepIdleNat
  rw [if_neg (by omega), if_neg (by omega)]
  by_cases hE0 : c / 4096 = 0
  · rw [if_pos (by omega)]
    simp only []
    rw [step_mid_ofNat _ _ _ (by omega), if_pos (by simp; omega)]
    simp only [show ¬ (2 ≤ 1) by omega, if_false]
    rw [step_mid_ofNat _ _ _ (by omega), if_pos (by simp; omega)]
    simp
  · rw [if_neg (by omega)]
    by_cases hED : c / 4096 = 13
    · rw [if_pos (by omega)]
      simp only []
      rw [step_mid_ofNat _ _ _ (by omega), if_pos (by simp; omega)]
      simp only [show ¬ (2 ≤ 1) by omega, if_false]
      rw [step_mid_ofNat _ _ _ (by omega), if_pos (by simp; omega)]
      simp
    · rw [if_neg (by omega), if_pos (by omega)]
      simp only []
      rw [step_mid_ofNat _ _ _ (by omega), if_pos (by simp; omega)]
      simp only [show ¬ (2 ≤ 1) by omega, if_false]
      rw [step_mid_ofNat _ _ _ (by omega), if_pos (by simp; omega)]
      simp

local macro "mid_step" : tactic =>
  `(tactic| (rw [step_mid_ofNat _ _ _ (by omega), if_pos (by simp; omega)]))

theorem encode_valid4 {c : Nat} (h0 : ¬ c < 0x10000) (h : c < 0x110000) :
    valid (encode c) = true := by
  have h1 : encode c = [UInt8.ofNat (0xF0 + c / 262144), UInt8.ofNat (0x80 + (c / 4096) % 64),
      UInt8.ofNat (0x80 + (c / 64) % 64), UInt8.ofNat (0x80 + c % 64)] := by
    have : ¬ c < 0x80 := by omega
    have : ¬ c < 0x800 := by omega
    simp [encode, *]
  rw [h1, valid_iff]
  simp only [run]
  rw [step_idle_ofNat (by omega)]
  unfold stepIdleNat
  rw [if_neg (by omega), if_neg (by omega), if_neg (by omega), if_neg (by omega), if_neg (by omega)]
  by_cases hF0 : c / 262144 = 0
  · rw [if_pos (by omega)]
    simp only []
    mid_step
    simp only [show ¬ (3 ≤ 1) by omega, if_false]
    mid_step
    simp only [show ¬ (3 - 1 ≤ 1) by omega, if_false]
    mid_step
    simp
  · rw [if_neg (by omega)]
    by_cases hF4 : c / 262144 = 4
    · rw [if_neg (by omega), if_pos (by omega)]
      simp only []
      mid_step
      simp only [show ¬ (3 ≤ 1) by omega, if_false]
      mid_step
      simp only [show ¬ (3 - 1 ≤ 1) by omega, if_false]
      mid_step
      simp
    · rw [if_pos (by omega)]
      simp only []
      mid_step
      simp only [show ¬ (3 ≤ 1) by omega, if_false]
      mid_step
      simp only [show ¬ (3 - 1 ≤ 1) by omega, if_false]
      mid_step
      simp

theorem isScalar_iff (c : Nat) : isScalar c = true ↔ c < 0x110000 ∧ ¬ (0xD800 ≤ c ∧ c < 0xE000) := by
  simp only [isScalar, isSurrogate, Bool.and_eq_true, Bool.not_eq_true', decide_eq_true_eq,
    Bool.and_eq_false_iff, decide_eq_false_iff_not]
  omega

/-- `char::encode_utf8` produces well-formed UTF-8. -/
theorem encode_valid {c : Nat} (h : isScalar c = true) : valid (encode c) = true := by
  rw [isScalar_iff] at h
  by_cases h1 : c < 0x80
  · exact encode_valid1 h1
  · by_cases h2 : c < 0x800
    · exact encode_valid2 h1 h2
    · by_cases h3 : c < 0x10000
      · exact encode_valid3 h2 h3 h.2
      · exact encode_valid4 h3 h.1

theorem ofNat_toNat {k : Nat} (hk : k < 256) : (UInt8.ofNat k).toNat = k := by
  simp [UInt8.toNat_ofNat', Nat.mod_eq_of_lt hk]

theorem ofNat_lt {k : Nat} (hk : k < 256) (n : UInt8) : (UInt8.ofNat k < n) = (k < n.toNat) := by
  simp [UInt8.lt_iff_toNat_lt, ofNat_toNat hk]

theorem le_ofNat {k : Nat} (hk : k < 256) (n : UInt8) : (n ≤ UInt8.ofNat k) = (n.toNat ≤ k) := by
  simp [UInt8.le_iff_toNat_le, ofNat_toNat hk]

theorem isCont_ofNat {k : Nat} (hk : k < 256) : isCont (UInt8.ofNat k) = decide (0x80 ≤ k ∧ k < 0xC0) := by
  simp [isCont, ofNat_lt hk, le_ofNat hk]

theorem decodeFirst_encode1 {c : Nat} (h : c < 0x80) (rest : List UInt8) :
    decodeFirst (encode c ++ rest) = some (c, rest) := by
  have h1 : encode c = [UInt8.ofNat c] := by simp [encode, h]
  have hk : c < 256 := by omega
  rw [h1]
  simp only [List.cons_append, List.nil_append, decodeFirst, ofNat_lt hk, ofNat_toNat hk]
  simp [h]

theorem decodeFirst_encode2 {c : Nat} (h0 : ¬ c < 0x80) (h : c < 0x800) (rest : List UInt8) :
    decodeFirst (encode c ++ rest) = some (c, rest) := by
  have h1 : encode c = [UInt8.ofNat (0xC0 + c / 64), UInt8.ofNat (0x80 + c % 64)] := by
    simp [encode, h, h0]
  have hk0 : 0xC0 + c / 64 < 256 := by omega
  have hk1 : 0x80 + c % 64 < 256 := by omega
  rw [h1]
  simp only [List.cons_append, List.nil_append, decodeFirst, ofNat_lt hk0, le_ofNat hk0, ofNat_toNat hk0,
    ofNat_toNat hk1, isCont_ofNat hk1]
  rw [if_neg (by simp; omega), if_pos (by simp; omega), if_pos (by simp; omega)]
  simp; omega

local macro "arith" : tactic =>
  `(tactic| first | omega | (simp; done) | (simp; omega))

theorem decodeFirst_encode3 {c : Nat} (h0 : ¬ c < 0x800) (h : c < 0x10000)
    (hs : ¬ (0xD800 ≤ c ∧ c < 0xE000)) (rest : List UInt8) :
    decodeFirst (encode c ++ rest) = some (c, rest) := by
  have h1 : encode c = [UInt8.ofNat (0xE0 + c / 4096), UInt8.ofNat (0x80 + (c / 64) % 64),
      UInt8.ofNat (0x80 + c % 64)] := by
    have : ¬ c < 0x80 := by omega
    simp [encode, h, h0, this]
  have hk0 : 0xE0 + c / 4096 < 256 := by omega
  have hk1 : 0x80 + (c / 64) % 64 < 256 := by omega
  have hk2 : 0x80 + c % 64 < 256 := by omega
  have hval : ((0xE0 + c / 4096 - 0xE0) * 64 + (0x80 + (c / 64) % 64 - 0x80)) * 64 +
      (0x80 + c % 64 - 0x80) = c := by omega
  rw [h1]
  simp only [List.cons_append, List.nil_append, decodeFirst, ofNat_lt hk0, le_ofNat hk0, ofNat_toNat hk0,
    ofNat_toNat hk1, ofNat_toNat hk2, isCont_ofNat hk1, isCont_ofNat hk2, hval]
  rw [if_neg (by arith), if_neg (by arith), if_pos (by arith), if_pos (by arith),
    if_pos (by simp only [isSurrogate]; arith)]

theorem decodeFirst_encode4 {c : Nat} (h0 : ¬ c < 0x10000) (h : c < 0x110000) (rest : List UInt8) :
    decodeFirst (encode c ++ rest) = some (c, rest) := by
  have h1 : encode c = [UInt8.ofNat (0xF0 + c / 262144), UInt8.ofNat (0x80 + (c / 4096) % 64),
      UInt8.ofNat (0x80 + (c / 64) % 64), UInt8.ofNat (0x80 + c % 64)] := by
    have : ¬ c < 0x80 := by omega
    have : ¬ c < 0x800 := by omega
    simp [encode, *]
  have hk0 : 0xF0 + c / 262144 < 256 := by omega
  have hk1 : 0x80 + (c / 4096) % 64 < 256 := by omega
  have hk2 : 0x80 + (c / 64) % 64 < 256 := by omega
  have hk3 : 0x80 + c % 64 < 256 := by omega
  have hval : (((0xF0 + c / 262144 - 0xF0) * 64 + (0x80 + (c / 4096) % 64 - 0x80)) * 64 +
      (0x80 + (c / 64) % 64 - 0x80)) * 64 + (0x80 + c % 64 - 0x80) = c := by omega
  rw [h1]
  simp only [List.cons_append, List.nil_append, decodeFirst, ofNat_lt hk0, le_ofNat hk0, ofNat_toNat hk0,
    ofNat_toNat hk1, ofNat_toNat hk2, ofNat_toNat hk3, isCont_ofNat hk1, isCont_ofNat hk2,
    isCont_ofNat hk3, hval]
  rw [if_neg (by arith), if_neg (by arith), if_neg (by arith), if_pos (by arith),
    if_pos (by arith), if_pos (by arith)]

/-- Decoding reads back what `encode` wrote. -/
theorem decodeFirst_encode {c : Nat} (h : isScalar c = true) (rest : List UInt8) :
    decodeFirst (encode c ++ rest) = some (c, rest) := by
  rw [isScalar_iff] at h
  by_cases h1 : c < 0x80
  · exact decodeFirst_encode1 h1 rest
  · by_cases h2 : c < 0x800
    · exact decodeFirst_encode2 h1 h2 rest
    · by_cases h3 : c < 0x10000
      · exact decodeFirst_encode3 h2 h3 h.2 rest
      · exact decodeFirst_encode4 h3 h.1 rest

end Utf8.U8
open Utf8 Utf8.U8
namespace Print.U8

/-! ### Part 3: the printer -/

theorem ofNat_ascii {k : Nat} (hk : k < 128) : UInt8.ofNat k < 0x80 := by
  rw [UInt8.lt_iff_toNat_lt, ofNat_toNat (by omega)]; simpa using hk

theorem ch_ascii {c : Char} (h : c.toNat < 128) : ch c < 0x80 := ofNat_ascii h

theorem digitChar_ascii (n : Nat) : (Nat.digitChar n).toNat < 128 := by
  by_cases h : n < 16
  · have hall : ∀ k < 16, (Nat.digitChar k).toNat < 128 := by decide
    exact hall n h
  · unfold Nat.digitChar
    repeat rw [if_neg (by omega)]
    decide

theorem toDigitsCore_ascii (base : Nat) (fuel n : Nat) (ds : List Char)
    (hds : ∀ c ∈ ds, c.toNat < 128) : ∀ c ∈ Nat.toDigitsCore base fuel n ds, c.toNat < 128 := by
  induction fuel generalizing n ds with
  | zero => simpa [Nat.toDigitsCore] using hds
  | succ f ih =>
    have hcons : ∀ c ∈ Nat.digitChar (n % base) :: ds, c.toNat < 128 := by
      intro c hc
      cases hc with
      | head => exact digitChar_ascii _
      | tail _ hc => exact hds c hc
    simp only [Nat.toDigitsCore]
    split
    · exact hcons
    · exact ih _ _ hcons

theorem toDigits_ascii (base n : Nat) : Ascii ((Nat.toDigits base n).map ch) := by
  intro b hb
  obtain ⟨c, hc, rfl⟩ := List.mem_map.mp hb
  exact ch_ascii (toDigitsCore_ascii base _ _ [] (by simp) c hc)

theorem natDigits_ascii (n : Nat) : Ascii (natDigits n) := toDigits_ascii 10 n
theorem natHexLower_ascii (n : Nat) : Ascii (natHexLower n) := toDigits_ascii 16 n

theorem intDigits_ascii (i : Int) : Ascii (intDigits i) := by
  unfold intDigits
  split
  · exact Ascii.cons (by decide) (natDigits_ascii _)
  · exact natDigits_ascii _


theorem escapeText_ascii_all : ∀ n < 128,
    ((escapeText .r6rs (UInt8.ofNat n) (escClass (UInt8.ofNat n))).all (· < 0x80) &&
     (escapeText .elisp (UInt8.ofNat n) (escClass (UInt8.ofNat n))).all (· < 0x80) &&
     !(escapeText .r6rs (UInt8.ofNat n) (escClass (UInt8.ofNat n))).isEmpty &&
     !(escapeText .elisp (UInt8.ofNat n) (escClass (UInt8.ofNat n))).isEmpty) = true := by
  decide +kernel

theorem escClass_nonascii_all : ∀ n < 256, 128 ≤ n → escClass (UInt8.ofNat n) = .none := by
  decide +kernel

theorem escClass_nonascii {b : UInt8} (hb : ¬ b < 0x80) : escClass b = .none := by
  have := escClass_nonascii_all b.toNat (UInt8.toNat_lt b)
    (by rw [UInt8.lt_iff_toNat_lt] at hb; simpa using hb)
  simpa using this

/-- An ASCII byte is escaped to a non-empty ASCII text. -/
theorem escapeText_ascii (syn : StringSyntax) {b : UInt8} (hb : b < 0x80) :
    Ascii (escapeText syn b (escClass b)) ∧ escapeText syn b (escClass b) ≠ [] := by
  have := escapeText_ascii_all b.toNat (by rw [UInt8.lt_iff_toNat_lt] at hb; simpa using hb)
  simp only [UInt8.ofNat_toNat, Bool.and_eq_true, List.all_eq_true, decide_eq_true_eq,
    Bool.not_eq_true', List.isEmpty_eq_false_iff] at this
  obtain ⟨⟨⟨h1, h2⟩, h3⟩, h4⟩ := this
  cases syn
  · exact ⟨h1, h3⟩
  · exact ⟨h2, h4⟩

/-- Escaping one byte is invisible to the automaton. -/
theorem run_escapeText (syn : StringSyntax) {s : St} (hs : s.WF) (b : UInt8) :
    run s (escapeText syn b (escClass b)) = run s [b] := by
  by_cases hb : b < 0x80
  · obtain ⟨hasc, hne⟩ := escapeText_ascii syn hb
    cases s with
    | idle => rw [run_idle_ascii hasc, run_idle_ascii (Ascii.cons hb Ascii.nil)]
    | mid n lo hi =>
      rw [run_mid_ascii hs hb (by simp)]
      cases ht : escapeText syn b (escClass b) with
      | nil => exact absurd ht hne
      | cons x xs =>
        rw [ht] at hasc
        exact run_mid_ascii hs hasc.head (by simp)
  · rw [escClass_nonascii hb]; rfl

theorem escapeStr_cons (syn : StringSyntax) (b : UInt8) (bs : List UInt8) :
    escapeStr syn (b :: bs) = escapeText syn b (escClass b) ++ escapeStr syn bs := by
  simp [escapeStr]

theorem run_escapeStr (syn : StringSyntax) {s : St} (hs : s.WF) (bs : List UInt8) :
    run s (escapeStr syn bs) = run s bs := by
  induction bs generalizing s with
  | nil => rfl
  | cons b bs ih =>
    rw [escapeStr_cons, run_append, run_escapeText syn hs]
    simp only [run]
    cases hb : step s b with
    | none => rfl
    | some s' => exact ih (step_wf hs hb)

/-- `format_escaped_str_contents` preserves (and reflects) validity. -/
theorem valid_escapeStr (syn : StringSyntax) (bs : List UInt8) :
    valid (escapeStr syn bs) = valid bs := by
  simp only [valid, run_escapeStr syn (s := .idle) trivial]

instance (bs : List UInt8) : Decidable (Ascii bs) := by unfold Ascii; infer_instance

theorem schemeChar_ascii (c : Nat) : Ascii (schemeChar c) := by
  unfold schemeChar
  split
  · rename_i h
    exact Ascii.cons (by decide) (Ascii.cons (by decide) (Ascii.cons (ofNat_ascii (by omega)) Ascii.nil))
  · exact Ascii.append (by decide) (natHexLower_ascii c)

theorem elispChar_ascii (c : Nat) : Ascii (elispChar c) := by
  unfold elispChar
  split
  · rename_i h
    have hc : UInt8.ofNat c < 0x80 := ofNat_ascii (by omega)
    split
    · exact Ascii.cons (by decide) (Ascii.cons (by decide) (Ascii.cons hc Ascii.nil))
    · exact Ascii.cons (by decide) (Ascii.cons hc Ascii.nil)
  · exact Ascii.append (by decide) (natHexLower_ascii c)

theorem numberText_ascii {ryu : Nat → List UInt8} (hryu : ∀ b, ∀ x ∈ ryu b, x < 0x80) (n : Number) :
    Ascii (numberText ryu n) := by
  cases n with
  | pos n => exact natDigits_ascii n
  | neg i => exact intDigits_ascii i
  | flt b => exact hryu b

theorem octetsText_ascii : ∀ bs : List UInt8, Ascii (octetsText bs)
  | [] => Ascii.nil
  | [b] => natDigits_ascii _
  | b :: c :: bs => by
    simp only [octetsText]
    exact Ascii.append (natDigits_ascii _) (Ascii.cons (by decide) (octetsText_ascii (c :: bs)))

theorem octalDigit_ascii {n : Nat} (h : n < 8) : octalDigit n < 0x80 := ofNat_ascii (by omega)

theorem elispBytesText_ascii (bs : List UInt8) : Ascii (elispBytesText bs) := by
  intro x hx
  simp only [elispBytesText, List.mem_flatMap] at hx
  obtain ⟨b, _, hx⟩ := hx
  have h1 : b.toNat / 64 % 8 < 8 := Nat.mod_lt _ (by decide)
  have h2 : b.toNat / 8 % 8 < 8 := Nat.mod_lt _ (by decide)
  have h3 : b.toNat % 8 < 8 := Nat.mod_lt _ (by decide)
  exact Ascii.cons (by decide) (Ascii.cons (octalDigit_ascii h1) (Ascii.cons (octalDigit_ascii h2)
    (Ascii.cons (octalDigit_ascii h3) Ascii.nil))) x hx

theorem boolText_ascii (o : Options) (b : Bool) : Ascii (boolText o b) := by
  unfold boolText
  split <;> split <;> decide

theorem nilText_ascii (o : Options) : Ascii (nilText o) := by
  unfold nilText
  split
  · decide
  · decide
  · decide
  · exact boolText_ascii o false

theorem vecOpen_ascii (o : Options) : Ascii (vecOpen o) := by
  unfold vecOpen; split <;> decide
theorem vecClose_ascii (o : Options) : Ascii (vecClose o) := by
  unfold vecClose; split <;> decide

theorem charText_ascii (o : Options) (c : Nat) : Ascii (charText o c) := by
  unfold charText
  split
  · exact schemeChar_ascii c
  · exact elispChar_ascii c

/-! #### values whose text payloads are well-formed -/

mutual
/-- Every string, symbol and keyword payload is well-formed UTF-8 and every character is a
    scalar value, recursively through pairs and vectors.  (This is what the Rust types `String`,
    `Box<str>` and `char` guarantee.) -/
def PayloadsValid : Value → Prop
  | .string s => valid s = true
  | .symbol s => valid s = true
  | .keyword s => valid s = true
  | .char c => isScalar c = true
  | .cons a d => PayloadsValid a ∧ PayloadsValid d
  | .vector xs => PayloadsValidList xs
  | .nil => True
  | .null => True
  | .bool _ => True
  | .number _ => True
  | .bytes _ => True
def PayloadsValidList : List Value → Prop
  | [] => True
  | x :: xs => PayloadsValid x ∧ PayloadsValidList xs
end

mutual
/-- The part of `PayloadsValid` that concerns text: every string, symbol and keyword payload is
    well-formed UTF-8 (nothing is required of characters). -/
def TextValid : Value → Prop
  | .string s => valid s = true
  | .symbol s => valid s = true
  | .keyword s => valid s = true
  | .cons a d => TextValid a ∧ TextValid d
  | .vector xs => TextValidList xs
  | .char _ => True
  | .nil => True
  | .null => True
  | .bool _ => True
  | .number _ => True
  | .bytes _ => True
def TextValidList : List Value → Prop
  | [] => True
  | x :: xs => TextValid x ∧ TextValidList xs
end

mutual
theorem PayloadsValid.text : ∀ v : Value, PayloadsValid v → TextValid v
  | .string _, h => by simp only [PayloadsValid] at h; simp only [TextValid]; exact h
  | .symbol _, h => by simp only [PayloadsValid] at h; simp only [TextValid]; exact h
  | .keyword _, h => by simp only [PayloadsValid] at h; simp only [TextValid]; exact h
  | .cons a d, h => by
    simp only [PayloadsValid] at h; simp only [TextValid]
    exact ⟨PayloadsValid.text a h.1, PayloadsValid.text d h.2⟩
  | .vector xs, h => by
    simp only [PayloadsValid] at h; simp only [TextValid]
    exact PayloadsValidList.text xs h
  | .char _, _ => by simp only [TextValid]
  | .nil, _ => by simp only [TextValid]
  | .null, _ => by simp only [TextValid]
  | .bool _, _ => by simp only [TextValid]
  | .number _, _ => by simp only [TextValid]
  | .bytes _, _ => by simp only [TextValid]
theorem PayloadsValidList.text : ∀ xs : List Value, PayloadsValidList xs → TextValidList xs
  | [], _ => by simp only [TextValidList]
  | x :: xs, h => by
    simp only [PayloadsValidList] at h; simp only [TextValidList]
    exact ⟨PayloadsValid.text x h.1, PayloadsValidList.text xs h.2⟩
end

/-- every emission is well-formed UTF-8 on its own -/
def AllValid (es : List Emit) : Prop := ∀ e ∈ es, valid e.bytes = true

theorem AllValid.nil : AllValid [] := by intro e h; cases h
theorem AllValid.cons {e : Emit} {es : List Emit} (h : valid e.bytes = true) (hs : AllValid es) :
    AllValid (e :: es) := by
  intro x hx; cases hx with
  | head => exact h
  | tail _ hx => exact hs x hx
theorem AllValid.append {a b : List Emit} (ha : AllValid a) (hb : AllValid b) : AllValid (a ++ b) := by
  intro x hx; rcases List.mem_append.mp hx with h | h
  · exact ha x h
  · exact hb x h

/-- an emission of ASCII text -/
theorem AllValid.ascii {bs : List UInt8} (h : Ascii bs) {es : List Emit} (hs : AllValid es) :
    AllValid (.all bs :: es) := AllValid.cons (valid_ascii h) hs

theorem valid_flatten {es : List Emit} (h : AllValid es) : valid (flatten es) = true := by
  induction es with
  | nil => exact valid_nil
  | cons e es ih =>
    simp only [flatten, List.flatMap_cons]
    exact valid_append (h e List.mem_cons_self) (ih (fun x hx => h x (List.mem_cons_of_mem _ hx)))

theorem keywordEmits_valid (o : Options) {s : List UInt8} (h : valid s = true) :
    AllValid (keywordEmits o s) := by
  unfold keywordEmits
  split
  · exact AllValid.cons h (AllValid.ascii (by decide) AllValid.nil)
  · exact AllValid.ascii (by decide) (AllValid.cons h AllValid.nil)
  · exact AllValid.ascii (by decide) (AllValid.cons h AllValid.nil)

theorem bytesEmits_valid (o : Options) (bs : List UInt8) : AllValid (bytesEmits o bs) := by
  unfold bytesEmits
  split
  · exact AllValid.ascii (by decide) (AllValid.ascii (octetsText_ascii bs)
      (AllValid.ascii (by decide) AllValid.nil))
  · exact AllValid.ascii (by decide) (AllValid.ascii (octetsText_ascii bs)
      (AllValid.ascii (by decide) AllValid.nil))
  · exact AllValid.ascii (by decide) (AllValid.ascii (elispBytesText_ascii bs)
      (AllValid.ascii (by decide) AllValid.nil))

theorem atomEmits_valid (o : Options) {ryu : Nat → List UInt8} (hryu : ∀ b, ∀ x ∈ ryu b, x < 0x80) :
    ∀ v : Value, TextValid v → AllValid (atomEmits o ryu v)
  | .nil, _ => AllValid.ascii (nilText_ascii o) AllValid.nil
  | .null, _ => AllValid.ascii (by decide) AllValid.nil
  | .bool b, _ => AllValid.ascii (boolText_ascii o b) AllValid.nil
  | .number n, _ => AllValid.ascii (numberText_ascii hryu n) AllValid.nil
  | .char c, _ => AllValid.ascii (charText_ascii o c) AllValid.nil
  | .symbol s, h => by
    simp only [TextValid] at h
    exact AllValid.cons h AllValid.nil
  | .keyword s, h => by
    simp only [TextValid] at h
    exact keywordEmits_valid o h
  | .string s, h => by
    simp only [TextValid] at h
    exact AllValid.ascii (by decide) (AllValid.cons (by simpa [Emit.bytes, valid_escapeStr] using h)
      (AllValid.ascii (by decide) AllValid.nil))
  | .bytes b, _ => bytesEmits_valid o b
  | .cons _ _, _ => AllValid.nil
  | .vector _, _ => AllValid.nil

theorem dot_valid : AllValid [Emit.all (asc " "), Emit.all (asc "."), Emit.all (asc " ")] :=
  AllValid.ascii (by decide) (AllValid.ascii (by decide) (AllValid.ascii (by decide) AllValid.nil))

mutual
theorem emits_valid (o : Options) {ryu : Nat → List UInt8} (hryu : ∀ b, ∀ x ∈ ryu b, x < 0x80) :
    ∀ v : Value, TextValid v → AllValid (emits o ryu v)
  | .cons a d, h => by
    simp only [TextValid] at h
    simp only [emits]
    exact AllValid.ascii (by decide) (AllValid.append (AllValid.append (emits_valid o hryu a h.1)
      (emitsTail_valid o hryu d h.2)) (AllValid.ascii (by decide) AllValid.nil))
  | .vector xs, h => by
    simp only [TextValid] at h
    simp only [emits]
    exact AllValid.ascii (vecOpen_ascii o) (AllValid.append (emitsSeq_valid o hryu true xs h)
      (AllValid.ascii (vecClose_ascii o) AllValid.nil))
  | .nil, h => by
    simp only [emits]
    exact (atomEmits_valid o hryu _ h)
  | .null, h => by
    simp only [emits]
    exact (atomEmits_valid o hryu _ h)
  | .bool _, h => by
    simp only [emits]
    exact (atomEmits_valid o hryu _ h)
  | .number _, h => by
    simp only [emits]
    exact (atomEmits_valid o hryu _ h)
  | .char _, h => by
    simp only [emits]
    exact (atomEmits_valid o hryu _ h)
  | .string _, h => by
    simp only [emits]
    exact (atomEmits_valid o hryu _ h)
  | .symbol _, h => by
    simp only [emits]
    exact (atomEmits_valid o hryu _ h)
  | .keyword _, h => by
    simp only [emits]
    exact (atomEmits_valid o hryu _ h)
  | .bytes _, h => by
    simp only [emits]
    exact (atomEmits_valid o hryu _ h)
theorem emitsTail_valid (o : Options) {ryu : Nat → List UInt8} (hryu : ∀ b, ∀ x ∈ ryu b, x < 0x80) :
    ∀ v : Value, TextValid v → AllValid (emitsTail o ryu v)
  | .null, _ => by simp only [emitsTail]; exact AllValid.nil
  | .cons a d, h => by
    simp only [TextValid] at h
    simp only [emitsTail]
    exact AllValid.ascii (by decide) (AllValid.append (emits_valid o hryu a h.1)
      (emitsTail_valid o hryu d h.2))
  | .vector xs, h => by
    simp only [TextValid] at h
    simp only [emitsTail]
    exact AllValid.append dot_valid (AllValid.ascii (vecOpen_ascii o)
      (AllValid.append (emitsSeq_valid o hryu true xs h) (AllValid.ascii (vecClose_ascii o) AllValid.nil)))
  | .nil, h => by
    simp only [emitsTail]
    exact AllValid.append dot_valid (atomEmits_valid o hryu _ h)
  | .bool _, h => by
    simp only [emitsTail]
    exact AllValid.append dot_valid (atomEmits_valid o hryu _ h)
  | .number _, h => by
    simp only [emitsTail]
    exact AllValid.append dot_valid (atomEmits_valid o hryu _ h)
  | .char _, h => by
    simp only [emitsTail]
    exact AllValid.append dot_valid (atomEmits_valid o hryu _ h)
  | .string _, h => by
    simp only [emitsTail]
    exact AllValid.append dot_valid (atomEmits_valid o hryu _ h)
  | .symbol _, h => by
    simp only [emitsTail]
    exact AllValid.append dot_valid (atomEmits_valid o hryu _ h)
  | .keyword _, h => by
    simp only [emitsTail]
    exact AllValid.append dot_valid (atomEmits_valid o hryu _ h)
  | .bytes _, h => by
    simp only [emitsTail]
    exact AllValid.append dot_valid (atomEmits_valid o hryu _ h)
theorem emitsSeq_valid (o : Options) {ryu : Nat → List UInt8} (hryu : ∀ b, ∀ x ∈ ryu b, x < 0x80) :
    ∀ (first : Bool) (xs : List Value), TextValidList xs → AllValid (emitsSeq o ryu first xs)
  | _, [], _ => by simp only [emitsSeq]; exact AllValid.nil
  | true, x :: xs, h => by
    simp only [TextValidList] at h
    simp only [emitsSeq]
    exact AllValid.append (emits_valid o hryu x h.1) (emitsSeq_valid o hryu false xs h.2)
  | false, x :: xs, h => by
    simp only [TextValidList] at h
    simp only [emitsSeq]
    exact AllValid.ascii (by decide) (AllValid.append (emits_valid o hryu x h.1)
      (emitsSeq_valid o hryu false xs h.2))
end

end Print.U8
open Utf8 Utf8.U8
namespace Parse.U8

/-! ### Part 4: the `&str` source -/

theorem bind_apply {α β : Type} (m : P α) (f : α → P β) (s : St) :
    (m >>= f) s = match m s with
      | .ok a s' => f a s'
      | .err e s' => .err e s'
      | .panic p => .panic p
      | .fuel => .fuel := rfl

theorem pure_apply {α : Type} (a : α) (s : St) : (pure a : P α) s = .ok a s := rfl

theorem symTerm_ascii {m : Mode} {b : UInt8} (h : symTerm m b = true) : b < 0x80 := by
  cases m <;> simp [symTerm, symTermIo, symTermSlice, or_assoc] at h <;>
    rcases h with rfl | rfl | rfl | rfl | rfl | rfl | rfl | rfl | rfl | rfl <;> decide

theorem symLen_drop (m : Mode) : ∀ (rest : List UInt8) {b : UInt8} {c : List UInt8},
    rest.drop (symLen m rest) = b :: c → symTerm m b = true
  | [], _, _, h => by simp [symLen] at h
  | x :: xs, b, c, h => by
    simp only [symLen] at h
    split at h
    · rename_i hx
      simp only [List.drop_zero, List.cons.injEq] at h
      rw [← h.1]; exact hx
    · simp only [List.drop_succ_cons] at h
      exact symLen_drop m xs h

/-- The symbol scanner stops at an ASCII byte or at the end, so it cuts valid text into valid text. -/
theorem valid_take_symLen (m : Mode) {rest : List UInt8} (h : valid rest = true) :
    valid (rest.take (symLen m rest)) = true := by
  cases hd : rest.drop (symLen m rest) with
  | nil =>
    have := List.take_append_drop (symLen m rest) rest
    rw [hd, List.append_nil] at this
    rw [this]; exact h
  | cons b c =>
    have hb := symTerm_ascii (symLen_drop m rest hd)
    have := List.take_append_drop (symLen m rest) rest
    rw [hd] at this
    rw [← this] at h
    exact (valid_split_ascii h hb).1

theorem parseSymbolBytes_ok {scratch : List UInt8} {s s' : St} {name : List UInt8}
    (h : parseSymbolBytes scratch s = .ok name s') :
    name = scratch ++ s.rd.rest.take (symLen s.rd.mode s.rd.rest) ∧
      (s.rd.mode ≠ .str → valid name = true) := by
  unfold parseSymbolBytes at h
  simp only [bind_apply, getRest, getMode, consumeN] at h
  split at h
  · split at h
    · simp [errAt] at h
    · split at h
      · rename_i hm
        simp only [pure_apply, Res.ok.injEq] at h
        refine ⟨h.1.symm, fun hne => ?_⟩
        simp at hm
        exact absurd hm hne
      · split at h
        · rename_i hv
          simp only [pure_apply, Res.ok.injEq] at h
          rw [← h.1]
          exact ⟨rfl, fun _ => hv⟩
        · split at h <;> simp [errAt] at h
  · cases h
  · cases h
  · cases h

/-! #### reader steps -/

theorem consume_one_cons {rd : Rd} {b : UInt8} {bs : List UInt8} (h : rd.rest = b :: bs) :
    (rd.consume 1).rest = bs ∧ (rd.consume 1).mode = rd.mode := by
  rw [show (1 : Nat) = 0 + 1 from rfl]
  simp only [Rd.consume, h]
  cases advance rd.line rd.col b with
  | mk l c => simp

theorem next_ok {s s' : St} {a : Option UInt8} (h : next s = .ok a s') :
    s'.rd.mode = s.rd.mode ∧
      ((a = none ∧ s'.rd.rest = s.rd.rest) ∨ ∃ b, a = some b ∧ s.rd.rest = b :: s'.rd.rest) := by
  unfold next at h
  split at h
  · rename_i b bs hr
    simp only [Res.ok.injEq] at h
    obtain ⟨rfl, rfl⟩ := h
    obtain ⟨h1, h2⟩ := consume_one_cons hr
    exact ⟨h2, Or.inr ⟨b, rfl, by rw [hr, h1]⟩⟩
  · split at h
    · cases h
    · simp only [Res.ok.injEq] at h
      obtain ⟨rfl, rfl⟩ := h
      exact ⟨rfl, Or.inl ⟨rfl, rfl⟩⟩

theorem nextOrEof_ok {s s' : St} {c : UInt8} (h : nextOrEof s = .ok c s') :
    s'.rd.mode = s.rd.mode ∧ s.rd.rest = c :: s'.rd.rest := by
  unfold nextOrEof at h
  simp only [bind_apply] at h
  cases hn : next s with
  | ok a s1 =>
    rw [hn] at h
    obtain ⟨hm, hr⟩ := next_ok hn
    cases a with
    | none => simp [errAt] at h
    | some b =>
      simp only [pure_apply, Res.ok.injEq] at h
      obtain ⟨rfl, rfl⟩ := h
      rcases hr with ⟨h0, _⟩ | ⟨b', hb, hr⟩
      · cases h0
      · cases hb; exact ⟨hm, hr⟩
  | err e s1 => rw [hn] at h; simp at h
  | panic p => rw [hn] at h; simp at h
  | fuel => rw [hn] at h; simp at h

theorem hexVal_nonascii_all : ∀ n < 256, 128 ≤ n → hexVal (UInt8.ofNat n) = none := by
  decide +kernel

theorem hexVal_ascii {b : UInt8} {v : Nat} (h : hexVal b = some v) : b < 0x80 := by
  by_cases hb : b < 0x80
  · exact hb
  · have := hexVal_nonascii_all b.toNat (UInt8.toNat_lt b)
      (by rw [UInt8.lt_iff_toNat_lt] at hb; simpa using hb)
    rw [UInt8.ofNat_toNat, h] at this
    cases this

/-- `decode_r6rs_hex_escape` consumes ASCII bytes only. -/
theorem decodeR6rsHexEscape_ok (f : Nat) : ∀ (n : Nat) {s s' : St} {m : Nat},
    decodeR6rsHexEscape f n s = .ok m s' →
    s'.rd.mode = s.rd.mode ∧ ∃ pre, Ascii pre ∧ s.rd.rest = pre ++ s'.rd.rest := by
  induction f with
  | zero => intro n s s' m h; simp [decodeR6rsHexEscape, outOfFuel] at h
  | succ f ih =>
    intro n s s' m h
    simp only [decodeR6rsHexEscape, bind_apply] at h
    cases hn : nextOrEof s with
    | ok b s1 =>
      rw [hn] at h
      obtain ⟨hm, hr⟩ := nextOrEof_ok hn
      simp only [] at h
      split at h
      · rename_i hb
        simp only [pure_apply, Res.ok.injEq] at h
        obtain ⟨_, rfl⟩ := h
        have hb' : b = 59 := eq_of_beq hb
        exact ⟨hm, [b], Ascii.cons (by rw [hb']; decide) Ascii.nil, hr⟩
      · cases hv : hexVal b with
        | none => rw [hv] at h; simp [errAt] at h
        | some v =>
          rw [hv] at h
          simp only [] at h
          split at h
          · simp [errAt] at h
          · obtain ⟨hm2, pre, hpre, hr2⟩ := ih _ h
            exact ⟨hm2.trans hm, b :: pre, Ascii.cons (hexVal_ascii hv) hpre, by rw [hr, hr2]; rfl⟩
    | err e s1 => rw [hn] at h; simp at h
    | panic p => rw [hn] at h; simp at h
    | fuel => rw [hn] at h; simp at h

theorem bind_ok {α β : Type} {m : P α} {f : α → P β} {s s' : St} {b : β}
    (h : (m >>= f) s = .ok b s') : ∃ a s1, m s = .ok a s1 ∧ f a s1 = .ok b s' := by
  rw [bind_apply] at h
  cases hm : m s with
  | ok a s1 => rw [hm] at h; exact ⟨a, s1, rfl, h⟩
  | err e s1 => rw [hm] at h; cases h
  | panic p => rw [hm] at h; cases h
  | fuel => rw [hm] at h; cases h

local macro "esc_case" c:ident k:num h:ident hm:ident hr:ident : tactic => `(tactic| (
  by_cases hc : ($c == $k) = true
  · rw [if_pos hc] at $h:ident
    simp only [pure_apply, Res.ok.injEq] at $h:ident
    obtain ⟨h1, h2⟩ := $h
    subst h1; subst h2
    have hc' := eq_of_beq hc
    exact ⟨$hm, [$c], _, Ascii.cons (by rw [hc']; decide) Ascii.nil, $hr, Eq.refl _, by decide⟩
  rw [if_neg hc] at $h:ident
  clear hc))

/-- `parse_r6rs_escape` consumes ASCII bytes only and appends valid text. -/
theorem parseR6rsEscape_ok {fuel : Nat} {acc acc' : List UInt8} {s s' : St}
    (h : parseR6rsEscape fuel acc s = .ok acc' s') :
    s'.rd.mode = s.rd.mode ∧ ∃ pre add, Ascii pre ∧ s.rd.rest = pre ++ s'.rd.rest ∧
      acc' = acc ++ add ∧ valid add = true := by
  unfold parseR6rsEscape at h
  obtain ⟨c, s1, hn, h⟩ := bind_ok h
  obtain ⟨hm, hr⟩ := nextOrEof_ok hn
  esc_case c 34 h hm hr
  esc_case c 92 h hm hr
  esc_case c 97 h hm hr
  esc_case c 98 h hm hr
  esc_case c 102 h hm hr
  esc_case c 110 h hm hr
  esc_case c 114 h hm hr
  esc_case c 116 h hm hr
  esc_case c 118 h hm hr
  esc_case c 124 h hm hr
  by_cases hc : (c == 120) = true
  · rw [if_pos hc] at h
    obtain ⟨n, s2, hd, h⟩ := bind_ok h
    obtain ⟨hm2, pre, hpre, hr2⟩ := decodeR6rsHexEscape_ok _ _ hd
    split at h
    · rename_i hsc
      simp only [pure_apply, Res.ok.injEq] at h
      obtain ⟨rfl, rfl⟩ := h
      exact ⟨hm2.trans hm, c :: pre, encode n,
        Ascii.cons (by rw [eq_of_beq hc]; decide) hpre, by rw [hr, hr2]; rfl, rfl,
        encode_valid hsc⟩
    · simp [errAt] at h
  · rw [if_neg hc] at h
    simp [errAt] at h

theorem finishStr_ok {checked : Bool} {bytes out : List UInt8} {s s' : St}
    (h : finishStr checked bytes s = .ok out s') :
    out = bytes ∧ (valid bytes = true ∨ (checked = false ∧ s.rd.mode = .str)) := by
  unfold finishStr at h
  simp only [bind_apply, getMode] at h
  split at h
  · rename_i hc
    simp only [pure_apply, Res.ok.injEq] at h
    simp only [Bool.and_eq_true, Bool.not_eq_true', beq_iff_eq] at hc
    exact ⟨h.1.symm, Or.inr hc⟩
  · split at h
    · rename_i hv
      simp only [pure_apply, Res.ok.injEq] at h
      exact ⟨h.1.symm, Or.inl hv⟩
    · simp [errAt] at h

theorem run_cons_some {s t : Utf8.St} {b : UInt8} {bs : List UInt8} (h : run s (b :: bs) = some t) :
    ∃ s', step s b = some s' ∧ run s' bs = some t := by
  simp only [run] at h
  cases hs : step s b with
  | none => rw [hs] at h; cases h
  | some s' => rw [hs] at h; exact ⟨s', rfl, h⟩

/-- The invariant of the string loop for the `&str` source: the scratch buffer followed by the
    unread input is well-formed (`st` is the automaton state between the two). -/
def StrInv (acc : List UInt8) (s : St) : Prop :=
  ∃ st, run .idle acc = some st ∧ run st s.rd.rest = some .idle

theorem StrInv.of_valid {acc : List UInt8} {s : St} (ha : valid acc = true)
    (hr : valid s.rd.rest = true) : StrInv acc s :=
  ⟨.idle, (valid_iff _).mp ha, (valid_iff _).mp hr⟩

/-- in front of an ASCII byte the scratch buffer is complete -/
theorem StrInv.at_ascii {acc : List UInt8} {s : St} {c : UInt8} {rest : List UInt8}
    (h : StrInv acc s) (hr : s.rd.rest = c :: rest) (hc : c < 0x80) :
    valid acc = true ∧ valid rest = true := by
  obtain ⟨st, h1, h2⟩ := h
  rw [hr] at h2
  obtain ⟨st', h3, h4⟩ := run_cons_some h2
  obtain ⟨rfl, rfl⟩ := step_ascii (run_wf (s := .idle) trivial h1) hc h3
  exact ⟨(valid_iff _).mpr h1, (valid_iff _).mpr h4⟩

/-- copying one byte from the input to the scratch buffer -/
theorem StrInv.copy {acc : List UInt8} {s s1 : St} {c : UInt8}
    (h : StrInv acc s) (hr : s.rd.rest = c :: s1.rd.rest) : StrInv (acc ++ [c]) s1 := by
  obtain ⟨st, h1, h2⟩ := h
  rw [hr] at h2
  obtain ⟨st', h3, h4⟩ := run_cons_some h2
  exact ⟨st', by simp [run_append, h1, run, h3], h4⟩

theorem parseR6rsStr_ok (f : Nat) : ∀ {acc : List UInt8} {s s' : St} {out : List UInt8},
    parseR6rsStr f acc s = .ok out s' →
    (s.rd.mode ≠ .str → valid out = true) ∧ (s.rd.mode = .str → StrInv acc s → valid out = true) := by
  induction f with
  | zero => intro acc s s' out h; simp [parseR6rsStr, outOfFuel] at h
  | succ f ih =>
    intro acc s s' out h
    simp only [parseR6rsStr] at h
    obtain ⟨c, s1, hn, h⟩ := bind_ok h
    obtain ⟨hm, hr⟩ := nextOrEof_ok hn
    by_cases h34 : (c == 34) = true
    · rw [if_pos h34] at h
      obtain ⟨rfl, hv⟩ := finishStr_ok h
      have hc : c < 0x80 := by rw [eq_of_beq h34]; decide
      refine ⟨fun hne => ?_, fun _ hinv => (hinv.at_ascii hr hc).1⟩
      rcases hv with hv | ⟨_, hs⟩
      · exact hv
      · exact absurd (hm ▸ hs) hne
    · rw [if_neg h34] at h
      by_cases h92 : (c == 92) = true
      · rw [if_pos h92] at h
        obtain ⟨acc', s2, he, h⟩ := bind_ok h
        obtain ⟨hm2, pre, add, hpre, hr2, hacc, hadd⟩ := parseR6rsEscape_ok he
        have hc : c < 0x80 := by rw [eq_of_beq h92]; decide
        obtain ⟨ih1, ih2⟩ := ih h
        refine ⟨fun hne => ih1 (by rw [hm2, hm]; exact hne), fun hs hinv => ?_⟩
        obtain ⟨ha, hrest⟩ := hinv.at_ascii hr hc
        apply ih2 (by rw [hm2, hm]; exact hs)
        rw [hr2, valid_ascii_append _ hpre] at hrest
        exact StrInv.of_valid (by rw [hacc]; exact valid_append ha hadd) hrest
      · rw [if_neg h92] at h
        obtain ⟨ih1, ih2⟩ := ih h
        exact ⟨fun hne => ih1 (by rw [hm]; exact hne),
          fun hs hinv => ih2 (by rw [hm]; exact hs) (hinv.copy hr)⟩

end Parse.U8
open Utf8 Utf8.U8
namespace Parse.U8

/-! #### bonus: UTF-8 sequences read by `decode_utf8_sequence`, Emacs strings -/

theorem readCont_ok (n : Nat) : ∀ {acc : List UInt8} {s s' : St} {bytes : List UInt8},
    readCont n acc s = .ok bytes s' →
    s'.rd.mode = s.rd.mode ∧ ∃ more, bytes = acc ++ more ∧ s.rd.rest = more ++ s'.rd.rest := by
  induction n with
  | zero =>
    intro acc s s' bytes h
    simp only [readCont, pure_apply, Res.ok.injEq] at h
    obtain ⟨rfl, rfl⟩ := h
    exact ⟨rfl, [], by simp, rfl⟩
  | succ n ih =>
    intro acc s s' bytes h
    simp only [readCont] at h
    obtain ⟨a, s1, hn, h⟩ := bind_ok h
    obtain ⟨hm, hr⟩ := next_ok hn
    cases a with
    | none => simp [errAt] at h
    | some b =>
      rcases hr with ⟨h0, _⟩ | ⟨b', hb, hr⟩
      · cases h0
      · cases hb
        obtain ⟨hm2, more, hb2, hr2⟩ := ih h
        exact ⟨hm2.trans hm, b :: more, by simp [hb2], by rw [hr, hr2]; rfl⟩

/-- `decode_utf8_sequence` returns well-formed bytes, and they are exactly what was consumed
    (together with the initial byte, which the caller has consumed). -/
theorem decodeUtf8Sequence_ok {initial : UInt8} {s s' : St} {c : Nat} {bytes : List UInt8}
    (h : decodeUtf8Sequence initial s = .ok (c, bytes) s') :
    valid bytes = true ∧ s'.rd.mode = s.rd.mode ∧ initial :: s.rd.rest = bytes ++ s'.rd.rest := by
  unfold decodeUtf8Sequence at h
  generalize (if (decide (192 ≤ initial) && decide (initial ≤ 223)) = true then some 1 else _ :
    Option Nat) = len at h
  cases len with
  | none => simp [errAt] at h
  | some len =>
    obtain ⟨bs, s1, hrc, h⟩ := bind_ok h
    obtain ⟨hm, more, hb, hr⟩ := readCont_ok _ hrc
    by_cases hv : valid bs = true
    · rw [if_pos hv] at h
      cases hd : decodeFirst bs with
      | none => rw [hd] at h; simp [panicAt] at h
      | some p =>
        obtain ⟨c', r⟩ := p
        rw [hd] at h
        simp only [pure_apply, Res.ok.injEq, Prod.mk.injEq] at h
        obtain ⟨⟨_, rfl⟩, rfl⟩ := h
        exact ⟨hv, hm, by rw [hb, hr]; rfl⟩
    · rw [if_neg hv] at h
      simp [errAt] at h

/-- After a sequence has been read from well-formed input, the remaining input is well-formed. -/
theorem decodeUtf8Sequence_rest_valid {initial : UInt8} {s s' : St} {c : Nat} {bytes : List UInt8}
    (h : decodeUtf8Sequence initial s = .ok (c, bytes) s')
    (hv : valid (initial :: s.rd.rest) = true) : valid s'.rd.rest = true := by
  obtain ⟨hb, _, hr⟩ := decodeUtf8Sequence_ok h
  rw [hr, valid_append_iff_of_valid_left _ hb] at hv
  exact hv

/-- `parse_elisp_str` validates every multibyte result (`as_str`), whatever the source. -/
theorem parseElispStr_multibyte_valid (f : Nat) : ∀ {acc : List UInt8} {ub mb na : Bool} {s s' : St}
    {out : List UInt8}, parseElispStr f acc ub mb na s = .ok (.multibyte out) s' → valid out = true := by
  induction f with
  | zero => intro acc ub mb na s s' out h; simp [parseElispStr, outOfFuel] at h
  | succ f ih =>
    intro acc ub mb na s s' out h
    simp only [parseElispStr] at h
    obtain ⟨c, s1, hn, h⟩ := bind_ok h
    split at h
    · split at h
      · simp [pure_apply] at h
      · obtain ⟨o, s2, hf, h2⟩ := bind_ok h
        simp only [pure_apply, Res.ok.injEq, ElispStr.multibyte.injEq] at h2
        obtain ⟨ho, hv⟩ := finishStr_ok hf
        rw [← h2.1, ho]
        rcases hv with hv | ⟨hc, _⟩
        · exact hv
        · cases hc
    · split at h
      · obtain ⟨⟨acc', k⟩, s2, he, h⟩ := bind_ok h
        cases k <;> exact ih h
      · exact ih h

end Parse.U8

open Utf8 Utf8.U8
namespace Parse.U8

/-! ### Part 5: tokens -/

theorem ite_ok {α : Type} {c : Prop} [Decidable c] {f g : P α} {s s' : St} {a : α}
    (h : (if c then f else g) s = .ok a s') : (c ∧ f s = .ok a s') ∨ (¬ c ∧ g s = .ok a s') := by
  by_cases hc : c
  · rw [if_pos hc] at h; exact Or.inl ⟨hc, h⟩
  · rw [if_neg hc] at h; exact Or.inr ⟨hc, h⟩

theorem pure_ok {α : Type} {a b : α} {s s' : St} (h : (pure a : P α) s = .ok b s') : a = b ∧ s = s' := by
  simpa [pure_apply] using h

theorem discard_ok {s s' : St} {u : Unit} (h : discard s = .ok u s') :
    s'.rd.mode = s.rd.mode ∧ ∃ b, s.rd.rest = b :: s'.rd.rest := by
  unfold discard at h
  split at h
  · rename_i b bs hr
    simp only [Res.ok.injEq] at h
    obtain ⟨_, rfl⟩ := h
    obtain ⟨h1, h2⟩ := consume_one_cons hr
    exact ⟨h2, b, by rw [hr, h1]⟩
  · cases h

theorem peek_ok {s s' : St} {a : Option UInt8} (h : peek s = .ok a s') :
    s'.rd.mode = s.rd.mode ∧ s'.rd.rest = s.rd.rest ∧ a = s.rd.rest.head? := by
  unfold peek at h
  split at h
  · rename_i b bs hr
    simp only [Res.ok.injEq] at h
    obtain ⟨rfl, rfl⟩ := h
    exact ⟨rfl, rfl, by rw [hr]; rfl⟩
  · rename_i hr
    split at h
    · cases h
    · simp only [Res.ok.injEq] at h
      obtain ⟨rfl, rfl⟩ := h
      exact ⟨rfl, rfl, by rw [hr]; rfl⟩

theorem peekOrNull_ok {s s' : St} {b : UInt8} (h : peekOrNull s = .ok b s') :
    s'.rd.mode = s.rd.mode ∧ s'.rd.rest = s.rd.rest ∧ b = s.rd.rest.head?.getD 0 := by
  unfold peekOrNull at h
  obtain ⟨a, s1, hp, h⟩ := bind_ok h
  obtain ⟨h1, h2, h3⟩ := peek_ok hp
  obtain ⟨rfl, rfl⟩ := pure_ok h
  exact ⟨h1, h2, by rw [h3]⟩

/-- In `&str` mode the unread input is well-formed. -/
def SV (s : St) : Prop := s.rd.mode = .str → valid s.rd.rest = true

theorem SV.same {s s1 : St} (h : SV s) (hm : s1.rd.mode = s.rd.mode) (hr : s1.rd.rest = s.rd.rest) :
    SV s1 := by
  intro h1; rw [hr]; exact h (hm ▸ h1)

theorem SV.tail {s s1 : St} {b : UInt8} (h : SV s) (hm : s1.rd.mode = s.rd.mode)
    (hr : s.rd.rest = b :: s1.rd.rest) (hb : b < 0x80) : SV s1 := by
  intro h1
  have := h (hm ▸ h1)
  rw [hr, valid_cons_ascii _ hb] at this
  exact this

/-- The text payload of a token is well-formed. -/
def TokValid : Token → Prop
  | .symbol s => valid s = true
  | .keyword s => valid s = true
  | .string s => valid s = true
  | _ => True

theorem symCall_valid {scratch : List UInt8} {s s' : St} {name : List UInt8}
    (h : parseSymbolBytes scratch s = .ok name s') (hs : valid scratch = true) (hr : SV s) :
    valid name = true := by
  obtain ⟨hn, hc⟩ := parseSymbolBytes_ok h
  by_cases hm : s.rd.mode = .str
  · rw [hn]; exact valid_append hs (valid_take_symLen _ (hr hm))
  · exact hc hm

theorem valid_dropLast_colon {name : List UInt8} (hv : valid name = true)
    (hl : name.getLast? = some 58) : valid name.dropLast = true := by
  obtain ⟨ys, rfl⟩ := List.getLast?_eq_some_iff.mp hl
  rw [List.dropLast_concat]
  exact valid_split_ascii_end hv (by decide)

theorem symbolToken_valid (o : Options) {name : List UInt8} (hv : valid name = true) :
    TokValid (symbolToken o name) := by
  unfold symbolToken
  split
  · rename_i hc
    simp only [Bool.and_eq_true, beq_iff_eq] at hc
    exact valid_dropLast_colon hv hc.2
  · exact hv

theorem parseSignDotSymbol_valid {cfg : Cfg} {pfx : List UInt8} {s s' : St} {tok : Token}
    (h : parseSignDotSymbol cfg pfx s = .ok tok s') (hp : valid pfx = true) (hs : SV s)
    (hhead : ∀ b tl, s.rd.rest = b :: tl → b < 0x80) : TokValid tok := by
  unfold parseSignDotSymbol at h
  obtain ⟨_, s1, hd, h⟩ := bind_ok h
  obtain ⟨hm1, b, hr1⟩ := discard_ok hd
  have hs1 : SV s1 := hs.tail hm1 hr1 (hhead _ _ hr1)
  obtain ⟨c, s2, hpk, h⟩ := bind_ok h
  obtain ⟨hm2, hr2, _⟩ := peekOrNull_ok hpk
  have hs2 : SV s2 := hs1.same hm2 hr2
  rcases ite_ok h with ⟨_, h⟩ | ⟨_, h⟩
  · simp [peekErr] at h
  · obtain ⟨name, s3, hsym, h⟩ := bind_ok h
    obtain ⟨rfl, _⟩ := pure_ok h
    exact symbolToken_valid _ (symCall_valid hsym hp hs2)

theorem parseSignToken_valid {cfg : Cfg} {fuel : Nat} {sign : UInt8} {pos : Bool} {s s' : St}
    {tok : Token} (h : parseSignToken cfg fuel sign pos s = .ok tok s') (hsign : sign < 0x80)
    (hs : SV s) (hhead : ∀ b tl, s.rd.rest = b :: tl → b < 0x80) : TokValid tok := by
  unfold parseSignToken at h
  obtain ⟨_, s1, hd, h⟩ := bind_ok h
  obtain ⟨hm1, b, hr1⟩ := discard_ok hd
  have hs1 : SV s1 := hs.tail hm1 hr1 (hhead _ _ hr1)
  obtain ⟨nxt, s2, hpk, h⟩ := bind_ok h
  obtain ⟨hm2, hr2, hnxt⟩ := peekOrNull_ok hpk
  have hs2 : SV s2 := hs1.same hm2 hr2
  rcases ite_ok h with ⟨_, h⟩ | ⟨_, h⟩
  · obtain ⟨name, s3, hsym, h⟩ := bind_ok h
    obtain ⟨rfl, _⟩ := pure_ok h
    exact symbolToken_valid _ (symCall_valid hsym (valid_ascii (Ascii.cons hsign Ascii.nil)) hs2)
  · rcases ite_ok h with ⟨h46, h⟩ | ⟨_, h⟩
    · refine parseSignDotSymbol_valid h
        (valid_ascii (Ascii.cons hsign (Ascii.cons (by decide) Ascii.nil))) hs2 ?_
      intro b' tl hr
      rw [hr2] at hr
      rw [hr] at hnxt
      simp only [List.head?_cons, Option.getD_some] at hnxt
      rw [← hnxt, eq_of_beq h46]; decide
    · obtain ⟨n, s3, _, h⟩ := bind_ok h
      obtain ⟨rfl, _⟩ := pure_ok h
      exact True.intro

local macro "tok_triv" h:ident : tactic => `(tactic| first
  | (obtain ⟨h1, _⟩ := pure_ok $h; subst h1; exact True.intro)
  | (obtain ⟨_, _, _, h2⟩ := bind_ok $h; obtain ⟨h1, _⟩ := pure_ok h2; subst h1; exact True.intro)
  | (obtain ⟨_, _, _, h2⟩ := bind_ok $h; obtain ⟨_, _, _, h3⟩ := bind_ok h2
     obtain ⟨h1, _⟩ := pure_ok h3; subst h1; exact True.intro))

theorem r6rsStr_call_valid {f : Nat} {acc : List UInt8} {s s' : St} {out : List UInt8}
    (h : parseR6rsStr f acc s = .ok out s') (ha : valid acc = true) (hs : SV s) : valid out = true := by
  obtain ⟨h1, h2⟩ := parseR6rsStr_ok f h
  by_cases hm : s.rd.mode = .str
  · exact h2 hm (StrInv.of_valid ha (hs hm))
  · exact h1 hm

/-- **Tokens.**  `pk` is the byte the caller has peeked.  If (for the `&str` source) the unread
    input is well-formed, the text payload of the token is well-formed. -/
theorem parseToken_valid {cfg : Cfg} {fuel : Nat} {pk : UInt8} {s s' : St} {tok : Token}
    (h : parseToken cfg fuel pk s = .ok tok s') (hpk : ∃ tl, s.rd.rest = pk :: tl) (hs : SV s) :
    TokValid tok := by
  obtain ⟨tl, hpk⟩ := hpk
  have hhead : ∀ b tl', s.rd.rest = b :: tl' → b = pk := by
    intro b tl' hr; rw [hpk] at hr; cases hr; rfl
  unfold parseToken at h
  simp only [] at h
  -- '#'
  rcases ite_ok h with ⟨hc, h⟩ | ⟨_, h⟩
  · have hpka : pk < 0x80 := by rw [eq_of_beq hc]; decide
    obtain ⟨_, s1, hd, h⟩ := bind_ok h
    obtain ⟨hm1, b, hr1⟩ := discard_ok hd
    have hs1 : SV s1 := hs.tail hm1 hr1 (by rw [hhead _ _ hr1]; exact hpka)
    obtain ⟨a, s2, hn, h⟩ := bind_ok h
    obtain ⟨hm2, hr2⟩ := next_ok hn
    cases a with
    | none => simp [peekErr] at h
    | some c =>
      rcases hr2 with ⟨h0, _⟩ | ⟨c', hc', hr2⟩
      · cases h0
      cases hc'
      rcases ite_ok h with ⟨_, h⟩ | ⟨_, h⟩
      · tok_triv h
      rcases ite_ok h with ⟨_, h⟩ | ⟨_, h⟩
      · tok_triv h
      rcases ite_ok h with ⟨_, h⟩ | ⟨_, h⟩
      · tok_triv h
      rcases ite_ok h with ⟨_, h⟩ | ⟨_, h⟩
      · tok_triv h
      rcases ite_ok h with ⟨hc, h⟩ | ⟨_, h⟩
      · simp only [Bool.and_eq_true, beq_iff_eq] at hc
        have hs2 : SV s2 := hs1.tail hm2 hr2 (by rw [hc.1]; decide)
        obtain ⟨name, s3, hsym, h⟩ := bind_ok h
        obtain ⟨rfl, _⟩ := pure_ok h
        exact symCall_valid hsym valid_nil hs2
      rcases ite_ok h with ⟨_, h⟩ | ⟨_, h⟩
      · tok_triv h
      rcases ite_ok h with ⟨_, h⟩ | ⟨_, h⟩
      · tok_triv h
      rcases ite_ok h with ⟨_, h⟩ | ⟨_, h⟩
      · tok_triv h
      rcases ite_ok h with ⟨_, h⟩ | ⟨_, h⟩
      · tok_triv h
      rcases ite_ok h with ⟨_, h⟩ | ⟨_, h⟩
      · tok_triv h
      rcases ite_ok h with ⟨_, h⟩ | ⟨_, h⟩
      · tok_triv h
      rcases ite_ok h with ⟨_, h⟩ | ⟨_, h⟩
      · tok_triv h
      rcases ite_ok h with ⟨hc, h⟩ | ⟨_, h⟩
      · simp only [Bool.and_eq_true, beq_iff_eq] at hc
        have hs2 : SV s2 := hs1.tail hm2 hr2 (by rw [hc.1]; decide)
        obtain ⟨name, s3, hsym, h⟩ := bind_ok h
        obtain ⟨rfl, _⟩ := pure_ok h
        exact symCall_valid hsym (by decide) hs2
      · simp [peekErr] at h
  -- '-'
  rcases ite_ok h with ⟨hc, h⟩ | ⟨_, h⟩
  · have hpka : pk < 0x80 := by rw [eq_of_beq hc]; decide
    exact parseSignToken_valid h (by decide) hs (fun b tl' hr => by rw [hhead _ _ hr]; exact hpka)
  -- '+'
  rcases ite_ok h with ⟨hc, h⟩ | ⟨_, h⟩
  · have hpka : pk < 0x80 := by rw [eq_of_beq hc]; decide
    exact parseSignToken_valid h (by decide) hs (fun b tl' hr => by rw [hhead _ _ hr]; exact hpka)
  -- digits
  rcases ite_ok h with ⟨_, h⟩ | ⟨_, h⟩
  · rcases ite_ok h with ⟨_, h⟩ | ⟨_, h⟩
    · obtain ⟨sym, s1, hsym, h⟩ := bind_ok h
      have hv := symCall_valid hsym valid_nil hs
      cases hw : wholeNumber cfg sym with
      | some n => rw [hw] at h; tok_triv h
      | none =>
        rw [hw] at h
        obtain ⟨rfl, _⟩ := pure_ok h
        exact symbolToken_valid _ hv
    · tok_triv h
  -- '"'
  rcases ite_ok h with ⟨hc, h⟩ | ⟨_, h⟩
  · have hpka : pk < 0x80 := by rw [eq_of_beq hc]; decide
    obtain ⟨_, s1, hd, h⟩ := bind_ok h
    obtain ⟨hm1, b, hr1⟩ := discard_ok hd
    have hs1 : SV s1 := hs.tail hm1 hr1 (by rw [hhead _ _ hr1]; exact hpka)
    cases hstr : cfg.opts.string with
    | r6rs =>
      rw [hstr] at h
      obtain ⟨out, s2, hp, h⟩ := bind_ok h
      obtain ⟨rfl, _⟩ := pure_ok h
      exact r6rsStr_call_valid hp valid_nil hs1
    | elisp =>
      rw [hstr] at h
      obtain ⟨r, s2, hp, h⟩ := bind_ok h
      cases r with
      | unibyte b => tok_triv h
      | multibyte out =>
        obtain ⟨rfl, _⟩ := pure_ok h
        exact parseElispStr_multibyte_valid _ hp
  -- '('
  rcases ite_ok h with ⟨_, h⟩ | ⟨_, h⟩
  · tok_triv h
  -- '['
  rcases ite_ok h with ⟨_, h⟩ | ⟨_, h⟩
  · obtain ⟨_, s1, _, h⟩ := bind_ok h
    cases hb : cfg.opts.brackets <;> rw [hb] at h <;> tok_triv h
  -- ':'
  rcases ite_ok h with ⟨hc, h⟩ | ⟨_, h⟩
  · have hpka : pk < 0x80 := by rw [eq_of_beq hc]; decide
    rcases ite_ok h with ⟨_, h⟩ | ⟨_, h⟩
    · obtain ⟨_, s1, hd, h⟩ := bind_ok h
      obtain ⟨hm1, b, hr1⟩ := discard_ok hd
      have hs1 : SV s1 := hs.tail hm1 hr1 (by rw [hhead _ _ hr1]; exact hpka)
      obtain ⟨name, s2, hsym, h⟩ := bind_ok h
      obtain ⟨rfl, _⟩ := pure_ok h
      exact symCall_valid hsym valid_nil hs1
    · obtain ⟨name, s2, hsym, h⟩ := bind_ok h
      obtain ⟨rfl, _⟩ := pure_ok h
      exact symbolToken_valid _ (symCall_valid hsym valid_nil hs)
  -- letters
  rcases ite_ok h with ⟨_, h⟩ | ⟨_, h⟩
  · obtain ⟨name, s1, hsym, h⟩ := bind_ok h
    have hv := symCall_valid hsym valid_nil hs
    rcases ite_ok h with ⟨hc, h⟩ | ⟨_, h⟩
    · simp only [Bool.and_eq_true, beq_iff_eq] at hc
      obtain ⟨rfl, _⟩ := pure_ok h
      exact valid_dropLast_colon hv hc.2
    rcases ite_ok h with ⟨_, h⟩ | ⟨_, h⟩
    · cases hn : cfg.opts.nil <;> rw [hn] at h
      · tok_triv h
      · simp [panicAt] at h
      · tok_triv h
    rcases ite_ok h with ⟨_, h⟩ | ⟨_, h⟩
    · cases ht : cfg.opts.t <;> rw [ht] at h
      · tok_triv h
      · simp [panicAt] at h
    · obtain ⟨rfl, _⟩ := pure_ok h
      exact hv
  -- '?'
  rcases ite_ok h with ⟨_, h⟩ | ⟨_, h⟩
  · tok_triv h
  -- quote
  rcases ite_ok h with ⟨_, h⟩ | ⟨_, h⟩
  · tok_triv h
  rcases ite_ok h with ⟨_, h⟩ | ⟨_, h⟩
  · tok_triv h
  -- ','
  rcases ite_ok h with ⟨_, h⟩ | ⟨_, h⟩
  · obtain ⟨_, s1, _, h⟩ := bind_ok h
    obtain ⟨c, s2, _, h⟩ := bind_ok h
    rcases ite_ok h with ⟨_, h⟩ | ⟨_, h⟩ <;> tok_triv h
  -- a non-ASCII symbol initial
  rcases ite_ok h with ⟨_, h⟩ | ⟨_, h⟩
  · obtain ⟨_, s1, hd, h⟩ := bind_ok h
    obtain ⟨hm1, b, hr1⟩ := discard_ok hd
    obtain ⟨⟨c, bytes⟩, s2, hseq, h⟩ := bind_ok h
    obtain ⟨hb, hm2, hr2⟩ := decodeUtf8Sequence_ok hseq
    have hs2 : SV s2 := by
      intro hm
      have hv := hs (by rw [← hm1, ← hm2]; exact hm)
      rw [hr1, hhead _ _ hr1] at hv
      exact decodeUtf8Sequence_rest_valid hseq hv
    rcases ite_ok h with ⟨_, h⟩ | ⟨_, h⟩
    · simp [peekErr] at h
    · obtain ⟨name, s3, hsym, h⟩ := bind_ok h
      obtain ⟨rfl, _⟩ := pure_ok h
      exact symbolToken_valid _ (symCall_valid hsym hb hs2)
  -- extended symbol characters
  rcases ite_ok h with ⟨_, h⟩ | ⟨_, h⟩
  · obtain ⟨name, s2, hsym, h⟩ := bind_ok h
    obtain ⟨rfl, _⟩ := pure_ok h
    exact symbolToken_valid _ (symCall_valid hsym valid_nil hs)
  -- anything else is an error
  · obtain ⟨_, s1, _, h⟩ := bind_ok h
    obtain ⟨_, s2, _, h⟩ := bind_ok h
    cases h

end Parse.U8

/-! ## Main theorems -/

namespace C17
open Utf8 Print Parse Utf8.U8 Print.U8 Parse.U8

/-- The automaton run over a concatenation is the run over the first part continued over the
    second. -/
theorem run_append (s : Utf8.St) (a b : List UInt8) :
    run s (a ++ b) = (run s a).bind (fun s' => run s' b) := Utf8.U8.run_append s a b

example : run .idle ([0xE2, 0x82] ++ [0xAC, 0x41]) = (run .idle [0xE2, 0x82]).bind (fun s' => run s' [0xAC, 0x41]) :=
  run_append _ _ _
example : run .idle [0xE2, 0x82] = some (.mid 1 0x80 0xBF) := by decide

/-- Concatenating well-formed texts gives a well-formed text. -/
theorem valid_append {a b : List UInt8} (ha : valid a) (hb : valid b) : valid (a ++ b) :=
  Utf8.U8.valid_append ha hb

example : valid ([0xC3, 0xA9] ++ [0xE2, 0x82, 0xAC]) :=
  valid_append (by decide) (by decide)

/-- After a well-formed prefix, validity of the whole is validity of the rest. -/
theorem valid_append_iff_of_valid_left {a : List UInt8} (b : List UInt8) (ha : valid a) :
    valid (a ++ b) = valid b := Utf8.U8.valid_append_iff_of_valid_left b ha

example : valid ([0xC3, 0xA9] ++ [0xA9]) = false := by
  rw [valid_append_iff_of_valid_left _ (by decide)]; decide

/-- ASCII text is well-formed. -/
theorem valid_ascii {bs : List UInt8} (h : ∀ b ∈ bs, b < 0x80) : valid bs := Utf8.U8.valid_ascii h

example : valid (asc "(a . b)") := valid_ascii (by decide)

/-- A leading ASCII byte does not matter. -/
theorem valid_cons_ascii {b : UInt8} (bs : List UInt8) (hb : b < 0x80) :
    valid (b :: bs) = valid bs := Utf8.U8.valid_cons_ascii bs hb

example : valid (0x28 :: [0xC3, 0xA9]) = valid [0xC3, 0xA9] := valid_cons_ascii _ (by decide)

/-- **Split at an ASCII byte.**  An ASCII byte is accepted only in state `idle`, so a well-formed
    text cut in front of an ASCII byte gives two well-formed texts. -/
theorem valid_split_ascii {a : List UInt8} {b : UInt8} {c : List UInt8}
    (h : valid (a ++ b :: c)) (hb : b < 0x80) : valid a ∧ valid (b :: c) :=
  Utf8.U8.valid_split_ascii h hb

example : valid [0xC3, 0xA9] ∧ valid (0x20 :: [0xE2, 0x82, 0xAC]) :=
  valid_split_ascii (a := [0xC3, 0xA9]) (by decide) (by decide)

/-- The same as an equation (both directions). -/
theorem valid_append_cons_ascii (a : List UInt8) {b : UInt8} (c : List UInt8) (hb : b < 0x80) :
    valid (a ++ b :: c) = (valid a && valid c) := Utf8.U8.valid_append_cons_ascii a c hb

example : valid ([0xC3] ++ 0x20 :: [0xA9]) = false := by
  rw [valid_append_cons_ascii _ _ (by decide)]; decide

/-- Split at the end: a trailing ASCII byte can be dropped (the postfix-keyword colon). -/
theorem valid_split_ascii_end {a : List UInt8} {b : UInt8}
    (h : valid (a ++ [b])) (hb : b < 0x80) : valid a := Utf8.U8.valid_split_ascii_end h hb

example : valid [0xCE, 0xBB] := valid_split_ascii_end (b := 58) (by decide) (by decide)

/-- `char::encode_utf8` of a scalar value is well-formed. -/
theorem encode_valid {c : Nat} (h : isScalar c = true) : valid (encode c) = true :=
  Utf8.U8.encode_valid h

example : valid (encode 0x1F600) = true := encode_valid (by decide)
example : encode 0x1F600 = [0xF0, 0x9F, 0x98, 0x80] := by decide

/-- Decoding reads back what `encode` wrote and leaves the rest. -/
theorem decodeFirst_encode {c : Nat} (h : isScalar c = true) (rest : List UInt8) :
    decodeFirst (encode c ++ rest) = some (c, rest) := Utf8.U8.decodeFirst_encode h rest

example : decodeFirst (encode 0xFFFD ++ [0x41]) = some (0xFFFD, [0x41]) :=
  decodeFirst_encode (by decide) _

/-- `format_escaped_str_contents` neither breaks nor repairs text: the escaped text is well-formed
    exactly when the payload is. -/
theorem valid_escapeStr (syn : StringSyntax) (bs : List UInt8) :
    valid (escapeStr syn bs) = valid bs := Print.U8.valid_escapeStr syn bs

example : valid (escapeStr .r6rs [0x22, 0xC3, 0xA9, 0x07, 0x01]) = true := by
  rw [valid_escapeStr]; decide

/-- **C17 (printer).**  If every string / symbol / keyword payload of `v` is well-formed UTF-8
    (and every char a scalar value — not even needed), and `ryu` writes ASCII, then for every one
    of the 576 option sets every single write of the printer is well-formed UTF-8 on its own, and
    so is the whole text. -/
theorem C17_print_valid (o : Print.Options) {ryu : Nat → List UInt8} (hryu : ∀ b, ∀ x ∈ ryu b, x < 0x80)
    {v : Value} (hv : PayloadsValid v) :
    valid (Print.text o ryu v) = true ∧ ∀ e ∈ Print.emits o ryu v, valid e.bytes = true :=
  ⟨valid_flatten (emits_valid o hryu v hv.text), emits_valid o hryu v hv.text⟩

/-- The same from the weaker hypothesis `TextValid` (nothing is assumed about characters: the
    printer writes a non-scalar "character" as an ASCII hex escape). -/
theorem C17_print_valid_text (o : Print.Options) {ryu : Nat → List UInt8}
    (hryu : ∀ b, ∀ x ∈ ryu b, x < 0x80) {v : Value} (hv : TextValid v) :
    valid (Print.text o ryu v) = true ∧ ∀ e ∈ Print.emits o ryu v, valid e.bytes = true :=
  ⟨valid_flatten (emits_valid o hryu v hv), emits_valid o hryu v hv⟩

example : TextValid (.cons (.string [0xC3, 0xA9]) (.char 0xD800)) := by
  simp only [TextValid, and_true]; decide

example : PayloadsValid (.cons (.string [0xC3, 0xA9, 0x22]) (.cons (.vector [.symbol [0xCE, 0xBB], .char 0x1F600,
    .number (.flt 0)]) (.keyword [0x6B]))) := by
  simp only [PayloadsValid, PayloadsValidList, and_true]
  decide

/-- The hypothesis on payloads cannot be dropped: a symbol is written verbatim. -/
example : valid (Print.text Print.Options.default (fun _ => []) (.symbol [0xFF])) = false := by decide

/-- **C17 (`parse_symbol`).**  A successful `parse_symbol` returns `scratch` followed by the input
    up to the first terminator.  For the slice and stream sources the result has been checked; for
    the `&str` source (`from_utf8_unchecked`) it is well-formed whenever the prefix in `scratch`
    and the unread input are: the scanner stops only at an ASCII byte or at the end. -/
theorem C17_symbol_bytes_valid {scratch : List UInt8} {s s' : Parse.St} {name : List UInt8}
    (h : parseSymbolBytes scratch s = .ok name s') :
    (s.rd.mode ≠ .str ∧ valid name = true) ∨
    (s.rd.mode = .str ∧ (valid scratch = true → valid s.rd.rest = true → valid name = true)) := by
  obtain ⟨hn, hc⟩ := parseSymbolBytes_ok h
  by_cases hm : s.rd.mode = .str
  · refine Or.inr ⟨hm, fun hs hr => ?_⟩
    rw [hn]
    exact Utf8.U8.valid_append hs (valid_take_symLen _ hr)
  · exact Or.inl ⟨hm, hc hm⟩

example : ∃ s', parseSymbolBytes [0xCE, 0xBB]
    { rd := { mode := .str, rest := [0xC3, 0xA9, 0x29, 0x20] } } = .ok [0xCE, 0xBB, 0xC3, 0xA9] s' :=
  ⟨_, rfl⟩

/-- Without well-formed input the `&str` source does hand out ill-formed text (which is why
    `from_str` taking a `&str` matters). -/
example : ∃ s', parseSymbolBytes [] { rd := { mode := .str, rest := [0xC3, 0x29] } } = .ok [0xC3] s' :=
  ⟨_, rfl⟩

/-- **C17 (`parse_r6rs_str`).**  A successful `parse_r6rs_str` returns checked text for the slice
    and stream sources; for the `&str` source (`from_utf8_unchecked`) the text is well-formed
    whenever the scratch buffer and the unread input are: escapes push ASCII bytes or the encoding
    of a scalar value, everything else is copied verbatim up to the ASCII `"` or `\`. -/
theorem C17_r6rs_str_valid {fuel : Nat} {acc : List UInt8} {s s' : Parse.St} {out : List UInt8}
    (h : parseR6rsStr fuel acc s = .ok out s') :
    (s.rd.mode ≠ .str ∧ valid out = true) ∨
    (s.rd.mode = .str ∧ (valid acc = true → valid s.rd.rest = true → valid out = true)) := by
  obtain ⟨h1, h2⟩ := parseR6rsStr_ok fuel h
  by_cases hm : s.rd.mode = .str
  · exact Or.inr ⟨hm, fun ha hr => h2 hm (StrInv.of_valid ha hr)⟩
  · exact Or.inl ⟨hm, h1 hm⟩

example : ∃ s', parseR6rsStr 20 []
    { rd := { mode := .str, rest := [0xC3, 0xA9, 92, 120, 51, 98, 98, 59, 92, 110, 34, 0x29] } } =
      .ok [0xC3, 0xA9, 0xCE, 0xBB, 10] s' :=
  ⟨_, rfl⟩

/-- **C17 (`parse_elisp_str`).**  A multibyte Emacs string is always checked. -/
theorem C17_elisp_str_valid {fuel : Nat} {acc : List UInt8} {ub mb na : Bool} {s s' : Parse.St}
    {out : List UInt8} (h : parseElispStr fuel acc ub mb na s = .ok (.multibyte out) s') :
    valid out = true := parseElispStr_multibyte_valid fuel h

/-- **C17 (tokens).**  `pk` is the byte `parse_whitespace` has peeked.  If — for the `&str` source —
    the unread input is well-formed (`SV s`; nothing is assumed for the checked sources), then
    the text payload of the symbol / keyword / string token that `parse_token` returns is
    well-formed.  This discharges the `valid scratch` premise of `C17_symbol_bytes_valid` at every
    call site (`[]`, the sign, `#%`, or a sequence checked by `decode_utf8_sequence`) and covers
    the postfix-keyword `dropLast`. -/
theorem C17_token_valid {cfg : Cfg} {fuel : Nat} {pk : UInt8} {s s' : Parse.St} {tok : Token}
    (h : parseToken cfg fuel pk s = .ok tok s') (hpk : ∃ tl, s.rd.rest = pk :: tl)
    (hs : s.rd.mode = .str → valid s.rd.rest = true) : TokValid tok :=
  parseToken_valid h hpk hs

example : ∃ s', parseToken ⟨{ Parse.Options.default with kwPostfix := true }, true, fun _ => true, fun _ => 0⟩ 20 0xCE
    { rd := { mode := .str, rest := [0xCE, 0xBB, 0xC3, 0xA9, 58, 0x29] } } =
      .ok (.keyword [0xCE, 0xBB, 0xC3, 0xA9]) s' :=
  ⟨_, rfl⟩

end C17
end Lexpr
