/-
  Invariants of the reader state.

  A predicate on parser states is `Stable` when it survives the three things the model ever does
  to a state: consuming bytes (`Rd.consume`), setting the `peeked` flag, changing the depth
  counter.  `Inv I m` says that `m` keeps `I` (in its `ok` and in its `err` result).  Every function
  of Reader.lean, Lex.lean and Parse.lean keeps every stable predicate; the ghost invariants
  `At input` and `Reach s0` of SpansPos.lean are stable.
-/
import LexprModel.Proofs.SpansPos
namespace Lexpr
namespace Parse
namespace Spans
open Progress
set_option linter.unusedSectionVars false

/-- predicates preserved by every primitive state change of the model -/
class Stable (I : St → Prop) : Prop where
  consume : ∀ (s : St) (n : Nat), I s → I { s with rd := s.rd.consume n }
  peeked : ∀ (s : St) (b : Bool), I s → I { s with rd := { s.rd with peeked := b } }
  depth : ∀ (s : St) (d : Nat), I s → I { s with depth := d }

/-- `m` keeps `I`: from a state satisfying `I`, both the `ok` and the `err` outcome satisfy it -/
def Inv {α : Type} (I : St → Prop) (m : P α) : Prop :=
  ∀ s, I s → Sat (m s) (fun _ s' => I s') (fun _ s' => I s') True

section rules
variable {α β : Type} {I : St → Prop}

theorem Inv.bind {m : P α} {f : α → P β} (hm : Inv I m) (hf : ∀ a, Inv I (f a)) :
    Inv I (m >>= f) :=
  fun s hs => Sat.bind (hm s hs) (fun a s' h => hf a s' h) (fun _ _ h => h) id

theorem Inv.pure {a : α} : Inv I (Pure.pure a : P α) := fun _ hs => hs
theorem Inv.errAt {c : Code} : Inv I (errAt c : P α) := fun _ hs => hs
theorem Inv.peekErr {c : Code} : Inv I (peekErr c : P α) := fun _ hs => hs
theorem Inv.panicAt {p : Site} : Inv I (panicAt p : P α) := fun _ _ => trivial
theorem Inv.outOfFuel : Inv I (outOfFuel : P α) := fun _ _ => trivial
theorem Inv.liftExcept {r : Except Err α} : Inv I (liftExcept r) := by
  cases r with
  | ok a => exact Inv.pure
  | error e => exact fun _ hs => hs
theorem Inv.getRest : Inv I getRest := fun _ hs => hs
theorem Inv.getMode : Inv I getMode := fun _ hs => hs
theorem Inv.getPos : Inv I getPos := fun _ hs => hs
theorem Inv.tokenFuel : Inv I tokenFuel := fun _ hs => hs
theorem Inv.apiFuel : Inv I apiFuel := fun _ hs => hs
theorem Inv.getSt : Inv I (fun s => Res.ok s s : P St) := fun _ hs => hs
theorem Inv.rawErr {e : Err} : Inv I (fun s' => Res.err e s' : P α) := fun _ hs => hs

theorem Inv.ite {c : Prop} [Decidable c] {A B : P α} (hA : Inv I A) (hB : Inv I B) :
    Inv I (if c then A else B) := by
  split
  · exact hA
  · exact hB

theorem Inv.attempt {m : P α} (hm : Inv I m) : Inv I (attempt m) := by
  intro s hs
  have := hm s hs
  unfold Parse.attempt
  cases hms : m s <;> simp only [hms, Sat] at * <;> first | exact this | trivial

variable [Stable I]

theorem Inv.peek : Inv I peek := by
  intro s hs
  unfold Parse.peek
  split
  · exact Stable.peeked s _ hs
  · split
    · exact hs
    · exact hs

theorem Inv.next : Inv I next := by
  intro s hs
  unfold Parse.next
  split
  · exact Stable.consume s 1 hs
  · split
    · exact hs
    · exact hs

theorem Inv.discard : Inv I discard := by
  intro s hs
  unfold Parse.discard
  split
  · exact Stable.consume s 1 hs
  · trivial

theorem Inv.consumeN {n : Nat} : Inv I (consumeN n) := fun s hs => Stable.consume s n hs

theorem Inv.enter : Inv I enter := by
  intro s hs
  unfold Parse.enter
  split
  · trivial
  · split
    · exact hs
    · exact Stable.depth s _ hs

theorem Inv.leave : Inv I leave := fun s hs => Stable.depth s _ hs

end rules

open Lean Elab Tactic Meta in
/-- succeed iff the last argument of the goal (the program) has head constant `c` -/
elab "prog_head " id:ident : tactic => do
  let g := (← instantiateMVars (← getMainTarget)).cleanupAnnotations
  unless g.isApp do throwError "not an application"
  let r := g.appArg!
  unless r.getAppFn.isConstOf id.getId.eraseMacroScopes do throwError "head mismatch"

open Lean Elab Tactic Meta in
/-- succeed iff the program is `c .. >>= f` -/
elab "prog_bind_head " id:ident : tactic => do
  let g := (← instantiateMVars (← getMainTarget)).cleanupAnnotations
  unless g.isApp do throwError "not an application"
  let r := g.appArg!
  unless r.getAppFn.isConstOf ``Bind.bind && r.getAppNumArgs == 6 do throwError "not a bind"
  let m := r.getAppArgs[4]!
  unless m.getAppFn.isConstOf id.getId.eraseMacroScopes do throwError "head mismatch"

open Lean Elab Tactic Meta in
/-- succeed iff the program is `(fun s => ..) >>= f` -/
elab "prog_bind_lam" : tactic => do
  let g := (← instantiateMVars (← getMainTarget)).cleanupAnnotations
  unless g.isApp do throwError "not an application"
  let r := g.appArg!
  unless r.getAppFn.isConstOf ``Bind.bind && r.getAppNumArgs == 6 do throwError "not a bind"
  let m := r.getAppArgs[4]!
  unless m.isLambda do throwError "not a lambda"

open Lean Elab Tactic Meta in
/-- succeed iff the program is a lambda -/
elab "prog_lam" : tactic => do
  let g := (← instantiateMVars (← getMainTarget)).cleanupAnnotations
  unless g.isApp do throwError "not an application"
  unless g.appArg!.isLambda do throwError "not a lambda"

open Lean Elab Tactic Meta in
/-- `exact t`, tried only if the program in the type of `t` has the same head constant as the
    program of the goal (avoids unfolding both when they differ) -/
elab "exact_call " t:term : tactic => withMainContext do
  let g := (← instantiateMVars (← getMainTarget)).cleanupAnnotations
  unless g.isApp do throwError "not an application"
  let .const n _ := g.appArg!.getAppFn | throwError "not a call"
  let ok ← withoutModifyingState do
    let e ← elabTerm t none (mayPostpone := true)
    let ty := (← instantiateMVars (← inferType e)).cleanupAnnotations
    unless ty.isApp do return false
    return ty.appArg!.getAppFn.isConstOf n
  unless ok do throwError "head mismatch"
  evalTactic (← `(tactic| exact $t))

open Lean Elab Tactic Meta in
/-- `intro` one binder, but only if the goal is syntactically a `∀` (never unfold `Inv`) -/
elab "pi_intro" : tactic => do
  let g := (← instantiateMVars (← getMainTarget)).cleanupAnnotations
  unless g.isForall do throwError "not a pi"
  evalTactic (← `(tactic| intro _))

/-- follow the structure of a `do` block; `ts` are the lemmas for the functions it calls -/
syntax "inv_wp" "[" term,* "]" : tactic
macro_rules
  | `(tactic| inv_wp [$ts,*]) => `(tactic| repeat' (first
      | pi_intro
      | (prog_head Pure.pure; exact Inv.pure)
      | (prog_head Lexpr.Parse.errAt; exact Inv.errAt)
      | (prog_head Lexpr.Parse.peekErr; exact Inv.peekErr)
      | (prog_head Lexpr.Parse.panicAt; exact Inv.panicAt)
      | (prog_head Lexpr.Parse.outOfFuel; exact Inv.outOfFuel)
      | (prog_head Lexpr.Parse.liftExcept; exact Inv.liftExcept)
      | (prog_head Lexpr.Parse.getRest; exact Inv.getRest)
      | (prog_head Lexpr.Parse.getMode; exact Inv.getMode)
      | (prog_head Lexpr.Parse.getPos; exact Inv.getPos)
      | (prog_head Lexpr.Parse.tokenFuel; exact Inv.tokenFuel)
      | (prog_head Lexpr.Parse.apiFuel; exact Inv.apiFuel)
      | (prog_head Lexpr.Parse.peek; exact Inv.peek)
      | (prog_head Lexpr.Parse.next; exact Inv.next)
      | (prog_head Lexpr.Parse.discard; exact Inv.discard)
      | (prog_head Lexpr.Parse.consumeN; exact Inv.consumeN)
      | (prog_head Lexpr.Parse.enter; exact Inv.enter)
      | (prog_head Lexpr.Parse.leave; exact Inv.leave)
      | (prog_head Bind.bind; refine Inv.bind ?_ ?_)
      | (prog_head Lexpr.Parse.attempt; refine Inv.attempt ?_)
      | (prog_head ite; refine Inv.ite ?_ ?_)
      | (prog_lam; first | exact Inv.getSt | exact Inv.rawErr)
      $[| exact_call $ts]*
      | split
      | dsimp only))

section lex
variable {I : St → Prop} [Stable I]

theorem parseWhitespace_inv : Inv I parseWhitespace := by
  unfold parseWhitespace; inv_wp []

theorem peekOrNull_inv : Inv I peekOrNull := by
  unfold peekOrNull; inv_wp []

theorem nextOrNull_inv : Inv I nextOrNull := by
  unfold nextOrNull; inv_wp []

theorem parseSymbolBytes_inv {scratch : List UInt8} : Inv I (parseSymbolBytes scratch) := by
  unfold parseSymbolBytes; inv_wp []

theorem nextOrEof_inv : Inv I nextOrEof := by
  unfold nextOrEof; inv_wp []

theorem nextOrEofChar_inv : Inv I nextOrEofChar := by
  unfold nextOrEofChar; inv_wp []

theorem readCont_inv {n : Nat} {acc : List UInt8} : Inv I (readCont n acc) := by
  induction n generalizing acc with
  | zero => unfold readCont; inv_wp []
  | succ n ih => unfold readCont; inv_wp [ih]

theorem decodeUtf8Sequence_inv {b : UInt8} : Inv I (decodeUtf8Sequence b) := by
  unfold decodeUtf8Sequence; inv_wp [readCont_inv]

theorem decodeR6rsHexEscape_inv {fuel n : Nat} : Inv I (decodeR6rsHexEscape fuel n) := by
  induction fuel generalizing n with
  | zero => unfold decodeR6rsHexEscape; inv_wp []
  | succ f ih => unfold decodeR6rsHexEscape; inv_wp [nextOrEof_inv, ih]

theorem parseR6rsEscape_inv {fuel : Nat} {acc : List UInt8} : Inv I (parseR6rsEscape fuel acc) := by
  unfold parseR6rsEscape; inv_wp [nextOrEof_inv, decodeR6rsHexEscape_inv]

theorem finishStr_inv {c : Bool} {bs : List UInt8} : Inv I (finishStr c bs) := by
  unfold finishStr; inv_wp []

theorem parseR6rsStr_inv {fuel : Nat} {acc : List UInt8} : Inv I (parseR6rsStr fuel acc) := by
  induction fuel generalizing acc with
  | zero => unfold parseR6rsStr; inv_wp []
  | succ f ih =>
    unfold parseR6rsStr; inv_wp [nextOrEof_inv, finishStr_inv, parseR6rsEscape_inv, ih]

theorem decodeElispHexEscape_inv {fuel n : Nat} : Inv I (decodeElispHexEscape fuel n) := by
  induction fuel generalizing n with
  | zero => unfold decodeElispHexEscape; inv_wp []
  | succ f ih => unfold decodeElispHexEscape; inv_wp [ih]

theorem decodeElispUniEscape_inv {count n : Nat} : Inv I (decodeElispUniEscape count n) := by
  induction count generalizing n with
  | zero => unfold decodeElispUniEscape; inv_wp []
  | succ f ih => unfold decodeElispUniEscape; inv_wp [nextOrEof_inv, ih]

theorem decodeElispOctalEscape_inv {fuel n : Nat} : Inv I (decodeElispOctalEscape fuel n) := by
  induction fuel generalizing n with
  | zero => unfold decodeElispOctalEscape; inv_wp []
  | succ f ih => unfold decodeElispOctalEscape; inv_wp [ih]

theorem elispCharEscape_inv {acc : List UInt8} {n : Nat} : Inv I (elispCharEscape acc n) := by
  unfold elispCharEscape; inv_wp []

theorem elispUniCharEscape_inv {acc : List UInt8} {n : Nat} :
    Inv I (elispUniCharEscape acc n) := by
  unfold elispUniCharEscape; inv_wp []

theorem parseElispEscape_inv {fuel : Nat} {acc : List UInt8} :
    Inv I (parseElispEscape fuel acc) := by
  unfold parseElispEscape
  inv_wp [nextOrEof_inv, decodeElispHexEscape_inv, decodeElispUniEscape_inv,
    decodeElispOctalEscape_inv, elispCharEscape_inv, elispUniCharEscape_inv]

theorem parseElispStr_inv {fuel : Nat} {acc : List UInt8} {ub mb na : Bool} :
    Inv I (parseElispStr fuel acc ub mb na) := by
  induction fuel generalizing acc ub mb na with
  | zero => unfold parseElispStr; inv_wp []
  | succ f ih =>
    unfold parseElispStr; inv_wp [nextOrEof_inv, finishStr_inv, parseElispEscape_inv, ih]

theorem decodeR6rsCharHexEscape_inv {fuel n : Nat} {first : Bool} :
    Inv I (decodeR6rsCharHexEscape fuel n first) := by
  induction fuel generalizing n first with
  | zero => unfold decodeR6rsCharHexEscape; inv_wp []
  | succ f ih => unfold decodeR6rsCharHexEscape; inv_wp [ih]

theorem parseR6rsChar_inv {fuel : Nat} : Inv I (parseR6rsChar fuel) := by
  unfold parseR6rsChar
  inv_wp [nextOrEofChar_inv, decodeR6rsCharHexEscape_inv, decodeUtf8Sequence_inv]

theorem asChar_inv {n : Nat} : Inv I (asChar n) := by
  unfold asChar; inv_wp []

theorem asEscapedChar_inv {n : Nat} : Inv I (asEscapedChar n) := by
  unfold asEscapedChar; inv_wp [asChar_inv]

theorem decodeElispCharEscape_inv {fuel : Nat} : Inv I (decodeElispCharEscape fuel) := by
  unfold decodeElispCharEscape
  inv_wp [nextOrEofChar_inv, nextOrEof_inv, decodeElispHexEscape_inv, decodeElispUniEscape_inv,
    decodeElispOctalEscape_inv, asChar_inv, asEscapedChar_inv, decodeUtf8Sequence_inv]

theorem parseElispChar_inv {fuel : Nat} : Inv I (parseElispChar fuel) := by
  unfold parseElispChar
  inv_wp [decodeElispCharEscape_inv, decodeUtf8Sequence_inv]

theorem f64FromParts_inv {cfg : Cfg} {pos : Bool} {sig : Nat} {e : Int} :
    Inv I (f64FromParts cfg pos sig e) := by
  unfold f64FromParts; inv_wp []

theorem skipDigits_inv : Inv I skipDigits := by
  unfold skipDigits; inv_wp []

theorem parseExponentOverflow_inv {pos : Bool} {sig : Nat} {posExp : Bool} :
    Inv I (parseExponentOverflow pos sig posExp) := by
  unfold parseExponentOverflow; inv_wp [skipDigits_inv]

theorem exponentLoop_inv {cfg : Cfg} {pos : Bool} {sig : Nat} {startExp : Int} {posExp : Bool}
    {fuel exp : Nat} : Inv I (exponentLoop cfg pos sig startExp posExp fuel exp) := by
  induction fuel generalizing exp with
  | zero => unfold exponentLoop; inv_wp []
  | succ f ih =>
    unfold exponentLoop
    inv_wp [peekOrNull_inv, parseExponentOverflow_inv, f64FromParts_inv, ih]

theorem parseExponent_inv {cfg : Cfg} {fuel : Nat} {pos : Bool} {sig : Nat} {startExp : Int} :
    Inv I (parseExponent cfg fuel pos sig startExp) := by
  unfold parseExponent; inv_wp [peekOrNull_inv, exponentLoop_inv]

theorem decimalLoop_inv {fuel sig : Nat} {exp : Int} {zeros : Nat} {any : Bool} :
    Inv I (decimalLoop fuel sig exp zeros any) := by
  induction fuel generalizing sig exp zeros any with
  | zero => unfold decimalLoop; inv_wp []
  | succ f ih => unfold decimalLoop; inv_wp [peekOrNull_inv, skipDigits_inv, ih]

theorem parseDecimal_inv {cfg : Cfg} {fuel : Nat} {pos : Bool} {sig : Nat} {exp : Int} :
    Inv I (parseDecimal cfg fuel pos sig exp) := by
  unfold parseDecimal
  inv_wp [peekOrNull_inv, decimalLoop_inv, parseExponent_inv, f64FromParts_inv]

theorem parseLongInteger_inv {cfg : Cfg} {radix : Nat} {pos : Bool} {sig fuel exp : Nat} :
    Inv I (parseLongInteger cfg radix pos sig fuel exp) := by
  induction fuel generalizing exp with
  | zero => unfold parseLongInteger; inv_wp []
  | succ f ih =>
    unfold parseLongInteger
    generalize (2 : Nat) ^ 1024 = big
    inv_wp [peekOrNull_inv, parseDecimal_inv, parseExponent_inv, f64FromParts_inv, ih]

theorem parseNumTail_inv {cfg : Cfg} {fuel radix : Nat} {pos : Bool} {sig : Nat} :
    Inv I (parseNumTail cfg fuel radix pos sig) := by
  unfold parseNumTail
  inv_wp [peekOrNull_inv, parseDecimal_inv, parseExponent_inv]

theorem numLoop_inv {cfg : Cfg} {radix : Nat} {pos : Bool} {fuel res : Nat} :
    Inv I (numLoop cfg radix pos fuel res) := by
  induction fuel generalizing res with
  | zero => unfold numLoop; inv_wp []
  | succ f ih =>
    unfold numLoop
    inv_wp [peekOrNull_inv, parseNumTail_inv, parseLongInteger_inv, ih]

theorem parseNumLiteral_inv {cfg : Cfg} {fuel radix : Nat} {pos : Bool} :
    Inv I (parseNumLiteral cfg fuel radix pos) := by
  unfold parseNumLiteral; inv_wp [numLoop_inv]

theorem parseRadixLiteral_inv {cfg : Cfg} {fuel radix : Nat} :
    Inv I (parseRadixLiteral cfg fuel radix) := by
  unfold parseRadixLiteral; inv_wp [peekOrNull_inv, parseNumLiteral_inv]

theorem expectNumberEnd_inv {n : Number} : Inv I (expectNumberEnd n) := by
  unfold expectNumberEnd; inv_wp []

theorem parseNumToken_inv {cfg : Cfg} {fuel : Nat} {pos : Bool} :
    Inv I (parseNumToken cfg fuel pos) := by
  unfold parseNumToken; inv_wp [parseNumLiteral_inv, expectNumberEnd_inv]

theorem parseRadixToken_inv {cfg : Cfg} {fuel radix : Nat} :
    Inv I (parseRadixToken cfg fuel radix) := by
  unfold parseRadixToken; inv_wp [parseRadixLiteral_inv, expectNumberEnd_inv]

theorem parseNumber_inv {cfg : Cfg} {fuel : Nat} : Inv I (parseNumber cfg fuel) := by
  unfold parseNumber; inv_wp [peekOrNull_inv, nextOrNull_inv, parseRadixLiteral_inv]

theorem expectIdent_inv {cs : List UInt8} : Inv I (expectIdent cs) := by
  induction cs with
  | nil => unfold expectIdent; inv_wp []
  | cons c cs ih => unfold expectIdent; inv_wp [ih]

theorem parseSignDotSymbol_inv {cfg : Cfg} {pfx : List UInt8} :
    Inv I (parseSignDotSymbol cfg pfx) := by
  unfold parseSignDotSymbol; inv_wp [peekOrNull_inv, parseSymbolBytes_inv]

theorem parseSignToken_inv {cfg : Cfg} {fuel : Nat} {sign : UInt8} {pos : Bool} :
    Inv I (parseSignToken cfg fuel sign pos) := by
  unfold parseSignToken
  inv_wp [peekOrNull_inv, parseSymbolBytes_inv, parseSignDotSymbol_inv, parseNumToken_inv]

theorem parseToken_inv {cfg : Cfg} {fuel : Nat} {pk : UInt8} : Inv I (parseToken cfg fuel pk) := by
  unfold parseToken
  inv_wp [peekOrNull_inv, expectIdent_inv, parseSymbolBytes_inv, parseRadixToken_inv,
    parseR6rsChar_inv, parseSignToken_inv, parseNumToken_inv, parseR6rsStr_inv,
    parseElispStr_inv, parseElispChar_inv, decodeUtf8Sequence_inv]

theorem endSeq_inv {close : UInt8} : Inv I (endSeq close) := by
  unfold endSeq; inv_wp [parseWhitespace_inv]

theorem byteListLoop_inv {cfg : Cfg} {close : UInt8} {fuel : Nat} {acc : List UInt8} :
    Inv I (byteListLoop cfg close fuel acc) := by
  induction fuel generalizing acc with
  | zero => unfold byteListLoop; inv_wp []
  | succ f ih =>
    unfold byteListLoop
    inv_wp [parseWhitespace_inv, parseNumber_inv, expectNumberEnd_inv, ih]

theorem parseByteList_inv {cfg : Cfg} {close : UInt8} {fuel : Nat} :
    Inv I (parseByteList cfg fuel close) := by
  unfold parseByteList; inv_wp [parseWhitespace_inv, byteListLoop_inv]

theorem value_invs (cfg : Cfg) : ∀ fuel : Nat,
    Inv I (nextValue cfg fuel) ∧
    (∀ term acc, Inv I (parseList cfg fuel term acc)) ∧
    (∀ term acc, Inv I (parseVector cfg fuel term acc)) := by
  intro fuel
  induction fuel with
  | zero =>
    refine ⟨?_, ?_, ?_⟩
    · unfold nextValue; inv_wp []
    · intro term acc; unfold parseList; inv_wp []
    · intro term acc; unfold parseVector; inv_wp []
  | succ f ih =>
    refine ⟨?_, ?_, ?_⟩
    · unfold nextValue
      inv_wp [parseWhitespace_inv, parseToken_inv, parseByteList_inv, endSeq_inv, ih.1,
        ih.2.1 _ _, ih.2.2 _ _]
    · intro term acc
      unfold parseList
      inv_wp [parseWhitespace_inv, peekOrNull_inv, parseSymbolBytes_inv, ih.1, ih.2.1 _ _]
    · intro term acc
      unfold parseVector
      inv_wp [parseWhitespace_inv, ih.1, ih.2.2 _ _]

theorem datum_invs (cfg : Cfg) : ∀ fuel : Nat,
    Inv I (nextDatum cfg fuel) ∧
    (∀ term acc ms, Inv I (parseListMeta cfg fuel term acc ms)) ∧
    (∀ term acc ms, Inv I (parseVectorMeta cfg fuel term acc ms)) := by
  intro fuel
  induction fuel with
  | zero =>
    refine ⟨?_, ?_, ?_⟩
    · unfold nextDatum; inv_wp []
    · intro term acc ms; unfold parseListMeta; inv_wp []
    · intro term acc ms; unfold parseVectorMeta; inv_wp []
  | succ f ih =>
    refine ⟨?_, ?_, ?_⟩
    · unfold nextDatum
      inv_wp [parseWhitespace_inv, parseToken_inv, parseByteList_inv, endSeq_inv, ih.1,
        ih.2.1 _ _ _, ih.2.2 _ _ _]
    · intro term acc ms
      unfold parseListMeta
      inv_wp [parseWhitespace_inv, peekOrNull_inv, parseSymbolBytes_inv, ih.1, ih.2.1 _ _ _]
    · intro term acc ms
      unfold parseVectorMeta
      inv_wp [parseWhitespace_inv, ih.1, ih.2.2 _ _ _]

theorem nextValueTop_inv {cfg : Cfg} : Inv I (nextValueTop cfg) := by
  unfold nextValueTop; inv_wp [(value_invs cfg _).1]

theorem nextDatumTop_inv {cfg : Cfg} : Inv I (nextDatumTop cfg) := by
  unfold nextDatumTop; inv_wp [(datum_invs cfg _).1]

theorem expectValue_inv {cfg : Cfg} : Inv I (expectValue cfg) := by
  unfold expectValue; inv_wp [nextValueTop_inv]

theorem expectDatum_inv {cfg : Cfg} : Inv I (expectDatum cfg) := by
  unfold expectDatum; inv_wp [nextDatumTop_inv]

theorem expectEnd_inv : Inv I expectEnd := by
  unfold expectEnd; inv_wp [parseWhitespace_inv]

theorem fromTrait_inv {cfg : Cfg} : Inv I (fromTrait cfg) := by
  unfold fromTrait; inv_wp [expectValue_inv, expectEnd_inv]

theorem fromTraitDatum_inv {cfg : Cfg} : Inv I (fromTraitDatum cfg) := by
  unfold fromTraitDatum; inv_wp [expectDatum_inv, expectEnd_inv]

end lex

/-! ### the ghost invariants are stable -/

instance track_stable (base : Pos) (whole : List UInt8) : Stable (Track base whole) where
  consume := by
    rintro s n ⟨pre, e, p⟩
    refine ⟨pre ++ s.rd.rest.take n, ?_, ?_⟩
    · show (pre ++ s.rd.rest.take n) ++ (s.rd.consume n).rest = whole
      rw [consume_rest, List.append_assoc, List.take_append_drop, e]
    · show (s.rd.consume n).position = _
      rw [consume_position, p, posFrom_append]
  peeked := by
    rintro s b ⟨pre, e, p⟩
    exact ⟨pre, e, p⟩
  depth := by
    rintro s d ⟨pre, e, p⟩
    exact ⟨pre, e, p⟩

instance at_stable (input : List UInt8) : Stable (At input) := track_stable _ _
instance reach_stable (s0 : St) : Stable (Reach s0) := track_stable _ _

/-- from `Inv` for the stable predicate `Reach s`: where the result state stands relative to `s` -/
theorem Inv.reach {α : Type} {m : P α} (hm : ∀ I [Stable I], Inv I m) (s : St) :
    Sat (m s) (fun _ s' => Reach s s') (fun _ s' => Reach s s') True :=
  hm (Reach s) s (Reach.refl s)

end Spans
end Parse
end Lexpr
