/-
  ImageAtoms — C13: every atom in the image of the parser is printed, under the corresponding
  printer options `pof cfg.opts`, as a text that is read back as the same atom (`AtomOKP`).

  Forward token lemmas that `DialectRT.lean` does not have (digit-initial names under
  `leadingDigit`, `#%` names under `racket`), then one lemma per atom kind.  No compatibility
  hypothesis is needed: `pof` keeps the string and character syntax, writes `#u8(…)`, and a keyword
  can only be in the image if one of the keyword syntaxes is enabled.

  Side conditions (each shown necessary by a witness in `Image.lean`):
    * `dotOkP`: a symbol, or a keyword printed `name:`, that starts with `.` followed by NUL, `|`
      or `"` (known finding, needed in list-element position);
    * `kwDotOk`: the keyword named `.` (read from `.:`) when `pof` prints `#:.` or `:.`.
-/
import LexprModel.Proofs.ImageLift
namespace Lexpr
namespace Parse
namespace Image
open Utf8 Spec

/-! ### forward lemmas for the two remaining name arms -/

theorem digit_disp : ∀ b : UInt8, isDigit b = true →
    (b == 35) = false ∧ (b == 45) = false ∧ (b == 43) = false ∧ isTrivia b = false ∧ b ≠ 59 ∧
    b ≠ 46 := by
  apply forall_u8; decide +kernel

/-- `parse_token` on a digit-initial token with the `leadingDigit` option: the whole token is read
    as a symbol, then classified. -/
theorem digit_token (cfg : Cfg) (fuel : Nat) (d : UInt8) (tl rest : List UInt8) (s : St)
    (hld : cfg.opts.leadingDigit = true) (hd : isDigit d = true) (hnt : NonTerm (d :: tl))
    (hv : Utf8.valid (d :: tl) = true)
    (hrest : s.rd.rest = (d :: tl) ++ rest) (hF : Follow rest)
    (hf : rest = [] → s.rd.faulty = false) :
    parseToken cfg fuel d s =
      .ok (match wholeNumber cfg (d :: tl) with
           | some n => .number n
           | none => symbolToken cfg.opts (d :: tl))
        (adv s (tl.length + 1) (endPeek s rest)) := by
  obtain ⟨h1, h2, h3, -, -, h46⟩ := digit_disp d hd
  have hdot : [] ++ (d :: tl) ≠ [46] := by
    intro h
    simp only [List.nil_append, List.cons.injEq] at h
    exact h46 h.1
  have hsym := parseSymbolBytes_ok [] (d :: tl) rest s hrest hF hf hnt hdot
    (Or.inr (by simpa using hv))
  unfold parseToken
  simp only [h1, h2, h3, hd, hld, Bool.false_eq_true, if_false, if_true, bind_apply, hsym,
    List.nil_append]
  cases wholeNumber cfg (d :: tl) <;> simp

/-- `parse_token` on `#%name` with the `racket` option. -/
theorem racket_token (cfg : Cfg) (fuel : Nat) (body rest : List UInt8) (s : St)
    (hra : cfg.opts.racket = true) (hnt : NonTerm body)
    (hv : Utf8.valid (35 :: 37 :: body) = true)
    (hrest : s.rd.rest = (35 :: 37 :: body) ++ rest) (hF : Follow rest)
    (hf : rest = [] → s.rd.faulty = false) :
    parseToken cfg fuel 35 s =
      .ok (.symbol (35 :: 37 :: body)) (adv s (body.length + 2) (endPeek s rest)) := by
  have e : asc "#%" = [35, 37] := by decide
  have h := parseSymbolBytes_ok [35, 37] body rest (adv s 2 false) (by simp [hrest]) hF
    (by simpa using hf) hnt (by simp) (Or.inr (by simpa using hv))
  simp [parseToken, discard_eq, next_eq, hrest, hra, e]
  rw [h]; simp [Nat.add_comm]

/-! ### from tokens to `AtomOKP` -/

theorem atomOKP_of_next (p : Print.Options) (cfg : Cfg) (ryu : Nat → List UInt8) (v : Value)
    (h1 : v.isCons = false) (h2 : v.isVector = false) (h3 : v ≠ .null)
    (hhead : ListRT.ElemHead (atomTextP p ryu v))
    (hrun : ∀ (F : Nat) (s : St) (rest : List UInt8), Follow rest →
      (rest = [] → s.rd.faulty = false) → s.rd.rest = atomTextP p ryu v ++ rest →
      ∃ q, nextValue cfg (F + 2) s =
        .ok (some (fold p cfg.opts v)) (adv s (atomTextP p ryu v).length q)) :
    ListRT.AtomOKP p cfg ryu v := by
  refine ⟨h1, h2, h3, hhead, ?_⟩
  intro s rest fuel hf hg hr hfu hd
  obtain ⟨F, rfl⟩ : ∃ F, fuel = F + 2 := ⟨fuel - 2, by omega⟩
  obtain ⟨q, hq⟩ := hrun F s rest hf (fun _ => hg.2) hr
  exact ListRT.runs_of_adv _ s _ _ q rest hg hq (by simp [hr])

/-- `AtomOKP` with the requirement on the first bytes of the text as a parameter:
    `AtomOKH ListRT.ElemHead` is `ListRT.AtomOKP`. -/
def AtomOKH (H : List UInt8 → Prop) (p : Print.Options) (cfg : Cfg) (ryu : Nat → List UInt8)
    (v : Value) : Prop :=
  v.isCons = false ∧ v.isVector = false ∧ v ≠ .null ∧ H (atomTextP p ryu v) ∧
  ∀ (s : St) (rest : List UInt8) (fuel : Nat), ListRT.Follow rest → ListRT.Good s →
    s.rd.rest = atomTextP p ryu v ++ rest → fuel ≥ s.rd.rest.length + 2 →
    ListRT.nestingP p v + 1 ≤ s.depth →
    ListRT.Runs (nextValue cfg fuel) s (some (fold p cfg.opts v)) rest

theorem atomOKH_elem (p : Print.Options) (cfg : Cfg) (ryu : Nat → List UInt8) (v : Value) :
    AtomOKH ListRT.ElemHead p cfg ryu v ↔ ListRT.AtomOKP p cfg ryu v := Iff.rfl

theorem AtomOKH.mono {H H' : List UInt8 → Prop} (hh : ∀ t, H t → H' t) {p : Print.Options}
    {cfg : Cfg} {ryu : Nat → List UInt8} {v : Value} (h : AtomOKH H p cfg ryu v) :
    AtomOKH H' p cfg ryu v :=
  ⟨h.1, h.2.1, h.2.2.1, hh _ h.2.2.2.1, h.2.2.2.2⟩

theorem atomOKH_of_next (H : List UInt8 → Prop) (p : Print.Options) (cfg : Cfg)
    (ryu : Nat → List UInt8) (v : Value)
    (h1 : v.isCons = false) (h2 : v.isVector = false) (h3 : v ≠ .null)
    (hhead : H (atomTextP p ryu v))
    (hrun : ∀ (F : Nat) (s : St) (rest : List UInt8), Follow rest →
      (rest = [] → s.rd.faulty = false) → s.rd.rest = atomTextP p ryu v ++ rest →
      ∃ q, nextValue cfg (F + 2) s =
        .ok (some (fold p cfg.opts v)) (adv s (atomTextP p ryu v).length q)) :
    AtomOKH H p cfg ryu v := by
  refine ⟨h1, h2, h3, hhead, ?_⟩
  intro s rest fuel hf hg hr hfu hd
  obtain ⟨F, rfl⟩ : ∃ F, fuel = F + 2 := ⟨fuel - 2, by omega⟩
  obtain ⟨q, hq⟩ := hrun F s rest hf (fun _ => hg.2) hr
  exact ListRT.runs_of_adv _ s _ _ q rest hg hq (by simp [hr])

theorem run_of_lexes (cfg : Cfg) (text : List UInt8) (w : Value)
    (hlex : ∀ (fuel : Nat) (s : St) (rest : List UInt8), Follow rest →
      (rest = [] → s.rd.faulty = false) → s.rd.rest = text ++ rest → text.length + 1 ≤ fuel →
      ∃ tok, LexesAs cfg fuel s text tok ∧ tok.atom = some w) :
    ∀ (F : Nat) (s : St) (rest : List UInt8), Follow rest →
      (rest = [] → s.rd.faulty = false) → s.rd.rest = text ++ rest →
      ∃ q, nextValue cfg (F + 2) s = .ok (some w) (adv s text.length q) := by
  intro F s rest hF hf hrest
  obtain ⟨tok, hl, ha⟩ := hlex ((text ++ rest).length + 1) (adv s 0 (s.rd.mode == .io)) rest hF
    (by simpa using hf) (by simp [hrest]) (by simp)
  exact nextValue_of_lexes cfg (F + 1) s text rest tok w hrest hl ha

mutual
/-- the printer options of C13 fold nothing (as `Spec.C13_pof_fold` in `Props/C02.lean`) -/
theorem fold_pof (r : Options) : ∀ v : Value, fold (pof r) r v = v
  | .nil => by simp [fold, pof]
  | .bool b => by simp [fold, pof]
  | .bytes b => by simp [fold, pof]
  | .cons a d => by simp [fold, fold_pof r a, fold_pof r d]
  | .vector xs => by simp [fold, foldList_pof r xs]
  | .null => by simp [fold]
  | .number _ => by simp [fold]
  | .char _ => by simp [fold]
  | .string _ => by simp [fold]
  | .symbol _ => by simp [fold]
  | .keyword _ => by simp [fold]
theorem foldList_pof (r : Options) : ∀ xs : List Value, foldList (pof r) r xs = xs
  | [] => by simp [foldList]
  | x :: xs => by simp [foldList, fold_pof r x, foldList_pof r xs]
end

/-! ### `#nil`, `#t`, `#f` -/

theorem atomOKP_nil (cfg : Cfg) (ryu : Nat → List UInt8) :
    ListRT.AtomOKP (pof cfg.opts) cfg ryu .nil := by
  refine atomOKP_of_next _ cfg ryu .nil rfl rfl (by simp)
    (ListRT.atom_headP _ cfg ryu .nil ⟨trivial, rfl⟩) ?_
  refine run_of_lexes cfg _ _ ?_
  intro fuel s rest hF hf hrest _
  exact dialectRT_nil cfg (pof cfg.opts) ryu fuel s rest (by simp [pof]) hrest hF hf

theorem atomOKP_bool (cfg : Cfg) (ryu : Nat → List UInt8) (b : Bool) :
    ListRT.AtomOKP (pof cfg.opts) cfg ryu (.bool b) := by
  refine atomOKP_of_next _ cfg ryu (.bool b) rfl rfl (by simp)
    (ListRT.atom_headP _ cfg ryu (.bool b) ⟨trivial, rfl⟩) ?_
  refine run_of_lexes cfg _ _ ?_
  intro fuel s rest hF hf hrest _
  exact dialectRT_bool cfg (pof cfg.opts) ryu fuel s rest b hrest hF hf

/-! ### integers -/

theorem atomOKP_pos (cfg : Cfg) (ryu : Nat → List UInt8) (n : Nat) (hn : n ≤ u64Max) :
    ListRT.AtomOKP (pof cfg.opts) cfg ryu (.number (.pos n)) := by
  refine atomOKP_of_next _ cfg ryu _ rfl rfl (by simp)
    (ListRT.atom_headP _ cfg ryu (.number (.pos n)) ⟨hn, rfl⟩) ?_
  refine run_of_lexes cfg _ _ ?_
  intro fuel s rest hF hf hrest hfu
  obtain ⟨hl, hfo⟩ := dialectRT_posint cfg (pof cfg.opts) ryu fuel s rest n hn hrest (by omega) hF hf
  exact ⟨_, hl, by rw [hfo]; rfl⟩

theorem atomOKP_neg (cfg : Cfg) (ryu : Nat → List UInt8) (i : Int) (h1 : i64Min ≤ i)
    (h2 : i < 0) : ListRT.AtomOKP (pof cfg.opts) cfg ryu (.number (.neg i)) := by
  refine atomOKP_of_next _ cfg ryu _ rfl rfl (by simp)
    (ListRT.atom_headP _ cfg ryu (.number (.neg i)) ⟨⟨h1, h2⟩, rfl⟩) ?_
  refine run_of_lexes cfg _ _ ?_
  intro fuel s rest hF hf hrest hfu
  obtain ⟨hl, hfo⟩ := dialectRT_negint cfg (pof cfg.opts) ryu fuel s rest i h1 h2 hrest (by omega) hF hf
  exact ⟨_, hl, by rw [hfo]; rfl⟩

/-! ### characters, strings, byte vectors (copies of the `DialectRT` lemmas for `pof`, without the
    keyword part of `Compatible`) -/

theorem pof_char (r : Options) : (pof r).char = r.char := rfl
theorem pof_string (r : Options) : (pof r).string = r.string := rfl
theorem pof_bytes (r : Options) : (pof r).bytes = .r7rs := rfl

theorem lexes_char (cfg : Cfg) (ryu : Nat → List UInt8) (fuel : Nat)
    (s : St) (rest : List UInt8) (c : Nat) (hsc : isScalar c = true)
    (hrest : s.rd.rest = atomTextP (pof cfg.opts) ryu (.char c) ++ rest)
    (hfuel : (atomTextP (pof cfg.opts) ryu (.char c)).length ≤ fuel)
    (hF : Follow rest) (hf : rest = [] → s.rd.faulty = false) :
    LexesAs cfg fuel s (atomTextP (pof cfg.opts) ryu (.char c)) (.char c) := by
  rw [atomTextP_char] at hrest hfuel ⊢
  unfold Print.charText at hrest hfuel ⊢
  rw [pof_char] at hrest hfuel ⊢
  cases hp : cfg.opts.char
  · simp only [hp] at hrest hfuel ⊢
    refine ⟨35, _, ?_, by decide, by decide,
      char_aux cfg fuel c rest s hsc hrest (by omega) hF hf⟩
    unfold Print.schemeChar; split <;> rfl
  · simp only [hp] at hrest hfuel ⊢
    obtain ⟨q, h⟩ := elispChar_aux cfg fuel c rest s hp hsc hrest (by omega) hF hf
    refine ⟨63, q, ?_, by decide, by decide, h⟩
    unfold Print.elispChar; split
    · split <;> rfl
    · rfl

theorem atomOKP_char (cfg : Cfg) (ryu : Nat → List UInt8) (c : Nat) (hsc : isScalar c = true) :
    ListRT.AtomOKP (pof cfg.opts) cfg ryu (.char c) := by
  refine atomOKP_of_next _ cfg ryu _ rfl rfl (by simp)
    (ListRT.atom_headP _ cfg ryu (.char c) ⟨hsc, rfl⟩) ?_
  rw [fold_pof]
  refine run_of_lexes cfg _ _ ?_
  intro fuel s rest hF hf hrest hfu
  exact ⟨_, lexes_char cfg ryu fuel s rest c hsc hrest (by omega) hF hf, rfl⟩

theorem lexes_string (cfg : Cfg) (ryu : Nat → List UInt8) (fuel : Nat)
    (s : St) (rest : List UInt8) (bytes : List UInt8) (hv : Utf8.valid bytes = true)
    (hrest : s.rd.rest = atomTextP (pof cfg.opts) ryu (.string bytes) ++ rest)
    (hfuel : (atomTextP (pof cfg.opts) ryu (.string bytes)).length ≤ fuel) :
    LexesAs cfg fuel s (atomTextP (pof cfg.opts) ryu (.string bytes)) (.string bytes) := by
  rw [atomTextP_string] at hrest hfuel ⊢
  rw [pof_string] at hrest hfuel ⊢
  refine ⟨34, false, rfl, by decide, by decide, ?_⟩
  cases hp : cfg.opts.string
  · rw [hp] at hrest hfuel
    rw [string_r6rs_aux cfg fuel bytes rest s hp (by rw [hrest]; simp)
      (by simp at hfuel; omega) (Or.inr hv)]
    simp
  · rw [hp] at hrest hfuel
    have hlen : bytes.length ≤ (Print.escapeStr .elisp bytes).length := by
      clear hrest hfuel hv
      induction bytes with
      | nil => simp
      | cons b bs ih =>
        have hcons : Print.escapeStr .elisp (b :: bs) =
            Print.escapeText .elisp b (Print.escClass b) ++ Print.escapeStr .elisp bs := by
          simp [Print.escapeStr]
        have hpos : 1 ≤ (Print.escapeText .elisp b (Print.escClass b)).length := by
          obtain ⟨t1, t2, t3, t4, t5, t6, t7, -⟩ := escTexts
          cases Print.escClass b <;> simp [Print.escapeText, t1, t2, t3, t4, t5, t6, t7]
        rw [hcons]; simp only [List.length_cons, List.length_append]; omega
    rw [string_elisp_aux cfg fuel bytes rest s hp (by rw [hrest]; simp)
      (by simp at hfuel; omega) hv]
    simp

theorem atomOKP_string (cfg : Cfg) (ryu : Nat → List UInt8) (b : List UInt8)
    (hv : Utf8.valid b = true) : ListRT.AtomOKP (pof cfg.opts) cfg ryu (.string b) := by
  refine atomOKP_of_next _ cfg ryu _ rfl rfl (by simp)
    (ListRT.atom_headP _ cfg ryu (.string b) ⟨hv, rfl⟩) ?_
  rw [fold_pof]
  refine run_of_lexes cfg _ _ ?_
  intro fuel s rest hF hf hrest hfu
  exact ⟨_, lexes_string cfg ryu fuel s rest b hv hrest (by omega), rfl⟩

theorem atomOKP_bytes (cfg : Cfg) (ryu : Nat → List UInt8) (bs : List UInt8) :
    ListRT.AtomOKP (pof cfg.opts) cfg ryu (.bytes bs) := by
  refine atomOKP_of_next _ cfg ryu _ rfl rfl (by simp)
    (ListRT.atom_headP _ cfg ryu (.bytes bs) ⟨trivial, rfl⟩) ?_
  rw [fold_pof]
  intro F s rest hF hf hrest
  have ht : atomTextP (pof cfg.opts) ryu (.bytes bs) =
      35 :: 117 :: 56 :: 40 :: (Print.octetsText bs ++ [41]) := by
    rw [atomTextP_bytes, pof_bytes]
  rw [ht] at hrest ⊢
  refine ⟨false, nextValue_byteVec cfg (F + 1) s _ rest bs 3 hrest rfl ?_ ?_⟩
  · exact u8open_aux cfg _ (adv s 0 (s.rd.mode == .io))
      (40 :: (Print.octetsText bs ++ 41 :: rest)) (by simp [hrest])
  · have := parseByteList_ok cfg
      ((35 :: 117 :: 56 :: 40 :: (Print.octetsText bs ++ [41]) ++ rest).length + 1) bs rest
      (adv (adv s 0 (s.rd.mode == .io)) 3 false) (by simp [hrest]) (by simp; omega)
    have hl : (35 :: 117 :: 56 :: 40 :: (Print.octetsText bs ++ [41])).length =
        3 + ((Print.octetsText bs).length + 2) := by simp; omega
    rw [this]
    simp only [adv_adv, hl, Nat.zero_add]

/-! ### symbols -/

theorem head_of_digit (d : UInt8) (tl : List UInt8) (hd : isDigit d = true) :
    ListRT.ElemHead (d :: tl) :=
  ListRT.head_of_nonterm d tl (digit_nonterm d hd) (digit_disp d hd).2.2.2.2.2

theorem atomOKH_symbol (H : List UInt8 → Prop) (cfg : Cfg) (ryu : Nat → List UInt8)
    (n : List UInt8) (himg : SymImg cfg n) (hH : H n) :
    AtomOKH H (pof cfg.opts) cfg ryu (.symbol n) := by
  obtain ⟨hv, hnt, hsrc⟩ := himg
  have htext : atomTextP (pof cfg.opts) ryu (.symbol n) = n := atomTextP_symbol _ _ _
  rcases hsrc with ⟨hshape, htok⟩ | ⟨hld, ⟨d, tl, rfl, hd⟩, hw, htok⟩ | ⟨hra, body, rfl⟩
  · cases n with
    | nil => simp [nameShape] at hshape
    | cons b tl =>
      refine atomOKH_of_next H _ cfg ryu _ rfl rfl (by simp) (by rw [htext]; exact hH) ?_
      rw [fold_pof, htext]
      refine run_of_lexes cfg _ _ ?_
      intro fuel s rest hF hf hrest _
      obtain ⟨t1, t2⟩ := nameShape_start cfg b tl hshape
      refine ⟨.symbol (b :: tl), ⟨b, endPeek s rest, rfl, t1, t2, ?_⟩, rfl⟩
      rw [name_token cfg fuel b tl rest s hshape hv hrest hF hf, htok]
      rfl
  · refine atomOKH_of_next H _ cfg ryu _ rfl rfl (by simp) (by rw [htext]; exact hH) ?_
    rw [fold_pof, htext]
    refine run_of_lexes cfg _ _ ?_
    intro fuel s rest hF hf hrest _
    obtain ⟨-, -, -, t1, t2, -⟩ := digit_disp d hd
    refine ⟨.symbol (d :: tl), ⟨d, endPeek s rest, rfl, t1, t2, ?_⟩, rfl⟩
    rw [digit_token cfg fuel d tl rest s hld hd hnt hv hrest hF hf, hw, htok]
    rfl
  · refine atomOKH_of_next H _ cfg ryu _ rfl rfl (by simp) (by rw [htext]; exact hH) ?_
    rw [fold_pof, htext]
    refine run_of_lexes cfg _ _ ?_
    intro fuel s rest hF hf hrest _
    have hntb : NonTerm body := fun x hx => hnt x (by simp [hx])
    refine ⟨.symbol (35 :: 37 :: body), ⟨35, endPeek s rest, rfl, by decide, by decide, ?_⟩, rfl⟩
    rw [racket_token cfg fuel body rest s hra hntb hv hrest hF hf]
    rfl

/-- the first bytes of a symbol of the image, as a list element -/
theorem symbol_elemHead (cfg : Cfg) (n : List UInt8) (himg : SymImg cfg n)
    (hdot : ListRT.dotHeadOk n = true) : ListRT.ElemHead n := by
  obtain ⟨-, -, hsrc⟩ := himg
  rcases hsrc with ⟨hshape, -⟩ | ⟨-, ⟨d, tl, rfl, hd⟩, -, -⟩ | ⟨-, body, rfl⟩
  · cases n with
    | nil => simp [nameShape] at hshape
    | cons b tl => exact ListRT.elemHead_name cfg b tl hshape hdot
  · exact head_of_digit d tl hd
  · exact ListRT.head_of_byte 35 _ (by decide) (by decide) (by decide) (by decide) (by decide)

theorem atomOKP_symbol (cfg : Cfg) (ryu : Nat → List UInt8) (n : List UInt8)
    (himg : SymImg cfg n) (hdot : ListRT.dotHeadOk n = true) :
    ListRT.AtomOKP (pof cfg.opts) cfg ryu (.symbol n) :=
  atomOKH_symbol ListRT.ElemHead cfg ryu n himg (symbol_elemHead cfg n himg hdot)

/-! ### keywords -/

/-- the keyword named `.` can be read (from `.:`) but `#:.` and `:.` are rejected -/
def kwDotOk (r : Options) : Value → Bool
  | .keyword n => (pof r).keyword == .colonPostfix || n != [46]
  | _ => true

theorem pof_keyword_cases (r : Options) :
    (r.kwOctothorpe = true ∧ (pof r).keyword = .octothorpe) ∨
    (r.kwOctothorpe = false ∧ r.kwPrefix = true ∧ (pof r).keyword = .colonPrefix) ∨
    (r.kwOctothorpe = false ∧ r.kwPrefix = false ∧ r.kwPostfix = true ∧
      (pof r).keyword = .colonPostfix) ∨
    (r.kwOctothorpe = false ∧ r.kwPrefix = false ∧ r.kwPostfix = false ∧
      (pof r).keyword = .octothorpe) := by
  cases h1 : r.kwOctothorpe <;> cases h2 : r.kwPrefix <;> cases h3 : r.kwPostfix <;>
    simp [pof, h1, h2, h3]

theorem atomOKH_keyword (H : List UInt8 → Prop) (cfg : Cfg) (ryu : Nat → List UInt8)
    (n : List UInt8) (himg : KwImg cfg n) (hkd : kwDotOk cfg.opts (.keyword n) = true)
    (hH : H (atomTextP (pof cfg.opts) ryu (.keyword n))) :
    AtomOKH H (pof cfg.opts) cfg ryu (.keyword n) := by
  obtain ⟨hv, hnt, hsrc⟩ := himg
  have htext := atomTextP_keyword (pof cfg.opts) ryu n
  rcases pof_keyword_cases cfg.opts with ⟨ho, hk⟩ | ⟨ho, hp, hk⟩ | ⟨ho, hp, hpo, hk⟩ |
      ⟨ho, hp, hpo, hk⟩
  · -- `#:name`
    rw [hk] at htext
    simp only at htext
    have hn46 : n ≠ [46] := by simpa [kwDotOk, hk] using hkd
    refine atomOKH_of_next H _ cfg ryu _ rfl rfl (by simp) hH ?_
    rw [fold_pof, htext]
    refine run_of_lexes cfg _ _ ?_
    intro fuel s rest hF hf hrest _
    refine ⟨.keyword n, ⟨35, endPeek s rest, rfl, by decide, by decide, ?_⟩, rfl⟩
    rw [kw_octothorpe_aux cfg fuel n rest s ho (by simpa using hrest) hF hf hnt hn46 (Or.inr hv)]
    simp
  · -- `:name`
    rw [hk] at htext
    simp only at htext
    have hn46 : n ≠ [46] := by simpa [kwDotOk, hk] using hkd
    refine atomOKH_of_next H _ cfg ryu _ rfl rfl (by simp) hH ?_
    rw [fold_pof, htext]
    refine run_of_lexes cfg _ _ ?_
    intro fuel s rest hF hf hrest _
    refine ⟨.keyword n, ⟨58, endPeek s rest, rfl, by decide, by decide, ?_⟩, rfl⟩
    rw [colon_prefix_arm cfg fuel n rest s hp (by simpa using hrest) hF hf hnt hn46 (Or.inr hv)]
    simp
  · -- `name:`
    rw [hk] at htext
    simp only at htext
    rcases hsrc with ⟨h, _⟩ | ⟨_, hne, hsrc⟩
    · rcases h with h | h
      · rw [ho] at h; exact Bool.noConfusion h
      · rw [hp] at h; exact Bool.noConfusion h
    have hv' : Utf8.valid (n ++ [58]) = true := valid_snoc58 n hv
    cases n with
    | nil => exact absurd rfl hne
    | cons b tl =>
      rcases hsrc with ⟨hshape, htok⟩ | ⟨hld, ⟨d, tl', hdd, hd⟩, hw⟩
      · refine atomOKH_of_next H _ cfg ryu _ rfl rfl (by simp) hH ?_
        rw [fold_pof, htext]
        refine run_of_lexes cfg _ _ ?_
        intro fuel s rest hF hf hrest _
        obtain ⟨t1, t2⟩ := nameShape_start cfg b (tl ++ [58]) (by simpa using hshape)
        refine ⟨.keyword (b :: tl), ⟨b, endPeek s rest, rfl, t1, t2, ?_⟩, rfl⟩
        rw [name_token cfg fuel b (tl ++ [58]) rest s (by simpa using hshape)
          (by simpa using hv') (by simpa using hrest) hF hf]
        rw [show b :: (tl ++ [58]) = (b :: tl) ++ [58] from rfl, htok]
        simp
      · simp only [List.cons.injEq] at hdd
        obtain ⟨rfl, rfl⟩ := hdd
        refine atomOKH_of_next H _ cfg ryu _ rfl rfl (by simp) hH ?_
        rw [fold_pof, htext]
        refine run_of_lexes cfg _ _ ?_
        intro fuel s rest hF hf hrest _
        obtain ⟨-, -, -, t1, t2, -⟩ := digit_disp b hd
        have hnt' : NonTerm (b :: (tl ++ [58])) := by
          intro x hx
          rcases List.mem_cons.mp hx with rfl | hx
          · exact hnt x (by simp)
          rcases List.mem_append.mp hx with hx | hx
          · exact hnt x (by simp [hx])
          · have : x = 58 := by simpa using hx
            subst this; decide
        refine ⟨.keyword (b :: tl), ⟨b, endPeek s rest, rfl, t1, t2, ?_⟩, rfl⟩
        rw [digit_token cfg fuel b (tl ++ [58]) rest s hld hd hnt' (by simpa using hv')
          (by simpa using hrest) hF hf]
        rw [show b :: (tl ++ [58]) = (b :: tl) ++ [58] from rfl, hw]
        have hst : symbolToken cfg.opts ((b :: tl) ++ [58]) = .keyword (b :: tl) := by
          unfold symbolToken
          have hl : (b :: (tl ++ [58])).getLast? = some 58 := List.getLast?_concat (l := b :: tl)
          have hdl : (b :: (tl ++ [58])).dropLast = b :: tl := List.dropLast_concat (l₁ := b :: tl)
          simp [hpo, hl, hdl]
        simp only [hst]
        simp
  · -- no keyword syntax at all: no keyword can have been read
    exfalso
    rcases hsrc with ⟨h, _⟩ | ⟨h, _⟩
    · rcases h with h | h
      · rw [ho] at h; exact Bool.noConfusion h
      · rw [hp] at h; exact Bool.noConfusion h
    · rw [hpo] at h; exact Bool.noConfusion h

/-- the first bytes of the printed keyword, as a list element -/
theorem keyword_elemHead (cfg : Cfg) (ryu : Nat → List UInt8) (n : List UInt8)
    (himg : KwImg cfg n) (hdot : ListRT.dotOkP (pof cfg.opts) (.keyword n) = true) :
    ListRT.ElemHead (atomTextP (pof cfg.opts) ryu (.keyword n)) := by
  obtain ⟨-, -, hsrc⟩ := himg
  have htext := atomTextP_keyword (pof cfg.opts) ryu n
  have hb : ∀ (c : UInt8) (tl : List UInt8),
      (!isTrivia c && c != 59 && c != 41 && c != 93 && c != 46) = true →
      ListRT.ElemHead (c :: tl) := by
    intro c tl h
    simp only [Bool.and_eq_true, Bool.not_eq_true', bne_iff_ne, ne_eq] at h
    exact ListRT.head_of_byte c tl h.1.1.1.1 h.1.1.1.2 h.1.1.2 h.1.2 h.2
  rcases pof_keyword_cases cfg.opts with ⟨ho, hk⟩ | ⟨ho, hp, hk⟩ | ⟨ho, hp, hpo, hk⟩ |
      ⟨ho, hp, hpo, hk⟩
  · rw [hk] at htext; simp only at htext; rw [htext]; exact hb _ _ (by decide)
  · rw [hk] at htext; simp only at htext; rw [htext]; exact hb _ _ (by decide)
  · rw [hk] at htext
    simp only at htext
    have hdot' : ListRT.dotHeadOk (n ++ [58]) = true := by simpa [ListRT.dotOkP, hk] using hdot
    rcases hsrc with ⟨h, _⟩ | ⟨_, hne, hsrc⟩
    · rcases h with h | h
      · rw [ho] at h; exact Bool.noConfusion h
      · rw [hp] at h; exact Bool.noConfusion h
    cases n with
    | nil => exact absurd rfl hne
    | cons b tl =>
      rw [htext]
      rcases hsrc with ⟨hshape, -⟩ | ⟨-, ⟨d, tl', hdd, hd⟩, -⟩
      · exact ListRT.elemHead_name cfg b (tl ++ [58]) (by simpa using hshape)
          (by simpa using hdot')
      · simp only [List.cons.injEq] at hdd
        obtain ⟨rfl, rfl⟩ := hdd
        exact head_of_digit b (tl ++ [58]) hd
  · rw [hk] at htext; simp only at htext; rw [htext]; exact hb _ _ (by decide)

theorem atomOKP_keyword (cfg : Cfg) (ryu : Nat → List UInt8) (n : List UInt8)
    (himg : KwImg cfg n) (hdot : ListRT.dotOkP (pof cfg.opts) (.keyword n) = true)
    (hkd : kwDotOk cfg.opts (.keyword n) = true) :
    ListRT.AtomOKP (pof cfg.opts) cfg ryu (.keyword n) :=
  atomOKH_keyword ListRT.ElemHead cfg ryu n himg hkd (keyword_elemHead cfg ryu n himg hdot)

/-- (c) a keyword in the image proves that a keyword syntax is enabled -/
theorem kwImg_enabled (cfg : Cfg) (n : List UInt8) (h : KwImg cfg n) :
    (cfg.opts.kwPrefix || cfg.opts.kwPostfix || cfg.opts.kwOctothorpe) = true := by
  obtain ⟨-, -, hsrc⟩ := h
  rcases hsrc with ⟨h | h, _⟩ | ⟨h, _⟩ <;> simp [h]

end Image
end Parse
end Lexpr
