/-
  C11, re-parse clause — the lexer: every function of Lex.lean treats the end of the input like
  the byte at which it stopped (`TrK 0`, see ReparseCore.lean).
-/
import LexprModel.Proofs.ReparseCore
namespace Lexpr
namespace Parse
namespace Reparse
open Progress Spans

/-! ### tactics -/

open Lean Elab Tactic Meta in
/-- succeed iff the goal, under its binders, is a `TrK` statement -/
elab "tguard" : tactic => do
  let g := (← instantiateMVars (← getMainTarget)).cleanupAnnotations
  unless g.getForallBody.cleanupAnnotations.getAppFn.isConstOf ``TrK do throwError "not a TrK goal"

open Lean Elab Tactic Meta in
/-- succeed iff the goal is a `∀` / `→` over a `TrK` statement -/
elab "tguard_pi" : tactic => do
  let g := (← instantiateMVars (← getMainTarget)).cleanupAnnotations
  unless g.isForall do throwError "not a pi"
  unless g.getForallBody.cleanupAnnotations.getAppFn.isConstOf ``TrK do throwError "not a TrK goal"

open Lean Elab Tactic Meta in
/-- succeed iff the goal is `TrK k (c .. >>= f) _` with head constant `c` -/
elab "tguard_bind_head " id:ident : tactic => do
  let g := (← instantiateMVars (← getMainTarget)).cleanupAnnotations
  unless g.getAppFn.isConstOf ``TrK do throwError "not a TrK goal"
  let r := g.getAppArgs[2]!
  unless r.getAppFn.isConstOf ``Bind.bind && r.getAppNumArgs == 6 do throwError "not a bind"
  let m := r.getAppArgs[4]!
  unless m.getAppFn.isConstOf id.getId.eraseMacroScopes do throwError "head mismatch"

open Lean Elab Tactic Meta in
/-- succeed iff the goal, under its binders, is a `Bd` statement -/
elab "bguard" : tactic => do
  let g := (← instantiateMVars (← getMainTarget)).cleanupAnnotations
  unless g.getForallBody.cleanupAnnotations.getAppFn.isConstOf ``Bd do throwError "not a Bd goal"

open Lean Elab Tactic Meta in
elab "bguard_pi" : tactic => do
  let g := (← instantiateMVars (← getMainTarget)).cleanupAnnotations
  unless g.isForall do throwError "not a pi"
  unless g.getForallBody.cleanupAnnotations.getAppFn.isConstOf ``Bd do throwError "not a Bd goal"

open Lean Elab Tactic Meta in
/-- succeed iff the goal is `Bd b (c .. >>= f) _` with head constant `c` -/
elab "bguard_bind_head " id:ident : tactic => do
  let g := (← instantiateMVars (← getMainTarget)).cleanupAnnotations
  unless g.getAppFn.isConstOf ``Bd do throwError "not a Bd goal"
  let r := g.getAppArgs[2]!
  unless r.getAppFn.isConstOf ``Bind.bind && r.getAppNumArgs == 6 do throwError "not a bind"
  let m := r.getAppArgs[4]!
  unless m.getAppFn.isConstOf id.getId.eraseMacroScopes do throwError "head mismatch"

open Lean Elab Tactic Meta in
/-- succeed iff the (left) program of a `TrK` / `Bd` goal has head constant `c` -/
elab "xhead " id:ident : tactic => do
  let g := (← instantiateMVars (← getMainTarget)).cleanupAnnotations
  unless g.getAppFn.isConstOf ``TrK || g.getAppFn.isConstOf ``Bd do throwError "not a TrK/Bd goal"
  let r := g.getAppArgs[2]!
  unless r.getAppFn.isConstOf id.getId.eraseMacroScopes do throwError "head mismatch"

open Lean Elab Tactic Meta in
/-- succeed iff the (left) program of a `TrK` / `Bd` goal is a lambda -/
elab "xhead_lam" : tactic => do
  let g := (← instantiateMVars (← getMainTarget)).cleanupAnnotations
  unless g.getAppFn.isConstOf ``TrK || g.getAppFn.isConstOf ``Bd do throwError "not a TrK/Bd goal"
  unless g.getAppArgs[2]!.isLambda do throwError "not a lambda"

open Lean Elab Tactic Meta in
/-- succeed iff the (left) program of a `TrK` / `Bd` goal is `(fun s => ..) >>= f` -/
elab "xhead_bind_lam" : tactic => do
  let g := (← instantiateMVars (← getMainTarget)).cleanupAnnotations
  unless g.getAppFn.isConstOf ``TrK || g.getAppFn.isConstOf ``Bd do throwError "not a TrK/Bd goal"
  let r := g.getAppArgs[2]!
  unless r.getAppFn.isConstOf ``Bind.bind && r.getAppNumArgs == 6 do throwError "not a bind"
  unless r.getAppArgs[4]!.isLambda do throwError "not a lambda"

/-- follow the structure of a `do` block on both sides; boundary goals (`Bd`) are left over.
    The lemmas `ts` are tried only on a call of the function they are about; inlined code that
    starts with `getRest` or with a raw state function is matched against them by unfolding. -/
syntax "tr" "[" term,* "]" : tactic
macro_rules
  | `(tactic| tr [$ts,*]) => `(tactic| repeat' (first
      | (tguard_pi; intro _)
      | (xhead Pure.pure; exact TrK.pure)
      | (xhead Lexpr.Parse.errAt; exact TrK.errAt)
      | (xhead Lexpr.Parse.peekErr; exact TrK.peekErr)
      | (xhead Lexpr.Parse.panicAt; exact TrK.panicAt)
      | (xhead Lexpr.Parse.outOfFuel; exact TrK.outOfFuel)
      | (xhead Lexpr.Parse.liftExcept; exact TrK.liftExcept)
      | (xhead_lam; exact TrK.rawErr)
      | (xhead Lexpr.Parse.next; exact next_t)
      | (xhead Lexpr.Parse.discard; exact discard_t)
      | (xhead Lexpr.Parse.getMode; exact getMode_t)
      | (xhead Lexpr.Parse.peek; exact peek_t1)
      | (xhead Lexpr.Parse.peekOrNull; exact peekOrNull_t1)
      | (xhead Lexpr.Parse.parseWhitespace; exact parseWhitespace_t1)
      $[| exact_call $ts]*
      $[| exact_call (TrK.weaken $ts)]*
      | (tguard_bind_head Lexpr.Parse.getRest; first | fail $[| exact $ts]*)
      | (xhead_bind_lam; first | fail $[| exact $ts]*)
      | (tguard_bind_head Lexpr.Parse.peek; refine TrK.bind_peek ?_ ?_)
      | (tguard_bind_head Lexpr.Parse.peekOrNull; refine TrK.bind_peekOrNull ?_ ?_)
      | (tguard_bind_head Lexpr.Parse.parseWhitespace; refine TrK.bind_parseWhitespace ?_ ?_)
      | (xhead ite; refine TrK.ite ?_ ?_)
      | (tguard_bind_head Lexpr.Parse.tokenFuel; refine TrK.bind_tokenFuel ?_)
      | (tguard_bind_head Lexpr.Parse.apiFuel; refine TrK.bind_apiFuel ?_)
      | (xhead Bind.bind; refine TrK.bind ?_ ?_)
      | (tguard; dsimp only)
      | (tguard; simp only [Except.ok.injEq, Except.error.injEq, reduceCtorEq] at *; subst_vars)
      | (tguard; split)))

/-- a successful run does not grow the input: from the invariant lemmas of SpansInv.lean -/
macro "mono" : tactic => `(tactic| (
  intros
  refine MonoOk.of_inv fun n => ?_
  inv_wp [parseWhitespace_inv, peekOrNull_inv, nextOrNull_inv, parseSymbolBytes_inv, nextOrEof_inv,
    nextOrEofChar_inv, readCont_inv, decodeUtf8Sequence_inv, decodeR6rsHexEscape_inv,
    parseR6rsEscape_inv, finishStr_inv, parseR6rsStr_inv, decodeElispHexEscape_inv,
    decodeElispUniEscape_inv, decodeElispOctalEscape_inv, elispCharEscape_inv,
    elispUniCharEscape_inv, parseElispEscape_inv, parseElispStr_inv, decodeR6rsCharHexEscape_inv,
    parseR6rsChar_inv, asChar_inv, decodeElispCharEscape_inv, parseElispChar_inv, f64FromParts_inv,
    skipDigits_inv, parseExponentOverflow_inv, exponentLoop_inv, parseExponent_inv,
    decimalLoop_inv, parseDecimal_inv, parseLongInteger_inv, parseNumTail_inv, numLoop_inv,
    parseNumLiteral_inv, parseRadixLiteral_inv, expectNumberEnd_inv, parseNumToken_inv,
    parseRadixToken_inv, parseNumber_inv, expectIdent_inv, parseSignDotSymbol_inv,
    parseSignToken_inv, parseToken_inv, endSeq_inv, byteListLoop_inv, parseByteList_inv,
    (value_invs _ _).1, (value_invs _ _).2.1 _ _, (value_invs _ _).2.2 _ _]))

/-! simplification of the truncated side, which has seen the end of input (`none`, or `0` from
    `peek_or_null`) -/

theorem isDigit_zero : isDigit 0 = false := by decide
theorem digitVal_zero (radix : Nat) : digitVal radix 0 = none := by
  simp [digitVal]
theorem zero_ne_46 : ((0 : UInt8) == 46) = false := by decide
theorem zero_ne_101 : ((0 : UInt8) == 101) = false := by decide
theorem zero_ne_69 : ((0 : UInt8) == 69) = false := by decide
theorem zero_ne_45 : ((0 : UInt8) == 45) = false := by decide
theorem zero_ne_43 : ((0 : UInt8) == 43) = false := by decide
theorem zero_ne_35 : ((0 : UInt8) == 35) = false := by decide
theorem zero_ne_64 : ((0 : UInt8) == 64) = false := by decide
theorem zero_eq_zero : ((0 : UInt8) == 0) = true := by decide

/-- a successful run from a non-empty input consumes: the primitives, or a `Spec` of Progress.lean -/
syntax "prog" : tactic
macro_rules | `(tactic| prog) => `(tactic| first
  | exact_call Prog.discard
  | exact_call Prog.next
  | exact_call (Prog.of_spec (fun _ => nextOrEof_spec))
  | exact_call (Prog.of_spec (fun _ => nextOrEofChar_spec))
  | exact_call (Prog.of_spec (fun _ => parseExponent_spec))
  | exact_call (Prog.of_spec (fun _ => parseDecimal_spec))
  | exact_call (Prog.of_spec (fun _ => parseNumLiteral_spec))
  | exact_call (Prog.of_spec (fun _ => parseRadixLiteral_spec))
  | exact_call (Prog.of_spec (fun _ => parseNumToken_spec))
  | exact_call (Prog.of_spec (fun _ => parseRadixToken_spec))
  | exact_call (Prog.of_spec (fun _ => parseNumber_spec))
  | exact_call (Prog.of_spec (fun _ => parseSignDotSymbol_spec))
  | (refine Prog.bind ?_ (by mono); prog))

/-- the boundary case, by cases on what the full run does with the byte it peeked -/
syntax "bd" "[" term,* "]" : tactic
macro_rules
  | `(tactic| bd [$ts,*]) => `(tactic| repeat' (first
      | (bguard_pi; intro _)
      | contradiction
      | (xhead Pure.pure; exact Bd.pure)
      | (xhead Lexpr.Parse.peekErr; exact Bd.of_neverOk NeverOk.peekErr)
      | (xhead Lexpr.Parse.errAt; exact Bd.of_neverOk NeverOk.errAt)
      | (xhead Lexpr.Parse.panicAt; exact Bd.of_neverOk NeverOk.panicAt)
      | (xhead Lexpr.Parse.outOfFuel; exact Bd.of_neverOk NeverOk.outOfFuel)
      | (bguard; exact Bd.of_prog (by prog))
      | (xhead Bind.bind; exact Bd.prog_bind (by prog) (by mono))
      $[| exact_call (Bd.of_tr $ts)]*
      | (xhead ite; refine Bd.ite_left ?_ ?_)
      | (bguard_bind_head Lexpr.Parse.peek; refine Bd.bind_peek ?_)
      | (bguard_bind_head Lexpr.Parse.peekOrNull; refine Bd.bind_peekOrNull ?_)
      | (xhead Bind.bind; refine Bd.of_tr ?_; tr [$ts,*]; done)
      | (bguard; dsimp only)
      | (bguard; simp only [isDigit_zero, digitVal_zero, zero_ne_46, zero_ne_101, zero_ne_69,
          zero_ne_45, zero_ne_43, zero_ne_35, zero_ne_64, zero_eq_zero, Bool.or_self, Bool.true_or,
          Bool.false_eq_true, if_false, if_true, Option.isNone_none, Bool.and_true, Bool.true_and])
      | (bguard; split)))

/-! ### Lex.lean -/

theorem nextOrEof_t {k : Nat} : TrK k nextOrEof nextOrEof := by
  unfold nextOrEof
  tr []

theorem nextOrEofChar_t {k : Nat} : TrK k nextOrEofChar nextOrEofChar := by
  unfold nextOrEofChar
  tr []

theorem nextOrNull_t {k : Nat} : TrK k nextOrNull nextOrNull := by
  unfold nextOrNull
  tr []

theorem readCont_t {k n : Nat} {acc : List UInt8} : TrK k (readCont n acc) (readCont n acc) := by
  induction n generalizing acc with
  | zero => unfold readCont; tr []
  | succ n ih => unfold readCont; tr [ih]

theorem decodeUtf8Sequence_t {k : Nat} {b : UInt8} :
    TrK k (decodeUtf8Sequence b) (decodeUtf8Sequence b) := by
  unfold decodeUtf8Sequence
  tr [readCont_t]

theorem decodeR6rsHexEscape_t {k f f' n : Nat} :
    TrK k (decodeR6rsHexEscape f n) (decodeR6rsHexEscape f' n) := by
  induction f generalizing f' n with
  | zero => exact TrK.fuel0 rfl
  | succ f ih =>
    have main : ∀ g, TrK k (decodeR6rsHexEscape (f + 1) n) (decodeR6rsHexEscape (g + 1) n) := by
      intro g
      unfold decodeR6rsHexEscape
      tr [nextOrEof_t, ih]
    cases f' with
    | zero => exact TrK.right_fuel (main 0).frame rfl
    | succ g => exact main g

theorem decodeElispHexEscape_t {f f' n : Nat} :
    TrK 0 (decodeElispHexEscape f n) (decodeElispHexEscape f' n) := by
  induction f generalizing f' n with
  | zero => exact TrK.fuel0 rfl
  | succ f ih =>
    have main : ∀ g, TrK 0 (decodeElispHexEscape (f + 1) n) (decodeElispHexEscape (g + 1) n) := by
      intro g
      unfold decodeElispHexEscape
      tr [ih]
      bd []
    cases f' with
    | zero => exact TrK.right_fuel (main 0).frame rfl
    | succ g => exact main g

theorem parseR6rsEscape_t {k f f' : Nat} {acc : List UInt8} :
    TrK k (parseR6rsEscape f acc) (parseR6rsEscape f' acc) := by
  unfold parseR6rsEscape
  tr [nextOrEof_t, decodeR6rsHexEscape_t]

theorem finishStr_t {k : Nat} {c : Bool} {bs : List UInt8} : TrK k (finishStr c bs) (finishStr c bs) := by
  unfold finishStr
  tr []

theorem parseR6rsStr_t {k f f' : Nat} {acc : List UInt8} :
    TrK k (parseR6rsStr f acc) (parseR6rsStr f' acc) := by
  induction f generalizing f' acc with
  | zero => exact TrK.fuel0 rfl
  | succ f ih =>
    have main : ∀ g, TrK k (parseR6rsStr (f + 1) acc) (parseR6rsStr (g + 1) acc) := by
      intro g
      unfold parseR6rsStr
      tr [nextOrEof_t, finishStr_t, parseR6rsEscape_t, ih]
    cases f' with
    | zero => exact TrK.right_fuel (main 0).frame rfl
    | succ g => exact main g

theorem decodeElispUniEscape_t {k count n : Nat} :
    TrK k (decodeElispUniEscape count n) (decodeElispUniEscape count n) := by
  induction count generalizing n with
  | zero => unfold decodeElispUniEscape; tr []
  | succ f ih => unfold decodeElispUniEscape; tr [nextOrEof_t, ih]

theorem decodeElispOctalEscape_t {f f' n : Nat} :
    TrK 0 (decodeElispOctalEscape f n) (decodeElispOctalEscape f' n) := by
  induction f generalizing f' n with
  | zero => exact TrK.fuel0 rfl
  | succ f ih =>
    have main : ∀ g, TrK 0 (decodeElispOctalEscape (f + 1) n) (decodeElispOctalEscape (g + 1) n) := by
      intro g
      unfold decodeElispOctalEscape
      tr [ih]
      bd []
    cases f' with
    | zero => exact TrK.right_fuel (main 0).frame rfl
    | succ g => exact main g

theorem surrogate_not_scalar {n : Nat} (h : Utf8.isSurrogate n = true) : isScalar n = false := by
  unfold isScalar; simp [h]

theorem elispCharEscape_t {k : Nat} {acc : List UInt8} {n : Nat} :
    TrK k (elispCharEscape acc n) (elispCharEscape acc n) := by
  unfold elispCharEscape
  refine TrK.ite (fun _ => ?_) (fun _ => TrK.ite (fun _ => TrK.of_neverOk ?_) (fun _ => TrK.errAt))
  · tr []
  · -- a surrogate: an error whether or not the input ends here
    intro S a S' h
    obtain ⟨o, S1, _, h⟩ := bind_ok h
    cases o <;> simp [errAt] at h

theorem elispUniCharEscape_t {k : Nat} {acc : List UInt8} {n : Nat} :
    TrK k (elispUniCharEscape acc n) (elispUniCharEscape acc n) := by
  unfold elispUniCharEscape
  tr []

theorem parseElispEscape_t {f f' : Nat} {acc : List UInt8} :
    TrK 0 (parseElispEscape f acc) (parseElispEscape f' acc) := by
  unfold parseElispEscape
  tr [nextOrEof_t, decodeElispHexEscape_t, decodeElispUniEscape_t, decodeElispOctalEscape_t,
    elispCharEscape_t, elispUniCharEscape_t]
  -- the escaped blank: the byte peeked by a successful full run is not a continuation byte
  · bd []
  -- `\N{U+<surrogate>`: the full run, which sees one more byte, fails as well
  intro b
  rename_i hsur
  refine Bd.of_neverOk ?_
  intro S a S' h
  dsimp only at h
  obtain ⟨r, S1, h1, _⟩ := bind_ok h
  unfold elispUniCharEscape at h1
  simp [surrogate_not_scalar hsur, errAt] at h1

theorem parseElispStr_t {f f' : Nat} {acc : List UInt8} {ub mb na : Bool} :
    TrK 0 (parseElispStr f acc ub mb na) (parseElispStr f' acc ub mb na) := by
  induction f generalizing f' acc ub mb na with
  | zero => exact TrK.fuel0 rfl
  | succ f ih =>
    have main : ∀ g, TrK 0 (parseElispStr (f + 1) acc ub mb na) (parseElispStr (g + 1) acc ub mb na) := by
      intro g
      unfold parseElispStr
      tr [nextOrEof_t, finishStr_t, parseElispEscape_t, ih]
    cases f' with
    | zero => exact TrK.right_fuel (main 0).frame rfl
    | succ g => exact main g

theorem decodeR6rsCharHexEscape_t {f f' n : Nat} {first : Bool} :
    TrK 0 (decodeR6rsCharHexEscape f n first) (decodeR6rsCharHexEscape f' n first) := by
  induction f generalizing f' n first with
  | zero => exact TrK.fuel0 rfl
  | succ f ih =>
    have main : ∀ g, TrK 0 (decodeR6rsCharHexEscape (f + 1) n first)
        (decodeR6rsCharHexEscape (g + 1) n first) := by
      intro g
      unfold decodeR6rsCharHexEscape
      tr [ih]
      bd []
    cases f' with
    | zero => exact TrK.right_fuel (main 0).frame rfl
    | succ g => exact main g

/-- a state-specific progress fact: the full run stands at `b` and consumes -/
theorem Bd.of_prog_at {α : Type} {b : UInt8} {m m' : P α}
    (h : ∀ S a S' t, S.rd.rest = b :: t → m S = .ok a S' → S'.rd.rest.length < S.rd.rest.length) :
    Bd b m m' := by
  intro r' S s a S' hrel hs hr hl
  have h1 : S.rd.rest = b :: r' := by rw [hrel.1, hs]; rfl
  have := h S a S' r' h1 hr
  rw [h1] at this
  simp at this
  omega

theorem charNameTail_t {initial : UInt8} :
    TrK 0 (PrefixDet.charNameTail initial) (PrefixDet.charNameTail initial) := by
  rw [PrefixDet.charNameTail_eq]
  tr [scan_t charNameLen_scanner0]
  bd []

/-- at a byte that is not a delimiter the character-name scanner consumes -/
theorem charNameTail_bd {initial b : UInt8} {m' : P Nat} (hb : ¬ isCharDelimiter b = true) :
    Bd b (PrefixDet.charNameTail initial) m' := by
  refine Bd.of_prog_at fun S a S' t hS hr => ?_
  rw [PrefixDet.charNameTail_eq] at hr
  obtain ⟨tk, S1, h1, h2⟩ := bind_ok hr
  have hm : MonoOk (peek >>= fun nxt' =>
      match charName (initial :: tk) with
      | some c => (pure c : P Nat)
      | none =>
        if nxt'.isNone && isCharNamePrefix (initial :: tk) then errAt .eofChar
        else errAt .invalidCharacterConstant) := by mono
  have := hm S1 a S' h2
  unfold PrefixDet.scan at h1
  cases h1
  have h3 : (S.rd.consume (charNameLen S.rd.rest)).rest.length < S.rd.rest.length := by
    have hc : charNameLen (b :: t) = charNameLen t + 1 := by simp [charNameLen, hb]
    rw [consume_rest, List.length_drop, hS, hc]
    simp only [List.length_cons]
    omega
  exact Nat.lt_of_le_of_lt this h3

theorem parseR6rsChar_t {f f' : Nat} : TrK 0 (parseR6rsChar f) (parseR6rsChar f') := by
  unfold parseR6rsChar
  tr [nextOrEofChar_t, decodeR6rsCharHexEscape_t, decodeUtf8Sequence_t, charNameTail_t]
  bd []
  exact charNameTail_bd ‹_›

theorem asChar_t {k n : Nat} : TrK k (asChar n) (asChar n) := by
  unfold asChar
  tr []

theorem asEscapedChar_t {k n : Nat} : TrK k (asEscapedChar n) (asEscapedChar n) := by
  unfold asEscapedChar
  refine TrK.ite (fun hsur => TrK.of_neverOk ?_) (fun _ => asChar_t)
  -- a surrogate: an error whether or not the input ends here
  intro S a S' h
  obtain ⟨o, S1, _, h⟩ := bind_ok h
  cases o with
  | none => simp [errAt] at h
  | some b =>
    dsimp only at h
    unfold asChar at h
    simp [surrogate_not_scalar hsur, errAt] at h

theorem decodeElispCharEscape_t {f f' : Nat} :
    TrK 0 (decodeElispCharEscape f) (decodeElispCharEscape f') := by
  unfold decodeElispCharEscape
  tr [nextOrEofChar_t, nextOrEof_t, decodeElispHexEscape_t, decodeElispUniEscape_t,
    decodeElispOctalEscape_t, asChar_t, asEscapedChar_t, decodeUtf8Sequence_t]

theorem parseElispChar_t {f f' : Nat} : TrK 0 (parseElispChar f) (parseElispChar f') := by
  unfold parseElispChar
  tr [decodeElispCharEscape_t, decodeUtf8Sequence_t]

theorem f64FromParts_t {k : Nat} {cfg : Cfg} {pos : Bool} {sig : Nat} {e : Int} :
    TrK k (f64FromParts cfg pos sig e) (f64FromParts cfg pos sig e) := by
  unfold f64FromParts
  tr []

theorem skipDigits_t : TrK 0 skipDigits skipDigits := by
  rw [PrefixDet.skipDigits_eq]
  tr [scan_t digits_scanner0]
  bd []

theorem parseExponentOverflow_t {pos : Bool} {sig : Nat} {posExp : Bool} :
    TrK 0 (parseExponentOverflow pos sig posExp) (parseExponentOverflow pos sig posExp) := by
  unfold parseExponentOverflow
  tr [skipDigits_t]

theorem exponentLoop_t {cfg : Cfg} {pos : Bool} {sig : Nat} {startExp : Int} {posExp : Bool}
    {f f' exp : Nat} :
    TrK 0 (exponentLoop cfg pos sig startExp posExp f exp)
      (exponentLoop cfg pos sig startExp posExp f' exp) := by
  induction f generalizing f' exp with
  | zero => exact TrK.fuel0 rfl
  | succ f ih =>
    have main : ∀ g, TrK 0 (exponentLoop cfg pos sig startExp posExp (f + 1) exp)
        (exponentLoop cfg pos sig startExp posExp (g + 1) exp) := by
      intro g
      unfold exponentLoop
      tr [parseExponentOverflow_t, f64FromParts_t, ih]
      bd [f64FromParts_t]
    cases f' with
    | zero => exact TrK.right_fuel (main 0).frame rfl
    | succ g => exact main g

theorem parseExponent_t {cfg : Cfg} {f f' : Nat} {pos : Bool} {sig : Nat} {startExp : Int} :
    TrK 0 (parseExponent cfg f pos sig startExp) (parseExponent cfg f' pos sig startExp) := by
  unfold parseExponent
  tr [exponentLoop_t]
  bd [exponentLoop_t]

theorem decimalLoop_t {f f' sig : Nat} {exp : Int} {zeros : Nat} {any : Bool} :
    TrK 0 (decimalLoop f sig exp zeros any) (decimalLoop f' sig exp zeros any) := by
  induction f generalizing f' sig exp zeros any with
  | zero => exact TrK.fuel0 rfl
  | succ f ih =>
    have main : ∀ g, TrK 0 (decimalLoop (f + 1) sig exp zeros any)
        (decimalLoop (g + 1) sig exp zeros any) := by
      intro g
      unfold decimalLoop
      tr [skipDigits_t, ih]
      bd []
    cases f' with
    | zero => exact TrK.right_fuel (main 0).frame rfl
    | succ g => exact main g

theorem parseDecimal_t {cfg : Cfg} {f f' : Nat} {pos : Bool} {sig : Nat} {exp : Int} :
    TrK 0 (parseDecimal cfg f pos sig exp) (parseDecimal cfg f' pos sig exp) := by
  unfold parseDecimal
  tr [decimalLoop_t, parseExponent_t, f64FromParts_t]
  bd [f64FromParts_t]

theorem parseLongInteger_t {cfg : Cfg} {radix : Nat} {pos : Bool} {sig f f' exp : Nat} :
    TrK 0 (parseLongInteger cfg radix pos sig f exp) (parseLongInteger cfg radix pos sig f' exp) := by
  induction f generalizing f' exp with
  | zero => exact TrK.fuel0 rfl
  | succ f ih =>
    have main : ∀ g, TrK 0 (parseLongInteger cfg radix pos sig (f + 1) exp)
        (parseLongInteger cfg radix pos sig (g + 1) exp) := by
      intro g
      unfold parseLongInteger
      generalize (2 : Nat) ^ 1024 = big
      tr [parseDecimal_t, parseExponent_t, f64FromParts_t, ih]
      bd [f64FromParts_t]
    cases f' with
    | zero => exact TrK.right_fuel (main 0).frame rfl
    | succ g => exact main g

theorem parseNumTail_t {cfg : Cfg} {f f' radix : Nat} {pos : Bool} {sig : Nat} :
    TrK 0 (parseNumTail cfg f radix pos sig) (parseNumTail cfg f' radix pos sig) := by
  unfold parseNumTail
  tr [parseDecimal_t, parseExponent_t]
  bd []

theorem numLoop_t {cfg : Cfg} {radix : Nat} {pos : Bool} {f f' res : Nat} :
    TrK 0 (numLoop cfg radix pos f res) (numLoop cfg radix pos f' res) := by
  induction f generalizing f' res with
  | zero => exact TrK.fuel0 rfl
  | succ f ih =>
    have main : ∀ g, TrK 0 (numLoop cfg radix pos (f + 1) res) (numLoop cfg radix pos (g + 1) res) := by
      intro g
      unfold numLoop
      tr [parseNumTail_t, parseLongInteger_t, ih]
      bd [parseNumTail_t]
    cases f' with
    | zero => exact TrK.right_fuel (main 0).frame rfl
    | succ g => exact main g

theorem parseNumLiteral_t {cfg : Cfg} {f f' radix : Nat} {pos : Bool} :
    TrK 0 (parseNumLiteral cfg f radix pos) (parseNumLiteral cfg f' radix pos) := by
  unfold parseNumLiteral
  tr [numLoop_t]

theorem parseRadixLiteral_t {cfg : Cfg} {f f' radix : Nat} :
    TrK 0 (parseRadixLiteral cfg f radix) (parseRadixLiteral cfg f' radix) := by
  unfold parseRadixLiteral
  tr [parseNumLiteral_t]
  bd [parseNumLiteral_t]

theorem expectNumberEnd_t {n : Number} : TrK 0 (expectNumberEnd n) (expectNumberEnd n) := by
  unfold expectNumberEnd
  tr []
  bd []

theorem parseNumToken_t {cfg : Cfg} {f f' : Nat} {pos : Bool} :
    TrK 0 (parseNumToken cfg f pos) (parseNumToken cfg f' pos) := by
  unfold parseNumToken
  tr [parseNumLiteral_t, expectNumberEnd_t]

theorem parseRadixToken_t {cfg : Cfg} {f f' radix : Nat} :
    TrK 0 (parseRadixToken cfg f radix) (parseRadixToken cfg f' radix) := by
  unfold parseRadixToken
  tr [parseRadixLiteral_t, expectNumberEnd_t]

theorem parseNumber_t {cfg : Cfg} {f f' : Nat} : TrK 0 (parseNumber cfg f) (parseNumber cfg f') := by
  unfold parseNumber
  tr [parseRadixLiteral_t]
  bd [parseRadixLiteral_t]

theorem expectIdent_t {k : Nat} {cs : List UInt8} : TrK k (expectIdent cs) (expectIdent cs) := by
  induction cs with
  | nil => unfold expectIdent; tr []
  | cons c cs ih => unfold expectIdent; tr [ih]

theorem parseSymbolBytes_t {scratch : List UInt8} :
    TrK 0 (parseSymbolBytes scratch) (parseSymbolBytes scratch) := by
  rw [PrefixDet.parseSymbolBytes_eq]
  tr [scan_t (symLen_scanner0 _)]
  bd []

theorem parseSignDotSymbol_t {cfg : Cfg} {pfx : List UInt8} :
    TrK 0 (parseSignDotSymbol cfg pfx) (parseSignDotSymbol cfg pfx) := by
  unfold parseSignDotSymbol
  tr [parseSymbolBytes_t]
  bd [parseSymbolBytes_t]

theorem parseSignToken_t {cfg : Cfg} {f f' : Nat} {sign : UInt8} {pos : Bool} :
    TrK 0 (parseSignToken cfg f sign pos) (parseSignToken cfg f' sign pos) := by
  unfold parseSignToken
  tr [parseSymbolBytes_t, parseSignDotSymbol_t, parseNumToken_t]
  bd [parseSymbolBytes_t]

theorem badByte_t {k : Nat} {m' : P Token} : TrK k PrefixDet.badByte m' :=
  TrK.of_neverOk (NeverOk.bind fun _ => NeverOk.bind fun _ => NeverOk.rawErr)

theorem parseToken_t {cfg : Cfg} {f f' : Nat} {pk : UInt8} :
    TrK 0 (parseToken cfg f pk) (parseToken cfg f' pk) := by
  unfold parseToken
  tr [expectIdent_t, parseSymbolBytes_t, parseRadixToken_t, parseR6rsChar_t,
    parseSignToken_t, parseNumToken_t, parseR6rsStr_t, parseElispStr_t, parseElispChar_t,
    decodeUtf8Sequence_t, badByte_t]
  bd []

end Reparse
end Parse
end Lexpr
