/-
  DialectStructRT — the structural round trip (lists, dotted lists, vectors in both spellings,
  `()`) for every compatible printer / parser option pair, on top of the atom theorems of
  `DialectRT.lean` and the loop lemmas of `ListRT.lean`.

  `ListRT.lean` proves the structure for the default printer options against the default parser
  options.  Here the printer options `p` are arbitrary (vectors as `#(`…`)` or `[`…`]`), the parser
  options `cfg.opts` are arbitrary but `Spec.Compatible` with `p`, and the value read back is
  `Spec.fold p cfg.opts v`.  As in `ListRT.lean` the source is a non-faulty slice.
-/
import LexprModel.Proofs.ListRTGlue
import LexprModel.Proofs.DialectRT
namespace Lexpr
namespace Parse
namespace ListRT
open Print Spec

/-! ### vector delimiters -/

/-- the byte that closes a vector -/
def vclose (p : Print.Options) : UInt8 :=
  match p.vector with | .brackets => 93 | .octothorpe => 41

/-- the text that opens a vector -/
def vopen (p : Print.Options) : List UInt8 :=
  match p.vector with | .brackets => [91] | .octothorpe => [35, 40]

theorem vclose_cases (p : Print.Options) : vclose p = 41 ∨ vclose p = 93 := by
  unfold vclose; cases p.vector <;> simp

theorem vecClose_eq (p : Print.Options) : vecClose p = [vclose p] := by
  unfold vecClose vclose; cases p.vector <;> decide

theorem vecOpen_eq (p : Print.Options) : vecOpen p = vopen p := by
  unfold vecOpen vopen; cases p.vector <;> decide

theorem close_facts (t : UInt8) (ht : t = 41 ∨ t = 93) :
    isTrivia t = false ∧ (t == 59) = false ∧ (t == 41 || t == 93) = true ∧ isFollow t = true := by
  rcases ht with rfl | rfl <;> decide

/-! ### steps with a general closing byte -/

theorem endSeq_runsP (t : UInt8) (ht : t = 41 ∨ t = 93) (s : St) (h : Good s) (rest : List UInt8)
    (hr : s.rd.rest = t :: rest) : Runs (endSeq t) s () rest := by
  obtain ⟨c1, c2, -, -⟩ := close_facts t ht
  obtain ⟨s1, e1, r1, g1, d1⟩ := ws_start s h t rest hr c1 c2
  obtain ⟨s2, e2, r2, g2, d2⟩ := discard_runs s1 g1 t rest r1
  refine ⟨s2, ?_, r2, g2, d2.trans d1⟩
  simp [endSeq, e1, e2]

theorem parseVector_closeP (cfg : Cfg) (t : UInt8) (ht : t = 41 ∨ t = 93) (f : Nat) (s : St)
    (acc : List Value) (rest : List UInt8) (h : Good s) (hr : s.rd.rest = t :: rest) :
    Runs (parseVector cfg (f + 1) t acc) s acc (t :: rest) := by
  obtain ⟨c1, c2, -, -⟩ := close_facts t ht
  obtain ⟨s1, e1, r1, g1, d1⟩ := ws_start s h t rest hr c1 c2
  refine ⟨s1, ?_, r1, g1, d1⟩
  simp [parseVector, e1, ht]

theorem parseVector_elemP (cfg : Cfg) (t : UInt8) (f : Nat) (s : St) (acc : List Value) (c : UInt8)
    (tl rest' rest'' : List UInt8) (a : Value) (w : List Value)
    (hws : Runs parseWhitespace s (some c) (c :: tl))
    (hc1 : c ≠ 41) (hc2 : c ≠ 93)
    (hv : ∀ s1, Good s1 → s1.rd.rest = c :: tl → s1.depth = s.depth →
      Runs (nextValue cfg f) s1 (some a) rest')
    (hk : ∀ s2, Good s2 → s2.rd.rest = rest' → s2.depth = s.depth →
      Runs (parseVector cfg f t (acc ++ [a])) s2 w rest'') :
    Runs (parseVector cfg (f + 1) t acc) s w rest'' := by
  obtain ⟨s1, e1, r1, g1, d1⟩ := hws
  obtain ⟨s2, e2, r2, g2, d2⟩ := hv s1 g1 r1 d1
  obtain ⟨s3, e3, r3, g3, d3⟩ := hk s2 g2 r2 (d2.trans d1)
  refine ⟨s3, ?_, r3, g3, by omega⟩
  simp [parseVector, e1, hc1, hc2, e2, e3]

theorem parseToken_lbracket (cfg : Cfg) (tf : Nat) (s : St) (h : Good s) (tl : List UInt8)
    (hb : cfg.opts.brackets = .vector) (hr : s.rd.rest = 91 :: tl) :
    Runs (parseToken cfg tf 91) s (.vecOpen 93) tl := by
  obtain ⟨s1, e1, r1, g1, d1⟩ := discard_runs s h 91 tl hr
  refine ⟨s1, ?_, r1, g1, d1⟩
  simp [parseToken, isDigit, e1, hb]

/-- `next_value` at the opening of a vector (`#(` or, with bracket vectors, `[`): reduces to the
    element loop. -/
theorem nextValue_vecOpenP (cfg : Cfg) (p : Print.Options) (f : Nat) (s : St)
    (tl rest : List UInt8) (xs : List Value)
    (hb : p.vector = .brackets → cfg.opts.brackets = .vector)
    (h : Good s) (hr : s.rd.rest = vopen p ++ tl) (hd : 2 ≤ s.depth)
    (hin : ∀ s1, Good s1 → s1.rd.rest = tl → s1.depth + 1 = s.depth →
      Runs (parseVector cfg f (vclose p) []) s1 xs (vclose p :: rest)) :
    Runs (nextValue cfg (f + 1)) s (some (.vector xs)) rest := by
  cases hv : p.vector
  · -- `#(`
    have e1 : vopen p = [35, 40] := by simp [vopen, hv]
    have e2 : vclose p = 41 := by simp [vclose, hv]
    rw [e1] at hr; rw [e2] at hin
    exact nextValue_vecOpen cfg f s tl rest xs h (by simpa using hr) hd hin
  · -- `[`
    have e1 : vopen p = [91] := by simp [vopen, hv]
    have e2 : vclose p = 93 := by simp [vclose, hv]
    rw [e1] at hr; rw [e2] at hin
    have hr' : s.rd.rest = 91 :: tl := by simpa using hr
    obtain ⟨s1, e1, r1, g1, d1⟩ := ws_start s h 91 tl hr' (by decide) (by decide)
    obtain ⟨s2, e2, r2, g2, d2⟩ :=
      parseToken_lbracket cfg (s1.rd.rest.length + 1) s1 g1 tl (hb hv) r1
    have hd2 : 2 ≤ s2.depth := by omega
    obtain ⟨s4, e4, r4, g4, d4⟩ := hin { s2 with depth := s2.depth - 1 } g2 r2 (by simp; omega)
    have g5 : Good { s4 with depth := s4.depth + 1 } := g4
    obtain ⟨s6, e6, r6, g6, d6⟩ :=
      endSeq_runsP 93 (Or.inr rfl) { s4 with depth := s4.depth + 1 } g5 rest r4
    refine ⟨s6, ?_, r6, g6, ?_⟩
    · simp [nextValue, e1, tokenFuel, e2, enter_ok s2 hd2, attempt, e4, leave, e6]
    · simp at d4 d6; omega

/-! ### list elements that start with `.` under arbitrary parser options -/

theorem symbolToken_cases' (o : Options) (name : List UInt8) :
    symbolToken o name = .symbol name ∨ symbolToken o name = .keyword name.dropLast := by
  unfold symbolToken
  split
  · exact .inr rfl
  · exact .inl rfl

/-- `next_value` on a name that starts with `.`: the computation `parse_list` performs inline. -/
theorem nextValue_dotP (cfg : Cfg) (f : Nat) (s : St) (h : Good s)
    (tl : List UInt8) (hr : s.rd.rest = 46 :: tl) :
    nextValue cfg (f + 1) s =
      match parseSymbolBytes [46] { s with rd := s.rd.consume 1 } with
      | .ok name s' => .ok (some (symbolValue cfg.opts name)) s'
      | .err e s' => .err e s'
      | .panic p => .panic p
      | .fuel => .fuel := by
  have hw := parseWhitespace_good s h
  rw [hr, wsLen_start 46 tl (by decide) (by decide)] at hw
  simp only [List.drop_zero, List.head?_cons] at hw
  rw [← psb_dot s h tl hr]
  simp only [nextValue, bind_apply, hw, tokenFuel]
  simp [parseToken, isDigit, isAsciiAlpha, isSymbolExtended]
  cases parseSymbolBytes [] { s with rd := s.rd.consume 0 } with
  | ok name s' =>
    rcases symbolToken_cases' cfg.opts name with hc | hc <;> simp [symbolValue, hc, Token.atom]
  | err e s' => simp
  | panic p => simp
  | fuel => simp

theorem parseList_dotsymP (cfg : Cfg) (f : Nat) (s : St)
    (acc : List Value) (b : UInt8) (tl rest' rest'' : List UInt8) (a w : Value)
    (hws : Runs parseWhitespace s (some 46) (46 :: b :: tl))
    (hb0 : b ≠ 0) (hbd : isDelimiter b = false)
    (hv : ∀ s1, Good s1 → s1.rd.rest = 46 :: b :: tl → s1.depth = s.depth →
      Runs (nextValue cfg (f + 1)) s1 (some a) rest')
    (hk : ∀ s2, Good s2 → s2.rd.rest = rest' → s2.depth = s.depth →
      Runs (parseList cfg (f + 1) 41 (acc ++ [a])) s2 w rest'') :
    Runs (parseList cfg (f + 2) 41 acc) s w rest'' := by
  obtain ⟨s1, e1, r1, g1, d1⟩ := hws
  obtain ⟨s2, e2, r2, g2, d2⟩ := hv s1 g1 r1 d1
  obtain ⟨s3, e3, r3, g3, d3⟩ := hk s2 g2 r2 (d2.trans d1)
  refine ⟨s3, ?_, r3, g3, by omega⟩
  rw [nextValue_dotP cfg f s1 g1 _ r1] at e2
  have gB : Good { s1 with rd := s1.rd.consume 1 } := by
    obtain ⟨hm, hf⟩ := g1
    exact ⟨by simp [hm], by simp [hf]⟩
  have eD : discard s1 = .ok () { s1 with rd := s1.rd.consume 1 } := by simp [discard, r1]
  have eP : peekOrNull { s1 with rd := s1.rd.consume 1 } = .ok b { s1 with rd := s1.rd.consume 1 } := by
    simp [peekOrNull, peek_good _ gB, r1]
  cases hp : parseSymbolBytes [46] { s1 with rd := s1.rd.consume 1 } with
  | ok name s' =>
    rw [hp] at e2
    simp only [Res.ok.injEq, Option.some.injEq] at e2
    obtain ⟨ea, es⟩ := e2
    subst es
    rw [parseList]
    simp [e1, eD, eP, hb0, hbd, hp, ea, e3]
  | err e s' => rw [hp] at e2; simp at e2
  | panic p => rw [hp] at e2; simp at e2
  | fuel => rw [hp] at e2; simp at e2

/-- one round of the list loop on any element -/
theorem list_elem_stepP (cfg : Cfg) (F : Nat) (s : St)
    (acc : List Value) (a w : Value) (pre t rest' rest'' : List UInt8)
    (h : Good s) (hpre : pre = [] ∨ pre = [32]) (hr : s.rd.rest = pre ++ (t ++ rest'))
    (hhead : ElemHead t)
    (hv : ∀ s1, Good s1 → s1.rd.rest = t ++ rest' → s1.depth = s.depth →
      Runs (nextValue cfg (F + 1)) s1 (some a) rest')
    (hk : ∀ s2, Good s2 → s2.rd.rest = rest' → s2.depth = s.depth →
      Runs (parseList cfg (F + 1) 41 (acc ++ [a])) s2 w rest'') :
    Runs (parseList cfg (F + 2) 41 acc) s w rest'' := by
  obtain ⟨c, tl, ht, h1, h2, h3, h4, h5⟩ := hhead.append rest'
  rw [ht] at hr hv
  have h2' : (c == 59) = false := by simp [h2]
  have hws : Runs parseWhitespace s (some c) (c :: tl) := by
    rcases hpre with rfl | rfl
    · exact ws_start s h c tl hr h1 h2'
    · exact ws_space s h c tl hr h1 h2'
  by_cases hc : c = 46
  · subst hc
    obtain ⟨b, tl', rfl, hb0, hbd⟩ := h5 rfl
    exact parseList_dotsymP cfg F s acc b tl' rest' rest'' a w hws hb0 hbd hv hk
  · exact parseList_elem cfg (F + 1) s acc c tl rest' rest'' a w hws h3 h4 hc hv hk

/-- one round of the vector loop on any element -/
theorem vec_elem_stepP (cfg : Cfg) (t : UInt8) (F : Nat) (s : St)
    (acc : List Value) (a : Value) (w : List Value) (pre tx rest' rest'' : List UInt8)
    (h : Good s) (hpre : pre = [] ∨ pre = [32]) (hr : s.rd.rest = pre ++ (tx ++ rest'))
    (hhead : ElemHead tx)
    (hv : ∀ s1, Good s1 → s1.rd.rest = tx ++ rest' → s1.depth = s.depth →
      Runs (nextValue cfg F) s1 (some a) rest')
    (hk : ∀ s2, Good s2 → s2.rd.rest = rest' → s2.depth = s.depth →
      Runs (parseVector cfg F t (acc ++ [a])) s2 w rest'') :
    Runs (parseVector cfg (F + 1) t acc) s w rest'' := by
  obtain ⟨c, tl, ht, h1, h2, h3, h4, h5⟩ := hhead.append rest'
  rw [ht] at hr hv
  have h2' : (c == 59) = false := by simp [h2]
  have hws : Runs parseWhitespace s (some c) (c :: tl) := by
    rcases hpre with rfl | rfl
    · exact ws_start s h c tl hr h1 h2'
    · exact ws_space s h c tl hr h1 h2'
  exact parseVector_elemP cfg t F s acc c tl rest' rest'' a w hws h3 h4 hv hk

/-! ### the printed text under arbitrary printer options -/

theorem textP_cons (p : Print.Options) (ryu : Nat → List UInt8) (a d : Value) :
    text p ryu (.cons a d) = 40 :: (text p ryu a ++ (flatten (emitsTail p ryu d) ++ [41])) := by
  simp [text, emits, flatten_cons_all, flatten_append, asc_lparen, asc_rparen, flatten_nil]

theorem textP_vector (p : Print.Options) (ryu : Nat → List UInt8) (xs : List Value) :
    text p ryu (.vector xs) = vopen p ++ (flatten (emitsSeq p ryu true xs) ++ [vclose p]) := by
  simp [text, emits, flatten_cons_all, flatten_append, vecOpen_eq, vecClose_eq, flatten_nil]

theorem textP_null (p : Print.Options) (ryu : Nat → List UInt8) : text p ryu .null = [40, 41] := by
  simp only [text, emits, atomEmits, flatten_cons_all, flatten_nil]; decide

theorem tailP_null (p : Print.Options) (ryu : Nat → List UInt8) :
    flatten (emitsTail p ryu .null) = [] := by
  simp [emitsTail, flatten_nil]

theorem tailP_cons (p : Print.Options) (ryu : Nat → List UInt8) (a d : Value) :
    flatten (emitsTail p ryu (.cons a d)) =
      32 :: (text p ryu a ++ flatten (emitsTail p ryu d)) := by
  simp [text, emitsTail, flatten_cons_all, flatten_append, asc_space]

theorem seqP_nil (p : Print.Options) (ryu : Nat → List UInt8) (first : Bool) :
    flatten (emitsSeq p ryu first []) = [] := by
  simp [emitsSeq, flatten_nil]

theorem seqP_true (p : Print.Options) (ryu : Nat → List UInt8) (x : Value) (xs : List Value) :
    flatten (emitsSeq p ryu true (x :: xs)) =
      text p ryu x ++ flatten (emitsSeq p ryu false xs) := by
  simp [text, emitsSeq, flatten_append]

theorem seqP_false (p : Print.Options) (ryu : Nat → List UInt8) (x : Value) (xs : List Value) :
    flatten (emitsSeq p ryu false (x :: xs)) =
      32 :: (text p ryu x ++ flatten (emitsSeq p ryu false xs)) := by
  simp [text, emitsSeq, flatten_append, flatten_cons_all, asc_space]

theorem tailP_dotted (p : Print.Options) (ryu : Nat → List UInt8) (d : Value)
    (h1 : d.isCons = false) (h2 : d ≠ .null) :
    flatten (emitsTail p ryu d) = 32 :: 46 :: 32 :: text p ryu d := by
  cases d <;>
    simp_all [Value.isCons, text, emits, emitsTail, flatten_cons_all, flatten_append, asc_space, asc_dot]

theorem textP_atom (p : Print.Options) (ryu : Nat → List UInt8) (v : Value) (h1 : v.isCons = false)
    (h2 : v.isVector = false) : text p ryu v = atomTextP p ryu v := by
  cases v <;> simp_all [Value.isCons, Value.isVector, text, emits, atomTextP]

/-! ### the hypotheses on atoms, the depth measure -/

mutual
/-- number of `enter`s pending at the deepest point while the text of `v` is read: one per list
    or vector, also for `()` — which is also how `Nil` is written with `NilSyntax::EmptyList` —
    not counting along the cdr chain -/
def nestingP (p : Print.Options) : Value → Nat
  | .cons a d => 1 + max (nestingP p a) (nestingTailP p d)
  | .vector xs => 1 + nestingSeqP p xs
  | .null => 1
  | .nil => if p.nil = .emptyList then 1 else 0
  | .bool _ => 0
  | .number _ => 0
  | .char _ => 0
  | .string _ => 0
  | .symbol _ => 0
  | .keyword _ => 0
  | .bytes _ => 0
def nestingTailP (p : Print.Options) : Value → Nat
  | .cons a d => max (nestingP p a) (nestingTailP p d)
  | .vector xs => 1 + nestingSeqP p xs
  | .null => 0
  | .nil => if p.nil = .emptyList then 1 else 0
  | .bool _ => 0
  | .number _ => 0
  | .char _ => 0
  | .string _ => 0
  | .symbol _ => 0
  | .keyword _ => 0
  | .bytes _ => 0
def nestingSeqP (p : Print.Options) : List Value → Nat
  | [] => 0
  | x :: xs => max (nestingP p x) (nestingSeqP p xs)
end

/-- `v` is an atom (not a pair, vector or the empty list) whose text under `p` is read back as
    `fold p cfg.opts v` in every follow context, from every non-faulty slice state. -/
def AtomOKP (p : Print.Options) (cfg : Cfg) (ryu : Nat → List UInt8) (v : Value) : Prop :=
  v.isCons = false ∧ v.isVector = false ∧ v ≠ .null ∧ ElemHead (atomTextP p ryu v) ∧
  ∀ (s : St) (rest : List UInt8) (fuel : Nat), Follow rest → Good s →
    s.rd.rest = atomTextP p ryu v ++ rest → fuel ≥ s.rd.rest.length + 2 →
    nestingP p v + 1 ≤ s.depth →
    Runs (nextValue cfg fuel) s (some (fold p cfg.opts v)) rest

mutual
def AllAtomsOKP (p : Print.Options) (cfg : Cfg) (ryu : Nat → List UInt8) : Value → Prop
  | .cons a d => AllAtomsOKP p cfg ryu a ∧ AllAtomsOKP p cfg ryu d
  | .vector xs => AllAtomsOKSeqP p cfg ryu xs
  | .null => True
  | .nil => AtomOKP p cfg ryu .nil
  | .bool b => AtomOKP p cfg ryu (.bool b)
  | .number n => AtomOKP p cfg ryu (.number n)
  | .char c => AtomOKP p cfg ryu (.char c)
  | .string x => AtomOKP p cfg ryu (.string x)
  | .symbol x => AtomOKP p cfg ryu (.symbol x)
  | .keyword x => AtomOKP p cfg ryu (.keyword x)
  | .bytes x => AtomOKP p cfg ryu (.bytes x)
def AllAtomsOKSeqP (p : Print.Options) (cfg : Cfg) (ryu : Nat → List UInt8) : List Value → Prop
  | [] => True
  | x :: xs => AllAtomsOKP p cfg ryu x ∧ AllAtomsOKSeqP p cfg ryu xs
end

/-! ### the three statements proved by mutual recursion -/

def ValueRTP (p : Print.Options) (cfg : Cfg) (ryu : Nat → List UInt8) (v : Value) : Prop :=
  ∀ (s : St) (rest : List UInt8) (fuel : Nat), Follow rest → Good s →
    s.rd.rest = text p ryu v ++ rest → fuel ≥ 2 * s.rd.rest.length + 3 →
    nestingP p v + 1 ≤ s.depth → Runs (nextValue cfg fuel) s (some (fold p cfg.opts v)) rest

def TailRTP (p : Print.Options) (cfg : Cfg) (ryu : Nat → List UInt8) (d : Value) : Prop :=
  ∀ (s : St) (rest : List UInt8) (fuel : Nat) (acc : List Value), acc ≠ [] → Good s →
    s.rd.rest = flatten (emitsTail p ryu d) ++ 41 :: rest → fuel ≥ 2 * s.rd.rest.length + 3 →
    nestingTailP p d + 1 ≤ s.depth →
    Runs (parseList cfg fuel 41 acc) s (Value.append acc (fold p cfg.opts d)) (41 :: rest)

def SeqRTP (p : Print.Options) (cfg : Cfg) (ryu : Nat → List UInt8) (first : Bool)
    (xs : List Value) : Prop :=
  ∀ (s : St) (rest : List UInt8) (fuel : Nat) (acc : List Value), Good s →
    s.rd.rest = flatten (emitsSeq p ryu first xs) ++ vclose p :: rest →
    fuel ≥ 2 * s.rd.rest.length + (if first then 4 else 3) →
    nestingSeqP p xs + 1 ≤ s.depth →
    Runs (parseVector cfg fuel (vclose p) acc) s (acc ++ foldList p cfg.opts xs)
      (vclose p :: rest)

theorem fold_cons (p : Print.Options) (r : Options) (a d : Value) :
    fold p r (.cons a d) = .cons (fold p r a) (fold p r d) := by simp [fold]
theorem fold_vector (p : Print.Options) (r : Options) (xs : List Value) :
    fold p r (.vector xs) = .vector (foldList p r xs) := by simp [fold]
theorem fold_null (p : Print.Options) (r : Options) : fold p r .null = .null := by simp [fold]
theorem foldList_nil (p : Print.Options) (r : Options) : foldList p r [] = [] := by simp [foldList]
theorem foldList_cons (p : Print.Options) (r : Options) (x : Value) (xs : List Value) :
    foldList p r (x :: xs) = fold p r x :: foldList p r xs := by simp [foldList]

/-! ### the cases of the mutual recursion -/

theorem tail_followP (p : Print.Options) (ryu : Nat → List UInt8) (d : Value) (rest : List UInt8) :
    Follow (flatten (emitsTail p ryu d) ++ 41 :: rest) := by
  by_cases h1 : d.isCons = true
  · cases d <;> simp [Value.isCons] at h1
    rw [tailP_cons]; exact follow_cons _ _ (by decide)
  · by_cases h2 : d = .null
    · subst h2; rw [tailP_null]; exact follow_cons _ _ (by decide)
    · rw [tailP_dotted p ryu d (by simpa using h1) h2]; exact follow_cons _ _ (by decide)

theorem seq_followP (p : Print.Options) (ryu : Nat → List UInt8) (xs : List Value)
    (rest : List UInt8) :
    Follow (flatten (emitsSeq p ryu false xs) ++ vclose p :: rest) := by
  cases xs with
  | nil => rw [seqP_nil]; exact follow_cons _ _ (close_facts _ (vclose_cases p)).2.2.2
  | cons x xs => rw [seqP_false]; exact follow_cons _ _ (by decide)

theorem null_rtP (p : Print.Options) (cfg : Cfg) (ryu : Nat → List UInt8) :
    ValueRTP p cfg ryu .null := by
  intro s rest fuel _ hg hr hfu hd
  rw [textP_null] at hr
  rw [fold_null]
  obtain ⟨F, rfl⟩ : ∃ F, fuel = F + 2 := ⟨fuel - 2, by omega⟩
  simp only [nestingP] at hd
  refine nextValue_listOpen cfg (F + 1) s (41 :: rest) rest .null hg (by simpa using hr) (by omega) ?_
  intro s1 g1 r1 _
  exact parseList_close cfg F s1 [] rest g1 r1

theorem cons_rtP (p : Print.Options) (cfg : Cfg) (ryu : Nat → List UInt8)
    (a d : Value) (hA : ValueRTP p cfg ryu a) (hhead : ElemHead (text p ryu a))
    (hD : TailRTP p cfg ryu d) : ValueRTP p cfg ryu (.cons a d) := by
  intro s rest fuel _ hg hr hfu hd
  rw [textP_cons] at hr
  rw [fold_cons]
  have hr' : s.rd.rest = 40 :: (text p ryu a ++ (flatten (emitsTail p ryu d) ++ 41 :: rest)) := by
    simpa using hr
  have hlen := congrArg List.length hr'
  simp only [List.length_cons, List.length_append] at hlen
  obtain ⟨F, rfl⟩ : ∃ F, fuel = F + 3 := ⟨fuel - 3, by omega⟩
  simp only [nestingP] at hd
  refine nextValue_listOpen cfg (F + 2) s _ rest _ hg hr' (by omega) ?_
  intro s1 g1 r1 d1
  refine list_elem_stepP cfg F s1 [] (fold p cfg.opts a) _ [] (text p ryu a)
    (flatten (emitsTail p ryu d) ++ 41 :: rest) (41 :: rest) g1 (Or.inl rfl) (by simpa using r1)
    hhead ?_ ?_
  · intro s2 g2 r2 d2
    refine hA s2 _ (F + 1) (tail_followP p ryu d rest) g2 r2 ?_ (by omega)
    rw [r2]; simp only [List.length_cons, List.length_append]; omega
  · intro s3 g3 r3 d3
    have := hD s3 rest (F + 1) [fold p cfg.opts a] (by simp) g3 r3
      (by rw [r3]; simp only [List.length_cons, List.length_append]; omega) (by omega)
    simpa [Value.append] using this

theorem vector_rtP (p : Print.Options) (cfg : Cfg) (ryu : Nat → List UInt8) (xs : List Value)
    (hb : p.vector = .brackets → cfg.opts.brackets = .vector)
    (hS : SeqRTP p cfg ryu true xs) : ValueRTP p cfg ryu (.vector xs) := by
  intro s rest fuel _ hg hr hfu hd
  rw [textP_vector] at hr
  rw [fold_vector]
  have hr' : s.rd.rest = vopen p ++ (flatten (emitsSeq p ryu true xs) ++ vclose p :: rest) := by
    simpa using hr
  have hlen := congrArg List.length hr'
  simp only [List.length_cons, List.length_append] at hlen
  have hvo : 1 ≤ (vopen p).length := by unfold vopen; cases p.vector <;> simp
  obtain ⟨F, rfl⟩ : ∃ F, fuel = F + 1 := ⟨fuel - 1, by omega⟩
  simp only [nestingP] at hd
  refine nextValue_vecOpenP cfg p F s _ rest _ hb hg hr' (by omega) ?_
  intro s1 g1 r1 d1
  have := hS s1 rest F [] g1 r1
    (by rw [r1]; simp only [List.length_cons, List.length_append, if_true]; omega) (by omega)
  simpa using this

theorem nestingP_atom (p : Print.Options) (v : Value) (h1 : v.isCons = false)
    (h2 : v.isVector = false) (h3 : v ≠ .null) : nestingTailP p v = nestingP p v := by
  cases v <;> simp_all [Value.isCons, Value.isVector, nestingP, nestingTailP]

theorem atom_rtP (p : Print.Options) (cfg : Cfg) (ryu : Nat → List UInt8) (v : Value)
    (h : AtomOKP p cfg ryu v) : ValueRTP p cfg ryu v := by
  obtain ⟨h1, h2, h3, _, hrun⟩ := h
  intro s rest fuel hf hg hr hfu hd
  rw [textP_atom p ryu v h1 h2] at hr
  exact hrun s rest fuel hf hg hr (by omega) hd

theorem tail_null_rtP (p : Print.Options) (cfg : Cfg) (ryu : Nat → List UInt8) :
    TailRTP p cfg ryu .null := by
  intro s rest fuel acc _ hg hr hfu hd
  rw [tailP_null] at hr
  rw [fold_null]
  obtain ⟨F, rfl⟩ : ∃ F, fuel = F + 1 := ⟨fuel - 1, by omega⟩
  have := parseList_close cfg F s acc rest hg (by simpa using hr)
  simpa [Value.list] using this

theorem tail_cons_rtP (p : Print.Options) (cfg : Cfg) (ryu : Nat → List UInt8)
    (a d : Value) (hA : ValueRTP p cfg ryu a) (hhead : ElemHead (text p ryu a))
    (hD : TailRTP p cfg ryu d) : TailRTP p cfg ryu (.cons a d) := by
  intro s rest fuel acc _ hg hr hfu hd
  rw [tailP_cons] at hr
  rw [fold_cons]
  have hr' : s.rd.rest =
      [32] ++ (text p ryu a ++ (flatten (emitsTail p ryu d) ++ 41 :: rest)) := by
    simpa using hr
  have hlen := congrArg List.length hr'
  simp only [List.length_cons, List.length_append, List.length_nil] at hlen
  obtain ⟨F, rfl⟩ : ∃ F, fuel = F + 2 := ⟨fuel - 2, by omega⟩
  simp only [nestingTailP] at hd
  refine list_elem_stepP cfg F s acc (fold p cfg.opts a) _ [32] (text p ryu a)
    (flatten (emitsTail p ryu d) ++ 41 :: rest) (41 :: rest) hg (Or.inr rfl) hr' hhead ?_ ?_
  · intro s2 g2 r2 d2
    refine hA s2 _ (F + 1) (tail_followP p ryu d rest) g2 r2 ?_ (by omega)
    rw [r2]; simp only [List.length_cons, List.length_append]; omega
  · intro s3 g3 r3 d3
    have := hD s3 rest (F + 1) (acc ++ [fold p cfg.opts a]) (by simp) g3 r3
      (by rw [r3]; simp only [List.length_cons, List.length_append]; omega) (by omega)
    rwa [append_snoc] at this

theorem tail_dotted_rtP (p : Print.Options) (cfg : Cfg) (ryu : Nat → List UInt8) (d : Value)
    (hD : ValueRTP p cfg ryu d) (hhead : ElemHead (text p ryu d)) (h1 : d.isCons = false)
    (h2 : d ≠ .null) (hn : nestingTailP p d = nestingP p d) : TailRTP p cfg ryu d := by
  intro s rest fuel acc hacc hg hr hfu hd
  rw [tailP_dotted p ryu d h1 h2] at hr
  obtain ⟨c, tl, ht, hc1, hc2, -, -, -⟩ := hhead
  have hr' : s.rd.rest = 32 :: 46 :: 32 :: (c :: (tl ++ 41 :: rest)) := by
    simpa [ht] using hr
  have hlen := congrArg List.length hr'
  simp only [List.length_cons, List.length_append] at hlen
  obtain ⟨F, rfl⟩ : ∃ F, fuel = F + 1 := ⟨fuel - 1, by omega⟩
  refine parseList_dotted cfg F s acc _ rest (fold p cfg.opts d) hg hr' hacc ?_
  intro s1 g1 r1 d1
  obtain ⟨s2, g2, r2, d2, heq⟩ := nextValue_skip cfg s1 g1 c _ r1 hc1 (by simp [hc2])
  obtain ⟨s3, e3, r3, g3, d3⟩ := hD s2 (41 :: rest) F (follow_cons _ _ (by decide)) g2
    (by rw [r2, ht]; simp)
    (by rw [r2]; simp only [List.length_cons, List.length_append]; omega) (by omega)
  exact ⟨s3, (heq F).trans e3, r3, g3, by omega⟩

theorem seq_nil_rtP (p : Print.Options) (cfg : Cfg) (ryu : Nat → List UInt8) (first : Bool) :
    SeqRTP p cfg ryu first [] := by
  intro s rest fuel acc hg hr hfu hd
  rw [seqP_nil] at hr
  rw [foldList_nil]
  obtain ⟨F, rfl⟩ : ∃ F, fuel = F + 1 := ⟨fuel - 1, by cases first <;> simp at hfu <;> omega⟩
  have := parseVector_closeP cfg (vclose p) (vclose_cases p) F s acc rest hg (by simpa using hr)
  simpa using this

theorem seq_cons_rtP (p : Print.Options) (cfg : Cfg) (ryu : Nat → List UInt8) (first : Bool)
    (x : Value) (xs : List Value) (hX : ValueRTP p cfg ryu x) (hhead : ElemHead (text p ryu x))
    (hS : SeqRTP p cfg ryu false xs) : SeqRTP p cfg ryu first (x :: xs) := by
  intro s rest fuel acc hg hr hfu hd
  simp only [nestingSeqP] at hd
  rw [foldList_cons]
  cases first with
  | true =>
    rw [seqP_true] at hr
    have hr' : s.rd.rest =
        [] ++ (text p ryu x ++ (flatten (emitsSeq p ryu false xs) ++ vclose p :: rest)) := by
      simpa using hr
    have hlen := congrArg List.length hr'
    simp only [List.length_cons, List.length_append, List.length_nil] at hlen
    simp only [if_true] at hfu
    obtain ⟨F, rfl⟩ : ∃ F, fuel = F + 1 := ⟨fuel - 1, by omega⟩
    refine vec_elem_stepP cfg (vclose p) F s acc (fold p cfg.opts x) _ [] (text p ryu x)
      (flatten (emitsSeq p ryu false xs) ++ vclose p :: rest) (vclose p :: rest) hg (Or.inl rfl)
      hr' hhead ?_ ?_
    · intro s2 g2 r2 d2
      refine hX s2 _ F (seq_followP p ryu xs rest) g2 r2 ?_ (by omega)
      rw [r2]; simp only [List.length_cons, List.length_append]; omega
    · intro s3 g3 r3 d3
      have := hS s3 rest F (acc ++ [fold p cfg.opts x]) g3 r3
        (by rw [r3]; simp only [List.length_cons, List.length_append]; simp; omega) (by omega)
      simpa using this
  | false =>
    rw [seqP_false] at hr
    have hr' : s.rd.rest =
        [32] ++ (text p ryu x ++ (flatten (emitsSeq p ryu false xs) ++ vclose p :: rest)) := by
      simpa using hr
    have hlen := congrArg List.length hr'
    simp only [List.length_cons, List.length_append, List.length_nil] at hlen
    simp at hfu
    obtain ⟨F, rfl⟩ : ∃ F, fuel = F + 1 := ⟨fuel - 1, by omega⟩
    refine vec_elem_stepP cfg (vclose p) F s acc (fold p cfg.opts x) _ [32] (text p ryu x)
      (flatten (emitsSeq p ryu false xs) ++ vclose p :: rest) (vclose p :: rest) hg (Or.inr rfl)
      hr' hhead ?_ ?_
    · intro s2 g2 r2 d2
      refine hX s2 _ F (seq_followP p ryu xs rest) g2 r2 ?_ (by omega)
      rw [r2]; simp only [List.length_cons, List.length_append]; omega
    · intro s3 g3 r3 d3
      have := hS s3 rest F (acc ++ [fold p cfg.opts x]) g3 r3
        (by rw [r3]; simp only [List.length_cons, List.length_append]; simp; omega) (by omega)
      simpa using this

theorem atom_of_allP (p : Print.Options) (cfg : Cfg) (ryu : Nat → List UInt8) (v : Value)
    (h1 : v.isCons = false) (h2 : v.isVector = false) (h3 : v ≠ .null)
    (h : AllAtomsOKP p cfg ryu v) : AtomOKP p cfg ryu v := by
  cases v <;> simp_all [Value.isCons, Value.isVector, AllAtomsOKP]

theorem vopen_head (p : Print.Options) (tl : List UInt8) : ElemHead (vopen p ++ tl) := by
  unfold vopen
  cases p.vector
  · exact head_of_byte _ _ (by decide) (by decide) (by decide) (by decide) (by decide)
  · exact head_of_byte _ _ (by decide) (by decide) (by decide) (by decide) (by decide)

theorem text_headP (p : Print.Options) (cfg : Cfg) (ryu : Nat → List UInt8) (v : Value)
    (h : AllAtomsOKP p cfg ryu v) : ElemHead (text p ryu v) := by
  by_cases h1 : v.isCons = true
  · cases v <;> simp [Value.isCons] at h1
    rw [textP_cons]
    exact head_of_byte _ _ (by decide) (by decide) (by decide) (by decide) (by decide)
  by_cases h2 : v.isVector = true
  · cases v <;> simp [Value.isVector] at h2
    rw [textP_vector]
    exact vopen_head p _
  by_cases h3 : v = .null
  · subst h3; rw [textP_null]
    exact head_of_byte _ _ (by decide) (by decide) (by decide) (by decide) (by decide)
  have h1' : v.isCons = false := by simpa using h1
  have h2' : v.isVector = false := by simpa using h2
  rw [textP_atom p ryu v h1' h2']
  exact (atom_of_allP p cfg ryu v h1' h2' h3 h).2.2.2.1

theorem tail_atom_rtP (p : Print.Options) (cfg : Cfg) (ryu : Nat → List UInt8) (d : Value)
    (h : AtomOKP p cfg ryu d) : TailRTP p cfg ryu d := by
  refine tail_dotted_rtP p cfg ryu d (atom_rtP p cfg ryu d h) ?_ h.1 h.2.2.1
    (nestingP_atom p d h.1 h.2.1 h.2.2.1)
  rw [textP_atom p ryu d h.1 h.2.1]; exact h.2.2.2.1

mutual
theorem value_rtP (p : Print.Options) (cfg : Cfg) (ryu : Nat → List UInt8)
    (hb : p.vector = .brackets → cfg.opts.brackets = .vector) :
    ∀ v : Value, AllAtomsOKP p cfg ryu v → ValueRTP p cfg ryu v
  | .cons a d, h => by
    simp only [AllAtomsOKP] at h
    exact cons_rtP p cfg ryu a d (value_rtP p cfg ryu hb a h.1) (text_headP p cfg ryu a h.1)
      (tail_rtP p cfg ryu hb d h.2)
  | .vector xs, h => by
    simp only [AllAtomsOKP] at h
    exact vector_rtP p cfg ryu xs hb (seq_rtP p cfg ryu hb true xs h)
  | .null, _ => null_rtP p cfg ryu
  | .nil, h => by simp only [AllAtomsOKP] at h; exact atom_rtP p cfg ryu _ h
  | .bool _, h => by simp only [AllAtomsOKP] at h; exact atom_rtP p cfg ryu _ h
  | .number _, h => by simp only [AllAtomsOKP] at h; exact atom_rtP p cfg ryu _ h
  | .char _, h => by simp only [AllAtomsOKP] at h; exact atom_rtP p cfg ryu _ h
  | .string _, h => by simp only [AllAtomsOKP] at h; exact atom_rtP p cfg ryu _ h
  | .symbol _, h => by simp only [AllAtomsOKP] at h; exact atom_rtP p cfg ryu _ h
  | .keyword _, h => by simp only [AllAtomsOKP] at h; exact atom_rtP p cfg ryu _ h
  | .bytes _, h => by simp only [AllAtomsOKP] at h; exact atom_rtP p cfg ryu _ h
theorem tail_rtP (p : Print.Options) (cfg : Cfg) (ryu : Nat → List UInt8)
    (hb : p.vector = .brackets → cfg.opts.brackets = .vector) :
    ∀ d : Value, AllAtomsOKP p cfg ryu d → TailRTP p cfg ryu d
  | .cons a d, h => by
    simp only [AllAtomsOKP] at h
    exact tail_cons_rtP p cfg ryu a d (value_rtP p cfg ryu hb a h.1) (text_headP p cfg ryu a h.1)
      (tail_rtP p cfg ryu hb d h.2)
  | .vector xs, h => by
    have hh := text_headP p cfg ryu (.vector xs) h
    simp only [AllAtomsOKP] at h
    exact tail_dotted_rtP p cfg ryu (.vector xs)
      (vector_rtP p cfg ryu xs hb (seq_rtP p cfg ryu hb true xs h)) hh rfl (by simp)
      (by simp [nestingP, nestingTailP])
  | .null, _ => tail_null_rtP p cfg ryu
  | .nil, h => by simp only [AllAtomsOKP] at h; exact tail_atom_rtP p cfg ryu _ h
  | .bool _, h => by simp only [AllAtomsOKP] at h; exact tail_atom_rtP p cfg ryu _ h
  | .number _, h => by simp only [AllAtomsOKP] at h; exact tail_atom_rtP p cfg ryu _ h
  | .char _, h => by simp only [AllAtomsOKP] at h; exact tail_atom_rtP p cfg ryu _ h
  | .string _, h => by simp only [AllAtomsOKP] at h; exact tail_atom_rtP p cfg ryu _ h
  | .symbol _, h => by simp only [AllAtomsOKP] at h; exact tail_atom_rtP p cfg ryu _ h
  | .keyword _, h => by simp only [AllAtomsOKP] at h; exact tail_atom_rtP p cfg ryu _ h
  | .bytes _, h => by simp only [AllAtomsOKP] at h; exact tail_atom_rtP p cfg ryu _ h
theorem seq_rtP (p : Print.Options) (cfg : Cfg) (ryu : Nat → List UInt8)
    (hb : p.vector = .brackets → cfg.opts.brackets = .vector) :
    ∀ (first : Bool) (xs : List Value), AllAtomsOKSeqP p cfg ryu xs → SeqRTP p cfg ryu first xs
  | first, [], _ => seq_nil_rtP p cfg ryu first
  | first, x :: xs, h => by
    simp only [AllAtomsOKSeqP] at h
    exact seq_cons_rtP p cfg ryu first x xs (value_rtP p cfg ryu hb x h.1)
      (text_headP p cfg ryu x h.1) (seq_rtP p cfg ryu hb false xs h.2)
end

/-! ### the atoms: from `DialectRT.lean` to `AtomOKP` -/

/-- a leading `.` of a symbol, or of a keyword written `name:`, must not be followed by NUL, `|`
    or `"` (else `parse_list` takes the dot for the dotted-pair marker) -/
def dotOkP (p : Print.Options) : Value → Bool
  | .symbol n => dotHeadOk n
  | .keyword n => match p.keyword with | .colonPostfix => dotHeadOk (n ++ [58]) | _ => true
  | _ => true

/-- an atom leaf that is plain for the pair -/
def LeafPlainFor (p : Print.Options) (cfg : Cfg) (v : Value) : Prop :=
  AtomPlainFor p cfg v ∧ dotOkP p v = true

theorem nameShape_dot (cfg : Cfg) : nameShape cfg [46] = false := by
  simp [nameShape, isAsciiAlpha, isSymbolExtended, symTermSlice]

theorem elemHead_name (cfg : Cfg) (b : UInt8) (tl : List UInt8)
    (hshape : nameShape cfg (b :: tl) = true) (hdot : dotHeadOk (b :: tl) = true) :
    ElemHead (b :: tl) := by
  have hnt : symTermSlice b = false := by
    simp only [nameShape, Bool.and_eq_true, List.all_eq_true, Bool.not_eq_true'] at hshape
    exact hshape.1 b (by simp)
  by_cases h46 : b = 46
  · subst h46
    cases tl with
    | nil => rw [nameShape_dot] at hshape; exact Bool.noConfusion hshape
    | cons b' tl' =>
      simp only [dotHeadOk, Bool.and_eq_true, bne_iff_ne, ne_eq, Bool.not_eq_true'] at hdot
      exact ⟨46, b' :: tl', rfl, by decide, by decide, by decide, by decide,
        fun _ => ⟨b', tl', rfl, hdot.1, hdot.2⟩⟩
  · exact head_of_nonterm b tl hnt h46

theorem elispChar_head (c : Nat) : ∃ tl, elispChar c = 63 :: tl := by
  unfold elispChar
  split
  · split <;> exact ⟨_, rfl⟩
  · exact ⟨92 :: 120 :: natHexLower c, by
      have : asc "?\\x" = [63, 92, 120] := by decide
      simp [this]⟩

theorem atom_headP (p : Print.Options) (cfg : Cfg) (ryu : Nat → List UInt8) (v : Value)
    (hl : LeafPlainFor p cfg v) : ElemHead (atomTextP p ryu v) := by
  obtain ⟨hpl, hdot⟩ := hl
  obtain ⟨c1, c2, c3, c4, c5, c6, -⟩ := asc_consts
  have hb : ∀ (c : UInt8) (tl : List UInt8),
      (!isTrivia c && c != 59 && c != 41 && c != 93 && c != 46) = true → ElemHead (c :: tl) := by
    intro c tl h
    simp only [Bool.and_eq_true, Bool.not_eq_true', bne_iff_ne, ne_eq] at h
    exact head_of_byte c tl h.1.1.1.1 h.1.1.1.2 h.1.1.2 h.1.2 h.2
  cases v with
  | nil =>
    rw [atomTextP_nil]; unfold nilText boolText
    cases p.nil <;> cases p.bool <;> simp only [c1, c3, c5, c6, Bool.false_eq_true, if_false] <;>
      exact hb _ _ (by decide)
  | null => rw [atomTextP_null]; exact hb _ _ (by decide)
  | bool b =>
    rw [atomTextP_bool]; unfold boolText
    cases p.bool <;> cases b <;> simp only [c1, c2, c4, c5, Bool.false_eq_true, if_false, if_true] <;>
      exact hb _ _ (by decide)
  | number n =>
    cases n with
    | pos n =>
      rw [atomTextP_pos]
      obtain ⟨d, dtl, hd, he⟩ := natDigits_head n
      rw [he]; exact head_of_nonterm _ _ (digit_head d hd).1 (digit_head d hd).2
    | neg i =>
      rw [atomTextP_neg]
      have hi : intDigits i = 45 :: natDigits i.natAbs := by
        have h2 : i < 0 := hpl.2
        simp only [intDigits, h2, if_true]; rfl
      rw [hi]; exact hb _ _ (by decide)
    | flt b => exact absurd hpl id
  | char c =>
    rw [atomTextP_char]; unfold charText
    cases p.char
    · obtain ⟨tl, he⟩ := schemeChar_head c
      simp only [he]; exact hb _ _ (by decide)
    · obtain ⟨tl, he⟩ := elispChar_head c
      simp only [he]; exact hb _ _ (by decide)
  | string b => rw [atomTextP_string]; exact hb _ _ (by decide)
  | symbol n =>
    rw [atomTextP_symbol]
    have hpl' : symbolPlainFor cfg n = true := hpl
    simp only [symbolPlainFor, Bool.and_eq_true] at hpl'
    have hshape := hpl'.1.1.1.1.1
    cases n with
    | nil => simp [nameShape] at hshape
    | cons b tl => exact elemHead_name cfg b tl hshape hdot
  | keyword n =>
    rw [atomTextP_keyword]
    have hpl' : keywordPlainFor p cfg n = true := hpl
    simp only [keywordPlainFor, Bool.and_eq_true] at hpl'
    simp only [dotOkP] at hdot
    cases hk : p.keyword
    · simp only; exact hb _ _ (by decide)
    · simp only [hk] at hpl' hdot ⊢
      simp only [Bool.and_eq_true] at hpl'
      cases n with
      | nil => simp at hpl'
      | cons b tl =>
        show ElemHead (b :: (tl ++ [58]))
        exact elemHead_name cfg b (tl ++ [58]) (by simpa using hpl'.2.1.2) (by simpa using hdot)
    · simp only; exact hb _ _ (by decide)
  | bytes b =>
    rw [atomTextP_bytes]
    cases p.bytes <;> simp only <;> exact hb _ _ (by decide)
  | cons a d => exact absurd hpl id
  | vector xs => exact absurd hpl id

theorem atomOKP_of_leaf (p : Print.Options) (cfg : Cfg) (ryu : Nat → List UInt8) (v : Value)
    (hc : Compatible p cfg.opts = true) (h3 : v ≠ .null) (hl : LeafPlainFor p cfg v) :
    AtomOKP p cfg ryu v := by
  have h1 : v.isCons = false := by
    cases v <;> first | rfl | exact absurd hl.1 id
  have h2 : v.isVector = false := by
    cases v <;> first | rfl | exact absurd hl.1 id
  refine ⟨h1, h2, h3, atom_headP p cfg ryu v hl, ?_⟩
  intro s rest fuel hf hg hr hfu hd
  obtain ⟨F, rfl⟩ : ∃ F, fuel = F + 2 := ⟨fuel - 2, by omega⟩
  have hdep : v = .null ∨ (v = .nil ∧ p.nil = .emptyList) → 2 ≤ s.depth := by
    rintro (h | ⟨h, hp⟩)
    · exact absurd h h3
    · subst h; simp only [nestingP, hp, if_true] at hd; omega
  obtain ⟨q, hq⟩ := dialectRT_atom cfg p ryu F s rest v hc hl.1 hr hdep hf (fun _ => hg.2)
  exact runs_of_adv _ s _ _ q rest hg hq (by simp [hr])

mutual
/-- every atom leaf (through car, cdr and vector elements) is plain for the pair -/
def AllPlainFor (p : Print.Options) (cfg : Cfg) : Value → Prop
  | .cons a d => AllPlainFor p cfg a ∧ AllPlainFor p cfg d
  | .vector xs => AllPlainForSeq p cfg xs
  | .null => True
  | .nil => True
  | .bool _ => True
  | .number n => LeafPlainFor p cfg (.number n)
  | .char c => LeafPlainFor p cfg (.char c)
  | .string x => LeafPlainFor p cfg (.string x)
  | .symbol x => LeafPlainFor p cfg (.symbol x)
  | .keyword x => LeafPlainFor p cfg (.keyword x)
  | .bytes _ => True
def AllPlainForSeq (p : Print.Options) (cfg : Cfg) : List Value → Prop
  | [] => True
  | x :: xs => AllPlainFor p cfg x ∧ AllPlainForSeq p cfg xs
end

mutual
theorem allAtomsOKP_of_plain (p : Print.Options) (cfg : Cfg) (ryu : Nat → List UInt8)
    (hc : Compatible p cfg.opts = true) : ∀ v : Value, AllPlainFor p cfg v → AllAtomsOKP p cfg ryu v
  | .cons a d, h => by
    simp only [AllPlainFor] at h
    simp only [AllAtomsOKP]
    exact ⟨allAtomsOKP_of_plain p cfg ryu hc a h.1, allAtomsOKP_of_plain p cfg ryu hc d h.2⟩
  | .vector xs, h => by
    simp only [AllPlainFor] at h
    simp only [AllAtomsOKP]
    exact allAtomsOKSeqP_of_plain p cfg ryu hc xs h
  | .null, _ => by simp only [AllAtomsOKP]
  | .nil, _ => by
    simp only [AllAtomsOKP]; exact atomOKP_of_leaf p cfg ryu _ hc (by simp) ⟨trivial, rfl⟩
  | .bool b, _ => by
    simp only [AllAtomsOKP]; exact atomOKP_of_leaf p cfg ryu _ hc (by simp) ⟨trivial, rfl⟩
  | .number n, h => by
    simp only [AllPlainFor] at h; simp only [AllAtomsOKP]
    exact atomOKP_of_leaf p cfg ryu _ hc (by simp) h
  | .char c, h => by
    simp only [AllPlainFor] at h; simp only [AllAtomsOKP]
    exact atomOKP_of_leaf p cfg ryu _ hc (by simp) h
  | .string x, h => by
    simp only [AllPlainFor] at h; simp only [AllAtomsOKP]
    exact atomOKP_of_leaf p cfg ryu _ hc (by simp) h
  | .symbol x, h => by
    simp only [AllPlainFor] at h; simp only [AllAtomsOKP]
    exact atomOKP_of_leaf p cfg ryu _ hc (by simp) h
  | .keyword x, h => by
    simp only [AllPlainFor] at h; simp only [AllAtomsOKP]
    exact atomOKP_of_leaf p cfg ryu _ hc (by simp) h
  | .bytes x, _ => by
    simp only [AllAtomsOKP]; exact atomOKP_of_leaf p cfg ryu _ hc (by simp) ⟨trivial, rfl⟩
theorem allAtomsOKSeqP_of_plain (p : Print.Options) (cfg : Cfg) (ryu : Nat → List UInt8)
    (hc : Compatible p cfg.opts = true) :
    ∀ xs : List Value, AllPlainForSeq p cfg xs → AllAtomsOKSeqP p cfg ryu xs
  | [], _ => by simp only [AllAtomsOKSeqP]
  | x :: xs, h => by
    simp only [AllPlainForSeq] at h
    simp only [AllAtomsOKSeqP]
    exact ⟨allAtomsOKP_of_plain p cfg ryu hc x h.1, allAtomsOKSeqP_of_plain p cfg ryu hc xs h.2⟩
end

theorem compatible_brackets (p : Print.Options) (r : Options) (hc : Compatible p r = true) :
    p.vector = .brackets → r.brackets = .vector := by
  intro hv
  simp only [Compatible, Bool.and_eq_true, Bool.or_eq_true, hv, bne_self_eq_false,
    Bool.false_eq_true, false_or, beq_iff_eq] at hc
  exact hc.1.1.1.2

/-! ### the depth measure against `Spec.nesting` -/

mutual
theorem nestingP_le (p : Print.Options) : ∀ v : Value, nestingP p v ≤ Spec.nesting v + 1
  | .cons a d => by
    have h1 := nestingP_le p a
    have h2 := nestingTailP_le p d
    simp only [nestingP, Spec.nesting]; omega
  | .vector xs => by
    have h := nestingSeqP_le p xs
    simp only [nestingP, Spec.nesting]; omega
  | .null => by simp [nestingP]
  | .nil => by simp only [nestingP]; split <;> omega
  | .bool _ => by simp [nestingP]
  | .number _ => by simp [nestingP]
  | .char _ => by simp [nestingP]
  | .string _ => by simp [nestingP]
  | .symbol _ => by simp [nestingP]
  | .keyword _ => by simp [nestingP]
  | .bytes _ => by simp [nestingP]
theorem nestingTailP_le (p : Print.Options) : ∀ v : Value, nestingTailP p v ≤ Spec.nestingTail v + 1
  | .cons a d => by
    have h1 := nestingP_le p a
    have h2 := nestingTailP_le p d
    simp only [nestingTailP, Spec.nestingTail]; omega
  | .vector xs => by
    have h := nestingSeqP_le p xs
    simp only [nestingTailP, Spec.nestingTail]; omega
  | .null => by simp [nestingTailP]
  | .nil => by simp only [nestingTailP]; split <;> omega
  | .bool _ => by simp [nestingTailP]
  | .number _ => by simp [nestingTailP]
  | .char _ => by simp [nestingTailP]
  | .string _ => by simp [nestingTailP]
  | .symbol _ => by simp [nestingTailP]
  | .keyword _ => by simp [nestingTailP]
  | .bytes _ => by simp [nestingTailP]
theorem nestingSeqP_le (p : Print.Options) : ∀ xs : List Value, nestingSeqP p xs ≤ Spec.nestingList xs + 1
  | [] => by simp [nestingSeqP]
  | x :: xs => by
    have h1 := nestingP_le p x
    have h2 := nestingSeqP_le p xs
    simp only [nestingSeqP, Spec.nestingList]; omega
end

/-! ## Main theorems -/

/-- **dialectRT_structure.** For every compatible pair of printer options `p` and parser options
    `cfg.opts`, and every value `v` all of whose atom leaves are plain for the pair
    (`AllPlainFor`: scalars for characters, valid UTF-8 strings, `symbolPlainFor` /
    `keywordPlainFor` names without a misleading leading dot, integers in range; no floats):
    in any non-faulty slice state whose unread input is `Print.text p ryu v` followed by `rest`
    (empty or starting with a byte that ends every token), with a depth budget above the nesting
    of `v` and fuel at least `2 * (unread length) + 3`, `next_value` returns `fold p cfg.opts v`,
    leaves exactly `rest` unread and restores the depth budget.  Lists, dotted lists, `()`,
    vectors written `#(`…`)` or `[`…`]` (read as vectors because compatibility demands
    `brackets = vector`) and any mixture are covered. -/
theorem dialectRT_structure (cfg : Cfg) (p : Print.Options) (ryu : Nat → List UInt8)
    (hc : Compatible p cfg.opts = true) (v : Value) (h : AllPlainFor p cfg v)
    (s : St) (rest : List UInt8) (fuel : Nat) (hf : Follow rest)
    (hm : s.rd.mode = .slice) (hfa : s.rd.faulty = false)
    (hr : s.rd.rest = text p ryu v ++ rest)
    (hfu : fuel ≥ 2 * s.rd.rest.length + 3) (hn : nestingP p v + 1 ≤ s.depth) :
    ∃ s', nextValue cfg fuel s = .ok (some (fold p cfg.opts v)) s' ∧ s'.rd.rest = rest ∧
      s'.rd.mode = .slice ∧ s'.rd.faulty = false ∧ s'.depth = s.depth := by
  obtain ⟨s', e, r, ⟨gm, gf⟩, d⟩ :=
    value_rtP p cfg ryu (compatible_brackets p cfg.opts hc) v
      (allAtomsOKP_of_plain p cfg ryu hc v h) s rest fuel hf ⟨hm, hfa⟩ hr hfu hn
  exact ⟨s', e, r, gm, gf, d⟩

/-- **dialectRT_roundtrip** (C02): `from_slice_custom(to_string_custom(v, p), r) = Ok(fold p r v)`
    for every compatible pair, every value whose atoms are plain for the pair and whose nesting
    is at most 127. -/
theorem dialectRT_roundtrip (cfg : Cfg) (p : Print.Options) (ryu : Nat → List UInt8)
    (hc : Compatible p cfg.opts = true) (v : Value) (h : AllPlainFor p cfg v)
    (hn : nestingP p v ≤ 127) :
    ∃ s', fromTrait cfg (initSt .slice (text p ryu v)) = .ok (fold p cfg.opts v) s' ∧
      s'.rd.rest = [] ∧ s'.depth = 128 := by
  have hv := value_rtP p cfg ryu (compatible_brackets p cfg.opts hc) v
    (allAtomsOKP_of_plain p cfg ryu hc v h) (initSt .slice (text p ryu v)) []
    (2 * (initSt .slice (text p ryu v)).rd.rest.length + 4) (Or.inl rfl) ⟨rfl, rfl⟩
    (by simp [initSt]) (by omega) (by simp [initSt]; omega)
  obtain ⟨s', e, r, _, d⟩ := fromTrait_of_nextValue cfg _ _ hv
  exact ⟨s', e, r, d⟩

/-- **C02_roundtrip**: the statement announced in `Props/C02.lean`, with `AllPlainFor` as the
    `PlainFor P R` of the property and the nesting measure of `Spec/Dialect.lean` (`()` costs one
    level that `Spec.nesting` does not count, hence `< 127`). -/
theorem C02_roundtrip (cfg : Cfg) (p : Print.Options) (ryu : Nat → List UInt8)
    (hc : Compatible p cfg.opts = true) (v : Value) (h : AllPlainFor p cfg v)
    (hn : Spec.nesting v < 127) :
    ∃ s', fromTrait cfg (initSt .slice (text p ryu v)) = .ok (fold p cfg.opts v) s' ∧
      s'.rd.rest = [] ∧ s'.depth = 128 :=
  dialectRT_roundtrip cfg p ryu hc v h (by have := nestingP_le p v; omega)

/-- Emacs Lisp on both sides: `(setq x [1 "a\"b" ?x :k nil t] . "\001")` with `Nil`, `false`
    and `true` atoms and a byte vector; it reads back with `Nil` and `false` folded to the empty
    list and `true` to the symbol `t`. -/
example (ryu : Nat → List UInt8) :
    let v : Value := .cons (.symbol (asc "setq")) (.cons (.symbol (asc "x"))
      (.cons (.vector [.number (.pos 1), .string (asc "a\"b"), .char 120, .keyword (asc "k"),
        .nil, .bool false, .bool true]) (.bytes [1])))
    ∃ s', fromTrait elCfg (initSt .slice (text Print.Options.elisp ryu v)) =
        .ok (fold Print.Options.elisp Options.elisp v) s' ∧ s'.rd.rest = [] ∧ s'.depth = 128 := by
  intro v
  refine dialectRT_roundtrip elCfg Print.Options.elisp ryu (by decide) v ?_ ?_
  · simp only [v, AllPlainFor, AllPlainForSeq, LeafPlainFor, AtomPlainFor, dotOkP]
    decide
  · simp [v, nestingP, nestingTailP, nestingSeqP, Print.Options.elisp]

/-- A Scheme-like printer with bracket vectors, `name:` keywords, `nil` / `t` symbols and `#vu8`
    byte vectors against a reader with all keyword syntaxes, special `nil`, `t` = true and
    leading-digit symbols: `(a: [1 #vu8(1 2) "s" ?\x3bb] nil t . -5)` followed by `)`. -/
example (ryu : Nat → List UInt8) (s : St) (hm : s.rd.mode = .slice) (hfa : s.rd.faulty = false)
    (hd : 3 ≤ s.depth) :
    let v : Value := .cons (.keyword (asc "a")) (.cons (.vector [.number (.pos 1), .bytes [1, 2],
      .string (asc "s"), .char 955]) (.cons .nil (.cons (.bool true) (.number (.neg (-5))))))
    s.rd.rest = text mixP ryu v ++ asc ")" →
    ∃ s', nextValue mixCfg (2 * s.rd.rest.length + 3) s = .ok (some (fold mixP mixOpts v)) s' ∧
      s'.rd.rest = asc ")" ∧ s'.rd.mode = .slice ∧ s'.rd.faulty = false ∧ s'.depth = s.depth := by
  intro v hr
  refine dialectRT_structure mixCfg mixP ryu (by decide) v ?_ s (asc ")") _ (follow_cons _ _ (by decide))
    hm hfa hr (Nat.le_refl _) ?_
  · simp only [v, AllPlainFor, AllPlainForSeq, LeafPlainFor, AtomPlainFor, dotOkP]
    decide
  · have : nestingP mixP v = 2 := by
      simp [v, nestingP, nestingTailP, nestingSeqP, mixP]
    omega

#print axioms dialectRT_structure
#print axioms dialectRT_roundtrip
#print axioms C02_roundtrip

end ListRT
end Parse
end Lexpr
