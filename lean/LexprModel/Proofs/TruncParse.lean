/-
  Truncation (C19): the parser (`parse_whitespace`, `end_seq`, byte lists, `next_value`,
  `parse_list`, `parse_vector`, their datum variants, and the entry points).
-/
import LexprModel.Proofs.TruncTok
set_option linter.unusedSimpArgs false
namespace Lexpr
namespace Parse
namespace Trunc
open PrefixDet (Sim ext Scanner digitsLen scan ext_rest ext_consume)

section parse
variable {X : Err → Prop} {s : St} {q : List UInt8}

/-- the diverged result of `parse_whitespace`: end of input -/
def QEnd : Option UInt8 → St → Res (Option UInt8) → Prop := fun a _ _ => a = none

theorem parseWhitespace_t (_ : q ≠ []) : TS X QEnd parseWhitespace parseWhitespace s q := by
  rw [PrefixDet.parseWhitespace_eq]
  refine TS.bind (scan_t PrefixDet.wsLen_scanner) (fun _ s1 _ _ => ?_) (fun _ s1 _ h0 _ => ?_)
  · exact peek_t.weakenQ (fun _ _ _ h => h.1)
  · exact TE.peekNone h0 rfl

theorem parseWhitespace_eo (h0 : s.rd.rest = []) :
    EO X parseWhitespace s (fun a s1 => a = none ∧ s1.depth = s.depth) := by
  rw [PrefixDet.parseWhitespace_eq]
  refine EO.bind_scan PrefixDet.wsLen_scanner h0 (fun s1 h1 hd _ _ => ?_)
  exact EO.peekNone h1 ⟨rfl, hd⟩

theorem endSeq_t (hq : q ≠ []) {close : UInt8} : TS X QF (endSeq close) (endSeq close) s q := by
  unfold endSeq
  refine TS.bind (parseWhitespace_t hq) (fun a s1 _ _ => ?_) (fun a s1 _ h0 ha => ?_)
  · tsim hq [] []
  · cases ha
    exact TE.peekErrSoft (by decide)

theorem endSeq_eo {close : UInt8} (h0 : s.rd.rest = []) :
    EO X (endSeq close) s (fun _ _ => False) := by
  unfold endSeq
  refine EO.bind (parseWhitespace_eo h0) (fun a s1 h1 ha => ?_)
  obtain ⟨rfl, _⟩ := ha
  exact EO.peekErrSoft (by decide)

theorem byteListLoop_eo {cfg : Cfg} {close : UInt8} {f : Nat} {acc : List UInt8}
    (h0 : s.rd.rest = []) : EO X (byteListLoop cfg close f acc) s (fun _ _ => False) := by
  cases f with
  | zero => exact EO.outOfFuel
  | succ f =>
    unfold byteListLoop
    refine EO.bind (parseWhitespace_eo h0) (fun a s1 h1 ha => ?_)
    obtain ⟨rfl, _⟩ := ha
    exact EO.peekErrSoft (by decide)

/-- the element check of a byte list fails on a number that is not a byte -/
theorem octetCheck_notOk {cfg : Cfg} {close : UInt8} {f : Nat} {acc : List UInt8} {n : Number}
    {x : St} (hn : nonOctet n) :
    NotOk ((match n.asU64 with
      | none => peekErr .expectedOctet
      | some v => if v > 255 then peekErr .expectedOctet
                  else byteListLoop cfg close f (acc ++ [UInt8.ofNat v]) : P (List UInt8)) x) := by
  cases hv : n.asU64 with
  | none => exact NotOk.err
  | some v =>
    have := hn v hv
    simp only [this, ↓reduceIte]
    exact NotOk.err

theorem byteListLoop_t (hq : q ≠ []) (hB : ∀ l k, X (.syntax .numberOutOfRange l k)) {cfg : Cfg}
    {close : UInt8} {f f' : Nat} {acc : List UInt8} (h : f ≤ f') :
    TS X QF (byteListLoop cfg close f acc) (byteListLoop cfg close f' acc) s q := by
  induction f generalizing f' acc s with
  | zero => exact TS.fuel0 rfl
  | succ f ih =>
    obtain ⟨g, rfl⟩ : ∃ g, f' = g + 1 := ⟨f' - 1, by omega⟩
    unfold byteListLoop
    refine TS.bind (parseWhitespace_t hq) (fun a s1 _ _ => ?_) (fun a s1 _ h0 ha => ?_)
    · cases a with
      | none => exact TS.peekErr
      | some c =>
        dsimp only
        refine TS.ite (fun _ => ?_) (fun _ => ?_)
        · tsim hq [] []
        · refine TS.bind (parseNumber_t hq hB h) (fun n s2 _ _ => ?_) (fun n s2 _ h0 hq1 => ?_)
          · refine TS.bind (expectNumberEnd_t hq) (fun n2 s3 _ _ => ?_) (fun n2 s3 _ h0 hq2 => ?_)
            · tsim hq [ih] []
            · -- the number ended at the end of the input, in step
              obtain ⟨rfl, hsame⟩ := hq2
              cases hv : n2.asU64 with
              | none =>
                dsimp only
                refine TE.peekErrNotOk ?_
                cases hr : expectNumberEnd n2 (ext q s2) with
                | ok a' s' =>
                  rw [hsame a' s' hr]
                  simp only [rbind, hv]
                  exact NotOk.err
                | err e s' => exact NotOk.err
                | panic p => exact NotOk.panic
                | fuel => exact NotOk.fuel
              | some v =>
                dsimp only
                refine TE.ite (fun hgt => TE.peekErrNotOk ?_)
                  (fun _ => TE.ofEO (byteListLoop_eo h0) (fun _ _ _ h => h.elim))
                cases hr : expectNumberEnd n2 (ext q s2) with
                | ok a' s' =>
                  rw [hsame a' s' hr]
                  simp only [rbind, hv, hgt, ↓reduceIte]
                  exact NotOk.err
                | err e s' => exact NotOk.err
                | panic p => exact NotOk.panic
                | fuel => exact NotOk.fuel
          · -- the truncated number is followed by more digits on the other side
            have hother : nonOctet n → NotOk (rbind (parseNumber cfg (g + 1) (ext q s1)) fun n => do
                let n ← expectNumberEnd n
                match n.asU64 with
                  | none => peekErr .expectedOctet
                  | some v => if v > 255 then peekErr .expectedOctet
                              else byteListLoop cfg close g (acc ++ [UInt8.ofNat v])) := by
              intro hno
              cases hr : parseNumber cfg (g + 1) (ext q s1) with
              | ok n' s' =>
                have hno' := hq1 n' s' hr hno
                simp only [rbind]
                rw [bind_eq]
                cases he : expectNumberEnd n' s' with
                | ok a' s'' =>
                  rw [expectNumberEnd_ok he]
                  simp only [rbind]
                  exact octetCheck_notOk hno'
                | err e s'' => exact NotOk.err
                | panic p => exact NotOk.panic
                | fuel => exact NotOk.fuel
              | err e s' => exact NotOk.err
              | panic p => exact NotOk.panic
              | fuel => exact NotOk.fuel
            unfold expectNumberEnd
            rw [bind_assoc']
            refine TE.bind_peek h0 ?_
            dsimp only
            refine TE.bind_pure ?_
            cases hv : n.asU64 with
            | none =>
              dsimp only
              exact TE.peekErrNotOk (hother (fun v hv' => by rw [hv] at hv'; cases hv'))
            | some v =>
              dsimp only
              refine TE.ite (fun hgt => TE.peekErrNotOk (hother (fun v' hv' => ?_)))
                (fun _ => TE.ofEO (byteListLoop_eo h0) (fun _ _ _ h => h.elim))
              rw [hv] at hv'; cases hv'; exact hgt
    · cases ha
      exact TE.peekErrSoft (by decide)

theorem parseByteList_t (hq : q ≠ []) (hB : ∀ l k, X (.syntax .numberOutOfRange l k)) {cfg : Cfg}
    {close : UInt8} {f f' : Nat} (h : f ≤ f') :
    TS X QF (parseByteList cfg f close) (parseByteList cfg f' close) s q := by
  unfold parseByteList
  refine TS.bind (parseWhitespace_t hq) (fun a s1 _ _ => ?_) (fun a s1 _ h0 ha => ?_)
  · tsim hq [byteListLoop_t hq hB] []
  · cases ha
    exact TE.peekErrSoft (by decide)

theorem parseByteList_eo {cfg : Cfg} {close : UInt8} {f : Nat} (h0 : s.rd.rest = []) :
    EO X (parseByteList cfg f close) s (fun _ _ => False) := by
  unfold parseByteList
  refine EO.bind (parseWhitespace_eo h0) (fun a s1 h1 ha => ?_)
  obtain ⟨rfl, _⟩ := ha
  exact EO.peekErrSoft (by decide)

/-! ### exceptions that depend on the text: a family indexed by the unread input -/

/-- the error is `NumberOutOfRange` -/
def IsNOOR (e : Err) : Prop := ∃ l k, e = .syntax .numberOutOfRange l k

/-- the exception of the truncation theorem: `NumberOutOfRange`.  (It does not depend on the
    options or on the text; the two arguments are kept for the rules below, which allow a family
    of exceptions indexed by the unread input.) -/
def XR (_cfg : Cfg) (_rest : List UInt8) (e : Err) : Prop := IsNOOR e

theorem XR.mono {cfg : Cfg} : ∀ (r1 r2 : List UInt8) (e : Err), r1 <:+ r2 → XR cfg r1 e → XR cfg r2 e := by
  intro r1 r2 e _ hx
  exact hx

theorem XR.noor (cfg : Cfg) (rest : List UInt8) :
    ∀ l k, XR cfg rest (.syntax .numberOutOfRange l k) := fun l k => ⟨l, k, rfl⟩

theorem TS.weakenX {α : Type} {m m' : P α} {X' : Err → Prop} {Q : α → St → Res α → Prop}
    (h : TS X' Q m m' s q) (hx : ∀ e, X' e → X e) : TS X Q m m' s q :=
  h.weaken hx (fun _ _ _ h => h)

section mrules
variable {α β : Type} {Xf : List UInt8 → Err → Prop}

theorem TS.bindM (hX : ∀ r1 r2 e, r1 <:+ r2 → Xf r1 e → Xf r2 e)
    {m m' : P α} {f f' : α → P β} {Q1 : α → St → Res α → Prop} {Q2 : β → St → Res β → Prop}
    (h1 : TS (Xf s.rd.rest) Q1 m m' s q)
    (h2 : ∀ a s1, m s = .ok a s1 → m' (ext q s) = .ok a (ext q s1) →
      TS (Xf s1.rd.rest) Q2 (f a) (f' a) s1 q)
    (h3 : ∀ a s1, m s = .ok a s1 → s1.rd.rest = [] → Q1 a s1 (m' (ext q s)) →
      TE (Xf s.rd.rest) Q2 (f a) (rbind (m' (ext q s)) f') s1) :
    TS (Xf s.rd.rest) Q2 (m >>= f) (m' >>= f') s q :=
  TS.bind h1 (fun a s1 hm hin => (h2 a s1 hm hin).weakenX (fun e => hX _ _ e (h1.suffix hm))) h3

theorem TS.bindFM (hX : ∀ r1 r2 e, r1 <:+ r2 → Xf r1 e → Xf r2 e)
    {m m' : P α} {f f' : α → P β} {Q2 : β → St → Res β → Prop}
    (h1 : TS (Xf s.rd.rest) QF m m' s q)
    (h2 : ∀ a s1, m s = .ok a s1 → m' (ext q s) = .ok a (ext q s1) →
      TS (Xf s1.rd.rest) Q2 (f a) (f' a) s1 q) :
    TS (Xf s.rd.rest) Q2 (m >>= f) (m' >>= f') s q :=
  TS.bindM hX h1 h2 (fun _ _ _ _ h => h.elim)

end mrules

theorem TS.bind_tokenFuel {β : Type} {f f' : Nat → P β} {Q : β → St → Res β → Prop}
    (h : ∀ n n', n ≤ n' → TS X Q (f n) (f' n') s q) :
    TS X Q (tokenFuel >>= f) (tokenFuel >>= f') s q :=
  h (s.rd.rest.length + 1) ((ext q s).rd.rest.length + 1) (by simp [ext_rest])

theorem TS.bind_apiFuel {β : Type} {f f' : Nat → P β} {Q : β → St → Res β → Prop}
    (h : ∀ n n', n ≤ n' → TS X Q (f n) (f' n') s q) :
    TS X Q (apiFuel >>= f) (apiFuel >>= f') s q :=
  h (2 * s.rd.rest.length + 4) (2 * (ext q s).rd.rest.length + 4) (by simp [ext_rest]; omega)

/-! ### captured errors -/

/-- the continuation of an `attempt` re-raises a captured error -/
def Reraises {α β : Type} (f : Except Err α → P β) : Prop :=
  ∀ e x, match f (.error e) x with
    | .ok _ _ => False
    | .err e2 _ => e2 = e
    | .panic _ => True
    | .fuel => True

theorem Reraises.notOk {α β : Type} {f : Except Err α → P β} (h : Reraises f) (e : Err) (x : St) :
    NotOk (f (.error e) x) := by
  intro a s' hr
  have := h e x
  rw [hr] at this
  exact this

theorem TS.bind_attempt {α β : Type} {m m' : P α} {f f' : Except Err α → P β}
    {Q1 : α → St → Res α → Prop} {Q2 : β → St → Res β → Prop}
    (hm : TS X Q1 m m' s q)
    (hok : ∀ a s1, m s = .ok a s1 → m' (ext q s) = .ok a (ext q s1) →
      TS X Q2 (f (.ok a)) (f' (.ok a)) s1 q)
    (hdiv : ∀ a s1, m s = .ok a s1 → s1.rd.rest = [] → Q1 a s1 (m' (ext q s)) →
      TE X Q2 (f (.ok a)) (rbind (attempt m' (ext q s)) f') s1)
    (hre : Reraises f) (hre' : Reraises f') :
    TS X Q2 (attempt m >>= f) (attempt m' >>= f') s q := by
  unfold TS at hm ⊢
  rw [bind_eq, bind_eq]
  unfold attempt
  cases hms : m s with
  | ok a s1 =>
    rw [hms] at hm
    obtain ⟨hsuf, hm⟩ := hm
    simp only [rbind]
    rcases hm with hin | ⟨h0, hq1⟩
    · have h2 := hok a s1 hms hin
      unfold TS at h2
      rw [hin]
      simp only [rbind]
      cases hf : f (.ok a) s1 with
      | ok b s2 => rw [hf] at h2; exact ⟨h2.1.trans hsuf, h2.2⟩
      | err e s2 => rw [hf] at h2; exact h2
      | panic p => trivial
      | fuel => trivial
    · have h3 := hdiv a s1 hms h0 hq1
      unfold TE attempt at h3
      cases hf : f (.ok a) s1 with
      | ok b s2 =>
        rw [hf] at h3
        refine ⟨?_, Or.inr h3⟩
        rw [h3.1]; exact List.nil_suffix
      | err e s2 => rw [hf] at h3; exact h3
      | panic p => trivial
      | fuel => trivial
  | err e s1 =>
    rw [hms] at hm
    simp only [rbind]
    have hr := hre e s1
    cases hf : f (.error e) s1 with
    | ok b s2 => rw [hf] at hr; exact hr.elim
    | err e2 s2 =>
      rw [hf] at hr
      subst hr
      rcases hm with h | h | h
      · exact Or.inl h
      · exact Or.inr (Or.inl h)
      · refine Or.inr (Or.inr ?_)
        cases hm' : m' (ext q s) with
        | ok a' s' => exact absurd hm' (h a' s')
        | err e' s' => simp only [rbind]; exact hre'.notOk e' s'
        | panic p => exact NotOk.panic
        | fuel => exact NotOk.fuel
    | panic p => trivial
    | fuel => trivial
  | panic p => trivial
  | fuel => trivial

theorem TS.bind_attemptM {α β : Type} {Xf : List UInt8 → Err → Prop}
    (hX : ∀ r1 r2 e, r1 <:+ r2 → Xf r1 e → Xf r2 e)
    {m m' : P α} {f f' : Except Err α → P β}
    {Q1 : α → St → Res α → Prop} {Q2 : β → St → Res β → Prop}
    (hm : TS (Xf s.rd.rest) Q1 m m' s q)
    (hok : ∀ a s1, m s = .ok a s1 → m' (ext q s) = .ok a (ext q s1) →
      TS (Xf s1.rd.rest) Q2 (f (.ok a)) (f' (.ok a)) s1 q)
    (hdiv : ∀ a s1, m s = .ok a s1 → s1.rd.rest = [] → Q1 a s1 (m' (ext q s)) →
      TE (Xf s.rd.rest) Q2 (f (.ok a)) (rbind (attempt m' (ext q s)) f') s1)
    (hre : Reraises f) (hre' : Reraises f') :
    TS (Xf s.rd.rest) Q2 (attempt m >>= f) (attempt m' >>= f') s q :=
  TS.bind_attempt hm
    (fun a s1 hms hin => (hok a s1 hms hin).weakenX (fun e => hX _ _ e (hm.suffix hms))) hdiv hre hre'

/-- the shape of the continuations in `next_value`: `leave`, one more attempt, then the error -/
theorem reraises_leave {α β γ : Type} {g : P γ} {k : Except Err α → Except Err γ → P β}
    (hk : ∀ e es x, k (.error e) es x = .err e x) :
    Reraises (fun ret => leave >>= fun _ => attempt g >>= fun es => k ret es) := by
  intro e x
  dsimp only
  rw [bind_eq]
  unfold leave
  simp only [rbind]
  rw [bind_eq]
  unfold attempt
  cases g _ with
  | ok a s1 => simp only [rbind, hk]
  | err e1 s1 => simp only [rbind, hk]
  | panic p => trivial
  | fuel => trivial

end parse
end Trunc
end Parse
end Lexpr
