/-
  SpecRTElisp — C02, last clause: the text written under the Emacs Lisp printer options "is readable by
  an independent reader of the documented Emacs Lisp subset" (`Spec.readElispWith`,
  Spec/ReaderElisp.lean), as the documented folding of the value (Nil and false become the empty
  list, true the symbol `t`, the empty byte vector the empty string).

  Same plan as SpecRT.lean: the generic structure theorem of SpecRTBase.lean instantiated with the
  lexemes and meanings of this dialect, and one lemma per kind of atom.
-/
import LexprModel.Proofs.SpecRTNum
import LexprModel.Spec.ReaderElisp
namespace Lexpr
namespace SpecRT
namespace El
open Spec Print

abbrev pe : Print.Options := Print.Options.elisp
abbrev re : Parse.Options := Parse.Options.elisp

/-! ## 1. Lexemes and brackets -/

theorem lexeme_lpar (r : List UInt8) : Elisp.lexeme (40 :: r) = some (some .lpar, 1) := by
  simp [Elisp.lexeme, isWhite]
theorem lexeme_rpar (r : List UInt8) : Elisp.lexeme (41 :: r) = some (some .rpar, 1) := by
  simp [Elisp.lexeme, isWhite]
theorem lexeme_lbrk (r : List UInt8) : Elisp.lexeme (91 :: [] ++ r) = some (some .lbrk, 1) := by
  simp [Elisp.lexeme, isWhite]
theorem lexeme_rbrk (r : List UInt8) : Elisp.lexeme (93 :: r) = some (some .rbrk, 1) := by
  simp [Elisp.lexeme, isWhite]
theorem lexeme_space (r : List UInt8) : Elisp.lexeme (32 :: r) = some (none, 1) := by
  simp [Elisp.lexeme, isWhite]

theorem asc_hq : asc "#'" = [35, 39] := by decide

/-- a run of non-delimiter bytes that does not start like another lexeme is one atom lexeme -/
theorem atom_lexeme (x : UInt8) (xs rest : List UInt8) (hnd : ∀ b ∈ x :: xs, isDelim b = false)
    (hq : x ≠ 39 ∧ x ≠ 96 ∧ x ≠ 44 ∧ x ≠ 35 ∧ x ≠ 63) (hf : Follow rest) :
    Elisp.lexeme (x :: xs ++ rest) = some (some (.atom (x :: xs)), xs.length + 1) := by
  obtain ⟨f1, f2, f3, f4, f5, f6, f7⟩ := nondelim_facts x (hnd x (by simp))
  have hlen := atomLen_append (x :: xs) rest hnd hf
  obtain ⟨q1, q2, q3, q4, q5⟩ := hq
  simp only [List.cons_append] at hlen ⊢
  simp [Elisp.lexeme, f1, f2, f3, f4, f5, f6, f7, q1, q2, q3, q4, q5, hlen, asc_hq]

theorem lexeme_dot (r : List UInt8) : Elisp.lexeme (46 :: 32 :: r) = some (some (.atom [46]), 1) :=
  atom_lexeme 46 [] (32 :: r) (by simp; decide) (by decide) (follow_cons 32 r (by decide))

theorem brackets_elisp (alpha : Nat → Bool) : Brackets Elisp.lexeme (Elisp.classify alpha) pe where
  lpar := lexeme_lpar
  rpar := lexeme_rpar
  space := lexeme_space
  dot := lexeme_dot
  cl_lpar := rfl
  cl_rpar := rfl
  cl_dot := rfl
  vec := ⟨91, [], 93, .lbrk, .rbrk, .rbrk, .vector .rbrk, by decide, by decide, by decide, lexeme_lbrk,
    rfl, lexeme_rbrk, rfl, fun _ => by simp [finish]⟩

theorem readsAs_atom (alpha : Nat → Bool) (x : UInt8) (xs : List UInt8) (w : Value)
    (hnd : ∀ b ∈ x :: xs, isDelim b = false) (hq : x ≠ 39 ∧ x ≠ 96 ∧ x ≠ 44 ∧ x ≠ 35 ∧ x ≠ 63)
    (hc : Elisp.classify alpha (.atom (x :: xs)) = some (.datum w)) :
    ReadsAs Elisp.lexeme (Elisp.classify alpha) (x :: xs) w :=
  readsAs_datum Elisp.lexeme (Elisp.classify alpha) x xs (.atom (x :: xs)) w
    (fun rest hf => atom_lexeme x xs rest hnd hq hf) hc

/-! ## 2. `nil` and `t` -/

theorem text_nil (ryu : Nat → List UInt8) : text pe ryu .nil = [110, 105, 108] := by
  simp only [text, emits, atomEmits, flatten_cons_all, flatten_nil]; decide

theorem text_bool (ryu : Nat → List UInt8) (b : Bool) :
    text pe ryu (.bool b) = if b then [116] else [110, 105, 108] := by
  cases b <;> (simp only [text, emits, atomEmits, flatten_cons_all, flatten_nil]; decide)

theorem reads_nil_text (alpha : Nat → Bool) :
    ReadsAs Elisp.lexeme (Elisp.classify alpha) [110, 105, 108] .null :=
  readsAs_atom alpha 110 _ .null (by decide) (by decide) rfl

theorem reads_nil (alpha : Nat → Bool) (ryu : Nat → List UInt8) :
    ReadsAs Elisp.lexeme (Elisp.classify alpha) (text pe ryu .nil) (fold pe re .nil) := by
  rw [text_nil]; exact reads_nil_text alpha

theorem reads_bool (alpha : Nat → Bool) (ryu : Nat → List UInt8) (b : Bool) :
    ReadsAs Elisp.lexeme (Elisp.classify alpha) (text pe ryu (.bool b)) (fold pe re (.bool b)) := by
  rw [text_bool]
  cases b
  · exact reads_nil_text alpha
  · exact readsAs_atom alpha 116 _ (.symbol [116]) (by decide) (by decide) rfl

/-! ## 3. Numbers -/

/-- a literal that does not end in `.` and does not start with `#` means what it means in Scheme -/
theorem number_eq (x : UInt8) (xs : List UInt8) (h35 : x ≠ 35) (hlast : (x :: xs).getLast? ≠ some 46) :
    Elisp.number (x :: xs) = Spec.number (x :: xs) := by
  have h1 : ((x :: xs).getLast? == some 46) = false := by simpa using hlast
  have e1 : asc "#d" = [35, 100] := by decide
  have e2 : asc "#D" = [35, 68] := by decide
  simp only [Elisp.number, h1, Bool.false_and, Bool.false_eq_true, if_false]
  simp [e1, e2, h35]

theorem numchar_facts : ∀ b : UInt8, FullRT.litByte b = true →
    isDelim b = false ∧ b ≠ 39 ∧ b ≠ 96 ∧ b ≠ 44 ∧ b ≠ 35 ∧ b ≠ 63 ∧ b ≠ 58 ∧ b ≠ 110 := by
  apply forall_u8; decide +kernel

theorem asc_nil : asc "nil" = [110, 105, 108] := by decide

theorem reads_number (alpha : Nat → Bool) (x : UInt8) (xs : List UInt8) (n : Number)
    (hb : ∀ b ∈ x :: xs, FullRT.litByte b = true)
    (hlast : (x :: xs).getLast? ≠ some 46) (hn : Spec.number (x :: xs) = some n) :
    ReadsAs Elisp.lexeme (Elisp.classify alpha) (x :: xs) (.number n) := by
  obtain ⟨-, q1, q2, q3, q4, q5, q6, q7⟩ := numchar_facts x (hb x (by simp))
  refine readsAs_atom alpha x xs _ (fun b h => (numchar_facts b (hb b h)).1) ⟨q1, q2, q3, q4, q5⟩ ?_
  have h46 : (x :: xs == [46]) = false := by
    cases xs with
    | nil => simpa using hlast
    | cons => simp
  have hnil : (x :: xs == asc "nil") = false := by
    rw [asc_nil]; simp [q7]
  have h58 : ((x :: xs).head? == some 58) = false := by simpa using q6
  simp only [Elisp.classify, h46, Bool.false_eq_true, if_false, Elisp.atomValue, hnil, h58,
    number_eq x xs q4 hlast, hn]
  rfl

theorem digit_litByte (b : UInt8) (h : Spec.isDigit b = true) : FullRT.litByte b = true :=
  FullRT.litByte_digit h

theorem digit_ne_dot : ∀ b : UInt8, Spec.isDigit b = true → b ≠ 46 := by
  apply forall_u8; decide +kernel

/-- a non-empty string of digits ends in a digit -/
theorem digits_last (ds : List UInt8) (hne : ds ≠ []) (hd : ∀ c ∈ ds, Spec.isDigit c = true)
    (pre : List UInt8) : (pre ++ ds).getLast? ≠ some 46 := by
  have h := List.getLast?_eq_some_getLast (l := ds) hne
  rw [List.getLast?_append, h]
  simp only [Option.some_or, ne_eq, Option.some.injEq]
  exact digit_ne_dot _ (hd _ (List.getLast_mem hne))

theorem text_number (ryu : Nat → List UInt8) (n : Number) :
    text pe ryu (.number n) = numberText ryu n := by
  simp [text, emits, atomEmits, flatten_cons_all, flatten_nil]

theorem reads_posint (alpha : Nat → Bool) (ryu : Nat → List UInt8) (n : Nat) (h : n ≤ u64Max) :
    ReadsAs Elisp.lexeme (Elisp.classify alpha) (text pe ryu (.number (.pos n)))
      (.number (.pos n)) := by
  rw [text_number]
  show ReadsAs _ _ (natDigits n) _
  have hdig := natDigits_digits n
  have hn := number_natDigits n
  have hl := digits_last (natDigits n) (Decimals.natDigits_ne_nil n) hdig []
  obtain ⟨x, tl, he⟩ := natDigits_cons n
  rw [List.nil_append] at hl
  rw [he] at hdig hn hl ⊢
  refine reads_number alpha x tl _ (fun b hb => digit_litByte b (hdig b hb)) hl ?_
  rw [hn]; simp [integerOf, h]

theorem reads_negint (alpha : Nat → Bool) (ryu : Nat → List UInt8) (i : Int)
    (h1 : i64Min ≤ i) (h2 : i < 0) :
    ReadsAs Elisp.lexeme (Elisp.classify alpha) (text pe ryu (.number (.neg i)))
      (.number (.neg i)) := by
  rw [text_number]
  have hi : numberText ryu (.neg i) = 45 :: natDigits i.natAbs := by
    simp only [numberText, intDigits, h2, if_true]; rfl
  rw [hi]
  have hdig := natDigits_digits i.natAbs
  have hl := digits_last (natDigits i.natAbs) (Decimals.natDigits_ne_nil _) hdig [45]
  refine reads_number alpha 45 _ _ (fun b hb => ?_) hl ?_
  · rcases List.mem_cons.mp hb with rfl | hb
    · decide
    · exact digit_litByte b (hdig b hb)
  · rw [number_neg_natDigits]
    have e0 : i.natAbs ≠ 0 := by omega
    have e1 : i.natAbs ≤ 9223372036854775808 := by unfold i64Min at h1; omega
    have e2 : -(i.natAbs : Int) = i := by omega
    simp [integerOf, e0, e1, e2]

open Decimals in
/-- a well-formed decimal literal ends in a digit -/
theorem lit_last (L : DecLit) (hwf : L.WF) (pre : List UInt8) : (pre ++ L.text).getLast? ≠ some 46 := by
  obtain ⟨ip, fp, ex⟩ := L
  obtain ⟨hne, hip, hfp, hex, -⟩ := hwf
  simp only at hne hip hfp hex
  cases ex with
  | some e =>
    obtain ⟨-, -, hdne, hd⟩ := hex e rfl
    have := digits_last e.digits hdne hd (pre ++ (ip ++ (fracText fp ++ (e.mark :: e.sign))))
    simpa [DecLit.text, expText, ExpPart.text] using this
  | none =>
    cases fp with
    | some f =>
      obtain ⟨hfne, hf⟩ := hfp f rfl
      have := digits_last f hfne hf (pre ++ (ip ++ [46]))
      simpa [DecLit.text, expText, fracText] using this
    | none =>
      have := digits_last ip hne hip pre
      simpa [DecLit.text, expText, fracText] using this

open Decimals in
theorem reads_float (alpha : Nat → Bool) (ryu : Nat → List UInt8) (b : Nat) (hb : b < 2 ^ 64)
    (d : RyuDec) (hspec : RyuSpec ryu b d) :
    ReadsAs Elisp.lexeme (Elisp.classify alpha) (text pe ryu (.number (.flt b)))
      (.number (.flt b)) := by
  rw [text_number]
  show ReadsAs _ _ (ryu b) _
  obtain ⟨hwf, htext, hsign, hround⟩ := hspec
  have hfacts := d.litFacts hwf
  have hbytes := FullRT.DecLit.text_bytes d.lit hfacts.wf
  obtain ⟨c, tl, hc, hdig⟩ := d.lit.text_head hfacts.wf
  have hnum := number_lit d.lit hfacts.wf d.neg
  have hval : decRn d.lit.rawSig d.lit.rawExp = b % F64.signBit := by
    rw [← d.lit.decRn_eq, hfacts.sig, hfacts.exp, d.decRn_SE hwf, hround]
  have hsb : (if d.neg = true then F64.signBit else 0) + b % F64.signBit = b := by
    rw [hsign]; exact sign_bits b hb
  rw [hval, hsb] at hnum
  have hl := lit_last d.lit hfacts.wf (if d.neg = true then [45] else [])
  rw [htext]
  unfold RyuDec.text
  have hall : ∀ x ∈ (if d.neg = true then [45] else []) ++ d.lit.text, FullRT.litByte x = true := by
    intro x hx
    rcases List.mem_append.mp hx with hx | hx
    · have : x = 45 := by
        cases hn : d.neg <;> simp [hn] at hx
        exact hx
      subst this; decide
    · exact hbytes x hx
  cases hneg : d.neg with
  | true =>
    simp only [hneg, if_true, List.cons_append, List.nil_append] at hnum hall hl ⊢
    exact reads_number alpha 45 _ _ hall hl hnum
  | false =>
    simp only [hneg, Bool.false_eq_true, if_false, List.nil_append, hc] at hnum hall hl ⊢
    exact reads_number alpha c tl _ hall hl hnum

/-! ## 4. Characters -/

theorem takeWhile_stop (p : UInt8 → Bool) (ds rest : List UInt8) (hd : ∀ c ∈ ds, p c = true)
    (hs : ∀ c r, rest = c :: r → p c = false) : (ds ++ rest).takeWhile p = ds := by
  induction ds with
  | nil =>
    cases rest with
    | nil => rfl
    | cons c r => simp [hs c r rfl]
  | cons d ds ih =>
    simp [hd d (by simp), ih (fun c hc => hd c (by simp [hc]))]

theorem delim_not_hex : ∀ b : UInt8, isDelim b = true → Elisp.isHex b = false := by
  apply forall_u8; decide +kernel

theorem follow_not_hex (rest : List UInt8) (hf : Follow rest) :
    ∀ c r, rest = c :: r → Elisp.isHex c = false := by
  intro c r h
  rcases hf with rfl | ⟨b, tl, rfl, hb⟩
  · cases h
  · simp only [List.cons.injEq] at h; rw [← h.1]; exact delim_not_hex b hb

/-- the characters the printer writes after a backslash stand for themselves -/
theorem esc_self_facts : ∀ b : UInt8, elispEscapeChars.contains b = true →
    (b == 94) = false ∧ b ∉ asc "CMSHAs" ∧ (b == 120) = false ∧
    Elisp.isOct b = false ∧ (b == 117) = false ∧ (b == 85) = false ∧ (b == 78) = false ∧
    Elisp.mnemonic.lookup b = none ∧ b < 0x80 ∧ Utf8.encode b.toNat = [b] := by
  apply forall_u8; decide +kernel

theorem escape_self (b : UInt8) (rest : List UInt8) (h : elispEscapeChars.contains b = true) :
    Elisp.escape (b :: rest) = some (.chr b.toNat, 1) := by
  obtain ⟨h1, h2, h3, h4, h5, h6, h7, h8, h9, h10⟩ := esc_self_facts b h
  simp [Elisp.escape, h1, h2, h3, h4, h5, h6, h7, h8, Utf8.decodeFirst, h9, h10]

theorem printable_facts' : ∀ c, c < 127 → 32 ≤ c →
    UInt8.ofNat c < 0x80 ∧ (UInt8.ofNat c).toNat = c ∧ Utf8.encode c = [UInt8.ofNat c] ∧
    (elispEscapeChars.contains (UInt8.ofNat c) = false → (UInt8.ofNat c == 92) = false) := by
  decide

theorem lexeme_char_esc (c : Nat) (hp : 32 ≤ c ∧ c < 127) (rest : List UInt8)
    (he : elispEscapeChars.contains (UInt8.ofNat c) = true) (hf : Follow rest) :
    Elisp.lexeme (63 :: [92, UInt8.ofNat c] ++ rest) = some (some (.chr c []), 3) := by
  obtain ⟨-, p2, -, -⟩ := printable_facts' c hp.2 hp.1
  simp [Elisp.lexeme, isWhite, asc_hq, Elisp.charBody, escape_self _ rest he, p2,
    atomLen_follow rest hf]

theorem lexeme_char_plain (c : Nat) (hp : 32 ≤ c ∧ c < 127) (rest : List UInt8)
    (he : elispEscapeChars.contains (UInt8.ofNat c) = false) (hf : Follow rest) :
    Elisp.lexeme (63 :: [UInt8.ofNat c] ++ rest) = some (some (.chr c []), 2) := by
  obtain ⟨p1, p2, p3, p4⟩ := printable_facts' c hp.2 hp.1
  simp [Elisp.lexeme, isWhite, asc_hq, Elisp.charBody, p4 he, Utf8.decodeFirst, p1, p2, p3,
    atomLen_follow rest hf]

theorem hex_isHex (c : Nat) : ∀ b ∈ natHexLower c, Elisp.isHex b = true :=
  fun b hb => ((natHexLower_facts c).2.1 b hb).1

theorem escape_hex (c : Nat) (hc : isScalar c = true) (rest : List UInt8) (hf : Follow rest) :
    ∃ e, Elisp.escape (120 :: (natHexLower c ++ rest)) = some (e, 1 + (natHexLower c).length) ∧
      (e = .chr c ∨ e = .raw c) := by
  have ht := takeWhile_stop Elisp.isHex (natHexLower c) rest (hex_isHex c) (follow_not_hex rest hf)
  have e1 : (120 : UInt8) ∉ asc "CMSHAs" := by decide
  by_cases h : c < 256
  · exact ⟨.raw c, by simp [Elisp.escape, e1, ht, digitsVal_hex, Elisp.numEsc, h], Or.inr rfl⟩
  · exact ⟨.chr c, by simp [Elisp.escape, e1, ht, digitsVal_hex, Elisp.numEsc, h, hc], Or.inl rfl⟩

theorem lexeme_char_hex (c : Nat) (hc : isScalar c = true) (rest : List UInt8) (hf : Follow rest) :
    Elisp.lexeme (63 :: (92 :: 120 :: natHexLower c) ++ rest) =
      some (some (.chr c []), (92 :: 120 :: natHexLower c).length + 1) := by
  obtain ⟨e, he, hv⟩ := escape_hex c hc rest hf
  have hd : List.drop (natHexLower c).length (natHexLower c ++ rest) = rest := by simp
  rcases hv with rfl | rfl <;>
    (simp [Elisp.lexeme, isWhite, asc_hq, Elisp.charBody, he, atomLen_follow rest hf,
      Nat.add_comm 1 (natHexLower c).length, hd]
     try omega)

theorem asc_qbx : asc "?\\x" = [63, 92, 120] := by decide

theorem text_char (ryu : Nat → List UInt8) (c : Nat) : text pe ryu (.char c) = elispChar c := by
  simp [text, emits, atomEmits, charText, pe, Print.Options.elisp, flatten_cons_all, flatten_nil]

theorem reads_char (alpha : Nat → Bool) (ryu : Nat → List UInt8) (c : Nat)
    (h : isScalar c = true) :
    ReadsAs Elisp.lexeme (Elisp.classify alpha) (text pe ryu (.char c)) (.char c) := by
  rw [text_char]
  have hcl : Elisp.classify alpha (.chr c []) = some (.datum (.char c)) := by
    simp [Elisp.classify, h]
  unfold elispChar
  split
  · rename_i hp
    split
    · rename_i he
      exact readsAs_datum _ _ 63 [92, UInt8.ofNat c] (.chr c []) _
        (fun rest hf => lexeme_char_esc c hp rest he hf) hcl
    · rename_i he
      exact readsAs_datum _ _ 63 [UInt8.ofNat c] (.chr c []) _
        (fun rest hf => lexeme_char_plain c hp rest (by simpa using he) hf) hcl
  · rw [asc_qbx]
    exact readsAs_datum _ _ 63 (92 :: 120 :: natHexLower c) (.chr c []) _
      (fun rest hf => lexeme_char_hex c h rest hf) hcl

/-! ## 5. Strings -/

/-- what one printed byte of a string is read as: itself, or the character of its escape -/
def elOf (b : UInt8) : Elisp.StrEl :=
  if escClass b = .none then .lit b else .esc (.chr b.toNat)

def PieceE (el : Elisp.StrEl) (p : List UInt8) : Prop :=
  ∃ x xs, p = x :: xs ∧
    (∀ rest, strLen (x :: xs ++ rest) = (strLen rest).map (· + (xs.length + 1))) ∧
    (∀ rest, Elisp.strElement (x :: xs ++ rest) = some (el, xs.length + 1))

theorem two_facts : ∀ e : UInt8, (asc "\"\\abtnr").contains e = true →
    (e == 10) = false ∧ (e == 32) = false ∧ (e == 94) = false ∧ e ∉ asc "CMSHAs" ∧
    (e == 120) = false ∧ Elisp.isOct e = false ∧ (e == 117) = false ∧ (e == 85) = false ∧
    (e == 78) = false ∧ e < 0x80 := by
  apply forall_u8; decide +kernel

/-- a backslash and a mnemonic letter, a quote or a backslash -/
theorem piece_two (c : Nat) (e : UInt8) (he : (asc "\"\\abtnr").contains e = true)
    (hl : (Elisp.mnemonic.lookup e).getD e.toNat = c) (hc : (Utf8.encode e.toNat).length = 1) :
    PieceE (.esc (.chr c)) [92, e] := by
  obtain ⟨h1, h2, h3, h4, h5, h6, h7, h8, h9, h10⟩ := two_facts e he
  refine ⟨92, [e], rfl, fun rest => strLen_esc e rest, ?_⟩
  intro rest
  cases hm : Elisp.mnemonic.lookup e with
  | some v =>
    rw [hm] at hl; simp only [Option.getD_some] at hl; subst hl
    simp [Elisp.strElement, Elisp.escape, h1, h2, h3, h4, h5, h6, h7, h8, h9, hm]
  | none =>
    rw [hm] at hl; simp only [Option.getD_none] at hl; subst hl
    simp [Elisp.strElement, Elisp.escape, h1, h2, h3, h4, h5, h6, h7, h8, h9, hm,
      Utf8.decodeFirst, h10, hc]

theorem control_factsE : ∀ b : UInt8, escClass b = .control →
    let h1 := hexDigitUpper (b.toNat / 16); let h2 := hexDigitUpper (b.toNat % 16)
    (h1 == 34) = false ∧ (h1 == 92) = false ∧ (h2 == 34) = false ∧ (h2 == 92) = false ∧
    digitsVal 16 [48, 48, h1, h2] = some b.toNat ∧ isScalar b.toNat = true := by
  apply forall_u8; decide +kernel

theorem piece_escapeE (b : UInt8) : PieceE (elOf b) (escapeText .elisp b (escClass b)) := by
  obtain ⟨c1, c2, c3, c4, c5, c6, c7⟩ := class_byte b
  unfold elOf
  cases h : escClass b with
  | none =>
    obtain ⟨h1, h2⟩ := plain_facts b h
    refine ⟨b, [], rfl, fun rest => strLen_plain b rest h1 h2, ?_⟩
    intro rest
    simp [Elisp.strElement, h2]
  | quote => rw [c1 h]; exact piece_two 34 34 (by decide) (by decide) (by decide)
  | reverseSolidus => rw [c2 h]; exact piece_two 92 92 (by decide) (by decide) (by decide)
  | alert => rw [c3 h]; exact piece_two 7 97 (by decide) (by decide) (by decide)
  | backspace => rw [c4 h]; exact piece_two 8 98 (by decide) (by decide) (by decide)
  | tab => rw [c5 h]; exact piece_two 9 116 (by decide) (by decide) (by decide)
  | lineFeed => rw [c6 h]; exact piece_two 10 110 (by decide) (by decide) (by decide)
  | carriageReturn => rw [c7 h]; exact piece_two 13 114 (by decide) (by decide) (by decide)
  | control =>
    obtain ⟨g1, g2, g3, g4, g5, g6⟩ := control_factsE b h
    refine ⟨92, [117, 48, 48, hexDigitUpper (b.toNat / 16), hexDigitUpper (b.toNat % 16)], rfl, ?_, ?_⟩
    · intro rest
      show strLen (92 :: 117 :: 48 :: 48 :: hexDigitUpper (b.toNat / 16) ::
        hexDigitUpper (b.toNat % 16) :: rest) = _
      rw [strLen_esc, strLen_plain 48 _ (by decide) (by decide),
        strLen_plain 48 _ (by decide) (by decide), strLen_plain _ _ g1 g2, strLen_plain _ _ g3 g4,
        map_add_map, map_add_map, map_add_map, map_add_map]
      rfl
    · intro rest
      have e1 : (117 : UInt8) ∉ asc "CMSHAs" := by decide
      have e2 : Elisp.isOct 117 = false := by decide
      show Elisp.strElement (92 :: 117 :: 48 :: 48 :: hexDigitUpper (b.toNat / 16) ::
        hexDigitUpper (b.toNat % 16) :: rest) = _
      simp [Elisp.strElement, Elisp.escape, e1, e2, g5, Elisp.uniEsc, g6]

theorem escapeStr_consE (b : UInt8) (bs : List UInt8) :
    escapeStr .elisp (b :: bs) = escapeText .elisp b (escClass b) ++ escapeStr .elisp bs := by
  simp [escapeStr]

theorem strLen_escapeStrE (s rest : List UInt8) :
    strLen (escapeStr .elisp s ++ 34 :: rest) = some (escapeStr .elisp s).length := by
  induction s with
  | nil => rw [show escapeStr .elisp [] = [] from rfl, List.nil_append, strLen_cons]; rfl
  | cons b bs ih =>
    obtain ⟨x, xs, hp, h1, -⟩ := piece_escapeE b
    rw [escapeStr_consE, hp, List.append_assoc, h1, ih]
    simp; omega

theorem chunks_escapeStrE (s : List UInt8) :
    chunks Elisp.strElement 0 (escapeStr .elisp s) = some (s.map elOf) := by
  induction s with
  | nil => rfl
  | cons b bs ih =>
    obtain ⟨x, xs, hp, -, h2⟩ := piece_escapeE b
    rw [escapeStr_consE, hp, chunks_one Elisp.strElement x xs _ _ (h2 _), ih]
    rfl

theorem elOf_facts : ∀ b : UInt8, (elOf b).isRaw = false ∧ (elOf b).bytes = [b] := by
  apply forall_u8; decide +kernel

theorem elOf_list (s : List UInt8) :
    (s.map elOf).any Elisp.StrEl.isRaw = false ∧ (s.map elOf).flatMap Elisp.StrEl.bytes = s := by
  induction s with
  | nil => exact ⟨rfl, rfl⟩
  | cons b bs ih =>
    obtain ⟨f1, f2⟩ := elOf_facts b
    simp [f1, f2, ih.1, ih.2]

/-- a string lexeme: the body up to the closing quote -/
theorem lexeme_string (body rest : List UInt8) (h : strLen (body ++ 34 :: rest) = some body.length) :
    Elisp.lexeme (34 :: (body ++ [34]) ++ rest) =
      some (some (.str body), (body ++ [34]).length + 1) := by
  have e : body ++ [34] ++ rest = body ++ 34 :: rest := by simp
  simp [Elisp.lexeme, isWhite, asc_hq, e, h]

theorem text_string (ryu : Nat → List UInt8) (s : List UInt8) :
    text pe ryu (.string s) = 34 :: (escapeStr .elisp s ++ [34]) := by
  have hq : asc "\"" = [34] := by decide
  simp [text, emits, atomEmits, pe, Print.Options.elisp, flatten_cons_all, flatten_nil, hq]

theorem reads_string (alpha : Nat → Bool) (ryu : Nat → List UInt8) (s : List UInt8)
    (h : Utf8.valid s = true) :
    ReadsAs Elisp.lexeme (Elisp.classify alpha) (text pe ryu (.string s)) (.string s) := by
  rw [text_string]
  refine readsAs_datum _ _ 34 (escapeStr .elisp s ++ [34]) (.str (escapeStr .elisp s)) _
    (fun rest _ => lexeme_string _ rest (strLen_escapeStrE s rest)) ?_
  obtain ⟨f1, f2⟩ := elOf_list s
  have f3 : ((s.map elOf).any fun e => e.isRaw && e.bytes.any (· ≥ 128)) = false := by
    rw [List.any_eq_false] at f1 ⊢
    intro e he
    simp [Bool.eq_false_iff.mpr (f1 e he)]
  simp only [Elisp.classify, Elisp.strValue, chunks_escapeStrE, f1, f2, f3, Bool.false_and,
    Bool.false_eq_true, if_false, h, if_true]
  rfl

/-! ## 6. Byte vectors (unibyte strings) -/

theorem octal_facts : ∀ b : UInt8,
    let o1 := octalDigit (b.toNat / 64 % 8); let o2 := octalDigit (b.toNat / 8 % 8)
    let o3 := octalDigit (b.toNat % 8)
    (o2 == 34) = false ∧ (o2 == 92) = false ∧ (o3 == 34) = false ∧ (o3 == 92) = false ∧
    (o1 == 10) = false ∧ (o1 == 32) = false ∧ (o1 == 94) = false ∧ o1 ∉ asc "CMSHAs" ∧
    (o1 == 120) = false ∧ Elisp.isOct o1 = true ∧ Elisp.isOct o2 = true ∧ Elisp.isOct o3 = true ∧
    digitsVal 8 [o1, o2, o3] = some b.toNat := by
  apply forall_u8; decide +kernel

theorem piece_octal (b : UInt8) :
    PieceE (.esc (.raw b.toNat)) [92, octalDigit (b.toNat / 64 % 8), octalDigit (b.toNat / 8 % 8),
      octalDigit (b.toNat % 8)] := by
  obtain ⟨g1, g2, g3, g4, g5, g6, g7, g8, g9, g10, g11, g12, g13⟩ := octal_facts b
  have hb : b.toNat < 256 := UInt8.toNat_lt b
  refine ⟨92, _, rfl, ?_, ?_⟩
  · intro rest
    show strLen (92 :: octalDigit (b.toNat / 64 % 8) :: octalDigit (b.toNat / 8 % 8) ::
      octalDigit (b.toNat % 8) :: rest) = _
    rw [strLen_esc, strLen_plain _ _ g1 g2, strLen_plain _ _ g3 g4, map_add_map, map_add_map]
    rfl
  · intro rest
    show Elisp.strElement (92 :: octalDigit (b.toNat / 64 % 8) :: octalDigit (b.toNat / 8 % 8) ::
      octalDigit (b.toNat % 8) :: rest) = _
    simp [Elisp.strElement, Elisp.escape, g5, g6, g7, g8, g9, g10, g11, g12, g13, Elisp.numEsc, hb]

theorem bytesText_cons (b : UInt8) (bs : List UInt8) :
    elispBytesText (b :: bs) = [92, octalDigit (b.toNat / 64 % 8), octalDigit (b.toNat / 8 % 8),
      octalDigit (b.toNat % 8)] ++ elispBytesText bs := by
  simp [elispBytesText, ch]

theorem strLen_bytesText (bs rest : List UInt8) :
    strLen (elispBytesText bs ++ 34 :: rest) = some (elispBytesText bs).length := by
  induction bs with
  | nil => rw [show elispBytesText [] = [] from rfl, List.nil_append, strLen_cons]; rfl
  | cons b bs ih =>
    obtain ⟨x, xs, hp, h1, -⟩ := piece_octal b
    rw [bytesText_cons, hp, List.append_assoc, h1, ih]
    simp; omega

theorem chunks_bytesText (bs : List UInt8) :
    chunks Elisp.strElement 0 (elispBytesText bs) =
      some (bs.map fun b => .esc (.raw b.toNat)) := by
  induction bs with
  | nil => rfl
  | cons b bs ih =>
    obtain ⟨x, xs, hp, -, h2⟩ := piece_octal b
    rw [bytesText_cons, hp, chunks_one Elisp.strElement x xs _ _ (h2 _), ih]
    rfl

theorem raw_list (bs : List UInt8) :
    let es : List Elisp.StrEl := bs.map fun b => .esc (.raw b.toNat)
    es.any Elisp.StrEl.isRaw = !bs.isEmpty ∧ es.any Elisp.StrEl.nonAscii = false ∧
    es.flatMap Elisp.StrEl.bytes = bs := by
  induction bs with
  | nil => exact ⟨rfl, rfl, rfl⟩
  | cons b bs ih =>
    obtain ⟨-, i2, i3⟩ := ih
    refine ⟨by simp [Elisp.StrEl.isRaw], ?_, ?_⟩
    · simp [Elisp.StrEl.nonAscii, i2]
    · simp only [List.map_cons, List.flatMap_cons, Elisp.StrEl.bytes, UInt8.ofNat_toNat]
      rw [i3]; rfl

theorem text_bytes (ryu : Nat → List UInt8) (bs : List UInt8) :
    text pe ryu (.bytes bs) = 34 :: (elispBytesText bs ++ [34]) := by
  have hq : asc "\"" = [34] := by decide
  simp [text, emits, atomEmits, bytesEmits, pe, Print.Options.elisp, flatten_cons_all, flatten_nil, hq]

theorem reads_bytes (alpha : Nat → Bool) (ryu : Nat → List UInt8) (bs : List UInt8) :
    ReadsAs Elisp.lexeme (Elisp.classify alpha) (text pe ryu (.bytes bs)) (fold pe re (.bytes bs)) := by
  rw [text_bytes]
  refine readsAs_datum _ _ 34 (elispBytesText bs ++ [34]) (.str (elispBytesText bs)) _
    (fun rest _ => lexeme_string _ rest (strLen_bytesText bs rest)) ?_
  obtain ⟨f1, f2, f3⟩ := raw_list bs
  cases bs with
  | nil => rfl
  | cons b bs =>
    simp only [List.isEmpty_cons, Bool.not_false] at f1
    simp only [Elisp.classify, Elisp.strValue, chunks_bytesText, f1, f2, f3, Bool.not_false,
      Bool.and_self, if_true, fold, List.isEmpty_cons, Bool.false_and, Bool.false_eq_true, if_false]
    rfl

/-! ## 7. Symbols and keywords -/

theorem constituent_facts : ∀ b : UInt8, Elisp.isConstituent b = true →
    isDelim b = false ∧ b ≠ 39 ∧ b ≠ 96 ∧ b ≠ 44 ∧ b ≠ 35 := by
  apply forall_u8; decide +kernel

/-- the names that are symbols of the Emacs Lisp subset and are read as such: not `nil` (the empty
    list) and not starting with `:` (a keyword) -/
def SymbolOK (alpha : Nat → Bool) (n : List UInt8) : Prop :=
  Elisp.isSymbol alpha n = true ∧ n ≠ asc "nil" ∧ n.head? ≠ some 58

theorem isSymbol_parts {alpha : Nat → Bool} {n : List UInt8} (h : Elisp.isSymbol alpha n = true) :
    n ≠ [] ∧ (∀ b ∈ n, Elisp.isConstituent b = true) ∧ n.head? ≠ some 63 ∧ n ≠ [46] ∧
    Elisp.number n = none := by
  simp only [Elisp.isSymbol, Bool.and_eq_true, Bool.not_eq_true', List.all_eq_true, bne_iff_ne, ne_eq,
    Option.isNone_iff_eq_none] at h
  obtain ⟨⟨⟨⟨⟨h1, h2⟩, h3⟩, h4⟩, h5⟩, -⟩ := h
  exact ⟨by intro e; simp [e] at h1, h2, h3, h4, h5⟩

theorem text_symbol (ryu : Nat → List UInt8) (n : List UInt8) : text pe ryu (.symbol n) = n := by
  simp [text, emits, atomEmits, flatten_cons_all, flatten_nil]

theorem text_keyword (ryu : Nat → List UInt8) (n : List UInt8) :
    text pe ryu (.keyword n) = 58 :: n := by
  have h : asc ":" = [58] := by decide
  simp [text, emits, atomEmits, keywordEmits, pe, Print.Options.elisp, flatten_cons_all,
    flatten_nil, h]

theorem reads_symbol (alpha : Nat → Bool) (ryu : Nat → List UInt8) (n : List UInt8)
    (h : SymbolOK alpha n) :
    ReadsAs Elisp.lexeme (Elisp.classify alpha) (text pe ryu (.symbol n)) (.symbol n) := by
  rw [text_symbol]
  obtain ⟨hs, hnil, h58⟩ := h
  obtain ⟨hne, hall, h63, h46, hnum⟩ := isSymbol_parts hs
  cases n with
  | nil => exact absurd rfl hne
  | cons x xs =>
    obtain ⟨-, q1, q2, q3, q4⟩ := constituent_facts x (hall x (by simp))
    refine readsAs_atom alpha x xs _ (fun b hb => (constituent_facts b (hall b hb)).1)
      ⟨q1, q2, q3, q4, by simpa using h63⟩ ?_
    have e46 : (x :: xs == [46]) = false := by simpa using h46
    have enil : (x :: xs == asc "nil") = false := by simpa using hnil
    have e58 : ((x :: xs).head? == some 58) = false := by simpa using h58
    simp only [Elisp.classify, e46, Bool.false_eq_true, if_false, Elisp.atomValue, enil, e58, hnum,
      hs, if_true]
    rfl

theorem reads_keyword (alpha : Nat → Bool) (ryu : Nat → List UInt8) (n : List UInt8)
    (h : Elisp.isSymbol alpha n = true) :
    ReadsAs Elisp.lexeme (Elisp.classify alpha) (text pe ryu (.keyword n)) (.keyword n) := by
  rw [text_keyword]
  obtain ⟨hne, hall, -, -, -⟩ := isSymbol_parts h
  refine readsAs_atom alpha 58 n _ ?_ (by decide) ?_
  · intro b hb
    rcases List.mem_cons.mp hb with rfl | hb
    · decide
    · exact (constituent_facts b (hall b hb)).1
  · have e46 : (58 :: n == [46]) = false := by simp
    have enil : (58 :: n == asc "nil") = false := by rw [asc_nil]; simp
    simp only [Elisp.classify, e46, Bool.false_eq_true, if_false, Elisp.atomValue, enil,
      List.head?_cons, beq_self_eq_true, if_true, List.drop_succ_cons, List.drop_zero, h]
    rfl

/-! ## 8. Main theorems -/

/-- The leaves of the Emacs Lisp independent-reader theorem: Nil, booleans, `u64` / negative `i64`
    integers, doubles for which ryu meets its specification (no exactness window), scalar
    characters, valid UTF-8 strings, byte vectors with any content, symbols that are symbols of the
    subset other than `nil` and not starting with `:`, keywords whose names are such symbols. -/
def ElispLeaf (alpha : Nat → Bool) (ryu : Nat → List UInt8) : Value → Prop
  | .nil => True
  | .bool _ => True
  | .number (.pos n) => n ≤ u64Max
  | .number (.neg i) => i64Min ≤ i ∧ i < 0
  | .number (.flt b) => b < 2 ^ 64 ∧ ∃ d : Decimals.RyuDec, Decimals.RyuSpec ryu b d
  | .char c => isScalar c = true
  | .string x => Utf8.valid x = true
  | .symbol x => SymbolOK alpha x
  | .keyword x => Elisp.isSymbol alpha x = true
  | .bytes _ => True
  | _ => False

theorem reads_leaf (alpha : Nat → Bool) (ryu : Nat → List UInt8) (v : Value)
    (h : ElispLeaf alpha ryu v) :
    ReadsAs Elisp.lexeme (Elisp.classify alpha) (text pe ryu v) (fold pe re v) := by
  cases v with
  | nil => exact reads_nil alpha ryu
  | bool b => exact reads_bool alpha ryu b
  | number n =>
    cases n with
    | pos n => exact reads_posint alpha ryu n h
    | neg i => exact reads_negint alpha ryu i h.1 h.2
    | flt b => obtain ⟨hb, d, hd⟩ := h; exact reads_float alpha ryu b hb d hd
  | char c => exact reads_char alpha ryu c h
  | string x => exact reads_string alpha ryu x h
  | symbol x => exact reads_symbol alpha ryu x h
  | keyword x => exact reads_keyword alpha ryu x h
  | bytes x => exact reads_bytes alpha ryu x
  | null => exact absurd h id
  | cons a d => exact absurd h id
  | vector xs => exact absurd h id

theorem readElisp_eq (alpha : Nat → Bool) (bs : List UInt8) :
    readElispWith alpha bs = (lexItems Elisp.lexeme (Elisp.classify alpha) bs).bind build := by
  unfold readElispWith lexItems
  cases chunks Elisp.lexeme 0 bs <;> rfl

/-- **C02_independent_elisp_leaves.**  The text written under the Emacs Lisp printer options is read
    by the independent Emacs Lisp reader as the documented folding of the value: one datum, nothing
    left over, any nesting depth. -/
theorem C02_independent_elisp_leaves (alpha : Nat → Bool) (ryu : Nat → List UInt8) (v : Value)
    (h : Leaves (ElispLeaf alpha ryu) v) :
    readElispWith alpha (Print.text Print.Options.elisp ryu v) =
      some (Spec.fold Print.Options.elisp Parse.Options.elisp v) := by
  rw [readElisp_eq]
  exact read_of_readsAs _ _ _ _
    (value_reads Elisp.lexeme (Elisp.classify alpha) pe (brackets_elisp alpha) ryu re
      (ElispLeaf alpha ryu) (fun v _ _ _ hv => reads_leaf alpha ryu v hv) v h)

/-- symbol and keyword names are symbols of the documented subset -/
def ElNames (alpha : Nat → Bool) : Value → Prop
  | .symbol x => Elisp.isSymbol alpha x = true
  | .keyword x => Elisp.isSymbol alpha x = true
  | _ => True

theorem symbolPlain_elisp (cfg : Parse.Cfg) (ho : cfg.opts = Parse.Options.elisp) (n : List UInt8)
    (h : Parse.symbolPlainFor cfg n = true) : n ≠ asc "nil" ∧ n.head? ≠ some 58 := by
  simp only [Parse.symbolPlainFor, ho, Parse.Options.elisp, Bool.and_eq_true, Bool.not_eq_true',
    Bool.and_eq_false_iff, Bool.true_and, Bool.false_and] at h
  obtain ⟨⟨⟨-, h58⟩, hnil⟩, -⟩ := h
  refine ⟨?_, ?_⟩
  · simpa using hnil
  · simpa using h58

theorem elispLeaf_of_plain (alpha : Nat → Bool) (cfg : Parse.Cfg) (ho : cfg.opts = Parse.Options.elisp)
    (ryu : Nat → List UInt8) (v : Value) (h : FullRT.LeafPlainForF pe cfg ryu v)
    (hn : v ≠ .null) (hid : ElNames alpha v) : ElispLeaf alpha ryu v := by
  cases v with
  | number n =>
    cases n with
    | pos n => exact h.1
    | neg i => exact h.1
    | flt b => obtain ⟨hb, d, hd, -⟩ := h; exact ⟨hb, d, hd⟩
  | symbol x =>
    obtain ⟨h1, h2⟩ := symbolPlain_elisp cfg ho x h.1
    exact ⟨hid, h1, h2⟩
  | keyword x => exact hid
  | nil => trivial
  | bool b => trivial
  | char c => exact h.1
  | string x => exact h.1
  | bytes x => trivial
  | null => exact absurd rfl hn
  | cons a d => exact h.1
  | vector xs => exact h.1

/-- **C02_independent_elisp.**  Under the hypotheses of the Emacs Lisp round trip through the crate's
    own parser (`AllPlainForF` for the pair `Print.Options.elisp` / `Parse.Options.elisp`) WITHOUT
    the nesting bound, plus: names are symbols of the documented subset. -/
theorem C02_independent_elisp (alpha : Nat → Bool) (cfg : Parse.Cfg)
    (ho : cfg.opts = Parse.Options.elisp) (ryu : Nat → List UInt8) (v : Value)
    (h : FullRT.AllPlainForF Print.Options.elisp cfg ryu v)
    (hid : FullRT.AllLeaves (ElNames alpha) v) :
    readElispWith alpha (Print.text Print.Options.elisp ryu v) =
      some (Spec.fold Print.Options.elisp Parse.Options.elisp v) :=
  C02_independent_elisp_leaves alpha ryu v
    (leaves_of_allLeaves (fun v hn hp => elispLeaf_of_plain alpha cfg ho ryu v hp hn) v h hid)

/-! ## 9. Witnesses: why the names must be symbols of the documented subset

As in SpecRT.lean: the printer writes names verbatim and the crate's parser takes every run of
non-terminator bytes for a symbol.  The values below satisfy the hypothesis of the crate-parser round
trip for the Emacs Lisp pair (`AllPlainForF`, so `C02_roundtrip_full` applies), yet the text is not
that symbol for a reader of Emacs Lisp.  Checked against the real crate:
`to_string_custom(Value::symbol(".5"), elisp) == ".5"`, read back by the crate as `Symbol(".5")`;
Emacs reads `.5` as the float 0.5. -/

theorem plain_symbol (ryu : Nat → List UInt8) (x : List UInt8)
    (h : Parse.symbolPlainFor Parse.elCfg x = true ∧ Parse.ListRT.dotHeadOk x = true) :
    FullRT.AllPlainForF pe Parse.elCfg ryu (.symbol x) := by
  simpa only [FullRT.AllPlainForF, FullRT.AllLeaves, FullRT.LeafPlainForF, Parse.ListRT.LeafPlainFor,
    Parse.AtomPlainFor, Parse.ListRT.dotOkP] using h

theorem witness_dot5 (alpha : Nat → Bool) (ryu : Nat → List UInt8) :
    FullRT.AllPlainForF pe Parse.elCfg ryu (.symbol (asc ".5")) ∧
    readElispWith alpha (Print.text Print.Options.elisp ryu (.symbol (asc ".5"))) =
      some (.number (.flt 0x3FE0000000000000)) :=
  ⟨plain_symbol ryu _ (by decide), by rw [text_symbol]; rfl⟩

theorem witness_quote (alpha : Nat → Bool) (ryu : Nat → List UInt8) :
    FullRT.AllPlainForF pe Parse.elCfg ryu (.symbol (asc "a\"b")) ∧
    readElispWith alpha (Print.text Print.Options.elisp ryu (.symbol (asc "a\"b"))) = none :=
  ⟨plain_symbol ryu _ (by decide), by rw [text_symbol]; rfl⟩

theorem witness_hash (alpha : Nat → Bool) (ryu : Nat → List UInt8) :
    FullRT.AllPlainForF pe Parse.elCfg ryu (.symbol (asc "a#b")) ∧
    readElispWith alpha (Print.text Print.Options.elisp ryu (.symbol (asc "a#b"))) = none :=
  ⟨plain_symbol ryu _ (by decide), by rw [text_symbol]; rfl⟩

/-! ## 10. Non-vacuity -/

/-- `(:k [1.5 "\001\310" nil 1+] t ?\( "a\u0001\n" "" . -100.0)` as a value: keyword, bracket vector,
    float, unibyte string, Nil, a digit-initial symbol, true, a character, a string with a control
    character, an empty byte vector, a dotted float tail -/
def exValue : Value :=
  .cons (.keyword (asc "k")) (.cons (.vector [.number (.flt 0x3FF8000000000000), .bytes [1, 200], .nil,
    .symbol (asc "1+")]) (.cons (.bool true) (.cons (.char 40) (.cons (.string [97, 1, 10])
      (.cons (.bytes []) (.number (.flt 0xC059000000000000)))))))

open Decimals in
theorem exValue_leaves (alpha : Nat → Bool) : Leaves (ElispLeaf alpha ryuEx) exValue := by
  simp only [exValue, Leaves, LeavesSeq, ElispLeaf, SymbolOK, and_true, true_and]
  refine ⟨rfl, ⟨⟨by decide, ⟨false, 15, -1, .mid⟩, ?_⟩, rfl, by decide, by decide⟩, by decide, by decide,
    ⟨by decide, ⟨true, 1, 2, .intDot0⟩, ?_⟩⟩
  all_goals exact ⟨by decide, by decide, by decide, by decide +kernel⟩

example (alpha : Nat → Bool) :
    readElispWith alpha (Print.text Print.Options.elisp Decimals.ryuEx exValue) =
      some (Spec.fold Print.Options.elisp Parse.Options.elisp exValue) :=
  C02_independent_elisp_leaves alpha _ _ (exValue_leaves alpha)

example : Print.text Print.Options.elisp Decimals.ryuEx exValue =
    asc "(:k [1.5 \"\\001\\310\" nil 1+] t ?\\( \"a\\u0001\\n\" \"\" . -100.0)" := by decide +kernel

/-- the folding on this value: Nil becomes `()`, true the symbol `t`, the empty byte vector `""` -/
example : Spec.fold Print.Options.elisp Parse.Options.elisp exValue =
    .cons (.keyword (asc "k")) (.cons (.vector [.number (.flt 0x3FF8000000000000), .bytes [1, 200],
      .null, .symbol (asc "1+")]) (.cons (.symbol (asc "t")) (.cons (.char 40)
      (.cons (.string [97, 1, 10]) (.cons (.string []) (.number (.flt 0xC059000000000000))))))) := rfl

/-- the reader itself, run by the kernel on that text (compared with `Value.beq`) -/
example : (readElispWith (fun _ => false)
    (asc "(:k [1.5 \"\\001\\310\" nil 1+] t ?\\( \"a\\u0001\\n\" \"\" . -100.0)")).map
      (Value.beq · (Spec.fold Print.Options.elisp Parse.Options.elisp exValue)) = some true := by
  decide +kernel

/-- the hypotheses of `C02_independent_elisp` are satisfiable together -/
example : FullRT.AllPlainForF pe Parse.elCfg Decimals.ryuEx
      (.cons (.symbol (asc "setq")) (.cons (.keyword (asc "k")) (.string (asc "s")))) ∧
    FullRT.AllLeaves (ElNames (fun _ => false))
      (.cons (.symbol (asc "setq")) (.cons (.keyword (asc "k")) (.string (asc "s")))) := by
  simp only [FullRT.AllPlainForF, FullRT.AllLeaves, FullRT.LeafPlainForF, Parse.ListRT.LeafPlainFor,
    Parse.AtomPlainFor, Parse.ListRT.dotOkP, ElNames]
  exact ⟨⟨by decide, by decide, by decide⟩, by decide +kernel, by decide +kernel, trivial⟩

#print axioms C02_independent_elisp_leaves
#print axioms C02_independent_elisp
#print axioms witness_dot5
#print axioms witness_quote
#print axioms witness_hash

end El
end SpecRT
end Lexpr
