/-
  Truncation (C19, last clause): the calculus.

  `PrefixDet.Sim` says that a run which stops with input left does not depend on what follows.
  Here the complementary case is treated: the run on the truncated input `s` reaches the end of
  its input.  Two judgements relate the run of `m` on `s` (the truncated text) with the run of
  `m'` (the same program with at least as much fuel) on `ext q s` (the longer text):

   * `TS X Q m m' s q` ("in step"): both runs start at corresponding states.
       - if `m s = ok a s1` then either the other run is in step (`m' (ext q s) = ok a (ext q s1)`),
         or the truncated run has used up its input and `Q a s1 (m' (ext q s))` holds ("diverged":
         the truncated run saw the end of the input, the other run saw more bytes);
       - if `m s = err e _` then `e` is not of syntax category (`Soft e`: EOF or I/O), or it is
         one of the exceptions `X e`, or the other run does not succeed (`NotOk`).
   * `TE X Q m r' s` ("after the end"): the truncated run continues in a state `s` without input,
     `r'` is the complete result of the other run.

  The exceptions `X` are the genuine defects found (see Truncation.lean).
-/
import LexprModel.Proofs.PrefixDet
set_option linter.unusedSimpArgs false
namespace Lexpr
namespace Parse
namespace Trunc
open PrefixDet (Sim ext Scanner digitsLen scan ext_rest ext_consume)

/-- what `P.bind` does with the result of its first argument -/
def rbind {α β : Type} (r : Res α) (f : α → P β) : Res β :=
  match r with
  | .ok a s => f a s
  | .err e s => .err e s
  | .panic p => .panic p
  | .fuel => .fuel

theorem bind_eq {α β : Type} (m : P α) (f : α → P β) (s : St) : (m >>= f) s = rbind (m s) f := rfl

/-- the run does not produce a result -/
def NotOk {α : Type} (r : Res α) : Prop := ∀ a s, r ≠ .ok a s

/-- an error that is not of syntax category (EOF or I/O) -/
def Soft (e : Err) : Prop := e.category ≠ .syntax

theorem NotOk.err {α : Type} {e : Err} {s : St} : NotOk (.err e s : Res α) := fun _ _ h => nomatch h
theorem NotOk.panic {α : Type} {p : Site} : NotOk (.panic p : Res α) := fun _ _ h => nomatch h
theorem NotOk.fuel {α : Type} : NotOk (.fuel : Res α) := fun _ _ h => nomatch h

theorem NotOk.rbind {α β : Type} {r : Res α} {f : α → P β} (h : NotOk r) : NotOk (rbind r f) := by
  cases r with
  | ok a s => exact absurd rfl (h a s)
  | err e s => exact NotOk.err
  | panic p => exact NotOk.panic
  | fuel => exact NotOk.fuel

theorem Soft.io : Soft .io := by simp [Soft, Err.category]
theorem Soft.eof {c : Code} {l k : Nat} (h : c.category = .eof) : Soft (.syntax c l k) := by
  simp [Soft, Err.category, h]

def TS {α : Type} (X : Err → Prop) (Q : α → St → Res α → Prop) (m m' : P α) (s : St)
    (q : List UInt8) : Prop :=
  match m s with
  | .ok a s1 => s1.rd.rest <:+ s.rd.rest ∧
      (m' (ext q s) = .ok a (ext q s1) ∨ (s1.rd.rest = [] ∧ Q a s1 (m' (ext q s))))
  | .err e _ => Soft e ∨ X e ∨ NotOk (m' (ext q s))
  | .panic _ => True
  | .fuel => True

def TE {α : Type} (X : Err → Prop) (Q : α → St → Res α → Prop) (m : P α) (r' : Res α) (s : St) :
    Prop :=
  match m s with
  | .ok a s1 => s1.rd.rest = [] ∧ Q a s1 r'
  | .err e _ => Soft e ∨ X e ∨ NotOk r'
  | .panic _ => True
  | .fuel => True

/-- no requirement on a diverged result -/
def QT {α : Type} : α → St → Res α → Prop := fun _ _ _ => True
/-- the program never returns a result after seeing the end of the input -/
def QF {α : Type} : α → St → Res α → Prop := fun _ _ _ => False

section rules
variable {α β : Type} {X : Err → Prop} {s : St} {q : List UInt8}

/-! ### rules for `TS` -/

theorem TS.bind {m m' : P α} {f f' : α → P β} {Q1 : α → St → Res α → Prop}
    {Q2 : β → St → Res β → Prop}
    (h1 : TS X Q1 m m' s q)
    (h2 : ∀ a s1, m s = .ok a s1 → m' (ext q s) = .ok a (ext q s1) → TS X Q2 (f a) (f' a) s1 q)
    (h3 : ∀ a s1, m s = .ok a s1 → s1.rd.rest = [] → Q1 a s1 (m' (ext q s)) →
      TE X Q2 (f a) (rbind (m' (ext q s)) f') s1) :
    TS X Q2 (m >>= f) (m' >>= f') s q := by
  unfold TS at h1 ⊢
  rw [bind_eq, bind_eq]
  cases hm : m s with
  | ok a s1 =>
    rw [hm] at h1
    obtain ⟨hsuf, h1⟩ := h1
    simp only [rbind]
    rcases h1 with hin | ⟨h0, hq1⟩
    · have h2' := h2 a s1 hm hin
      unfold TS at h2'
      rw [hin]
      simp only [rbind]
      cases hf : f a s1 with
      | ok b s2 =>
        rw [hf] at h2'
        exact ⟨h2'.1.trans hsuf, h2'.2⟩
      | err e s2 => rw [hf] at h2'; exact h2'
      | panic p => trivial
      | fuel => trivial
    · have h3' := h3 a s1 hm h0 hq1
      unfold TE at h3'
      cases hf : f a s1 with
      | ok b s2 =>
        rw [hf] at h3'
        refine ⟨?_, Or.inr h3'⟩
        rw [h3'.1]; exact List.nil_suffix
      | err e s2 => rw [hf] at h3'; exact h3'
      | panic p => trivial
      | fuel => trivial
  | err e s1 =>
    rw [hm] at h1
    rcases h1 with h | h | h
    · exact Or.inl h
    · exact Or.inr (Or.inl h)
    · exact Or.inr (Or.inr h.rbind)
  | panic p => trivial
  | fuel => trivial

/-- binding a program that never diverges with a result -/
theorem TS.bindF {m m' : P α} {f f' : α → P β} {Q2 : β → St → Res β → Prop}
    (h1 : TS X QF m m' s q)
    (h2 : ∀ a s1, m s = .ok a s1 → m' (ext q s) = .ok a (ext q s1) → TS X Q2 (f a) (f' a) s1 q) :
    TS X Q2 (m >>= f) (m' >>= f') s q :=
  TS.bind h1 h2 (fun _ _ _ _ h => h.elim)

theorem TS.pure {a : α} {Q : α → St → Res α → Prop} : TS X Q (pure a : P α) (pure a) s q :=
  ⟨List.suffix_refl _, Or.inl rfl⟩

theorem TS.pure_bind {a : α} {f f' : α → P β} {Q : β → St → Res β → Prop}
    (h : TS X Q (f a) (f' a) s q) : TS X Q ((Pure.pure a : P α) >>= f) ((Pure.pure a : P α) >>= f') s q := h

theorem TS.errAt {c : Code} {Q : α → St → Res α → Prop} : TS X Q (errAt c : P α) (errAt c) s q :=
  Or.inr (Or.inr NotOk.err)

theorem TS.peekErr {c : Code} {Q : α → St → Res α → Prop} :
    TS X Q (peekErr c : P α) (peekErr c) s q :=
  Or.inr (Or.inr NotOk.err)

theorem TS.panicAt {p : Site} {m' : P α} {Q : α → St → Res α → Prop} :
    TS X Q (panicAt p : P α) m' s q := trivial

theorem TS.outOfFuel {m' : P α} {Q : α → St → Res α → Prop} : TS X Q (outOfFuel : P α) m' s q :=
  trivial

theorem TS.fuel0 {m m' : P α} {Q : α → St → Res α → Prop} (h : m = Parse.outOfFuel) :
    TS X Q m m' s q := h ▸ TS.outOfFuel

theorem TS.ite {c : Prop} [Decidable c] {A A' B B' : P α} {Q : α → St → Res α → Prop}
    (hA : c → TS X Q A A' s q) (hB : ¬c → TS X Q B B' s q) :
    TS X Q (if c then A else B) (if c then A' else B') s q := by
  split
  · exact hA ‹_›
  · exact hB ‹_›

theorem TS.liftExcept {x : Except Err α} {Q : α → St → Res α → Prop} :
    TS X Q (liftExcept x) (liftExcept x) s q := by
  cases x with
  | ok a => exact TS.pure
  | error e => exact Or.inr (Or.inr NotOk.err)

theorem TS.weaken {m m' : P α} {X' : Err → Prop} {Q Q' : α → St → Res α → Prop}
    (h : TS X' Q' m m' s q) (hx : ∀ e, X' e → X e) (hq : ∀ a s1 r, Q' a s1 r → Q a s1 r) :
    TS X Q m m' s q := by
  unfold TS at h ⊢
  cases hm : m s with
  | ok a s1 =>
    rw [hm] at h
    exact ⟨h.1, h.2.imp id (fun ⟨h0, hq'⟩ => ⟨h0, hq _ _ _ hq'⟩)⟩
  | err e s1 =>
    rw [hm] at h
    exact h.imp id (Or.imp (hx e) id)
  | panic p => trivial
  | fuel => trivial

theorem TS.weakenQ {m m' : P α} {Q Q' : α → St → Res α → Prop}
    (h : TS X Q' m m' s q) (hq : ∀ a s1 r, Q' a s1 r → Q a s1 r) : TS X Q m m' s q :=
  h.weaken (fun _ h => h) hq

theorem TS.toQT {m m' : P α} {Q' : α → St → Res α → Prop} (h : TS X Q' m m' s q) :
    TS X QT m m' s q := h.weakenQ (fun _ _ _ _ => trivial)

/-! ### rules for `TE` -/

theorem TE.pure {a : α} {Q : α → St → Res α → Prop} {r' : Res α} (h0 : s.rd.rest = [])
    (h : Q a s r') : TE X Q (pure a : P α) r' s := ⟨h0, h⟩

theorem TE.errSoft {c : Code} {Q : α → St → Res α → Prop} {r' : Res α} (h : c.category = .eof) :
    TE X Q (errAt c : P α) r' s := Or.inl (Soft.eof h)

theorem TE.peekErrSoft {c : Code} {Q : α → St → Res α → Prop} {r' : Res α}
    (h : c.category = .eof) : TE X Q (peekErr c : P α) r' s := Or.inl (Soft.eof h)

theorem TE.errX {c : Code} {Q : α → St → Res α → Prop} {r' : Res α}
    (h : ∀ l k, X (.syntax c l k)) : TE X Q (errAt c : P α) r' s := Or.inr (Or.inl (h _ _))

theorem TE.peekErrX {c : Code} {Q : α → St → Res α → Prop} {r' : Res α}
    (h : ∀ l k, X (.syntax c l k)) : TE X Q (peekErr c : P α) r' s := Or.inr (Or.inl (h _ _))

theorem TE.errNotOk {c : Code} {Q : α → St → Res α → Prop} {r' : Res α} (h : NotOk r') :
    TE X Q (errAt c : P α) r' s := Or.inr (Or.inr h)

theorem TE.peekErrNotOk {c : Code} {Q : α → St → Res α → Prop} {r' : Res α} (h : NotOk r') :
    TE X Q (peekErr c : P α) r' s := Or.inr (Or.inr h)

theorem TE.panicAt {p : Site} {Q : α → St → Res α → Prop} {r' : Res α} :
    TE X Q (panicAt p : P α) r' s := trivial

theorem TE.outOfFuel {Q : α → St → Res α → Prop} {r' : Res α} :
    TE X Q (outOfFuel : P α) r' s := trivial

theorem TE.ite {c : Prop} [Decidable c] {A B : P α} {Q : α → St → Res α → Prop} {r' : Res α}
    (hA : c → TE X Q A r' s) (hB : ¬c → TE X Q B r' s) : TE X Q (if c then A else B) r' s := by
  split
  · exact hA ‹_›
  · exact hB ‹_›

/-- unary specification of a program started without input: results keep the input empty and
    satisfy `P`; errors are soft or exceptions -/
def EO {α : Type} (X : Err → Prop) (m : P α) (s : St) (Pa : α → St → Prop) : Prop :=
  match m s with
  | .ok a s1 => s1.rd.rest = [] ∧ Pa a s1
  | .err e _ => Soft e ∨ X e
  | .panic _ => True
  | .fuel => True

theorem TE.bind {m : P α} {f : α → P β} {Pa : α → St → Prop} {Q : β → St → Res β → Prop}
    {r' : Res β} (hm : EO X m s Pa)
    (hf : ∀ a s1, s1.rd.rest = [] → Pa a s1 → TE X Q (f a) r' s1) : TE X Q (m >>= f) r' s := by
  unfold TE
  unfold EO at hm
  rw [bind_eq]
  cases h : m s with
  | ok a s1 =>
    rw [h] at hm
    simp only [rbind]
    exact hf a s1 hm.1 hm.2
  | err e s1 =>
    rw [h] at hm
    simp only [rbind]
    exact hm.elim Or.inl (fun h => Or.inr (Or.inl h))
  | panic p => trivial
  | fuel => trivial

theorem TE.ofEO {m : P α} {Pa : α → St → Prop} {Q : α → St → Res α → Prop} {r' : Res α}
    (hm : EO X m s Pa) (hq : ∀ a s1, s1.rd.rest = [] → Pa a s1 → Q a s1 r') : TE X Q m r' s := by
  unfold TE
  unfold EO at hm
  cases h : m s with
  | ok a s1 => rw [h] at hm; exact ⟨hm.1, hq a s1 hm.1 hm.2⟩
  | err e s1 => rw [h] at hm; exact hm.elim Or.inl (fun h => Or.inr (Or.inl h))
  | panic p => trivial
  | fuel => trivial

theorem TE.weakenQ {m : P α} {Q Q' : α → St → Res α → Prop} {r' : Res α}
    (h : TE X Q' m r' s) (hq : ∀ a s1, Q' a s1 r' → Q a s1 r') : TE X Q m r' s := by
  unfold TE at h ⊢
  cases hm : m s with
  | ok a s1 => rw [hm] at h; exact ⟨h.1, hq _ _ h.2⟩
  | err e s1 => rw [hm] at h; exact h
  | panic p => trivial
  | fuel => trivial

/-! ### rules for `EO` -/

theorem EO.pure {a : α} {Pa : α → St → Prop} (h0 : s.rd.rest = []) (h : Pa a s) :
    EO X (pure a : P α) s Pa := ⟨h0, h⟩

theorem EO.errSoft {c : Code} {Pa : α → St → Prop} (h : c.category = .eof) :
    EO X (errAt c : P α) s Pa := Or.inl (Soft.eof h)

theorem EO.peekErrSoft {c : Code} {Pa : α → St → Prop} (h : c.category = .eof) :
    EO X (peekErr c : P α) s Pa := Or.inl (Soft.eof h)

theorem EO.errX {c : Code} {Pa : α → St → Prop} (h : ∀ l k, X (.syntax c l k)) :
    EO X (errAt c : P α) s Pa := Or.inr (h _ _)

theorem EO.peekErrX {c : Code} {Pa : α → St → Prop} (h : ∀ l k, X (.syntax c l k)) :
    EO X (peekErr c : P α) s Pa := Or.inr (h _ _)

theorem EO.panicAt {p : Site} {Pa : α → St → Prop} : EO X (panicAt p : P α) s Pa := trivial
theorem EO.outOfFuel {Pa : α → St → Prop} : EO X (outOfFuel : P α) s Pa := trivial

theorem EO.ite {c : Prop} [Decidable c] {A B : P α} {Pa : α → St → Prop}
    (hA : c → EO X A s Pa) (hB : ¬c → EO X B s Pa) : EO X (if c then A else B) s Pa := by
  split
  · exact hA ‹_›
  · exact hB ‹_›

theorem EO.bind {m : P α} {f : α → P β} {P1 : α → St → Prop} {P2 : β → St → Prop}
    (hm : EO X m s P1) (hf : ∀ a s1, s1.rd.rest = [] → P1 a s1 → EO X (f a) s1 P2) :
    EO X (m >>= f) s P2 := by
  unfold EO at hm ⊢
  rw [bind_eq]
  cases h : m s with
  | ok a s1 =>
    rw [h] at hm
    simp only [rbind]
    exact hf a s1 hm.1 hm.2
  | err e s1 => rw [h] at hm; simp only [rbind]; exact hm
  | panic p => trivial
  | fuel => trivial

theorem EO.weaken {m : P α} {P1 P2 : α → St → Prop} (h : EO X m s P1)
    (hp : ∀ a s1, s1.rd.rest = [] → P1 a s1 → P2 a s1) : EO X m s P2 := by
  unfold EO at h ⊢
  cases hm : m s with
  | ok a s1 => rw [hm] at h; exact ⟨h.1, hp _ _ h.1 h.2⟩
  | err e s1 => rw [hm] at h; exact h
  | panic p => trivial
  | fuel => trivial

end rules

/-! ### the reader primitives -/

section prims
variable {α β : Type} {X : Err → Prop} {s : St} {q : List UInt8}

/-- the state is unchanged apart from the lookahead flag (no input consumed) -/
def SameUpToPeek (s s1 : St) : Prop :=
  s1.rd.rest = s.rd.rest ∧ s1.depth = s.depth ∧ s1.rd.mode = s.rd.mode ∧ s1.rd.faulty = s.rd.faulty

theorem peek_eof (h0 : s.rd.rest = []) :
    peek s = (if s.rd.faulty then .err .io s else .ok none s) := by
  unfold peek; rw [h0]

theorem next_eof (h0 : s.rd.rest = []) :
    next s = (if s.rd.faulty then .err .io s else .ok none s) := by
  unfold next; rw [h0]

theorem peek_cons {b : UInt8} {t : List UInt8} (h : s.rd.rest = b :: t) :
    peek s = .ok (some b) { s with rd := { s.rd with peeked := s.rd.peeked || s.rd.mode == .io } } := by
  unfold peek; rw [h]

theorem next_cons {b : UInt8} {t : List UInt8} (h : s.rd.rest = b :: t) :
    next s = .ok (some b) { s with rd := s.rd.consume 1 } := by
  unfold next; rw [h]

/-- the diverged result of `peek` / `next`: end of input, state unchanged -/
def QNone (s : St) : Option UInt8 → St → Res (Option UInt8) → Prop :=
  fun a s1 _ => a = none ∧ s1 = s

theorem peek_t : TS X (QNone s) peek peek s q := by
  unfold TS
  cases hr : s.rd.rest with
  | nil =>
    rw [peek_eof hr]
    by_cases hf : s.rd.faulty = true
    · simp only [hf, ↓reduceIte]; exact Or.inl Soft.io
    · simp only [hf]
      exact ⟨by simp [hr], Or.inr ⟨hr, rfl, rfl⟩⟩
  | cons b t =>
    rw [peek_cons hr]
    refine ⟨by simp [hr], Or.inl ?_⟩
    rw [peek_cons (s := ext q s) (b := b) (t := t ++ q) (by simp [ext_rest, hr])]
    rfl

theorem next_t : TS X (QNone s) next next s q := by
  unfold TS
  cases hr : s.rd.rest with
  | nil =>
    rw [next_eof hr]
    by_cases hf : s.rd.faulty = true
    · simp only [hf, ↓reduceIte]; exact Or.inl Soft.io
    · simp only [hf]
      exact ⟨by simp [hr], Or.inr ⟨hr, rfl, rfl⟩⟩
  | cons b t =>
    rw [next_cons hr]
    refine ⟨by simp [Progress.consume_rest, hr], Or.inl ?_⟩
    rw [next_cons (s := ext q s) (b := b) (t := t ++ q) (by simp [ext_rest, hr])]
    rw [ext_consume q s 1 (by simp [hr])]

theorem discard_t : TS X QF discard discard s q := by
  unfold TS
  cases hr : s.rd.rest with
  | nil => simp [discard, hr]
  | cons b t =>
    have h1 : discard s = .ok () { s with rd := s.rd.consume 1 } := by unfold discard; rw [hr]
    have h2 : discard (ext q s) = .ok () { ext q s with rd := (ext q s).rd.consume 1 } := by
      unfold discard; rw [ext_rest, hr]; rfl
    rw [h1]
    refine ⟨by simp [Progress.consume_rest, hr], Or.inl ?_⟩
    rw [h2, ext_consume q s 1 (by simp [hr])]

theorem getMode_t : TS X QF getMode getMode s q := ⟨List.suffix_refl _, Or.inl rfl⟩
theorem getPos_t : TS X QF getPos getPos s q := ⟨List.suffix_refl _, Or.inl rfl⟩
theorem leave_t : TS X QF leave leave s q := ⟨List.suffix_refl _, Or.inl rfl⟩

theorem enter_t : TS X QF enter enter s q := by
  unfold TS enter
  have hd : (ext q s).depth = s.depth := rfl
  by_cases h0 : (s.depth == 0) = true
  · simp only [h0, ↓reduceIte]
  · by_cases h1 : (s.depth - 1 == 0) = true
    · simp only [hd, h0, h1, ↓reduceIte]
      exact Or.inr (Or.inr NotOk.err)
    · simp only [hd, h0, h1]
      exact ⟨List.suffix_refl _, Or.inl (by simp; rfl)⟩

/-- `peek` / `next` on the longer input, when the shorter one is exhausted -/
theorem peek_ext_nil {b : UInt8} {q' : List UInt8} (h0 : s.rd.rest = []) :
    ∃ s2, peek (ext (b :: q') s) = .ok (some b) s2 ∧ s2.rd.rest = b :: q' ∧ s2.depth = s.depth ∧
      s2.rd.mode = s.rd.mode := by
  refine ⟨_, peek_cons (s := ext (b :: q') s) (b := b) (t := q') (by simp [ext_rest, h0]), ?_, rfl, rfl⟩
  simp [ext_rest, h0]

theorem next_ext_nil {b : UInt8} {q' : List UInt8} (h0 : s.rd.rest = []) :
    ∃ s2, next (ext (b :: q') s) = .ok (some b) s2 ∧ s2.rd.rest = q' ∧ s2.depth = s.depth ∧
      s2.rd.mode = s.rd.mode := by
  refine ⟨_, next_cons (s := ext (b :: q') s) (b := b) (t := q') (by simp [ext_rest, h0]), ?_, rfl, ?_⟩
  · simp [Progress.consume_rest, ext_rest, h0]
  · simp [Progress.consume_mode]; rfl

theorem TS.bind_peek {f f' : Option UInt8 → P β} {Q2 : β → St → Res β → Prop} (hq : q ≠ [])
    (h2 : ∀ b s1, peek s = .ok (some b) s1 → TS X Q2 (f (some b)) (f' (some b)) s1 q)
    (h3 : s.rd.rest = [] → TE X Q2 (f none) (rbind (peek (ext q s)) f') s) :
    TS X Q2 (peek >>= f) (peek >>= f') s q := by
  refine TS.bind peek_t (fun a s1 hm hin => ?_) (fun a s1 hm h0 hq1 => ?_)
  · cases a with
    | some b => exact h2 b s1 hm
    | none =>
      exfalso
      cases hr : s.rd.rest with
      | nil =>
        obtain ⟨b, q', rfl⟩ := List.exists_cons_of_ne_nil hq
        obtain ⟨s2, h, _⟩ := peek_ext_nil (b := b) (q' := q') hr
        rw [h] at hin; cases hin
      | cons b t => rw [peek_cons hr] at hm; cases hm
  · obtain ⟨rfl, rfl⟩ := hq1
    exact h3 h0

theorem TS.bind_next {f f' : Option UInt8 → P β} {Q2 : β → St → Res β → Prop} (hq : q ≠ [])
    (h2 : ∀ b s1, next s = .ok (some b) s1 → TS X Q2 (f (some b)) (f' (some b)) s1 q)
    (h3 : s.rd.rest = [] → TE X Q2 (f none) (rbind (next (ext q s)) f') s) :
    TS X Q2 (next >>= f) (next >>= f') s q := by
  refine TS.bind next_t (fun a s1 hm hin => ?_) (fun a s1 hm h0 hq1 => ?_)
  · cases a with
    | some b => exact h2 b s1 hm
    | none =>
      exfalso
      cases hr : s.rd.rest with
      | nil =>
        obtain ⟨b, q', rfl⟩ := List.exists_cons_of_ne_nil hq
        obtain ⟨s2, h, _⟩ := next_ext_nil (b := b) (q' := q') hr
        rw [h] at hin; cases hin
      | cons b t => rw [next_cons hr] at hm; cases hm
  · obtain ⟨rfl, rfl⟩ := hq1
    exact h3 h0

theorem peekOrNull_eq : peekOrNull = (peek >>= fun b => pure (b.getD 0)) := rfl
theorem nextOrNull_eq : nextOrNull = (next >>= fun b => pure (b.getD 0)) := rfl

theorem bind_assoc' {γ : Type} (m : P α) (g : α → P γ) (f : γ → P β) :
    ((m >>= g) >>= f) = (m >>= fun a => g a >>= f) := by
  funext s
  show P.bind (P.bind m g) f s = P.bind m (fun a => P.bind (g a) f) s
  unfold P.bind
  cases m s <;> rfl

theorem rbind_assoc {γ : Type} (m : P α) (g : α → P γ) (f : γ → P β) (x : St) :
    rbind ((m >>= g) x) f = rbind (m x) (fun a => g a >>= f) := by
  rw [bind_eq]
  cases m x <;> rfl

theorem TS.bind_peekOrNull {f f' : UInt8 → P β} {Q2 : β → St → Res β → Prop} (hq : q ≠ [])
    (h2 : ∀ b s1, peek s = .ok (some b) s1 → TS X Q2 (f b) (f' b) s1 q)
    (h3 : s.rd.rest = [] → TE X Q2 (f 0) (rbind (peekOrNull (ext q s)) f') s) :
    TS X Q2 (peekOrNull >>= f) (peekOrNull >>= f') s q := by
  rw [peekOrNull_eq, bind_assoc', bind_assoc']
  refine TS.bind_peek hq (fun b s1 h => ?_) (fun h0 => ?_)
  · exact h2 b s1 h
  · have := h3 h0
    rw [peekOrNull_eq, rbind_assoc] at this
    exact this

/-! after the end -/

theorem TE.bind_peek {f : Option UInt8 → P β} {Q : β → St → Res β → Prop} {r' : Res β}
    (h0 : s.rd.rest = []) (h : TE X Q (f none) r' s) : TE X Q (peek >>= f) r' s := by
  unfold TE
  rw [bind_eq, peek_eof h0]
  by_cases hf : s.rd.faulty = true
  · simp only [hf, ↓reduceIte, rbind]; exact Or.inl Soft.io
  · simp only [hf, rbind]; exact h

theorem TE.bind_next {f : Option UInt8 → P β} {Q : β → St → Res β → Prop} {r' : Res β}
    (h0 : s.rd.rest = []) (h : TE X Q (f none) r' s) : TE X Q (next >>= f) r' s := by
  unfold TE
  rw [bind_eq, next_eof h0]
  by_cases hf : s.rd.faulty = true
  · simp only [hf, ↓reduceIte, rbind]; exact Or.inl Soft.io
  · simp only [hf, rbind]; exact h

theorem TE.bind_peekOrNull {f : UInt8 → P β} {Q : β → St → Res β → Prop} {r' : Res β}
    (h0 : s.rd.rest = []) (h : TE X Q (f 0) r' s) : TE X Q (peekOrNull >>= f) r' s := by
  rw [peekOrNull_eq, bind_assoc']
  exact TE.bind_peek h0 h

theorem TE.peekNone {Q : Option UInt8 → St → Res (Option UInt8) → Prop} {r' : Res (Option UInt8)}
    (h0 : s.rd.rest = []) (h : Q none s r') : TE X Q peek r' s := by
  unfold TE
  rw [peek_eof h0]
  by_cases hf : s.rd.faulty = true
  · simp only [hf, ↓reduceIte]; exact Or.inl Soft.io
  · simp only [hf]; exact ⟨h0, h⟩

theorem EO.peekNone {Pa : Option UInt8 → St → Prop} (h0 : s.rd.rest = []) (h : Pa none s) :
    EO X peek s Pa := by
  unfold EO
  rw [peek_eof h0]
  by_cases hf : s.rd.faulty = true
  · simp only [hf, ↓reduceIte]; exact Or.inl Soft.io
  · simp only [hf]; exact ⟨h0, h⟩

theorem TE.bind_discard {f : Unit → P β} {Q : β → St → Res β → Prop} {r' : Res β}
    (h0 : s.rd.rest = []) : TE X Q (discard >>= f) r' s := by
  unfold TE
  rw [bind_eq]
  simp [discard, h0, rbind]

theorem TE.bind_getMode {f : Mode → P β} {Q : β → St → Res β → Prop} {r' : Res β}
    (h : TE X Q (f s.rd.mode) r' s) : TE X Q (getMode >>= f) r' s := h

theorem TE.bind_getPos {f : Pos → P β} {Q : β → St → Res β → Prop} {r' : Res β}
    (h : TE X Q (f s.rd.position) r' s) : TE X Q (getPos >>= f) r' s := h

theorem TE.bind_pure {a : α} {f : α → P β} {Q : β → St → Res β → Prop} {r' : Res β}
    (h : TE X Q (f a) r' s) : TE X Q ((Pure.pure a : P α) >>= f) r' s := h

theorem EO.bind_peek {f : Option UInt8 → P β} {Pa : β → St → Prop}
    (h0 : s.rd.rest = []) (h : EO X (f none) s Pa) : EO X (peek >>= f) s Pa := by
  unfold EO
  rw [bind_eq, peek_eof h0]
  by_cases hf : s.rd.faulty = true
  · simp only [hf, ↓reduceIte, rbind]; exact Or.inl Soft.io
  · simp only [hf, rbind]; exact h

theorem EO.bind_next {f : Option UInt8 → P β} {Pa : β → St → Prop}
    (h0 : s.rd.rest = []) (h : EO X (f none) s Pa) : EO X (next >>= f) s Pa := by
  unfold EO
  rw [bind_eq, next_eof h0]
  by_cases hf : s.rd.faulty = true
  · simp only [hf, ↓reduceIte, rbind]; exact Or.inl Soft.io
  · simp only [hf, rbind]; exact h

theorem EO.bind_peekOrNull {f : UInt8 → P β} {Pa : β → St → Prop}
    (h0 : s.rd.rest = []) (h : EO X (f 0) s Pa) : EO X (peekOrNull >>= f) s Pa := by
  rw [peekOrNull_eq, bind_assoc']
  exact EO.bind_peek h0 h

theorem EO.bind_discard {f : Unit → P β} {Pa : β → St → Prop}
    (h0 : s.rd.rest = []) : EO X (discard >>= f) s Pa := by
  unfold EO
  rw [bind_eq]
  simp [discard, h0, rbind]

theorem EO.bind_getMode {f : Mode → P β} {Pa : β → St → Prop}
    (h : EO X (f s.rd.mode) s Pa) : EO X (getMode >>= f) s Pa := h

theorem EO.bind_pure {a : α} {f : α → P β} {Pa : β → St → Prop}
    (h : EO X (f a) s Pa) : EO X ((Pure.pure a : P α) >>= f) s Pa := h

/-! ### scanners -/

/-- the diverged result of a scanner: it took everything -/
def QScan (g : List UInt8 → Nat) (s : St) : List UInt8 → St → Res (List UInt8) → Prop :=
  fun a s1 _ => a = s.rd.rest ∧ g s.rd.rest = s.rd.rest.length ∧ s1.depth = s.depth ∧
    s1.rd.mode = s.rd.mode ∧ s1.rd.faulty = s.rd.faulty

theorem scan_t {g : List UInt8 → Nat} (hg : Scanner g) : TS X (QScan g s) (scan g) (scan g) s q := by
  unfold TS scan
  refine ⟨by simp [Progress.consume_rest, List.drop_suffix], ?_⟩
  have hlen := (hg s.rd.rest q).1
  rcases Nat.lt_or_ge (g s.rd.rest) s.rd.rest.length with hlt | hge
  · left
    have hg' := (hg s.rd.rest q).2 hlt
    simp only [ext_rest, hg']
    rw [ext_consume q s _ hlen, List.take_append_of_le_length hlen]
  · right
    have heq : g s.rd.rest = s.rd.rest.length := Nat.le_antisymm hlen hge
    refine ⟨by simp [Progress.consume_rest, heq], ?_, heq, rfl, ?_, ?_⟩
    · rw [heq, List.take_length]
    · simp [Progress.consume_mode]
    · simp [Progress.consume_faulty]

theorem scan_eof {g : List UInt8 → Nat} (hg : Scanner g) (h0 : s.rd.rest = []) :
    scan g s = .ok [] { s with rd := s.rd.consume 0 } := by
  have := (hg [] []).1
  simp at this
  unfold scan
  rw [h0, this]
  rfl

theorem TE.bind_scan {g : List UInt8 → Nat} (hg : Scanner g) {f : List UInt8 → P β}
    {Q : β → St → Res β → Prop} {r' : Res β} (h0 : s.rd.rest = [])
    (h : ∀ s1, s1.rd.rest = [] → s1.depth = s.depth → s1.rd.mode = s.rd.mode →
      s1.rd.faulty = s.rd.faulty → TE X Q (f []) r' s1) :
    TE X Q (scan g >>= f) r' s := by
  unfold TE
  rw [bind_eq, scan_eof hg h0]
  simp only [rbind]
  exact h _ (by simp [Progress.consume_rest, h0]) rfl (by simp [Progress.consume_mode])
    (by simp [Progress.consume_faulty])

theorem EO.bind_scan {g : List UInt8 → Nat} (hg : Scanner g) {f : List UInt8 → P β}
    {Pa : β → St → Prop} (h0 : s.rd.rest = [])
    (h : ∀ s1, s1.rd.rest = [] → s1.depth = s.depth → s1.rd.mode = s.rd.mode →
      s1.rd.faulty = s.rd.faulty → EO X (f []) s1 Pa) :
    EO X (scan g >>= f) s Pa := by
  unfold EO
  rw [bind_eq, scan_eof hg h0]
  simp only [rbind]
  exact h _ (by simp [Progress.consume_rest, h0]) rfl (by simp [Progress.consume_mode])
    (by simp [Progress.consume_faulty])

end prims

end Trunc
end Parse
end Lexpr
