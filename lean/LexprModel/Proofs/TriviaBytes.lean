/-
  TriviaBytes — byte vectors with trivia.

  `parse_byte_list` calls `parse_whitespace` before the opening parenthesis, before every octet
  and before the closing parenthesis, so whitespace and line comments are accepted between
  `#u8` / `#vu8` and `(`, after `(`, between the octets and before `)`.  This file proves that
  every such variant (`BytesVar`, `TriviaBase.lean`) of the text of a byte vector is read back as
  the byte vector (`bytesOKT_of_compat`), for every compatible pair of option sets.

  `byteListLoopT_ok` / `parseByteListT_ok` are the generalisations of `byteListLoop_ok` /
  `parseByteList_ok` of `AtomRT.lean` (one space between octets) to arbitrary trivia.
-/
import LexprModel.Proofs.TriviaBase
namespace Lexpr
namespace Parse
namespace ListRT
open Print Spec

theorem bElemsT_follow (bs : List UInt8) (tl rest : List UInt8) (h : BElemsT false bs tl) :
    Parse.Follow (tl ++ 41 :: rest) := by
  refine (follow_iff _).1 ?_
  cases bs with
  | nil =>
    simp only [BElemsT] at h
    exact h.follow' _ (follow_cons _ _ (by decide))
  | cons b bs =>
    simp only [BElemsT] at h
    obtain ⟨w, tl', hw, hne, -, rfl⟩ := h
    have := hw.follow (hne trivial) (natDigits b.toNat ++ tl' ++ 41 :: rest)
    simpa using this

theorem wsLen_triv_token (w : List UInt8) (hw : Triv w) (c : UInt8) (tl : List UInt8)
    (h1 : isTrivia c = false) (h2 : c ≠ 59) : wsLen (w ++ c :: tl) = w.length := by
  rw [wsLen_triv w _ hw, wsLen_nontrivia c tl h1 h2]; rfl

/-- The element loop of `parse_byte_list` over octets separated by arbitrary trivia. -/
theorem byteListLoopT_ok (cfg : Cfg) (bs : List UInt8) :
    ∀ (first : Bool) (acc : List UInt8) (fuel : Nat) (s : St) (te rest : List UInt8),
      BElemsT first bs te → s.rd.rest = te ++ 41 :: rest → te.length + 1 ≤ fuel →
      byteListLoop cfg 41 fuel acc s = .ok (acc ++ bs) (adv s (te.length + 1) false) := by
  induction bs with
  | nil =>
    intro first acc fuel s te rest hte hrest hfuel
    obtain ⟨f, rfl⟩ : ∃ f, fuel = f + 1 := ⟨fuel - 1, by omega⟩
    simp only [BElemsT] at hte
    have hws := wsLen_triv_token te hte 41 rest (by decide) (by decide)
    rw [byteListLoop]
    simp only [bind_apply, parseWhitespace_skip s te 41 rest hrest hws]
    simp [discard_eq, hrest]
  | cons b bs ih =>
    intro first acc fuel s te rest hte hrest hfuel
    obtain ⟨f, rfl⟩ : ∃ f, fuel = f + 1 := ⟨fuel - 1, by omega⟩
    simp only [BElemsT] at hte
    obtain ⟨w, tl, hw, -, htl, rfl⟩ := hte
    obtain ⟨d, dtl, hd, he⟩ := natDigits_head b.toNat
    obtain ⟨g1, g2, g3⟩ := digit_facts2 d hd
    obtain ⟨-, -, -, -, g4, g5, g6⟩ := digit_facts d hd
    simp only [beq_eq_false_iff_ne, ne_eq] at g2 g3 g4 g5 g6
    generalize UInt8.ofNat (48 + d) = c at he g1 g2 g3 g4 g5 g6
    have hb : b.toNat ≤ u64Max := by have := UInt8.toNat_lt b; unfold u64Max; omega
    have hrest' : s.rd.rest = w ++ c :: (dtl ++ (tl ++ 41 :: rest)) := by
      rw [hrest, he]; simp
    have hws : wsLen s.rd.rest = w.length := by
      rw [hrest']; exact wsLen_triv_token w hw c _ g1 g2
    have hdrop : s.rd.rest.drop w.length = natDigits b.toNat ++ (tl ++ 41 :: rest) := by
      rw [hrest]; simp
    have hlen : (w ++ (natDigits b.toNat ++ tl)).length =
        w.length + (natDigits b.toNat).length + tl.length := by
      simp only [List.length_append]; omega
    rw [hlen] at hfuel ⊢
    have hnl : (natDigits b.toNat).length = dtl.length + 1 := by rw [he]; rfl
    rw [byteListLoop]
    have hr1 : (adv s w.length false).rd.rest = c :: (dtl ++ (tl ++ 41 :: rest)) := by
      rw [adv_rest, hdrop, he]; rfl
    simp only [bind_apply, parseWhitespace_eq, hws, peek_eq, hr1, g3, if_false,
      parseNumber, peekOrNull, pure_apply, Option.getD_some, g4, beq_iff_eq, adv_adv,
      parseRadixLiteral, g5, g6, adv_rest, hdrop, he, List.cons_append, Nat.add_zero]
    have hF := bElemsT_follow bs tl rest htl
    rw [parseNumLiteral_ok cfg true b.toNat hb (f + 1) _ _
      (by rw [adv_rest, hdrop]) (by omega) hF (by simp)]
    simp only [adv_adv, endPeek_adv]
    rw [expectNumberEnd_ok _ _ (tl ++ 41 :: rest)
      (by rw [adv_rest]; exact drop_add_left hdrop) hF (by simp)]
    simp only [numTailVal_pos, Number.asU64, adv_adv, Nat.add_zero]
    have h255 : ¬ b.toNat > 255 := by have := UInt8.toNat_lt b; omega
    simp only [h255, if_false]
    rw [ih false (acc ++ [UInt8.ofNat b.toNat]) f _ tl rest htl
      (by rw [adv_rest]; exact drop_add_left hdrop) (by omega)]
    simp only [adv_adv, UInt8.ofNat_toNat, List.append_assoc, List.cons_append, List.nil_append]
    rw [show w.length + (natDigits b.toNat).length + (tl.length + 1) =
      w.length + (natDigits b.toNat).length + tl.length + 1 by omega]
    rw [he]

/-- `parse_byte_list` over trivia, `(`, the octets with trivia, `)`. -/
theorem parseByteListT_ok (cfg : Cfg) (fuel : Nat) (bs w te rest : List UInt8) (s : St)
    (hw : Triv w) (hte : BElemsT true bs te)
    (hrest : s.rd.rest = w ++ 40 :: (te ++ 41 :: rest))
    (hfuel : te.length + 1 ≤ fuel) :
    parseByteList cfg fuel 41 s = .ok bs (adv s (w.length + (te.length + 2)) false) := by
  unfold parseByteList
  have hws := wsLen_triv_token w hw 40 (te ++ 41 :: rest) (by decide) (by decide)
  simp only [bind_apply, parseWhitespace_skip s w 40 _ hrest hws, beq_self_eq_true, if_true,
    discard_eq, adv_rest, hrest, List.drop_left', adv_adv]
  rw [byteListLoopT_ok cfg bs true [] fuel _ te rest hte (by simp [hrest]) hfuel]
  simp only [adv_adv, List.nil_append]
  rw [show w.length + 1 + (te.length + 1) = w.length + (te.length + 2) by omega]

/-- `next_value` on a variant of a byte vector written with a prefix `pre` (`#u8` or `#vu8`)
    that `parse_token` reads as the opening of a byte vector -/
theorem bytes_prefix_rt (cfg : Cfg) (pre : List UInt8) (hh : pre.head? = some 35)
    (hopen : ∀ (fuel : Nat) (s : St) (x : List UInt8), s.rd.rest = pre ++ x →
      parseToken cfg fuel 35 s = .ok (.byteVecOpen 41) (adv s pre.length false))
    (bs w te : List UInt8) (hw : Triv w) (hte : BElemsT true bs te)
    (s : St) (rest : List UInt8) (fuel : Nat) (hg : Good s)
    (hr : s.rd.rest = pre ++ (w ++ 40 :: (te ++ [41])) ++ rest) (hfu : fuel ≥ 1) :
    Runs (nextValue cfg fuel) s (some (.bytes bs)) rest := by
  obtain ⟨f, rfl⟩ : ∃ f, fuel = f + 1 := ⟨fuel - 1, by omega⟩
  have htl : (pre ++ (w ++ 40 :: (te ++ [41]))).length =
      pre.length + (w.length + (te.length + 2)) := by
    simp only [List.length_append, List.length_cons, List.length_nil]
  have hx : s.rd.rest = pre ++ (w ++ 40 :: (te ++ 41 :: rest)) := by rw [hr]; simp
  have hnv := nextValue_byteVec cfg f s (pre ++ (w ++ 40 :: (te ++ [41]))) rest bs pre.length hr
    (by cases pre <;> simp_all)
    (hopen _ _ (w ++ 40 :: (te ++ 41 :: rest)) (by simp [hx]))
    (by
      rw [parseByteListT_ok cfg _ bs w te rest _ hw hte (by simp [hx])
        (by simp only [List.length_append, List.length_cons]; omega)]
      rw [adv_adv, htl])
  exact runs_of_adv _ s _ _ _ rest hg hnv (by rw [hr]; simp)

/-- **bytesOKT_of_compat**: for every compatible pair, every trivia variant of the text of a byte
    vector is read back as `fold p cfg.opts (.bytes bs)` in every follow context. -/
theorem bytesOKT_of_compat (p : Print.Options) (cfg : Cfg)
    (hc : Compatible p cfg.opts = true) : BytesOKT p cfg := by
  intro bs t ht s rest fuel hf hg hr hfu hd
  unfold BytesVar at ht
  cases hp : p.bytes <;> simp only [hp] at ht
  · obtain ⟨w, te, hw, hte, rfl⟩ := ht
    have hfold : fold p cfg.opts (.bytes bs) = .bytes bs := by simp [fold, hp]
    rw [hfold]
    exact bytes_prefix_rt cfg [35, 118, 117, 56] rfl
      (fun fuel s x h => vu8open_aux cfg fuel s x (by simpa using h)) bs w te hw hte s rest fuel hg
      (by simpa using hr) (by omega)
  · obtain ⟨w, te, hw, hte, rfl⟩ := ht
    have hfold : fold p cfg.opts (.bytes bs) = .bytes bs := by simp [fold, hp]
    rw [hfold]
    exact bytes_prefix_rt cfg [35, 117, 56] rfl
      (fun fuel s x h => u8open_aux cfg fuel s x (by simpa using h)) bs w te hw hte s rest fuel hg
      (by simpa using hr) (by omega)
  · subst ht
    have hA := atomOKP_of_leaf p cfg (fun _ => []) (.bytes bs) hc (by simp) ⟨trivial, rfl⟩
    refine hA.2.2.2.2 s rest fuel hf hg ?_ hfu (by simp only [nestingP]; omega)
    rw [atomTextP_bytes, hp]; exact hr

/-- the plain text of the octets is a variant -/
theorem bElemsT_plain (bs : List UInt8) (first : Bool) : BElemsT first bs (elemsText first bs) := by
  induction bs generalizing first with
  | nil => simp only [BElemsT, elemsText]; exact .nil
  | cons b bs ih =>
    simp only [BElemsT, elemsText]
    refine ⟨if first then [] else [32], elemsText false bs, ?_, ?_, ih false, by simp⟩
    · cases first
      · exact .ws 32 [] (by decide) .nil
      · exact .nil
    · intro h; simp [h]

/-- the plain text of a byte vector is one of its variants -/
theorem bytesVar_plain (p : Print.Options) (ryu : Nat → List UInt8) (bs : List UInt8) :
    BytesVar p bs (atomTextP p ryu (.bytes bs)) := by
  rw [atomTextP_bytes]
  unfold BytesVar
  cases hp : p.bytes <;> simp only
  · exact ⟨[], _, .nil, bElemsT_plain bs true, by simp [octetsText_eq]⟩
  · exact ⟨[], _, .nil, bElemsT_plain bs true, by simp [octetsText_eq]⟩

end ListRT
end Parse
end Lexpr
