/-
  The lexer does not look at the recursion budget: running any function below `parse_token`
  (and `parse_token`, `parse_whitespace`, `parse_byte_list` themselves) from a state whose
  `remaining_depth` has been replaced by `d` gives the same result, with `d` in the final state.
  (`ImageDepth.lean` shows that the lexer does not CHANGE the budget; here: it does not READ it.)
  Used by `FrameScan.lean`: the flat token scan of C08 runs the tokenizer without tracking the
  nesting depth.  Same goal-directed style as `DepP` in `ImageDepth.lean`.
-/
import LexprModel.Parse
namespace Lexpr
namespace Parse
namespace DepthInd

/-- the state with its depth budget replaced -/
def setD (d : Nat) (s : St) : St := { s with depth := d }

/-- a result with the depth budget of its final state replaced -/
def rsetD {α : Type} (d : Nat) : Res α → Res α
  | .ok a s => .ok a (setD d s)
  | .err e s => .err e (setD d s)
  | .panic p => .panic p
  | .fuel => .fuel

@[simp] theorem setD_rd (d : Nat) (s : St) : (setD d s).rd = s.rd := rfl
@[simp] theorem setD_depth (d : Nat) (s : St) : (setD d s).depth = d := rfl
@[simp] theorem setD_setD (d e : Nat) (s : St) : setD d (setD e s) = setD d s := rfl
theorem setD_self (s : St) : setD s.depth s = s := rfl

/-- `m` does not read the depth budget -/
structure DInd {α : Type} (m : P α) : Prop where
  eq : ∀ s d, m (setD d s) = rsetD d (m s)

theorem DInd.pure {α : Type} (a : α) : DInd (pure a : P α) := ⟨fun _ _ => rfl⟩
theorem DInd.bind {α β : Type} {m : P α} {f : α → P β} (hm : DInd m) (hf : ∀ a, DInd (f a)) :
    DInd (m >>= f) := by
  constructor
  intro s d
  show P.bind m f (setD d s) = rsetD d (P.bind m f s)
  unfold P.bind
  rw [hm.eq s d]
  cases m s with
  | ok a s' => exact (hf a).eq s' d
  | err e s' => rfl
  | panic p => rfl
  | fuel => rfl
theorem DInd.ite {α : Type} {c : Prop} [Decidable c] {f g : P α} (hf : DInd f) (hg : DInd g) :
    DInd (if c then f else g) := by
  split <;> assumption
theorem DInd.errAt {α : Type} (c : Code) : DInd (errAt c : P α) := ⟨fun _ _ => rfl⟩
theorem DInd.peekErr {α : Type} (c : Code) : DInd (peekErr c : P α) := ⟨fun _ _ => rfl⟩
theorem DInd.panicAt {α : Type} (p : Site) : DInd (panicAt p : P α) := ⟨fun _ _ => rfl⟩
theorem DInd.outOfFuel {α : Type} : DInd (outOfFuel : P α) := ⟨fun _ _ => rfl⟩
theorem DInd.rawErr {α : Type} (e : Err) : DInd (fun s' => Res.err e s' : P α) := ⟨fun _ _ => rfl⟩
/-- the last arm of `parse_token` reads the state as a value, and uses its reader only -/
theorem DInd.bind_getSt {β : Type} {f : St → P β} (hf : ∀ s0, DInd (f s0))
    (hrd : ∀ s0 d, f (setD d s0) = f s0) :
    DInd ((fun s => Res.ok s s : P St) >>= f) := by
  constructor
  intro s d
  show f (setD d s) (setD d s) = rsetD d (f s s)
  rw [hrd s d]
  exact (hf s).eq s d
theorem DInd.peek : DInd peek := by
  constructor; intro s d
  unfold Parse.peek
  simp only [setD_rd]
  cases s.rd.rest with
  | nil => by_cases hf : s.rd.faulty = true <;> simp [hf, rsetD]
  | cons b bs => rfl
theorem DInd.next : DInd next := by
  constructor; intro s d
  unfold Parse.next
  simp only [setD_rd]
  cases s.rd.rest with
  | nil => by_cases hf : s.rd.faulty = true <;> simp [hf, rsetD]
  | cons b bs => rfl
theorem DInd.discard : DInd discard := by
  constructor; intro s d
  unfold Parse.discard
  simp only [setD_rd]
  cases s.rd.rest <;> rfl
theorem DInd.consumeN (n : Nat) : DInd (consumeN n) := ⟨fun _ _ => rfl⟩
theorem DInd.getRest : DInd getRest := ⟨fun _ _ => rfl⟩
theorem DInd.getMode : DInd getMode := ⟨fun _ _ => rfl⟩
theorem DInd.getPos : DInd getPos := ⟨fun _ _ => rfl⟩

syntax "dind" (" [" term,* "]")? : tactic
macro_rules
  | `(tactic| dind) => `(tactic| dind [])
  | `(tactic| dind [$ts,*]) => do
    let alts ← ts.getElems.mapM fun t => `(tactic| (apply $t))
    `(tactic| repeat' (first
      | assumption
      | exact DInd.pure _ | exact DInd.errAt _ | exact DInd.peekErr _ | exact DInd.panicAt _
      | exact DInd.outOfFuel | exact DInd.peek | exact DInd.next | exact DInd.discard
      | exact DInd.consumeN _ | exact DInd.getRest | exact DInd.getMode | exact DInd.getPos
      | exact DInd.rawErr _
      $[| $alts:tactic]*
      | apply DInd.bind | apply DInd.ite | intro _ | split))

theorem DInd.peekOrNull : DInd peekOrNull := by unfold Parse.peekOrNull; dind
theorem DInd.nextOrNull : DInd nextOrNull := by unfold Parse.nextOrNull; dind
theorem DInd.nextOrEof : DInd nextOrEof := by unfold Parse.nextOrEof; dind
theorem DInd.nextOrEofChar : DInd nextOrEofChar := by unfold Parse.nextOrEofChar; dind
theorem DInd.parseWhitespace : DInd parseWhitespace := by unfold Parse.parseWhitespace; dind
theorem DInd.skipDigits : DInd skipDigits := by unfold Parse.skipDigits; dind
theorem DInd.f64FromParts (cfg : Cfg) (pos : Bool) (sig : Nat) (e : Int) :
    DInd (f64FromParts cfg pos sig e) := by unfold Parse.f64FromParts; dind
theorem DInd.parseExponentOverflow (pos : Bool) (sig : Nat) (posExp : Bool) :
    DInd (parseExponentOverflow pos sig posExp) := by
  unfold Parse.parseExponentOverflow; dind [DInd.skipDigits]

theorem DInd.readCont (n : Nat) : ∀ acc, DInd (readCont n acc) := by
  induction n with
  | zero => intro acc; simp only [Parse.readCont]; dind
  | succ n ih => intro acc; simp only [Parse.readCont]; dind [ih]

theorem DInd.decodeUtf8Sequence (b : UInt8) : DInd (decodeUtf8Sequence b) := by
  simp only [Parse.decodeUtf8Sequence]; dind [DInd.readCont]

theorem DInd.decodeR6rsHexEscape (f : Nat) : ∀ n, DInd (decodeR6rsHexEscape f n) := by
  induction f with
  | zero => intro n; simp only [Parse.decodeR6rsHexEscape]; dind
  | succ f ih => intro n; simp only [Parse.decodeR6rsHexEscape]; dind [ih, DInd.nextOrEof]

theorem DInd.parseR6rsEscape (f : Nat) (acc : List UInt8) : DInd (parseR6rsEscape f acc) := by
  simp only [Parse.parseR6rsEscape]; dind [DInd.nextOrEof, DInd.decodeR6rsHexEscape]

theorem DInd.finishStr (c : Bool) (bs : List UInt8) : DInd (finishStr c bs) := by
  simp only [Parse.finishStr]; dind

theorem DInd.parseR6rsStr (f : Nat) : ∀ acc, DInd (parseR6rsStr f acc) := by
  induction f with
  | zero => intro acc; simp only [Parse.parseR6rsStr]; dind
  | succ f ih =>
    intro acc; simp only [Parse.parseR6rsStr]
    dind [ih, DInd.nextOrEof, DInd.finishStr, DInd.parseR6rsEscape]

theorem DInd.decodeElispHexEscape (f : Nat) : ∀ n, DInd (decodeElispHexEscape f n) := by
  induction f with
  | zero => intro n; simp only [Parse.decodeElispHexEscape]; dind
  | succ f ih => intro n; simp only [Parse.decodeElispHexEscape]; dind [ih]

theorem DInd.decodeElispUniEscape (k : Nat) : ∀ n, DInd (decodeElispUniEscape k n) := by
  induction k with
  | zero => intro n; simp only [Parse.decodeElispUniEscape]; dind
  | succ f ih => intro n; simp only [Parse.decodeElispUniEscape]; dind [ih, DInd.nextOrEof]

theorem DInd.decodeElispOctalEscape (f : Nat) : ∀ n, DInd (decodeElispOctalEscape f n) := by
  induction f with
  | zero => intro n; simp only [Parse.decodeElispOctalEscape]; dind
  | succ f ih => intro n; simp only [Parse.decodeElispOctalEscape]; dind [ih]

theorem DInd.elispCharEscape (acc : List UInt8) (n : Nat) : DInd (elispCharEscape acc n) := by
  simp only [Parse.elispCharEscape]; dind
theorem DInd.elispUniCharEscape (acc : List UInt8) (n : Nat) : DInd (elispUniCharEscape acc n) := by
  simp only [Parse.elispUniCharEscape]; dind

theorem DInd.parseElispEscape (f : Nat) (acc : List UInt8) : DInd (parseElispEscape f acc) := by
  simp only [Parse.parseElispEscape]
  dind [DInd.nextOrEof, DInd.decodeElispHexEscape, DInd.decodeElispUniEscape,
    DInd.decodeElispOctalEscape, DInd.elispCharEscape, DInd.elispUniCharEscape]

theorem DInd.parseElispStr (f : Nat) : ∀ acc ub mb na, DInd (parseElispStr f acc ub mb na) := by
  induction f with
  | zero => intro acc ub mb na; simp only [Parse.parseElispStr]; dind
  | succ f ih =>
    intro acc ub mb na; simp only [Parse.parseElispStr]
    dind [ih, DInd.nextOrEof, DInd.finishStr, DInd.parseElispEscape]

theorem DInd.decodeR6rsCharHexEscape (f : Nat) : ∀ n b, DInd (decodeR6rsCharHexEscape f n b) := by
  induction f with
  | zero => intro n b; simp only [Parse.decodeR6rsCharHexEscape]; dind
  | succ f ih => intro n b; simp only [Parse.decodeR6rsCharHexEscape]; dind [ih]

theorem DInd.parseR6rsChar (f : Nat) : DInd (parseR6rsChar f) := by
  simp only [Parse.parseR6rsChar]
  dind [DInd.nextOrEofChar, DInd.decodeR6rsCharHexEscape, DInd.decodeUtf8Sequence]

theorem DInd.asChar (n : Nat) : DInd (asChar n) := by simp only [Parse.asChar]; dind

theorem DInd.decodeElispCharEscape (f : Nat) : DInd (decodeElispCharEscape f) := by
  simp only [Parse.decodeElispCharEscape]
  dind [DInd.nextOrEofChar, DInd.nextOrEof, DInd.decodeElispHexEscape, DInd.decodeElispUniEscape,
    DInd.decodeElispOctalEscape, DInd.asChar, DInd.decodeUtf8Sequence]

theorem DInd.parseElispChar (f : Nat) : DInd (parseElispChar f) := by
  simp only [Parse.parseElispChar]; dind [DInd.decodeUtf8Sequence, DInd.decodeElispCharEscape]

theorem DInd.exponentLoop (cfg : Cfg) (pos : Bool) (sig : Nat) (se : Int) (pe : Bool) (f : Nat) :
    ∀ e, DInd (exponentLoop cfg pos sig se pe f e) := by
  induction f with
  | zero => intro e; simp only [Parse.exponentLoop]; dind
  | succ f ih =>
    intro e; simp only [Parse.exponentLoop]
    dind [ih, DInd.peekOrNull, DInd.parseExponentOverflow, DInd.f64FromParts]

theorem DInd.parseExponent (cfg : Cfg) (f : Nat) (pos : Bool) (sig : Nat) (se : Int) :
    DInd (parseExponent cfg f pos sig se) := by
  simp only [Parse.parseExponent]; dind [DInd.peekOrNull, DInd.exponentLoop]

theorem DInd.decimalLoop (f : Nat) : ∀ sig e z a, DInd (decimalLoop f sig e z a) := by
  induction f with
  | zero => intro sig e z a; simp only [Parse.decimalLoop]; dind
  | succ f ih =>
    intro sig e z a; simp only [Parse.decimalLoop]; dind [ih, DInd.peekOrNull, DInd.skipDigits]

theorem DInd.parseDecimal (cfg : Cfg) (f : Nat) (pos : Bool) (sig : Nat) (e : Int) :
    DInd (parseDecimal cfg f pos sig e) := by
  simp only [Parse.parseDecimal]
  dind [DInd.peekOrNull, DInd.decimalLoop, DInd.parseExponent, DInd.f64FromParts]

set_option exponentiation.threshold 2000 in
theorem DInd.parseLongInteger (cfg : Cfg) (radix : Nat) (pos : Bool) (sig : Nat) (f : Nat) :
    ∀ e, DInd (parseLongInteger cfg radix pos sig f e) := by
  induction f with
  | zero => intro e; simp only [Parse.parseLongInteger]; dind
  | succ f ih =>
    intro e; simp only [Parse.parseLongInteger]
    dind [ih, DInd.peekOrNull, DInd.parseDecimal, DInd.parseExponent, DInd.f64FromParts]

theorem DInd.parseNumTail (cfg : Cfg) (f : Nat) (radix : Nat) (pos : Bool) (sig : Nat) :
    DInd (parseNumTail cfg f radix pos sig) := by
  simp only [Parse.parseNumTail]; dind [DInd.peekOrNull, DInd.parseDecimal, DInd.parseExponent]

theorem DInd.numLoop (cfg : Cfg) (radix : Nat) (pos : Bool) (f : Nat) :
    ∀ r, DInd (numLoop cfg radix pos f r) := by
  induction f with
  | zero => intro r; simp only [Parse.numLoop]; dind
  | succ f ih =>
    intro r; simp only [Parse.numLoop]
    dind [ih, DInd.peekOrNull, DInd.parseNumTail, DInd.parseLongInteger]

theorem DInd.parseNumLiteral (cfg : Cfg) (f : Nat) (radix : Nat) (pos : Bool) :
    DInd (parseNumLiteral cfg f radix pos) := by
  simp only [Parse.parseNumLiteral]; dind [DInd.numLoop]

theorem DInd.parseRadixLiteral (cfg : Cfg) (f : Nat) (radix : Nat) :
    DInd (parseRadixLiteral cfg f radix) := by
  simp only [Parse.parseRadixLiteral]; dind [DInd.peekOrNull, DInd.parseNumLiteral]

theorem DInd.expectNumberEnd (n : Number) : DInd (expectNumberEnd n) := by
  simp only [Parse.expectNumberEnd]; dind

theorem DInd.parseNumToken (cfg : Cfg) (f : Nat) (pos : Bool) : DInd (parseNumToken cfg f pos) := by
  simp only [Parse.parseNumToken]; dind [DInd.parseNumLiteral, DInd.expectNumberEnd]

theorem DInd.parseRadixToken (cfg : Cfg) (f : Nat) (radix : Nat) :
    DInd (parseRadixToken cfg f radix) := by
  simp only [Parse.parseRadixToken]; dind [DInd.parseRadixLiteral, DInd.expectNumberEnd]

theorem DInd.parseNumber (cfg : Cfg) (f : Nat) : DInd (parseNumber cfg f) := by
  simp only [Parse.parseNumber]; dind [DInd.peekOrNull, DInd.nextOrNull, DInd.parseRadixLiteral]

theorem DInd.expectIdent : ∀ cs, DInd (expectIdent cs)
  | [] => by simp only [Parse.expectIdent]; dind
  | c :: cs => by
    have ih := DInd.expectIdent cs
    simp only [Parse.expectIdent]; dind

theorem DInd.parseSymbolBytes (scratch : List UInt8) : DInd (parseSymbolBytes scratch) := by
  simp only [Parse.parseSymbolBytes]; dind

theorem DInd.parseSignDotSymbol (cfg : Cfg) (pfx : List UInt8) :
    DInd (parseSignDotSymbol cfg pfx) := by
  simp only [Parse.parseSignDotSymbol]; dind [DInd.peekOrNull, DInd.parseSymbolBytes]

theorem DInd.parseSignToken (cfg : Cfg) (f : Nat) (sign : UInt8) (pos : Bool) :
    DInd (parseSignToken cfg f sign pos) := by
  simp only [Parse.parseSignToken]
  dind [DInd.peekOrNull, DInd.parseSymbolBytes, DInd.parseSignDotSymbol, DInd.parseNumToken]

theorem lastArm_dind : DInd (do
    let s ← (fun s => Res.ok s s : P St)
    let pp := s.rd.peekPosition
    Parse.discard
    (fun s' => Res.err (.syntax .expectedSomeValue pp.line pp.col) s' : P Token)) :=
  DInd.bind_getSt (fun s0 => by dind) (fun _ _ => rfl)

theorem DInd.parseToken (cfg : Cfg) (f : Nat) (pk : UInt8) : DInd (parseToken cfg f pk) := by
  simp only [Parse.parseToken]
  dind [DInd.peekOrNull, DInd.parseSymbolBytes, DInd.parseSignToken, DInd.parseNumToken,
    DInd.parseRadixToken, DInd.expectIdent, DInd.parseR6rsChar, DInd.parseElispChar,
    DInd.parseR6rsStr, DInd.parseElispStr, DInd.decodeUtf8Sequence, lastArm_dind]

theorem DInd.endSeq (close : UInt8) : DInd (endSeq close) := by
  simp only [Parse.endSeq]; dind [DInd.parseWhitespace]

theorem DInd.byteListLoop (cfg : Cfg) (close : UInt8) (f : Nat) :
    ∀ acc, DInd (byteListLoop cfg close f acc) := by
  induction f with
  | zero => intro acc; simp only [Parse.byteListLoop]; dind
  | succ f ih =>
    intro acc; simp only [Parse.byteListLoop]
    dind [ih, DInd.parseWhitespace, DInd.parseNumber, DInd.expectNumberEnd]

theorem DInd.parseByteList (cfg : Cfg) (f : Nat) (close : UInt8) :
    DInd (parseByteList cfg f close) := by
  simp only [Parse.parseByteList]; dind [DInd.parseWhitespace, DInd.byteListLoop]


end DepthInd
end Parse
end Lexpr
