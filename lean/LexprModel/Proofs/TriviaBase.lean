/-
  TriviaBase — trivia strings (whitespace and complete line comments) and the rounds of the
  parser loops with an arbitrary trivia string where `DialectStructRT.lean` has nothing or one
  space.

  `Triv` is the same inductive predicate as `Parse.Trivia` of `Props/C12.lean` (copied under a
  new name so that `Props/C12.lean` can import this development without a cycle);
  `wsLen_triv` is `C12_trivia_skipped`, `wsLen_final_comment` is `C12_final_comment`.
-/
import LexprModel.Proofs.DialectStructRT
namespace Lexpr
namespace Parse
namespace ListRT
open Print Spec

/-! ### trivia strings -/

/-- Trivia: whitespace bytes (space, tab, CR, LF, form feed) and complete comments `; … LF`. -/
inductive Triv : List UInt8 → Prop where
  | nil : Triv []
  | ws (b : UInt8) (t : List UInt8) : isTrivia b = true → Triv t → Triv (b :: t)
  | comment (body t : List UInt8) : (∀ x ∈ body, x ≠ 10) → Triv t → Triv (59 :: (body ++ 10 :: t))

/-- Trivia at the very end of the input: the last comment may lack its line feed. -/
def TrivEnd (t : List UInt8) : Prop :=
  ∃ w c, Triv w ∧ (c = [] ∨ ∃ body, (∀ x ∈ body, x ≠ 10) ∧ c = 59 :: body) ∧ t = w ++ c

theorem Triv.toEnd {t : List UInt8} (h : Triv t) : TrivEnd t :=
  ⟨t, [], h, Or.inl rfl, by simp⟩

theorem Triv.append {a b : List UInt8} (ha : Triv a) (hb : Triv b) : Triv (a ++ b) := by
  induction ha with
  | nil => simpa using hb
  | ws c t hc _ ih => exact .ws c _ hc ih
  | comment body t hbody _ ih =>
    have : 59 :: (body ++ 10 :: t) ++ b = 59 :: (body ++ 10 :: (t ++ b)) := by simp
    rw [this]; exact .comment body _ hbody ih

theorem commentLen_bodyT (body rest : List UInt8) (h : ∀ x ∈ body, x ≠ 10) :
    commentLen (body ++ 10 :: rest) = body.length + 1 + wsLen rest := by
  induction body with
  | nil => simp [commentLen]; omega
  | cons b bs ih =>
    have hb : b ≠ 10 := h b (by simp)
    have : (b == 10) = false := by simpa using hb
    simp only [List.cons_append, commentLen, this, Bool.false_eq_true, ↓reduceIte, List.length_cons]
    rw [ih (fun x hx => h x (by simp [hx]))]
    omega

theorem trivia_not_semicolon (b : UInt8) (hb : isTrivia b = true) : (b == 59) = false := by
  cases hc : (b == 59)
  · rfl
  · have : b = 59 := by simpa using hc
    subst this; simp [isTrivia] at hb

/-- trivia in front of any input is skipped as a whole (`C12_trivia_skipped`) -/
theorem wsLen_triv (tr rest : List UInt8) (h : Triv tr) :
    wsLen (tr ++ rest) = tr.length + wsLen rest := by
  induction h with
  | nil => simp
  | ws b t hb _ ih =>
    have hne := trivia_not_semicolon b hb
    simp only [List.cons_append, wsLen, hne, Bool.false_eq_true, ↓reduceIte, hb, List.length_cons]
    omega
  | comment body t hbody _ ih =>
    simp only [List.cons_append, List.append_assoc, wsLen, beq_self_eq_true, ↓reduceIte,
      List.length_cons, List.length_append]
    rw [commentLen_bodyT body (t ++ rest) hbody, ih]
    omega

/-- a final comment without a line feed is skipped to the end (`C12_final_comment`) -/
theorem wsLen_final_comment (body : List UInt8) (h : ∀ x ∈ body, x ≠ 10) :
    wsLen (59 :: body) = body.length + 1 := by
  have : commentLen body = body.length := by
    induction body with
    | nil => rfl
    | cons b bs ih =>
      have hb : (b == 10) = false := by simpa using h b (by simp)
      simp [commentLen, hb, ih (fun x hx => h x (by simp [hx]))]
  simp [wsLen, this]

theorem wsLen_trivEnd (t : List UInt8) (h : TrivEnd t) : wsLen t = t.length := by
  obtain ⟨w, c, hw, hc, rfl⟩ := h
  rw [wsLen_triv w c hw]
  rcases hc with rfl | ⟨body, hb, rfl⟩
  · simp [wsLen]
  · rw [wsLen_final_comment body hb]; simp

/-- the first byte of a non-empty trivia string is a whitespace byte or `;` -/
theorem Triv.head {w : List UInt8} (h : Triv w) (hne : w ≠ []) :
    ∃ b tl, w = b :: tl ∧ (isTrivia b = true ∨ b = 59) := by
  cases h with
  | nil => exact absurd rfl hne
  | ws b t hb _ => exact ⟨b, t, rfl, Or.inl hb⟩
  | comment body t _ _ => exact ⟨59, _, rfl, Or.inr rfl⟩

theorem trivia_byte_facts (b : UInt8) (h : isTrivia b = true ∨ b = 59) :
    isFollow b = true ∧ isDelimiter b = true ∧ symTermSlice b = true ∧ symTermIo b = true := by
  rcases h with h | h
  · simp only [isTrivia, Bool.or_eq_true, beq_iff_eq] at h
    rcases h with (((h | h) | h) | h) | h <;> subst h <;> decide
  · subst h; decide

/-- non-empty trivia ends every token -/
theorem Triv.follow {w : List UInt8} (h : Triv w) (hne : w ≠ []) (rest : List UInt8) :
    Follow (w ++ rest) := by
  obtain ⟨b, tl, rfl, hb⟩ := h.head hne
  exact follow_cons b (tl ++ rest) (trivia_byte_facts b hb).1

/-- trivia (possibly empty) in front of a follow context is a follow context -/
theorem Triv.follow' {w : List UInt8} (h : Triv w) (rest : List UInt8) (hf : Follow rest) :
    Follow (w ++ rest) := by
  by_cases hne : w = []
  · subst hne; simpa using hf
  · exact h.follow hne rest

theorem TrivEnd.follow {w : List UInt8} (h : TrivEnd w) : Follow w := by
  obtain ⟨w, c, hw, hc, rfl⟩ := h
  refine hw.follow' c ?_
  rcases hc with rfl | ⟨body, _, rfl⟩
  · exact Or.inl rfl
  · exact follow_cons 59 body (by decide)

/-! ### `parse_whitespace` over trivia -/

/-- `parse_whitespace` skips a trivia string in front of a byte that starts a token -/
theorem ws_triv (s : St) (h : Good s) (w : List UInt8) (hw : Triv w) (c : UInt8) (tl : List UInt8)
    (hr : s.rd.rest = w ++ c :: tl) (h1 : isTrivia c = false) (h2 : (c == 59) = false) :
    Runs parseWhitespace s (some c) (c :: tl) := by
  have := ws_runs s h
  rw [hr, wsLen_triv w (c :: tl) hw, wsLen_start c tl h1 h2] at this
  simpa using this

/-- `parse_whitespace` on final trivia reaches the end of the input -/
theorem ws_trivEnd (s : St) (h : Good s) (hr : TrivEnd s.rd.rest) :
    Runs parseWhitespace s none [] := by
  have := ws_runs s h
  rw [wsLen_trivEnd _ hr] at this
  simpa using this

/-- `next_value` skips leading trivia: same result as from the state behind it -/
theorem nextValue_skipT (cfg : Cfg) (s : St) (h : Good s) (w : List UInt8) (hw : Triv w)
    (c : UInt8) (tl : List UInt8)
    (hr : s.rd.rest = w ++ c :: tl) (h1 : isTrivia c = false) (h2 : (c == 59) = false) :
    ∃ s1, Good s1 ∧ s1.rd.rest = c :: tl ∧ s1.depth = s.depth ∧
      ∀ f, nextValue cfg f s = nextValue cfg f s1 := by
  obtain ⟨hm, hf⟩ := h
  refine ⟨{ s with rd := s.rd.consume w.length }, ⟨by simp [hm], by simp [hf]⟩, by simp [hr], rfl, ?_⟩
  intro f
  cases f with
  | zero => simp [nextValue, outOfFuel]
  | succ f =>
    have hw : parseWhitespace s = parseWhitespace { s with rd := s.rd.consume w.length } := by
      show peek { s with rd := s.rd.consume (wsLen s.rd.rest) } =
        peek { s with rd := (s.rd.consume w.length).consume (wsLen (s.rd.consume w.length).rest) }
      rw [hr, wsLen_triv w (c :: tl) hw, wsLen_start c tl h1 h2]
      simp only [consume_rest, hr, List.drop_left', wsLen_start c tl h1 h2, consume_consume]
    simp only [nextValue, bind_apply, hw]

/-! ### the rounds of the loops -/

/-- the list loop at (trivia and) the closing parenthesis -/
theorem parseList_closeT (cfg : Cfg) (f : Nat) (s : St) (acc : List Value) (w rest : List UInt8)
    (h : Good s) (hw : Triv w) (hr : s.rd.rest = w ++ 41 :: rest) :
    Runs (parseList cfg (f + 1) 41 acc) s (Value.list acc) (41 :: rest) := by
  obtain ⟨s1, e1, r1, g1, d1⟩ := ws_triv s h w hw 41 rest hr (by decide) (by decide)
  refine ⟨s1, ?_, r1, g1, d1⟩
  simp [parseList, e1]

/-- the vector loop at (trivia and) the closing delimiter -/
theorem parseVector_closeT (cfg : Cfg) (t : UInt8) (ht : t = 41 ∨ t = 93) (f : Nat) (s : St)
    (acc : List Value) (w rest : List UInt8) (h : Good s) (hw : Triv w)
    (hr : s.rd.rest = w ++ t :: rest) :
    Runs (parseVector cfg (f + 1) t acc) s acc (t :: rest) := by
  obtain ⟨c1, c2, -, -⟩ := close_facts t ht
  obtain ⟨s1, e1, r1, g1, d1⟩ := ws_triv s h w hw t rest hr c1 c2
  refine ⟨s1, ?_, r1, g1, d1⟩
  simp [parseVector, e1, ht]

/-- one round of the list loop on any element preceded by trivia -/
theorem list_elem_stepT (cfg : Cfg) (F : Nat) (s : St)
    (acc : List Value) (a w : Value) (pre t rest' rest'' : List UInt8)
    (h : Good s) (hpre : Triv pre) (hr : s.rd.rest = pre ++ (t ++ rest'))
    (hhead : ElemHead t)
    (hv : ∀ s1, Good s1 → s1.rd.rest = t ++ rest' → s1.depth = s.depth →
      Runs (nextValue cfg (F + 1)) s1 (some a) rest')
    (hk : ∀ s2, Good s2 → s2.rd.rest = rest' → s2.depth = s.depth →
      Runs (parseList cfg (F + 1) 41 (acc ++ [a])) s2 w rest'') :
    Runs (parseList cfg (F + 2) 41 acc) s w rest'' := by
  obtain ⟨c, tl, ht, h1, h2, h3, h4, h5⟩ := hhead.append rest'
  rw [ht] at hr hv
  have h2' : (c == 59) = false := by simp [h2]
  have hws : Runs parseWhitespace s (some c) (c :: tl) := ws_triv s h pre hpre c tl hr h1 h2'
  by_cases hc : c = 46
  · subst hc
    obtain ⟨b, tl', rfl, hb0, hbd⟩ := h5 rfl
    exact parseList_dotsymP cfg F s acc b tl' rest' rest'' a w hws hb0 hbd hv hk
  · exact parseList_elem cfg (F + 1) s acc c tl rest' rest'' a w hws h3 h4 hc hv hk

/-- one round of the vector loop on any element preceded by trivia -/
theorem vec_elem_stepT (cfg : Cfg) (t : UInt8) (F : Nat) (s : St)
    (acc : List Value) (a : Value) (w : List Value) (pre tx rest' rest'' : List UInt8)
    (h : Good s) (hpre : Triv pre) (hr : s.rd.rest = pre ++ (tx ++ rest'))
    (hhead : ElemHead tx)
    (hv : ∀ s1, Good s1 → s1.rd.rest = tx ++ rest' → s1.depth = s.depth →
      Runs (nextValue cfg F) s1 (some a) rest')
    (hk : ∀ s2, Good s2 → s2.rd.rest = rest' → s2.depth = s.depth →
      Runs (parseVector cfg F t (acc ++ [a])) s2 w rest'') :
    Runs (parseVector cfg (F + 1) t acc) s w rest'' := by
  obtain ⟨c, tl, ht, h1, h2, h3, h4, h5⟩ := hhead.append rest'
  rw [ht] at hr hv
  have h2' : (c == 59) = false := by simp [h2]
  have hws : Runs parseWhitespace s (some c) (c :: tl) := ws_triv s h pre hpre c tl hr h1 h2'
  exact parseVector_elemP cfg t F s acc c tl rest' rest'' a w hws h3 h4 hv hk

/-- the dotted tail: trivia, `.`, non-empty trivia, the tail, trivia, `)` -/
theorem parseList_dottedT (cfg : Cfg) (f : Nat) (s : St) (acc : List Value)
    (w1 w2 w3 tl rest : List UInt8) (d : Value) (h : Good s)
    (hw1 : Triv w1) (hw2 : Triv w2) (hne2 : w2 ≠ []) (hw3 : Triv w3)
    (hr : s.rd.rest = w1 ++ 46 :: (w2 ++ tl)) (hacc : acc ≠ [])
    (hv : ∀ s1, Good s1 → s1.rd.rest = w2 ++ tl → s1.depth = s.depth →
      Runs (nextValue cfg f) s1 (some d) (w3 ++ 41 :: rest)) :
    Runs (parseList cfg (f + 1) 41 acc) s (Value.append acc d) (41 :: rest) := by
  obtain ⟨b, w2', rfl, hb⟩ := hw2.head hne2
  obtain ⟨s1, e1, r1, g1, d1⟩ := ws_triv s h w1 hw1 46 _ hr (by decide) (by decide)
  obtain ⟨s2, e2, r2, g2, d2⟩ := discard_runs s1 g1 46 _ r1
  obtain ⟨s3, e3, r3, g3, d3⟩ := peekOrNull_runs s2 g2 b _ (by simpa using r2)
  obtain ⟨s4, e4, r4, g4, d4⟩ := hv s3 g3 (by simpa using r3) (by omega)
  obtain ⟨s5, e5, r5, g5, d5⟩ := ws_triv s4 g4 w3 hw3 41 rest r4 (by decide) (by decide)
  refine ⟨s5, ?_, r5, g5, by omega⟩
  have hacc' : acc.isEmpty = false := by cases acc <;> simp_all
  have hdel : isDelimiter b = true := (trivia_byte_facts b hb).2.1
  simp [parseList, e1, e2, e3, hdel, hacc', e4, e5]

/-- `expect_end` on final trivia -/
theorem expectEnd_runsT (s : St) (h : Good s) (hr : TrivEnd s.rd.rest) :
    Runs expectEnd s () [] := by
  obtain ⟨s1, e1, r1, g1, d1⟩ := ws_trivEnd s h hr
  exact ⟨s1, by simp [expectEnd, e1], r1, g1, d1⟩

/-- `from_trait`: `next_value` with the public fuel, then only final trivia -/
theorem fromTrait_of_nextValueT (cfg : Cfg) (s : St) (v : Value) (w : List UInt8) (hw : TrivEnd w)
    (hv : Runs (nextValue cfg (2 * s.rd.rest.length + 4)) s (some v) w) :
    Runs (fromTrait cfg) s v [] := by
  obtain ⟨s1, e1, r1, g1, d1⟩ := hv
  obtain ⟨s2, e2, r2, g2, d2⟩ := expectEnd_runsT s1 g1 (by rw [r1]; exact hw)
  refine ⟨s2, ?_, r2, g2, by omega⟩
  simp [fromTrait, expectValue, nextValueTop, apiFuel, e1, e2]

/-! ### byte vectors with trivia -/

/-- The elements of a byte vector with trivia: a trivia string before every element (non-empty
    before every element but the first, where the printer writes a space) and one (possibly
    empty) before the closing parenthesis. -/
def BElemsT : Bool → List UInt8 → List UInt8 → Prop
  | _, [], t => Triv t
  | first, b :: bs, t => ∃ w tl, Triv w ∧ (first = false → w ≠ []) ∧ BElemsT false bs tl ∧
      t = w ++ (natDigits b.toNat ++ tl)

/-- The trivia variants of the text of a byte vector: `#u8` / `#vu8`, trivia, `(`, the elements
    with trivia, `)`.  The Emacs Lisp unibyte string `"\ooo…"` is a single token and is kept
    verbatim. -/
def BytesVar (p : Print.Options) (bs t : List UInt8) : Prop :=
  match p.bytes with
  | .r6rs => ∃ w te, Triv w ∧ BElemsT true bs te ∧
      t = 35 :: 118 :: 117 :: 56 :: (w ++ 40 :: (te ++ [41]))
  | .r7rs => ∃ w te, Triv w ∧ BElemsT true bs te ∧ t = 35 :: 117 :: 56 :: (w ++ 40 :: (te ++ [41]))
  | .elisp => t = 34 :: (Print.elispBytesText bs ++ [34])

/-- every trivia variant of every byte vector is read back in every follow context -/
def BytesOKT (p : Print.Options) (cfg : Cfg) : Prop :=
  ∀ (bs t : List UInt8), BytesVar p bs t →
    ∀ (s : St) (rest : List UInt8) (fuel : Nat), Follow rest → Good s →
      s.rd.rest = t ++ rest → fuel ≥ s.rd.rest.length + 2 → 1 ≤ s.depth →
      Runs (nextValue cfg fuel) s (some (fold p cfg.opts (.bytes bs))) rest

theorem bytesVar_head (p : Print.Options) (bs t : List UInt8) (h : BytesVar p bs t) :
    ElemHead t := by
  unfold BytesVar at h
  cases hp : p.bytes <;> simp only [hp] at h
  · obtain ⟨w, te, -, -, rfl⟩ := h
    exact head_of_byte _ _ (by decide) (by decide) (by decide) (by decide) (by decide)
  · obtain ⟨w, te, -, -, rfl⟩ := h
    exact head_of_byte _ _ (by decide) (by decide) (by decide) (by decide) (by decide)
  · subst h
    exact head_of_byte _ _ (by decide) (by decide) (by decide) (by decide) (by decide)

end ListRT
end Parse
end Lexpr
